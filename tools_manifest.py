#!/usr/bin/env python3
"""Regenerate MANIFEST.json from the table below (keeps not_applicable current)."""
import json, os
HERE = os.path.dirname(os.path.abspath(__file__))
props = [json.loads(l) for l in open(os.path.join(HERE, 'properties.jsonl'))]

# property -> (level text, level note, technique, design_ref)
CLAIMED = {
 'C15': ('Machine-checked theorem (Lean 4, any linear ordered field): the collision test regenerated from the source by symbolic '
         'execution answers true iff the closed segment meets the closed box, for every segment and box; the loop over boxes is '
         'the disjunction (traced with 0,1,2 boxes). The translator is cross-checked against the real method; an independent exact '
         'oracle searches the lattice for a failing input whenever anything breaks.',
         'Trusted: Lean kernel, Mathlib, the symbolic tracer (translate/trace.py, gen_c15.py); tm indexing glue is doubled while tracing; IEEE rounding outside the theorem.',
         'Lean 4 proof over a model regenerated from source by a symbolic-execution translator (SAT theorem + 1-D Helly), translator cross-checked by differential run',
         'DESIGN.md section 5 C15'),
 'C19': ('Machine-checked theorems (Lean 4) about an executable model of the Comms hub: no rule table ever holds a duplicate (invariant by '
         'induction over every history), a received message produces exactly the sends/sink calls of the current rules (once each), a no-data '
         'receive is silent, registration calls return true iff the rule set changed, each spin calls each source once. The model is tied to '
         'the real class by an exhaustive + random differential run over operation histories; a direct property oracle on the real object supplies replays.',
         'Trusted: Lean kernel, Mathlib, harness/c19.py (doubles, generators). Sockets only smoke-tested on loopback; callbacks that re-enter the hub are not modelled.',
         'Lean 4 invariant/refinement proofs over a hand-written state-machine model + exhaustive/random correspondence with the real Comms class',
         'DESIGN.md section 5 C19'),
 'C01': ('Machine-checked theorems (Lean 4, over the reals) about an executable model of the SO(3)/SE(3) kernels with the code\'s exact branches and constants: '
         'exp3/exp6 land in SO(3)/SE(3) for every rotation vector (both sides of the 1e-6 cut-off), log3(exp3 w) = w for 1e-6 <= |w| < pi and = 0 inside the band, '
         'exp3(log3 R) = R on all of SO(3) (identity, generic and half-turn branches with all three pivots; angle 0 or at least the cut-off), '
         'hat/vee inverse, inv(T)T = I, Ad(T1T2) = Ad(T1)Ad(T2), Ad(inv T) = inv(Ad T), T[V]inv(T) = [Ad(T)V], ad = bracket. log6(exp6 V) = V for every twist with |w| = 0 or in [1e-6, pi) and exp6(log6 T) = T for every rigid transform with rotation angle 0 or at least the cut-off, half turns included (lterm * G = theta I from K^3 = -K and the half-angle identities). '
         'Model tied to the compiled kernels by a differential run on structured inputs.',
         'Trusted: Lean kernel, Mathlib, harness generators/tolerances; IEEE rounding/libm/Numba outside the theorems (the falsifier found a genuine precision defect near pi that no real-number theorem can see: known finding).',
         'Lean 4 proofs over a generic executable model (Float instance run against the code, real instance proved) + differential correspondence',
         'DESIGN.md section 5 C01'),
 'C03': ('Machine-checked theorems (Lean 4, reals) about an executable model of class tm: every writer of the six-vector is coherent by construction; every writer of the matrix is coherent because '
         'exp3(log3 R) = R on all of SO(3) (proved for identity / generic / half-turn branches); SO(3) is closed under the operations; hence by induction over every operation history all objects stay '
         'coherent and in SE(3), under the explicit side condition that no matrix handed to TMtoTAA has angle strictly inside (0,1e-6); for a matrix inside that band the one-step loss is bounded: every entry of R - exp3(log3 R) is at most theta + theta^2/2 < 1e-6 (1 + 5e-7). Model tied to the real class by exhaustive + random differential histories; '
         'coherence itself is evaluated on the real objects after every step.',
         'Trusted: Lean kernel, Mathlib, harness op interpreter/generators; scipy from_quat and lstsq modelled by contract; rounding outside the theorems (near-pi precision loss of MatrixLog3 = known finding).',
         'Lean 4 invariant proof by induction over operation histories on a hand-written model + differential correspondence + on-object falsifier',
         'DESIGN.md section 5 C03'),
 'C04': ('Machine-checked theorems (Lean 4, reals) on the same model: @ is matrix product, inv is the two-sided group inverse, reverses products (inv(a@b) = inv(b)@inv(a)) and is an involution, associativity, localToGlobal = ref*rel and globalToLocal = inv(ref)*x '
         '(through exp3∘log3 = id), mutual inverses, and each constructor form (6 numbers, rpy = Rx*Ry*Rz, quaternion, matrix, pair, tm, array of tm) yields the stated matrix; the quaternion form is invariant under any non-zero scaling of the quaternion, in particular q and -q (theorem), so every quaternion description of one rotation gives one transform. '
         'Tied by differential runs on redundant descriptions of one pose and on pose triples; laws also evaluated on the real objects against NumPy references.',
         'Trusted: as C03; scipy as_quat/from_matrix by contract (checked on the implementation); frame theorems carry the angle side condition (band measured).',
         'Lean 4 proofs on a hand-written model + differential correspondence over constructor forms and pose triples',
         'DESIGN.md section 5 C04'),
 'C12': ('Machine-checked theorems (Lean 4, reals) about an executable model of Screw/Wrench: frame change is Ad(inv(B)A) on twists and Ad(inv(A)B)^T on wrenches, records the new frame, '
         'A->B->A = id, A->B->C = A->C, the pairing wrench.twist is frame-independent, p x f moment and zero moment at the application point, mixed-frame sums, (a+b)-b = a and (a-b)+b = a for operands in any two frames (no side condition: both operators re-express b identically), the array-operand laws, and the scalar vector-space laws; '
         'all under the explicit side condition RelAngleOK (relative rotation 0 or >= 1e-6) that the proof forces - the excluded band is a known finding replayed on the implementation. '
         'Model tied by a differential run over operand kinds x frame triples; the laws are also evaluated directly on the real objects.',
         'Trusted: Lean kernel, Mathlib, harness generators; frames assumed coherent tm objects (C03); rounding outside.',
         'Lean 4 proofs on a hand-written model (adjoint homomorphism from C01) + differential correspondence + on-object falsifier',
         'DESIGN.md section 5 C12'),
 'C18': ('Machine-checked theorems (Lean 4, reals) about an executable model of the fsr helpers: plane contains its three points; mirror negates exactly the local z coordinate of any frame '
         '(anywhere in space) and is an involution; midpoint has the mean position and its relative rotation squares to the total relative rotation (Rodrigues additivity); lookAt keeps the position and is a '
         'proper rotation with local z at the target (outside the vertical set); distance is the Euclidean metric; closeLinearGap advances by exactly |delta| along the line; IKPath has the requested length, '
         'end points and constant increments; sphere samplers are unit; angleMod changes an angle by a multiple of 2pi, lands in [-2pi, 2pi] and is idempotent. twistToGoal exponentiates onto the goal for every pair of rigid transforms whose relative rotation angle is 0 or at least the cut-off, half turns included (from exp6(log6 T) = T). closeArcGap advances by exactly |delta| in the library\'s own arc distance, along goal - origin (step rotation zero or outside the cut-off band and below pi). chainJacobian is the JacobianSpace recursion and is tied to that model function (so the C06 column and derivative theorems cover it); numericalJacobian and rotationFromVector are decided on the implementation only (sampled). '
         'Model tied by a differential run; every relation also evaluated on the real functions.',
         'Trusted: Lean kernel, Mathlib, harness generators; optimiser-based helpers not modelled; rounding outside.',
         'Lean 4 proofs on a hand-written model (sympy-found linear_combination certificates) + differential correspondence + on-function falsifier',
         'DESIGN.md section 5 C18'),
 'C16': ('Machine-checked theorems (Lean 4) about an executable model of generalGenerateTree/findPathGeneral in which every external answer (sample generator, distance, collision detector, nearest-neighbour index) '
         'is an arbitrary oracle trace: for every trace the tree is rooted, each node\'s parent is an earlier node (acyclic, reaches the root), cost = parent cost + recorded distance, the chosen parent is the cheapest among the first '
         'nearest and the collision-free candidates examined, its link is collision-free, the accepted sample was within [min,max] of its then-nearest node, node count = iterations+1, the parent walk gives a root-to-node chain, and the cost stored on a node is the sum of the recorded link distances along that walk (costs compared by choose-parent are path lengths; with non-negative distances they are non-negative and never below the cost of the parent). '
         'Tied by replaying the recorded trace of real planner runs through the model node by node; invariants recomputed on the real tree with a brute-force neighbour search.',
         'Trusted: Lean kernel, Mathlib, the recording wrappers; rtree/pickle behaviour and termination of the rejection loop are outside the model.',
         'Lean 4 invariant proofs over an oracle-trace state machine + trace-replay correspondence with the real planner',
         'DESIGN.md section 5 C16'),
 'C14': ('Machine-checked soundness theorem (Lean 4) of a syntactic alias/mutation analysis over a heap model: for every heap, every placement and aliasing of operand arrays and every computed content, '
         'an operation whose transcribed program passes the analysis leaves all pre-existing arrays unchanged and returns only storage it allocated itself; the whole scope table is decided by kernel evaluation. '
         'The transcription is tied to the code by observing, for every operation, byte fingerprints of operands and shared memory / write-through of results on the real objects and comparing with the model\'s prediction; '
         'default-constructor histories and the 47 MR functions are observed directly.',
         'Trusted: Lean kernel, the hand transcription of source lines into heap programs (checked only by the correspondence run), the harness\'s enumeration of reachable arrays. Arm constructor clause pending C05.',
         'Lean 4 soundness proof of an alias analysis (all heaps) + decide over the operation table + alias-graph correspondence on real objects',
         'DESIGN.md section 5 C14'),
 'C02': ('Where port and reference are the same algorithm both are tied to one Lean model by two correspondence runs on identical inputs; where the texts differ equality is a theorem '
         '(MatrixLog3 for every 3x3 matrix: the port\'s clip is the identity on the branch using it; MatrixLog6 on rigid transforms; Normalize). For the Newton IK loop, with an arbitrary pseudo-inverse update and any iteration cap, '
         'a reported success implies both error norms within the requested tolerances (and a reported failure implies a missed tolerance). All 47 shared functions are compared port-vs-reference directly '
         '(values, shapes, exceptions). The cubic and quintic time scalings are modelled and tied to both libraries; they start at 0, end at 1 and stay inside [0,1] for 0 <= t <= Tf (theorems). '
         'The other dynamics/trajectory/control functions are not modelled in Lean: differential evidence only, labelled sampled.',
         'Trusted: Lean kernel, Mathlib, the vendored reference copy, the valid-argument generators, NumPy linear algebra shared by both libraries.',
         'Lean 4 equality proofs for the textually different kernels + IK loop soundness proof + double differential correspondence (model vs port, model vs reference)',
         'DESIGN.md section 5 C02'),
 'C05': ('Machine-checked theorems (Lean 4, reals): exp6([Ad_T V]) = T exp6([V]) inv(T) for every rigid T (angular part zero or >= the 1e-6 cut-off), hence by induction over the joints '
         'FKinSpace with base-transformed screws and home equals base * prod exp([S_i]theta_i) * home for chains of any length; clamping is idempotent (out-of-limit vectors are evaluated as if clamped); '
         'and by induction over every history of FK / IK (either solver, arbitrary answers) / move / stationary move / tool change / restore / randomPos the reported tool pose is the product-of-exponentials pose of the stored joint vector '
         'with the current base and tool home. The Arm state machine is tied to the real class by replaying histories (solver answers as oracle inputs); FK is also compared with SciPy expm from the constructor arguments.',
         'Trusted: Lean kernel, Mathlib, harness arm builders and SciPy reference; side condition: no evaluated joint strictly inside the (0,1e-6) band (recorded known finding C05-joint-cutoff-band); histories run on the 6R test arm, random chains with asymmetric limits and the bundled URDF models (file limits).',
         'Lean 4 proofs (conjugation of the exponential, induction over chains and over operation histories) + history-replay correspondence + SciPy-expm falsifier',
         'DESIGN.md section 5 C05'),
 'C07': ('Machine-checked theorems (Lean 4): for the limit-respecting Newton loop with an arbitrary pseudo-inverse oracle and any iteration cap, a reported success implies the angular part of the space-frame error twist is within the orientation tolerance and the linear part within the position tolerance; '
         'if no joint vector meets the tolerances (unreachable goal) success is never reported; the returned vector lies inside the limits (every iteration ends with the clamp); both solvers\' write-backs leave the arm coherent (C05). '
         'Tied by postcondition transfer: the real solver\'s (theta, success) is re-judged by the compiled model with the arm\'s stored screws/home/tolerances. Local convergence is sampled, not proved.',
         'Trusted: Lean kernel, Mathlib, harness goal generators and scipy-logm error twist; pinv and random restarts are oracles.',
         'Lean 4 loop-invariant proofs with oracle updates + postcondition-transfer correspondence + on-arm falsifier',
         'DESIGN.md section 5 C07'),
 'C06': ('Partial proof: machine-checked theorems (Lean 4) for the algebraic clauses - column i of the space Jacobian model is Ad(prod_{k<i} exp([S_k]theta_k)) S_i for chains of any length, torque.rate = wrench.twist for every Jacobian, '
         'linearity of the transpose map in the wrench (link-mass term), with exp6 conjugation / chain base change from C05; and the derivative clause for the space Jacobian: d/dtheta of the library\'s own exponential is [S] times it outside the 1e-6 cut-off band '
         '(entrywise HasDerivAt of the Rodrigues closed forms), hence d/dtheta_i FK(theta) = [J_space(theta) e_i] FK(theta) for chains of any length (product rule through conj_hat6). and the body-frame clause: for the body screws B_k = Ad(inv M) S_k the library\'s JacobianBody column i equals Ad(inv FK) applied to column i of JacobianSpace, for chains of any length whose joints are exact (prismatic, at angle 0, or unit axis with |theta| >= 1e-6), from e^{-[S]theta} e^{[S]theta} = I and Ad(e^{[S]theta}) S = S. The link-mass statics loop is modelled (torque i = J_i . (tool wrench + weights of the links distal to joint i), any chain length; J_i . (p x f, f) = omega . ((p - q) x f), the moment of the weight about the joint axis) and compared with the real method. Inside the band, and for the link / tool-aligned / numerical variants and the pseudo-inverse round trip, '
         'the property is decided on the real Arm by Richardson-extrapolated central differences and NumPy references (labelled sampled); model Jacobians are compared with the Arm\'s on its stored screws.',
         'Trusted: Lean kernel, Mathlib (calculus of sin/cos), harness finite differences (steps >= 1e-4) and frame references.',
         'Lean 4 proofs (algebraic clauses; entrywise HasDerivAt for the derivative clause) + differential correspondence + finite-difference falsifier on the real Arm',
         'DESIGN.md section 5 C06'),
 'C13': ('Machine-checked theorem (Lean 4, reals): for every chain of moving and fixed joints (any length, fixed joints before, between and after) with rigid origin transforms, the product-of-exponentials FK of the screws and home pose the loader builds '
         '(axes rotated into space, screws (w, q x w), fixed joints folded in) equals the file\'s own semantics prod(origin_k * Rot(axis_k, theta_k)) - by induction over the chain using exp6([Ad_Q (w,0)] theta) = Q Rot(w,theta) inv(Q); '
         'one screw per moving joint in file order; the origin is xyz translation with Rz*Ry*Rx. The model of the loader\'s second pass is tied by generating abstract documents, rendering them to XML for the real loadArmFromURDF and comparing screws/home; '
         'FK of loaded arms (generated + the three bundled files) is compared with the NumPy product from the XML, with names, limits and dof.',
         'Trusted: Lean kernel, Mathlib, the generator / XML rendering / independent reader; XML parsing, parent-child wiring and longest-chain walk are glue covered on strictly serial trees by the correspondence run only.',
         'Lean 4 induction over the joint chain (exp6 conjugation) + generated-document correspondence + on-arm falsifier',
         'DESIGN.md section 5 C13'),
 'C08': ('Partial proof: machine-checked theorems (Lean 4) about the Newton-Euler recursion modelled over lists of links of any length: superposition (a run with rates (qd, qdd_a+qdd_b), incoming acceleration and tip wrench sums equals the run carrying all velocity-product terms plus a linear zero-velocity run), '
         'hence torque = M*qdd + c(q,qd) + g(q) + J^T F with the four terms defined as the library defines them (the recursion called with selected zeros), for every chain, state, gravity and tip wrench; positive semi-definiteness of the closed form sum J_i^T G_i J_i; and for the recursion itself the virtual-work identity tau(a).b = sum_i (G_i Vdot_i(a)).Vdot_i(b) of the zero-velocity runs (induction over links), hence the mass matrix the recursion defines is symmetric when every link inertia is and a^T M a >= 0 when every link inertia is positive semi-definite, for chains of any length at every configuration; the zero-velocity response is additive and homogeneous in the accelerations (so it is the product MassMatrix*x), and forward dynamics inverts inverse dynamics: whatever accelerations the linear solve returns, if they solve M x = tau - c - g - J^T F then InverseDynamics of them is tau (and every x arises this way). '
         'The model is tied to fmr.InverseDynamics by a differential run. Equality of MassMatrix with the closed form, agreement of the Arm-level re-implementations, passivity, the gravity gradient and energy conservation are decided on the implementation (finite differences; labelled sampled).',
         'Trusted: Lean kernel, Mathlib, chain generators, independent link Jacobians and finite differences in the harness; np.linalg.inv is an oracle.',
         'Lean 4 induction over links (superposition of the Newton-Euler recursion) + differential correspondence + identity falsifier on the MR functions and Arm methods',
         'DESIGN.md section 5 C08'),
 'C10': ('Proof: machine-checked theorems (Lean 4) about a state-machine model of the Stewart platform (IK helper, validate chain with corrective actions and re-validation, both FK paths, reverse FK, FK over a bottom pose given by the caller, move, spinCustom, inverseJacobian, randomPos) in which every value a numeric solver returns is a universally quantified oracle input: '
         'every public call preserves coherence of the published state and so does every history of any length (induction over the history); whenever validate(), an unprotected IK or forward FK, or validate(True) reports valid, every enabled constraint holds of the state left behind; the Jacobian/force queries return both plates to the poses they found. For the reversed FK (over the reals, rigid plate poses): every constraint is invariant under moving both plates by one rigid motion, validate() takes no action on a state that meets every enabled constraint, hence the verdict a reversed FK returns is true of the re-expressed state it leaves, with the top plate back where it was. '
         'The theorems hold for every scalar instance, including the Float instance that is run. The model is tied to sp_model.py by executing random histories on the real SP and on the model (solver outputs recorded in the harness) and comparing plates, joints, lengths, relative transform and verdicts after every call; coherence, constraints and purity are also evaluated directly on the real object. '
         'The exception fallback between the two FK solvers and what FK does after an upside-down repair are modelled (the repaired pose itself is an oracle input); the verdict of a reversed or protected FK is decided on the implementation only.',
         'Trusted: Lean kernel, solver recording by monkeypatching inside the harness process, independent constraint formulas of the harness. Two known findings (relative rotation inside the 1e-6 cut-off band; a plate pose within 1e-3 of a half turn) are the floating-point side of the relative-transform clause: the theorems are exact, the published matrix is off by 2e-7 / 2e-9 there.',
         'Lean 4 invariant by induction over operation histories with oracle solver outputs + history-level correspondence with the real SP + direct coherence/constraint/purity falsifier',
         'DESIGN.md section 5 C10'),
 'C09': ('Partial proof: machine-checked theorems (Lean 4) about a model of SPIKinSpace and of the whole SPFKinSpaceR loop: IK lengths are the joint-to-joint distances; moving both plates by one rigid motion leaves them unchanged, so they depend only on inv(bottom)*top; '
         'the residual the FK loop tests is exactly L_i^2 minus the squared IK length at the guessed relative pose; whenever the loop stops on its residual test (any linear solver, start, budget) the summed residual is below tol_f and hence every published leg length is within tol_f/L_i of the requested one, at any base placement. '
         'The model (Float instance, Gaussian elimination for np.linalg.solve) is compared with the numba kernels: final guess 1e-9, iteration count and exit kind exactly. '
         'That the iteration converges to the pose the lengths came from (FK(IK(pose)) = pose to 1e-3 h, both fk modes, moved / re-spun platforms) is decided on the implementation (sampled), as are lengths after a small-step exit.',
         'Trusted: Lean kernel, Mathlib, geometry generator and independent numpy leg-length reference; scipy fsolve is not modelled.',
         'Lean 4 proofs about the IK kernel and the Newton-Raphson loop (exit soundness by induction over iterations) + bit-level differential correspondence with the numba kernels + FK(IK) falsifier on real platforms',
         'DESIGN.md section 5 C09'),
 'C11': ('Partial proof: machine-checked theorems (Lean 4, Mathlib calculus) about the rows [q x n, n] built by SP.inverseJacobian and the wrench sum of SP.sumActuatorWrenches: the moment arm may be taken from either joint (t x n = b x n); '
         'row . twist is the leg-direction component of the top joint velocity, and the leg length along any differentiable path of the top joint whose velocity is that of a rigid motion with spatial twist V has derivative row . V (HasDerivAt); '
         'for any leg forces the summed leg wrench on the base is minus invJ^T tau (induction over legs), hence forces carrying W load the base with -W and map back to W. '
         'The model functions are compared with the real methods; the body-frame interface equals the space-frame one on the frame-changed wrench ((Ad J)^T W_b = J^T (Ad^T W_b), for any Jacobian); the derivative (Richardson), equilibrium, body-frame and carryMassCalc clauses are also evaluated on real platforms at arbitrary placements the wrench bookkeeping of carryMassCalc is modelled (applied wrench + top plate weight at the plate origin + shaft weights on the legs at the shaft centre of gravity) and compared with the real method through the leg forces it returns; its force part is the applied force plus (m_top + n m_shaft) g and its moment part the applied moment plus the moments of those weights about the origin, for any number of legs (the inverse body map is sampled only).',
         'Trusted: Lean kernel, Mathlib, independent exp6/Ad/leg lengths in the harness; np.linalg.pinv is an oracle (inverse of an invertible matrix).',
         'Lean 4 proofs (vector algebra by certificates, HasDerivAt for the length derivative, induction over legs) + differential correspondence + Richardson / equilibrium falsifier on real platforms',
         'DESIGN.md section 5 C11'),
 'C20': ('Partial proof: machine-checked theorems (Lean 4) about an exact model of disp / dispa / printTFlist (floats are the rationals their bits denote, \'{:W.Pf}\'.format is exact round-half-even of the decimal expansion): '
         'the rendered text of a numeric array with 1 to 4 axes contains every element exactly once, in row-major order, for every shape (also empty extents), title, number of decimals and pdims; below 9999 the requested decimals are used unchanged; the integer a field is printed from is within half a unit in the last place of the element. '
         'The model renders the same objects as the real disp and the strings are compared character for character (arrays, transforms, wrenches, lists of them, mixed and nested lists, opaque objects). '
         'Never raising, print == return, LaTeX mode and 5-axis arrays are decided on the implementation (a total Lean function cannot state that Python does not raise): labelled sampled.',
         'Trusted: Lean kernel, Mathlib, object generator/encoder and independent parse-back in the harness; Python str() of shapeless objects is an input; Nat.repr renders digits.',
         'Lean 4 proofs about an exact rendering model (row-major coverage by induction over chunks, exact rounding bound) + character-exact differential correspondence + totality / parse-back falsifier',
         'DESIGN.md section 5 C20'),
 'C17': ('Partial proof: a translator (translate/gen_c17.py) reads the two JIT modules on every run and regenerates 568 Lean 4 theorems: one per integer subscript / constant slice of every one of the 47 @jit kernels (306), one per array a kernel hands to another kernel (160: its extent is at least what the callee documents, e.g. Norm is never given a two-element slice) and one per resolvable argument relation at every kernel call in arm_model.py / sp_model.py / faser_transform.py / basic_helpers.py (102: the slice stays inside its parent, extents the kernel relates are equal at the call — the FKLink defect was exactly such an inequality): '
         'under the documented argument shapes, the ranges of the enclosing loops and the integer guards of the enclosing ifs, the index lies within the extent of the array (each closed by omega; local array shapes are inferred from the source; one loop invariant is declared and itself generated as obligations). '
         'A changed loop bound, index offset, local array size or dropped guard makes a theorem false and the build fail; a subscript the translator cannot resolve makes it refuse the source. '
         'The documented argument / return shapes are checked against the inputs really passed and values really returned. '
         'That call-site arguments built from locals have those shapes, and that compiled and interpreted execution agree on C-ordered, Fortran-ordered, sliced and integer-typed arguments, is decided on the implementation: a differential py_func run and a run of the whole public surface with NUMBA_BOUNDSCHECK=1 against one without (sampled).',
         'Trusted: Lean kernel (omega), the translator and its shape tables, numba compiling an in-bounds index expression to an in-bounds access and reporting out-of-range scalar indices under NUMBA_BOUNDSCHECK.',
         'Translator-generated Lean 4 index-bound theorems (regenerated from source each run) + compiled-vs-interpreted differential run over array layouts + bounds-checked run of the public surface in a sub-process',
         'DESIGN.md section 5 C17'),
}
NA_REASON = 'check not built yet in this round (work in progress; DESIGN.md section 8 gives the build order)'

checks = []
for p in props:
    pid = p['id']
    if pid not in CLAIMED:
        continue
    text, note, tech, ref = CLAIMED[pid]
    checks.append({
        'property_id': pid,
        'quick_cmd': './check %s --tier quick' % pid,
        'thorough_cmd': './check %s --tier thorough' % pid,
        'evidence_file': '/verif/evidence/%s.json' % pid,
        'replay_cmd_template': './check %s --replay {path}' % pid,
        'engine': 'lean4-br',
        'level_claimed': {'category': 'proof', 'text': text, 'design_ref': ref},
        'level_note': note,
        'technique': tech,
    })
m = {
 'version': 1,
 'setup_cmd': './setup.sh',
 'hooks': {'guard': 'BASIC_ROBOTICS_VERIF',
           'enable': 'no source hooks are needed: the harness wraps module attributes in-process; the variable is exported by ./check for symmetry',
           'baseline_off_cmd': 'cd /repo && /venv/bin/python -m pytest -ra -q -p no:cacheprovider --timeout=900 --continue-on-collection-errors',
           'source_commits': [], 'add_only': True},
 'engines': [{'name': 'lean4-br', 'path': '/verif/lean', 'serves_properties': sorted(CLAIMED),
              'kind_free_text': 'Lean 4 + Mathlib proofs over executable models (generic over the scalar type); models tied to /repo by source->Lean translators regenerated on every run and by a line-protocol correspondence check against the real Python implementation'}],
 'checks': checks,
 'notes': 'Machine-checked proof in Lean 4; see DESIGN.md. ./check <id> is the single entry point; known findings in known_findings.json.',
 'not_applicable': [{'property_id': p['id'], 'reason': NA_REASON} for p in props if p['id'] not in CLAIMED],
}
json.dump(m, open(os.path.join(HERE, 'MANIFEST.json'), 'w'), indent=1)
print('claimed', sorted(CLAIMED))
