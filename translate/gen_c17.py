"""
T-index translator for C17: reads the two JIT modules of /repo, and for every integer subscript / constant slice in
every @jit kernel emits a Lean theorem "the index is within the array's extent", under
  * the documented argument shapes (ARG_SHAPES below; the harness checks them against the shapes of the valid inputs
    it really passes and the shapes the kernels really return),
  * the ranges of the enclosing for-loops and the simple integer tests of the enclosing ifs.
Each theorem is closed by `omega`; a change such as range(n) -> range(n + 1), an index i+1 for i, a smaller local
array or a dropped guard makes its theorem false and the build fail.
A subscript whose array shape or index the translator cannot resolve makes the translator refuse the source
(TranslationError) — never a silent skip.
"""
import ast, os, sys, json

REPO = os.environ.get('BR_REPO', '/repo')
FILES = ['basic_robotics/modern_robotics_numba/modern_high_performance.py', 'basic_robotics/general/faser_high_performance.py']
OUT = os.path.join(os.path.dirname(os.path.dirname(os.path.abspath(__file__))), 'lean', 'BR', 'Gen', 'C17.lean')


class TranslationError(Exception):
    pass

# documented shapes of the arguments of the kernels (symbols are free non-negative sizes; equal symbols = equal extents)
ARG_SHAPES = {
    'AngleMod': {'rad': ('k',)}, 'Norm': {'v': (3,)}, 'Norm6': {'v': (6,)}, 'VecToso3': {'omg': (3,)}, 'so3ToVec': {'so3mat': (3, 3)},
    'MatrixExp3': {'so3mat': (3, 3)}, 'SafeTrace': {'R': ('a', 'b')}, 'MatrixLog3': {'R': (3, 3)}, 'RpToTrans': {'R': (3, 3), 'p': (3,)},
    'TransToRp': {'T': (4, 4)}, 'TransInv': {'T': (4, 4)}, 'VecTose3': {'V': (6,)}, 'se3ToVec': {'se3mat': (4, 4)}, 'Adjoint': {'T': (4, 4)},
    'ScrewToAxis': {'q': (3,), 's': (3,)}, 'AxisAng6': {'expc6': (6,)}, 'AxisAng3': {'expc3': (3,)}, 'MatrixExp6': {'se3mat': (4, 4)},
    'LocalToGlobal': {'reference': (6,), 'rel': (6,)}, 'GlobalToLocal': {'reference': (6,), 'rel': (6,)}, 'MatrixLog6': {'T': (4, 4)},
    'DistanceToSE3': {'mat': (4, 4)}, 'DistanceToSO3': {'mat': (3, 3)}, 'TestIfSO3': {'mat': (3, 3)}, 'TestIfSE3': {'mat': (4, 4)},
    'FKinBody': {'M': (4, 4), 'Blist': (6, 'n'), 'thetalist': ('n',)}, 'FKinSpace': {'M': (4, 4), 'Slist': (6, 'n'), 'thetalist': ('n',)},
    'SafeCopy': {'arr': ('a', 'b')}, 'JacobianBody': {'Blist': (6, 'n'), 'thetalist': ('n',)}, 'JacobianSpace': {'Slist': (6, 'n'), 'thetalist': ('n',)},
    'IKinBody': {'Blist': (6, 'n'), 'M': (4, 4), 'T': (4, 4), 'thetalist0': ('n',)},
    'IKinSpace': {'Slist': (6, 'n'), 'M': (4, 4), 'T': (4, 4), 'thetalist0': ('n',)},
    'ad': {'V': (6,)}, 'JointTrajectory': {'thetastart': ('n',), 'thetaend': ('n',)}, 'EulerStep': {},
    'IKinSpaceConstrained': {'screw_list': (6, 'n'), 'ee_home': (4, 4), 'ee_goal': (4, 4), 'theta_list': ('n',), 'joint_mins': ('n',), 'joint_maxs': ('n',)},
    'SPIKinSpace': {'bottom_transform': (4, 4), 'top_transform': (4, 4), 'bottom_joints': (3, 6), 'top_joints': (3, 6),
                    'bottom_joint_locations': (3, 6), 'top_joint_locations': (3, 6)},
    'SPFKinSpaceR': {'leg_lengths': (6,), 'top_plate_init': (6,), 'bottom_joints_init': (6, 3), 'top_joints_init': (6, 3)},
    'TrVec': {'transformation_matrix': (4, 4), 'vector': (3,)},
    'RotInv': {'R': (3, 3)}, 'Normalize': {'V': (3,)}, 'MatMul': {}, 'SafeDot': {}, 'NearZero': {}, 'SafeClip': {}, 'CubicTimeScaling': {}, 'QuinticTimeScaling': {},
}
# shapes the kernels return, in terms of their argument shapes (checked dynamically by the harness)
RET_SHAPES = {
    'so3ToVec': (3,), 'VecToso3': (3, 3), 'MatrixExp3': (3, 3), 'MatrixLog3': (3, 3), 'RpToTrans': (4, 4), 'TransInv': (4, 4), 'VecTose3': (4, 4),
    'se3ToVec': (6,), 'Adjoint': (6, 6), 'ScrewToAxis': (6,), 'MatrixExp6': (4, 4), 'MatrixLog6': (4, 4), 'LocalToGlobal': (6, 1), 'GlobalToLocal': (6, 1),
    'FKinBody': (4, 4), 'FKinSpace': (4, 4), 'ad': (6, 6), 'RotInv': (3, 3), 'TrVec': (3,),
    'SafeCopy': 'same:0', 'JacobianBody': 'same:0', 'JacobianSpace': 'same:0', 'Normalize': 'same:0', 'AngleMod': 'same:0',
    'TransToRp': ('tuple', (3, 3), (3,)), 'AxisAng3': ('tuple', (3,), ()), 'AxisAng6': ('tuple', (6,), ()),
    'Norm': (), 'Norm6': (), 'NearZero': (), 'SafeTrace': (), 'SafeClip': (), 'CubicTimeScaling': (), 'QuinticTimeScaling': (),
}
# integer locals that are not loop variables: the invariant that ties them to a loop variable (also emitted as obligations)
INVARIANTS = {('SPFKinSpaceR', 'j'): {'loop_var': 'i', 'start': 3, 'expr': '2 * (i - 3)', 'init': 0, 'step': 2}}


def is_jit(fn):
    return any('jit' in ast.unparse(d) for d in fn.decorator_list)


class Fn:
    def __init__(self, node, fname):
        self.node, self.name, self.file = node, node.name, fname
        self.env = {}           # variable -> shape tuple | ('tuple', ...) | ('shapeof', shape)
        self.ints = {}          # integer-valued locals -> expression string (Lean) or None (free)
        self.syms = set()
        self.obl = []


def dim_str(d):
    return str(d)


def lean_int(e, fn, loops):
    """Python integer expression -> Lean Int expression string (or raise)"""
    if isinstance(e, ast.Constant) and isinstance(e.value, int) and not isinstance(e.value, bool):
        return str(e.value) if e.value >= 0 else '(%d)' % e.value
    if isinstance(e, ast.Name):
        if e.id in loops or e.id in fn.ints:
            if fn.ints.get(e.id):
                return '(%s)' % fn.ints[e.id]
            fn.syms.add(e.id)
            return e.id
        raise TranslationError('%s: integer variable %s is not a loop variable or known size' % (fn.name, e.id))
    if isinstance(e, ast.UnaryOp) and isinstance(e.op, ast.USub):
        return '(-%s)' % lean_int(e.operand, fn, loops)
    if isinstance(e, ast.BinOp) and isinstance(e.op, (ast.Add, ast.Sub, ast.Mult)):
        op = {ast.Add: '+', ast.Sub: '-', ast.Mult: '*'}[type(e.op)]
        return '(%s %s %s)' % (lean_int(e.left, fn, loops), op, lean_int(e.right, fn, loops))
    if isinstance(e, ast.Call) and isinstance(e.func, ast.Name) and e.func.id == 'len' and len(e.args) == 1:
        sh = shape_of(e.args[0], fn)
        if isinstance(sh, tuple) and sh and sh[0] != 'tuple':
            return sym(sh[0], fn)
    if isinstance(e, ast.Call) and isinstance(e.func, ast.Name) and e.func.id == 'int' and len(e.args) == 1:
        return lean_int(e.args[0], fn, loops)
    if isinstance(e, ast.Subscript):      # s[0] with s a shape tuple
        base = shape_of(e.value, fn)
        if isinstance(base, tuple) and base and base[0] == 'shapeof' and isinstance(e.slice, ast.Constant):
            k = e.slice.value
            if 0 <= k < len(base[1]):
                return sym(base[1][k], fn)
    raise TranslationError('%s: cannot read the integer expression %s' % (fn.name, ast.unparse(e)))


def sym(d, fn):
    if isinstance(d, int):
        return str(d)
    fn.syms.add(d)
    return d


def shape_of(e, fn):
    """shape of an array-valued expression: tuple of dims; ('tuple', s1, s2..); ('shapeof', shape); None = unknown"""
    env = fn.env
    if isinstance(e, ast.Name):
        return env.get(e.id)
    if isinstance(e, ast.Attribute):
        if e.attr == 'shape':
            s = shape_of(e.value, fn)
            return ('shapeof', s) if isinstance(s, tuple) and (not s or s[0] != 'tuple') else None
        if e.attr == 'T':
            s = shape_of(e.value, fn)
            return tuple(reversed(s)) if isinstance(s, tuple) else None
    if isinstance(e, ast.Call):
        f = e.func
        name = ast.unparse(f)
        if isinstance(f, ast.Attribute) and f.attr in ('copy', 'astype'):
            return shape_of(f.value, fn)
        if isinstance(f, ast.Attribute) and f.attr == 'flatten':
            s = shape_of(f.value, fn)
            if isinstance(s, tuple) and len(s) == 1:
                return s
            if isinstance(s, tuple) and len(s) == 2 and s[1] == 1:
                return (s[0],)
            return None
        if name in ('np.zeros', 'np.ones', 'np.empty') and e.args:
            a = e.args[0]
            if isinstance(a, ast.Tuple):
                return tuple(dim_of(x, fn) for x in a.elts)
            s = shape_of(a, fn)
            if isinstance(s, tuple) and s and s[0] == 'shapeof':
                return s[1]
            return (dim_of(a, fn),)
        if name == 'np.eye' and e.args:
            d = dim_of(e.args[0], fn)
            return (d, d)
        if name in ('np.copy', 'np.square', 'np.abs', 'np.sin', 'np.cos', 'np.negative') and e.args:
            return shape_of(e.args[0], fn)
        if name == 'np.transpose' and e.args:
            s = shape_of(e.args[0], fn)
            return tuple(reversed(s)) if isinstance(s, tuple) else None
        if name == 'np.array' and e.args and isinstance(e.args[0], ast.List):
            return (len(e.args[0].elts),)
        if name == 'np.dot' and len(e.args) == 2:
            a, b = shape_of(e.args[0], fn), shape_of(e.args[1], fn)
            if isinstance(a, tuple) and isinstance(b, tuple) and a[:1] != ('tuple',) and b[:1] != ('tuple',):
                if len(a) == 2 and len(b) == 2: return (a[0], b[1])
                if len(a) == 2 and len(b) == 1: return (a[0],)
                if len(a) == 1 and len(b) == 2: return (b[1],)
                if len(a) == 1 and len(b) == 1: return ()
            return None
        if name == 'np.linalg.solve' and len(e.args) == 2:
            return shape_of(e.args[1], fn)
        if name == 'np.cross' and e.args:
            return shape_of(e.args[0], fn)
        if isinstance(f, ast.Name) and f.id in RET_SHAPES:
            r = RET_SHAPES[f.id]
            if isinstance(r, str) and r.startswith('same:'):
                return shape_of(e.args[int(r[5:])], fn)
            return r
        return None
    if isinstance(e, ast.BinOp):
        a, b = shape_of(e.left, fn), shape_of(e.right, fn)
        cands = [s for s in (a, b) if isinstance(s, tuple) and s[:1] not in (('tuple',), ('shapeof',))]
        if not cands:
            return None
        return max(cands, key=len)      # broadcasting: the operand of higher rank gives the shape
    if isinstance(e, ast.UnaryOp):
        return shape_of(e.operand, fn)
    if isinstance(e, ast.Subscript):
        base = shape_of(e.value, fn)
        if not isinstance(base, tuple):
            return None
        if base[:1] == ('tuple',):
            if isinstance(e.slice, ast.Constant):
                return base[1 + e.slice.value] if 0 <= e.slice.value < len(base) - 1 else None
            return None
        idx = e.slice.elts if isinstance(e.slice, ast.Tuple) else [e.slice]
        out = []
        for k, ix in enumerate(idx):
            if k >= len(base):
                return None
            if isinstance(ix, ast.Slice):
                lo = ix.lower.value if isinstance(ix.lower, ast.Constant) else (0 if ix.lower is None else None)
                hi = ix.upper.value if isinstance(ix.upper, ast.Constant) else (base[k] if ix.upper is None else None)
                if lo is None or hi is None:
                    return None
                out.append(hi - lo if isinstance(hi, int) and isinstance(lo, int) else (hi if lo == 0 else None))
        out += list(base[len(idx):])
        return tuple(out)
    return None


def dim_of(e, fn):
    if isinstance(e, ast.Constant) and isinstance(e.value, int):
        return e.value
    return lean_int(e, fn, set(fn.ints))


def collect(fn):
    """walk the body in order, maintaining shapes; record obligations"""
    args = ARG_SHAPES.get(fn.name)
    if args is None:
        raise TranslationError('no documented argument shapes for kernel %s' % fn.name)
    for a in fn.node.args.args:
        if a.arg in args:
            fn.env[a.arg] = args[a.arg]
    walk(fn.node.body, fn, [], [])


def cond_hyp(test, fn, loops, negate=False):
    """simple integer comparison -> Lean hypothesis string, or None"""
    if isinstance(test, ast.Compare) and len(test.ops) == 1:
        try:
            l = lean_int(test.left, fn, loops); r = lean_int(test.comparators[0], fn, loops)
        except TranslationError:
            return None
        ops = {ast.Eq: '=', ast.NotEq: '≠', ast.Lt: '<', ast.LtE: '≤', ast.Gt: '>', ast.GtE: '≥'}
        neg = {ast.Eq: '≠', ast.NotEq: '=', ast.Lt: '≥', ast.LtE: '>', ast.Gt: '≤', ast.GtE: '<'}
        t = type(test.ops[0])
        if t in ops:
            return '%s %s %s' % (l, (neg if negate else ops)[t], r)
    return None


def walk(stmts, fn, loops, hyps):
    for st in stmts:
        if isinstance(st, ast.For):
            scan_expr(st.iter, fn, loops, hyps)
            if not (isinstance(st.target, ast.Name) and isinstance(st.iter, ast.Call) and ast.unparse(st.iter.func) == 'range'):
                raise TranslationError('%s: unsupported loop %s' % (fn.name, ast.unparse(st.iter)))
            v = st.target.id
            a = st.iter.args
            lv = set(l for l in loops) | {v}
            if len(a) == 1:
                lo, hi, step = '0', lean_int(a[0], fn, loops), 1
            elif len(a) == 2:
                lo, hi, step = lean_int(a[0], fn, loops), lean_int(a[1], fn, loops), 1
            else:
                lo, hi = lean_int(a[0], fn, loops), lean_int(a[1], fn, loops)
                step = ast.literal_eval(a[2])
                if step not in (1, -1):
                    raise TranslationError('%s: unsupported range step' % fn.name)
            fn.syms.add(v)
            h = ['%s ≤ %s' % (lo, v), '%s < %s' % (v, hi)] if step == 1 else ['%s < %s' % (hi, v), '%s ≤ %s' % (v, lo)]
            extra = []
            for (f_, var), inv in INVARIANTS.items():
                if f_ == fn.name and inv['loop_var'] == v and lo == str(inv['start']):
                    fn.ints[var] = inv['expr']
                    extra.append((var, inv))
            walk(st.body, fn, loops + [v], hyps + h)
            for var, inv in extra:
                check_invariant(fn, st, var, inv)
                fn.ints.pop(var, None)
        elif isinstance(st, ast.While):
            scan_expr(st.test, fn, loops, hyps)
            walk(st.body, fn, loops, hyps)
        elif isinstance(st, ast.If):
            scan_expr(st.test, fn, loops, hyps)
            h = cond_hyp(st.test, fn, set(loops))
            walk(st.body, fn, loops, hyps + ([h] if h else []))
            hn = cond_hyp(st.test, fn, set(loops), negate=True)
            walk(st.orelse, fn, loops, hyps + ([hn] if hn else []))
        elif isinstance(st, ast.Assign):
            scan_expr(st.value, fn, loops, hyps)
            for t in st.targets:
                if isinstance(t, ast.Name):
                    s = shape_of(st.value, fn)
                    if s is not None:
                        fn.env[t.id] = s
                    else:
                        fn.env.pop(t.id, None)
                        # integer-valued local?
                        try:
                            if (t.id, ) and not any((fn.name, t.id) == k for k in INVARIANTS):
                                fn.ints[t.id] = lean_int(st.value, fn, set(loops)).strip()
                        except TranslationError:
                            if isinstance(st.value, ast.Call) and ast.unparse(st.value.func) == 'int':
                                fn.ints[t.id] = None
                elif isinstance(t, ast.Tuple) and all(isinstance(x, ast.Name) for x in t.elts):
                    s = shape_of(st.value, fn)
                    for k, x in enumerate(t.elts):
                        if isinstance(s, tuple) and s[:1] == ('tuple',) and k + 1 < len(s):
                            fn.env[x.id] = s[k + 1]
                        else:
                            fn.env.pop(x.id, None)
                else:
                    scan_expr(t, fn, loops, hyps)
        elif isinstance(st, ast.AugAssign):
            scan_expr(st.value, fn, loops, hyps)
            scan_expr(st.target, fn, loops, hyps)
        elif isinstance(st, (ast.Return, ast.Expr)):
            if st.value is not None:
                scan_expr(st.value, fn, loops, hyps)
        elif isinstance(st, (ast.Pass, ast.Break, ast.Continue)):
            pass
        else:
            raise TranslationError('%s: unsupported statement %s' % (fn.name, type(st).__name__))


def check_invariant(fn, loop, var, inv):
    """the declared invariant of an integer local: initial value and step, read off the source"""
    steps = [s for s in ast.walk(loop) if isinstance(s, ast.AugAssign) and isinstance(s.target, ast.Name) and s.target.id == var]
    if len(steps) != 1 or not isinstance(steps[0].op, ast.Add) or ast.literal_eval(steps[0].value) != inv['step']:
        raise TranslationError('%s: the update of %s no longer matches its declared invariant' % (fn.name, var))
    # the assignment before the loop
    init = None
    for s in ast.walk(fn.node):
        if isinstance(s, ast.Assign) and len(s.targets) == 1 and isinstance(s.targets[0], ast.Name) and s.targets[0].id == var and s.lineno < loop.lineno:
            init = s
    if init is None or ast.literal_eval(init.value) != inv['init']:
        raise TranslationError('%s: the initial value of %s no longer matches its declared invariant' % (fn.name, var))
    lv = inv['loop_var']
    fn.obl.append({'fn': fn.name, 'line': loop.lineno, 'what': 'invariant %s = %s (initially)' % (var, inv['expr']),
                   'notsize': [lv, var], 'hyps': ['%s = %d' % (lv, inv['start'])], 'goal': '%d = %s' % (inv['init'], inv['expr'])})
    fn.obl.append({'fn': fn.name, 'line': loop.lineno, 'what': 'invariant %s = %s (preserved)' % (var, inv['expr']),
                   'notsize': [lv, var], 'hyps': ['%s = %s' % (var, inv['expr'])], 'goal': '%s + %d = %s' % (var, inv['step'], inv['expr'].replace(lv, '(%s + 1)' % lv))})


def scan_expr(e, fn, loops, hyps):
    for n in ast.walk(e):
        if isinstance(n, ast.Subscript):
            obligation(n, fn, loops, hyps)
        elif isinstance(n, ast.Call) and isinstance(n.func, ast.Name) and n.func.id in ARG_SHAPES and n.func.id in KERNEL_PARAMS:
            kernel_call(n, fn, loops, hyps)


INNER_UNRESOLVED = []


def kernel_call(n, fn, loops, hyps):
    """a kernel calling another kernel: every argument whose shape resolves has the extents the callee documents (a callee that
    indexes v[0], v[1], v[2] must not be handed a two-element slice); arguments sharing a documented symbol agree"""
    doc = ARG_SHAPES[n.func.id]
    binding = {}
    for pname, arg in zip(KERNEL_PARAMS[n.func.id], n.args):
        if pname not in doc:
            continue
        if isinstance(arg, ast.List):
            sh = (len(arg.elts),)
        elif isinstance(arg, ast.Call) and isinstance(arg.func, ast.Attribute) and arg.func.attr == 'reshape' and len(arg.args) == 1 \
                and isinstance(arg.args[0], ast.Constant) and isinstance(arg.args[0].value, int):
            sh = (arg.args[0].value,)
        else:
            sh = shape_of(arg, fn)
        if not isinstance(sh, tuple) or sh[:1] in (('tuple',), ('shapeof',)) or any(d is None for d in sh):
            INNER_UNRESOLVED.append('%s line %d: %s(%s=%s)' % (fn.name, n.lineno, n.func.id, pname, ast.unparse(arg)[:40]))
            continue
        want_sh = doc[pname]
        if len(sh) == 2 and sh[1] == 1 and len(want_sh) == 1 and n.func.id in COLUMN_OK:
            sh = (sh[0],)
        if len(sh) != len(want_sh):
            raise TranslationError('%s line %d: %s is passed an array of %d axes for %s' % (fn.name, n.lineno, n.func.id, len(sh), pname))
        for k, (d, want) in enumerate(zip(sh, want_sh)):
            ds = str(d) if isinstance(d, int) else sym(d, fn)
            what = 'call %s(%s=%s) axis %d' % (n.func.id, pname, ast.unparse(arg)[:40], k)
            if isinstance(want, int):
                goal = '%d ≤ %s' % (want, ds)       # the callee's own theorems bound its indices by the documented extent
            elif want in binding:
                goal = '%s = %s' % (ds, binding[want])
            else:
                binding[want] = ds
                continue
            fn.obl.append({'fn': fn.name, 'line': n.lineno, 'what': what, 'hyps': list(hyps), 'goal': goal, 'notsize': sorted(set(loops) | set(fn.ints))})


def obligation(n, fn, loops, hyps):
    base = shape_of(n.value, fn)
    src = ast.unparse(n)
    if base is None:
        if isinstance(n.value, ast.Subscript):
            return       # R[0][2]: handled when the outer shape of R[0] resolves; unresolved inner raises below
        raise TranslationError('%s line %d: cannot determine the shape of %s in %s' % (fn.name, n.lineno, ast.unparse(n.value), src))
    if base[:1] == ('shapeof',):
        dims = (len(base[1]),)
    elif base[:1] == ('tuple',):
        dims = (len(base) - 1,)
    else:
        dims = base
    idx = n.slice.elts if isinstance(n.slice, ast.Tuple) else [n.slice]
    if len(idx) > len(dims):
        raise TranslationError('%s line %d: %s has more indices than %s has axes' % (fn.name, n.lineno, src, ast.unparse(n.value)))
    for k, ix in enumerate(idx):
        d = sym(dims[k], fn) if not isinstance(dims[k], int) else str(dims[k])
        if isinstance(ix, ast.Slice):
            if ix.step is not None:
                raise TranslationError('%s: stepped slice %s' % (fn.name, src))
            lo = lean_int(ix.lower, fn, set(loops)) if ix.lower is not None else '0'
            hi = lean_int(ix.upper, fn, set(loops)) if ix.upper is not None else d
            goal = '0 ≤ %s ∧ %s ≤ %s ∧ %s ≤ %s' % (lo, lo, hi, hi, d)
        else:
            ie = lean_int(ix, fn, set(loops))
            goal = '0 ≤ %s ∧ %s < %s' % (ie, ie, d)
        fn.obl.append({'fn': fn.name, 'line': n.lineno, 'what': '%s axis %d' % (src, k), 'hyps': list(hyps), 'goal': goal, 'notsize': sorted(set(loops) | set(fn.ints))})


# ---------------------------------------------------------------------------------------------------------------
# call sites: the arrays arm_model.py / sp_model.py hand to the kernels have the documented shapes
CALLSITE_FILES = ['basic_robotics/kinematics/arm_model.py', 'basic_robotics/kinematics/sp_model.py',
                  'basic_robotics/general/faser_transform.py', 'basic_robotics/general/basic_helpers.py']
KERNEL_MODULE_NAMES = ('fmr', 'mr')
# kernels that only slice their vector arguments by rows and therefore take a (k, 1) column as well as a flat k-vector
COLUMN_OK = ('LocalToGlobal', 'GlobalToLocal')
# documented shapes of the state the callers slice (checked on real objects by the harness); n = number of joints
SITE_SHAPES = {
    'self.screw_list': (6, 'n'), 'self.screw_list_body': (6, 'n'), 'theta': ('n',), 'theta_init': ('n',), 'theta_temp': ('n',),
    'self.joint_mins': ('n',), 'self.joint_maxs': ('n',),
    'self._bottom_joints_local': (3, 6), 'self._top_joints_local': (3, 6), 'self._bottom_joints_space': (3, 6), 'self._top_joints_space': (3, 6),
    'self._bottom_joints_init': (6, 3), 'self._top_joints_init': (6, 3), 'L': (6,), 'attempt': (6,),
    'self.TAA': (6, 1), 'self.TM': (4, 4), 'taa_format': (6,),
}
# integer parameters of the calling methods and their documented range
SITE_INDEX = {'i': ('0 ≤ i', 'i < n')}
SLICE_OBL = []


def site_int(e):
    if isinstance(e, ast.Constant) and isinstance(e.value, int):
        return str(e.value)
    if isinstance(e, ast.Name) and e.id in SITE_INDEX:
        return e.id
    if isinstance(e, ast.BinOp) and isinstance(e.op, (ast.Add, ast.Sub)):
        a, b = site_int(e.left), site_int(e.right)
        if a is not None and b is not None:
            return '(%s %s %s)' % (a, '+' if isinstance(e.op, ast.Add) else '-', b)
    return None


def site_shape(e):
    """symbolic shape of an argument expression at a call site, dims as Lean Int expressions; None = not resolved"""
    txt = ast.unparse(e)
    if txt in SITE_SHAPES:
        return tuple(str(d) for d in SITE_SHAPES[txt])
    if isinstance(e, ast.Attribute) and e.attr == 'TM':
        return ('4', '4')
    if isinstance(e, ast.Call) and isinstance(e.func, ast.Attribute) and e.func.attr == 'gTM':
        return ('4', '4')
    if isinstance(e, ast.Call) and isinstance(e.func, ast.Attribute) and e.func.attr == 'copy':
        return site_shape(e.func.value)
    if isinstance(e, ast.Call) and isinstance(e.func, ast.Attribute) and e.func.attr == 'gTAA':
        return ('6', '1')
    if isinstance(e, ast.Call) and isinstance(e.func, ast.Attribute) and e.func.attr == 'flatten':
        sh = site_shape(e.func.value)
        if sh is not None and len(sh) == 2 and sh[1] == '1':
            return (sh[0],)
        if sh is not None and len(sh) == 1:
            return sh
        return None
    if isinstance(e, ast.Call) and isinstance(e.func, ast.Name) and e.func.id in ARG_SHAPES and e.func.id in RET_SHAPES:
        r = RET_SHAPES[e.func.id]
        return tuple(str(d) for d in r) if isinstance(r, tuple) and r[:1] != ('tuple',) else None
    if isinstance(e, ast.Call) and isinstance(e.func, ast.Attribute) and isinstance(e.func.value, ast.Name) \
            and e.func.value.id in KERNEL_MODULE_NAMES and e.func.attr in RET_SHAPES:
        r = RET_SHAPES[e.func.attr]
        return tuple(str(d) for d in r) if isinstance(r, tuple) and r[:1] != ('tuple',) else None
    if isinstance(e, ast.Subscript):
        base = site_shape(e.value)
        if base is None:
            return None
        idx = e.slice.elts if isinstance(e.slice, ast.Tuple) else [e.slice]
        out = []
        for k, ix in enumerate(idx):
            if k >= len(base):
                return None
            if isinstance(ix, ast.Slice):
                lo = site_int(ix.lower) if ix.lower is not None else '0'
                hi = site_int(ix.upper) if ix.upper is not None else base[k]
                if lo is None or hi is None or ix.step is not None:
                    return None
                SLICE_OBL.append({'what': 'slice %s stays inside axis %d of %s' % (ast.unparse(e), k, ast.unparse(e.value)), 'line': e.lineno,
                                  'goal': '0 ≤ %s ∧ %s ≤ %s ∧ %s ≤ %s' % (lo, lo, hi, hi, base[k])})
                out.append(hi if lo == '0' else '(%s - %s)' % (hi, lo))
            else:
                if site_int(ix) is None:
                    return None
        out += list(base[len(idx):])
        return tuple(out)
    return None


def callsites():
    """obligations: at every call of a kernel from the arm / platform models, arguments whose documented shapes share a
    symbol have equal extents there, and constant extents are the documented constants"""
    obl, unresolved = [], []
    for rel in CALLSITE_FILES:
        tree = ast.parse(open(os.path.join(REPO, rel)).read())
        for fn in [n for n in ast.walk(tree) if isinstance(n, ast.FunctionDef)]:
            for call in [n for n in ast.walk(fn) if isinstance(n, ast.Call)]:
                f = call.func
                if not (isinstance(f, ast.Attribute) and isinstance(f.value, ast.Name) and f.value.id in KERNEL_MODULE_NAMES and f.attr in ARG_SHAPES):
                    continue
                doc = ARG_SHAPES[f.attr]
                params = KERNEL_PARAMS.get(f.attr, [])
                binding = {}
                for pname, arg in zip(params, call.args):
                    if pname not in doc:
                        continue
                    del SLICE_OBL[:]
                    sh = site_shape(arg)
                    for so in SLICE_OBL:
                        obl.append({'fn': 'site_' + fn.name, 'line': so['line'], 'what': '%s line %d (%s): %s' % (os.path.basename(rel), so['line'], fn.name, so['what']), 'goal': so['goal']})
                    if sh is None:
                        unresolved.append('%s:%d %s(%s=%s)' % (os.path.basename(rel), call.lineno, f.attr, pname, ast.unparse(arg)[:40]))
                        continue
                    if len(sh) == 2 and sh[1] == '1' and len(doc[pname]) == 1 and f.attr in COLUMN_OK:
                        sh = (sh[0],)      # a column is accepted where a flat vector is documented (row slices behave alike)
                    if len(sh) != len(doc[pname]):
                        raise TranslationError('%s line %d: %s is passed an array of %d axes for %s' % (rel, call.lineno, f.attr, len(sh), pname))
                    for k, (d, want) in enumerate(zip(sh, doc[pname])):
                        what = '%s line %d (%s): %s(%s=%s) axis %d' % (os.path.basename(rel), call.lineno, fn.name, f.attr, pname, ast.unparse(arg)[:50], k)
                        if isinstance(want, int):
                            obl.append({'fn': 'site_' + fn.name, 'line': call.lineno, 'what': what + ' has the documented extent', 'goal': '%s = %d' % (d, want)})
                        elif want in binding:
                            obl.append({'fn': 'site_' + fn.name, 'line': call.lineno, 'what': what + ' agrees with ' + binding[want][1], 'goal': '%s = %s' % (d, binding[want][0])})
                        else:
                            binding[want] = (d, '%s axis %d' % (pname, k))
    for o in obl:
        o['hyps'] = ['0 ≤ n'] + [h for v in SITE_INDEX.values() for h in v]
        o['notsize'] = ['i', 'n']
    return obl, unresolved


KERNEL_PARAMS = {}


def translate():
    fns, skipped = [], []
    del INNER_UNRESOLVED[:]
    for rel in FILES:      # first the parameter names of every kernel (a kernel may call one defined further down)
        for node in ast.parse(open(os.path.join(REPO, rel)).read()).body:
            if isinstance(node, ast.FunctionDef) and is_jit(node):
                KERNEL_PARAMS[node.name] = [a.arg for a in node.args.args]
    for rel in FILES:
        tree = ast.parse(open(os.path.join(REPO, rel)).read())
        for node in tree.body:
            if isinstance(node, ast.FunctionDef):
                if is_jit(node):
                    KERNEL_PARAMS[node.name] = [a.arg for a in node.args.args]
                    f = Fn(node, rel)
                    collect(f)
                    fns.append(f)
                else:
                    skipped.append(node.name)
    return fns, skipped


def emit(fns):
    out = ['/-', '  GENERATED by translate/gen_c17.py from the two JIT modules of /repo — do not edit.',
           '  One theorem per integer subscript / constant slice of every @jit kernel: the index lies within the extent',
           '  of the array, given the documented argument shapes, the enclosing loop ranges and simple integer guards.', '-/', '',
           'set_option linter.unusedVariables false', '', 'namespace BR.Gen.C17', '']
    n = 0
    names = []
    for f in fns:
        for k, o in enumerate(f.obl):
            n += 1
            # free variables: every identifier-like symbol used
            import re
            text = ' '.join(o['hyps'] + [o['goal']])
            vs = sorted(set(re.findall(r'\b[A-Za-z_][A-Za-z_0-9]*\b', text)))
            name = '%s_%d' % (f.name, k)
            names.append(name)
            out.append('/-- %s line %d: %s -/' % (f.name, o['line'], o['what'].replace('-/', '- /')))
            binder = ('(' + ' '.join(vs) + ' : Int) ') if vs else ''
            nonneg = ' '.join('(h_%s : 0 ≤ %s)' % (v, v) for v in vs if v not in o.get('notsize', []))
            hy = ' '.join('(h%d : %s)' % (i, h) for i, h in enumerate(o['hyps']))
            out.append('theorem %s %s%s %s : %s := by omega' % (name, binder, nonneg, hy, o['goal']))
            out.append('')
    out.append('end BR.Gen.C17')
    return '\n'.join(out) + '\n', n, names


class _Site:
    pass


def generate():
    fns, skipped = translate()
    site_obl, unresolved = callsites()
    groups = {}
    for o in site_obl:
        groups.setdefault(o['fn'], []).append(o)
    for name in sorted(groups):
        f = _Site(); f.name = name; f.obl = groups[name]
        fns.append(f)
    text, n, names = emit(fns)
    os.makedirs(os.path.dirname(OUT), exist_ok=True)
    old = open(OUT).read() if os.path.exists(OUT) else None
    if old != text:
        open(OUT, 'w').write(text)
    kern = [f for f in fns if not isinstance(f, _Site)]
    return {'generated_obligations': n, 'kernels': len(kern), 'kernels_with_subscripts': sum(1 for f in kern if f.obl), 'names': names,
            'call_site_obligations': len(site_obl), 'call_site_arguments_not_resolved': unresolved, 'kernel_to_kernel_arguments_not_resolved': sorted(set(INNER_UNRESOLVED)),
            'not_jit_functions_in_the_modules': skipped, 'per_kernel': {f.name: len(f.obl) for f in fns}}


if __name__ == '__main__':
    info = generate()
    print(json.dumps({k: v for k, v in info.items() if k != 'names'}, indent=1))
