"""
T-trace: symbolic tracer of straight-line / branching numeric Python into Lean.

The interpreted source of a fixed-shape kernel is *executed* on NumPy object arrays of
symbolic scalars (class E).  Every comparison returns a symbolic boolean whose
``__bool__`` asks a path oracle; the driver explores all decision prefixes depth-first
and emits the function as a Lean decision tree (nested ``if`` over the recorded
conditions, hash-consed ``let`` bindings, leaf = tuple of scalar expressions / Bool).

Nothing here knows what the traced function is supposed to compute.
"""
import math
import numpy as np

# ---------------------------------------------------------------- expression nodes
_table = {}
_nodes = []


def reset():
    _table.clear()
    _nodes.clear()


def _mk(op, *args):
    key = (op,) + tuple(a.nid if isinstance(a, E) else ('c', repr(a)) for a in args)
    n = _table.get(key)
    if n is None:
        n = E.__new__(E)
        n.op = op
        n.args = args
        n.nid = len(_nodes)
        _nodes.append(n)
        _table[key] = n
    return n


class TraceRefused(Exception):
    """raised when the traced code does something the translator does not model"""


def lift(x):
    if isinstance(x, E):
        return x
    if isinstance(x, (bool, np.bool_)):
        raise TraceRefused('bool used as number')
    if isinstance(x, (int, np.integer)):
        return _mk('int', int(x))
    if isinstance(x, (float, np.floating)):
        x = float(x)
        if x != x or x in (math.inf, -math.inf):
            raise TraceRefused('non-finite constant')
        if x == int(x) and abs(x) < 1e15:
            return _mk('int', int(x))
        return _mk('flt', repr(x))
    if isinstance(x, np.ndarray) and x.shape in ((), (1,), (1, 1)):
        return lift(x.reshape(-1)[0])
    raise TraceRefused('cannot lift %r' % (type(x),))


class E:
    """symbolic scalar"""
    __array_priority__ = 1000

    def __init__(self):
        raise TypeError

    # arithmetic
    def _bin(self, op, other, swap=False):
        if isinstance(other, np.ndarray) and other.shape not in ((), (1,), (1, 1)):
            return NotImplemented
        o = lift(other)
        return _mk(op, o, self) if swap else _mk(op, self, o)

    def __add__(self, o): return self._bin('add', o)
    def __radd__(self, o): return self._bin('add', o, True)
    def __sub__(self, o): return self._bin('sub', o)
    def __rsub__(self, o): return self._bin('sub', o, True)
    def __mul__(self, o): return self._bin('mul', o)
    def __rmul__(self, o): return self._bin('mul', o, True)
    def __truediv__(self, o): return self._bin('div', o)
    def __rtruediv__(self, o): return self._bin('div', o, True)
    def __neg__(self): return _mk('neg', self)
    def __pos__(self): return self
    def __abs__(self): return _mk('abs', self)

    def __pow__(self, k):
        if isinstance(k, (int, np.integer)) and 0 <= k <= 4:
            r = lift(1)
            for _ in range(int(k)):
                r = _mk('mul', r, self) if r.op != 'int' else self
            return r
        if k == 0.5:
            return _mk('sqrt', self)
        raise TraceRefused('pow %r' % (k,))

    # numpy object-dtype dispatch (np.sin(obj_array) calls x.sin())
    def sin(self): return _mk('sin', self)
    def cos(self): return _mk('cos', self)
    def tan(self): return _mk('tan', self)
    def sqrt(self): return _mk('sqrt', self)
    def arccos(self): return _mk('acos', self)

    # comparisons -> symbolic booleans
    def __lt__(self, o): return B('lt', self, lift(o))
    def __gt__(self, o): return B('lt', lift(o), self)
    def __le__(self, o): return B('le', self, lift(o))
    def __ge__(self, o): return B('le', lift(o), self)
    def __eq__(self, o): return B('eq', self, lift(o))
    def __ne__(self, o): return B('ne', self, lift(o))
    __hash__ = object.__hash__

    def __bool__(self):
        raise TraceRefused('truth value of a symbolic scalar')

    def __float__(self):
        raise TraceRefused('float() of a symbolic scalar')

    def __repr__(self):
        return 'E#%d' % self.nid


def sym(name):
    return _mk('var', name)


# ---------------------------------------------------------------- path oracle
class _Oracle:
    def __init__(self):
        self.prefix = []     # decisions to replay
        self.trace = []      # (cond key, cond, decision)

    def decide(self, cond):
        i = len(self.trace)
        d = self.prefix[i] if i < len(self.prefix) else True
        self.trace.append((cond, d))
        return d


_oracle = None


class B:
    """symbolic boolean: comparison of two scalars, or and/or/not of those"""

    def __init__(self, op, a, b=None):
        self.op, self.a, self.b = op, a, b

    def key(self):
        def k(x):
            return x.nid if isinstance(x, E) else (x.key() if isinstance(x, B) else x)
        return (self.op, k(self.a), k(self.b))

    def __bool__(self):
        return _oracle.decide(self)

    def __and__(self, o): return B('and', self, o)
    def __or__(self, o): return B('or', self, o)
    def __invert__(self): return B('not', self)


def explore(fn, max_paths=4096):
    """run fn() under every decision prefix; returns list of (trace, result)"""
    global _oracle
    paths = []
    prefix = []
    while True:
        _oracle = _Oracle()
        _oracle.prefix = prefix
        res = fn()
        tr = _oracle.trace
        paths.append((tr, res))
        if len(paths) > max_paths:
            raise TraceRefused('too many paths')
        # backtrack: flip the last decision that is still True beyond/at prefix end
        dec = [d for (_, d) in tr]
        i = len(dec) - 1
        while i >= 0 and (dec[i] is False):
            i -= 1
        # only decisions we have not already flipped: those at index >= ... all True ones
        # are unflipped because flipped ones are False (default is True)
        if i < 0:
            break
        prefix = dec[:i] + [False]
    _oracle = None
    return paths


# ---------------------------------------------------------------- Lean emission
def _lit(n):
    if n.op == 'int':
        v = n.args[0]
        return '(%d : α)' % v if v >= 0 else '(-(%d : α))' % (-v)
    s = n.args[0]
    neg = s.startswith('-')
    if neg:
        s = s[1:]
    # python repr: 1e-06, 0.5, 1.5e+20
    s = s.replace('e-0', 'e-').replace('e+0', 'e').replace('e+', 'e')
    if '.' not in s and 'e' not in s:
        s += '.0'
    return '(-(%s : α))' % s if neg else '(%s : α)' % s


_BIN = {'add': '+', 'sub': '-', 'mul': '*', 'div': '/'}
_FUN = {'abs': 'sabs', 'sin': 'Scalar.sin', 'cos': 'Scalar.cos', 'tan': 'Scalar.tan',
        'sqrt': 'Scalar.sqrt', 'acos': 'Scalar.acos'}


class Emitter:
    def __init__(self, inline=False):
        self.lines = []
        self.inline = inline
        self.size = 0

    def ref(self, n, bound):
        if n.op == 'var':
            return n.args[0]
        if n.op in ('int', 'flt'):
            return _lit(n)
        if self.inline:
            self.size += 1
            if self.size > 20000:
                raise TraceRefused('inline expression too large')
            if n.op in _BIN:
                return '(%s %s %s)' % (self.ref(n.args[0], bound), _BIN[n.op], self.ref(n.args[1], bound))
            if n.op == 'neg':
                return '(-%s)' % self.ref(n.args[0], bound)
            if n.op in _FUN:
                return '(%s %s)' % (_FUN[n.op], self.ref(n.args[0], bound))
            raise TraceRefused('emit op ' + n.op)
        return 'v%d' % n.nid

    def bind(self, n, bound, ind):
        """emit let-bindings for n (post-order), extend bound"""
        if self.inline or n.op in ('var', 'int', 'flt') or n.nid in bound:
            return
        stack = [(n, False)]
        while stack:
            m, done = stack.pop()
            if m.op in ('var', 'int', 'flt') or m.nid in bound:
                continue
            if not done:
                stack.append((m, True))
                for a in m.args:
                    if isinstance(a, E):
                        stack.append((a, False))
                continue
            if m.op in _BIN:
                rhs = '%s %s %s' % (self.ref(m.args[0], bound), _BIN[m.op], self.ref(m.args[1], bound))
            elif m.op == 'neg':
                rhs = '-%s' % self.ref(m.args[0], bound)
            elif m.op in _FUN:
                rhs = '%s %s' % (_FUN[m.op], self.ref(m.args[0], bound))
            else:
                raise TraceRefused('emit op ' + m.op)
            self.lines.append('%slet v%d : α := %s' % (ind, m.nid, rhs))
            bound.add(m.nid)

    def cond(self, c, bound, ind):
        if c.op in ('lt', 'le', 'eq', 'ne'):
            self.bind(c.a, bound, ind)
            self.bind(c.b, bound, ind)
            a, b = self.ref(c.a, bound), self.ref(c.b, bound)
            return {'lt': '%s < %s', 'le': '%s ≤ %s', 'eq': '%s = %s', 'ne': '%s ≠ %s'}[c.op] % (a, b)
        if c.op == 'not':
            return '¬(%s)' % self.cond(c.a, bound, ind)
        x, y = self.cond(c.a, bound, ind), self.cond(c.b, bound, ind)
        return '(%s) %s (%s)' % (x, '∧' if c.op == 'and' else '∨', y)

    def leaf(self, res, bound, ind):
        if isinstance(res, (bool, np.bool_)):
            self.lines.append(ind + ('true' if res else 'false'))
            return
        flat = list(np.asarray(res, dtype=object).reshape(-1)) if not isinstance(res, E) else [res]
        flat = [lift(x) for x in flat]
        for x in flat:
            self.bind(x, bound, ind)
        self.lines.append(ind + '(' + ', '.join(self.ref(x, bound) for x in flat) + ')')

    def tree(self, paths, depth, bound, ind):
        """paths all share the first `depth` decisions"""
        tr0, res0 = paths[0]
        if len(tr0) == depth:
            if len(paths) != 1:
                raise TraceRefused('non-deterministic trace')
            self.leaf(res0, bound, ind)
            return
        c = tr0[depth][0]
        for tr, _ in paths:
            if len(tr) <= depth or tr[depth][0].key() != c.key():
                raise TraceRefused('paths disagree on the condition at depth %d' % depth)
        yes = [p for p in paths if p[0][depth][1]]
        no = [p for p in paths if not p[0][depth][1]]
        cs = self.cond(c, bound, ind)
        if not yes or not no:
            raise TraceRefused('one-sided decision')
        self.lines.append('%sif %s then' % (ind, cs))
        self.tree(yes, depth + 1, set(bound), ind + '  ')
        self.lines.append('%selse' % ind)
        self.tree(no, depth + 1, set(bound), ind + '  ')


def emit_def(name, params, rettype, paths, cls='OrdField', inline=False):
    em = Emitter(inline)
    em.tree(paths, 0, set(), '  ')
    head = 'def %s {α : Type} [%s α] (%s : α) : %s :=' % (name, cls, ' '.join(params), rettype)
    return head + '\n' + '\n'.join(em.lines) + '\n'
