#!/bin/sh
# build the Lean project (models, proofs, compiled driver) from files on disk only
set -e
cd "$(dirname "$0")/lean"
lake build 2>&1 | tail -5
