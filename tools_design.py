#!/usr/bin/env python3
"""Assembles /verif/DESIGN.md: hand-written sections below + sections generated from what the machinery itself declares
(tools_manifest.CLAIMED, the harness modules' THEOREMS/TIE/TRUSTED/SAMPLED/RULE, known_findings.json, seeded/*/meta.json),
so that the document cannot drift from the checks.  Run:  python3 tools_design.py"""
import json, os, sys, importlib, glob, re, subprocess

V = os.path.dirname(os.path.abspath(__file__))
sys.path.insert(0, os.path.join(V, 'harness')); sys.path.insert(0, os.path.join(V, 'translate')); sys.path.insert(0, V)

HEAD = r'''# DESIGN — machine-checked proof (Lean 4) for `64-B1T/basic_robotics`

Status: **as built**. The first version of this file was written before any code (it fixed what would be modelled,
proved and tied); this version describes what exists, what it found, and what it cannot reach. Sections 5, 6 and 8 are
generated from the checks' own declarations (`python3 tools_design.py`), so they cannot drift from the machinery.

Sections: 1 approach · 2 architecture · 3 decision procedure and interface · 4 trusted base · 5 the twenty properties ·
6 defects found (repairs and known findings) · 7 false alarms that were corrected · 8 seeded and hand-made changes: which
check catches which · 9 observations outside the listed properties · 10 what the tooling cannot do.

--------------------------------------------------------------------------------------

## 1. Approach in one page

The library is numerical Python (NumPy / SciPy / Numba). Its properties quantify over *all* poses, twists, chains,
histories — which the suite samples at one or two book examples to 2–3 decimals. What a proof reaches and the tests cannot:

* **every input at once** — `TransInv(T)·T = I`, `exp(log R) = R` on *all* of SO(3) including the three-way branch at
  angle 0 / generic / π that no test visits;
* **every history** — "after any sequence of setters and operators the 4×4 and the six-vector of a `tm` agree", "after any
  sequence of Stewart-platform calls the published state is coherent" are invariants proved by induction over the
  operation list, with every value a numeric solver may return universally quantified;
* **every size** — chain theorems are inductions over the list of joints or links, not n = 3 and 6;
* **branch completeness** — the planner's six-test separating-axis routine is proved *equivalent* to geometric
  intersection, so a dropped or mis-indexed branch is a failed proof, not a lucky sample;
* **every subscript** — 568 index-bound theorems (306 inside the kernels, 160 where a kernel hands an array to another kernel, 102 at the call sites of the arm / platform / transform layers), regenerated from the source on every run.

Method. Each property is stated as Lean 4 theorems about an **executable model** of the anchored code. A model is written
once, *generically over a scalar type* (`class Scalar α`: `+ − × ÷`, `<`, `≤`, `sin cos tan sqrt acos atan2 floor`,
literals). The *same definitions* are instantiated at `ℝ` (Mathlib) for the theorems and at `Float` (or `Rat`/`Nat` where no
transcendental is needed) and **run** by a compiled driver on the same inputs as the real implementation. One definition,
two instances: there is no second executable copy that could drift from the one the theorems talk about. Theorems that
are purely structural (C10 state machine, C14, C16, C19, C20 coverage) are proved for *every* scalar instance, hence also
for the `Float` instance that is run.

The tie to `/repo` is checked on every run, per property, in one of two ways (or both):

* **Translator (T)** — two translators regenerate Lean files from the *current* source on every run:
  `translate/gen_c15.py` symbolically traces the interpreted source of `RRTStar.obstruction` into
  `lean/BR/Gen/C15.lean` (the theorems are about the generated definition); `translate/gen_c17.py` walks the `ast` of the
  two JIT modules and regenerates one index-bound theorem per subscript into `lean/BR/Gen/C17.lean`.
* **Correspondence (K)** — everywhere else. The harness (CPython, real library in-process) generates inputs / operation
  histories from one seeded PRNG, runs the implementation, pipes the same lines to the Lean driver (`brdriver`, a compiled
  `lean_exe`: models and driver import nothing), and diffs. Floats cross the boundary as IEEE-754 bit patterns (16 hex
  digits), strings as hex of their UTF-8 bytes — never as decimal text.
  (The plan had foreseen T-trace for the closed-form rigid-motion kernels as well; in the build the correspondence tie
  turned out to be the sturdier choice there — deep `let` chains of traced kernels defeated `simp` — so only C15 is traced.)

A broken proof or a correspondence mismatch is *not* by itself a violation: every check also runs the property's
**falsifier** — an independent statement of the property evaluated directly on the implementation — and reports the
concrete failing input as the replay; if none is found it still reports the violation and ends the line with
`no-failing-input-found`, naming what no longer checks.

What is *not* a proof here and is labelled `sampled_not_proved` in every evidence file: anything about IEEE rounding (the
theorems are over ℝ or exact rationals; tolerances absorb rounding and the correspondence measures it), convergence of
Newton / quasi-Newton iterations (C07 local convergence, C09 FK recovery), the passivity, gravity-gradient and energy
identities of the recursive dynamics (part of C08), the derivative clause of C06 inside the cut-off band of a joint, compiled = interpreted values (half of C17), "Python does not raise" (C20).

--------------------------------------------------------------------------------------

## 2. Architecture

```
/verif
  DESIGN.md  MANIFEST.json  properties.jsonl  known_findings.json  setup.sh
  check                      # single entry point:  ./check C07 [--tier quick|thorough] [--replay F]
  tools_manifest.py          # regenerates MANIFEST.json from the CLAIMED table
  tools_design.py            # regenerates this file
  tools_baseline.sh          # runs /repo's pinned suite and compares with /root/.vp/BASELINE.json (after every fix:)
  tools_seed.py              # confirms a sub-agent's seeded change and runs the registered check against it
  tools_regress.py           # re-runs the registered quick check against every kept seeded change (after generators change)
  lean/                      # `lake new BR lib`, no `require`; lib BR + exe brdriver
    BR/Scalar.lean           # classes OrdField / Scalar, Float and Rat instances              (import-free)
    BR/LinAlg.lean           # V3 M3 V6 M6(blocks) T4 as structures                           (import-free)
    BR/Model/*.lean          # MR MRRef Tm Screw Helpers Comms RRT Heap HeapOps Arm ArmStatics IK Urdf Dyn SP SPCarry Disp   (import-free)
    BR/Gen/C15.lean          # REGENERATED every run (T-trace of RRTStar.obstruction)
    BR/Gen/C17.lean          # REGENERATED every run (T-index: 568 index-bound theorems)
    BR/Driver.lean           # line protocol over the executable instances -> `brdriver`
    BR/Real.lean             # instance Scalar ℝ, bridge simp lemmas
    BR/Lemmas/*.lean         # SegBox Rot SO3 TmLemmas M3Ring SE3 Chain (single Mathlib modules imported)
    BR/Props/Cxx.lean        # ONLY property theorems + non-vacuity examples
    BR/Audit/Cxx.lean        # generated per run: `#print axioms` for every property theorem (git-ignored)
  harness/                   # common.py (protocol, evidence, replay, findings) gen.py tmh.py armh.py sph.py mrargs.py
                             # cxx.py per property (THEOREMS, TIE, TRUSTED, RULE, SAMPLED, run, replay), c17_worker.py
  translate/                 # trace.py + gen_c15.py (T-trace), gen_c17.py (T-index)
  certs/                     # sympy scripts that *find* linear_combination certificates (untrusted)
  vendor/modern_robotics_ref # pinned reference Modern Robotics 1.1.1 (C02)
  seeded/<id>/               # changes produced by sub-agents: patch.diff, demo.py, meta.json (+ confirmation record)
  evidence/                  # rewritten by every run
  replays/                   # failing inputs, one JSON per violation (git-ignored, rewritten)
```

### 2.1 Model conventions

* **Scalars.** `class OrdField α` (`+ − × ÷`, literals, decidable `<`/`≤`) and `class Scalar α extends OrdField α`
  (`sin cos tan sqrt acos atan2 floor pi`). Literal and `Decidable` instances are low priority so that `(0 : ℝ)` elaborates
  to Mathlib's; `BR/Real.lean` provides the bridge lemmas (`ofNat_real`, `sabs_real'`, `sin_real` …) used by the tactics
  `m3simp` / `m3ring`.
* **Data.** `V3`, `M3` (nine fields), `V6 = (a, b)`, `M6` as 2×2 blocks of `M3`, `T4 = (R, p)` (bottom row implicit).
  Structures, not `Fin n → Fin m → α`: strict evaluation and `cases; m3ring` proofs. `Ring (M3 ℝ)`, `Module ℝ (V3 ℝ)`
  instances enable `noncomm_ring` / `module`. Chains, legs, histories are `List`s; theorems about them are inductions.
* **Code shape.** A Python function becomes a Lean function with the *same branch structure and constants* (`NearZero` =
  `|z| < 1e-6`, the three-way `acosinput` test, `abs(x) > 2π`, the height clamp of the FK loop …). Loops become
  folds / structural recursion; `while` loops take the code's iteration cap as fuel. In-place mutation becomes "return the
  new value" — and where the Python really aliases, the model reproduces it (`_rescaleLegLengths`: `min(self.lengths)`
  is a *view*, so the bounds change while the loop runs; `rescaleLive` in `Model/SP.lean` models exactly that and agrees
  bit for bit). Library calls outside the repo (`np.linalg.pinv/solve/inv/lstsq`, SciPy `fsolve`, `rtree`, sockets,
  `random`, Python `str()`) are **parameters / oracle inputs** of the model; §4 lists them.
* **Objects and histories.** Stateful classes (`tm`, `Screw`/`Wrench`, `Arm`, `SP`, `Comms`, `RRTStar`) are
  `State`, `Op`, `step`; history properties are `Inv s → Inv (step s op)`, lifted to `List Op` by induction. Solver
  outputs are recorded from the real run (monkey-patching inside the harness process — no repo hook) and fed to the model.
* **The 1e-6 cut-off.** `NearZero` makes `exp3`/`exp6` discontinuous: rotation vectors shorter than 1e-6 exponentiate to
  the identity. Theorems through `exp ∘ log` carry the side condition `angle = 0 ∨ angle ≥ 1e-6` (`AngleOK`, `JointOK`,
  `RelAngleOK`); inside the band the falsifier measures the bound (sampled). A hypothesis a proof forced was always run
  against the real code at the excluded point — that is how the C12 and C01/C03/C13/C18 known findings were found.

### 2.2 Translators

**T-trace (`translate/trace.py`, `gen_c15.py`).** A scalar class overloads arithmetic and comparisons (comparisons ask a
path oracle), the interpreted source of `RRTStar.obstruction` is executed on symbolic box and segment coordinates, all
decision prefixes are explored, and the function is printed as a Lean `def … [OrdField α]` (inline emission — `let` chains
defeated `simp`). `obstructedBox_iff` is about that generated definition. A removed rejection test, `>` for `>=`, a swapped
index: the theorem no longer checks; the lattice search of the falsifier then produces the segment.

**T-index (`translate/gen_c17.py`).** Walks every `@jit` function of the two JIT modules. For every integer subscript and
constant slice it emits `theorem Kernel_k (sizes … loop vars …) (0 ≤ sizes) (loop ranges) (enclosing integer guards) :
0 ≤ e ∧ e < dim := by omega`. Array shapes come from the documented argument shapes (`ARG_SHAPES`, checked by the harness
against the shapes really passed), from local constructors (`np.zeros((6, n))`, `np.eye(4)`, `X.copy()`, `np.zeros(A.shape)`,
broadcasting, `np.dot`, slices) and from the documented return shapes of called kernels (`RET_SHAPES`, checked against the
shapes really returned). One integer local that is not a loop variable (`j` in `SPFKinSpaceR`) has a declared invariant
`j = 2(i−3)`, whose initialisation and preservation are themselves generated obligations and whose update statement is read
off the source. A subscript it cannot resolve makes the translator **refuse** the source (never a silent skip).

### 2.3 Correspondence

`harness/common.py`: `random.Random(f(VERIF_SEED))` is the only source of randomness; generators are *structured*
(`gen.py`: axis class × angle class incl. 0, 5e-7, 1e-6·(1±1e-3), 1, π/2, π−1e-3, π−1e-6, exact and near half-turns;
chains n = 1..7; platform geometries over the quantified ranges incl. squat and far-placed ones; operation grammars per
class); comparison is `|a−b| ≤ atol + rtol·scale` widened by a conditioning estimate where the function is
ill-conditioned (`1/(π−θ)²` for the logarithm, compounding along a history); thresholds of discontinuous functions
(`floor`, the 2π wrap, the cut-off) are detected and skipped-and-counted; evidence records the realised distribution.
Numba's on-disk cache is redirected to `/verif/.cache/numba/<hash of the JIT sources>` so `/repo` is never written and a
changed source never meets a stale cache.

### 2.4 Certificates

Polynomial identities modulo constraints (orthogonality, `det = 1`, `s²+c² = 1`) are closed by `linear_combination` with
coefficients *found* offline by `certs/*.py` (sympy `reduced` and a bounded-degree linear-algebra search) and pasted into
the proof; the kernel checks the identity, sympy is untrusted.

--------------------------------------------------------------------------------------

## 3. Decision procedure, output, known findings

`./check Cxx --tier T` (cwd `/verif`, honours `VERIF_SEED`, `VERIF_TIER`; exit 0 held / 1 violation / 2 infrastructure):

1. delete old replays of Cxx; run the property's translator if it has one (a refusal is a broken tie);
2. `lake build <property modules> brdriver` (incremental); on failure record the declarations that no longer check;
3. hygiene: grep the property's Lean dependency cone (comments stripped) for
   `sorry|admit|native_decide|bv_decide|implemented_by|^axiom |unsafe |maxHeartbeats 0`; generate `BR/Audit/Cxx.lean` and require
   every property theorem's axioms ⊆ `{propext, Classical.choice, Quot.sound}`; the thorough tier adds `lake env leanchecker`;
4. `harness/cxx.py run`: correspondence + falsifier on the implementation; correspondence mismatches are a broken tie;
5. verdict: violations whose `key` matches the regex of an *open* entry of `known_findings.json` print
   `KNOWN-FINDING: property=Cxx <what>`; any other violation prints `VIOLATION property=Cxx replay=replays/…json` (up to
   five distinct keys); a broken proof / tie / hygiene item with no failing input prints
   `VIOLATION property=Cxx replay=… no-failing-input-found` with the broken items in the replay file;
6. `evidence/Cxx.json` (level `proof`): obligations, discharged, checker_cmd, trusted_base, theorems, axioms per theorem,
   tie, evaluations, distinct non-trivial cases and the rule that counts them, samples, mismatches, per-check statistics,
   clauses sampled-not-proved, what no longer checks, known findings reproduced.

`known_findings.json`: `{property, id, status: open|fixed, commit, what, where, match}`. The file is never written at run
time; `fixed` entries suppress nothing (the violation is reported again if it returns — several were re-introduced by
sub-agents and were reported, §8).

--------------------------------------------------------------------------------------

## 4. Trusted base

* Lean 4.33 kernel; Mathlib v4.33 as compiled on this image; the axioms of every property theorem are audited on every run
  to be within `propext`, `Classical.choice`, `Quot.sound`. No `native_decide`, no `bv_decide`, no axioms of ours, no
  `sorry`/`admit`; `decide +kernel` is used for finite tables (C14 scope table). `#guard` lines in C20 are build-time tests
  and are labelled as such.
* `instance : Scalar ℝ` (Mathlib's `Real.sin/cos/tan/sqrt/arccos/arctan…`). `Float` semantics are *not* trusted for any
  theorem — `Float` is only the carrier of the correspondence run.
* The two translators and the correspondence harness (`translate/*.py`, `harness/*.py`), including the generators'
  coverage: a behaviour the generators never reach is not tied. `ARG_SHAPES` / `RET_SHAPES` / the one declared loop
  invariant of `gen_c17.py`.
* Modelled as parameters / oracle inputs, not verified: NumPy factorisations (`pinv, inv, solve, lstsq` — `solve` is also
  modelled by Gaussian elimination for the FK loop and agrees to 1e-15), SciPy `fsolve`, `scipy.spatial.transform.Rotation`
  (contract modelled and compared), `rtree` nearest-neighbour queries, `random`, sockets, `ElementTree` (→ an abstract
  joint list built by the harness from the same file), Numba's compilation (differential and bounds-checked evidence only),
  Python's `str()` of shapeless objects, `Nat.repr`.
* IEEE-754 rounding, BLAS summation order, libm: outside every theorem; bounded only by the measured
  model/implementation gap and the properties' tolerances.
* Per property: the `trusted_base` list in each evidence file (reproduced in §5).

--------------------------------------------------------------------------------------
'''

FALSE_ALARMS = r'''
--------------------------------------------------------------------------------------

## 7. False alarms that were corrected (the check was wrong, not the code)

Each of these was a VIOLATION on the unchanged tree that turned out to be the machinery's fault. The machinery was
corrected; none is listed as a finding and no correct check was loosened.

| Property | What fired | Why it was wrong | Correction |
|---|---|---|---|
| C01 | round trips near the cut-off | tolerance read too tightly: the property allows 5e-6 absolute on unit-scale entries because the cut-off itself introduces up to 1e-6 | tolerance = 5e-6 abs + 1e-9·scale (+1e-6·scale inside the band) |
| C03 | model/implementation mismatches | model of the array-copy constructor did not recompute the six-vector; SE(3) bottom row compared too tightly; comparisons continued after an ill-conditioned logarithm input, next to `floor` / 2π thresholds | model corrected; skip-and-count after ill-conditioned inputs and next to thresholds; per-history conditioning allowance, later made *compounding* (a long history carried a 1e-7 difference through five operations) |
| C12 | frame-change identities at 1e-8 | conditioning of the logarithm near π not allowed for | conditioning-aware tolerance |
| C16 | harness crash / hang | `float(array)` under NumPy 2 in the harness; trace recording with k = 1; a rejection-sampling generator that could not terminate | harness fixed; generator bounded by `LoopGuard`, abandoned runs counted |
| C18 | `lookAt` classification | vertical case classified by an epsilon instead of by the geometry the code tests | classification by geometry |
| C05 | state check after limit-free IK | harness demanded a clamped state after `IKFree`; joint-frame check run on states outside the limits | accept what the property states; skip the joint-frame clause outside limits |
| C06 | link Jacobian | harness assumed link homes exist for every arm | only when `len(link homes) = n` |
| C13 | loader raised on generated files | generator omitted `<link name="world"/>` | generator fixed |
| C09 | 25 `SPIKinSpace` mismatches | expectation read the published joints *after* a corrective action while the lengths were those before it | expectation taken from a protected IK at the same poses |
| C10 | `valid-but:leg-limits` after FK | `FK(protect=True)` returns `True` without validating — by documentation it bypasses detection | verdicts of protected calls are not validation verdicts (theorem `op_verdict_sound` states exactly which verdicts are) |
| C11 | `derivative:far` 1.5e-6 | truncation error of the Richardson reference itself for a 0.3 m platform 12 m from the origin with step 1e-3 | steps 2e-4 / 1e-4 (the property asks ≥ 1e-4) |
| C02 | `ik-different-solution` | two converged solutions of the same branch 2e-6 apart after an excursion to \|θ\| ≈ 35 (rounding amplified by a long Newton run); the harness demanded 1e-7 absolute | "same solution" = same branch: ≤ 1e-4·(1+\|θ\|), cases counted in `ik_same_branch_rounding_amplified` |
| C04 | thorough tier: `g2l` mismatch with dTM 9e-7; later a 7e-9 mismatch late in a history | a result rotation within 2e-10 of the 1e-6 cut-off put model and implementation on different sides of the discontinuity; a conditioning difference allowed at one step was not carried to the later steps of the same history | results within 1e-8 of the cut-off are skipped and counted; the allowance compounds along the history (as in C03) |
| C05 | thorough tier: `setHome` mismatches ~1e-7 | tool-frame operations go through MatrixLog3: with the tool / base / current pose within 3e-3 of a half turn (or a rotation below 3e-6) the model (same algorithm, other rounding) legitimately differs by more than 1e-8 | such histories are not compared from that point on (the falsifier still runs on them) |
| C07 | thorough tier: `incoherent-after-success` 6e-7 | a stored joint angle of 2π + 5e-7 is wrapped into the exponential's cut-off band; the harness compared the reported pose with the *exact* product of exponentials instead of with the pose as the library computes it | the library's own FK of the stored vector is an accepted reference when a stored angle lies inside the band |
| C09 | thorough tier: `SPFKinSpaceR` mismatch 26 | both runs had used up a 60-iteration budget from a start below the height floor: a non-convergent iteration amplifies rounding without bound | after a budget exit only the iteration count is compared |
| C18 | thorough tier: `hlp.interp` model = identity, implementation = half turn | the *result* of the interpolation was within rounding of a half turn, where the logarithm's branch is decided by the last bit (the known finding); only the relative rotation had been guarded | correspondence only when the inputs and the result stay 1e-2 / 1e-3 away from a half turn; the falsifier classifies the rest |
| C10 | thorough tier (seed 2): 4 histories where the model could not consume the recorded solver outputs | the length corrective action rescales the shortest leg onto the limit itself and the FK that follows reproduces it to solver tolerance: the next `length < limit` is decided by the last bit, and the model (same formula, other evaluation order) went the other way | the recorder flags operations in which a leg-limit comparison was made within 1e-9 of the limit; a history is not compared past such a decision (counted in `histories_cut_at_a_last_bit_limit_decision`); the coherence / constraint falsifier still runs on it |
| C17 | INFRASTRUCTURE-ERROR on a seeded change | the bounds-checked worker died when a set-up step between two recorded calls raised `IndexError`; the run was reported as broken machinery although the exception *was* the violation | set-up failures are recorded and classified like any other call |
| C17 | thorough tier (seed 1): `compiled-differs:IKinSpace` 1e-4 | both executions had used up the 20-iteration budget without converging (joint values near 10..20 rad): a non-convergent Newton iteration amplifies the rounding difference between compiled and interpreted arithmetic without bound | when both runs report failure only the verdict is compared (counted in `ik_not_converged_verdict_only`) |
| C13 | model/loader mismatch 6e-3 | documents with a rotation next to a half turn: the loader really is off there (known finding), the *correspondence* must not double-report it | such documents are classified (`fk:origin-near-half-turn`), left to the falsifier and matched by the open finding |
'''

OBSERVATIONS = r'''
--------------------------------------------------------------------------------------

## 9. Observations outside the listed properties (not findings, not repaired)

* `SP._rescaleLegLengths`: `min(self.lengths)` / `max(self.lengths)` on a (6,1) array are *views*; rewriting the extreme
  legs changes the bounds mid-loop, so legs between them are left out of range. The verdict stays honest (re-validation
  reports invalid), no listed property states what the corrective action must achieve; the model reproduces the aliasing
  exactly (`rescaleLive`).
* `SP.spinCustom` derives the new plate-local joints from the joints *in space*: called at a non-neutral pose it deforms
  the platform geometry. C09/C10 hold for the deformed platform; nothing listed says the geometry must be preserved.
* `Arm.move` re-bases joint homes but not link homes (`_link_homes_global`): `FKLink` / `jacobianLink` after a move refer to
  the old placement. C05 speaks of joint-frame poses, C06 of link Jacobians *relative to the library's link frame*.
* After a length corrective action by rescaling, the shortest / longest leg sits *on* the limit; the re-validation that follows
  (`validate(True, 1)` on lengths reproduced to solver tolerance) is then decided by rounding — the same request can come back
  'valid' or 'invalid'. Either answer is sound in the sense of C10 ('valid' is only reported when the comparison passed).
* `_FKRaphson` tries only the first of its five auxiliary starts (the loop returns on the first failure).
* `fsolve` from a start with zero rotation cannot see the rotation derivatives (its finite-difference step falls inside the
  1e-6 cut-off), so `fk_mode = 0` from the neutral pose always ends in the Raphson fallback.
* `sp_model.py` imports `true` from `sqlalchemy` (a truthy object) — `randomPos` works by accident.

--------------------------------------------------------------------------------------

## 10. What the installed tooling cannot do (and what is done instead)

* No verified floating-point library for Lean on this image and `Float` is opaque to the kernel beyond `+ − × ÷`:
  rounding-error bounds are not proved; they are measured by the correspondence run and reported.
* No `polyrith` back end (needs network): certificates come from local sympy.
* No Python-to-Lean extraction tool exists; the two translators cover closed syntactic fragments only, everything else is
  tied by differential execution.
* Mathlib has no closed-form matrix-exponential calculus for SE(3); all exp/log facts are proved from the Rodrigues closed
  forms the code uses — which is also what makes the theorems about *this* code.
* Convergence of Newton / quasi-Newton / `fsolve` iterations, ODE accuracy and energy drift are analysis statements beyond
  reach here; "Python does not raise" is not a statement a total function can make. All are labelled sampled.
* Cost on this 16-core box: `setup.sh` (`lake build`) ≈ 10 min cold; a quick check 15–120 s (JIT warm-up is the floor for
  anything touching Numba; C17 compiles every kernel twice); thorough adds `leanchecker` and 10–20× the cases.
'''


def prop_titles():
    return {json.loads(l)['id']: json.loads(l) for l in open(os.path.join(V, 'properties.jsonl'))}


def section5():
    import tools_manifest as TM
    props = prop_titles()
    out = ['## 5. The properties\n',
           'For each property: what is proved and how it is tied (the text registered in MANIFEST.json), the theorems audited on every run, the tie, what is trusted, '
           'what is only sampled, and the rule by which the evidence counts distinct non-trivial cases. All twenty are claimed; `not_applicable` is empty.\n']
    for pid in sorted(props):
        p = props[pid]
        out.append('### %s %s\n' % (pid, p['title']))
        c = TM.CLAIMED.get(pid)
        if c:
            out.append('**Claim.** ' + c[0] + '\n')
            out.append('**Technique.** ' + c[2] + '\n')
        try:
            m = importlib.import_module(pid.lower())
            th = list(m.THEOREMS)
            if pid == 'C17':
                out.append('**Theorems.** generated: `BR.Gen.C17.<Kernel>_<k>`, one per subscript, per kernel-to-kernel argument and per resolved call-site slice (568 on the current tree), all audited.\n')
            else:
                out.append('**Theorems (audited).** ' + ', '.join('`%s`' % t for t in th) + '\n')
            out.append('**Tie.** ' + getattr(m, 'TIE', '') + '\n')
            out.append('**Trusted.** ' + '; '.join(getattr(m, 'TRUSTED', [])) + '\n')
            if getattr(m, 'SAMPLED', None):
                out.append('**Sampled, not proved.** ' + '; '.join(m.SAMPLED) + '\n')
            out.append('**Counting rule.** ' + getattr(m, 'RULE', '') + '\n')
        except Exception as e:
            out.append('(harness module not importable here: %s)\n' % e)
    out.append('### Not applicable\nNone. Clauses a Lean theorem cannot carry with the means available are kept inside their property and labelled sampled.\n')
    return '\n'.join(out)


def section6():
    kf = json.load(open(os.path.join(V, 'known_findings.json')))
    out = ['--------------------------------------------------------------------------------------\n', '## 6. Defects found\n',
           'Every entry below was produced by a check as a VIOLATION with a replay against the real code, then either repaired by one minimal unguarded `fix:` commit in `/repo` '
           '(the pinned 155-test baseline passes after each; `tools_baseline.sh`) or recorded as an open known finding.\n',
           '### 6.1 Open known findings (reported as `KNOWN-FINDING`, exit 0)\n',
           'They have two root causes, neither of which can be repaired without breaking another property. (1) `MatrixLog3` is the reference Modern Robotics algorithm, which extracts the angle from the trace; '
           'next to π the trace is flat and half the digits are lost (C01, C03, C13, C18, C10-plate-pose-near-half-turn). (2) The 1e-6 `NearZero` cut-off of the exponential and the logarithm snaps rotations strictly inside (0, 1e-6) to the identity, which is part of the same reference semantics (C12, C05, C10-relative-rotation-band). C02 pins the port to the reference to 1e-9, so a more accurate logarithm or a removed cut-off would violate C02. Where the symptom could be removed one layer up without touching the kernels it was (`fix:` 89bbf50: the arm keeps its tool home by matrix products). A third kind (C02-ik-excursion-branch) is the Newton iteration of the reference IK itself: from starts that send it tens of radians away it is chaotic, and port and reference settle on different solutions.\n',
           '| id | property | what fails | where |', '|---|---|---|---|']
    for f in kf:
        if f['status'] == 'open':
            out.append('| %s | %s | %s | %s |' % (f['id'], f['property'], f['what'].replace('|', '\\|'), f['where']))
    out += ['', '### 6.2 Repaired (`fix:` commits; recorded as `fixed`, suppress nothing)\n', '| commit | property | what failed | where |', '|---|---|---|---|']
    for f in kf:
        if f['status'] == 'fixed':
            w = re.sub(r'^fixed: property=\S+ \S+ ', '', f['what'])
            out.append('| %s | %s | %s | %s |' % (f.get('commit'), f['property'], w.replace('|', '\\|'), f['where']))
    out.append('\nThe `mirror()` repair and its caller are one commit: `SP._fixUpsideDown` had compensated the sign error by naming the plane z = −thickness; '
               'the suite\'s `test_kinematics_sp_fixUpsideDown` pins the pair.\n')
    return '\n'.join(out)


def section8():
    out = ['--------------------------------------------------------------------------------------\n', '## 8. Changes the checks were run against\n',
           '### 8.1 Seeded by sub-agents\n',
           'Each change was produced by a fresh sub-agent that saw only the text of one property and a scratch worktree of `/repo` (nothing from `/verif`), confirmed by `tools_seed.py` '
           '(its demonstration fails on the changed tree and passes on the original; the pinned suite still passes), kept under `seeded/<id>/`, and the registered quick check was run with the patch applied to `/repo` '
           '(seeds 0, 1[, 2]) and undone. Where a seed missed, the check was strengthened (generator or history grammar — never the oracle) and re-run; both records are in `meta.json`.\n',
           '| id | change | trigger | first run | after strengthening | what was strengthened |', '|---|---|---|---|---|---|']
    strengthened = {
        'C03': 'angle palette and random angles now include −(2π+0.5) and other negative out-of-range rotation entries; two start pairs and three atomic ops with them',
        'C09': 'FK kernel also compared from a start *below* the height floor (clamp exercised on every run); 30% squat geometries; one pose per platform at the low end of the height range',
        'C02': 'targeted IK starts: the start is the solution and the goal is displaced along one basis twist by 3× / 0.5× the tolerance, all six components, both solvers',
        'C13': 'rpy drawn with 35% probability from the angles URDF authors write (quarter turns, values that cancel, repeat or vanish)',
        'C06': 'histories include `restoreOriginalEE` after a tool change (and a move after it)',
        'C03b': 'after every step ALL objects of the store are examined, not only the target of the operation: a bystander whose matrix or six-vector changed is a broken frame condition (the model changes the target only) and must still be coherent',
        'C05b': 'arms get asymmetric random joint limits (|lower| != upper) instead of the symmetric +-2pi of the test arm, and histories include `FKedge` requests that leave the limits through ONE joint on ONE side by 1e-3..0.5',
        'C10b': 'a quarter of the histories start with a scripted prefix (scipy FK mode, IK to a mirrored pose with legs in range, FK of the current lengths) that reaches the inverted-plate repair branch of FK',
        'C19b': 'the loopback run on real UDP sockets became a short random send/poll history over two hops (sink + forward): each datagram delivered once, an empty poll after earlier receives is silent',
        'C02c': 'the shared argument generator (harness/mrargs.py) now draws EXACT half turns (trace exactly -1) about the coordinate axes, the face diagonals and rational axes (3,4,0)/5 ..., covering each of the three sub-branches of the angle-pi case of the logarithm, for MatrixLog3, MatrixLog6 and the trajectory functions',
        'C07c': 'targeted starts: the start is the solution of a goal displaced along one basis twist by 0.5x / 3x / 8x that component\'s tolerance, both solver paths, all four tolerance pairs (so the test of the starting vector decides)',
        'C11c': 'motor and shaft centres of gravity are set to DIFFERENT random distances (they were equal, as in the test platforms)',
        'C13c': 'generated documents include one-sided joints: a limit bound written as exactly zero (30%)',
        'C14c': 'two-pose helpers get operand pairs in the special placements their branches key on (same pose, same position, one directly above / below the other, pure translations, collinear) besides generic pairs',
        'C17c': 'the bounds-checked worker no longer dies when a set-up step between recorded calls raises: the failure is reported (IndexError = violation) instead of an infrastructure error; the generated index theorem MatrixLog3_20 also stopped checking',
        'C02d': 'SimulateControl is called with a controller model that differs from the robot in gravity, link frames AND link inertias (the inertia lists had been the same object)',
        'C05d': 'a quarter of the IK operations of a history aim at a goal 30..60 beyond reach, so that every attempt of either solver fails and the state after a failed solve is examined',
        'C06d': 'the wrench-recovery clause is also evaluated next to (not at) a singularity: one joint is walked towards rank loss until cond(J) lies in (1.5e3, 8e3)',
        'C08d': 'Arm-level dynamics get structured tip wrenches (none, dense, pure moment, pure force, one basis wrench) instead of always zero',
        'C17d': 'the translator now also generates a theorem for every argument a kernel hands to another kernel (extent at least what the callee documents; 160 more theorems), and the shared generator restarts both IK kernels at their own solution so that both halves of the start test are evaluated under bounds checking',
        'C18d': 'unitSphere is run for every grid size k = 1..45 (n = k*k covers all counts up to 2000) and fiboSphere for every count up to 64 plus a spread',
        'C19d': 'message palette includes a falsy message (0; an empty datagram on the UDP hops): a message that is falsy in Python is still a message',
        'C06e': 'the velocity / statics / Jacobian queries are repeated with the joint vector given BY KEYWORD while the arm\'s stored state is elsewhere, and compared with the positional form',
        'C07e': 'the start vector is handed over in three forms: a private copy, omitted (the arm\'s stored state), or the very array last given to FK (stored state and start may share memory)',
        'C08e': 'joint-rate vectors with exact zeros (some joints at rest, or a single joint moving) in the shared dynamics generator and at Arm level',
        'C10e': 'new operation fk_at: FK over a bottom plate pose given by the caller; the model was generalised (fkAt, Op.fkAt; theorems fkAt_coh, fkAt_sound) and agrees with the real method on every history',
        'C11e': 'inverseJacobian is also called with BOTH plate poses given by the caller (the platform placed elsewhere, same relative pose): correspondence on the joints of those poses and the derivative clause there',
        'C18e': 'gap closing with the goal NEARER than the step',
        'C04e': '(caught by the correspondence only at first) constructor-form poses are now also USED as operands of localToGlobal / globalToLocal and compared with ref*T / inv(ref)*T, which gives the failing input',
        'C17e': '(caught by the generated call-site theorem only at first) the bounds-checked worker now exercises every optional-argument form of the index-taking calls (protect=True), which gives the failing input',
        'C01f': 'tolerance tests made NaN-safe (a not-a-number result no longer passes `x > tol`; done in every harness: `G.gt`) and an exact half-turn pose about a generic axis added to the SE(3) round trip of every iteration',
        'C04f': 'pose pairs inside the quantifier (quarter turns about a coordinate axis) whose COMPOSITION is an exact half turn; products in the code\'s exact half-turn branch are no longer excluded as near-pi',
        'C06f': 'the link-mass statics are queried with an explicit joint vector while the arm is parked elsewhere and compared with the defaulted form at that configuration',
        'C07f': 'a third of the arms carry a tool (setArbitraryHome, not restored) when IK is called',
        'C08f': 'every run contains a 7-joint and a 1-joint arm (both ends of the quantifier)',
        'C09f': '(caught by the correspondence only at first) FK of lengths that differ from neutral in ONE actuator, each of the six, both solvers: gives the failing input',
        'C10f': 'out-of-workspace requests include tilts about a plate diagonal between 63 and 86 degrees (R00 and R11 stay above 1/2, R22 does not)',
        'C11f': 'sumActuatorWrenches is called with explicit leg forces that are not the ones the last statics call stored; model correspondence and -invJ^T f',
        'C12f': 'whole-number forces at a point in every form a caller writes them (int array, list of ints, int magnitude times direction)',
        'C14f': 'operators with the scalars that invite a shortcut (0 for + and -, 1 for * and /), direct and reflected, sum() over one element, tm composed with the identity',
        'C18f': 'lookAt targets ALMOST above / below the viewer (lateral offsets 5e-7, 1e-7, 2e-8)',
        'C19f': 'sinks are bound methods taken afresh for every registration (equal, not identical); a sink counts once however often it is listed',
        'C01g': '(strengthened from the sub-agent\'s report BEFORE the first run) translations whose components cancel, repeat or vanish in the adjoint identities',
        'C02g': '(strengthened before the first run) rigid transforms with tiny rotations (1e-9, 1e-7, 5e-7, around 1e-6) for MatrixLog6 and its users',
        'C06g': '(strengthened before the first run) joint vectors with some joints almost, but not exactly, at zero (4e-6 .. 8e-5)',
        'C07g': '(strengthened before the first run) after every successful targeted solve the stored joint vector must be the returned one — these solves follow earlier (possibly failed, restarts disabled) solves on the same arm',
        'C08g': '(strengthened before the first run) ONE float64 torque array is handed to forward dynamics twice: same answer, array unaltered',
        'C10g': '(strengthened before the first run) move() to bases tilted past 90 degrees',
        'C04g': 'a pose built from another pose (tm(t), tm(array([t])), copy()) is edited; the source must still mean the same pose, in storage and in use',
        'C11g': 'the balance is also read through the DEFAULTED queries after a space-frame and after a body-frame statics call, each with its own wrench',
        'C12g': 'the two-argument form changeFrame(new, old_frame) on an object whose recorded frame already equals the new one',
        'C16g': 'a direction-dependent distance callback (climbing costs three times descending)',
        'C04h': 'the nested [position, rotation] pair with the roll-pitch-yaw flag (positional and keyword) and with both entries given as arrays',
        'C12h': 'the point of application given as transform object, 3-array, 3x1 column and 6x1 pose column, directly and through fsr.makeWrench',
        'C18g': 'whole-number screws typed as integers for chainJacobian',
        'C19g': 'the UDP history closes and re-opens a used endpoint and uses it again',
        'C20g': 'LaTeX cells are parsed back and compared with the rounded elements; scripted matrices at nd = 0, 1, 3 where rounding and truncation differ, and specials at nd = 0',
        'C17f': '(caught by the translator\'s refusal only at first) the (kernel, layout) pairs the compiled kernels accept on the reference tree are pinned in harness/c17_layouts.json; a pair that is now rejected with a typing error while the interpreted source returns is reported with the input',
        'C17g': '(as C17f)',
        'C11': 'small platforms placed up to 12 from the origin so that cond(invJ) reaches 1e3..1e4 (the upper part of the property\'s range)',
    }
    metas = [(os.path.basename(os.path.dirname(d)), json.load(open(d))) for d in sorted(glob.glob(os.path.join(V, 'seeded', '*', 'meta.json')))]
    n_all = len(metas)
    n_str = sum(1 for nm, m in metas if m.get('confirmation', {}).get('check_before_strengthening'))
    n_pre = sum(1 for nm, m in metas if 'before the first run' in strengthened.get(nm, '').lower())
    out.insert(len(out) - 2, '**%d changes in eight rounds** (the eighth, after the theorems of the last session, a partial one: as many properties as the remaining time allowed; each round told the sub-agents what the earlier rounds had changed and asked for another function, mechanism, clause, input class or argument form). '
               '%d were caught by the check as it stood; %d were missed at first and are caught since the generator / history grammar / argument forms were widened (column 5); '
               'for %d of the seventh round the widening was made from the sub-agent\'s report before the check was first run against the change (marked). '
               'After the last change to a generator in the seventh round all of them were run again (`tools_regress.py`): every one is reported; after the eighth round widened the C04 and C12 argument forms (no random draw added, streams unchanged) the fourteen C04 / C12 changes were run again: all reported (`seeded/REGRESSION.log`). '
               'What the misses had in common: the check was sound but its inputs were narrower than the property\'s quantifier (symmetric joint limits, equal centres of gravity, dense random wrenches, positional arguments only, one call per object, no NaN-safe comparison).\n' %
               (n_all, n_all - n_str - n_pre, n_str, n_pre))
    for d in sorted(glob.glob(os.path.join(V, 'seeded', '*', 'meta.json'))):
        m = json.load(open(d))
        name = os.path.basename(os.path.dirname(d))
        c = m.get('confirmation', {})

        def summ(chk):
            if not chk:
                return '—'
            return ', '.join('%s:%s' % (k.replace('seed', 's'), 'caught' if v.get('exit') == 1 else 'quiet') for k, v in sorted(chk.items()))
        before = c.get('check_before_strengthening')
        first = summ(before) if before else summ(c.get('check'))
        after = summ(c.get('check')) if before else ''
        what = (m.get('what_changed') or '').replace('|', '\\|').replace('\n', ' ')[:260]
        trig = (m.get('trigger') or '')
        if isinstance(trig, (list, dict)):
            trig = json.dumps(trig)
        trig = trig.replace('|', '\\|').replace('\n', ' ')[:220]
        out.append('| %s | %s | %s | %s | %s | %s |' % (name, what, trig, first, after, strengthened.get(name, '') if (before or 'BEFORE the first run' in strengthened.get(name, '') or 'before the first run' in strengthened.get(name, '')) else ''))
    out += ['', '### 8.2 Hand-made changes (applied to `/repo`, checked, undone)\n',
            '| property | change | outcome |', '|---|---|---|',
            '| C01 | half-turn pivot index swapped in `MatrixLog3`; minus dropped in `TransInv`; `NearZero` threshold 1e-6 → 1e-3 | all caught (correspondence + round-trip falsifier) |',
            '| C02 | `JacobianBody` loop start; `QuinticTimeScaling` coefficient | both caught (port ≠ reference) |',
            '| C03 | `sTM` without refreshing the six-vector; `__setitem__` without refreshing the matrix; `angleMod` modulo π | caught (coherence falsifier / correspondence) |',
            '| C05 | `move` applies Ad(base) to current screws; `thetaProtector` clamps one side only | both caught (history falsifier) |',
            '| C07 | success test `or` → `and` | caught (postcondition on reported successes) |',
            '| C09 | signed-sum exit of the FK loop restored | caught (model ≠ kernel, and pose error above 1e-3 h found) |',
            '| C10 | `validateLegs` returns `True` after correction instead of re-validating; `_IKHelper` no longer refreshes the relative transform | both caught |',
            '| C11 | moment arm taken from the *top* joint (equivalent: t×n = b×n) | **quiet, exit 0** — the property still holds (harmless rewrite) |',
            '| C11 | leg unit vector top − bottom in `sumActuatorWrenches` | caught (base wrench ≠ −W) |',
            '| C12 | `changeFrame` with swapped frames; `__add__` ignoring the right operand\'s frame | both caught |',
            '| C15 | one rejection test removed | caught: `obstructedBox_iff` no longer checks and the lattice search returns a segment |',
            '| C16 | cost from the first nearest after re-parenting; collision test skipped for the first parent | both caught (trace replay against the model) |',
            '| C17 | `FKLink` fix reverted; `range(1, len(thetalist) + 1)` in `JacobianSpace` | caught: IndexError under bounds checking; generated theorems `JacobianSpace_4/_6` no longer check and a failing input is found |',
            '| C19 | `setForwardData` without the membership test | caught (duplicate delivery) |',
            '| C20 | `>= 9999` → `>= 99999`; `printTFlist` inf guard reverted | both caught (character-exact comparison; OverflowError) |',
            '']
    return '\n'.join(out)


def main():
    text = HEAD + '\n' + section5() + '\n' + section6() + FALSE_ALARMS + '\n' + section8() + OBSERVATIONS
    open(os.path.join(V, 'DESIGN.md'), 'w').write(text)
    print('DESIGN.md written: %d lines' % text.count('\n'))


if __name__ == '__main__':
    main()
