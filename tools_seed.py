#!/usr/bin/env python3
"""tools_seed.py <PID> <worktree> [name]
Confirm a seeded change produced by a sub-agent in a scratch worktree (demo fails on the mutated tree and passes on
the original, the pinned suite still passes), keep it under /verif/seeded/<name>/, then run the registered quick check
for the property against /repo with the patch applied and record whether it was caught.  /repo is restored afterwards."""
import json, os, shutil, subprocess, sys, xml.etree.ElementTree as ET, tempfile, time

RECHECK = '--recheck' in sys.argv
CONFIRM_ONLY = '--confirm-only' in sys.argv
if CONFIRM_ONLY:
    sys.argv.remove('--confirm-only')
if RECHECK:
    sys.argv.remove('--recheck')
pid, wt = sys.argv[1], sys.argv[2]
name = sys.argv[3] if len(sys.argv) > 3 else pid
if RECHECK:
    # only re-run the registered check against the kept patch (after a check was strengthened)
    dst = os.path.join('/verif/seeded', name)
    patch = os.path.join(dst, 'patch.diff')
    meta = json.load(open(os.path.join(dst, 'meta.json')))
    st = subprocess.run(['git', '-C', '/repo', 'status', '--porcelain'], capture_output=True, text=True).stdout
    assert not [l for l in st.splitlines() if not l.startswith('??')], '/repo is not clean'
    assert subprocess.run(['git', '-C', '/repo', 'apply', patch]).returncode == 0
    try:
        results = {}
        for sd in (0, 1, 2):
            p = subprocess.run(['./check', pid], cwd='/verif', env=dict(os.environ, VERIF_SEED=str(sd), VERIF_TIER='quick'), capture_output=True, text=True)
            viol = [l for l in p.stdout.splitlines() if l.startswith('VIOLATION')]
            results['seed%d' % sd] = {'exit': p.returncode, 'violation_lines': viol[:3]}
            if viol:
                try:
                    d = json.load(open(os.path.join('/verif', viol[0].split('replay=')[1].split()[0])))
                    results['seed%d' % sd]['first_key'] = d.get('key') or ('no-failing-input-found: ' + str(d.get('no_longer_checks'))[:300])
                except Exception:
                    pass
    finally:
        subprocess.run(['git', '-C', '/repo', 'checkout', '--', '.'])
    c = meta.setdefault('confirmation', {})
    if 'check' in c and 'check_before_strengthening' not in c and not c.get('caught'):
        c['check_before_strengthening'] = c['check']
    c['check'] = results
    c['caught'] = all(r['exit'] == 1 for r in results.values())
    json.dump(meta, open(os.path.join(dst, 'meta.json'), 'w'), indent=1)
    subprocess.run(['git', '-C', '/verif', 'checkout', '--', 'evidence'])      # evidence/ was rewritten from a mutated tree: restore the committed files
    print(json.dumps(results)[:600]); print('CAUGHT' if c['caught'] else 'MISSED')
    sys.exit(0)
seed = os.path.join(wt, '_seed')
patch = os.path.join(seed, 'patch.diff')
env = dict(os.environ, PYTHONPATH=wt)


def sh(cmd, cwd=None, env=None, timeout=3600):
    p = subprocess.run(cmd, cwd=cwd, env=env, shell=isinstance(cmd, str), stdout=subprocess.PIPE, stderr=subprocess.STDOUT, text=True, timeout=timeout)
    return p.returncode, p.stdout


def demo():
    rc, out = sh(['/venv/bin/python', os.path.join(seed, 'demo.py')], cwd=wt, env=env, timeout=1800)
    return rc, out[-600:]

report = {'property': pid, 'name': name}
# the patch must be what is applied in the worktree
rc, cur = sh(['git', '-C', wt, 'diff', '--', 'basic_robotics'])
open(patch, 'w').write(cur)
report['files'] = [l[6:] for l in cur.splitlines() if l.startswith('+++ b/')]
rc_m, out_m = demo()
sh(['git', '-C', wt, 'apply', '-R', patch])
rc_o, out_o = demo()
sh(['git', '-C', wt, 'apply', patch])
report['demo_mutated_exit'] = rc_m; report['demo_original_exit'] = rc_o
print('demo: mutated exit', rc_m, 'original exit', rc_o)
# suite on the mutated worktree
junit = tempfile.mktemp(suffix='.xml', dir='/tmp')
t0 = time.time()
sh(['/venv/bin/python', '-m', 'pytest', '-q', '-p', 'no:cacheprovider', '--timeout=900', '--continue-on-collection-errors', '--junitxml=' + junit, 'tests'], cwd=wt, env=env, timeout=7200)
base = set(json.load(open('/root/.vp/BASELINE.json'))['stable_pass'])
ok = set()
for tc in ET.parse(junit).getroot().iter('testcase'):
    if not any(c.tag in ('failure', 'error', 'skipped') for c in tc):
        ok.add(tc.get('classname') + '::' + tc.get('name'))
os.remove(junit)
report['suite_passed'] = len(ok); report['baseline_missing'] = sorted(base - ok)
print('suite: passed', len(ok), 'baseline missing', len(base - ok), '(%.0fs)' % (time.time() - t0))
confirmed = rc_m != 0 and rc_o == 0 and not (base - ok)
report['confirmed'] = confirmed
dst = os.path.join('/verif/seeded', name)
if confirmed:
    os.makedirs(dst, exist_ok=True)
    for f in ('patch.diff', 'demo.py', 'meta.json'):
        if os.path.exists(os.path.join(seed, f)):
            shutil.copy(os.path.join(seed, f), os.path.join(dst, f))
    if CONFIRM_ONLY:
        meta = {}
        try:
            meta = json.load(open(os.path.join(dst, 'meta.json')))
        except Exception:
            pass
        meta['confirmation'] = report
        json.dump(meta, open(os.path.join(dst, 'meta.json'), 'w'), indent=1)
        print('CONFIRMED (check against /repo not run yet)')
        sys.exit(0)
    # run the registered check against /repo with the patch applied
    rc, st = sh(['git', '-C', '/repo', 'status', '--porcelain'])
    assert not [l for l in st.splitlines() if not l.startswith('??')], '/repo is not clean: ' + st
    rc, out = sh(['git', '-C', '/repo', 'apply', patch])
    assert rc == 0, out
    try:
        results = {}
        for sd in (0, 1):
            rc, out = sh(['./check', pid], cwd='/verif', env=dict(os.environ, VERIF_SEED=str(sd), VERIF_TIER='quick'), timeout=7200)
            viol = [l for l in out.splitlines() if l.startswith('VIOLATION')]
            results['seed%d' % sd] = {'exit': rc, 'violation_lines': viol[:3]}
            if viol:
                rp = viol[0].split('replay=')[1].split()[0]
                try:
                    d = json.load(open(os.path.join('/verif', rp)))
                    results['seed%d' % sd]['first_key'] = d.get('key') or ('no-failing-input-found: ' + str(d.get('no_longer_checks'))[:300])
                except Exception:
                    pass
        report['check'] = results
        report['caught'] = all(r['exit'] == 1 for r in results.values())
    finally:
        sh(['git', '-C', '/repo', 'checkout', '--', '.'])
        sh(['git', '-C', '/verif', 'checkout', '--', 'evidence'])      # evidence/ was rewritten from a mutated tree: restore the committed files
    print('check:', json.dumps(report.get('check'))[:800])
    meta = {}
    try:
        meta = json.load(open(os.path.join(dst, 'meta.json')))
    except Exception:
        pass
    meta['confirmation'] = report
    json.dump(meta, open(os.path.join(dst, 'meta.json'), 'w'), indent=1)
print('CONFIRMED' if confirmed else 'NOT CONFIRMED', 'CAUGHT' if report.get('caught') else 'MISSED' if confirmed else '')
