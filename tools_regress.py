#!/usr/bin/env python3
"""tools_regress.py [names...]: re-run the registered quick check against every kept seeded change (patch applied to /repo, then restored)
and report which are still caught.  Used after generators change (their random streams shift)."""
import json, os, subprocess, sys, glob, time
names = sys.argv[1:] or sorted(os.path.basename(os.path.dirname(p)) for p in glob.glob('/verif/seeded/*/patch.diff'))
seeds = [int(x) for x in os.environ.get('REGRESS_SEEDS', '0').split(',')]
out = {}
for nm in names:
    pid = nm[:3]
    patch = '/verif/seeded/%s/patch.diff' % nm
    st = subprocess.run(['git', '-C', '/repo', 'status', '--porcelain'], capture_output=True, text=True).stdout
    assert not [l for l in st.splitlines() if not l.startswith('??')], '/repo is not clean'
    if subprocess.run(['git', '-C', '/repo', 'apply', patch]).returncode != 0:
        out[nm] = 'patch does not apply'; print(nm, out[nm], flush=True); continue
    try:
        r = []
        for sd in seeds:
            t0 = time.time()
            p = subprocess.run(['./check', pid], cwd='/verif', env=dict(os.environ, VERIF_SEED=str(sd), VERIF_TIER='quick'), capture_output=True, text=True)
            v = [l for l in p.stdout.splitlines() if l.startswith('VIOLATION')]
            r.append((sd, p.returncode, ('nfi' if v and 'no-failing-input-found' in v[0] else 'input') if v else '-', round(time.time() - t0)))
    finally:
        subprocess.run(['git', '-C', '/repo', 'checkout', '--', '.'])
    out[nm] = r
    print(nm, r, 'CAUGHT' if all(x[1] == 1 for x in r) else 'MISSED', flush=True)
json.dump(out, open('/tmp/regress.json', 'w'), indent=1)
# the runs above rewrote evidence/ from MUTATED trees: put the committed evidence (unchanged tree) back
subprocess.run(['git', '-C', '/verif', 'checkout', '--', 'evidence'])
print('missed:', [k for k, v in out.items() if not (isinstance(v, list) and all(x[1] == 1 for x in v))])
