from sympy import symbols, Matrix, eye, reduced, expand
import sys
sys.path.insert(0, '/verif/certs')
from lincert import find_cert
# (1) Rodrigues additivity about one axis
x,y,z,s1,c1,s2,c2 = symbols('x y z s1 c1 s2 c2')
K = Matrix([[0,-z,y],[z,0,-x],[-y,x,0]])
rod = lambda s,c: eye(3)+s*K+(1-c)*K*K
E = (rod(s1,c1)*rod(s2,c2)-rod(s1*c2+c1*s2, c1*c2-s1*s2)).applyfunc(expand)
hu = x**2+y**2+z**2-1
for i in range(3):
    for j in range(3):
        q,r = reduced(E[i,j],[hu],x,y,z,s1,c1,s2,c2)
        assert r==0
        print('add%d%d: (%s) * hu'%(i+1,j+1,str(q[0]).replace('**','^')))
# (2) lookAt frame: z unit, x unit, x.z = 0, y = z x x
zx,zy,zz,xx,xy,xz = V = symbols('zx zy zz xx xy xz')
zv = Matrix([zx,zy,zz]); xv = Matrix([xx,xy,xz]); yv = zv.cross(xv)
R = Matrix.hstack(xv,yv,zv)
gens = [zx**2+zy**2+zz**2-1, xx**2+xy**2+xz**2-1, xx*zx+xy*zy+xz*zz]
names = ['hz','hx','hxz']
E = (R.T*R-eye(3)).applyfunc(expand)
for i in range(3):
    for j in range(3):
        print('look%d%d:'%(i+1,j+1), find_cert(E[i,j],gens,names,V,2))
print('lookdet:', find_cert(expand(R.det()-1),gens,names,V,2))
