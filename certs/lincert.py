"""Find a linear_combination certificate  expr = sum_k q_k * g_k  with deg(q_k) <= maxdeg by linear algebra."""
from sympy import symbols, Poly, Matrix, expand, itermonomials, Rational, linsolve, Symbol, zeros
from sympy.polys.orderings import grevlex
import itertools

def find_cert(expr, gens, names, V, maxdeg=1):
    mons = sorted(itermonomials(list(V), maxdeg), key=lambda m: Poly(m, *V).total_degree())
    unknowns = []
    total = 0
    terms = []
    for gi, g in enumerate(gens):
        for mi, m in enumerate(mons):
            u = Symbol('u_%d_%d' % (gi, mi))
            unknowns.append(u)
            terms.append((u, gi, m))
            total += u * m * g
    diff = Poly(expand(total - expr), *V)
    eqs = [c for c in diff.coeffs()]
    sol = linsolve(eqs, unknowns)
    if not sol:
        return None
    s = list(sol)[0]
    # set free parameters to 0
    sub = {u: 0 for u in unknowns}
    vals = [x.subs(sub) for x in s]
    q = {}
    for (u, gi, m), v in zip(terms, vals):
        if v != 0:
            q[gi] = q.get(gi, 0) + v * m
    return ' + '.join('(%s) * %s' % (str(expand(q[gi])).replace('**', '^'), names[gi]) for gi in sorted(q)) or '0'
