from sympy import symbols, Matrix, expand
import sys
sys.path.insert(0,'/verif/certs')
from lincert import find_cert
a,b,c,d,e,f,g,h,i,ox,oy,oz,px,py,pz = V = symbols('a b c d e f g h i ox oy oz px py pz')
gens = {'h3': a*c+d*f+g*i, 'h6': b*c+e*f+h*i, 'h9': c*c+f*f+i*i-1, 'h1': a*a+d*d+g*g-1, 'h2': a*b+d*e+g*h, 'h5': b*b+e*e+h*h-1}
names = list(gens); G = [gens[n] for n in names]
n = Matrix([-c,-f,-i]); p = Matrix([px,py,pz]); o = Matrix([ox,oy,oz]); p3 = o + Matrix([b,e,h])
dpl = (n.T*p3)[0,0]
k = (-(n.T*p)[0,0] + dpl)
foot = n*k + p
m = 2*foot - p
R = Matrix([[a,b,c],[d,e,f],[g,h,i]])
lm = R.T*(m-o); lp = R.T*(p-o)
print('x:', find_cert(expand(lm[0]-lp[0]), G, names, V, 2))
print('y:', find_cert(expand(lm[1]-lp[1]), G, names, V, 2))
print('z:', find_cert(expand(lm[2]+lp[2]), G, names, V, 2))
