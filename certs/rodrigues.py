"""Find linear_combination certificates for Rodrigues' formula (untrusted oracle: Lean checks them)."""
from sympy import symbols, Matrix, eye, reduced, expand, simplify
x, y, z, s, c = symbols('x y z s c')
K = Matrix([[0, -z, y], [z, 0, -x], [-y, x, 0]])
R = eye(3) + s * K + (1 - c) * K * K
g1 = x**2 + y**2 + z**2 - 1
g2 = s**2 + c**2 - 1
E = (R.T * R - eye(3)).applyfunc(expand)
for i in range(3):
    for j in range(3):
        q, r = reduced(E[i, j], [g1, g2], x, y, z, s, c)
        assert r == 0, (i, j, r)
        print('orth', i + 1, j + 1, ':', '(%s) * hu + (%s) * hsc' % (q[0], q[1]))
d = expand(R.det() - 1)
q, r = reduced(d, [g1, g2], x, y, z, s, c)
assert r == 0
print('det :', '(%s) * hu + (%s) * hsc' % (q[0], q[1]))
