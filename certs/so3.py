"""linear_combination certificates for identities on SO(3) (untrusted oracle; Lean re-checks)."""
from sympy import symbols, Matrix, eye, reduced, expand, groebner
import sys
a,b,c,d,e,f,g,h,i = V = symbols('a b c d e f g h i')
R = Matrix([[a,b,c],[d,e,f],[g,h,i]])
t = a+e+i
gens = {}
RtR = (R.T*R - eye(3)); RRt = (R*R.T - eye(3))
names_rtr = {(0,0):'h1',(0,1):'h2',(0,2):'h3',(1,0):'h4',(1,1):'h5',(1,2):'h6',(2,0):'h7',(2,1):'h8',(2,2):'h9'}
for (r,cc),n in names_rtr.items():
    if r<=cc: gens[n]=expand(RtR[r,cc])
names_rrt = {(0,0):'k1',(0,1):'k2',(0,2):'k3',(1,1):'k5',(1,2):'k6',(2,2):'k9'}
for (r,cc),n in names_rrt.items(): gens[n]=expand(RRt[r,cc])
cof = R.adjugate().T   # cofactor matrix
cn = [['ca','cb','cc'],['cd','ce','cf'],['cg','ch','ci']]
for r in range(3):
    for cc in range(3):
        gens[cn[r][cc]] = expand(R[r,cc]-cof[r,cc])
gens['hd'] = expand(R.det()-1)
names=list(gens); G=[gens[n] for n in names]
def cert(expr,label):
    q,r = reduced(expand(expr), G, *V, order='grevlex')
    if r!=0:
        print(label,'REMAINDER',r); return None
    terms=['(%s) * %s'%(str(qq).replace('**','^'),n) for qq,n in zip(q,names) if qq!=0]
    print(label,':',' + '.join(terms))
# identity 1: (R-R^T)^2 = (1+t)(R+R^T-2I)
E1 = (R-R.T)*(R-R.T) - (1+t)*(R+R.T-2*eye(3))
for r in range(3):
    for cc in range(3):
        cert(E1[r,cc],'sq%d%d'%(r+1,cc+1))
# identity 2: |vee(R-R^T)|^2 = (3-t)(1+t)
v = Matrix([h-f, c-g, d-b])
cert((v.T*v)[0,0]-(3-t)*(1+t),'vee')
# half-turn: symmetric R, t = -1 :  (1+piv)(R+I)_{jk} = v_j v_k  with v = pivot column of R+I
print('--- half turn')
sym = {'s1': b-d, 's2': c-g, 's3': f-h, 'ht': a+e+i+1}
names2 = names + list(sym); G2 = G + [sym[n] for n in sym]
def cert2(expr,label):
    q,r = reduced(expand(expr), G2, *V, order='grevlex')
    if r!=0:
        print(label,'REMAINDER',r); return
    terms=['(%s) * %s'%(str(qq).replace('**','^'),n) for qq,n in zip(q,names2) if qq!=0]
    print(label,':',' + '.join(terms))
P = R+eye(3)
for piv,col in ((2,'z'),(1,'y'),(0,'x')):
    v = P[:,piv]
    for r in range(3):
        for cc in range(3):
            cert2((1+R[piv,piv])*P[r,cc]-v[r]*v[cc],'half_%s_%d%d'%(col,r+1,cc+1))
print('--- half turn (linear-algebra certificates)')
from lincert import find_cert
for piv,col in ((2,'z'),(1,'y'),(0,'x')):
    v = P[:,piv]
    for r in range(3):
        for cc in range(3):
            print('halfL_%s_%d%d :'%(col,r+1,cc+1), find_cert((1+R[piv,piv])*P[r,cc]-v[r]*v[cc], G2, names2, V, 1))
