from sympy import symbols, Matrix, eye, reduced, expand
x,y,z,w = symbols('x y z w')
R = Matrix([[x*x-y*y-z*z+w*w, 2*(x*y-z*w), 2*(x*z+y*w)],[2*(x*y+z*w), -x*x+y*y-z*z+w*w, 2*(y*z-x*w)],[2*(x*z-y*w), 2*(y*z+x*w), -x*x-y*y+z*z+w*w]])
g = x*x+y*y+z*z+w*w-1
E=(R.T*R-eye(3)).applyfunc(expand)
for i in range(3):
    for j in range(3):
        q,r=reduced(E[i,j],[g],x,y,z,w); assert r==0
        print('orth%d%d:'%(i+1,j+1), ('(%s) * hq'%str(q[0]).replace('**','^')) if E[i,j]!=0 else 'ring')
q,r=reduced(expand(R.det()-1),[g],x,y,z,w); assert r==0
print('det: (%s) * hq'%str(q[0]).replace('**','^'))
