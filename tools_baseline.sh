#!/bin/sh
# run /repo's pinned suite and report baseline tests that no longer pass (prints "BASELINE OK" when none)
OUT=$(mktemp /tmp/junit.XXXXXX.xml)
cd /repo && /venv/bin/python -m pytest -q -p no:cacheprovider --timeout=900 --continue-on-collection-errors --junitxml=$OUT "$@" >/dev/null 2>&1
python3 - "$OUT" <<'PY'
import json,sys,xml.etree.ElementTree as ET
base=set(json.load(open('/root/.vp/BASELINE.json'))['stable_pass'])
ok=set()
for tc in ET.parse(sys.argv[1]).getroot().iter('testcase'):
    if not any(c.tag in('failure','error','skipped') for c in tc):
        ok.add(tc.get('classname')+'::'+tc.get('name'))
miss=sorted(base-ok)
print('passed total',len(ok),'baseline missing',len(miss)); [print('  MISSING',m) for m in miss]
print('BASELINE OK' if not miss else 'BASELINE BROKEN')
PY
rm -f $OUT
