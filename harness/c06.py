"""C06 — arm Jacobians are the derivative of forward kinematics; statics is the transpose."""
import os, sys, random, math, io, contextlib
import numpy as np
import common as C
import gen as G
import armh

PROP = 'C06'
LEAN_MODULES = ['BR.Props.C06Link', 'BR.Props.C06', 'BR.Props.C06Deriv', 'BR.Props.C06Body']
THEOREMS = ['BR.C06.jacobianSpace_col', 'BR.C06.jacobianSpaceAux_col', 'BR.C06.statics_power', 'BR.C06.statics_linear', 'BR.Rot.exp6_conj', 'BR.Rot.fkinSpace_conj',
            'BR.C06D.hasDeriv_jointExp', 'BR.C06D.exp6_revolute', 'BR.C06D.fk_hasDeriv', 'BR.C06D.jacobianSpace_is_derivative',
            'BR.C06L.linkMassTorques_get', 'BR.C06L.linkMassTorques_split', 'BR.C06L.column_dot_weight', 'BR.C06L.column_dot_weight_on_axis',
            'BR.C06B.jointExp_neg_mul', 'BR.C06B.adjoint_jointExp_self', 'BR.C06B.jacobianBody_cols', 'BR.C06B.jacobianBody_eq']
TIE = ('K: jacobianSpace / jacobianBody of lean/BR/Model/MR.lean (Float instance, compiled driver) against Arm.jacobian / Arm.jacobianBody on the arm\'s stored screws, plus the statics maps; '
       'the derivative relation itself is evaluated on the real Arm by Richardson-extrapolated central differences of Arm.FK.')
TRUSTED = ['Lean 4.33 kernel + Mathlib v4.33 (axioms: propext, Classical.choice, Quot.sound)', 'harness/armh.py, harness/c06.py (Richardson differences with steps >= 1e-4, frame references from the constructor arguments)',
           'the derivative clause is a theorem for joints that are revolute with a unit axis or prismatic (entrywise HasDerivAt, any chain length) and is also measured on the implementation by finite differences; inside the 1e-6 cut-off band of a joint only the measurement applies']
ASSUMPTIONS = ['joint vectors within limits; steps >= 1e-4 so the 1e-6 cut-off of the exponential is never entered', 'comparison to 1e-6 relative to the Jacobian norm']
RULE = ('arms (6R test arm with link frames and masses, random 1..7-joint chains, bundled URDF arms; after move, tool change and tool restore) x joint vectors x rates x wrenches; '
        'distinct = distinct (arm, configuration); non-trivial = configuration not the zero vector')
SAMPLED = ['J_space = d(FK)/d(theta) inside the 1e-6 cut-off band of a joint, and the link / tool-aligned variants (Richardson central differences on the implementation); body = Ad(inv T) space is a theorem for exact joints, sampled inside the band', 'numericalJacobian = analytic (finite differences)']


def vee6(M):
    return np.array([M[2, 1], M[0, 2], M[1, 0], M[0, 3], M[1, 3], M[2, 3]])


def richardson(f, th, i, h=2e-3):
    def cd(h_):
        e = np.zeros(len(th)); e[i] = h_
        return (f(th + e) - f(th - e)) / (2 * h_)
    return (4 * cd(h / 2) - cd(h)) / 3


def make_arm(rnd):
    tm = armh.libs()[0]
    kind = rnd.choice(['six_r', 'six_r', 'chain', 'chain', 'urdf'])
    base6 = [0.0] * 6 if rnd.random() < 0.4 else list(np.concatenate([G.translation(rnd, 1.5), G.rotvec(rnd, 'generic')[0]]))
    info = {'kind': kind, 'base6': base6, 'seed': rnd.randrange(1 << 30)}
    r2 = random.Random(info['seed'])
    with contextlib.redirect_stdout(io.StringIO()):
        if kind == 'urdf':
            from basic_robotics.kinematics import loadArmFromURDF
            info['file'] = rnd.choice(armh.URDFS)
            arm = loadArmFromURDF(armh.urdf_path(info['file']))
            spec = None
            if base6 != [0.0] * 6:
                arm.move(tm(list(base6)))
        else:
            arm, spec = armh.build(r2, kind, base6)
            n = spec.n
            # link frames (global, at home) and masses so that the link / link-mass variants are defined
            baseT = armh.T6(spec.base6)
            homes = []
            for i in range(n):
                p = spec.joint_homes[:, i] + np.array([0.05, 0.0, 0.1])
                homes.append(tm(baseT @ armh.T6(np.concatenate([p, [0, 0, 0]]))))
            arm.setOrigins(link_homes_global=homes)
            masses = np.array([r2.uniform(0.5, 20) for _ in range(n + 1)])
            cgs = [tm([r2.uniform(-0.2, 0.2), r2.uniform(-0.2, 0.2), r2.uniform(-0.2, 0.2), 0, 0, 0]) for _ in range(n + 1)]
            arm.setMassProperties(masses, cgs)
            info['link_homes_local'] = [np.linalg.inv(baseT) @ h.gTM() for h in homes]
    return arm, spec, info


def run(res, tier, seed, driver_ok):
    rnd = random.Random(seed * 7919 + 6)
    thorough = tier == 'thorough'
    tm = armh.libs()[0]
    from basic_robotics.general import Wrench
    N = 1500 if thorough else 60
    lines, expect = [], []
    stats = {'arms': 0, 'after_move': 0, 'after_toolchange': 0, 'fullrank_inverse_checked': 0}

    def bad(key, what, inp, obs):
        if len(res.violations) < 40:
            res.violations.append({'key': key, 'what': what, 'input': inp, 'observed': obs})

    for n_ in range(N):
        try:
            arm, spec, info = make_arm(rnd)
        except Exception as e:
            bad('raises:constructor:%s' % type(e).__name__, 'building / loading the arm raised', {}, repr(e)); continue
        stats['arms'] += 1
        nj = arm.num_dof
        hist = []
        with contextlib.redirect_stdout(io.StringIO()):
            if rnd.random() < 0.4:
                b2 = list(np.concatenate([G.translation(rnd, 1.5), G.rotvec(rnd, 'generic')[0]]))
                arm.move(tm(b2)); hist.append(['move', b2]); stats['after_move'] += 1
            if rnd.random() < 0.4:
                D = list(np.concatenate([G.translation(rnd, 0.3), G.rotvec(rnd, 'one')[0]]))
                arm.setArbitraryHome(arm.getEEPos() @ tm(D)); hist.append(['setHome', D]); stats['after_toolchange'] += 1
                if rnd.random() < 0.5:
                    arm.restoreOriginalEE(); hist.append(['restoreOriginalEE']); stats['after_restore'] = stats.get('after_restore', 0) + 1
                    if rnd.random() < 0.3:
                        b3 = list(np.concatenate([G.translation(rnd, 1.5), G.rotvec(rnd, 'generic')[0]]))
                        arm.move(tm(b3)); hist.append(['move', b3])
        mins = np.maximum(np.asarray(arm.joint_mins, dtype=float), -math.pi); maxs = np.minimum(np.asarray(arm.joint_maxs, dtype=float), math.pi)
        th = np.array([rnd.uniform(mins[i] * 0.9, maxs[i] * 0.9) for i in range(nj)])
        if rnd.random() < 0.25:       # some joints almost, but not exactly, at zero (well outside the 1e-6 cut-off of the exponential)
            for j_ in rnd.sample(range(nj), min(nj, rnd.randint(1, 2))):
                if mins[j_] < 0 < maxs[j_]:
                    th[j_] = rnd.choice([-1, 1]) * rnd.choice([8e-5, 3e-5, 1e-5, 4e-6])
        inp = dict(info, history=hist, theta=th.tolist())
        inp.pop('link_homes_local', None)
        res.evaluations += 1
        res.distinct.add((info['seed'], n_))
        fkM = lambda x: arm.FK(np.array(x, dtype=float)).gTM()
        try:
            with contextlib.redirect_stdout(io.StringIO()):
                T = fkM(th)
                Js = np.asarray(arm.jacobian(th.copy()), dtype=float)
                Jb = np.asarray(arm.jacobianBody(th.copy()), dtype=float)
        except Exception as e:
            bad('raises:jacobian:%s' % type(e).__name__, 'jacobian raised', inp, repr(e)); continue
        scale = max(1.0, float(np.linalg.norm(Js)))
        # 1. space Jacobian = derivative of FK
        for i in range(nj):
            with contextlib.redirect_stdout(io.StringIO()):
                dT = richardson(fkM, th, i)
            tw = vee6(dT @ np.linalg.inv(T))
            if G.gt(np.max(np.abs(tw - Js[:, i])), 1e-6 * scale):
                bad('js-not-derivative', 'space Jacobian column differs from the spatial twist of d(FK)/d(theta_i)', dict(inp, joint=i), {'diff': G.maxdiff(tw, Js[:, i])}); break
        # 2. body Jacobian = Ad(inv T) Js
        want = armh.Ad(np.linalg.inv(T)) @ Js
        if G.gt(np.max(np.abs(Jb - want)), 1e-6 * max(1.0, float(np.linalg.norm(want)))):
            bad('jb-not-adjoint:%s' % ('+'.join(h[0] for h in hist) or 'fresh'), 'body Jacobian differs from Ad(inv(T)) * J_space', inp, {'diff': G.maxdiff(Jb, want)})
        # 3. frame-aligned, link and numerical variants
        with contextlib.redirect_stdout(io.StringIO()):
            try:
                Je = np.asarray(arm.jacobianEETrans(th.copy()), dtype=float)
                Tp = np.eye(4); Tp[:3, 3] = T[:3, 3]
                wantE = armh.Ad(np.linalg.inv(Tp)) @ Js
                if G.gt(np.max(np.abs(Je - wantE)), 1e-6 * scale):
                    bad('jacobianEETrans', 'tool-aligned Jacobian differs from Ad(inv(translation of T)) * J_space', inp, {'diff': G.maxdiff(Je, wantE)})
            except Exception as e:
                bad('raises:jacobianEETrans:%s' % type(e).__name__, 'jacobianEETrans raised', inp, repr(e))
            try:
                Jn = np.asarray(arm.numericalJacobian(th.copy()), dtype=float)
                if G.gt(np.max(np.abs(Jn - Js)), 2e-6 * scale):
                    bad('numericalJacobian', 'numerical Jacobian differs from the analytic space Jacobian', inp, {'diff': G.maxdiff(Jn, Js)})
            except Exception as e:
                bad('raises:numericalJacobian:%s' % type(e).__name__, 'numericalJacobian raised', inp, repr(e))
            if arm._link_homes_global is not None and len(arm._link_homes_global) == nj:
                for i in range(nj):
                    try:
                        Jl = np.asarray(arm.jacobianLink(i, th.copy()), dtype=float)
                        Tl = arm.FKLink(th.copy(), i).gTM()
                    except Exception as e:
                        bad('raises:jacobianLink:%s' % type(e).__name__, 'jacobianLink raised', dict(inp, link=i), repr(e)); break
                    Jpad = np.hstack((Js[:, :i + 1], np.zeros((6, nj - i - 1))))
                    wantL = armh.Ad(np.linalg.inv(Tl)) @ Jpad
                    if G.gt(np.max(np.abs(Jl - wantL)), 1e-6 * scale):
                        bad('jacobianLink', 'link Jacobian differs from Ad(inv(T_link)) * (first columns of J_space)', dict(inp, link=i), {'diff': G.maxdiff(Jl, wantL)}); break
                    if spec is not None and not hist:
                        Tl_ref = armh.T6(spec.base6).copy()
                        for k in range(i + 1):
                            Tl_ref = Tl_ref @ armh.expm6(spec.S[:, k], th[k])
                        Tl_ref = Tl_ref @ info_link(info, i)
                        if G.gt(np.max(np.abs(Tl - Tl_ref)), 1e-7 * max(1.0, np.max(np.abs(Tl_ref)))):
                            bad('FKLink', 'link pose differs from base*prod(exp, joints 0..i)*link home', dict(inp, link=i), {'diff': G.maxdiff(Tl, Tl_ref)}); break
        # 4. velocities and statics
        qd = np.array([rnd.uniform(-2, 2) for _ in range(nj)])
        F = np.array([rnd.uniform(-20, 20) for _ in range(6)])
        with contextlib.redirect_stdout(io.StringIO()):
            v = np.asarray(arm.velocityAtEndEffector(qd.copy(), th.copy()), dtype=float).reshape(-1)
            W = Wrench(F.copy().reshape((6, 1)))
            tau = np.asarray(arm.staticForces(W, th.copy()), dtype=float).reshape(-1)
        if G.gt(np.max(np.abs(v - Js @ qd)), 1e-9 * scale * 10):
            bad('velocityAtEndEffector', 'tool twist differs from J * rates', inp, G.maxdiff(v, Js @ qd))
        if abs(tau @ qd - F @ (Js @ qd)) > 1e-8 * max(1.0, abs(F @ (Js @ qd))):
            bad('power', 'torque . rate differs from wrench . twist', inp, [float(tau @ qd), float(F @ (Js @ qd))])
        if nj >= 6 and np.linalg.matrix_rank(Js) == 6 and np.linalg.cond(Js) < 1e4:
            stats['fullrank_inverse_checked'] += 1
            with contextlib.redirect_stdout(io.StringIO()):
                Fb = arm.staticForcesInv(tau.copy(), th.copy())
            Fb = np.asarray(Fb.getData() if hasattr(Fb, 'getData') else Fb, dtype=float).reshape(-1)
            if G.gt(np.max(np.abs(Fb - F)), 1e-6 * max(1.0, np.linalg.norm(F))):
                bad('staticForcesInv', 'mapping torques back does not return the wrench at a full-rank configuration', inp, {'diff': G.maxdiff(Fb, F)})
        # 4a. argument forms: the same queries with the joint vector given BY KEYWORD while the arm's stored state is somewhere else
        if n_ % 3 == 0:
            try:
                with contextlib.redirect_stdout(io.StringIO()):
                    arm.FK(np.array([rnd.uniform(mins[i] * 0.5, maxs[i] * 0.5) for i in range(nj)]))
                    vk = np.asarray(arm.velocityAtEndEffector(qd.copy(), theta=th.copy()), dtype=float).reshape(-1)
                    tk = np.asarray(arm.staticForces(Wrench(F.copy().reshape((6, 1))), theta=th.copy()), dtype=float).reshape(-1)
                    Jk = np.asarray(arm.jacobian(theta=th.copy()), dtype=float)
                    Jbk = np.asarray(arm.jacobianBody(theta=th.copy()), dtype=float)
                    arm.FK(th.copy())
                stats['keyword_forms'] = stats.get('keyword_forms', 0) + 1
                for nm_, got_, want_ in (('velocityAtEndEffector', vk, v), ('staticForces', tk, tau), ('jacobian', Jk, Js), ('jacobianBody', Jbk, Jb)):
                    if got_.shape != np.asarray(want_).shape or G.gt(np.max(np.abs(got_ - want_)), 1e-9 * scale * 10):
                        bad('keyword-form:%s' % nm_, '%s(..., theta=q) from another stored state differs from the same query with q given positionally' % nm_, inp,
                            {'diff': G.maxdiff(got_, np.asarray(want_)) if got_.shape == np.asarray(want_).shape else 'shape'})
            except Exception as e:
                bad('raises:keyword-form:%s' % type(e).__name__, 'a query with the joint vector given by keyword raised', inp, repr(e))
        # 4b. the same clause next to (not at) a singularity: one joint is walked towards the configuration where the Jacobian loses rank
        # until the condition number lies in (1e3, 1e4) — full rank, but a truncated pseudo-inverse would drop the weakest direction
        if nj >= 6 and n_ % 2 == 0:
            for j_ in rnd.sample(range(nj), nj):
                found = None
                for target in (0.0, math.pi / 2, -math.pi / 2):
                    for eps_ in (3e-2, 1e-2, 3e-3, 1e-3, 5e-4, 2e-4):
                        th2 = th.copy(); th2[j_] = target + eps_
                        if not (mins[j_] <= th2[j_] <= maxs[j_]):
                            continue
                        J2 = np.asarray(arm.jacobian(th2.copy()), dtype=float)
                        c2 = np.linalg.cond(J2)
                        if 1.5e3 < c2 < 8e3 and np.linalg.matrix_rank(J2) == 6:
                            found = (th2, J2, c2); break
                    if found:
                        break
                if found:
                    th2, J2, c2 = found
                    stats['near_singular_inverse_checked'] = stats.get('near_singular_inverse_checked', 0) + 1
                    with contextlib.redirect_stdout(io.StringIO()):
                        tau2 = np.asarray(arm.staticForces(Wrench(F.copy().reshape((6, 1))), th2.copy()), dtype=float).reshape(-1)
                        Fb2 = arm.staticForcesInv(tau2.copy(), th2.copy())
                    Fb2 = np.asarray(Fb2.getData() if hasattr(Fb2, 'getData') else Fb2, dtype=float).reshape(-1)
                    if G.gt(np.max(np.abs(Fb2 - F)), 1e-6 * max(1.0, np.linalg.norm(F))):
                        bad('staticForcesInv', 'mapping torques back does not return the wrench at a full-rank configuration', dict(inp, theta=th2.tolist(), cond=float(c2)), {'diff': G.maxdiff(Fb2, F)})
                    with contextlib.redirect_stdout(io.StringIO()):
                        arm.FK(th.copy())
                    break
        # 5. link-mass variant
        if arm._link_masses is not None and len(arm._link_masses) == nj + 1:
            try:
                with contextlib.redirect_stdout(io.StringIO()):
                    W2 = Wrench(F.copy().reshape((6, 1)))
                    # explicit joint vector while the arm is parked somewhere else; then the defaulted form at the configuration itself
                    arm.FK(np.array([rnd.uniform(mins[i] * 0.5, maxs[i] * 0.5) for i in range(nj)]))
                    tm_ = np.asarray(arm.staticForcesWithLinkMasses(W2, th.copy()), dtype=float).reshape(-1)
                    arm.FK(th.copy())
                    tm_default = np.asarray(arm.staticForcesWithLinkMasses(Wrench(F.copy().reshape((6, 1)))), dtype=float).reshape(-1)
                    jt = arm.getJointTransforms()
                if G.gt(np.max(np.abs(tm_ - tm_default)), 1e-9 * max(1.0, float(np.max(np.abs(tm_default))))):
                    bad('linkmass:forms', 'staticForcesWithLinkMasses(W, q) from another stored state differs from the defaulted form at q', inp, {'explicit': tm_.tolist(), 'defaulted': tm_default.tolist()})
                want = Js.T @ F
                g = np.asarray(arm.grav, dtype=float)
                for k in range(1, nj + 1):            # link k hangs on joints 0..k-1
                    c = (jt[k].gTM() @ arm._link_mass_grav_centers[k].gTM())[:3, 3]
                    w = arm._link_masses[k] * g
                    Wk = np.concatenate([np.cross(c, w), w])
                    for i in range(k):
                        want[i] += Js[:, i] @ Wk
                # correspondence of the bookkeeping loop: the real Jacobian and the real weight wrenches (fsr.makeWrench) through the model
                fsr = armh.libs()[1]
                ws = [np.asarray(fsr.makeWrench(jt[k] @ arm._link_mass_grav_centers[k], arm._link_masses[k], arm.grav).getData(), dtype=float).reshape(-1) for k in range(1, nj + 1)]
                Hh = lambda xs: ' '.join(C.f2h(x) for x in np.asarray(xs, dtype=float).reshape(-1))
                lines.append('dyn.linkmass %s %s %s %s' % (C.f2h(nj), Hh(F), Hh(Js.T), Hh(np.array(ws)))); expect.append(tm_.copy())
                if G.gt(np.max(np.abs(tm_ - want)), 1e-6 * max(1.0, np.linalg.norm(want))):
                    bad('linkmass', 'link-mass statics differ from J^T F plus the moment of each distal link weight about each joint axis', inp, {'got': tm_.tolist(), 'want': want.tolist()})
            except Exception as e:
                bad('raises:staticForcesWithLinkMasses:%s' % type(e).__name__, 'staticForcesWithLinkMasses raised', inp, repr(e))
        # correspondence: stored screws through the model
        S_glob = np.asarray(arm.screw_list, dtype=float); S_body = np.asarray(arm.screw_list_body, dtype=float)
        H = lambda xs: ' '.join(C.f2h(x) for x in np.asarray(xs, dtype=float).reshape(-1))
        lines.append('mr.jacobianspace %s %s %s' % (C.f2h(nj), H(S_glob.T), H(th))); expect.append(Js.T.reshape(-1))
        lines.append('mr.jacobianbody %s %s %s' % (C.f2h(nj), H(S_body.T), H(th))); expect.append(Jb.T.reshape(-1))
        if n_ < 2:
            res.sample({'arm': info['kind'], 'history': [h[0] for h in hist], 'theta': th.tolist()})
    ncmp = 0
    if driver_ok and lines:
        try:
            model = C.Driver().batch(lines)
            for rep, val, line in zip(model, expect, lines):
                if rep == 'bad-op':
                    res.mismatches.append({'request': line[:30], 'model': 'bad-op'}); continue
                mv = np.array([C.h2f(t) for t in rep.split()])
                ncmp += 1
                if not G.close(mv, val, 1e-9, 1e-9) and len(res.mismatches) < 10:
                    res.mismatches.append({'request': line.split()[0], 'maxdiff': G.maxdiff(mv, val) if mv.shape == val.shape else 'shape'})
        except Exception as e:
            res.mismatches.append({'driver': str(e)[:300]})
    stats['model_lines_compared'] = ncmp
    res.stats.update(stats)


def info_link(info, i):
    return info['link_homes_local'][i]


def replay(data):
    print('recorded:', data.get('key'), data.get('what'), str(data.get('observed'))[:300])
    return False
