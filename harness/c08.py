"""C08 — rigid-body dynamics are physically consistent."""
import os, sys, random, math, io, contextlib
import numpy as np
import common as C
import gen as G
import mrargs, armh

PROP = 'C08'
LEAN_MODULES = ['BR.Props.C08', 'BR.Props.C08Mass', 'BR.Props.C08FD']
THEOREMS = ['BR.C08.id_superposition', 'BR.C08.torque_decomposition', 'BR.C08.massForm_nonneg', 'BR.C08.addL_assoc', 'BR.C08.addL_comm',
            'BR.C08M.zero_velocity_power', 'BR.C08M.energyForm_symm', 'BR.C08M.mass_symmetric', 'BR.C08M.mass_nonneg',
            'BR.C08F.inverse_of_forward', 'BR.C08F.solve_hypothesis_met', 'BR.C08F.massResponse_add', 'BR.C08F.massResponse_smul']
TIE = ('The Newton-Euler recursion is modelled in lean/BR/Model/Dyn.lean over lists of links (any number); its Float instance is compared with fmr.InverseDynamics / MassMatrix / the derived terms on the same chains; '
       'the physical identities are evaluated directly on the MR functions and on the Arm-level re-implementations (finite differences where a derivative is involved).')
TRUSTED = ['Lean 4.33 kernel + Mathlib v4.33 (axioms: propext, Classical.choice, Quot.sound)', 'harness/mrargs.py (chains, SPD inertias), harness/c08.py (independent link Jacobians, finite differences)',
           'np.linalg.inv / pinv inside ForwardDynamics are oracles (contract: inverse of an invertible matrix)', 'passivity, gravity-gradient and energy clauses are decided on the implementation only (no theorem about d/dt of the recursion)']
ASSUMPTIONS = ['chains of 1..7 revolute joints, SPD spatial inertias, masses in [0.1, 50]', 'identities to 1e-8 relative (1e-6 where a finite difference is involved)']
RULE = ('random chains x states (q in [-pi,pi]^n, qd, qdd, tau, gravity, tip wrench up to 100) and arms given explicit spatial inertias through the public setters (6R test arm, random 6-joint arms); '
        'distinct = distinct (chain, state); non-trivial = non-zero velocity')
SAMPLED = ['qd.c = 1/2 qd^T Mdot qd (finite differences of M)', 'g = grad V (finite differences of the potential)', 'energy conservation of a torque-free chain (short integration)']


def link_frames(d, th):
    """pose of every link frame {i} at configuration th (independent of the library)"""
    n = d['n']
    Ts = []
    T = np.eye(4)
    Mi = np.eye(4)
    for i in range(n):
        Mi = Mi @ d['Mlist'][i]
        Ai = armh.Ad(np.linalg.inv(Mi)) @ d['S'][:, i]
        T = T @ d['Mlist'][i] @ armh.expm6(Ai, th[i])
        Ts.append((T.copy(), Ai))
    return Ts


def link_jacobians(d, th):
    Ts = link_frames(d, th)
    n = d['n']
    Js = []
    for i in range(n):
        J = np.zeros((6, n))
        for j in range(i + 1):
            J[:, j] = armh.Ad(np.linalg.inv(Ts[i][0]) @ Ts[j][0]) @ Ts[j][1]
        Js.append(J)
    return Js, Ts


def run(res, tier, seed, driver_ok):
    rnd = random.Random(seed * 7919 + 8)
    thorough = tier == 'thorough'
    import basic_robotics.modern_robotics_numba as mrn
    mr = mrn.mr
    N = 1500 if thorough else 60

    def bad(key, what, inp, obs):
        if len(res.violations) < 40:
            res.violations.append({'key': key, 'what': what, 'input': inp, 'observed': obs})

    lines, expect = [], []
    for n_ in range(N):
        d = mrargs.dyn(rnd)
        n = d['n']
        th, dth, ddth, g, F = d['th'], d['dth'], d['ddth'], d['g'], d['F']
        args = (d['Mlist'], d['Glist'], d['S'])
        inp = {'n': n, 'seed_case': n_}
        res.evaluations += 1
        res.distinct.add(n_)
        try:
            M = mr.MassMatrix(th, *args)
            tau = mr.InverseDynamics(th, dth, ddth, g, F, *args)
            c = mr.VelQuadraticForces(th, dth, *args)
            gr = mr.GravityForces(th, g, *args)
            ft = mr.EndEffectorForces(th, F, *args)
            qdd = mr.ForwardDynamics(th, dth, tau, g, F, *args)
        except Exception as e:
            bad('raises:%s' % type(e).__name__, 'dynamics function raised on a valid chain', inp, repr(e)); continue
        sc = max(1.0, float(np.max(np.abs(M))))
        if G.gt(np.max(np.abs(M - M.T)), 1e-8 * sc):
            bad('mass-not-symmetric', 'mass matrix is not symmetric', inp, G.maxdiff(M, M.T))
        ev = np.linalg.eigvalsh((M + M.T) / 2)
        if ev[0] <= 0:
            bad('mass-not-pd', 'mass matrix is not positive definite', inp, float(ev[0]))
        Js, Ts = link_jacobians(d, th)
        Msum = sum(Js[i].T @ d['Glist'][i] @ Js[i] for i in range(n))
        if G.gt(np.max(np.abs(M - Msum)), 1e-8 * sc):
            bad('mass-closed-form', 'mass matrix differs from sum_i J_i^T G_i J_i', inp, G.maxdiff(M, Msum))
        tsc = max(1.0, float(np.max(np.abs(tau))))
        if G.gt(np.max(np.abs(tau - (M @ ddth + c + gr + ft))), 1e-8 * tsc):
            bad('decomposition', 'torque differs from M*qdd + c + g + J^T F', inp, G.maxdiff(tau, M @ ddth + c + gr + ft))
        if G.gt(np.max(np.abs(qdd - ddth)), 1e-7 * max(1.0, float(np.max(np.abs(ddth)))) * max(1.0, ev[-1] / max(ev[0], 1e-12)) ** 0.5):
            bad('fd-inverts-id', 'forward dynamics does not invert inverse dynamics', inp, G.maxdiff(qdd, ddth))
        # tip force is J_n^T F in the tool frame
        Tn1 = Ts[-1][0] @ d['Mlist'][n]
        Jtip = np.zeros((6, n))
        for j in range(n):
            Jtip[:, j] = armh.Ad(np.linalg.inv(Tn1) @ Ts[j][0]) @ Ts[j][1]
        if G.gt(np.max(np.abs(ft - Jtip.T @ F)), 1e-8 * max(1.0, float(np.max(np.abs(ft))))):
            bad('tip-force', 'tip-force term differs from J^T F_tip', inp, G.maxdiff(ft, Jtip.T @ F))
        # passivity: qd . c = 1/2 qd^T Mdot qd  (central difference of M along qd)
        h = 1e-5
        Md = (mr.MassMatrix(th + h * dth, *args) - mr.MassMatrix(th - h * dth, *args)) / (2 * h)
        lhs, rhs = float(dth @ c), 0.5 * float(dth @ Md @ dth)
        if abs(lhs - rhs) > 1e-6 * max(1.0, abs(lhs), float(np.max(np.abs(M))) * float(dth @ dth)):
            bad('passivity', 'velocity-product term does work: qd.c != 1/2 qd^T Mdot qd', inp, [lhs, rhs])
        # gravity term is the gradient of the potential energy
        masses = [d['Glist'][i][3, 3] for i in range(n)]
        def V(q):
            Tq = link_frames(d, q)
            return -sum(masses[i] * float(g @ Tq[i][0][:3, 3]) for i in range(n))
        grad = np.array([(V(th + h * np.eye(n)[k]) - V(th - h * np.eye(n)[k])) / (2 * h) for k in range(n)])
        if G.gt(np.max(np.abs(gr - grad)), 1e-6 * max(1.0, float(np.max(np.abs(gr))))):
            bad('gravity-gradient', 'gravity term is not the gradient of the links\' potential energy', inp, G.maxdiff(gr, grad))
        # energy conservation over a short torque-free, wrench-free motion (RK4 on the library's forward dynamics)
        if n_ % 10 == 0:
            def E(q, qd):
                return 0.5 * float(qd @ mr.MassMatrix(q, *args) @ qd) + V(q)
            def f(q, qd):
                return qd, mr.ForwardDynamics(q, qd, np.zeros(n), g, np.zeros(6), *args)
            q, qd = th.copy(), dth.copy() * 0.3
            E0 = E(q, qd); dt = 1e-3
            for _ in range(20):
                k1 = f(q, qd); k2 = f(q + dt / 2 * k1[0], qd + dt / 2 * k1[1]); k3 = f(q + dt / 2 * k2[0], qd + dt / 2 * k2[1]); k4 = f(q + dt * k3[0], qd + dt * k3[1])
                q = q + dt / 6 * (k1[0] + 2 * k2[0] + 2 * k3[0] + k4[0]); qd = qd + dt / 6 * (k1[1] + 2 * k2[1] + 2 * k3[1] + k4[1])
            if abs(E(q, qd) - E0) > 1e-6 * max(1.0, abs(E0)):
                bad('energy', 'a torque-free, wrench-free chain does not conserve total energy', inp, [E0, E(q, qd)])
        H = lambda xs: ' '.join(C.f2h(x) for x in np.asarray(xs, dtype=float).reshape(-1))
        lines.append('dyn.id %s %s %s %s %s %s %s %s %s' % (C.f2h(n), H(d['Mlist']), H(d['Glist']), H(d['S'].T), H(th), H(dth), H(ddth), H(g), H(F)))
        expect.append(np.asarray(tau, dtype=float))
        if n_ < 2:
            res.sample({'n': n, 'theta': th.tolist(), 'dtheta': dth.tolist()})
    # ---- arm-level re-implementations (6R test arm and random 6-joint arms with explicit spatial inertias)
    tm = armh.libs()[0]
    from basic_robotics.general import fsr
    narm = 200 if thorough else 16
    for k in range(narm):
        r2 = random.Random(rnd.randrange(1 << 30))
        try:
            with contextlib.redirect_stdout(io.StringIO()):
                nrand = 6 if k % 8 == 1 else 7 if k % 8 == 5 else 1 if k % 8 == 7 else r2.randint(1, 7)      # both ends of the 1..7 range in every run
                S, Mh, homes, axes = armh.six_r() if k % 2 == 0 else armh.random_chain(r2, nrand)
                arm, spec = armh.build(r2, 'six_r' if k % 2 == 0 else 'chain', None) if k % 2 == 0 else (None, None)
                if arm is None:
                    from basic_robotics.kinematics import Arm
                    arm = Arm(tm(), S.copy(), tm(Mh.copy()), homes.copy(), axes.copy())
                n = S.shape[1]
                link_homes = [tm([homes[0, i] + 0.1, homes[1, i], homes[2, i] + 0.2, 0, 0, 0]) for i in range(n)]
                rel = [link_homes[0]] + [link_homes[i - 1].inv() @ link_homes[i] for i in range(1, n)] + [link_homes[n - 1].inv() @ tm(Mh.copy())]
                masses = np.array([r2.uniform(0.1, 50) for _ in range(n)])
                Gl = np.array([mrargs.spd_spatial_inertia(r2) for _ in range(n)])
                arm.setOrigins(link_homes_global=link_homes)
                arm.setMassProperties(masses, rel, Gl)
        except Exception as e:
            bad('raises:arm-setup:%s' % type(e).__name__, 'setting up an arm with explicit spatial inertias raised', {}, repr(e)); break
        q = np.array([r2.uniform(-math.pi, math.pi) for _ in range(n)]); qd = np.array([r2.uniform(-2, 2) for _ in range(n)]); qdd = np.array([r2.uniform(-2, 2) for _ in range(n)])
        if r2.random() < 0.35:      # some joints exactly at rest while others move
            qd = qd * np.array([0.0 if r2.random() < 0.5 else 1.0 for _ in range(n)])
        gv = np.array([0, 0, -9.81])
        # tip wrench [moment; force]: none, dense, pure moment, pure force, a single basis wrench
        wk = r2.choice(['zero', 'dense', 'dense', 'moment', 'force', 'basis'])
        Fz = np.zeros(6)
        if wk == 'dense':
            Fz = np.array([r2.uniform(-20, 20) for _ in range(6)])
        elif wk == 'moment':
            Fz[:3] = [r2.uniform(-20, 20) for _ in range(3)]
        elif wk == 'force':
            Fz[3:] = [r2.uniform(-20, 20) for _ in range(3)]
        elif wk == 'basis':
            Fz[r2.randrange(6)] = r2.choice([-1.0, 1.0]) * r2.uniform(1, 20)
        Mlist = np.array([x.gTM() for x in rel]); Sl = np.asarray(arm.screw_list, dtype=float)
        ref = mr.InverseDynamics(q, qd, qdd, gv, Fz, Mlist, Gl, Sl)
        res.evaluations += 1
        inpa = {'arm': 'six_r' if k % 2 == 0 else 'random%d' % n, 'q': q.tolist(), 'qd': qd.tolist(), 'qdd': qdd.tolist(), 'tip_wrench': Fz.tolist(), 'tip_wrench_kind': wk}
        for name, call in (('inverseDynamics', lambda: arm.inverseDynamics(q.copy(), qd.copy(), qdd.copy(), gv, Fz.reshape((6, 1)))[0]),
                           ('inverseDynamicsEMR', lambda: arm.inverseDynamicsEMR(q.copy(), qd.copy(), qdd.copy(), gv, Fz)),
                           ('inverseDynamicsC', lambda: arm.inverseDynamicsC(q.copy(), qd.copy(), qdd.copy(), gv, Fz.reshape((6, 1)))[0])):
            try:
                with contextlib.redirect_stdout(io.StringIO()):
                    t = np.asarray(call(), dtype=float).reshape(-1)
            except Exception as e:
                bad('raises:arm.%s:%s' % (name, type(e).__name__), 'Arm.%s raised' % name, inpa, repr(e)); continue
            if G.gt(np.max(np.abs(t - ref)), 1e-7 * max(1.0, float(np.max(np.abs(ref))))):
                bad('arm-id-disagree:%s' % name, 'Arm.%s disagrees with the Modern Robotics recursion on the same arm' % name, inpa, {'got': t.tolist(), 'ref': ref.tolist()})
        try:
            with contextlib.redirect_stdout(io.StringIO()):
                Ma = np.asarray(arm.massMatrix(q.copy()), dtype=float)
                h_ = np.asarray(arm.coriolisGravity(q.copy(), qd.copy(), gv), dtype=float).reshape(-1)
                tau = ref
                tau_arr = np.array(tau, dtype=np.float64)          # ONE float64 array handed to both forward-dynamics routes, as a caller would
                tau_before = tau_arr.copy()
                fd = np.asarray(arm.forwardDynamics(q.copy(), qd.copy(), tau_arr, gv, Fz), dtype=float).reshape(-1)
                fd_again = np.asarray(arm.forwardDynamics(q.copy(), qd.copy(), tau_arr, gv, Fz), dtype=float).reshape(-1)
                if not np.array_equal(tau_arr, tau_before) or G.gt(np.max(np.abs(fd - fd_again)), 1e-9 * max(1.0, float(np.max(np.abs(fd))))):
                    bad('arm-fd-reuse', 'forward dynamics called twice with the same torque array gives two answers (or alters the array)', inpa,
                        {'torques_altered': not np.array_equal(tau_arr, tau_before), 'first': fd.tolist(), 'second': fd_again.tolist()})
                fde = np.asarray(arm.forwardDynamicsE(q.copy(), qd.copy(), tau.copy(), gv, Fz.reshape((6, 1)))[0], dtype=float).reshape(-1)
            Mref = mr.MassMatrix(q, Mlist, Gl, Sl)
            if G.gt(np.max(np.abs(Ma - Mref)), 1e-7 * max(1.0, float(np.max(np.abs(Mref))))):
                bad('arm-massmatrix', 'Arm.massMatrix disagrees with MassMatrix', inpa, G.maxdiff(Ma, Mref))
            href = mr.VelQuadraticForces(q, qd, Mlist, Gl, Sl) + mr.GravityForces(q, gv, Mlist, Gl, Sl)
            if G.gt(np.max(np.abs(h_ - href)), 1e-7 * max(1.0, float(np.max(np.abs(href))))):
                bad('arm-coriolisGravity', 'Arm.coriolisGravity disagrees with c + g', inpa, G.maxdiff(h_, href))
            cond = np.linalg.cond(Mref)
            if G.gt(np.max(np.abs(fd - qdd)), 1e-9 * cond * max(1.0, float(np.max(np.abs(qdd))))) or G.gt(np.max(np.abs(fde - qdd)), 1e-9 * cond * max(1.0, float(np.max(np.abs(qdd))))):
                bad('arm-fd', 'Arm forward dynamics does not invert inverse dynamics', inpa, [G.maxdiff(fd, qdd), G.maxdiff(fde, qdd)])
        except Exception as e:
            bad('raises:arm.dynamics:%s' % type(e).__name__, 'Arm mass matrix / forward dynamics raised', inpa, repr(e))
    ncmp = 0
    if driver_ok and lines:
        try:
            model = C.Driver().batch(lines)
            for rep, val, line in zip(model, expect, lines):
                if rep == 'bad-op':
                    res.mismatches.append({'request': line[:30], 'model': 'bad-op'}); continue
                mv = np.array([C.h2f(t) for t in rep.split()])
                ncmp += 1
                if not G.close(mv, val, 1e-8, 1e-8) and len(res.mismatches) < 10:
                    res.mismatches.append({'request': 'dyn.id', 'maxdiff': G.maxdiff(mv, val) if mv.shape == val.shape else 'shape', 'model': mv.tolist(), 'impl': val.tolist()})
        except Exception as e:
            res.mismatches.append({'driver': str(e)[:300]})
    res.stats.update({'chains': N, 'arms': narm, 'model_lines_compared': ncmp})


def replay(data):
    print('recorded:', data.get('key'), data.get('what'), str(data.get('observed'))[:300])
    return False
