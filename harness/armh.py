"""Building real Arm objects and an independent NumPy/SciPy reference for their kinematics (shared by C05-C08, C13, C14, C17)."""
import random
import math, os, io, contextlib
import numpy as np
import scipy.linalg as sla
import gen as G


def libs():
    from basic_robotics.general import tm, fsr
    from basic_robotics.kinematics import Arm
    return tm, fsr, Arm


def hat6(V):
    M = np.zeros((4, 4)); M[:3, :3] = G.hat(V[:3]); M[:3, 3] = V[3:]
    return M


def expm6(V, th):
    return sla.expm(hat6(np.asarray(V, dtype=float)) * th)


def T6(v):
    T = np.eye(4); T[:3, :3] = G.rot_ref(v[3:]); T[:3, 3] = v[:3]
    return T


def Ad(T):
    R, p = T[:3, :3], T[:3, 3]
    A = np.zeros((6, 6)); A[:3, :3] = R; A[3:, 3:] = R; A[3:, :3] = G.hat(p) @ R
    return A


class Spec:
    """what the constructor was given (base-local screws, local tool home) — the ground truth of the product-of-exponentials formula"""

    def __init__(self, base6, S_local, M_local, joint_homes):
        self.base6 = np.array(base6, dtype=float)
        self.S = np.array(S_local, dtype=float)
        self.M = np.array(M_local, dtype=float)
        self.joint_homes = np.array(joint_homes, dtype=float)
        self.n = self.S.shape[1]

    def fk(self, base_T, M_local, theta):
        T = np.array(base_T, dtype=float)
        for i in range(self.n):
            T = T @ expm6(self.S[:, i], theta[i])
        return T @ M_local


def six_r(rnd=None):
    L1, L2, L3, W = 4.5, 3.75, 3.75, 0.1
    axes = np.array([[0, 0, 1], [0, 1, 0], [0, 1, 0], [1, 0, 0], [0, 1, 0], [1, 0, 0]], dtype=float).T
    homes = np.array([[0, 0, 0], [0, 0, L1], [L2, 0, L1], [L2 + L3, 0, L1], [L2 + L3 + W, 0, L1], [L2 + L3 + 2 * W, 0, L1]], dtype=float).T
    S = np.zeros((6, 6))
    for i in range(6):
        S[:, i] = np.hstack((axes[:, i], np.cross(homes[:, i], axes[:, i])))
    M = np.eye(4); M[:3, 3] = [L2 + L3 + 3 * W, 0, L1]
    return S, M, homes, axes


def random_chain(rnd, n=None):
    n = n or rnd.randint(1, 7)
    axes, homes, S = [], [], []
    q = np.zeros(3)
    for i in range(n):
        w = G.axis(rnd)
        q = q + np.array([rnd.uniform(-0.5, 0.5), rnd.uniform(-0.5, 0.5), rnd.uniform(0.1, 0.8)])
        axes.append(w); homes.append(q.copy()); S.append(np.hstack((w, np.cross(q, w))))
    M = T6(np.concatenate([q + np.array([0.2, 0.0, 0.3]), G.rotvec(rnd, rnd.choice(['zero', 'one', 'generic']))[0]]))
    return np.array(S).T, M, np.array(homes).T, np.array(axes).T


def build(rnd, kind='six_r', base6=None, limits=None):
    """returns (arm, spec) — raises whatever the constructor raises"""
    tm, fsr, Arm = libs()
    if kind.startswith('urdf:'):
        # a bundled URDF model: the loader builds it at the identity base (its screws and tool home are then base-local: the ground
        # truth of the product-of-exponentials formula); a non-identity base is reached by move(); the limits are the file's
        from basic_robotics.kinematics import loadArmFromURDF
        base6 = np.zeros(6) if base6 is None else np.asarray(base6, dtype=float)
        with contextlib.redirect_stdout(io.StringIO()):
            arm = loadArmFromURDF(urdf_path(kind[5:]))
            S = np.asarray(arm.screw_list, dtype=float).copy()
            M = np.asarray(arm._end_effector_home.gTM(), dtype=float).copy()
            n = S.shape[1]
            spec = Spec(base6, S, M, np.zeros((3, n)))
            spec.mins, spec.maxs = np.asarray(arm.joint_mins, dtype=float).reshape(-1).copy(), np.asarray(arm.joint_maxs, dtype=float).reshape(-1).copy()
            if np.any(base6 != 0):
                arm.move(tm(list(base6)))
        return arm, spec
    if kind == 'six_r':
        S, M, homes, axes = six_r()
    else:
        S, M, homes, axes = random_chain(rnd)
    base6 = np.zeros(6) if base6 is None else np.asarray(base6, dtype=float)
    spec = Spec(base6, S.copy(), M.copy(), homes.copy())
    with contextlib.redirect_stdout(io.StringIO()):
        arm = Arm(tm(list(base6)), S.copy(), tm(M.copy()), homes.copy(), axes.copy())
        n = S.shape[1]
        if isinstance(limits, str) and limits == 'random':
            # asymmetric per-joint limits (|lower| != upper), so that requests can leave the limits on one side only
            r2 = random.Random(rnd.randrange(1 << 30))
            if r2.random() < 0.3:
                limits = None
            else:
                limits = (np.array([-r2.uniform(0.3, 2 * math.pi) for _ in range(n)]), np.array([r2.uniform(0.3, 2 * math.pi) for _ in range(n)]))
        if limits is None:
            limits = (np.ones(n) * -2 * math.pi, np.ones(n) * 2 * math.pi)
        arm.setJointProperties(np.array(limits[0], dtype=float), np.array(limits[1], dtype=float))
    spec.mins, spec.maxs = np.array(limits[0], dtype=float), np.array(limits[1], dtype=float)
    return arm, spec


URDFS = ['irb_2400.urdf', 'puma_560.urdf', 'ur5.urdf']


def urdf_path(name):
    return os.path.join(os.environ.get('BR_REPO', '/repo'), 'tests', 'test_helpers', name)
