"""C20 — disp never fails and shows every element it was given."""
import os, sys, random, math, io, contextlib, warnings, struct
import numpy as np
import common as C

PROP = 'C20'
LEAN_MODULES = ['BR.Props.C20']
THEOREMS = ['BR.C20.roundHalfEven_nearest', 'BR.C20.scaled_error', 'BR.C20.cells_rowmajor', 'BR.C20.cell_small', 'BR.C20.chunks_cover']
TIE = ('disp/dispa/printTFlist are modelled in lean/BR/Model/Disp.lean on exact numbers (a float is the rational its bits denote; \'{:W.Pf}\'.format is exact round-half-even of the decimal expansion); '
       'the model renders the same objects as the real disp and the two strings are compared character for character. Totality, print == return and the parse-back of every numeric field are evaluated directly on the real function.')
TRUSTED = ['Lean 4.33 kernel + Mathlib v4.33 (axioms: propext, Classical.choice, Quot.sound)', 'harness/c20.py (object generator, encoder, independent parse-back)',
           "Python's str() of objects without a shape (scalars, strings, None, tuples, dicts, 0-d arrays) is an input of the model",
           'LaTeX mode (str(round(x, nd)), Python shortest repr) and arrays with 5 axes are not modelled: totality and parse-back are decided on the implementation only (sampled)',
           "Nat.repr (decimal digits of a natural number) is used as is by the model's digit rendering"]
ASSUMPTIONS = ['objects of the kinds listed in the property; titles without box-drawing characters', 'faithfulness for magnitudes below 9999 and at most 4 axes']
RULE = ('random objects: scalars/strings/None/tuples/dicts/0-d arrays, arrays of every shape with extents 0..4 and 1..5 axes x float/int/bool dtypes x special values (nan, +-inf, 1e300, -0.0, >= 9999, half-way decimals), '
        'transforms, wrenches, lists of transforms / wrenches (also empty and with huge or infinite entries), mixed and nested lists x decimals 0..8 x titles of even/odd length (ASCII and non-ASCII) x pdims; '
        'distinct = distinct (object, title, nd, pdims); non-trivial = contains at least one numeric row')
SAMPLED = ['LaTeX mode for 2-D matrices: never raises, every element present (parse-back)', '5-axis arrays: never raises']

SPECIAL = [float('nan'), float('inf'), -float('inf'), 1e300, -1e12, 123456.789, 9999.0, 9998.9996, 99999.5, -0.0, 0.0005, 0.0015, 2.5, 0.125, -0.0004, 1e-320, 12345678.5]


def f2h(x):
    return '%016x' % struct.unpack('<Q', struct.pack('<d', float(x)))[0]


def xs(s):
    return 'x' + s.encode('utf-8').hex()


def enc_nums(a):
    return [f2h(v) for v in a]


def gen_array(rnd, maxdims=5):
    nd_ = rnd.randint(1, maxdims)
    shape = tuple(rnd.randint(0, 4) if rnd.random() < 0.25 else rnd.randint(1, 4) for _ in range(nd_))
    n = int(np.prod(shape)) if shape else 1
    dt = rnd.choice([float, float, float, int, bool])
    vals = []
    for _ in range(n):
        r = rnd.random()
        if dt is float:
            if r < 0.12: v = rnd.choice(SPECIAL)
            elif r < 0.3: v = round(rnd.uniform(-100, 100), rnd.randint(0, 9))
            elif r < 0.4: v = rnd.uniform(-9998, 9998)
            elif r < 0.45: v = rnd.randint(-5000, 5000) / 2 ** rnd.randint(1, 10)      # exactly representable: exercises ties
            else: v = rnd.gauss(0, 3)
        elif dt is int:
            v = rnd.choice([0, 1, -1, 7, -250, 9998, 9999, 123456, -10 ** 9, rnd.randint(-20000, 20000)])
        else:
            v = rnd.random() < 0.5
        vals.append(v)
    return np.array(vals, dtype=dt).reshape(shape)


def gen_obj(rnd, tm, Wrench, depth=0):
    """returns (python object, model encoding tokens or None when not modelled, description)"""
    r = rnd.random()
    if r < 0.40 or depth > 2:
        a = gen_array(rnd)
        if a.ndim >= 5:
            return a, None, 'array5d'
        return a, ['A', str(a.ndim)] + [str(k) for k in a.shape] + [str(a.size)] + enc_nums(a.astype(float).reshape(-1)), 'array%dd:%s' % (a.ndim, a.dtype.kind)
    if r < 0.52:
        o = rnd.choice([1, -2, 1.5, True, None, 'abc', '', 'with space, 1.5', float('nan'), float('inf'), 1e300, (1, 2), (1, (2.5, 'a')), {}, {'a': 1}, 3 + 4j, np.float64(2.5),
                        np.int32(3), np.array(1.5), np.array(7), b'x', rnd.uniform(-1e4, 1e4), rnd.randint(-10 ** 6, 10 ** 6)])
        return o, ['O', xs(str(o))], 'opaque'
    if r < 0.60:
        v = [rnd.choice([rnd.uniform(-3, 3), rnd.uniform(-2e4, 2e4)]) for _ in range(3)] + [rnd.uniform(-3, 3) for _ in range(3)]
        t = tm(v)
        return t, ['T'] + enc_nums(np.array(t.TAA, dtype=float).reshape(-1)), 'tm'
    if r < 0.66:
        w = Wrench(np.array([rnd.uniform(-20, 20) for _ in range(6)]))
        return w, ['A', '2', '6', '1', '6'] + enc_nums(np.array(w.data, dtype=float).reshape(-1)), 'wrench'
    if r < 0.78:
        n = rnd.choice([0, 1, 1, 2, 3, 5])
        items = []
        for _ in range(n):
            v = [rnd.choice([rnd.uniform(-3, 3), rnd.uniform(-2e5, 2e5), 9999.0, float('inf') if rnd.random() < 0.3 else 12.5]) for _ in range(3)] + [rnd.uniform(-3, 3) for _ in range(3)]
            items.append(tm(v))
        toks = ['L', str(n)]
        for t in items:
            toks += ['T'] + enc_nums(np.array(t.TAA, dtype=float).reshape(-1))
        return items, toks, 'tmlist%d' % n
    if r < 0.86:
        n = rnd.choice([1, 2, 4])
        items = [Wrench(np.array([rnd.choice([rnd.uniform(-20, 20), 1e7, -123456.5]) for _ in range(6)])) for _ in range(n)]
        toks = ['L', str(n)]
        for w in items:
            toks += ['W'] + enc_nums(np.array(w.data, dtype=float).reshape(-1))
        return items, toks, 'wrenchlist%d' % n
    n = rnd.randint(1, 4)
    items, toks, ok = [], ['L', str(n)], True
    kinds = []
    for _ in range(n):
        o, t, d = gen_obj(rnd, tm, Wrench, depth + 1)
        items.append(o); kinds.append(d)
        if t is None:
            ok = False
        else:
            # inside a list a Wrench counts as a wrench for the all-wrench test
            toks += (['W'] + t[5:]) if d == 'wrench' else t
    # a list whose items are all transforms / all wrenches is a table: generated above, keep this one generic
    if all(k == 'tm' for k in kinds) or all(k == 'wrench' for k in kinds):
        items.append(None); toks[1] = str(n + 1); toks += ['O', xs('None')]
    return items, (toks if ok else None), 'list'


TITLES = ['MATRIX', 'T', 'TT', 'pose 1', 'Δθ', 'a,b', '', 'long title with 27 characters', '9.5']


def parse_rows(s):
    """numeric fields of the rendered rows, in order"""
    out = []
    for line in s.split('\n'):
        if ' BEGIN ' in line or ' END ' in line or line.startswith('DIM ') or line.startswith('Dim ') or line.startswith('╠') or line.startswith('╚═') and '║' not in line and ',' not in line and ' ╝' not in line:
            continue
        body = line
        k = max(body.find('╔ '), body.find('║ '), body.find('╚ '))
        if k < 0:
            continue
        body = body[k + 2:]
        for end in (' ╗', ' ║', ' ╝'):
            if body.endswith(end):
                body = body[:-2]
        body = body.strip()
        if not body:
            continue
        for f in body.split(','):
            f = f.strip()
            try:
                out.append(float(f))
            except ValueError:
                out.append(None)
    return out


def run(res, tier, seed, driver_ok):
    warnings.filterwarnings('ignore')
    rnd = random.Random(seed * 7919 + 20)
    thorough = tier == 'thorough'
    from basic_robotics.utilities.disp import disp
    from basic_robotics.general import tm, Wrench
    N = 12000 if thorough else 900
    lines, expect = [], []
    kinds = {}
    stats = {'objects': 0, 'model_strings_compared': 0, 'not_modelled': 0, 'parse_back_fields': 0, 'tex_runs': 0}

    def bad(key, what, inp, obs):
        if len(res.violations) < 40:
            res.violations.append({'key': key, 'what': what, 'input': inp, 'observed': obs})

    # exhaustive part: every shape with extents 0..4 up to 3 axes (and a thinner set for 4 and 5 axes)
    shapes = []
    import itertools
    for k in (1, 2, 3):
        shapes += list(itertools.product(range(0, 5), repeat=k))
    shapes += [s for s in itertools.product((0, 1, 3), repeat=4)] + [s for s in itertools.product((1, 2), repeat=5)] + [(0, 1, 1, 1, 1), (2, 0, 1, 1, 1)]
    cases = []
    for sh in shapes:
        n = int(np.prod(sh))
        a = (np.arange(n).reshape(sh) * 1.37 - 2.005)
        cases.append((a, 'array%dd:f' % a.ndim if a.ndim < 5 else 'array5d'))
    forced_nd = {}
    for nd_ in (0, 0, 1, 3):      # every decimals setting at which rounding and truncation part ways, table and LaTeX mode alike; specials at nd = 0
        forced_nd[len(cases)] = nd_
        cases.append((np.array([[2.6, -1.7, 0.49], [3.5, 998.9, -0.5]]) * (1.0 if nd_ != 1 else 1.04), 'array2d:f'))
    forced_nd[len(cases)] = 0
    cases.append((np.array([[float('inf'), 1.5], [float('nan'), -2.5]]), 'array2d:f'))
    for n_ in range(N + len(cases)):
        if n_ < len(cases):
            o, d = cases[n_]
            toks = None if o.ndim >= 5 else ['A', str(o.ndim)] + [str(k) for k in o.shape] + [str(o.size)] + enc_nums(o.reshape(-1))
        else:
            o, toks, d = gen_obj(rnd, tm, Wrench)
        title = rnd.choice(TITLES)
        nd = rnd.randint(0, 8)
        nd = forced_nd.get(n_, nd)
        pdims = rnd.random() < 0.8
        kinds[d.split(':')[0]] = kinds.get(d.split(':')[0], 0) + 1
        stats['objects'] += 1
        res.evaluations += 1
        inp = {'kind': d, 'title': title, 'nd': nd, 'pdims': pdims, 'object': repr(o)[:400], 'case': n_, 'seed': seed}
        buf = io.StringIO()
        try:
            with contextlib.redirect_stdout(buf):
                s = disp(o, title, nd, 0, pdims)
        except Exception as e:
            bad('raises:%s:%s' % (d.split(':')[0], type(e).__name__), 'disp raised', inp, repr(e)[:200]); continue
        if not isinstance(s, str):
            bad('not-a-string:%s' % d, 'disp did not return a string', inp, repr(type(s))); continue
        if buf.getvalue() != s + '\n':
            bad('print-differs:%s' % d, 'what disp printed is not the string it returned', inp, {'printed': buf.getvalue()[:200], 'returned': s[:200]})
        buf2 = io.StringIO()
        try:
            with contextlib.redirect_stdout(buf2):
                s2 = disp(o, title, nd, 0, pdims, True)
            if buf2.getvalue() != '' or s2 != s:
                bad('noprint:%s' % d, 'noprint=True printed something or returned a different string', inp, None)
        except Exception as e:
            bad('raises:noprint:%s' % type(e).__name__, 'disp(noprint=True) raised', inp, repr(e)[:200])
        # faithfulness: every element, row-major, rounded to nd decimals
        if isinstance(o, np.ndarray) and 1 <= o.ndim <= 4:
            flat = o.astype(float).reshape(-1)
            fields = parse_rows(s)
            res.distinct.add(n_)
            if len(fields) != flat.size:
                bad('elements-missing:%dd' % o.ndim, 'the number of numeric fields differs from the number of elements', inp, {'fields': len(fields), 'elements': int(flat.size), 'text': s[:300]})
            else:
                for v, f in zip(flat, fields):
                    stats['parse_back_fields'] += 1
                    if math.isnan(v) or math.isinf(v):
                        if f is None or not ((math.isnan(v) and math.isnan(f)) or v == f):
                            bad('element-wrong:special', 'a nan/inf element is not shown as such', inp, {'value': v, 'field': f}); break
                    elif abs(v) < 9999:
                        if f is None or abs(f - v) > 0.5 * 10.0 ** (-nd) * (1 + 1e-9) + 1e-12 * abs(v):
                            bad('element-wrong:%dd' % o.ndim, 'a field is not the element rounded to the requested decimals', inp, {'value': v, 'field': f, 'nd': nd}); break
        # LaTeX mode for 2-D matrices
        if isinstance(o, np.ndarray) and o.ndim == 2:
            stats['tex_runs'] += 1
            try:
                with contextlib.redirect_stdout(io.StringIO()):
                    st = disp(o, title, nd, 1)
                body = [l for l in st.split('\n') if l.endswith('\\\\')]
                got = [c.strip() for l in body for c in l[:-2].split('&')] if o.shape[1] > 0 else []
                if o.shape[1] > 0 and len(got) != o.size:
                    bad('tex-elements-missing', 'LaTeX mode does not show every element', inp, {'cells': len(got), 'elements': int(o.size)})
                elif o.shape[1] > 0 and o.dtype.kind == 'f':
                    for v_, c_ in zip(o.reshape(-1).tolist(), got):
                        try:
                            f_ = float(c_)
                        except ValueError:
                            f_ = None
                        if math.isnan(v_) or math.isinf(v_):
                            okc = f_ is not None and ((math.isnan(v_) and math.isnan(f_)) or v_ == f_)
                        else:
                            okc = f_ is not None and abs(f_ - v_) <= 0.5 * 10.0 ** (-nd) * (1 + 1e-9) + 1e-12 * abs(v_)
                        if not okc:
                            bad('tex-element-wrong', 'a LaTeX cell is not the element rounded to the requested decimals', inp, {'value': v_, 'cell': c_, 'nd': nd}); break
            except Exception as e:
                bad('raises:tex:%s' % type(e).__name__, 'disp in LaTeX mode raised on a 2-D matrix', inp, repr(e)[:200])
        if toks is None:
            stats['not_modelled'] += 1
            continue
        lines.append('disp %s %d %d %s' % (xs(title), nd, 1 if pdims else 0, ' '.join(toks)))
        expect.append((s, inp))
        if n_ - len(cases) in (1, 2, 3):
            res.sample({'kind': d, 'title': title, 'nd': nd, 'text': s[:300]})
    if driver_ok and lines:
        out = C.Driver().batch(lines)
        for (s, inp), o in zip(expect, out):
            stats['model_strings_compared'] += 1
            if not o.startswith('x'):
                res.mismatches.append({'what': 'model refused', 'input': inp}); continue
            try:
                m = bytes.fromhex(o[1:]).decode('utf-8')
            except Exception:
                res.mismatches.append({'what': 'model reply is not valid UTF-8', 'input': inp}); continue
            if m != s:
                k = next((i for i in range(min(len(m), len(s))) if m[i] != s[i]), min(len(m), len(s)))
                res.mismatches.append({'what': 'rendered text differs', 'first_difference_at': k, 'model': m[max(0, k - 40):k + 60], 'real': s[max(0, k - 40):k + 60], 'input': inp})
    stats['kinds'] = kinds
    res.stats.update(stats)


def replay(data):
    print('recorded:', data.get('key'), data.get('what'), str(data.get('observed'))[:300])
    return False
