"""Structured generators shared by the numeric properties (all randomness from the rnd passed in)."""
import math
import numpy as np

PI = math.pi
ANGLE_CLASSES = ['zero', 'tiny', 'band_lo', 'band_hi', 'small', 'one', 'half_pi', 'near_pi', 'nearer_pi', 'generic']


def axis(rnd, klass=None):
    klass = klass or rnd.choice(['aligned', 'generic', 'generic', 'planar'])
    if klass == 'aligned':
        v = [0.0, 0.0, 0.0]
        v[rnd.randrange(3)] = rnd.choice([1.0, -1.0])
        return np.array(v)
    if klass == 'planar':
        a = rnd.uniform(0, 2 * PI)
        v = [math.cos(a), math.sin(a), 0.0]
        rnd.shuffle(v)
        return np.array(v)
    while True:
        v = np.array([rnd.gauss(0, 1) for _ in range(3)])
        n = np.linalg.norm(v)
        if n > 1e-3:
            return v / n


def angle(rnd, klass=None, maxangle=PI):
    klass = klass or rnd.choice(ANGLE_CLASSES)
    a = {'zero': 0.0, 'tiny': rnd.choice([1e-9, 5e-7, 1e-7]), 'band_lo': 1e-6 * (1 - 1e-3 * rnd.random()),
         'band_hi': 1e-6 * (1 + 1e-3 * rnd.random()), 'small': 10 ** rnd.uniform(-5, -2), 'one': 1.0,
         'half_pi': PI / 2, 'near_pi': PI - 1e-3, 'nearer_pi': PI - 1e-6,
         'generic': rnd.uniform(0, maxangle)}[klass]
    return min(a, maxangle), klass


def rotvec(rnd, klass=None, maxangle=PI - 1e-3):
    a, k = angle(rnd, klass, maxangle)
    return axis(rnd) * a, k


def hat(w):
    return np.array([[0, -w[2], w[1]], [w[2], 0, -w[0]], [-w[1], w[0], 0.0]])


def rot_ref(w):
    """reference Rodrigues without any cut-off (series near 0); independent of the library"""
    w = np.asarray(w, dtype=float).reshape(3)
    th = float(np.linalg.norm(w))
    K = hat(w)
    if th < 1e-4:
        a = 1 - th * th / 6 + th ** 4 / 120
        b = 0.5 - th * th / 24 + th ** 4 / 720
    else:
        a = math.sin(th) / th
        b = (1 - math.cos(th)) / (th * th)
    return np.eye(3) + a * K + b * (K @ K)


def halfturn(rnd):
    u = axis(rnd)
    return 2 * np.outer(u, u) - np.eye(3), u


def rotation(rnd, klass=None, maxangle=PI):
    """(R, class) with R in SO(3)"""
    klass = klass or rnd.choice(ANGLE_CLASSES + ['halfturn'])
    if klass == 'halfturn':
        R = halfturn(rnd)[0]
        # the code's own branch test: a rounded trace above -1 sends an (exactly symmetric) half turn to the generic branch
        return R, ('halfturn' if (R[0, 0] + R[1, 1] + R[2, 2] - 1) / 2.0 <= -1 else 'halfturn_generic_branch')
    w, k = rotvec(rnd, klass, maxangle)
    return rot_ref(w), k


def translation(rnd, scale=None):
    scale = scale if scale is not None else rnd.choice([0.0, 1e-3, 1.0, 1.0, 10.0, 1e3])
    return np.array([rnd.uniform(-1, 1) for _ in range(3)]) * scale


def pose(rnd, klass=None, scale=None, maxangle=PI):
    R, k = rotation(rnd, klass, maxangle)
    T = np.eye(4)
    T[:3, :3] = R
    T[:3, 3] = translation(rnd, scale)
    return T, k


def twist(rnd, klass=None, vscale=None, maxangle=PI - 1e-3):
    w, k = rotvec(rnd, klass, maxangle)
    return np.concatenate([w, translation(rnd, vscale)]), k


def screw(rnd, prismatic=None):
    """unit screw axis (revolute: |w|=1, v = -w x q ; prismatic: w=0, |v|=1)"""
    if prismatic is None:
        prismatic = rnd.random() < 0.2
    if prismatic:
        return np.concatenate([np.zeros(3), axis(rnd)])
    w = axis(rnd)
    q = np.array([rnd.uniform(-1, 1) for _ in range(3)])
    return np.concatenate([w, -np.cross(w, q)])


def close(a, b, atol=1e-12, rtol=1e-9):
    a = np.asarray(a, dtype=float)
    b = np.asarray(b, dtype=float)
    if a.shape != b.shape:
        return False
    if not (np.all(np.isfinite(a)) and np.all(np.isfinite(b))):
        return bool(np.all((a == b) | (np.isnan(a) & np.isnan(b))))
    scale = max(1.0, float(np.max(np.abs(b))) if b.size else 1.0)
    return bool(np.max(np.abs(a - b)) <= atol + rtol * scale) if a.size else True


def gt(x, y):
    """x > y, with a not-a-number on either side counted as 'greater' (a NaN result must never pass a tolerance test)"""
    return not (x <= y)


def maxdiff(a, b):
    a = np.asarray(a, dtype=float); b = np.asarray(b, dtype=float)
    return float(np.max(np.abs(a - b))) if a.size else 0.0
