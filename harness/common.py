"""Shared plumbing of the checks: Lean build/audit, driver process, evidence, replays, findings."""
import json, os, re, struct, subprocess, sys, time, random, hashlib

VERIF = os.path.dirname(os.path.dirname(os.path.abspath(__file__)))
LEAN = os.path.join(VERIF, 'lean')
REPO = os.environ.get('BR_REPO', '/repo')
DRIVER = os.path.join(LEAN, '.lake', 'build', 'bin', 'brdriver')
ALLOWED_AXIOMS = {'propext', 'Classical.choice', 'Quot.sound'}

os.environ.setdefault('BASIC_ROBOTICS_VERIF', '1')


def numba_cache_env():
    """redirect numba's on-disk cache away from /repo, keyed by the JIT sources"""
    h = hashlib.sha1()
    for rel in ('basic_robotics/modern_robotics_numba/modern_high_performance.py',
                'basic_robotics/general/faser_high_performance.py'):
        try:
            with open(os.path.join(REPO, rel), 'rb') as f:
                h.update(f.read())
        except OSError:
            pass
    d = os.path.join(VERIF, '.cache', 'numba', h.hexdigest()[:16])
    os.makedirs(d, exist_ok=True)
    os.environ['NUMBA_CACHE_DIR'] = d
    return d


# ------------------------------------------------------------------ floats <-> hex bits
def f2h(x):
    return '%016x' % struct.unpack('<Q', struct.pack('<d', float(x)))[0]


def h2f(s):
    return struct.unpack('<d', struct.pack('<Q', int(s, 16)))[0]


# ------------------------------------------------------------------ Lean side
def run(cmd, cwd=None, timeout=3600, env=None):
    p = subprocess.run(cmd, cwd=cwd, stdout=subprocess.PIPE, stderr=subprocess.STDOUT,
                       timeout=timeout, env=env, text=True)
    return p.returncode, p.stdout


def lake_build(targets):
    """returns (ok, output). Incremental."""
    rc, out = run(['lake', 'build'] + list(targets), cwd=LEAN)
    return rc == 0, out


def first_errors(out, n=6):
    errs = [l for l in out.splitlines() if 'error' in l]
    return errs[:n]


def broken_decls(out, module_file):
    """names of the declarations in which the build reported an error (best effort)"""
    names = []
    try:
        src = open(module_file).read().splitlines()
    except OSError:
        return names
    for m in re.finditer(r'error: %s:(\d+):(\d+)' % re.escape(os.path.relpath(module_file, LEAN)), out):
        ln = int(m.group(1))
        for i in range(min(ln, len(src)) - 1, -1, -1):
            mm = re.match(r'\s*(?:private |protected |noncomputable )*(theorem|lemma|def|example|instance)\s+([^\s:({\[]+)?', src[i])
            if mm:
                names.append(mm.group(2) or ('example@%d' % (i + 1)))
                break
    return sorted(set(names))


HYGIENE = re.compile(r'\b(sorry|admit|native_decide|bv_decide|implemented_by)\b|^\s*axiom\s|unsafe\s|maxHeartbeats\s+0\b')


def hygiene(files):
    """grep the given Lean files (comments stripped) for forbidden constructs"""
    hits = []
    for f in files:
        try:
            txt = open(f).read()
        except OSError:
            continue
        txt = re.sub(r'/-.*?-/', lambda m: '\n' * m.group(0).count('\n'), txt, flags=re.S)
        for i, line in enumerate(txt.splitlines(), 1):
            line = line.split('--')[0]
            if HYGIENE.search(line):
                hits.append('%s:%d: %s' % (os.path.relpath(f, LEAN), i, line.strip()))
    return hits


def lean_deps(module):
    """transitive BR.* imports of a module, as file paths"""
    seen, todo = [], [module]
    while todo:
        m = todo.pop()
        f = os.path.join(LEAN, *m.split('.')) + '.lean'
        if f in seen or not os.path.exists(f):
            continue
        seen.append(f)
        for line in open(f):
            mm = re.match(r'\s*import\s+(BR\.[\w.]+)', line)
            if mm:
                todo.append(mm.group(1))
    return seen


def audit(prop, module, theorems):
    """#print axioms for every property theorem; returns (ok, {thm: [axioms]}, output)"""
    d = os.path.join(LEAN, 'BR', 'Audit')
    os.makedirs(d, exist_ok=True)
    f = os.path.join(d, prop + '.lean')
    with open(f, 'w') as fh:
        fh.write('import %s\n' % module)
        for t in theorems:
            fh.write('#print axioms %s\n' % t)
    rc, out = run(['lake', 'env', 'lean', f], cwd=LEAN)
    res = {}
    cur = None
    for m in re.finditer(r"'([^']+)' (depends on axioms: \[([^\]]*)\]|does not depend on any axioms)", out.replace('\n', ' ')):
        res[m.group(1)] = [a.strip() for a in (m.group(3) or '').split(',') if a.strip()]
    ok = rc == 0 and all(any(k == t or k.endswith('.' + t) or t.endswith('.' + k) for k in res) for t in theorems)
    bad = {t: a for t, a in res.items() if not set(a) <= ALLOWED_AXIOMS}
    return ok and not bad, res, out


class Driver:
    """the compiled Lean driver as a co-process (batch mode: send all lines, read all replies)"""

    def __init__(self):
        self.path = DRIVER

    def batch(self, lines):
        if not lines:
            return []
        if os.path.exists(self.path):
            cmd = [self.path]
        else:   # fallback: interpreted
            cmd = ['lake', 'env', 'lean', '--run', os.path.join(LEAN, 'BR', 'Driver.lean')]
        p = subprocess.run(cmd, cwd=LEAN, input='\n'.join(lines) + '\n', stdout=subprocess.PIPE,
                           stderr=subprocess.PIPE, text=True)
        out = p.stdout.splitlines()
        if p.returncode != 0 or len(out) != len(lines):
            raise RuntimeError('driver failed rc=%s, %d replies for %d requests: %s'
                               % (p.returncode, len(out), len(lines), p.stderr[:500]))
        return out


# ------------------------------------------------------------------ results
class Result:
    """what a harness run found"""

    def __init__(self, prop):
        self.prop = prop
        self.evaluations = 0
        self.distinct = set()          # signatures of distinct non-trivial cases
        self.samples = []
        self.mismatches = []           # model vs implementation (correspondence), dicts
        self.violations = []           # property fails on the implementation: dicts with replay data
        self.known = []                # reproduced known findings (strings)
        self.stats = {}
        self.sampled_clauses = []      # clauses exercised but not proved
        self.notes = []

    def sample(self, s, cap=6):
        if len(self.samples) < cap:
            self.samples.append(s)


def seed_tier():
    seed = int(os.environ.get('VERIF_SEED', '0') or 0)
    tier = os.environ.get('VERIF_TIER', 'quick') or 'quick'
    return seed, tier


def load_findings():
    p = os.path.join(VERIF, 'known_findings.json')
    if not os.path.exists(p):
        return []
    return json.load(open(p))


def write_replay(prop, seed, n, data):
    d = os.path.join(VERIF, 'replays')
    os.makedirs(d, exist_ok=True)
    p = os.path.join(d, '%s-%d-%d.json' % (prop, seed, n))
    with open(p, 'w') as f:
        json.dump(data, f, indent=1, default=str)
    return os.path.relpath(p, VERIF)


def write_evidence(prop, tier, seed, coverage, assumptions, wall, violations):
    d = os.path.join(VERIF, 'evidence')
    os.makedirs(d, exist_ok=True)
    level = 'proof'
    if not (coverage.get('discharged', 0) >= 1 and coverage.get('discharged') == coverage.get('obligations')):
        # the proof obligations do not all check on this tree: this run is not proof-level evidence
        level = 'other'
        coverage = dict(coverage)
        coverage['explanation'] = ('proof obligations no longer check on this tree (%s of %s discharged): %s'
                                   % (coverage.get('discharged'), coverage.get('obligations'), '; '.join(str(x)[:300] for x in coverage.get('no_longer_checks', [])) or 'see no_longer_checks'))
    ev = {'property_id': prop, 'tier': tier, 'seed': seed, 'level': level, 'coverage': coverage,
          'assumptions': assumptions, 'wall_s': round(wall, 2), 'violations': violations}
    with open(os.path.join(d, prop + '.json'), 'w') as f:
        json.dump(ev, f, indent=1, default=str)
