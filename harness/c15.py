"""C15 — planner collision test = exact segment-versus-box intersection."""
import os, sys, random, itertools, time
from fractions import Fraction
import multiprocessing as mp
import common as C

PROP = 'C15'
LEAN_MODULES = ['BR.Props.C15']
THEOREMS = ['BR.C15.gen1_iff_sat', 'BR.C15.obstructedBox_iff', 'BR.C15.obstruction2_eq_or',
            'BR.C15.obstruction0_never', 'BR.C15.obstruction_iff_any', 'BR.SegBox.sat_iff']
TIE = ('T-trace: lean/BR/Gen/C15.lean is regenerated on every run by executing the current source of '
       'RRTStar.obstruction symbolically (0, 1 and 2 symbolic boxes); the theorems are re-checked against it. '
       'The translator is cross-checked by running the generated definitions (Rat and Float instances, compiled '
       'driver) against the real method on the same inputs.')
TRUSTED = ['Lean 4.33 kernel + Mathlib v4.33 (axioms: propext, Classical.choice, Quot.sound)',
           'translate/trace.py + translate/gen_c15.py (symbolic tracer; cross-checked by the correspondence run)',
           'tm indexing glue (t[i], t[0:3]) and PathNode.getPosition are stood in by symbolic doubles during tracing; the real glue is exercised by the correspondence run only',
           'theorem is over ordered fields (exact arithmetic); IEEE rounding of the float comparisons is outside it (random float cases are restricted to robustly decided ones)']
ASSUMPTIONS = ['loop over the obstruction list is traced for 0, 1 and 2 boxes and proved to be the disjunction; n>2 boxes by correspondence only',
               'finite inputs (no NaN/inf)']
RULE = ('lattice: segment end points in {-3..3}^3, box corners in {-2..2}^3 (any corner order, degenerate boxes included), '
        'sampled uniformly plus the exhaustive sub-lattice in the thorough tier; random float cases in [-10,10]^3 whose exact '
        'answer is unchanged by growing/shrinking the box by 1e-9; multi-box sets of 0..12 boxes. distinct = distinct (segment, boxes) tuples (the parallel lattice workers each track at most 4000 distinct tuples, so the count is conservative); '
        'non-trivial = not (zero-length segment and zero-volume box at once)')
SAMPLED = []


def generate():
    import gen_c15
    src = gen_c15.generate()
    return {'file': 'lean/BR/Gen/C15.lean', 'bytes': len(src), 'paths': [1, 7, src.count('if ') and 49]}


# ---------------------------------------------------------------- exact oracle (independent)
def hits_exact(p1, p2, lo, hi):
    """closed segment p1->p2 meets closed box with corners lo,hi (any order); exact in Fractions/ints"""
    tn0, td0 = 0, 1     # t >= tn0/td0
    tn1, td1 = 1, 1     # t <= tn1/td1
    for k in range(3):
        a, b = (lo[k], hi[k]) if lo[k] <= hi[k] else (hi[k], lo[k])
        d = p2[k] - p1[k]
        if d == 0:
            if p1[k] < a or p1[k] > b:
                return False
            continue
        n_lo, n_hi = (a - p1[k], b - p1[k]) if d > 0 else (p1[k] - b, p1[k] - a)
        ad = abs(d)
        # t in [n_lo/ad, n_hi/ad]
        if n_lo * td0 > tn0 * ad:
            tn0, td0 = n_lo, ad
        if n_hi * td1 < tn1 * ad:
            tn1, td1 = n_hi, ad
    return tn0 * td1 <= tn1 * td0


_planner = None


def _impl():
    global _planner
    if _planner is None:
        from basic_robotics.path_planning.pathplanner import RRTStar, PathNode
        from basic_robotics.general import tm
        _planner = (RRTStar(tm()), PathNode, tm)
    return _planner


def impl_obstruction(p1, p2, boxes):
    r, PathNode, tm = _impl()
    r.obstructions = []
    for lo, hi in boxes:
        r.addObstruction([float(x) for x in lo], [float(x) for x in hi])
    n1 = PathNode(tm([float(p1[0]), float(p1[1]), float(p1[2]), 0, 0, 0]))
    n2 = PathNode(tm([float(p2[0]), float(p2[1]), float(p2[2]), 0, 0, 0]))
    return bool(r.obstruction(n1, n2))


def _lattice_chunk(args):
    """worker: run the implementation and the exact oracle on lattice cases; returns failures"""
    seed, n, rng_pts, rng_box, exhaustive_boxes = args
    r, PathNode, tm = _impl()
    rnd = random.Random(seed)
    fails, ev, hits = [], 0, 0
    distinct = set()
    pts = list(itertools.product(range(-rng_pts, rng_pts + 1), repeat=3))
    corners = list(itertools.product(range(-rng_box, rng_box + 1), repeat=3))
    nodes = {p: PathNode(tm([float(p[0]), float(p[1]), float(p[2]), 0, 0, 0])) for p in pts}
    if exhaustive_boxes is not None:
        boxes = exhaustive_boxes
    else:
        boxes = [(rnd.choice(corners), rnd.choice(corners)) for _ in range(max(1, n // 400))]
    per = None if exhaustive_boxes is not None else max(1, n // len(boxes))
    for lo, hi in boxes:
        r.obstructions = []
        r.addObstruction([float(x) for x in lo], [float(x) for x in hi])
        if per is None:
            segs = itertools.product(pts, pts)
        else:
            segs = ((rnd.choice(pts), rnd.choice(pts)) for _ in range(per))
        for p1, p2 in segs:
            got = bool(r.obstruction(nodes[p1], nodes[p2]))
            want = hits_exact(p1, p2, lo, hi)
            ev += 1
            hits += want
            if len(distinct) < 4000 and not (p1 == p2 and lo == hi):
                distinct.add((p1, p2, lo, hi))
            if got != want:
                if len(fails) < 20:
                    fails.append({'p1': p1, 'p2': p2, 'boxes': [[lo, hi]], 'impl': got, 'exact': want})
    return fails, ev, hits, len(distinct)


def check_case(p1, p2, boxes):
    got = impl_obstruction(p1, p2, boxes)
    want = any(hits_exact(p1, p2, lo, hi) for lo, hi in boxes)
    return got, want


def replay(data):
    inp = data['input']
    conv = lambda v: [Fraction(x) if isinstance(x, str) else x for x in v]
    got, want = check_case(conv(inp['p1']), conv(inp['p2']), [[conv(b[0]), conv(b[1])] for b in inp['boxes']])
    print('implementation says %s, exact segment/box intersection says %s' % (got, want))
    return got == want


def _viol(res, case, kind):
    res.violations.append({'key': 'obstruction:%s:impl=%s' % (kind, case['impl']),
                           'input': {'p1': [str(x) for x in case['p1']], 'p2': [str(x) for x in case['p2']],
                                     'boxes': [[[str(x) for x in b[0]], [str(x) for x in b[1]]] for b in case['boxes']]},
                           'observed': case['impl'], 'required': case['exact'],
                           'what': 'RRTStar.obstruction disagrees with exact closed segment / closed box intersection'})


def run(res, tier, seed, driver_ok):
    rnd = random.Random(seed * 7919 + 15)
    thorough = tier == 'thorough'
    t0 = time.time()
    # ---- falsifier on the lattice (implementation vs exact oracle), parallel
    nproc = min(16, os.cpu_count() or 1)
    n_random = 4000000 if thorough else 600000
    jobs = [(rnd.randrange(1 << 30), n_random // nproc, 3, 2, None) for _ in range(nproc)]
    exhaustive = False
    if thorough:
        # complete sub-lattice: all segments in {-2..2}^3 against all boxes with corners in {-1..1}^3
        corners = list(itertools.product(range(-1, 2), repeat=3))
        allboxes = list(itertools.product(corners, corners))
        k = (len(allboxes) + nproc - 1) // nproc
        jobs += [(0, 0, 2, 1, allboxes[i:i + k]) for i in range(0, len(allboxes), k)]
        exhaustive = True
    with mp.Pool(nproc) as pool:
        outs = pool.map(_lattice_chunk, jobs)
    lat_ev = lat_hits = 0
    for fails, ev, hits, nd in outs:
        lat_ev += ev
        lat_hits += hits
        for c in fails:
            _viol(res, c, 'lattice')
    res.evaluations += lat_ev
    res.stats['lattice_cases'] = lat_ev
    res.stats['lattice_hit_fraction'] = round(lat_hits / max(1, lat_ev), 4)
    res.stats['exhaustive_sublattice'] = exhaustive

    # ---- structured + random cases, also sent to the generated model (correspondence)
    cases = []
    L = lambda k: rnd.randint(-k, k)
    for _ in range(40000 if thorough else 6000):          # lattice, single box
        cases.append(('q', [L(3), L(3), L(3)], [L(3), L(3), L(3)], [([L(2), L(2), L(2)], [L(2), L(2), L(2)])]))
    for _ in range(20000 if thorough else 3000):          # lattice, two boxes
        cases.append(('q', [L(3), L(3), L(3)], [L(3), L(3), L(3)],
                      [([L(2), L(2), L(2)], [L(2), L(2), L(2)]), ([L(2), L(2), L(2)], [L(2), L(2), L(2)])]))
    for _ in range(8000 if thorough else 1500):           # half-integer lattice (touching at mid-edges)
        H = lambda k: Fraction(rnd.randint(-2 * k, 2 * k), 2)
        cases.append(('q', [H(3), H(3), H(3)], [H(3), H(3), H(3)], [([H(2), H(2), H(2)], [H(2), H(2), H(2)])]))
    U = lambda: rnd.uniform(-10, 10)
    for _ in range(200000 if thorough else 5000):         # random floats
        cases.append(('f', [U(), U(), U()], [U(), U(), U()], [([U(), U(), U()], [U(), U(), U()])]))
    for _ in range(20000 if thorough else 1500):          # floats, segment ends near the box
        lo, hi = [U(), U(), U()], [U(), U(), U()]
        near = lambda: [rnd.choice([lo[k], hi[k], (lo[k] + hi[k]) / 2]) + rnd.choice([0, 0, 1e-3, -1e-3, 1, -1]) * rnd.random() for k in range(3)]
        cases.append(('f', near(), near(), [(lo, hi)]))
    multi = []
    for _ in range(3000 if thorough else 400):            # sets of 0..12 boxes (implementation vs oracle only)
        nb = rnd.randint(0, 12)
        multi.append(([L(3), L(3), L(3)], [L(3), L(3), L(3)], [([L(2), L(2), L(2)], [L(2), L(2), L(2)]) for _ in range(nb)]))

    lines, impl = [], []
    for kind, p1, p2, boxes in cases:
        flat = list(p1) + list(p2) + [x for b in boxes for c in b for x in c]
        fn = 'obs%d%s' % (len(boxes), kind)
        if kind == 'q':
            lines.append(fn + ' ' + ' '.join(str(Fraction(x)) for x in flat))
        else:
            lines.append(fn + ' ' + ' '.join(C.f2h(x) for x in flat))
        impl.append(impl_obstruction(p1, p2, boxes))
    model = None
    if driver_ok:
        try:
            model = C.Driver().batch(lines)
        except Exception as e:
            res.mismatches.append({'driver': str(e)[:300]})
    branch = {'q_hit': 0, 'q_miss': 0, 'f_hit': 0, 'f_miss': 0, 'f_not_robust': 0}
    for i, (kind, p1, p2, boxes) in enumerate(cases):
        res.evaluations += 1
        got = impl[i]
        if model is not None and model[i] != ('true' if got else 'false'):
            if len(res.mismatches) < 20:
                res.mismatches.append({'line': lines[i], 'model': model[i], 'impl': got})
        if kind == 'q':
            want = any(hits_exact(p1, p2, lo, hi) for lo, hi in boxes)
            branch['q_hit' if want else 'q_miss'] += 1
            res.distinct.add(('q', tuple(p1), tuple(p2), tuple((tuple(b[0]), tuple(b[1])) for b in boxes)))
            if got != want:
                _viol(res, {'p1': p1, 'p2': p2, 'boxes': boxes, 'impl': got, 'exact': want}, 'lattice')
        else:
            F = lambda v: [Fraction(x) for x in v]
            eps = Fraction(1, 10 ** 9)
            (lo, hi), = boxes
            a = [min(Fraction(lo[k]), Fraction(hi[k])) for k in range(3)]
            b = [max(Fraction(lo[k]), Fraction(hi[k])) for k in range(3)]
            big = hits_exact(F(p1), F(p2), [x - eps for x in a], [x + eps for x in b])
            small = all(b[k] - a[k] > 2 * eps for k in range(3)) and hits_exact(F(p1), F(p2), [x + eps for x in a], [x - eps for x in b])
            if big != small:
                branch['f_not_robust'] += 1
                continue
            branch['f_hit' if big else 'f_miss'] += 1
            res.distinct.add(('f', tuple(p1), tuple(p2)))
            if got != big:
                _viol(res, {'p1': F(p1), 'p2': F(p2), 'boxes': [[F(lo), F(hi)]], 'impl': got, 'exact': big}, 'float')
    for p1, p2, boxes in multi:
        res.evaluations += 1
        got, want = check_case(p1, p2, boxes)
        res.distinct.add(('m', tuple(p1), tuple(p2), len(boxes)))
        if got != want:
            _viol(res, {'p1': p1, 'p2': p2, 'boxes': boxes, 'impl': got, 'exact': want}, 'multibox')
    res.stats['branches'] = branch
    res.stats['model_lines_compared'] = len(lines) if model is not None else 0
    res.stats['multibox_cases'] = len(multi)
    for i in (0, len(cases) // 2, len(cases) - 1):
        res.sample({'request': lines[i], 'impl': impl[i], 'model': model[i] if model else None})
    res.distinct |= set(('lat', i) for i in range(sum(o[3] for o in outs)))
