"""Valid argument generators for the 47 functions common to the Numba port and reference Modern Robotics."""
import math
import numpy as np
import gen as G


def spd_spatial_inertia(rnd):
    A = np.array([[rnd.uniform(-1, 1) for _ in range(3)] for _ in range(3)])
    I = A @ A.T + np.eye(3) * rnd.uniform(0.05, 0.5)
    m = rnd.uniform(0.1, 50)
    Gm = np.zeros((6, 6)); Gm[:3, :3] = I; Gm[3:, 3:] = np.eye(3) * m
    return Gm


def chain(rnd, n=None, revolute_only=False):
    n = n or rnd.randint(1, 7)
    S = np.array([G.screw(rnd, prismatic=False if revolute_only else None) for _ in range(n)]).T
    S = np.ascontiguousarray(S)
    M = G.pose(rnd, 'generic', 1.0, math.pi - 1e-2)[0]
    return n, S, M


def dyn(rnd, n=None):
    n, S, M = chain(rnd, n, revolute_only=True)
    Mlist = np.array([G.pose(rnd, rnd.choice(['zero', 'generic', 'one']), 1.0, 2.0)[0] for _ in range(n + 1)])
    Glist = np.array([spd_spatial_inertia(rnd) for _ in range(n)])
    v = lambda s=1.0: np.array([rnd.uniform(-s, s) for _ in range(n)])
    dth = v(3)
    zk = rnd.random()       # joint rates with exact zeros: some joints at rest while others move, or a single joint moving
    if zk < 0.2:
        dth = dth * np.array([0.0 if rnd.random() < 0.5 else 1.0 for _ in range(n)])
    elif zk < 0.3:
        one = np.zeros(n); one[rnd.randrange(n)] = rnd.choice([-1.0, 1.0]) * rnd.uniform(0.5, 3); dth = one
    return dict(n=n, S=S, Mlist=Mlist, Glist=Glist, th=v(math.pi), dth=dth, ddth=v(3), tau=v(20),
                g=np.array([rnd.uniform(-10, 10) for _ in range(3)]), F=np.array([rnd.uniform(-20, 20) for _ in range(6)]))


EXACT_HALFTURNS = [
    [[1, 0, 0], [0, -1, 0], [0, 0, -1]], [[-1, 0, 0], [0, 1, 0], [0, 0, -1]], [[-1, 0, 0], [0, -1, 0], [0, 0, 1]],          # about x, y, z
    [[0, 1, 0], [1, 0, 0], [0, 0, -1]], [[0, -1, 0], [-1, 0, 0], [0, 0, -1]],                                               # about (1, +-1, 0)
    [[0, 0, 1], [0, -1, 0], [1, 0, 0]], [[0, 0, -1], [0, -1, 0], [-1, 0, 0]],                                               # about (1, 0, +-1)
    [[-1, 0, 0], [0, 0, 1], [0, 1, 0]], [[-1, 0, 0], [0, 0, -1], [0, -1, 0]],                                               # about (0, 1, +-1)
    [[-0.28, 0.96, 0], [0.96, 0.28, 0], [0, 0, -1]], [[-0.28, -0.96, 0], [-0.96, 0.28, 0], [0, 0, -1]],                      # about (3, +-4, 0)/5
    [[0.28, 0, 0.96], [0, -1, 0], [0.96, 0, -0.28]], [[-1, 0, 0], [0, -0.28, 0.96], [0, 0.96, 0.28]],                        # about (4, 0, 3)/5, (0, 3, 4)/5
]


def cases(rnd):
    """list of (function name, args tuple, kind) — kind in {'val', 'ik', 'traj'}"""
    out = []
    w, _ = G.rotvec(rnd, maxangle=math.pi - 1e-2)
    R, _ = G.rotation(rnd, rnd.choice(['zero', 'small', 'one', 'half_pi', 'generic', 'near_pi']))
    T, _ = G.pose(rnd, rnd.choice(['zero', 'small', 'one', 'half_pi', 'generic', 'near_pi', 'tiny', 'band_lo', 'band_hi']), None, math.pi - 1e-2)
    # exact half turns (trace exactly -1): each of the three sub-branches of the logarithm's angle-pi case, signs and axis planes
    k_ = rnd.random()
    if k_ < 0.25:
        R = np.array(rnd.choice(EXACT_HALFTURNS), dtype=float)
    if 0.15 < k_ < 0.4:
        T = T.copy(); T[:3, :3] = np.array(rnd.choice(EXACT_HALFTURNS), dtype=float)
    V, _ = G.twist(rnd, rnd.choice(['zero', 'small', 'one', 'generic']), None, math.pi - 1e-2)
    se3 = np.zeros((4, 4)); se3[:3, :3] = G.hat(V[:3]); se3[:3, 3] = V[3:]
    p = G.translation(rnd, 1.0)
    add = lambda name, *a, kind='val': out.append((name, a, kind))
    add('NearZero', rnd.choice([0.0, 1e-7, -1e-7, 1e-5, rnd.uniform(-1, 1)]))
    if np.linalg.norm(w) > 0:
        add('Normalize', w.copy()); add('AxisAng3', w.copy())
    add('RotInv', R.copy()); add('VecToso3', w.copy()); add('so3ToVec', G.hat(w)); add('MatrixExp3', G.hat(w)); add('MatrixLog3', R.copy())
    add('RpToTrans', R.copy(), p.copy()); add('TransToRp', T.copy()); add('TransInv', T.copy()); add('VecTose3', V.copy()); add('se3ToVec', se3.copy())
    add('Adjoint', T.copy()); add('ScrewToAxis', p.copy(), G.axis(rnd), rnd.uniform(-1, 1))
    if np.linalg.norm(V[:3]) >= 1e-6 or np.linalg.norm(V[3:]) > 0:
        add('AxisAng6', V.copy())
    add('MatrixExp6', se3.copy()); add('MatrixLog6', T.copy())
    noisy = R + np.array([[rnd.uniform(-1e-2, 1e-2) for _ in range(3)] for _ in range(3)])
    noisyT = T.copy(); noisyT[:3, :3] = noisy
    add('ProjectToSO3', noisy.copy()); add('ProjectToSE3', noisyT.copy()); add('DistanceToSO3', noisy.copy()); add('DistanceToSE3', noisyT.copy())
    add('TestIfSO3', noisy.copy()); add('TestIfSE3', noisyT.copy()); add('TestIfSO3', R.copy()); add('TestIfSE3', T.copy())
    n, S, M = chain(rnd)
    th = np.array([rnd.uniform(-math.pi, math.pi) for _ in range(n)])
    add('FKinBody', M.copy(), S.copy(), th.copy()); add('FKinSpace', M.copy(), S.copy(), th.copy())
    add('JacobianBody', S.copy(), th.copy()); add('JacobianSpace', S.copy(), th.copy())
    add('ad', V.copy())
    # IK: goal from FK of a nearby configuration
    n2, S2, M2 = chain(rnd, rnd.randint(3, 7), revolute_only=True)
    thg = np.array([rnd.uniform(-2, 2) for _ in range(n2)])
    th0 = thg + np.array([rnd.uniform(-0.15, 0.15) for _ in range(n2)]) * rnd.choice([1, 1, 4])
    out.append(('IKinSpace', (S2.copy(), M2.copy(), thg.copy(), th0.copy(), 0.01, 0.001), 'ik'))
    out.append(('IKinBody', (S2.copy(), M2.copy(), thg.copy(), th0.copy(), 0.01, 0.001), 'ik'))
    # restarted at its own solution: the test of the starting vector evaluates both its halves and no iteration runs
    out.append(('IKinSpace', (S2.copy(), M2.copy(), thg.copy(), thg.copy(), 0.01, 0.001), 'ik'))
    out.append(('IKinBody', (S2.copy(), M2.copy(), thg.copy(), thg.copy(), 0.01, 0.001), 'ik'))
    d = dyn(rnd)
    add('InverseDynamics', d['th'], d['dth'], d['ddth'], d['g'], d['F'], d['Mlist'], d['Glist'], d['S'])
    add('MassMatrix', d['th'], d['Mlist'], d['Glist'], d['S'])
    add('VelQuadraticForces', d['th'], d['dth'], d['Mlist'], d['Glist'], d['S'])
    add('GravityForces', d['th'], d['g'], d['Mlist'], d['Glist'], d['S'])
    add('EndEffectorForces', d['th'], d['F'], d['Mlist'], d['Glist'], d['S'])
    add('ForwardDynamics', d['th'], d['dth'], d['tau'], d['g'], d['F'], d['Mlist'], d['Glist'], d['S'])
    add('EulerStep', d['th'], d['dth'], d['ddth'], rnd.uniform(0.001, 0.1))
    N = rnd.randint(2, 12)
    nn = d['n']
    mat = lambda s: np.array([[rnd.uniform(-s, s) for _ in range(nn)] for _ in range(N)])
    Fm = np.array([[rnd.uniform(-5, 5) for _ in range(6)] for _ in range(N)])
    out.append(('InverseDynamicsTrajectory', (mat(2), mat(2), mat(2), d['g'], Fm, d['Mlist'], d['Glist'], d['S']), 'traj'))
    out.append(('ForwardDynamicsTrajectory', (d['th'], d['dth'], mat(5), d['g'], Fm, d['Mlist'], d['Glist'], d['S'], 0.01, rnd.randint(1, 4)), 'traj'))
    Tf = rnd.uniform(0.5, 5); t = rnd.uniform(0, Tf)
    add('CubicTimeScaling', Tf, t); add('QuinticTimeScaling', Tf, t)
    meth = rnd.choice([3, 5])
    the = np.array([rnd.uniform(-3, 3) for _ in range(nn)])
    out.append(('JointTrajectory', (d['th'], the, Tf, N, meth), 'traj'))
    X1, _ = G.pose(rnd, 'generic', 1.0, 2.0); X2, _ = G.pose(rnd, 'generic', 1.0, 2.0)
    out.append(('ScrewTrajectory', (X1, X2, Tf, N, meth), 'traj'))
    out.append(('CartesianTrajectory', (X1, X2, Tf, N, meth), 'traj'))
    add('ComputedTorque', d['th'], d['dth'], np.array([rnd.uniform(-0.1, 0.1) for _ in range(nn)]), d['g'], d['Mlist'], d['Glist'], d['S'],
        the, d['dth'] * 0.5, d['ddth'], 1.3, 1.2, 1.1)
    # the controller's model of the robot differs from the robot in every respect it can: gravity, link frames AND link inertias
    Mt = d['Mlist'].copy(); Mt[:, :3, 3] = Mt[:, :3, 3] * 1.05
    Gt = d['Glist'] * np.array([rnd.uniform(0.8, 1.25) for _ in range(len(d['Glist']))]).reshape(-1, 1, 1)
    out.append(('SimulateControl', (d['th'], d['dth'], d['g'], Fm, d['Mlist'], d['Glist'], d['S'], mat(2), mat(2), mat(2), d['g'] * 1.05,
                                    Mt, Gt, 20.0, 10.0, 18.0, 0.01, 2), 'traj'))
    return out


def deep_copy_args(args):
    return tuple(a.copy() if isinstance(a, np.ndarray) else a for a in args)


def fingerprint(args):
    return [a.tobytes() if isinstance(a, np.ndarray) else repr(a) for a in args]
