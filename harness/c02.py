"""C02 — the Numba port computes what reference Modern Robotics computes."""
import os, sys, random, math, io, contextlib, importlib.util
import numpy as np
import common as C
import gen as G
import mrargs

PROP = 'C02'
LEAN_MODULES = ['BR.Props.C02']
THEOREMS = ['BR.C02.matrixLog3_port_eq_ref', 'BR.C02.matrixLog6_port_eq_ref', 'BR.C02.normalize_port_eq_ref',
            'BR.C02.ikLoop_success_sound', 'BR.C02.ikLoop_failure_means_error', 'BR.C02.ikErr_false_iff',
            'BR.C02.cubic_endpoints', 'BR.C02.quintic_endpoints', 'BR.C02.cubic_range', 'BR.C02.quintic_range']
TIE = ('K twice on the same inputs: the Float instance of lean/BR/Model/MR.lean (compiled driver) is compared with the port (basic_robotics.modern_robotics_numba) AND with the vendored reference '
       '(vendor/modern_robotics_ref, modern_robotics 1.1.1) for every modelled function; all 47 shared functions are additionally compared port-vs-reference directly (values, shapes, exceptions).')
TRUSTED = ['Lean 4.33 kernel + Mathlib v4.33 (axioms: propext, Classical.choice, Quot.sound)', 'harness/mrargs.py (valid-argument generators), harness/c02.py',
           'vendored reference copy vendor/modern_robotics_ref/core.py (pinned 1.1.1)', 'np.linalg.pinv/inv/svd inside both libraries (same NumPy)',
           'dynamics, trajectory (other than the two time scalings) and control functions are not modelled in Lean: their agreement is differential evidence only']
ASSUMPTIONS = ['valid float64 arguments; cases where the reference itself returns non-finite values are out of scope']
RULE = ('47 shared functions x generated valid arguments (chains 1..7, unit/prismatic screws, SE(3) link frames, SPD inertias, N=2..12, both time scalings); distinct = distinct (function, arguments); '
        'non-trivial = arguments not all zero')
SAMPLED = ['agreement of the dynamics / trajectory / control functions (differential only)', 'both IK solvers converge to the same solution from the same start (sampled)']

MODELLED = {  # function -> (driver name, arg flattener, result flattener)
    'Normalize': ('mr.normalize', lambda a: a[0], lambda r: r), 'VecToso3': ('mr.hat', lambda a: a[0], lambda r: r.reshape(-1)),
    'so3ToVec': ('mr.vee', lambda a: a[0].reshape(-1), lambda r: r), 'AxisAng3': ('mr.axisang3', lambda a: a[0], lambda r: list(r[0]) + [r[1]]),
    'MatrixExp3': ('mr.exp3', lambda a: a[0].reshape(-1), lambda r: r.reshape(-1)), 'MatrixLog3': ('mr.log3', lambda a: a[0].reshape(-1), lambda r: r.reshape(-1)),
    'TransInv': ('mr.transinv', lambda a: a[0].reshape(-1), lambda r: r.reshape(-1)), 'VecTose3': ('mr.hat6', lambda a: a[0], lambda r: r.reshape(-1)),
    'se3ToVec': ('mr.vee6', lambda a: a[0].reshape(-1), lambda r: r), 'Adjoint': ('mr.adjoint', lambda a: a[0].reshape(-1), lambda r: r.reshape(-1)),
    'ad': ('mr.ad', lambda a: a[0], lambda r: r.reshape(-1)), 'ScrewToAxis': ('mr.screwtoaxis', lambda a: list(a[0]) + list(a[1]) + [a[2]], lambda r: r),
    'AxisAng6': ('mr.axisang6', lambda a: a[0], lambda r: list(r[0]) + [r[1]]), 'MatrixExp6': ('mr.exp6', lambda a: a[0].reshape(-1), lambda r: r.reshape(-1)),
    'MatrixLog6': ('mr.log6', lambda a: a[0].reshape(-1), lambda r: r.reshape(-1)),
    'FKinSpace': ('mr.fkinspace', lambda a: list(a[0].reshape(-1)) + [float(len(a[2]))] + list(a[1].T.reshape(-1)) + list(a[2]), lambda r: r.reshape(-1)),
    'FKinBody': ('mr.fkinbody', lambda a: list(a[0].reshape(-1)) + [float(len(a[2]))] + list(a[1].T.reshape(-1)) + list(a[2]), lambda r: r.reshape(-1)),
    'JacobianSpace': ('mr.jacobianspace', lambda a: [float(len(a[1]))] + list(a[0].T.reshape(-1)) + list(a[1]), lambda r: r.T.reshape(-1)),
    'CubicTimeScaling': ('mr.cubic', lambda a: [a[0], a[1]], lambda r: [r]), 'QuinticTimeScaling': ('mr.quintic', lambda a: [a[0], a[1]], lambda r: [r]),
    'JacobianBody': ('mr.jacobianbody', lambda a: [float(len(a[1]))] + list(a[0].T.reshape(-1)) + list(a[1]), lambda r: r.T.reshape(-1)),
}


def libs():
    import basic_robotics.modern_robotics_numba as mrn
    port = mrn.mr
    spec = importlib.util.spec_from_file_location('mr_ref_core', os.path.join(C.VERIF, 'vendor', 'modern_robotics_ref', 'core.py'))
    ref = importlib.util.module_from_spec(spec)
    spec.loader.exec_module(ref)
    return port, ref


def flat(x):
    if isinstance(x, (tuple, list)):
        out = []
        for e in x:
            out += flat(e)
        return out
    a = np.asarray(x)
    if a.dtype == bool:
        return [float(v) for v in a.reshape(-1)]
    return [float(v) for v in a.astype(float).reshape(-1)]


def shape_of(x):
    if isinstance(x, (tuple, list)):
        return [shape_of(e) for e in x]
    return list(np.asarray(x).shape)


def call(f, args):
    try:
        with contextlib.redirect_stdout(io.StringIO()), contextlib.redirect_stderr(io.StringIO()):
            import matplotlib
            matplotlib.use('Agg')
            import matplotlib.pyplot as plt
            plt.ioff()
            r = f(*mrargs.deep_copy_args(args))
            plt.close('all')
        return r, None
    except Exception as e:
        return None, e


def run(res, tier, seed, driver_ok):
    rnd = random.Random(seed * 7919 + 2)
    thorough = tier == 'thorough'
    port, ref = libs()
    rounds = 600 if thorough else 40
    lines, expect = [], []
    perfun = {}
    ik_both = ik_same = 0
    # targeted starts: the initial error twist is a multiple of one basis twist, just above / below the tolerance
    # (the start is the solution and the goal is displaced by exp(delta * e_k)), for both solvers
    ik_targeted = 0
    for rd in range(rounds):
        n_t, S_t, M_t = mrargs.chain(rnd, rnd.randint(2, 6))
        th_t = np.array([rnd.uniform(-1.5, 1.5) for _ in range(n_t)])
        B_t = np.ascontiguousarray(np.array([ref.Adjoint(ref.TransInv(M_t)) @ S_t[:, i] for i in range(n_t)]).T)
        T0 = ref.FKinSpace(M_t, S_t, th_t)
        eomg, ev = 0.01, 0.001
        for k in range(6):
            for fac in (3.0, 0.5):
                e = np.zeros(6); e[k] = fac * (eomg if k < 3 else ev)
                E = ref.MatrixExp6(ref.VecTose3(e))
                for name in ('IKinSpace', 'IKinBody'):
                    T = E @ T0 if name == 'IKinSpace' else T0 @ E
                    a = (S_t, M_t, T, th_t.copy(), eomg, ev) if name == 'IKinSpace' else (B_t, M_t, T, th_t.copy(), eomg, ev)
                    rp, ep = call(getattr(port, name), a)
                    res.evaluations += 1
                    ik_targeted += 1
                    if ep is not None:
                        res.violations.append({'key': 'raises:%s:%s' % (name, type(ep).__name__), 'what': 'port IK raises on a start next to the solution', 'input': {'function': name, 'component': k}, 'observed': repr(ep)})
                        continue
                    thp, okp = rp
                    if okp:
                        if name == 'IKinBody':
                            Vb = ref.se3ToVec(ref.MatrixLog6(ref.TransInv(ref.FKinBody(M_t, B_t, thp)) @ T))
                        else:
                            Tsb = ref.FKinSpace(M_t, S_t, thp)
                            Vb = ref.Adjoint(Tsb) @ ref.se3ToVec(ref.MatrixLog6(ref.TransInv(Tsb) @ T))
                        if np.linalg.norm(Vb[:3]) > eomg * (1 + 1e-9) or np.linalg.norm(Vb[3:]) > ev * (1 + 1e-9):
                            res.violations.append({'key': 'ik-false-success:%s' % name, 'what': 'port IK reports success but the tolerances are not met (start displaced along one twist component)',
                                                   'input': {'function': name, 'component': k, 'factor': fac, 'S': S_t.tolist(), 'M': M_t.tolist(), 'T': T.tolist(), 'theta0': th_t.tolist()},
                                                   'observed': [float(np.linalg.norm(Vb[:3])), float(np.linalg.norm(Vb[3:]))]})
                    if fac < 1 and (not okp or G.gt(np.max(np.abs(np.asarray(thp) - th_t)), 0)):
                        res.violations.append({'key': 'ik-start-within-tolerance:%s' % name, 'what': 'a start that already meets the tolerances is not returned as it is with success',
                                               'input': {'function': name, 'component': k}, 'observed': [bool(okp), np.asarray(thp).tolist()]})
    res.stats['ik_targeted_starts'] = ik_targeted
    for rd in range(rounds):
        for name, args, kind in mrargs.cases(rnd):
            fp, fr = getattr(port, name, None), getattr(ref, name, None)
            if fp is None or fr is None:
                res.violations.append({'key': 'missing:%s' % name, 'what': 'shared function %s missing from the port' % name, 'input': {}})
                continue
            res.evaluations += 1
            res.distinct.add((name, rd))
            perfun[name] = perfun.get(name, 0) + 1
            if kind == 'ik':
                S, M, thg, th0, eomg, ev = args
                T = ref.FKinSpace(M, S, thg)
                if name == 'IKinBody':
                    B = np.array([ref.Adjoint(ref.TransInv(M)) @ S[:, i] for i in range(S.shape[1])]).T
                    a_port = (np.ascontiguousarray(B), M, T, th0, eomg, ev); a_ref = a_port
                else:
                    a_port = (S, M, T, th0, eomg, ev); a_ref = a_port
                rp, ep = call(fp, a_port); rr, er = call(fr, a_ref)
                if ep is not None and er is None:
                    res.violations.append({'key': 'raises:%s:%s' % (name, type(ep).__name__), 'what': 'port raises where the reference returns', 'input': {'function': name}, 'observed': repr(ep)})
                    continue
                if ep is not None:
                    continue
                thp, okp = rp
                if okp:       # a reported success meets the requested tolerances (checked with the reference's own kinematics)
                    if name == 'IKinBody':
                        Vb = ref.se3ToVec(ref.MatrixLog6(ref.TransInv(ref.FKinBody(M, B, thp)) @ T))
                    else:
                        Tsb = ref.FKinSpace(M, S, thp)
                        Vb = ref.Adjoint(Tsb) @ ref.se3ToVec(ref.MatrixLog6(ref.TransInv(Tsb) @ T))
                    if np.linalg.norm(Vb[:3]) > eomg * (1 + 1e-9) or np.linalg.norm(Vb[3:]) > ev * (1 + 1e-9):
                        res.violations.append({'key': 'ik-false-success:%s' % name, 'what': 'port IK reports success but the tolerances are not met',
                                               'input': {'function': name, 'S': S.tolist(), 'M': M.tolist(), 'T': T.tolist(), 'theta0': th0.tolist()},
                                               'observed': [float(np.linalg.norm(Vb[:3])), float(np.linalg.norm(Vb[3:]))]})
                if er is None and okp and rr[1]:
                    ik_both += 1
                    dth = float(np.max(np.abs(np.asarray(thp) - np.asarray(rr[0]))))
                    if dth <= 1e-7:
                        ik_same += 1
                    elif dth <= 1e-4 * (1.0 + float(np.max(np.abs(np.asarray(rr[0]))))):
                        # the same solution branch: a long Newton excursion amplified rounding differences between the two libraries
                        # (both results meet the tolerances, which allow far more than this); counted, not a different solution
                        ik_same += 1
                        res.stats['ik_same_branch_rounding_amplified'] = res.stats.get('ik_same_branch_rounding_amplified', 0) + 1
                    else:
                        # both iterations left the principal range (some |theta_i| beyond 4*pi) before they settled: Newton's iteration is chaotic there
                        # and the two libraries' rounding sends it to different branches — classified, see the known finding
                        exc_ = ':after-excursion' if max(float(np.max(np.abs(np.asarray(thp)))), float(np.max(np.abs(np.asarray(rr[0]))))) > 4 * math.pi else ''
                        res.violations.append({'key': 'ik-different-solution:%s%s' % (name, exc_), 'what': 'both libraries converge from the same start but to different solutions',
                                               'input': {'function': name, 'theta0': th0.tolist()}, 'observed': [np.asarray(thp).tolist(), np.asarray(rr[0]).tolist()]})
                continue
            rp, ep = call(fp, args); rr, er = call(fr, args)
            if er is not None:
                continue            # the reference itself rejects these arguments: not a valid input
            if ep is not None:
                res.violations.append({'key': 'raises:%s:%s' % (name, type(ep).__name__), 'what': 'port raises %r where the reference returns' % (ep,),
                                       'input': {'function': name, 'args_shapes': [shape_of(a) for a in args]}, 'observed': repr(ep)})
                continue
            vr, vp = flat(rr), flat(rp)
            if not np.all(np.isfinite(vr)):
                continue
            if shape_of(rp) != shape_of(rr) and np.asarray(vp).shape != np.asarray(vr).shape:
                res.violations.append({'key': 'shape:%s' % name, 'what': 'port result has a different shape', 'input': {'function': name}, 'observed': [shape_of(rp), shape_of(rr)]})
                continue
            rtol = 1e-7 if kind == 'traj' and 'Dynamics' in name or name == 'SimulateControl' else 1e-9
            if name in ('MatrixLog3', 'MatrixLog6', 'ScrewTrajectory', 'CartesianTrajectory'):
                rtol = 1e-7      # log near pi / near 0 amplifies the rounding difference of the inputs' last bits
            if not G.close(vp, vr, rtol, rtol):
                res.violations.append({'key': 'value:%s' % name, 'what': 'port and reference return different values', 'input': {'function': name, 'args': [np.asarray(a).tolist() for a in args][:4]},
                                       'observed': {'maxdiff': G.maxdiff(vp, vr)}})
            if name in MODELLED:
                dn, fa, fr_ = MODELLED[name]
                lines.append(dn + ' ' + ' '.join(C.f2h(x) for x in flat(fa(args))))
                expect.append((name, flat(fr_(rp) if not isinstance(rp, tuple) else fr_(rp)), flat(fr_(rr) if not isinstance(rr, tuple) else fr_(rr))))
    ncmp = 0
    if driver_ok and lines:
        try:
            model = C.Driver().batch(lines)
            for rep, (name, vp, vr), line in zip(model, expect, lines):
                if rep == 'bad-op':
                    res.mismatches.append({'request': line[:50], 'model': 'bad-op'}); continue
                mv = [C.h2f(t) for t in rep.split()]
                if name == 'MatrixLog3':
                    mv = mv[:-1]
                ncmp += 1
                tol = 1e-7 if name in ('MatrixLog3', 'MatrixLog6') else 1e-9
                if not (G.close(mv, vp, tol, tol) and G.close(mv, vr, tol, tol)) and len(res.mismatches) < 10:
                    res.mismatches.append({'function': name, 'model_vs_port': G.maxdiff(mv, vp) if len(mv) == len(vp) else 'shape', 'model_vs_ref': G.maxdiff(mv, vr) if len(mv) == len(vr) else 'shape'})
        except Exception as e:
            res.mismatches.append({'driver': str(e)[:300]})
    res.stats.update({'functions': len(perfun), 'calls_per_function_min': min(perfun.values()) if perfun else 0, 'model_lines_compared_with_port_and_reference': ncmp,
                      'ik_both_converged': ik_both, 'ik_same_solution': ik_same})
    res.sample({'functions': sorted(perfun)[:47]})


def replay(data):
    port, ref = libs()
    name = data['input'].get('function')
    print('recorded:', data.get('key'), data.get('what'), str(data.get('observed'))[:300])
    rnd = random.Random(5)
    for _ in range(20):
        for n, args, kind in mrargs.cases(rnd):
            if n == name and kind != 'ik':
                rp, ep = call(getattr(port, n), args); rr, er = call(getattr(ref, n), args)
                if er is None and ep is not None:
                    print('port raises', repr(ep), 'reference returns'); return False
                if er is None and not G.close(flat(rp), flat(rr), 1e-7, 1e-7):
                    print('values differ by', G.maxdiff(flat(rp), flat(rr))); return False
    return True
