"""C13 — loading a URDF preserves the kinematics the file describes."""
import os, sys, random, math, io, contextlib, tempfile
import xml.etree.ElementTree as ET
import numpy as np
import common as C
import gen as G
import armh

PROP = 'C13'
LEAN_MODULES = ['BR.Props.C13']
THEOREMS = ['BR.C13.loader_screw', 'BR.C13.exp6_pure_rot', 'BR.C13.chainFK_left', 'BR.C13.loader_FK_eq_urdfFK', 'BR.C13.dof_and_order', 'BR.C13.rpy_origin', 'BR.C13.origin_isRot', 'BR.Rot.exp6_conj']
TIE = ('K: lean/BR/Model/Urdf.lean models the loader\'s second pass on an abstract document (chain of moving / fixed joints with origin transforms and axes); the generator produces the document, '
       'renders it to XML for the real loadArmFromURDF and to the compiled driver; screws, home pose and degrees of freedom are compared. The FK of the loaded arm is compared with the product of origin*Rot(axis, theta) computed in NumPy from the XML.')
TRUSTED = ['Lean 4.33 kernel + Mathlib v4.33 (axioms: propext, Classical.choice, Quot.sound)', 'harness/c13.py (document generator, XML rendering, independent XML reader for the bundled files)',
           'ElementTree XML parsing, the parent/child wiring and the longest-chain walk are glue covered by the correspondence run on strictly serial trees only']
ASSUMPTIONS = ['single chain, revolute / continuous / fixed joints, unit axes', 'joint values inside the declared limits', 'pose equality to 1e-6']
RULE = ('5 bundled URDF/xacro-derived files + generated URDFs: 1..8 moving joints, 0..4 fixed joints anywhere, arbitrary xyz/rpy origins with each of origin/xyz/rpy/axis optionally omitted, aligned and generic axes, '
        'with/without world link, with/without inertial data; distinct = distinct documents; non-trivial = at least one non-identity origin')
SAMPLED = []


def rpy_T(xyz, rpy):
    r, p, y = rpy
    Rx = G.rot_ref([r, 0, 0]); Ry = G.rot_ref([0, p, 0]); Rz = G.rot_ref([0, 0, y])
    T = np.eye(4); T[:3, :3] = Rz @ Ry @ Rx; T[:3, 3] = xyz
    return T


def gen_doc(rnd):
    nm = rnd.randint(1, 8)
    nf = rnd.randint(0, 4)
    kinds = ['m'] * nm + ['f'] * nf
    rnd.shuffle(kinds)
    joints = []
    for i, k in enumerate(kinds):
        j = {'name': 'j%d' % i, 'type': ('fixed' if k == 'f' else rnd.choice(['revolute', 'continuous']))}
        has_origin = rnd.random() < 0.85
        if has_origin:
            j['xyz'] = [round(rnd.uniform(-0.5, 0.5), 3) for _ in range(3)] if rnd.random() < 0.85 else None
            j['rpy'] = [round(rnd.uniform(-3.0, 3.0), 3) for _ in range(3)] if rnd.random() < 0.8 else None
            if j['rpy'] is not None and rnd.random() < 0.35:
                # the angles URDF authors really write: quarter turns and values that cancel, repeat or vanish
                a = rnd.choice([1.5707963, 3.14159265, 0.3, 0.5, 0.785398])
                j['rpy'] = rnd.choice([[a, 0.0, -a], [a, -a, 0.0], [0.0, a, -a], [a, a, -2 * a], [0.5, 0.25, -0.75], [a, 0.0, 0.0], [0.0, -a, 0.0], [0.0, 0.0, a],
                                       [-a, -a, -a], [a, a, a], [0.0, 0.0, 0.0]])
            j['origin'] = True
        else:
            j['origin'] = False; j['xyz'] = None; j['rpy'] = None
        if k == 'm':
            if rnd.random() < 0.85:
                a = G.axis(rnd, rnd.choice(['aligned', 'generic']))
                j['axis'] = [float(x) for x in a]
            else:
                j['axis'] = None
            if j['type'] == 'revolute':
                lo = round(rnd.uniform(-3.0, -0.2), 3); hi = round(rnd.uniform(0.2, 3.0), 3)
                zb = rnd.random()          # one-sided joints: a bound written as exactly zero (elbows, grippers)
                if zb < 0.15:
                    lo = 0.0
                elif zb < 0.3:
                    hi = 0.0
                j['limit'] = [lo, hi]
            else:
                j['limit'] = None
        joints.append(j)
    return {'joints': joints, 'world': rnd.random() < 0.5, 'inertial': rnd.random() < 0.5}


def render(doc):
    out = ['<?xml version="1.0"?>', '<robot name="gen">']
    n = len(doc['joints'])
    links = ['world' if doc['world'] else 'base'] + ['l%d' % i for i in range(n)]
    for i, l in enumerate(links):
        if l == 'world':
            out.append('<link name="world"/>')
            continue
        if doc['inertial']:
            out.append('<link name="%s"><inertial><origin xyz="0.01 0.02 0.03" rpy="0 0 0"/><mass value="%g"/><inertia ixx="0.1" ixy="0" ixz="0" iyy="0.1" iyz="0" izz="0.1"/></inertial></link>' % (l, 1.0 + i))
        else:
            out.append('<link name="%s"/>' % l)
    for i, j in enumerate(doc['joints']):
        s = '<joint name="%s" type="%s"><parent link="%s"/><child link="%s"/>' % (j['name'], j['type'], links[i], links[i + 1])
        if j['origin']:
            s += '<origin'
            if j['xyz'] is not None:
                s += ' xyz="%s"' % ' '.join(repr(x) for x in j['xyz'])
            if j['rpy'] is not None:
                s += ' rpy="%s"' % ' '.join(repr(x) for x in j['rpy'])
            s += '/>'
        if j['type'] != 'fixed':
            if j['axis'] is not None:
                s += '<axis xyz="%s"/>' % ' '.join(repr(x) for x in j['axis'])
            if j['limit'] is not None:
                s += '<limit lower="%r" upper="%r" effort="10" velocity="1"/>' % tuple(j['limit'])
        s += '</joint>'
        out.append(s)
    out.append('</robot>')
    return '\n'.join(out)


def doc_from_file(path):
    """independent reader of a strictly serial URDF: joints in chain order with their origin/axis/limit as written"""
    root = ET.parse(path).getroot()
    js = {}
    for j in root.findall('joint'):
        o = j.find('origin'); a = j.find('axis'); l = j.find('limit')
        js[j.find('parent').get('link')] = js.get(j.find('parent').get('link'), []) + [{
            'name': j.get('name'), 'type': j.get('type'), 'child': j.find('child').get('link'),
            'origin': o is not None, 'xyz': [float(x) for x in o.get('xyz').split()] if o is not None and o.get('xyz') else None,
            'rpy': [float(x) for x in o.get('rpy').split()] if o is not None and o.get('rpy') else None,
            'axis': [float(x) for x in a.get('xyz').split()] if a is not None else None,
            'limit': [float(l.get('lower')), float(l.get('upper'))] if l is not None and l.get('lower') is not None else None}]
    children = set(c['child'] for v in js.values() for c in v)
    roots = [p for p in js if p not in children]
    chain = []
    cur = roots[0]
    def depth(link):
        return 1 + max([depth(c['child']) for c in js.get(link, [])] or [0])
    while cur in js:
        nxt = max(js[cur], key=lambda c: depth(c['child']))
        chain.append(nxt); cur = nxt['child']
    return {'joints': chain, 'serial': all(len(v) == 1 for v in js.values())}


def near_half_turn(doc):
    """joints whose origin rotation, or whose accumulated home rotation, is within 1e-4 of a half turn without being one
    (where MatrixLog3 — known finding C01-log3-near-pi-precision — loses the rotation vector)"""
    out = []
    Racc = np.eye(3)
    for j in doc['joints']:
        O = rpy_T(j.get('xyz') or [0, 0, 0], j.get('rpy') or [0, 0, 0])[:3, :3]
        Racc = Racc @ O
        for tag, R in (('origin', O), ('accumulated', Racc)):
            ang = math.acos(max(-1.0, min(1.0, (np.trace(R) - 1) / 2)))
            skew = np.linalg.norm(R - R.T)
            if math.pi - ang < 1e-4 and skew > 1e-13:
                out.append('%s:%s' % (j['name'], tag))
    return out


def urdf_fk(doc, theta):
    T = np.eye(4); k = 0
    for j in doc['joints']:
        T = T @ rpy_T(j['xyz'] or [0, 0, 0], j['rpy'] or [0, 0, 0])
        if j['type'] != 'fixed':
            ax = np.array(j['axis'] if j.get('axis') is not None else [1.0, 0.0, 0.0])
            Rt = np.eye(4); Rt[:3, :3] = G.rot_ref(ax * theta[k]); T = T @ Rt; k += 1
    return T


def check_doc(doc, path, res, label, rnd, nthetas):
    from basic_robotics.kinematics import loadArmFromURDF
    moving = [j for j in doc['joints'] if j['type'] != 'fixed']
    inp = {'document': doc if label == 'generated' else label}

    def bad(key, what, obs):
        if len(res.violations) < 40:
            res.violations.append({'key': key, 'what': what, 'input': inp, 'observed': obs})
    try:
        with contextlib.redirect_stdout(io.StringIO()):
            arm = loadArmFromURDF(path)
        if arm is None:
            raise RuntimeError('loader returned None')
    except Exception as e:
        missing = []
        for j in doc['joints']:
            if not j['origin']: missing.append('origin')
            if j['type'] != 'fixed' and j.get('axis') is None: missing.append('axis')
        bad('raises:load:%s:%s' % (type(e).__name__, '+'.join(sorted(set(missing))) or 'complete'), 'loadArmFromURDF raised %r' % (e,), repr(e))
        return None
    if arm.num_dof != len(moving):
        bad('dof', 'number of degrees of freedom differs from the file', [arm.num_dof, len(moving)]); return arm
    if list(arm.joint_names) != [j['name'] for j in moving]:
        bad('names', 'joint order / names differ from the file', [list(arm.joint_names), [j['name'] for j in moving]])
    for i, j in enumerate(moving):
        lo, hi = (j['limit'] if j.get('limit') is not None else (-2 * math.pi, 2 * math.pi))
        if abs(arm.joint_mins[i] - lo) > 1e-9 or abs(arm.joint_maxs[i] - hi) > 1e-9:
            bad('limits', 'joint limits differ from the file', {'joint': j['name'], 'arm': [float(arm.joint_mins[i]), float(arm.joint_maxs[i])], 'file': [lo, hi]}); break
    for _ in range(nthetas):
        th = np.array([rnd.uniform(*(j['limit'] if j.get('limit') is not None else (-math.pi, math.pi))) for j in moving])
        res.evaluations += 1
        with contextlib.redirect_stdout(io.StringIO()):
            T = arm.FK(th.copy()).gTM()
        want = urdf_fk(doc, th)
        if G.gt(np.max(np.abs(T - want)), 1e-6 * max(1.0, np.max(np.abs(want)))):
            near = near_half_turn(doc)
            bad('fk:origin-near-half-turn' if near else 'fk', 'FK of the loaded arm differs from the file\'s own semantics (origin transforms each followed by a rotation about the joint axis)',
                {'theta': th.tolist(), 'diff': G.maxdiff(T, want), 'rotation_within_1e-4_of_a_half_turn_but_not_exact': near})
            break
    return arm


def run(res, tier, seed, driver_ok):
    rnd = random.Random(seed * 7919 + 13)
    thorough = tier == 'thorough'
    lines, expect = [], []
    for f in armh.URDFS:
        p = armh.urdf_path(f)
        try:
            doc = doc_from_file(p)
        except Exception as e:
            res.notes.append('could not read %s independently: %r' % (f, e)); continue
        res.distinct.add(f)
        check_doc(doc, p, res, f, rnd, 50 if thorough else 20)
    ndocs = 3000 if thorough else 150
    tmpd = tempfile.mkdtemp(prefix='c13_')
    stats = {'generated': ndocs, 'omitted_origin': 0, 'omitted_axis': 0, 'with_fixed': 0}
    try:
        for n in range(ndocs):
            doc = gen_doc(rnd)
            stats['omitted_origin'] += any(not j['origin'] for j in doc['joints'])
            stats['omitted_axis'] += any(j['type'] != 'fixed' and j.get('axis') is None for j in doc['joints'])
            stats['with_fixed'] += any(j['type'] == 'fixed' for j in doc['joints'])
            p = os.path.join(tmpd, 'g%d.urdf' % n)
            with open(p, 'w') as fh:
                fh.write(render(doc))
            res.distinct.add(n)
            arm = check_doc(doc, p, res, 'generated', rnd, 50 if thorough else 20)
            os.remove(p)
            if near_half_turn(doc):
                stats['documents_with_a_rotation_next_to_a_half_turn'] = stats.get('documents_with_a_rotation_next_to_a_half_turn', 0) + 1
            elif arm is not None and arm.num_dof == len([j for j in doc['joints'] if j['type'] != 'fixed']):
                # correspondence (documents next to a half turn are left to the falsifier: known finding C13-origin-near-half-turn): the model's second pass on the abstract document
                toks = []
                for j in doc['joints']:
                    O = rpy_T(j['xyz'] or [0, 0, 0], j['rpy'] or [0, 0, 0])
                    ax = [0.0, 0.0, 0.0] if j['type'] == 'fixed' else (j['axis'] if j.get('axis') is not None else [1.0, 0.0, 0.0])
                    toks += [1.0 if j['type'] != 'fixed' else 0.0] + list(O.reshape(-1)) + list(ax)
                lines.append('urdf.load %s %s' % (C.f2h(len(doc['joints'])), ' '.join(C.f2h(x) for x in toks)))
                expect.append(np.concatenate([arm._end_effector_home.gTM().reshape(-1), np.asarray(arm.screw_list, dtype=float).T.reshape(-1)]))
            if n < 2:
                res.sample({'joints': [(j['type'], j['origin'], j.get('axis') is not None) for j in doc['joints']], 'world': doc['world']})
    finally:
        try:
            os.rmdir(tmpd)
        except OSError:
            pass
    ncmp = 0
    if driver_ok and lines:
        try:
            model = C.Driver().batch(lines)
            for rep, val, line in zip(model, expect, lines):
                if rep == 'bad-op':
                    res.mismatches.append({'request': line[:30], 'model': 'bad-op'}); continue
                mv = np.array([C.h2f(t) for t in rep.split()])
                ncmp += 1
                if not G.close(mv, val, 1e-7, 1e-7) and len(res.mismatches) < 10:
                    res.mismatches.append({'request': 'urdf.load', 'maxdiff': G.maxdiff(mv, val) if mv.shape == val.shape else 'shape %s vs %s' % (mv.shape, val.shape)})
        except Exception as e:
            res.mismatches.append({'driver': str(e)[:300]})
    stats['model_documents_compared'] = ncmp
    res.stats.update(stats)


def replay(data):
    print('recorded:', data.get('key'), data.get('what'), str(data.get('observed'))[:300])
    doc = data['input'].get('document')
    if isinstance(doc, dict):
        import tempfile
        res = C.Result(PROP)
        with tempfile.NamedTemporaryFile('w', suffix='.urdf', delete=False) as fh:
            fh.write(render(doc)); p = fh.name
        check_doc(doc, p, res, 'generated', random.Random(1), 10)
        os.remove(p)
        print('now:', [v['key'] for v in res.violations] or 'holds')
        return not res.violations
    return False
