"""Runs every compiled kernel and the public entry points that reach them on valid inputs and writes what they
return (or the exception they raise) to a JSON file.  Run once with NUMBA_BOUNDSCHECK=1 and once without by
harness/c17.py; the two result files must agree and contain no IndexError.
usage: c17_worker.py <seed> <repetitions> <out.json>"""
import sys, os, json, math, random, io, contextlib, warnings
warnings.filterwarnings('ignore')
sys.path.insert(0, os.path.dirname(os.path.abspath(__file__)))
import numpy as np


def flat(x):
    if isinstance(x, (tuple, list)):
        out = []
        for y in x:
            out += flat(y)
        return out
    if hasattr(x, 'gTM'):
        return [float(v) for v in np.asarray(x.gTM(), dtype=float).reshape(-1)]
    if hasattr(x, 'data') and hasattr(x, 'frame_applied'):
        return [float(v) for v in np.asarray(x.data, dtype=float).reshape(-1)]
    if isinstance(x, np.ndarray):
        return [float(v) for v in x.astype(float).reshape(-1)]
    if isinstance(x, (bool, np.bool_)):
        return [1.0 if x else 0.0]
    if x is None:
        return []
    try:
        return [float(x)]
    except Exception:
        return [float('nan')]


def main():
    seed, reps, outp = int(sys.argv[1]), int(sys.argv[2]), sys.argv[3]
    res = []
    try:
        body(seed, reps, res)
    except Exception as e:      # a set-up step between the recorded calls failed (e.g. building an operand): reported, not lost
        import traceback
        res.append(['worker-setup', 'EXC:%s:%s | %s' % (type(e).__name__, str(e)[:120], ' <- '.join(l.strip() for l in traceback.format_exc().splitlines()[-7:-1])[:500])])
    json.dump({'boundscheck': os.environ.get('NUMBA_BOUNDSCHECK', '0'), 'results': res}, open(outp, 'w'))


def body(seed, reps, res):
    import mrargs, armh, sph, gen as G
    import basic_robotics.modern_robotics_numba as mrn
    from basic_robotics.general import fmr, tm, fsr, Wrench
    mr = mrn.mr

    def call(label, f, *a, **k):
        try:
            with contextlib.redirect_stdout(io.StringIO()):
                r = f(*a, **k)
            res.append([label, flat(r)])
            return r
        except Exception as e:
            res.append([label, 'EXC:%s:%s' % (type(e).__name__, str(e)[:120])])
            return None

    rnd = random.Random(seed * 7919 + 17)
    for rep in range(reps):
        for name, args, kind in mrargs.cases(rnd):
            args = mrargs.deep_copy_args(args)
            if kind == 'ik':      # the third argument is the joint vector the goal pose is derived from
                Sx, Mx, thg, th0, eo, ev = args
                goal = (mr.FKinSpace if name == 'IKinSpace' else mr.FKinBody)(Mx, Sx, thg)
                args = (Sx, Mx, goal, th0, eo, ev)
            call('mr.%s' % name, getattr(mr, name), *args)
        # helper kernels outside the 47
        v3 = np.array([rnd.uniform(-2, 2) for _ in range(3)]); v6 = np.array([rnd.uniform(-2, 2) for _ in range(6)])
        A = np.array([[rnd.uniform(-2, 2) for _ in range(4)] for _ in range(3)]); B = np.array([[rnd.uniform(-2, 2) for _ in range(2)] for _ in range(4)])
        call('mr.Norm', mr.Norm, v3.copy()); call('mr.Norm6', mr.Norm6, v6.copy())
        call('mr.AngleMod', mr.AngleMod, np.array([rnd.uniform(-9, 9) for _ in range(rnd.randint(1, 7))]))
        call('mr.SafeTrace', mr.SafeTrace, np.array([[rnd.uniform(-1, 1) for _ in range(4)] for _ in range(4)]))
        call('mr.SafeTrace.rect', mr.SafeTrace, A.copy())
        call('mr.SafeCopy', mr.SafeCopy, A.copy()); call('mr.SafeDot', mr.SafeDot, A.copy(), B.copy()); call('mr.MatMul', mr.MatMul, A.copy(), B.copy())
        call('mr.SafeClip', mr.SafeClip, rnd.uniform(-3, 3), -1.0, 1.0)
        p1 = np.array([rnd.uniform(-2, 2) for _ in range(3)] + [rnd.uniform(-1, 1) for _ in range(3)]); p2 = np.array([rnd.uniform(-2, 2) for _ in range(3)] + [rnd.uniform(-1, 1) for _ in range(3)])
        call('mr.LocalToGlobal', mr.LocalToGlobal, p1.copy(), p2.copy()); call('mr.GlobalToLocal', mr.GlobalToLocal, p1.copy(), p2.copy())
        # the kernels of faser_high_performance
        n, S, M = mrargs.chain(rnd, rnd.randint(2, 7), revolute_only=True)
        thg = np.array([rnd.uniform(-1.5, 1.5) for _ in range(n)])
        goal = mr.FKinSpace(M, S, thg)
        th0 = thg + np.array([rnd.uniform(-0.1, 0.1) for _ in range(n)])
        call('fmr.IKinSpaceConstrained', fmr.IKinSpaceConstrained, S.copy(), M.copy(), goal.copy(), th0.copy(), 1e-3, 1e-2, np.full(n, -2.0), np.full(n, 2.0), 40)
        call('fmr.TrVec', fmr.TrVec, M.copy(), v3.copy())
        for n_small in (1, 3, 7):      # joint counts on both sides of the 6 rows of a screw table
            n2, S2, M2 = mrargs.chain(rnd, n_small, revolute_only=True)
            th2 = np.array([rnd.uniform(-1.0, 1.0) for _ in range(n2)])
            goal2 = mr.FKinSpace(M2, S2, th2)
            call('fmr.IKinSpaceConstrained[n=%d]' % n2, fmr.IKinSpaceConstrained, S2.copy(), M2.copy(), goal2.copy(), th2 + 0.2, 1e-3, 1e-2, np.full(n2, -2.0), np.full(n2, 2.0), 15)
        sp, g = sph.build(rnd)
        bj, tj = sph.local_joints(sp)
        h = sp._nominal_height
        Tb = sp.getBottomT().gTM(); Tt = Tb @ sph.T6(sph.rel_pose(rnd, h, 0.6))
        r = call('fmr.SPIKinSpace', fmr.SPIKinSpace, Tb.copy(), Tt.copy(), bj.copy(), tj.copy(), np.zeros((3, 6)), np.zeros((3, 6)))
        L = sph.lengths_ref(bj, tj, Tb, Tt)
        call('fmr.SPFKinSpaceR', fmr.SPFKinSpaceR, L.copy(), np.array([0, 0, h, 0, 0, 0.0]), np.ascontiguousarray(bj.T), np.ascontiguousarray(tj.T), 200, 5e-6, 5e-6, sp.leg_ext_min)
        # public entry points: transforms
        a = tm([rnd.uniform(-2, 2) for _ in range(6)]); b = tm([rnd.uniform(-2, 2) for _ in range(6)])
        call('tm.matmul', lambda: a @ b); call('tm.inv', lambda: a.inv()); call('tm.l2g', fsr.localToGlobal, a, b); call('tm.g2l', fsr.globalToLocal, a, b)
        call('tm.exp6', lambda: a.exp6()); call('tm.adjoint', lambda: a.adjoint()); call('fsr.twistToGoal', lambda: fsr.twistFromTransform(a) if hasattr(fsr, 'twistFromTransform') else 0)
        # public entry points: arms, every link / joint index (URDF arms carry link and joint homes)
        from basic_robotics.kinematics.arm_model import loadArmFromURDF
        if rep % 3 == 0:
            arm, spec = armh.build(rnd, 'six_r', [rnd.uniform(-1, 1) for _ in range(6)])
            has_links = False
        else:
            with contextlib.redirect_stdout(io.StringIO()):
                arm = loadArmFromURDF(armh.urdf_path(armh.URDFS[rep % 3]))
            has_links = arm._link_homes_global is not None and len(arm._link_homes_global) >= arm.num_dof
        nA = arm.num_dof
        th = np.array([rnd.uniform(-1.2, 1.2) for _ in range(nA)])
        call('arm.FK', arm.FK, th.copy())
        call('arm.FK.protect', arm.FK, th.copy(), True)
        for i in range(nA):
            call('arm.FKJoint[%d/%d]' % (i, nA), arm.FKJoint, th.copy(), i)
            call('arm.FKJoint.protect[%d/%d]' % (i, nA), arm.FKJoint, th.copy(), i, True)       # every optional-argument form of the index-taking calls
            if has_links:
                call('arm.FKLink[%d/%d]' % (i, nA), arm.FKLink, th.copy(), i)
                call('arm.FKLink.protect[%d/%d]' % (i, nA), arm.FKLink, th.copy(), i, True)
                call('arm.jacobianLink[%d/%d]' % (i, nA), arm.jacobianLink, i, th.copy())
        call('arm.jacobian', arm.jacobian, th.copy()); call('arm.jacobianBody', arm.jacobianBody, th.copy()); call('arm.jacobianEETrans', arm.jacobianEETrans, th.copy())
        call('arm.getJointTransforms', arm.getJointTransforms)
        call('arm.IK', lambda: arm.IK(arm.FK(th.copy()), theta_init=th + 0.05)[0])
        call('arm.IK.free', lambda: arm.IK(arm.FK(th.copy()), theta_init=th + 0.05, protect=True)[0])
        call('arm.IK.free.at-solution', lambda: arm.IK(arm.FK(th.copy()), theta_init=th.copy(), protect=True)[0])
        call('arm.staticForces', arm.staticForces, Wrench(np.array([rnd.uniform(-5, 5) for _ in range(6)])), th.copy())
        # public entry points: Stewart platform, every leg index
        call('sp.IK', lambda: sp.IK(tm(Tt))[0])
        call('sp.FK', lambda: sp.FK(L.copy())[0])
        call('sp.inverseJacobian', sp.inverseJacobian)
        for i in range(6):
            for ty in ('m', 'b', 't'):
                call('sp.getActuatorLoc[%d%s]' % (i, ty), sp.getActuatorLoc, i, ty)
        call('sp.getJointAnglesFromNorm', sp.getJointAnglesFromNorm)


if __name__ == '__main__':
    main()
