"""C03 — a transform object's matrix and six-vector always describe the same pose."""
import os, sys, random, math, itertools, time, json
import multiprocessing as mp
import numpy as np
import common as C
import gen as G
import tmh

PROP = 'C03'
LEAN_MODULES = ['BR.Props.C03', 'BR.Props.C03Band']
THEOREMS = ['BR.C03.ofTAA_coherent', 'BR.C03.ofTAA_wf', 'BR.C03.ofTM_coherent', 'BR.C03.result_ok', 'BR.C03.step_ok',
            'BR.C03.history_coherent', 'BR.C03.history_from_empty', 'BR.C03.write_tm_read_taa',
            'BR.Rot.exp3_log3', 'BR.Rot.exp3_isRot', 'BR.Rot.isRot_mul', 'BR.Rot.quatToRot_isRot', 'BR.Rot.hat_vee_log3',
            'BR.C03B.rod_sub_one_entry_bound', 'BR.C03B.band_roundtrip_bound']
TIE = ('K: hand-written model lean/BR/Model/Tm.lean of class tm (constructors, setters, operators, frame helpers); every run replays the same operation '
       'histories on real tm objects and on the Float instance of the model (compiled driver) and compares gTM()/gTAA() of the affected object after every step; '
       'the coherence predicate itself is evaluated on the real objects after every step (falsifier).')
TRUSTED = ['Lean 4.33 kernel + Mathlib v4.33 (axioms: propext, Classical.choice, Quot.sound)',
           'harness/tmh.py, harness/c03.py (op interpreter for the real class, generators, tolerances)',
           'modelled, not verified: scipy Rotation.from_quat (modelled as normalise + standard quaternion formula and compared), np.linalg.lstsq in tm//tm (modelled as A·inv(B))',
           'theorems over ℝ: rounding outside; the history theorem carries the side condition that no matrix handed to TMtoTAA has rotation angle strictly inside (0,1e-6) — inside the band coherence holds only to 1e-6, which the falsifier measures against the 5e-6 allowance']
ASSUMPTIONS = ['objects built from valid poses (finite, rigid matrices, non-zero quaternions)']
RULE = ('operation histories over the property alphabet; exhaustive over a fixed list of concrete ops (palette angles 0, 1e-7, 1, pi-1e-3, +-(2pi+0.5)) up to a fixed length from several start pairs, '
        'then random histories up to length 12; distinct = distinct histories; non-trivial = at least one op goes through TMtoTAA or changes a rotation entry')
SAMPLED = ['coherence inside the 1e-6 cut-off band along a whole history (the one-step bound |R - exp(log R)| <= theta + theta^2/2 is a theorem; its propagation through histories is measured on the implementation)']

PAL = [0.0, 1e-7, 1.0, math.pi - 1e-3, 2 * math.pi + 0.5]


def rotT(axis_idx, a, p=(0.0, 0.0, 0.0)):
    w = [0.0, 0.0, 0.0]; w[axis_idx] = a
    T = np.eye(4); T[:3, :3] = G.rot_ref(w); T[:3, 3] = p
    return T


def quat(axis_idx, a):
    q = [0.0, 0.0, 0.0, math.cos(a / 2)]
    q[axis_idx] = math.sin(a / 2)
    return q


def atomic_ops():
    ops = []
    for a in PAL:
        ops.append(('ctor6', 0, [1.0, 0.0, -2.5, a, 0.0, 0.0]))
        ops.append(('set', 0, 4, a))
        ops.append(('ctorTM', rotT(1, a, (0.5, 0, 1))))
        ops.append(('sTM', 0, rotT(2, a, (0, 1, 0))))
        ops.append(('setRot', 1, [0.0, a, 0.0], 0))
    ops += [('ctor6a', 1, [0.0, 1.0, 0.0, 1.0, math.pi - 1e-3, 1e-7]), ('ctor3', 1, [1e-7, 1.0, 2 * math.pi + 0.5]), ('ctor3a', 0, [0.0, math.pi - 1e-3, 0.0]),
            ('ctor7', [1.0, 2.0, 3.0] + quat(2, 1.0)), ('ctor7a', [0.0, 0.0, 1.0] + quat(0, math.pi - 1e-3)), ('ctor7', [0.0, 0.0, 0.0] + quat(1, 1e-7)),
            ('ctorCopy', 0), ('ctorCopyArr', 1), ('sTAA', 0, [0.0, 1.0, 2.0, 1e-7, 0.0, 1.0]), ('sTAA', 1, [1.0, 0.0, 0.0, 0.0, 2 * math.pi + 0.5, 0.0]),
            ('sTAA', 0, [0.0, 0.0, 1.0, -(2 * math.pi + 0.5), 1.0, 0.0]), ('ctor6', 0, [1.0, 0.0, 0.0, 0.3, -(2 * math.pi + 0.5), -1.0]), ('set', 1, 5, -(2 * math.pi + 0.5)),
            ('setitem', 1, 5, 1.0), ('set', 0, 0, 1.5), ('setPos', 0, [1.0, -1.0, 0.5], 1), ('setPos', 1, [0.0, 2.0, 0.0], 0), ('setRot', 0, [1.0, 1.0, 0.0], 1),
            ('setQuat', 0, quat(0, 1.0)), ('setQuat', 1, [0.5, -0.5, 0.5, 0.5]), ('setQuat', 1, [0.0, 0.0, 2.0 * math.sin(5e-8), 2.0 * math.cos(5e-8)]),
            ('angleMod', 0), ('angleMod', 1), ('copy', 0), ('inv', 0), ('inv', 1), ('matmul', 0, 1), ('matmul', 1, 0), ('matmul', 1, 1),
            ('add', 0, 1), ('add', 1, 1), ('sub', 0, 1), ('sub', 1, 0), ('mulS', 0, 2.0), ('rmulS', 1, -1.0), ('mulS', 1, 0.5), ('divS', 0, 2.0), ('divS', 1, -4.0),
            ('abs', 0), ('abs', 1), ('floordivS', 0, 0.5), ('floordivS', 1, 2.0), ('floordiv', 0, 1), ('floordiv', 1, 0), ('l2g', 0, 1), ('l2g', 1, 0), ('g2l', 0, 1), ('g2l', 1, 0)]
    return ops


STARTS = [[('ctor6', 0, [1.0, 2.0, 3.0, 0.0, 0.0, 1.0]), ('ctor6', 0, [0.0, -1.0, 0.5, 0.0, 2 * math.pi + 0.5, 0.0])],
          [('ctor6', 0, [0.0, 0.0, 0.0, 1e-7, 0.0, 0.0]), ('ctor6', 0, [1.0, 0.0, 0.0, math.pi - 1e-3, 0.0, 0.0])],
          [('ctor6', 1, [1.0, 1.0, 1.0, 1.0, 1.0, 1.0]), ('ctor6', 0, [0.0, 0.0, 2.0, -0.4, 0.3, 2.0])],
          [('ctor6', 0, [0.0, 1.0, 0.0, -(2 * math.pi + 0.5), 1.0, 0.0]), ('ctor6', 0, [1.0, 0.0, 0.0, 0.2, -0.1, -(2 * math.pi + 0.25)])]]


def rand_op(rnd, n):
    i = rnd.randrange(n); j = rnd.randrange(n)
    a = lambda: rnd.choice(PAL + [rnd.uniform(-3, 3), rnd.uniform(0, 7), rnd.uniform(-7, -6.3), -(2 * math.pi + 0.5)])
    p = lambda: [rnd.choice([0.0, 1.0, -2.5, rnd.uniform(-10, 10)]) for _ in range(3)]
    rv = lambda: list(G.axis(rnd) * a())
    k = rnd.choice(['ctor6', 'ctor6a', 'ctor6r', 'ctor3', 'ctor3r', 'ctor7', 'ctorTM', 'ctorCopy', 'sTM', 'sTAA', 'set', 'setitem', 'setPos', 'setRot', 'setQuat',
                    'angleMod', 'copy', 'inv', 'matmul', 'matmul', 'add', 'sub', 'mulS', 'divS', 'abs', 'floordivS', 'floordiv', 'l2g', 'g2l'])
    if k in ('ctor6', 'ctor6a'): return (k, 0, p() + rv())
    if k == 'ctor6r': return ('ctor6', 1, p() + [a(), a(), a()])
    if k == 'ctor3': return (rnd.choice(['ctor3', 'ctor3a']), 0, rv())
    if k == 'ctor3r': return ('ctor3', 1, [a(), a(), a()])
    if k == 'ctor7':
        q = [rnd.gauss(0, 1) for _ in range(4)]
        return (rnd.choice(['ctor7', 'ctor7a']), p() + q)
    if k == 'ctorTM': return ('ctorTM', rotT(rnd.randrange(3), a(), p()))
    if k == 'ctorCopy': return (rnd.choice(['ctorCopy', 'ctorCopyArr']), i)
    if k == 'sTM':
        T = np.eye(4); T[:3, :3] = G.rot_ref(rv()); T[:3, 3] = p(); return ('sTM', i, T)
    if k == 'sTAA': return ('sTAA', i, p() + rv())
    if k in ('set', 'setitem'): return (k, i, rnd.randrange(6), a())
    if k == 'setPos': return ('setPos', i, p(), rnd.randrange(2))
    if k == 'setRot': return ('setRot', i, rv(), rnd.randrange(2))
    if k == 'setQuat': return ('setQuat', i, [rnd.gauss(0, 1) for _ in range(4)])
    if k in ('angleMod', 'copy', 'inv', 'abs'): return (k, i)
    if k in ('matmul', 'add', 'sub', 'floordiv', 'l2g', 'g2l'): return (k, i, j)
    if k == 'mulS': return (rnd.choice(['mulS', 'rmulS']), i, rnd.choice([2.0, -1.0, 0.5, 3.7]))
    if k == 'divS': return ('divS', i, rnd.choice([2.0, -4.0, 0.5]))
    return ('floordivS', i, rnd.choice([2.0, 0.5, 1.0]))


FRAME_BREAKS = []


def run_history(ops):
    """returns (driver lines, [(idx, TM, TAA)], first coherence violation (step, text) or None, exception or None)"""
    st = tmh.Store()
    lines, states, viol = ['tm.reset'], [None], None
    prev = {}
    for n, op in enumerate(ops):
        ill = False
        try:
            ill = log_input_near_pi(st, op)
        except Exception:
            pass
        try:
            line, idx = st.apply(op)
        except Exception as e:
            return lines, states, viol, (n, '%s: %s' % (type(e).__name__, e))
        TM, TAA = st.state(idx)
        lines.append('tm.op ' + line)
        states.append((idx, TM, TAA, ill))
        if viol is None:
            e = tmh.coherence_error(TM, TAA)
            if e:
                viol = (n, e)
        # every OTHER object of the store: the model says an operation changes its target only, so a bystander whose matrix or
        # six-vector changed is a broken frame condition, and it must still be coherent (the property is about every object)
        for j in range(len(st.objs)):
            try:
                TMj, TAAj = st.state(j)
            except Exception:
                continue
            b = TMj.tobytes() + TAAj.tobytes()
            if j != idx and j in prev and prev[j] != b:
                FRAME_BREAKS.append((n, j, op[0]))
                if viol is None:
                    e = tmh.coherence_error(TMj, TAAj)
                    if e:
                        viol = (n, 'bystander object %d: %s' % (j, e))
            prev[j] = b
    return lines, states, viol, None


def _ang(R):
    return math.acos(max(-1.0, min(1.0, (np.trace(R) - 1) / 2)))


def log_input_near_pi(st, op):
    """is the matrix this op hands to MatrixLog3 within 1e-4 of a half turn (where the logarithm is ill-conditioned / known-defective)?"""
    k = op[0]
    R = lambda i: st.objs[i].gTM()[:3, :3]
    if k == 'floordivS':     # floor is discontinuous: a rounding-level difference flips it next to an integer quotient
        q = st.objs[op[1]].gTAA().reshape(-1) / float(op[2])
        d = np.abs(q - np.round(q))
        return bool(np.any((d > 0) & (d < 1e-9)))
    if k == 'angleMod':      # same for the > 2*pi test and the modulo
        q = np.abs(st.objs[op[1]].gTAA().reshape(-1)[3:])
        return bool(np.any(np.abs(q - 2 * math.pi) < 1e-9))
    if k == 'matmul': M = R(op[1]) @ R(op[2])
    elif k == 'l2g': M = R(op[1]) @ R(op[2])
    elif k == 'g2l': M = R(op[1]).T @ R(op[2])
    elif k == 'floordiv': M = R(op[1]) @ R(op[2]).T
    elif k in ('inv', 'ctorCopyArr'): M = R(op[1])
    elif k in ('sTM',): M = np.asarray(op[2])[:3, :3]
    elif k == 'ctorTM': M = np.asarray(op[1])[:3, :3]
    elif k in ('ctor6', 'ctor6a', 'ctor3', 'ctor3a') and op[1]:
        v = op[2][-3:]
        M = G.rot_ref([v[0], 0, 0]) @ G.rot_ref([0, v[1], 0]) @ G.rot_ref([0, 0, v[2]])
    elif k in ('setQuat', 'ctor7', 'ctor7a'):
        q = np.array(op[-1][-4:], dtype=float); q = q / np.linalg.norm(q)
        return 2 * math.acos(min(1.0, abs(q[3]))) > math.pi - 1e-4
    else:
        return False
    return _ang(M) > math.pi - 1e-4


def near_branch(TM):
    """model and implementation may legitimately take different sides of a branch only within rounding of a threshold"""
    R = TM[:3, :3]
    c = (np.trace(R) - 1) / 2
    ang = math.acos(max(-1.0, min(1.0, c)))
    return abs(ang - 1e-6) < 1e-9 or ang > math.pi - 1e-4


def _worker(hists):
    out = {'mism': [], 'viol': [], 'exc': [], 'lines': 0, 'nontrivial': 0, 'skipped_illcond': 0}
    all_lines, index = [], []
    results = []
    for h in hists:
        del FRAME_BREAKS[:]
        lines, states, viol, exc = run_history(h)
        if FRAME_BREAKS and len(out['mism']) < 5:
            n, j, kind = FRAME_BREAKS[0]
            out['mism'].append({'frame_condition': 'operation %s (step %d) changed object %d, which is not its target; the model changes the target only' % (kind, n, j),
                                'history': [repr(o)[:120] for o in h[:n + 1]]})
        results.append((h, lines, states, viol, exc))
        index.append((len(all_lines), len(lines)))
        all_lines += lines
    try:
        model = C.Driver().batch(all_lines)
    except Exception as e:
        out['mism'].append({'driver': str(e)[:300]})
        model = None
    for (h, lines, states, viol, exc), (off, n) in zip(results, index):
        out['lines'] += n
        if any(op[0] in ('ctorTM', 'sTM', 'ctor7', 'ctor7a', 'setQuat', 'inv', 'matmul', 'floordiv', 'l2g', 'g2l') for op in h):
            out['nontrivial'] += 1
        if exc and len(out['exc']) < 5:
            out['exc'].append((h, exc))
        if viol and len(out['viol']) < 5:
            out['viol'].append((h, viol))
        if model is None:
            continue
        loose = 0.0       # accumulated conditioning allowance of this history
        for k in range(1, n):
            rep = model[off + k]
            if rep == 'bad-op':
                out['mism'].append({'request': lines[k], 'model': 'bad-op'}); break
            idx, TM, TAA = tmh.parse_reply(rep)
            i2, TM2, TAA2, ill = states[k]
            if ill:
                out['skipped_illcond'] += 1
                break
            # the logarithm amplifies a rounding difference d in the matrix by about 1/(pi - angle)^2
            Rm = TM2[:3, :3]
            ang = math.acos(max(-1.0, min(1.0, (np.trace(Rm) - 1) / 2)))
            amp = 1.0 / max(1e-8, (math.pi - ang)) ** 2
            # ... and every later operation carries the difference on, scaled by the size of the operands
            scale = max(1.0, float(np.max(np.abs(TM2))))
            loose = min(1e-4, loose * 2.0 * scale + 1e-13 * amp)
            ok = idx == i2 and G.close(TM, TM2, 1e-9 + loose, 1e-9) and G.close(TAA, TAA2, 1e-9 + loose, 1e-9)
            if not ok:
                if near_branch(TM2) or near_branch(TM):
                    out['skipped_illcond'] += 1
                    break
                if len(out['mism']) < 5:
                    out['mism'].append({'history': [repr(o)[:120] for o in h[:k]], 'request': lines[k][:60], 'model_TAA': TAA.reshape(-1).tolist(),
                                        'impl_TAA': TAA2.reshape(-1).tolist(), 'dTM': G.maxdiff(TM, TM2)})
                break
    return out


def jsonable(op):
    return [x.tolist() if isinstance(x, np.ndarray) else x for x in op]


def shrink(h, pred):
    changed = True
    while changed:
        changed = False
        for i in range(len(h) - 1, -1, -1):
            cand = h[:i] + h[i + 1:]
            try:
                if pred(cand):
                    h = cand; changed = True; break
            except Exception:
                pass
    return h


def has_violation(h):
    _, _, viol, exc = run_history(h)
    return viol is not None


def replay(data):
    h = [tuple(np.array(x) if isinstance(x, list) and x and isinstance(x[0], list) else x for x in op) for op in data['input']['history']]
    _, _, viol, exc = run_history(h)
    print('history:', data['input']['history'])
    print('observed:', viol or exc or 'coherent after every step')
    return viol is None and exc is None


def run(res, tier, seed, driver_ok):
    rnd = random.Random(seed * 7919 + 3)
    thorough = tier == 'thorough'
    A = atomic_ops()
    hists = []
    depth = 2
    for st in (STARTS if thorough else STARTS[:2]):
        for d in range(1, depth + 1):
            for seq in itertools.product(A, repeat=d):
                hists.append(list(st) + list(seq))
    if thorough:   # length 3 over a reduced alphabet
        B = [o for o in A if o[0] in ('sTM', 'set', 'setQuat', 'angleMod', 'inv', 'matmul', 'add', 'sub', 'mulS', 'abs', 'floordiv', 'l2g', 'g2l', 'setRot')]
        B = B[::2]
        for seq in itertools.product(B, repeat=3):
            hists.append(list(STARTS[0]) + list(seq))
    n_exh = len(hists)
    for _ in range(20000 if thorough else 1200):
        st = [('ctor6', 0, [rnd.uniform(-5, 5) for _ in range(3)] + list(G.rotvec(rnd)[0])) for _ in range(2)]
        h = list(st)
        for _ in range(rnd.randint(1, 12)):
            h.append(rand_op(rnd, len([o for o in h if o[0].startswith('ctor') or o[0] in ('copy', 'inv', 'matmul', 'add', 'sub', 'mulS', 'rmulS', 'divS', 'abs', 'floordivS', 'floordiv', 'l2g', 'g2l')])))
        hists.append(h)
    nproc = min(16, os.cpu_count() or 1)
    chunk = (len(hists) + nproc * 3 - 1) // (nproc * 3)
    parts = [hists[i:i + chunk] for i in range(0, len(hists), chunk)]
    if driver_ok:
        with mp.Pool(nproc) as pool:
            outs = pool.map(_worker, parts)
    else:
        outs = [_worker(p) for p in parts[:2]]
    tot_lines = nontrivial = skipped = 0
    for o in outs:
        tot_lines += o['lines']; nontrivial += o['nontrivial']; skipped += o['skipped_illcond']
        for m in o['mism']:
            if len(res.mismatches) < 10:
                res.mismatches.append(m)
        for h, (n, text) in o['viol'][:2]:
            hh = shrink(h[:n + 1], has_violation)
            _, _, v2, _ = run_history(hh)
            kinds = sorted(set(op[0] for op in hh))
            # classify: is the incoherent object's rotation within 1e-4 of a half turn (the MatrixLog3 precision loss of C01)?
            cls = 'generic'
            try:
                _, sts, _, _ = run_history(hh)
                Rm = sts[-1][1][:3, :3]
                if _ang(Rm) > math.pi - 1e-4 or sts[-1][3]:
                    cls = 'near_pi_log'
            except Exception:
                pass
            res.violations.append({'key': 'coherence:%s:%s:%s' % (cls, '+'.join(kinds) if cls == 'generic' else '*', (v2 or (0, text))[1].split(' by ')[0]),
                                   'input': {'history': [jsonable(op) for op in hh]}, 'observed': (v2 or (n, text))[1],
                                   'what': 'tm object whose 4x4 and six-vector describe different poses (or is not in SE(3))'})
        for h, (n, text) in o['exc'][:2]:
            res.violations.append({'key': 'raises:%s:%s' % (h[n][0], text.split(':')[0]), 'input': {'history': [jsonable(op) for op in h[:n + 1]]},
                                   'observed': text, 'what': 'operation of the alphabet raised on valid poses'})
    res.evaluations = len(hists)
    res.distinct = set(range(nontrivial))
    res.stats.update({'histories': len(hists), 'exhaustive': n_exh, 'random': len(hists) - n_exh, 'atomic_ops': len(A),
                      'steps_compared_with_model': tot_lines, 'skipped_ill_conditioned': skipped, 'nontrivial_histories': nontrivial})
    res.sample({'history': [jsonable(op) for op in hists[n_exh - 1]]})
    res.sample({'history': [repr(jsonable(op))[:100] for op in hists[-1]]})
