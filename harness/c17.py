"""C17 — compiled kernels never index out of bounds and match their interpreted source."""
import os, sys, random, math, io, contextlib, warnings, json, subprocess, tempfile, time
import numpy as np
import common as C
import gen as G
import mrargs

PROP = 'C17'
LEAN_MODULES = ['BR.Gen.C17']
THEOREMS = []          # filled by generate(): one generated theorem per subscript of every kernel
TIE = ('translate/gen_c17.py reads the two JIT modules on every run and regenerates lean/BR/Gen/C17.lean: one theorem per integer subscript / constant slice of every @jit kernel '
       '("the index lies within the extent"), from the documented argument shapes, the enclosing loop ranges and integer guards, and one theorem per resolvable argument of every kernel call in arm_model.py / sp_model.py '
       '("the slice stays inside its parent and the extents the kernel relates are equal at this call"), each closed by omega. '
       'The documented argument and return shapes are checked against the shapes of the inputs really passed and the values really returned. '
       'Every kernel is also run compiled and interpreted (py_func) on C-ordered, Fortran-ordered, sliced and integer-typed arguments, and the whole public surface is run once with NUMBA_BOUNDSCHECK=1 and once without in sub-processes.')
TRUSTED = ['Lean 4.33 kernel (axioms: propext, Classical.choice, Quot.sound at most; omega)', 'translate/gen_c17.py (AST reader, shape inference for local arrays, table of documented argument/return shapes, one declared loop invariant)',
           'numba itself: that an in-bounds index expression is compiled to an in-bounds access; that NUMBA_BOUNDSCHECK=1 reports every out-of-range scalar index',
           'call-site theorems cover the calls whose arguments are slices of documented state (screw tables, joint vectors, plate joint tables, .TM / .gTM()); arguments built from locals are listed as not resolved in the evidence and are covered by the bounds-checked run only',
           'value agreement compiled = interpreted is decided on the implementation (differential run), not proved']
ASSUMPTIONS = ['arguments of the documented shapes (ARG_SHAPES in translate/gen_c17.py)', 'values compared to 1e-9 relative']
RULE = ('all 47 @jit kernels x the argument generators of C01/C02/C09 x {C-ordered, Fortran-ordered, non-contiguous slice of a larger array, integer-typed vectors}; '
        'all public Arm / SP / tm entry points that reach a kernel, every link / joint / leg index, with and without NUMBA_BOUNDSCHECK=1; distinct = distinct (kernel, layout); non-trivial = kernel with at least one subscript')
SAMPLED = ['compiled = interpreted values (differential)', 'public entry points under NUMBA_BOUNDSCHECK=1 (call sites are not modelled)']


def generate():
    import gen_c17
    info = gen_c17.generate()
    THEOREMS[:] = ['BR.Gen.C17.' + n for n in info.pop('names')]
    info['generated_theorems'] = info.pop('generated_obligations')
    info['generated_obligations'] = 0          # they are counted through THEOREMS
    return info


def unify(shape, doc, binding):
    if len(shape) != len(doc):
        return False
    for s, d in zip(shape, doc):
        if isinstance(d, int):
            if s != d:
                return False
        else:
            if binding.setdefault(d, s) != s:
                return False
    return True


def variants(args, rnd):
    """(layout name, args) for the layouts of the property"""
    def conv(f):
        return tuple(f(a) if isinstance(a, np.ndarray) else a for a in args)
    yield 'C', conv(lambda a: np.ascontiguousarray(a.copy()))
    if any(isinstance(a, np.ndarray) and a.ndim == 2 for a in args):
        yield 'F', conv(lambda a: np.asfortranarray(a.copy()) if a.ndim == 2 else a.copy())

    def sl(a):
        if a.ndim == 1:
            big = np.full(2 * a.shape[0] + 3, 7.25, dtype=a.dtype); v = big[1:1 + 2 * a.shape[0]:2]; v[...] = a; return v
        if a.ndim == 2:
            big = np.full((a.shape[0] + 3, a.shape[1] + 4), 7.25, dtype=a.dtype); v = big[1:1 + a.shape[0], 2:2 + a.shape[1]]; v[...] = a; return v
        return a.copy()
    yield 'sliced', conv(sl)
    if any(isinstance(a, np.ndarray) and a.ndim == 1 and a.dtype.kind == 'f' for a in args):
        def it(a):
            if a.ndim == 1 and a.dtype.kind == 'f':
                r = np.round(a * 2).astype(np.int64)
                if not r.any():
                    r[0] = 1
                return r
            return a.copy()
        yield 'int', conv(it)


def flat(x):
    if isinstance(x, (tuple, list)):
        out = []
        for y in x:
            out += flat(y)
        return out
    if isinstance(x, np.ndarray):
        return [float(v) for v in x.astype(float).reshape(-1)]
    if isinstance(x, (bool, np.bool_)):
        return [1.0 if x else 0.0]
    return [float(x)]


def run(res, tier, seed, driver_ok):
    warnings.filterwarnings('ignore')
    rnd = random.Random(seed * 7919 + 17)
    thorough = tier == 'thorough'
    import gen_c17
    import basic_robotics.modern_robotics_numba.modern_high_performance as mhp
    import basic_robotics.general.faser_high_performance as fhp
    import sph
    stats = {'kernels': 0, 'kernel_layout_pairs': 0, 'rejected_layouts': 0, 'shape_table_checks': 0, 'boundscheck_calls': 0, 'layouts': {}}
    accepted_pairs, rejected_pairs = set(), {}

    def bad(key, what, inp, obs):
        if len(res.violations) < 40:
            res.violations.append({'key': key, 'what': what, 'input': inp, 'observed': obs})

    kernels = {}
    for mod in (mhp, fhp):
        for name in dir(mod):
            f = getattr(mod, name)
            if hasattr(f, 'py_func') and getattr(f.py_func, '__module__', None) == mod.__name__:
                kernels[name] = f
    stats['kernels'] = len(kernels)
    missing = sorted(set(kernels) - set(gen_c17.ARG_SHAPES))
    if missing:
        res.mismatches.append({'what': 'kernels without documented argument shapes', 'kernels': missing})

    # the documented shapes of the state the call sites slice, on real objects
    import armh
    with contextlib.redirect_stdout(io.StringIO()):
        arm_, spec_ = armh.build(rnd, 'six_r', [0.1, 0.2, 0.3, 0.1, 0.0, 0.2])
        sp_, g_ = sph.build(rnd)
    real = {'self.screw_list': arm_.screw_list, 'self.screw_list_body': arm_.screw_list_body, 'self.joint_mins': arm_.joint_mins, 'self.joint_maxs': arm_.joint_maxs,
            'theta': arm_._theta, 'self._bottom_joints_local': sp_._bottom_joints_local, 'self._top_joints_local': sp_._top_joints_local,
            'self._bottom_joints_space': sp_._bottom_joints_space, 'self._top_joints_space': sp_._top_joints_space,
            'self._bottom_joints_init': sp_._bottom_joints_init, 'self._top_joints_init': sp_._top_joints_init,
            'self.TAA': arm_.getEEPos().TAA, 'self.TM': arm_.getEEPos().TM}
    bnd = {'n': arm_.num_dof}
    for k_, v_ in real.items():
        stats['shape_table_checks'] += 1
        if not unify(np.asarray(v_).shape if np.asarray(v_).ndim != 2 or k_ not in ('theta',) else (np.asarray(v_).size,), gen_c17.SITE_SHAPES[k_], bnd):
            res.mismatches.append({'what': 'documented call-site shape differs from the real object', 'attribute': k_, 'shape': list(np.asarray(v_).shape), 'documented': list(gen_c17.SITE_SHAPES[k_])})

    reps = 6 if thorough else 1
    for rep in range(reps):
        calls = []
        for name, args, kind in mrargs.cases(rnd):
            if name not in kernels:
                continue
            args = mrargs.deep_copy_args(args)
            if kind == 'ik':
                Sx, Mx, thg, th0, eo, ev = args
                goal = (mhp.FKinSpace if name == 'IKinSpace' else mhp.FKinBody)(Mx, Sx, thg)
                args = (Sx, Mx, goal, th0, eo, ev) + ((20,) if name == 'IKinSpace' else ())
            calls.append((name, args))
        v3 = np.array([rnd.uniform(-2, 2) for _ in range(3)]); v6 = np.array([rnd.uniform(-2, 2) for _ in range(6)])
        A = np.array([[rnd.uniform(-2, 2) for _ in range(4)] for _ in range(4)])
        p1 = np.array([rnd.uniform(-2, 2) for _ in range(3)] + [rnd.uniform(-1, 1) for _ in range(3)]); p2 = p1[::-1].copy()
        calls += [('Norm', (v3,)), ('Norm6', (v6,)), ('AngleMod', (np.array([rnd.uniform(-9, 9) for _ in range(5)]),)), ('SafeTrace', (A,)), ('SafeCopy', (A[:3].copy(),)),
                  ('LocalToGlobal', (p1, p2)), ('GlobalToLocal', (p1, p2))]
        n, S, M = mrargs.chain(rnd, rnd.randint(2, 6), revolute_only=True)
        thg = np.array([rnd.uniform(-1.5, 1.5) for _ in range(n)])
        goal = mhp.FKinSpace(M, S, thg)
        calls.append(('IKinSpaceConstrained', (S, M, goal, thg + 0.05, 1e-3, 1e-2, np.full(n, -2.0), np.full(n, 2.0), 30)))
        calls.append(('TrVec', (M, v3)))
        with contextlib.redirect_stdout(io.StringIO()):
            sp, g = sph.build(rnd)
        bj, tj = sph.local_joints(sp)
        Tb = sp.getBottomT().gTM(); Tt = Tb @ sph.T6(sph.rel_pose(rnd, sp._nominal_height, 0.6))
        calls.append(('SPIKinSpace', (Tb, Tt, bj, tj, np.zeros((3, 6)), np.zeros((3, 6)))))
        L = sph.lengths_ref(bj, tj, Tb, Tt)
        calls.append(('SPFKinSpaceR', (L, np.array([0, 0, sp._nominal_height, 0, 0, 0.0]), np.ascontiguousarray(bj.T), np.ascontiguousarray(tj.T), 100, 5e-6, 5e-6, sp.leg_ext_min)))
        for name, args in calls:
            f = kernels[name]
            doc = gen_c17.ARG_SHAPES.get(name, {})
            # the documented shapes really describe the valid inputs
            argnames = list(f.py_func.__code__.co_varnames[:f.py_func.__code__.co_argcount])
            binding = {}
            for an, a in zip(argnames, args):
                if an in doc and isinstance(a, np.ndarray):
                    stats['shape_table_checks'] += 1
                    shp = a.shape if not (len(doc[an]) == 1 and a.ndim == 2 and 1 in a.shape) else (a.size,)
                    if not unify(shp, doc[an], binding):
                        res.mismatches.append({'what': 'documented argument shape does not describe the valid input', 'kernel': name, 'argument': an, 'shape': list(a.shape), 'documented': list(doc[an])})
            for lay, va in variants(args, rnd):
                res.evaluations += 1
                stats['layouts'][lay] = stats['layouts'].get(lay, 0) + 1
                inp = {'kernel': name, 'layout': lay, 'args': [a.tolist() if isinstance(a, np.ndarray) else a for a in args], 'seed': seed}
                a1 = tuple(a.copy(order='K') if isinstance(a, np.ndarray) and lay != 'sliced' else a for a in va)
                # a sliced view must stay a view: rebuild instead of copying
                if lay == 'sliced':
                    a1 = next(v for l, v in variants(args, rnd) if l == 'sliced')
                    a2 = next(v for l, v in variants(args, rnd) if l == 'sliced')
                else:
                    a2 = tuple(a.copy(order='K') if isinstance(a, np.ndarray) else a for a in va)
                try:
                    with contextlib.redirect_stdout(io.StringIO()):
                        want = f.py_func(*a2)
                except Exception as e:
                    continue          # not an argument the source accepts
                try:
                    with contextlib.redirect_stdout(io.StringIO()):
                        got = f(*a1)
                except Exception as e:
                    if 'Typing' in type(e).__name__ or 'TypeError' in type(e).__name__ or 'No matching definition' in str(e):
                        stats['rejected_layouts'] += 1
                        rejected_pairs.setdefault((name, lay), (inp, repr(e)[:300]))
                        continue
                    bad('compiled-raises:%s:%s:%s' % (name, lay, type(e).__name__), 'the compiled kernel raised where the interpreted source returns', inp, repr(e)[:200]); continue
                stats['kernel_layout_pairs'] += 1
                accepted_pairs.add((name, lay))
                res.distinct.add((name, lay))
                fg, fw = np.array(flat(got)), np.array(flat(want))
                if name in ('IKinSpace', 'IKinBody', 'IKinSpaceConstrained') and fg.shape == fw.shape and fg.size and fg[-1] == 0.0 and fw[-1] == 0.0:
                    # both runs used up the iteration budget without converging: a non-convergent Newton iteration amplifies the rounding
                    # difference between the two executions without bound — only the verdict is comparable
                    stats['ik_not_converged_verdict_only'] = stats.get('ik_not_converged_verdict_only', 0) + 1
                    continue
                if fg.shape != fw.shape or not np.allclose(fg, fw, rtol=1e-9, atol=1e-9, equal_nan=True):
                    bad('compiled-differs:%s:%s' % (name, lay), 'compiled and interpreted execution of the same source return different values', inp,
                        {'compiled': fg.tolist()[:12], 'interpreted': fw.tolist()[:12]})
                # returned shapes as documented
                r = gen_c17.RET_SHAPES.get(name)
                if lay == 'C' and isinstance(r, tuple) and r[:1] != ('tuple',) and isinstance(got, np.ndarray):
                    stats['shape_table_checks'] += 1
                    if not unify(got.shape, r, dict(binding)):
                        res.mismatches.append({'what': 'documented return shape differs from the shape returned', 'kernel': name, 'shape': list(got.shape), 'documented': list(r)})
    # a (kernel, layout) pair the compiled kernel accepted on the reference tree (harness/c17_layouts.json, written once from the unchanged
    # tree over several seeds) and now rejects with a typing error, while the interpreted source still returns: compiled != interpreted
    lay_file = os.path.join(os.path.dirname(os.path.abspath(__file__)), 'c17_layouts.json')
    if os.environ.get('C17_WRITE_LAYOUTS') == '1':
        old_ = set(map(tuple, json.load(open(lay_file))['accepted'])) if os.path.exists(lay_file) else set()
        json.dump({'accepted': sorted(map(list, old_ | accepted_pairs))}, open(lay_file, 'w'), indent=0)
    elif os.path.exists(lay_file):
        base_ = set(map(tuple, json.load(open(lay_file))['accepted']))
        for pair in sorted(base_ & set(rejected_pairs) - accepted_pairs):
            inp_, err_ = rejected_pairs[pair]
            bad('layout-no-longer-accepted:%s:%s' % pair, 'the compiled kernel rejects an argument layout it accepts on the reference tree, while the interpreted source returns', inp_, err_)
        stats['accepted_layout_pairs_on_reference_tree'] = len(base_)
    # bounds-checked run of the public surface against the plain run (sub-processes: the flag is read at import)
    worker = os.path.join(os.path.dirname(os.path.abspath(__file__)), 'c17_worker.py')
    wreps = 9 if thorough else 3
    outs = {}
    procs = []
    for flag in ('0', '1'):
        cache = os.path.join(os.environ['NUMBA_CACHE_DIR'], 'bc' + flag)
        os.makedirs(cache, exist_ok=True)
        fd, path = tempfile.mkstemp(suffix='.json', dir=os.path.join(C.VERIF, '.cache'))
        os.close(fd)
        env = dict(os.environ, NUMBA_BOUNDSCHECK=flag, NUMBA_CACHE_DIR=cache)
        procs.append((flag, path, subprocess.Popen(['/venv/bin/python', worker, str(seed), str(wreps), path], env=env, stdout=subprocess.PIPE, stderr=subprocess.STDOUT, text=True)))
    for flag, path, p in procs:
        out, _ = p.communicate(timeout=3000)
        try:
            outs[flag] = json.load(open(path))['results']
        except Exception:
            raise RuntimeError('bounds-check worker (flag %s) failed: %s' % (flag, out[-400:]))
        finally:
            if os.path.exists(path):
                os.remove(path)
    a, b = outs['0'], outs['1']
    stats['boundscheck_calls'] = len(b)
    for flag, rs in (('0', a), ('1', b)):
        if rs and rs[-1][0] == 'worker-setup':
            w = rs.pop()
            if 'IndexError' in w[1]:
                bad('index-error:setup', 'IndexError %s while preparing the operands of the public calls' % ('with array bounds checking switched on' if flag == '1' else ''),
                    {'seed': seed, 'worker_repetitions': wreps, 'boundscheck': flag, 'after_call_number': len(rs)}, w[1])
            else:
                bad('raises:setup', 'an operation on valid inputs raised while preparing the operands of the public calls', {'seed': seed, 'boundscheck': flag, 'after_call_number': len(rs)}, w[1])
            n_ = min(len(a), len(b)); a, b = a[:n_], b[:n_]
    if len(a) != len(b):
        res.mismatches.append({'what': 'the two worker runs made a different number of calls', 'plain': len(a), 'checked': len(b)})
    for x, y in zip(a, b):
        res.evaluations += 1
        inp = {'call': y[0], 'seed': seed, 'worker_repetitions': wreps}
        if isinstance(y[1], str):
            if 'IndexError' in y[1]:
                bad('index-error:%s' % y[0].split('[')[0], 'IndexError with array bounds checking switched on', inp, y[1])
            elif not isinstance(x[1], str):
                bad('boundscheck-raises:%s' % y[0].split('[')[0], 'a call fails only with bounds checking on', inp, y[1])
            else:
                bad('raises:%s' % y[0].split('[')[0], 'a public entry point raised on a valid input', inp, y[1])
        elif isinstance(x[1], str):
            bad('raises:%s' % x[0].split('[')[0], 'a public entry point raised on a valid input', inp, x[1])
        elif len(x[1]) != len(y[1]) or (len(x[1]) and not np.allclose(np.array(x[1]), np.array(y[1]), rtol=1e-10, atol=1e-10, equal_nan=True)):
            bad('boundscheck-changes-result:%s' % y[0].split('[')[0], 'results differ with bounds checking on', inp, None)
    res.sample({'kernels': sorted(kernels)[:8], 'generated_theorems': len(THEOREMS)})
    res.stats.update(stats)


def replay(data):
    print('recorded:', data.get('key'), data.get('what'), str(data.get('observed'))[:300])
    return False
