"""C10 — Stewart platform state stays coherent and 'valid' means valid over any history."""
import os, sys, random, math, io, contextlib, warnings
import numpy as np
import common as C
import gen as G
import sph

PROP = 'C10'
LEAN_MODULES = ['BR.Props.C10', 'BR.Props.C10Rev']
THEOREMS = ['BR.C10.coh_ikP', 'BR.C10.op_coherent', 'BR.C10.history_coherent', 'BR.C10.validate_sound', 'BR.C10.validateDN_sound',
            'BR.C10.op_verdict_sound', 'BR.C10.inverseJacobian_restores',
            'BR.C10.fkAt_coh', 'BR.C10.fkAt_sound',
            'BR.C10R.validate_noop', 'BR.C10R.allHold_rigid', 'BR.C10R.fkReverse_sound', 'BR.C10R.fk_reverse_sound']
TIE = ('The platform is modelled as a state machine in lean/BR/Model/SP.lean (IK helper, validate chain with its corrective actions and re-validation, both FK paths, '
       'reverse FK, move, spinCustom, inverseJacobian, randomPos); the outputs of the numeric solvers (SPFKinSpaceR, scipy fsolve) are recorded from the real run and fed to the model as oracle inputs. '
       'Every random history is executed on the real SP and on the model; plates, joint positions, leg lengths, relative transform and every verdict are compared after each call. '
       'Independently of the model, coherence / constraint satisfaction / query purity are evaluated on the real object after every call.')
TRUSTED = ['Lean 4.33 kernel + Mathlib v4.33 (axioms: propext, Classical.choice, Quot.sound)',
           'harness/c10.py: solver recording by monkeypatching fmr.SPFKinSpaceR and scipy.optimize.fsolve inside the harness process (no repo hook), independent constraint formulas',
           'the pose _fixUpsideDown arrives at (mirror geometry + fsolve) is an oracle input of the model; what FK does with it, and the exception fallback of _FKRaphson, are modelled',
           'solver outputs are oracle inputs of the state machine (how SPFKinSpaceR finds them is the subject of C09)']
ASSUMPTIONS = ['geometries of C09; histories of length <= 25', 'coherence to 1e-9, constraints to the library margins (1e-4 on plate tilt)']
RULE = ('random histories over {IK in/out of workspace (far, tilted, below, short), FK in/out of range with both solvers, reverse FK, FK over a bottom pose given by the caller, move, spinCustom, validate (with and without corrective action), '
        'inverseJacobian, staticForces, carryMassCalc, randomPos, switching validation settings and solver}; distinct = distinct (geometry, history); non-trivial = at least one corrective action or solver call')
SAMPLED = []

OPS = ['ik_in', 'ik_in', 'ik_out', 'ik_out', 'fk_in', 'fk_out', 'fk_rev', 'fk_at', 'move', 'spin', 'validate', 'validate_dn', 'invjac', 'static', 'carry',
       'randompos', 'switches', 'mode']


class Recorder:
    """records the outputs of the numeric solvers the platform calls"""

    def __init__(self):
        import basic_robotics.kinematics.sp_model as M
        self.M = M
        self.items = []
        self.raised = False
        self.upside = False
        self.fmr = M.fmr
        self.orig_r = M.fmr.SPFKinSpaceR
        self.orig_f = M.sci.optimize.fsolve
        self.orig_fix = M.SP._fixUpsideDown
        self.orig_leg = M.SP._legLengthConstraint
        self.knife = False
        rec = self

        def leg(self_, *a, **k):
            # the length corrective action rescales the shortest / longest leg onto the limit itself, and the FK that follows reproduces
            # it to solver tolerance: the comparison `length < limit` that comes next is then decided by the last bit. Such a decision
            # cannot be compared between two floating-point evaluations of the same formula; the operation is flagged.
            try:
                L = np.asarray(self_.lengths, dtype=float).reshape(-1)
                if min(abs(L.min() - self_.leg_ext_min), abs(L.max() - self_.leg_ext_max)) < 1e-9:
                    rec.knife = True
            except Exception:
                pass
            return rec.orig_leg(self_, *a, **k)
        self.leg = leg

        def raph(L, attempt, b, t, mx, tf, ta, lmin):
            try:
                a, it = rec.orig_r(L, attempt, b, t, mx, tf, ta, lmin)
            except Exception:
                rec.raised = True
                rec.items.append((3, np.zeros(6), 0.0))
                raise
            rec.items.append((1, np.array(a, dtype=float).copy(), 1.0 if it == mx else 0.0))
            return a, it

        def fsolve(f, x0, *a, **k):
            x = rec.orig_f(f, x0, *a, **k)
            xv = np.array(x, dtype=float).reshape(-1)
            xv = np.concatenate([xv, np.zeros(max(0, 6 - xv.size))])[:6]      # the re-orientation solve of _fixUpsideDown has three unknowns
            rec.items.append((2, xv.copy(), 0.0))
            return x

        def fix(self_):
            rec.upside = True
            r = rec.orig_fix(self_)
            rec.items.append((4, np.asarray(self_.getTopT().gTM(), dtype=float).reshape(-1).copy(), 0.0))
            return r
        self.raph, self.fsolve, self.fix = raph, fsolve, fix

    def __enter__(self):
        self.M.fmr.SPFKinSpaceR = self.raph
        self.M.sci.optimize.fsolve = self.fsolve
        self.M.SP._fixUpsideDown = self.fix
        self.M.SP._legLengthConstraint = self.leg
        return self

    def __exit__(self, *a):
        self.M.fmr.SPFKinSpaceR = self.orig_r
        self.M.sci.optimize.fsolve = self.orig_f
        self.M.SP._fixUpsideDown = self.orig_fix
        self.M.SP._legLengthConstraint = self.orig_leg

    def take(self):
        it, self.items = self.items, []
        return it


def enc_oracle(items):
    out = [float(len(items))]
    for kind, x, flag in items:
        out += ([float(kind)] + list(x)) if kind == 4 else ([float(kind)] + list(x) + [flag])
    return out


def angle(a, b, c):
    u = a - b; v = c - b
    return math.acos(max(-1.0, min(1.0, float(u @ v) / (np.linalg.norm(u) * np.linalg.norm(v)))))


def observe(sp):
    Tb = sp.getBottomT().gTM().copy(); Tt = sp.getTopT().gTM().copy()
    bj, tj = sph.local_joints(sp)
    return (Tb, Tt, bj, tj, np.array(sp.getBottomJoints(), dtype=float).copy(), np.array(sp.getTopJoints(), dtype=float).copy(),
            np.array(sp.getLens(), dtype=float).reshape(-1).copy(), sp.getCurrentLocalTransform().gTM().copy())


def coherence(o):
    Tb, Tt, bj, tj, bs, ts, L, rel = o
    errs = {'bottom-joints': np.abs(bs - (Tb[:3, :3] @ bj + Tb[:3, 3:4])).max(),
            'top-joints': np.abs(ts - (Tt[:3, :3] @ tj + Tt[:3, 3:4])).max(),
            'lengths': np.abs(L - np.linalg.norm(ts - bs, axis=0)).max(),
            'relative-transform': np.abs(rel - np.linalg.inv(Tb) @ Tt).max()}
    out = {k: float(v) for k, v in errs.items() if not v < 1e-9}
    if 'relative-transform' in out:
        # plates rotated against each other by an angle strictly inside (0, 1e-6): the frame helper that derives the published relative transform
        # snaps such a rotation to the identity (the library's NearZero cut-off), leaving a discrepancy of at most that angle (times the lever arm)
        Rr = (np.linalg.inv(Tb) @ Tt)[:3, :3]
        ang_ = math.acos(max(-1.0, min(1.0, (np.trace(Rr) - 1) / 2)))
        ang_ = max(ang_, float(np.linalg.norm([Rr[2, 1] - Rr[1, 2], Rr[0, 2] - Rr[2, 0], Rr[1, 0] - Rr[0, 1]]) / 2))     # acos loses tiny angles
        if 0 < ang_ < 1e-6 and out['relative-transform'] <= 4 * ang_ * max(1.0, float(np.abs(Tt[:3, 3] - Tb[:3, 3]).max())):
            out['relative-transform:band'] = out.pop('relative-transform')
        else:
            # a plate pose whose own rotation angle is close to a half turn: the six-vector of that pose comes from the matrix logarithm, which loses
            # accuracy like eps / (pi - angle)^2 there (the known finding of C01), and the relative transform is computed from six-vectors
            near = min(math.pi - math.acos(max(-1.0, min(1.0, (np.trace(T_[:3, :3]) - 1) / 2))) for T_ in (Tb, Tt))
            if near < 1e-2 and out['relative-transform'] <= max(1e-7, 1e-14 / max(near, 1e-9) ** 2) * max(1.0, float(np.abs(Tt[:3, 3]).max())):
                out['relative-transform:pose-near-half-turn'] = out.pop('relative-transform')
    return out


def constraints(sp, o):
    """the enabled constraints, evaluated independently of the library, on the observed state"""
    Tb, Tt, bj, tj, bs, ts, L, rel = o
    out = {}
    vs = sp.validation_settings
    if vs[0] and (np.any(L < sp.leg_ext_min - 1e-9) or np.any(L > sp.leg_ext_max + 1e-9)):
        out['leg-limits'] = (float(L.min()), float(L.max()), sp.leg_ext_min, sp.leg_ext_max)
    R = np.linalg.inv(Tb) @ Tt
    if vs[1] and R[2, 3] < -1e-9:
        out['top-above-bottom'] = float(R[2, 3])
    if vs[2]:
        h = sp._nominal_height
        Ri = np.linalg.inv(R)
        worst = 0.0
        for i in range(6):
            home_top = np.array([0, 0, h]) + tj[:, i]
            cur_top = R[:3, :3] @ tj[:, i] + R[:3, 3]
            worst = max(worst, angle(cur_top, bj[:, i], home_top))
            home_bot = bj[:, i] - np.array([0, 0, h])
            cur_bot = Ri[:3, :3] @ bj[:, i] + Ri[:3, 3]
            worst = max(worst, angle(cur_bot, tj[:, i], home_bot))
        if worst > sp.joint_deflection_max + 1e-6:
            out['joint-deflection'] = (worst, sp.joint_deflection_max)
    if vs[3]:
        for i in range(3):
            if R[i, i] <= sp.plate_rotation_limit - 1e-4 - 1e-9:
                out['plate-tilt'] = (i, float(R[i, i]), sp.plate_rotation_limit)
    return out


def t16(T):
    return [float(x) for x in np.asarray(T, dtype=float).reshape(-1)]


def history(rnd, tm, Wrench, rec, nmax):
    """runs one random history on a real SP; returns (model request tokens, per-op records, findings)"""
    sp, g = sph.build(rnd)
    sp.setMasses(2, 0.5, 0.5, top_plate_mass=1.0); sp.setCOG(0.1 * g['lmin'], 0.1 * g['lmin'])
    rec.take(); rec.raised = False; rec.upside = False; rec.knife = False
    bj, tj = sph.local_joints(sp)
    h = sp._nominal_height
    par = [sp.leg_ext_min, sp.leg_ext_max, sp._leg_ext_safety, h, sp.plate_rotation_limit, sp.joint_deflection_max]
    legs = []
    for i in range(6):
        legs += list(bj[:, i]) + list(tj[:, i])
    homeB = [float(sp._bottom_joint_angles_init[i][k]) for i in range(6) for k in range(3)]
    homeT = [float(sp._top_joint_angles_init[i][k]) for i in range(6) for k in range(3)]
    req = par + legs + homeB + homeT + t16(sp.getBottomT().gTM()) + t16(sp.getTopT().gTM()) + [float(x) for x in sp.validation_settings] + [float(sp.fk_mode)]
    ops = []
    recs = []
    finds = []
    nops = rnd.randint(3, nmax)
    # a quarter of the histories start by driving the platform into a mirrored pose (top plate below the bottom plate, legs in range,
    # 'top above bottom' switch as it is by default) and then run the scipy FK from there: that is the only way into the
    # 'FK resulted in inverted plate alignment -> repair' branch of FK
    forced = ['mode0', 'ik_mirrored', 'fk_cur'] if rnd.random() < 0.25 else []
    special = None
    for step in range(nops):
        special = forced.pop(0) if forced else None
        op = {'mode0': 'mode', 'ik_mirrored': 'ik_out', 'fk_cur': 'fk_in', None: None}[special] or rnd.choice(OPS)
        Tb0 = sp.getBottomT().gTM().copy(); Tt0 = sp.getTopT().gTM().copy()
        verdict = None; pure = False; enc = None; label = op; verdict_checked = True
        h = sp._nominal_height
        try:
            with contextlib.redirect_stdout(io.StringIO()):
                if op == 'ik_in' or op == 'ik_out':
                    if op == 'ik_in':
                        rel = sph.rel_pose(rnd, h)
                    else:
                        kind = 'mirrored' if special == 'ik_mirrored' else rnd.choice(['far', 'tilt', 'tilt_diag', 'tilt_diag', 'below', 'short', 'twist'])
                        rel = {'far': [rnd.uniform(-1, 1) * h, rnd.uniform(-1, 1) * h, h * rnd.uniform(1.3, 3), 0, 0, 0],
                               'tilt': [0, 0, h, rnd.uniform(1.0, 2.5), rnd.uniform(-1, 1), 0],
                               # tilted about an axis on a diagonal of the plate (x = +-y): between 60 and 90 degrees R00 and R11 stay above 1/2 while R22 does not
                               'tilt_diag': (lambda th_: [rnd.uniform(-0.3, 0.3) * h, rnd.uniform(-0.3, 0.3) * h, h * rnd.uniform(0.7, 1.0),
                                                          th_ / math.sqrt(2) * rnd.choice([-1, 1]), th_ / math.sqrt(2) * rnd.choice([-1, 1]), 0])(rnd.uniform(1.1, 1.5)),
                               'below': [0.1 * h, 0, -h * rnd.uniform(0.3, 1), 0, rnd.uniform(-0.3, 0.3), 0],
                               'mirrored': [rnd.uniform(-0.1, 0.1) * h, rnd.uniform(-0.1, 0.1) * h, -h * rnd.uniform(0.85, 1.1), rnd.uniform(-0.1, 0.1), rnd.uniform(-0.1, 0.1), 0],
                               'short': [0, 0, h * rnd.uniform(0.1, 0.6), 0, 0, rnd.uniform(-1, 1)],
                               'twist': [0, 0, h, 0, 0, rnd.uniform(1.2, 3.0)]}[kind]
                        label = op + ':' + kind
                    T = Tb0 @ sph.T6(rel)
                    _, verdict = sp.IK(tm(T))
                    enc = [1.0] + t16(T)
                elif op in ('fk_in', 'fk_out', 'fk_rev'):
                    if special == 'fk_cur':
                        L = np.asarray(sp.lengths, dtype=float).reshape(-1).copy() * (1 + rnd.uniform(-0.01, 0.01))
                        label = op + ':from-mirrored'
                    elif op == 'fk_out':
                        L = np.array([rnd.uniform(0.3, 1.6) * rnd.choice([sp.leg_ext_min, sp.leg_ext_max]) for _ in range(6)])
                    elif rnd.random() < 0.5:
                        L = np.array([rnd.uniform(sp.leg_ext_min * 1.02, sp.leg_ext_max * 0.98) for _ in range(6)])
                    else:
                        L = sph.lengths_ref(*sph.local_joints(sp), np.eye(4), sph.T6(sph.rel_pose(rnd, h)))
                    prot = rnd.random() < 0.15
                    _, verdict = sp.FK(L.copy(), reverse=(op == 'fk_rev'), protect=prot)
                    if prot:
                        label = op + ':protect'
                        verdict_checked = False
                    enc = [2.0] + list(L) + [1.0 if op == 'fk_rev' else 0.0, 1.0 if prot else 0.0]
                elif op == 'fk_at':
                    # forward kinematics over a bottom plate pose GIVEN BY THE CALLER (usually not the one the platform holds)
                    L = sph.lengths_ref(*sph.local_joints(sp), np.eye(4), sph.T6(sph.rel_pose(rnd, h))) if rnd.random() < 0.6 else \
                        np.array([rnd.uniform(sp.leg_ext_min * 1.02, sp.leg_ext_max * 0.98) for _ in range(6)])
                    B = Tb0.copy() if rnd.random() < 0.2 else tm([rnd.uniform(-2, 2) for _ in range(3)] + [rnd.uniform(-1, 1) for _ in range(3)]).gTM().copy()
                    rev = rnd.random() < 0.2
                    prot = rnd.random() < 0.15
                    _, verdict = sp.FK(L.copy(), tm(B.copy()), reverse=rev, protect=prot)
                    if prot:
                        label = op + ':protect'
                        verdict_checked = False
                    enc = [11.0] + list(L) + t16(B) + [1.0 if rev else 0.0, 1.0 if prot else 0.0]
                elif op == 'move':
                    rs_ = rnd.choice([1.0, 1.0, 2.6])       # also bases tilted past 90 degrees (wall / ceiling mounts)
                    t = tm([rnd.uniform(-2, 2) for _ in range(3)] + [rnd.uniform(-rs_, rs_) for _ in range(3)])
                    Tm_ = t.gTM().copy()
                    sp.move(t)
                    enc = [3.0] + t16(Tm_)
                elif op == 'spin':
                    r = rnd.uniform(-3, 3)
                    sp.spinCustom(r)
                    enc = [4.0, r]
                elif op == 'validate':
                    verdict = sp.validate()
                    enc = [5.0]
                elif op == 'validate_dn':
                    verdict = sp.validate(True)
                    enc = [6.0]
                elif op == 'invjac':
                    pure = True
                    prot = rnd.random() < 0.7
                    sp.inverseJacobian(protect=prot)
                    enc = [7.0, 1.0 if prot else 0.0]
                elif op == 'static':
                    pure = True
                    sp.staticForces(Wrench(np.array([rnd.uniform(-5, 5) for _ in range(6)])))
                    enc = [7.0, 1.0]
                elif op == 'carry':
                    pure = True
                    sp.carryMassCalc(Wrench(np.array([rnd.uniform(-5, 5) for _ in range(6)])))
                    enc = [7.0, 0.0]
                elif op == 'randompos':
                    k = rnd.randint(1, 3)
                    sd = rnd.randint(0, 10 ** 6)
                    np.random.seed(sd)
                    Ls = [np.random.uniform(sp.leg_ext_min + sp._leg_ext_safety, sp.leg_ext_max - sp._leg_ext_safety, 6) for _ in range(k)]
                    np.random.seed(sd)
                    sp.randomPos(max_attempts=k)
                    enc = [8.0, math.pi / 10, float(k)] + [float(x) for L in Ls for x in L]
                elif op == 'switches':
                    sp.validation_settings = [rnd.randint(0, 1) for _ in range(4)]
                    enc = [9.0] + [float(x) for x in sp.validation_settings]
                    label = op + str(sp.validation_settings)
                elif op == 'mode':
                    sp.fk_mode = 0 if special == 'mode0' else rnd.choice([0, 1])
                    enc = [10.0, float(sp.fk_mode)]
        except Exception as e:
            finds.append(('raised:%s:%s' % (op, type(e).__name__), 'a call of the history raised', {'step': step, 'op': label}, repr(e)[:200]))
            break
        items = rec.take()
        if op not in ('validate_dn', 'switches', 'mode'):
            enc = enc + enc_oracle(items)
        ops += enc
        o = observe(sp)
        recs.append({'label': label, 'verdict': verdict, 'obs': o, 'solver_calls': len(items), 'kinds': [(k, f) for k, _, f in items], 'unmodelled': False, 'paths': ('raised' if rec.raised else '') + ('upside' if rec.upside else ''), 'knife': rec.knife})
        ce = coherence(o)
        recs[-1]['band'] = 'relative-transform:band' in ce or 'relative-transform:pose-near-half-turn' in ce
        for k, v in ce.items():
            finds.append(('incoherent:%s' % k, 'published state is not coherent after %s' % label, {'step': step}, v))
        if verdict is not None and bool(verdict) and verdict_checked:
            for k, v in constraints(sp, o).items():
                finds.append(('valid-but:%s' % k, 'verdict valid although the enabled constraint fails after %s' % label, {'step': step, 'settings': list(sp.validation_settings)}, v))
        if pure and (np.abs(o[0] - Tb0).max() > 1e-9 or np.abs(o[1] - Tt0).max() > 1e-9):
            finds.append(('query-moved:%s' % op, 'a pure query changed a plate pose', {'step': step}, float(max(np.abs(o[0] - Tb0).max(), np.abs(o[1] - Tt0).max()))))
        if ce:
            break
        rec.raised = False; rec.upside = False; rec.knife = False
    req = req + [float(len(recs))] + ops
    return req, recs, finds, g


def parse_obs(v, n):
    per = 2 + 16 + 16 + 6 + 18 + 18 + 16 + 2
    if len(v) != per * n:
        return None
    out = []
    for i in range(n):
        b = v[i * per:(i + 1) * per]
        k = 2
        Tb = np.array(b[k:k + 16]).reshape(4, 4); k += 16
        Tt = np.array(b[k:k + 16]).reshape(4, 4); k += 16
        L = np.array(b[k:k + 6]); k += 6
        bs = np.array(b[k:k + 18]).reshape(6, 3).T; k += 18
        ts = np.array(b[k:k + 18]).reshape(6, 3).T; k += 18
        rel = np.array(b[k:k + 16]).reshape(4, 4); k += 16
        out.append({'ok': b[0] == 1, 'verdict': b[1], 'Tb': Tb, 'Tt': Tt, 'L': L, 'bs': bs, 'ts': ts, 'rel': rel, 'repaired': b[k] == 1, 'left': b[k + 1]})
    return out


def run(res, tier, seed, driver_ok):
    warnings.filterwarnings('ignore')
    rnd = random.Random(seed * 7919 + 10)
    thorough = tier == 'thorough'
    tm, fsr, Wrench, SP, newSP = sph.libs()
    N = 1200 if thorough else 70
    nmax = 25
    lines, meta = [], []
    nops = ncorr = nsolver = nunmod = nknife = 0
    labels = {}
    with Recorder() as rec:
        for n_ in range(N):
            req, recs, finds, g = history(rnd, tm, Wrench, rec, nmax)
            res.evaluations += len(recs)
            nops += len(recs)
            for r in recs:
                labels[r['label'].split(':')[0].split('[')[0]] = labels.get(r['label'].split(':')[0].split('[')[0], 0) + 1
                nsolver += r['solver_calls']
            if any(r['solver_calls'] for r in recs):
                res.distinct.add(n_)
            for key, what, inp, obs in finds:
                if len(res.violations) < 40:
                    inp = dict(inp); inp.update({'history': [r['label'] for r in recs], 'geometry': g, 'history_index': n_, 'seed': seed})
                    res.violations.append({'key': key, 'what': what, 'input': inp, 'observed': obs})
            if recs:
                lines.append('sp.hist ' + ' '.join(C.f2h(x) for x in req))
                meta.append((n_, recs, g))
            if n_ < 3:
                res.sample({'history': [r['label'] for r in recs], 'verdicts': [None if r['verdict'] is None else bool(r['verdict']) for r in recs]})
    ncmp = 0
    if driver_ok and lines:
        out = C.Driver().batch(lines)
        for (n_, recs, g), o in zip(meta, out):
            if o == 'bad-op':
                res.mismatches.append({'history': n_, 'what': 'model refused the request'}); continue
            obs = parse_obs([C.h2f(x) for x in o.split()], len(recs))
            if obs is None:
                res.mismatches.append({'history': n_, 'what': 'model reply has the wrong shape'}); continue
            for i, (r, m) in enumerate(zip(recs, obs)):
                if r.get('paths'):
                    nunmod += 1
                if r.get('band'):
                    nknife += 1; break     # the real relative transform carries the cut-off snap (known finding): the exact model state is not comparable from here
                knife = any(x.get('knife') for x in recs[:i + 1])     # a last-bit decision at a leg-length limit happened in this history
                if not m['ok']:
                    if knife:
                        nknife += 1; break
                    res.mismatches.append({'history': n_, 'step': i, 'op': r['label'], 'what': 'model could not consume the recorded solver outputs (different control flow)',
                                           'labels': [x['label'] for x in recs]}); break
                Tb, Tt, bj, tj, bs, ts, L, rel = r['obs']
                d = max(np.abs(Tb - m['Tb']).max(), np.abs(Tt - m['Tt']).max(), np.abs(L - m['L']).max(), np.abs(bs - m['bs']).max(),
                        np.abs(ts - m['ts']).max(), np.abs(rel - m['rel']).max())
                ncmp += 1
                vm = None if m['verdict'] < 0 else (m['verdict'] == 1)
                vr = None if r['verdict'] is None else bool(r['verdict'])
                if (not d < 1e-7 or vm != vr or m['left'] != 0) and knife:
                    nknife += 1; break
                if not d < 1e-7 or vm != vr or m['left'] != 0:
                    res.mismatches.append({'history': n_, 'step': i, 'op': r['label'], 'max_state_diff': float(d), 'verdict_model': vm, 'verdict_real': vr,
                                           'oracle_left': m['left'], 'labels': [x['label'] for x in recs]})
                    break
    res.stats.update({'histories': N, 'operations': nops, 'solver_calls_recorded': nsolver, 'model_states_compared': ncmp,
                      'operations_through_exception_or_upside_down_repair': nunmod, 'histories_cut_at_a_last_bit_limit_decision': nknife, 'operation_mix': labels})


def replay(data):
    print('recorded:', data.get('key'), data.get('what'), str(data.get('observed'))[:300])
    return False
