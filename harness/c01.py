"""C01 — rigid-motion primitives: exp/log inverse, inverse/adjoint homomorphic."""
import os, sys, random, math, time
import numpy as np
import common as C
import gen as G

PROP = 'C01'
LEAN_MODULES = ['BR.Props.C01', 'BR.Props.C01Half']
THEOREMS = ['BR.C01.vee_hat', 'BR.C01.hat_vee', 'BR.C01.vee6_hat6', 'BR.C01.hat6_vee6',
            'BR.C01.exp3_mem_SO3', 'BR.C01.exp6_mem_SE3', 'BR.C01.log3_exp3', 'BR.C01.log3_exp3_small', 'BR.C01.exp3_log3',
            'BR.Rot.exp3_log3_generic', 'BR.Rot.exp3_log3_halfturn', 'BR.Rot.exp3_log3_identity',
            'BR.C01.transInv_mul', 'BR.C01.mul_transInv', 'BR.C01.adjoint_mul', 'BR.C01.adjoint_transInv',
            'BR.C01.conj_hat6', 'BR.C01.ad_bracket', 'BR.Rot.hat_cofactor', 'BR.Rot.rod_orth', 'BR.Rot.rod_det',
            'BR.C01.log6_exp6', 'BR.C01.exp6_log6_below_pi', 'BR.C01.Log6.lterm_mul_G', 'BR.C01.Log6.cot_half',
            'BR.C01.exp6_log6_halfturn', 'BR.C01.exp6_log6', 'BR.Rot.log3_halfturn_form']
TIE = ('K: hand-written generic model lean/BR/Model/MR.lean (same branches and constants as the @jit kernels); every run evaluates the '
       'Float instance of the model (compiled driver) and the compiled kernels of basic_robotics.modern_robotics_numba on the same inputs '
       '(IEEE bit patterns across the boundary) and compares values and the branch taken; theorems are about the ℝ instance of the same definitions.')
TRUSTED = ['Lean 4.33 kernel + Mathlib v4.33 (axioms: propext, Classical.choice, Quot.sound)',
           'harness/c01.py + harness/gen.py (generators, tolerances); sympy certificates in certs/ are untrusted (checked by linear_combination)',
           'theorems are over ℝ: IEEE rounding, libm and BLAS are outside them (measured model/implementation gap is reported)',
           'Numba compilation of the kernels (differential evidence only)']
ASSUMPTIONS = ['finite inputs', 'exp3(log3 R) = R is proved for angle 0 or >= 1e-6, inside the band the code returns the identity by design; log6(exp6 V) = V is proved for |w| = 0 or in [1e-6, pi), exp6(log6 T) = T for every rigid transform with rotation angle 0 or >= 1e-6 (identity, generic and half-turn branches)']
RULE = ('inputs from (axis class x angle class x translation magnitude); angle classes 0, inside/at the 1e-6 cut-off band, small, 1, pi/2, pi-1e-3, pi-1e-6, exact half turns, generic; '
        'distinct = distinct (function, input) pairs; non-trivial = input is not the zero vector / identity')
SAMPLED = [           'compiled kernel = model at Float up to 1e-9 relative (differential)']

_fmr = None


def fmr():
    global _fmr
    if _fmr is None:
        import basic_robotics.modern_robotics_numba as m
        _fmr = m.mr if hasattr(m, 'mr') else m
    return _fmr


def T16(T):
    return list(np.asarray(T, dtype=float).reshape(-1))


def se3_16(M):
    return list(np.asarray(M, dtype=float).reshape(-1))


# kernel table: name -> (driver fn, arg builder -> flat floats, impl call -> flat floats)
def build_cases(rnd, n):
    m = fmr()
    cases = []

    def add(fn, flat, thunk, tag, atol=1e-12, rtol=1e-9):
        cases.append((fn, [float(x) for x in flat], thunk, tag, atol, rtol))

    for _ in range(n):
        w, k = G.rotvec(rnd, maxangle=2 * math.pi if rnd.random() < 0.2 else math.pi - 1e-3)
        so3 = G.hat(w)
        add('mr.exp3', so3.reshape(-1), lambda so3=so3: m.MatrixExp3(so3).reshape(-1), 'exp3:' + k)
        add('mr.hat', w, lambda w=w: m.VecToso3(w).reshape(-1), 'hat')
        add('mr.vee', so3.reshape(-1), lambda so3=so3: m.so3ToVec(so3), 'vee')
        add('mr.norm', w, lambda w=w: [m.Norm(w)], 'norm')
        if np.linalg.norm(w) > 0:
            add('mr.normalize', w, lambda w=w: m.Normalize(w), 'normalize')
            add('mr.axisang3', w, lambda w=w: list(m.AxisAng3(w)[0]) + [m.AxisAng3(w)[1]], 'axisang3')
        R, k2 = G.rotation(rnd)
        # log near pi / near 0 is ill-conditioned in the *input*: both sides see the same R, so compare tightly but allow 1/sin
        add('mr.log3', R.reshape(-1), lambda R=R: list(m.MatrixLog3(R).reshape(-1)), 'log3:' + k2, atol=1e-9, rtol=1e-7)
        T, k3 = G.pose(rnd)
        add('mr.transinv', T16(T), lambda T=T: m.TransInv(T).reshape(-1), 'transinv')
        add('mr.adjoint', T16(T), lambda T=T: m.Adjoint(T).reshape(-1), 'adjoint')
        V, k4 = G.twist(rnd)
        add('mr.ad', V, lambda V=V: m.ad(V).reshape(-1), 'ad')
        add('mr.hat6', V, lambda V=V: m.VecTose3(V).reshape(-1), 'hat6')
        se3 = np.zeros((4, 4)); se3[:3, :3] = G.hat(V[:3]); se3[:3, 3] = V[3:]
        add('mr.vee6', se3_16(se3), lambda se3=se3: m.se3ToVec(se3), 'vee6')
        add('mr.exp6', se3_16(se3), lambda se3=se3: m.MatrixExp6(se3).reshape(-1), 'exp6:' + k4)
        add('mr.log6', T16(T), lambda T=T: m.MatrixLog6(T).reshape(-1), 'log6:' + k3, atol=1e-9, rtol=1e-7)
        if np.linalg.norm(V) > 0 and (np.linalg.norm(V[:3]) >= 1e-6 or np.linalg.norm(V[3:]) > 0):
            add('mr.axisang6', V, lambda V=V: list(m.AxisAng6(V)[0]) + [m.AxisAng6(V)[1]], 'axisang6')
        q = G.translation(rnd, 1.0); s = G.axis(rnd); h = rnd.uniform(-1, 1)
        add('mr.screwtoaxis', list(q) + list(s) + [h], lambda q=q, s=s, h=h: m.ScrewToAxis(q, s, h), 'screwtoaxis')
        z = rnd.choice([0.0, 1e-6, -1e-6, 9.99e-7, 1.0000001e-6, rnd.uniform(-2e-6, 2e-6), rnd.uniform(-1, 1)])
        add('mr.nearzero', [z], lambda z=z: [1.0 if m.NearZero(z) else 0.0], 'nearzero')
    return cases


BAND = ('zero', 'tiny', 'band_lo', 'band_hi')


def tol(scale, in_band):
    """tolerance of the property text: 5e-6 absolute on unit-scale entries, 1e-9 relative on larger ones;
    inside the 1e-6 cut-off band the snapped rotation (<= 1e-6 rad) additionally moves a point at distance `scale` by <= 1e-6*scale"""
    return 5e-6 + 1e-9 * scale + (1e-6 * scale if in_band else 0.0)


def falsify(res, rnd, n):
    """the clauses of C01 evaluated directly on the implementation"""
    m = fmr()
    I3, I4, I6 = np.eye(3), np.eye(4), np.eye(6)

    def bad(key, what, inp, obs):
        if len(res.violations) < 40:
            res.violations.append({'key': key, 'what': what, 'input': inp, 'observed': obs})

    nb = {}
    for _ in range(n):
        # exp is a proper rotation; log(exp w) = w below pi
        w, k = G.rotvec(rnd, maxangle=2 * math.pi if rnd.random() < 0.25 else math.pi - 1e-6)
        R = m.MatrixExp3(G.hat(w))
        res.evaluations += 1
        if not (np.max(np.abs(R.T @ R - I3)) <= 1e-9) or not (abs(np.linalg.det(R) - 1) <= 1e-9):
            bad('exp3:not-rotation', 'MatrixExp3 is not a proper rotation', {'w': list(w)}, R.tolist())
        th = np.linalg.norm(w)
        if th < math.pi - 1e-7:
            w2 = m.so3ToVec(m.MatrixLog3(R))
            if not (np.max(np.abs(w2 - w)) <= tol(1.0, th < 2e-6)):
                bad('log3exp3:' + k, 'log3(exp3(w)) != w below pi', {'w': list(w)}, list(w2))
        # exp(log R) = R on SO(3)
        Rr, kr = G.rotation(rnd)
        so3 = m.MatrixLog3(Rr)
        br = 'identity' if np.array_equal(so3, np.zeros((3, 3))) else kr
        nb[kr] = nb.get(kr, 0) + 1
        R2 = m.MatrixExp3(so3)
        if not (np.max(np.abs(R2 - Rr)) <= tol(1.0, kr in BAND)):
            bad('exp3log3:' + kr, 'exp3(log3(R)) != R on SO(3)', {'R': Rr.tolist()}, R2.tolist())
        # SE(3): exp is rigid, log undoes it, exp(log T) = T
        V, kv = G.twist(rnd, maxangle=math.pi - 1e-6)
        se3 = m.VecTose3(V)
        T = m.MatrixExp6(se3)
        if (not (np.max(np.abs(T[:3, :3].T @ T[:3, :3] - I3)) <= 1e-9) or not (abs(np.linalg.det(T[:3, :3]) - 1) <= 1e-9)
                or not np.array_equal(T[3], [0, 0, 0, 1])):
            bad('exp6:not-rigid', 'MatrixExp6 is not a rigid transform', {'V': list(V)}, T.tolist())
        V2 = m.se3ToVec(m.MatrixLog6(T))
        scale = max(1.0, float(np.max(np.abs(V))))
        if not (np.max(np.abs(V2 - V)) <= tol(scale, np.linalg.norm(V[:3]) < 2e-6)):
            bad('log6exp6:' + kv, 'log6(exp6(V)) != V below pi', {'V': list(V)}, list(V2))
        Tp, kp = G.pose(rnd)
        T2 = m.MatrixExp6(m.MatrixLog6(Tp))
        scale = max(1.0, float(np.max(np.abs(Tp))))
        if not (np.max(np.abs(T2 - Tp)) <= tol(scale, kp in BAND)):
            bad('exp6log6:' + kp, 'exp6(log6(T)) != T on SE(3)', {'T': Tp.tolist()}, T2.tolist())
        Th = np.eye(4); Th[:3, :3] = G.halfturn(rnd)[0]; Th[:3, 3] = G.translation(rnd)
        if (Th[0, 0] + Th[1, 1] + Th[2, 2] - 1) / 2.0 <= -1:          # the code's own half-turn branch (a rounded trace above -1 is the known finding)
            T3 = m.MatrixExp6(m.MatrixLog6(Th))
            if not (np.max(np.abs(T3 - Th)) <= tol(max(1.0, float(np.max(np.abs(Th)))), False)):
                bad('exp6log6:halfturn', 'exp6(log6(T)) != T on SE(3)', {'T': Th.tolist()}, T3.tolist())
        # hat / vee
        if not np.array_equal(m.so3ToVec(m.VecToso3(w)), w) or not np.array_equal(m.se3ToVec(m.VecTose3(V)), V):
            bad('hatvee', 'vee(hat(x)) != x', {'w': list(w), 'V': list(V)}, None)
        if not np.array_equal(m.VecToso3(m.so3ToVec(G.hat(w))), G.hat(w)) or not np.array_equal(m.VecTose3(m.se3ToVec(se3)), se3):
            bad('hatvee', 'hat(vee(X)) != X', {'w': list(w), 'V': list(V)}, None)
        # group structure of inverse and adjoint
        T1, _ = G.pose(rnd); Tb, _ = G.pose(rnd)
        if rnd.random() < 0.25:        # translations whose components cancel, repeat or vanish (a signed sum, a product or a single component says nothing about |p|)
            a_ = rnd.uniform(0.2, 3.0)
            T1 = T1.copy(); T1[:3, 3] = rnd.choice([[a_, -a_, 0.0], [1.5 * a_, -0.25 * a_, -1.25 * a_], [a_, 0.0, -a_], [a_, a_, a_], [0.0, a_, 0.0], [a_, -2 * a_, a_]])
        s1 = max(1.0, float(np.max(np.abs(T1[:3, 3]))), float(np.max(np.abs(Tb[:3, 3]))))
        if not (np.max(np.abs(m.TransInv(T1) @ T1 - I4)) <= 1e-9 * s1):
            bad('transinv', 'inv(T)*T != I', {'T': T1.tolist()}, (m.TransInv(T1) @ T1).tolist())
        A12 = m.Adjoint(np.ascontiguousarray(T1 @ Tb)); A1A2 = m.Adjoint(T1) @ m.Adjoint(Tb)
        if not (np.max(np.abs(A12 - A1A2)) <= 1e-9 * s1 * s1):
            bad('adjoint-mul', 'Ad(T1*T2) != Ad(T1)*Ad(T2)', {'T1': T1.tolist(), 'T2': Tb.tolist()}, A12.tolist())
        Ai = m.Adjoint(m.TransInv(T1))
        if not (np.max(np.abs(Ai @ m.Adjoint(T1) - I6)) <= 1e-9 * s1 * s1):
            bad('adjoint-inv', 'Ad(inv T) != inv(Ad T)', {'T': T1.tolist()}, Ai.tolist())
        lhs = T1 @ m.VecTose3(V) @ m.TransInv(T1)
        rhs = m.VecTose3(m.Adjoint(T1) @ V)
        if not (np.max(np.abs(lhs - rhs)) <= 1e-9 * s1 * max(1.0, float(np.max(np.abs(V))))):
            bad('conj-hat6', 'T*[V]*inv(T) != [Ad(T)V]', {'T': T1.tolist(), 'V': list(V)}, lhs.tolist())
    res.stats['exp3log3_classes'] = nb


def replay(data):
    res = C.Result(PROP)
    inp = data.get('input', {})
    m = fmr()
    key = data.get('key', '')
    # re-evaluate the recorded clause on the recorded input
    ok = True
    if 'R' in inp:
        R = np.array(inp['R']); R2 = m.MatrixExp3(m.MatrixLog3(R))
        print('exp3(log3(R)) - R max abs =', np.max(np.abs(R2 - R))); ok = np.max(np.abs(R2 - R)) <= 5e-6
    elif 'w' in inp and key.startswith('log3exp3'):
        w = np.array(inp['w']); w2 = m.so3ToVec(m.MatrixLog3(m.MatrixExp3(G.hat(w))))
        print('log3(exp3(w)) - w max abs =', np.max(np.abs(w2 - w))); ok = np.max(np.abs(w2 - w)) <= 5e-6
    elif 'T' in inp and key.startswith('exp6log6'):
        T = np.array(inp['T']); T2 = m.MatrixExp6(m.MatrixLog6(T))
        print('exp6(log6(T)) - T max abs =', np.max(np.abs(T2 - T))); ok = np.max(np.abs(T2 - T)) <= 5e-6 * max(1, np.max(np.abs(T)))
    else:
        print('recorded:', data.get('what'), data.get('observed'))
        ok = False
    return bool(ok)


def run(res, tier, seed, driver_ok):
    rnd = random.Random(seed * 7919 + 1)
    thorough = tier == 'thorough'
    n = 2500 if thorough else 180
    cases = build_cases(rnd, n)
    lines = [fn + ' ' + ' '.join(C.f2h(x) for x in flat) for fn, flat, _, _, _, _ in cases]
    model = None
    if driver_ok:
        try:
            model = C.Driver().batch(lines)
        except Exception as e:
            res.mismatches.append({'driver': str(e)[:300]})
    gaps, branches = {}, {}
    for i, (fn, flat, thunk, tag, atol, rtol) in enumerate(cases):
        res.evaluations += 1
        try:
            got = [float(x) for x in np.asarray(thunk(), dtype=float).reshape(-1)]
        except Exception as e:
            res.violations.append({'key': 'raises:%s:%s' % (fn, type(e).__name__), 'what': '%s raised %r on a valid input' % (fn, e),
                                   'input': {'fn': fn, 'args': flat}})
            continue
        if any(abs(x) > 0 for x in flat):
            res.distinct.add((fn, tuple(flat)))
        if model is None:
            continue
        if model[i] == 'bad-op':
            res.mismatches.append({'request': lines[i], 'model': 'bad-op'})
            continue
        mv = [C.h2f(t) for t in model[i].split()]
        if fn == 'mr.log3':
            b = int(mv[-1]); mv = mv[:-1]
            branches['log3:%d' % b] = branches.get('log3:%d' % b, 0) + 1
            if b in (2, 3, 4):   # half turn: sign of the axis is conventional but both sides use the same formula
                pass
        branches[tag] = branches.get(tag, 0) + 1
        # conditioning: log near pi amplifies the (identical) input by 1/sin(theta); both sides get the same input, so only rounding differs
        if not G.close(mv, got, atol, rtol):
            if len(res.mismatches) < 10:
                res.mismatches.append({'request': fn, 'args': flat, 'model': mv, 'impl': got, 'tag': tag})
        else:
            gaps[fn] = max(gaps.get(fn, 0.0), G.maxdiff(mv, got))
    res.stats['max_model_impl_gap'] = {k: float('%.3g' % v) for k, v in gaps.items()}
    res.stats['branch_histogram'] = branches
    for i in (0, 6, 13):
        if i < len(cases):
            res.sample({'request': cases[i][0], 'args': cases[i][1][:9], 'tag': cases[i][3]})
    falsify(res, rnd, 6000 if thorough else 500)
