"""C12 — wrenches and screws change frame as a group action and add as vectors."""
import os, sys, random, math
import numpy as np
import common as C
import gen as G
import tmh

PROP = 'C12'
LEAN_MODULES = ['BR.Props.C12']
THEOREMS = ['BR.C12.screw_change_is_Ad', 'BR.C12.wrench_change_is_AdT', 'BR.C12.change_same_frame', 'BR.C12.screw_change_compose',
            'BR.C12.screw_change_roundtrip', 'BR.C12.wrench_change_roundtrip', 'BR.C12.pairing_invariant', 'BR.C12.moment_is_p_cross_f',
            'BR.C12.zero_moment_at_application', 'BR.C12.add_mixed_frames', 'BR.C12.add_sub_cancel', 'BR.C12.sub_scalar_eq_add_neg',
            'BR.C12.rsub_scalar_eq_neg_sub', 'BR.C12.mul_div_cancel', 'BR.C12.add_sub_cancel_mixed', 'BR.C12.sub_add_cancel_mixed',
            'BR.C12.arr_add_sub_cancel', 'BR.C12.arr_rsub_eq_neg_sub']
TIE = ('K: hand-written model lean/BR/Model/Screw.lean (frame change through globalToLocal and Adjoint exactly as the code, the 1e-8 frame-equality short-cut, '
       'operator fall-through branches); every run evaluates the Float instance (compiled driver) and the real Screw/Wrench objects on the same operand kinds x frame triples.')
TRUSTED = ['Lean 4.33 kernel + Mathlib v4.33 (axioms: propext, Classical.choice, Quot.sound)', 'harness/c12.py generators and tolerances',
           'theorems over ℝ and under RelAngleOK (relative rotation of the two frames 0 or >= 1e-6): inside the band globalToLocal snaps the rotation to the identity (known finding)']
ASSUMPTIONS = ['frames are coherent tm objects in SE(3) (C03)', '|p| <= 10, rotation angle <= pi-1e-3, k != 0']
RULE = ('frame triples A,B,C from pose classes (incl. pairs closer than the 1e-6 cut-off and closer than the 1e-8 equality threshold), random 6-vectors, forces, points, scalars; '
        'operands as scalars, 6-arrays, 6x1 arrays and objects; distinct = distinct (operation, operands); non-trivial = frames differ')
SAMPLED = []


def libs():
    from basic_robotics.general import tm, fsr, Wrench
    from basic_robotics.general.faser_screw import Screw
    return tm, fsr, Screw, Wrench


def rand_frame(rnd):
    w, k = G.rotvec(rnd, rnd.choice(['zero', 'small', 'one', 'half_pi', 'generic', 'generic', 'near_pi']), math.pi - 1e-3)
    p = G.translation(rnd, rnd.choice([0.0, 1.0, 10.0]))
    return np.concatenate([p, w])


def nearby_frame(rnd, a, eps):
    """frame whose relative rotation to `a` has angle eps (about a random axis) and relative translation ~eps"""
    Ta = np.eye(4); Ta[:3, :3] = G.rot_ref(a[3:]); Ta[:3, 3] = a[:3]
    d = np.eye(4); d[:3, :3] = G.rot_ref(G.axis(rnd) * eps); d[:3, 3] = G.axis(rnd) * eps * rnd.choice([0, 1])
    Tb = Ta @ d
    # six-vector of Tb by an independent log (Rodrigues inverse for small relative change is not needed: use scipy-free formula)
    R = Tb[:3, :3]
    ang = math.acos(max(-1, min(1, (np.trace(R) - 1) / 2)))
    if ang < 1e-12:
        w = np.zeros(3)
    else:
        w = ang / (2 * math.sin(ang)) * np.array([R[2, 1] - R[1, 2], R[0, 2] - R[2, 0], R[1, 0] - R[0, 1]])
    return np.concatenate([Tb[:3, 3], w])


def Tof(v):
    T = np.eye(4); T[:3, :3] = G.rot_ref(v[3:]); T[:3, 3] = v[:3]
    return T


def Ad(T):
    R, p = T[:3, :3], T[:3, 3]
    A = np.zeros((6, 6)); A[:3, :3] = R; A[3:, 3:] = R; A[3:, :3] = G.hat(p) @ R
    return A


def rel_angle(a, b):
    M = np.linalg.inv(Tof(a)) @ Tof(b)
    return math.acos(max(-1, min(1, (np.trace(M[:3, :3]) - 1) / 2)))


def run(res, tier, seed, driver_ok):
    rnd = random.Random(seed * 7919 + 12)
    thorough = tier == 'thorough'
    tm, fsr, Screw, Wrench = libs()
    lines, expect = [], []

    def bad(key, what, inp, obs):
        if len(res.violations) < 60:
            res.violations.append({'key': key, 'what': what, 'input': inp, 'observed': obs})

    def rel(a, b):
        s = max(1e-300, float(np.max(np.abs(b))))
        return float(np.max(np.abs(np.asarray(a).reshape(-1) - np.asarray(b).reshape(-1)))) / max(s, 1e-12)

    N = 20000 if thorough else 900
    band_cases = 0
    for n in range(N):
        a = rand_frame(rnd)
        mode = rnd.random()
        if mode < 0.08:
            b = nearby_frame(rnd, a, rnd.choice([5e-7, 2e-7, 9e-7])); cls = 'band'
        elif mode < 0.12:
            b = a + np.array([rnd.uniform(-1, 1) * 5e-9 for _ in range(6)]); cls = 'eq1e-8'
        else:
            b = rand_frame(rnd); cls = 'generic'
        c = rand_frame(rnd)
        if cls == 'generic' and (rel_angle(a, b) > math.pi - 1e-3 or rel_angle(b, c) > math.pi - 1e-3 or rel_angle(a, c) > math.pi - 1e-3
                                 or min(rel_angle(a, b), rel_angle(b, c), rel_angle(a, c)) < 2e-6):
            continue    # relative rotations beyond pi-1e-3 are outside the property (and hit C01's log defect); tiny ones are the 'band' class
        band_cases += cls == 'band'
        amp = 1e-13 / max(1e-8, math.pi - max(rel_angle(a, b), rel_angle(b, a))) ** 2
        d = np.array([rnd.uniform(-5, 5) for _ in range(6)])
        v = np.array([rnd.uniform(-5, 5) for _ in range(6)])
        A, B, Cf = tm(list(a)), tm(list(b)), tm(list(c))
        TA, TB, TC = Tof(a), Tof(b), Tof(c)
        tol = 1e-8
        for w, cls_ in ((0, Screw), (1, Wrench)):
            mk = (lambda x, fr: Screw(np.array(x, dtype=float).reshape((6, 1)), fr.copy())) if w == 0 else \
                 (lambda x, fr: Wrench(np.array(x, dtype=float).reshape((6, 1)), None, fr.copy()))
            res.evaluations += 1
            res.distinct.add((w, cls, tuple(a), tuple(b)))
            # --- correspondence line: A -> B
            o = mk(d, A); o.changeFrame(B)
            lines.append('scr.change %s %s %s %s' % (C.f2h(w), tmh.H(d), tmh.H(a), tmh.H(b)))
            expect.append((o.getData().reshape(-1), o.frame_applied.gTAA().reshape(-1), cls, amp))
            # --- A -> B is the adjoint action (reference from NumPy)
            want = (Ad(np.linalg.inv(TB) @ TA) @ d) if w == 0 else (Ad(np.linalg.inv(TA) @ TB).T @ d)
            kind = 'wrench' if w else 'screw'
            if cls != 'eq1e-8' and rel(o.getData(), want) > tol:
                bad('change:%s:%s' % (kind, cls), 'changeFrame is not the adjoint action between the two frames', {'data': list(d), 'A': list(a), 'B': list(b)},
                    {'rel_err': rel(o.getData(), want)})
            if cls != 'eq1e-8' and rel(o.frame_applied.gTAA(), b) > 1e-8 and G.gt(np.max(np.abs(o.frame_applied.gTM() - TB)), 1e-8):
                bad('frame-not-recorded:%s' % kind, 'object does not record its new frame', {'A': list(a), 'B': list(b)}, o.frame_applied.gTAA().reshape(-1).tolist())
            # --- the two-argument form: the data are said to be in A (old_frame = A) whatever frame the object records — here it records B already
            if cls not in ('eq1e-8', 'band'):
                try:
                    ox = mk(d, B); ox.changeFrame(B, A)
                    if rel(ox.getData(), want) > tol:
                        bad('change-explicit-old:%s:%s' % (kind, cls), 'changeFrame(new, old_frame) is not the adjoint action from the frame given to the new one', {'data': list(d), 'old': list(a), 'new': list(b)},
                            {'rel_err': rel(ox.getData(), want)})
                except Exception as e:
                    bad('raises:changeFrame:%s' % type(e).__name__, 'changeFrame(new, old_frame) raised', {'data': list(d), 'old': list(a), 'new': list(b)}, repr(e))
            # --- A -> B -> A
            o2 = mk(d, A); o2.changeFrame(B); o2.changeFrame(A)
            if rel(o2.getData(), d) > tol:
                bad('roundtrip:%s:%s' % (kind, cls), 'A->B->A is not the identity', {'data': list(d), 'A': list(a), 'B': list(b)}, {'rel_err': rel(o2.getData(), d)})
            # --- A -> B -> C = A -> C
            o3 = mk(d, A); o3.changeFrame(B); o3.changeFrame(Cf)
            o4 = mk(d, A); o4.changeFrame(Cf)
            if rel(o3.getData(), o4.getData()) > tol:
                bad('compose:%s:%s' % (kind, cls), 'A->B->C differs from A->C', {'data': list(d), 'A': list(a), 'B': list(b), 'C': list(c)}, {'rel_err': rel(o3.getData(), o4.getData())})
            # --- sums and differences in mixed frames
            x = mk(d, A); y = mk(v, B)
            yA = mk(v, B); yA.changeFrame(A)
            sm = x + y
            if rel(sm.getData(), d.reshape(6, 1) + yA.getData()) > tol or G.gt(np.max(np.abs(sm.frame_applied.gTM() - TA)), 1e-8):
                bad('add-mixed:%s' % kind, 'sum in mixed frames is not the sum in the left frame', {'a': list(d), 'A': list(a), 'b': list(v), 'B': list(b)}, None)
            df = x - y
            if rel(df.getData(), d.reshape(6, 1) - yA.getData()) > tol:
                bad('sub-mixed:%s' % kind, 'difference in mixed frames is not the difference in the left frame', {'a': list(d), 'A': list(a), 'b': list(v), 'B': list(b)}, None)
            lines.append('scr.add %s %s %s %s %s' % (C.f2h(w), tmh.H(d), tmh.H(a), tmh.H(v), tmh.H(b)))
            expect.append((sm.getData().reshape(-1), sm.frame_applied.gTAA().reshape(-1), cls, amp))
            lines.append('scr.sub %s %s %s %s %s' % (C.f2h(w), tmh.H(d), tmh.H(a), tmh.H(v), tmh.H(b)))
            expect.append((df.getData().reshape(-1), df.frame_applied.gTAA().reshape(-1), cls, amp))
            # --- vector-space laws, every operand kind
            z = mk(v, A)
            back = (x + z) - z
            if rel(back.getData(), d) > tol:
                bad('law:(a+b)-b:%s' % kind, '(a+b)-b != a', {'a': list(d), 'b': list(v)}, back.getData().reshape(-1).tolist())
            s = rnd.choice([0.5, -2.0, 3.25, rnd.uniform(-10, 10)])
            k = rnd.choice([2.0, -0.5, 7.0, rnd.uniform(0.1, 10)])
            for nm, operand in (('scalar', s), ('int', int(round(s)) or 2), ('arr6', v.copy()), ('arr6x1', v.reshape(6, 1).copy())):
                asarr = lambda r: np.asarray(r.getData() if hasattr(r, 'getData') else r, dtype=float).reshape(-1)
                opv = operand if np.isscalar(operand) else np.asarray(operand).reshape(-1)
                neg = -operand
                try:
                    l1, r1 = asarr(x - operand), asarr(x + neg)
                    l2, r2 = asarr(operand - x), -asarr(x - operand)
                    l3 = asarr((x + operand) - operand)
                except Exception as e:
                    bad('law-raises:%s:%s' % (kind, nm), 'arithmetic raised %r' % (e,), {'a': list(d), 'operand': nm}, None)
                    continue
                want1 = d - opv
                if rel(l1, want1) > tol or rel(l1, r1) > tol:
                    bad('law:a-s:%s:%s' % (kind, nm), 'a - s != a + (-s)', {'a': list(d), 'operand_kind': nm, 'operand': np.asarray(operand).reshape(-1).tolist()},
                        {'a-s': l1.tolist(), 'a+(-s)': r1.tolist()})
                if rel(l2, opv - d) > tol or rel(l2, r2) > tol:
                    bad('law:s-a:%s:%s' % (kind, nm), 's - a != -(a - s)', {'a': list(d), 'operand_kind': nm, 'operand': np.asarray(operand).reshape(-1).tolist()},
                        {'s-a': l2.tolist(), '-(a-s)': r2.tolist()})
                if rel(l3, d) > tol:
                    bad('law:(a+s)-s:%s:%s' % (kind, nm), '(a+s)-s != a', {'a': list(d), 'operand_kind': nm}, l3.tolist())
            q = (x * k) / k
            q2 = (k * x) / k
            if rel(q.getData(), d) > tol or rel(q2.getData(), d) > tol:
                bad('law:(k*a)/k:%s' % kind, '(k*a)/k != a', {'a': list(d), 'k': k}, q.getData().reshape(-1).tolist())
            lines.append('scr.subs %s %s' % (tmh.H(d), C.f2h(s))); expect.append((np.asarray(x - s).reshape(-1), None, 'x', 0.0))
            lines.append('scr.rsubs %s %s' % (tmh.H(d), C.f2h(s))); expect.append((np.asarray(s - x).reshape(-1), None, 'x', 0.0))
            lines.append('scr.adds %s %s' % (tmh.H(d), C.f2h(s))); expect.append((np.asarray(x + s).reshape(-1), None, 'x', 0.0))
            lines.append('scr.mul %s %s' % (tmh.H(d), C.f2h(k))); expect.append(((x * k).getData().reshape(-1), None, 'x', 0.0))
            lines.append('scr.div %s %s' % (tmh.H(d), C.f2h(k))); expect.append(((x / k).getData().reshape(-1), None, 'x', 0.0))
        # --- pairing invariance
        F = Wrench(d.reshape((6, 1)).copy(), None, A.copy()); V = Screw(v.reshape((6, 1)).copy(), A.copy())
        pa = float(F.getData().reshape(-1) @ V.getData().reshape(-1))
        F.changeFrame(B); V.changeFrame(B)
        pb = float(F.getData().reshape(-1) @ V.getData().reshape(-1))
        if abs(pa - pb) > tol * max(1.0, np.linalg.norm(d) * np.linalg.norm(v)):
            bad('pairing:%s' % cls, 'wrench . twist differs between frames', {'F': list(d), 'V': list(v), 'A': list(a), 'B': list(b)}, {'A': pa, 'B': pb})
        # --- force at a point
        f = np.array([rnd.uniform(-5, 5) for _ in range(3)]); p = G.translation(rnd, 10.0)
        W = Wrench(f.copy(), tm([p[0], p[1], p[2], 0, 0, 0]), A.copy())
        if rel(W.getMoment(), np.cross(p, f)) > tol or rel(W.getForce(), f) > tol:
            bad('moment', 'moment of a force at p is not p x f', {'f': list(f), 'p': list(p)}, W.getData().reshape(-1).tolist())
        lines.append('scr.wrenchat %s %s' % (tmh.H(f), tmh.H(p))); expect.append((W.getData().reshape(-1), None, 'x', 0.0))
        # the point of application in every form the code indexes ([0:3]): transform object, 3-array, 3x1 column, 6x1 pose column; direct and through fsr.makeWrench
        mag_ = float(np.linalg.norm(f))
        if mag_ > 1e-9:
            for pnm_, mkp_ in (('tm', lambda: tm([p[0], p[1], p[2], 0, 0, 0])), ('array3', lambda: np.array(p, dtype=float)), ('column3', lambda: np.array(p, dtype=float).reshape((3, 1))),
                               ('column6', lambda: np.array([p[0], p[1], p[2], 0, 0, 0], dtype=float).reshape((6, 1)))):
                for cnm_, mkw_ in (('Wrench', lambda q_: Wrench(f.copy(), q_, A.copy())), ('makeWrench', lambda q_: fsr.makeWrench(q_, mag_, list(f / mag_), A.copy()))):
                    try:
                        Wp = mkw_(mkp_())
                    except Exception as e:
                        bad('raises:point-form:%s:%s' % (cnm_, pnm_), 'building a wrench with the application point given as %s raised %r' % (pnm_, e), {'f': list(f), 'p': list(p)}, None); continue
                    res.evaluations += 1
                    if rel(Wp.getMoment(), np.cross(p, f)) > tol or rel(Wp.getForce(), f) > tol:
                        bad('moment:point-form:%s:%s' % (cnm_, pnm_), 'moment of a force at p is not p x f when p is given as %s' % pnm_, {'f': list(f), 'p': list(p), 'form': pnm_, 'via': cnm_},
                            Wp.getData().reshape(-1).tolist())
        # the same with whole-number forces handed over in every form a caller would write them: int array, list of Python ints, int magnitude * direction
        fi = np.array([rnd.randint(-9, 9) for _ in range(3)])
        if np.any(fi != 0):
            pt_ = tm([p[0], p[1], p[2], 0, 0, 0])
            forms_ = [('int-array', lambda: Wrench(fi.copy(), pt_, A.copy())), ('int-list', lambda: Wrench([int(x) for x in fi], pt_, A.copy()))]
            k_ = int(np.argmax(np.abs(fi)))
            dirn_ = [0, 0, 0]; dirn_[k_] = 1 if fi[k_] > 0 else -1
            forms_.append(('makeWrench-int', lambda: fsr.makeWrench(pt_, int(abs(fi[k_])), dirn_, A.copy())))
            for nm_, mk_ in forms_:
                try:
                    Wi = mk_()
                except Exception as e:
                    bad('raises:force-at-point:%s' % nm_, 'building a wrench from a whole-number force raised %r' % (e,), {'f': fi.tolist(), 'p': list(p)}, None); continue
                fw = np.array(dirn_, dtype=float) * abs(fi[k_]) if nm_ == 'makeWrench-int' else fi.astype(float)
                if rel(Wi.getMoment(), np.cross(p, fw)) > tol or rel(Wi.getForce(), fw) > tol:
                    bad('moment:%s' % nm_, 'moment of a force at p is not p x f', {'f': fw.tolist(), 'p': list(p), 'form': nm_}, Wi.getData().reshape(-1).tolist())
        atp = tm(A.gTM() @ Tof(np.concatenate([p, np.zeros(3)])))        # frame at the point of application, same orientation
        W.changeFrame(atp)
        if G.gt(np.max(np.abs(W.getMoment())), tol * max(1.0, np.linalg.norm(f) * max(1.0, np.linalg.norm(p)))):
            bad('zero-moment', 'moment about the point of application is not zero', {'f': list(f), 'p': list(p), 'A': list(a)}, W.getMoment().reshape(-1).tolist())
        if n < 2:
            res.sample({'A': list(a), 'B': list(b), 'C': list(c), 'data': list(d), 'class': cls})
    # ---- correspondence
    nm = 0
    if driver_ok:
        try:
            model = C.Driver().batch(lines)
            for rep, (data, frame, cls, amp), line in zip(model, expect, lines):
                if rep == 'bad-op':
                    res.mismatches.append({'request': line[:60], 'model': 'bad-op'}); continue
                mv = np.array([C.h2f(t) for t in rep.split()])
                ok = G.close(mv[:6], data, 1e-9 + amp, 1e-9 + amp) and (frame is None or G.close(mv[6:12], frame, 1e-9, 1e-9))
                nm += 1
                if not ok and cls != 'eq1e-8' and len(res.mismatches) < 10:       # at the 1e-8 equality threshold model and code may round differently
                    res.mismatches.append({'request': line[:40], 'class': cls, 'model': mv.tolist(), 'impl_data': list(data), 'impl_frame': None if frame is None else list(frame)})
        except Exception as e:
            res.mismatches.append({'driver': str(e)[:300]})
    res.stats.update({'frame_triples': N, 'band_pairs': band_cases, 'model_lines_compared': nm})


def replay(data):
    print('recorded:', data.get('key'), data.get('what'), data.get('input'), data.get('observed'))
    tm, fsr, Screw, Wrench = libs()
    inp = data.get('input', {})
    if data.get('key', '').startswith('law:a-s'):
        x = Screw(np.array(inp['a'], dtype=float).reshape((6, 1)))
        op = inp['operand'][0] if len(inp['operand']) == 1 else np.array(inp['operand'])
        l = np.asarray(x - op).reshape(-1); r = np.asarray(x + (-op)).reshape(-1)
        print('a - s =', l, ' a + (-s) =', r)
        return bool(np.allclose(l, r, rtol=1e-8, atol=0))
    return False
