"""C16 — RRT* builds a collision-free, cost-consistent tree and returns a path in it."""
import os, sys, random, math, io, contextlib
import multiprocessing as mp
import numpy as np
import common as C
import gen as G

PROP = 'C16'
LEAN_MODULES = ['BR.Props.C16']
THEOREMS = ['BR.C16.choose_fold', 'BR.C16.insert_attaches_cheapest_free', 'BR.C16.treeInv_insert',
            'BR.C16.tree_rooted_acyclic_cost_consistent', 'BR.C16.pathTo_shape', 'BR.C16.path_shape', 'BR.C16.pathTo_cost',
            'BR.C16.generated_cost_is_path_length', 'BR.C16.cost_ge_parent', 'BR.C16.generated_cost_nonneg']
TIE = ('K: hand-written model lean/BR/Model/RRT.lean of generalGenerateTree / findPathGeneral in which generator, distance, collision and nearest-neighbour answers are an oracle trace; '
       'every run records that trace from the real planner (seeded callbacks, R6Tree wrapped to log node ids), replays it through the compiled model and compares parent and cost of every '
       'inserted node and the returned path; the tree invariants are recomputed on the real tree with a brute-force nearest-neighbour search.')
TRUSTED = ['Lean 4.33 kernel + Mathlib v4.33 (axioms: propext, Classical.choice, Quot.sound)', 'harness/c16.py (trace recording through wrapped callbacks / R6Tree methods, brute-force oracle)',
           'rtree (libspatialindex) nearest-neighbour queries and pickling of stored nodes: modelled as an arbitrary oracle; termination of the rejection loop assumed (adversarial bounds can loop forever)']
ASSUMPTIONS = ['callbacks are deterministic functions of their arguments', 'no rewiring of existing nodes (the code has that step commented out)']
RULE = ('planner runs over seeds x obstruction layouts (0..12 boxes, generated terrain) x bounds x iteration budgets x distance modes x neighbour limits x callback sets; '
        'distinct = distinct configurations; non-trivial = at least one node was re-parented in the choose-parent step or a sample was rejected')
SAMPLED = []


def libs():
    from basic_robotics.path_planning.pathplanner import RRTStar, PathNode, R6Tree
    from basic_robotics.general import tm, fsr
    return RRTStar, PathNode, R6Tree, tm, fsr


def one_run(cfg):
    """run the real planner under recording wrappers; returns dict with trace, tree, path, violations"""
    RRTStar, PathNode, R6Tree, tm, fsr = libs()
    rnd = random.Random(cfg['seed'])
    start = [rnd.uniform(-1, 1) for _ in range(3)] + [0.0, 0.0, 0.0]
    planner = RRTStar(tm(list(start)))
    planner.iterations = cfg['iterations']
    planner.nearest_neighbors_limit = cfg['k']
    planner.dmode = cfg['dmode']
    planner.maximum_distance = cfg['dmax']
    planner.minimum_distance = cfg['dmin']
    B = cfg['bound']
    planner.bounds = [[-B, B]] * 3 + [[-0.5, 0.5]] * 3
    for _ in range(cfg['boxes']):
        lo = [rnd.uniform(-B, B) for _ in range(3)]
        planner.addObstruction(lo, [lo[i] + rnd.uniform(0.2, B / 2) for i in range(3)])
    if cfg.get('terrain'):
        import random as _r
        _r.seed(cfg['seed'])
        planner.generateTerrain(2 * B, 2 * B, B / 2, B / 2, 1.0, -B, -B)
    out = {'cfg': cfg, 'viol': [], 'iters': [], 'nodes': {}, 'rejects': 0}
    vid = [0]
    log = {'attempt': None}

    walk = [np.array(start[:3])]

    def gen():
        vid[0] += 1
        if cfg.get('walker'):      # caller-supplied generator that mostly extends the last sample: deep chains
            if rnd.random() < 0.7:
                walk[0] = walk[0] + np.array([rnd.uniform(0.2, 0.8) * max(cfg['dmin'], 0.3), rnd.uniform(-0.1, 0.1), rnd.uniform(-0.1, 0.1)])
                p = walk[0]
            else:
                p = walk[0] + np.array([rnd.uniform(-1, 1) for _ in range(3)])
            n = PathNode(tm([p[0], p[1], p[2], 0.0, 0.0, 0.0]))
        else:
            n = PathNode(tm([rnd.uniform(-B, B) for _ in range(3)] + [rnd.uniform(-0.5, 0.5) for _ in range(3)]))
        n.vid = vid[0]
        return n

    if cfg['custom_cb'] == 2:
        # a DIRECTION-DEPENDENT travel cost (climbing costs three times descending): d(a, b) != d(b, a), so the order in which the planner
        # hands the two positions to the callback matters
        dist = (lambda a, b: float(abs(a[0] - b[0]) + abs(a[1] - b[1]) + (3.0 if b[2] > a[2] else 1.0) * abs(a[2] - b[2])))
        coll = (lambda x, y: (int(round((x.getPosition()[0] + y.getPosition()[0]) * 3)) % 5 == 0))
    elif cfg['custom_cb']:
        dist = (lambda a, b: float(abs(a[0] - b[0]) + abs(a[1] - b[1]) + abs(a[2] - b[2])))       # Manhattan
        coll = (lambda x, y: (int(round((x.getPosition()[0] + y.getPosition()[0]) * 3)) % 5 == 0))      # striped 'walls'
    else:
        dist = lambda a, b: planner.distance(a, b)
        coll = lambda x, y: planner.obstruction(x, y)
    tree = planner.r6_tree_graph
    orig_nn, orig_place = tree.nearestNeighbors, tree.place
    calls = {}

    def nn(node, n):
        r = orig_nn(node, n)
        ids = [getattr(x.object, 'vid', 0) for x in r]
        calls.setdefault(getattr(node, 'vid', None), []).append(ids)
        return r

    def place(node):
        # the accepted sample of this iteration is being stored: record the oracle answers that led here
        v = node.vid
        n1 = (v, calls[v][0])            # the rejection loop's query for this (accepted) sample
        cands = (v, calls[v][-1])        # the choose-parent query
        pos = node.getPosition()
        it = {'vid': v, 'nearest': n1[1][0], 'cands': []}
        par = node.getParent()
        stored = out['nodes']
        npos = {k: s['pos'] for k, s in stored.items()}
        it['dist0'] = fl(dist(pos, _tmof(tm, stored[it['nearest']]['pos'])))
        it['coll0'] = bool(coll(node, _nodeof(PathNode, tm, stored[it['nearest']]['pos'])))
        for cid in cands[1]:
            it['cands'].append((cid, fl(dist(pos, _tmof(tm, stored[cid]['pos']))), bool(coll(node, _nodeof(PathNode, tm, stored[cid]['pos'])))))
        out['iters'].append(it)
        stored[v] = {'pos': pos.gTAA().reshape(-1).tolist(), 'parent': getattr(par, 'vid', 0), 'cost': fl(node.getCost()), 'order': len(stored)}
        return orig_place(node)

    out['nodes'][0] = {'pos': list(start), 'parent': None, 'cost': 0.0, 'order': 0}
    tree.nearestNeighbors, tree.place = nn, place
    total = [0]
    class LoopGuard(Exception):
        pass

    def gen_counted():
        total[0] += 1
        if total[0] > 400 * cfg['iterations'] + 4000:      # the rejection loop has no bound of its own: give up on layouts that accept (almost) nothing
            raise LoopGuard()
        return gen()
    goal = tm([rnd.uniform(-B, B) for _ in range(3)] + [0.0, 0.0, 0.0])
    try:
        with contextlib.redirect_stdout(io.StringIO()):
            path = planner.findPathGeneral(lambda: planner.generalGenerateTree(gen_counted, dist, coll), goal)
    except LoopGuard:
        out['skipped'] = True
        return out
    except Exception as e:
        out['viol'].append(('raises:%s' % type(e).__name__, 'planner raised %r (budget %d)' % (e, cfg['iterations'])))
        return out
    finally:
        tree.nearestNeighbors, tree.place = orig_nn, orig_place
    out['rejects'] = total[0] - cfg['iterations']
    # ---------------- falsifier: recompute the clauses on the real tree
    nodes = out['nodes']
    order = sorted(nodes, key=lambda v: nodes[v]['order'])
    allstored = orig_nn(PathNode(tm()), tree.count)
    if len(allstored) != cfg['iterations'] + 1 or tree.count != cfg['iterations'] + 1:
        out['viol'].append(('count', 'tree holds %d nodes after %d iterations' % (len(allstored), cfg['iterations'])))
    P = {v: np.array(nodes[v]['pos']) for v in nodes}
    for idx, v in enumerate(order):
        if v == 0:
            continue
        nd = nodes[v]
        p = nd['parent']
        if p not in nodes or nodes[p]['order'] >= nd['order']:
            out['viol'].append(('parent-order', 'node %d has parent %r which is not an earlier node' % (v, p))); continue
        dpar = fl(dist(_tmof(tm, nd['pos']), _tmof(tm, nodes[p]['pos'])))
        if abs(nd['cost'] - (nodes[p]['cost'] + dpar)) > 1e-9 * max(1.0, nd['cost']):
            out['viol'].append(('cost', 'node %d: stored cost %.12g != parent cost %.12g + distance %.12g' % (v, nd['cost'], nodes[p]['cost'], dpar)))
        if coll(_nodeof(PathNode, tm, nd['pos']), _nodeof(PathNode, tm, nodes[p]['pos'])):
            out['viol'].append(('edge-collides', 'node %d is linked to parent %d through a colliding segment' % (v, p)))
        # brute-force then-nearest among earlier nodes (6-D index metric)
        earlier = order[:idx]
        d6 = sorted((float(np.linalg.norm(P[v] - P[u])), u) for u in earlier)
        if len(d6) > 1 and d6[1][0] - d6[0][0] < 1e-9:
            continue        # tie in the index metric: the nearest node is ambiguous
        nearest = d6[0][1]
        dn = fl(dist(_tmof(tm, nd['pos']), _tmof(tm, nodes[nearest]['pos'])))
        if not (cfg['dmin'] <= dn <= cfg['dmax']):
            out['viol'].append(('range', 'accepted sample %d at distance %.6g from its then-nearest node, outside [%g, %g]' % (v, dn, cfg['dmin'], cfg['dmax'])))
        kset = [u for _, u in d6[:cfg['k']]]
        if len(d6) > cfg['k'] and d6[cfg['k']][0] - d6[cfg['k'] - 1][0] < 1e-9:
            continue
        best = dn + nodes[nearest]['cost']
        for u in kset:
            du = fl(dist(_tmof(tm, nd['pos']), _tmof(tm, nodes[u]['pos'])))
            if du + nodes[u]['cost'] < best and not coll(_nodeof(PathNode, tm, nd['pos']), _nodeof(PathNode, tm, nodes[u]['pos'])):
                best = du + nodes[u]['cost']
        if abs(nd['cost'] - best) > 1e-9 * max(1.0, best):
            out['viol'].append(('argmin', 'node %d attached at cost %.12g but the cheapest collision-free candidate costs %.12g' % (v, nd['cost'], best)))
    # path
    try:
        pp = [np.asarray(x.gTAA()).reshape(-1) for x in path]
        if G.gt(np.max(np.abs(pp[0] - np.array(start))), 1e-12) or G.gt(np.max(np.abs(pp[-1] - goal.gTAA().reshape(-1))), 1e-12):
            out['viol'].append(('path-ends', 'path does not start at the start pose / end with the goal'))
        byorder = {tuple(np.round(nodes[v]['pos'], 12)): v for v in nodes}
        ids = [byorder.get(tuple(np.round(q, 12))) for q in pp[:-1]]
        if None in ids or ids[0] != 0 or any(nodes[ids[i + 1]]['parent'] != ids[i] for i in range(len(ids) - 1)):
            out['viol'].append(('path-links', 'path does not follow parent links of the tree: %r' % (ids,)))
        out['path_ids'] = ids
    except Exception as e:
        out['viol'].append(('path-raises', repr(e)))
    return out


def fl(x):
    return float(np.asarray(x, dtype=float).reshape(-1)[0])


def _tmof(tm, pos):
    return tm([float(x) for x in pos])


def _nodeof(PathNode, tm, pos):
    return PathNode(tm([float(x) for x in pos]))


def _worker(cfgs):
    res = []
    for cfg in cfgs:
        o = one_run(cfg)
        # model replay
        lines, expect = ['rrt.reset'], [None]
        idmap = {0: 0}
        for it in o['iters']:
            idmap[it['vid']] = len(idmap)
        for it in o['iters']:
            nd = o['nodes'][it['vid']]
            line = 'rrt.iter %d %s %d' % (idmap[it['nearest']], C.f2h(it['dist0']), int(it['coll0']))
            for cid, d, c in it['cands']:
                line += ' %d %s %d' % (idmap[cid], C.f2h(d), int(c))
            lines.append(line)
            expect.append((idmap.get(nd['parent'], -1), nd['cost']))
        if o.get('path_ids'):
            lines.append('rrt.path %d' % idmap[o['path_ids'][-1]])
            expect.append(('path', [idmap[i] for i in o['path_ids']]))
        mism = []
        try:
            model = C.Driver().batch(lines)
            for rep, ex, line in zip(model, expect, lines):
                if ex is None:
                    continue
                if ex[0] == 'path':
                    if [int(x) for x in rep.split()] != ex[1]:
                        mism.append({'request': line, 'model': rep, 'impl': ex[1]})
                    continue
                t = rep.split()
                if rep == 'bad-op' or int(t[0]) != ex[0] or abs(C.h2f(t[1]) - ex[1]) > 1e-9 * max(1.0, abs(ex[1])):
                    mism.append({'request': line[:80], 'model': rep if rep == 'bad-op' else [int(t[0]), C.h2f(t[1])], 'impl': list(ex)})
        except Exception as e:
            mism.append({'driver': str(e)[:200]})
        reparented = sum(1 for it in o['iters'] if o['nodes'][it['vid']]['parent'] != it['nearest'])
        res.append({'cfg': cfg, 'skipped': bool(o.get('skipped')), 'viol': o['viol'][:3], 'mism': mism[:2], 'nodes': len(o['nodes']), 'rejects': o['rejects'], 'reparented': reparented})
    return res


def configs(rnd, n, maxbudget):
    out = []
    for i in range(n):
        out.append({'seed': rnd.randrange(1 << 30), 'iterations': rnd.choice([1, 1, 2, 3, 5, 10, 30, rnd.randint(1, maxbudget)]),
                    'k': rnd.choice([1, 2, 5, 15, 20]), 'dmode': rnd.choice([0, 1]), 'dmax': rnd.choice([1.0, 2.5, 100.0]), 'dmin': rnd.choice([0.0, 0.1, 0.3]),
                    'bound': rnd.choice([2.0, 5.0, 10.0]), 'boxes': rnd.randint(0, 12), 'terrain': rnd.random() < 0.15, 'custom_cb': rnd.choice([0, 0, 0, 0, 1, 1, 2, 2]), 'walker': rnd.random() < 0.25})
    return out


def replay(data):
    o = one_run(data['input'])
    print('configuration:', data['input'])
    print('violations:', o['viol'][:5] or 'none')
    return not o['viol']


def run(res, tier, seed, driver_ok):
    rnd = random.Random(seed * 7919 + 16)
    thorough = tier == 'thorough'
    cfgs = configs(rnd, 1500 if thorough else 64, 400 if thorough else 60)
    nproc = min(16, os.cpu_count() or 1)
    chunk = max(1, (len(cfgs) + nproc * 2 - 1) // (nproc * 2))
    parts = [cfgs[i:i + chunk] for i in range(0, len(cfgs), chunk)]
    with mp.Pool(nproc) as pool:
        outs = pool.map(_worker, parts)
    nodes = rej = rep = skipped = 0
    for part in outs:
        for r in part:
            res.evaluations += 1
            skipped += r['skipped']
            nodes += r['nodes']; rej += r['rejects']; rep += r['reparented']
            if r['rejects'] or r['reparented']:
                res.distinct.add(json_key(r['cfg']))
            for key, text in r['viol']:
                res.violations.append({'key': 'rrt:%s%s' % (key, ':budget1' if r['cfg']['iterations'] == 1 and key.startswith('raises') else ''),
                                       'input': r['cfg'], 'observed': text, 'what': 'RRT* tree/path invariant fails on the real planner'})
            if driver_ok:
                for m in r['mism']:
                    if len(res.mismatches) < 10:
                        res.mismatches.append(dict(m, cfg=r['cfg']))
    res.stats.update({'planner_runs': len(cfgs), 'nodes_checked': nodes, 'rejected_samples': rej, 'reparented_nodes': rep, 'runs_abandoned_rejection_loop_unbounded': skipped})
    res.sample(cfgs[0]); res.sample(cfgs[-1])


def json_key(cfg):
    return tuple(sorted(cfg.items()))
