"""C07 — arm inverse kinematics never claims a pose it has not reached."""
import os, sys, random, math, io, contextlib
import numpy as np
import scipy.linalg as sla
import common as C
import gen as G
import armh

PROP = 'C07'
LEAN_MODULES = ['BR.Props.C07']
THEOREMS = ['BR.C07.ikc_success_sound', 'BR.C07.ikc_unreachable_never_true', 'BR.C07.ikLoop_range', 'BR.C07.clamp_inLimits', 'BR.C07.ikc_in_limits',
            'BR.C07.ik_state_coherent', 'BR.C02.ikLoop_success_sound', 'BR.C02.ikLoop_failure_means_error']
TIE = ('K by postcondition transfer: the (theta, success) returned by the real Arm.IK / constrainedIK / IK(protect=True) is sent, with the arm\'s stored screws, home, goal and configured tolerances, '
       'to the compiled model (lean/BR/Model/IK.lean), which recomputes FK, the space-frame error twist and both comparisons; its verdict must equal the flag (cases within 1e-9 of a threshold are skipped and counted).')
TRUSTED = ['Lean 4.33 kernel + Mathlib v4.33 (axioms: propext, Classical.choice, Quot.sound)', 'harness/armh.py, harness/c07.py (goal generators, independent scipy logm error twist)',
           'np.linalg.pinv and random restarts are oracles of the model; local convergence of Newton\'s method is sampled, not proved']
ASSUMPTIONS = ['position tolerance != orientation tolerance in the generated settings', 'error measured as the space-frame error twist (angular part vs orientation tolerance, linear part vs position tolerance)']
RULE = ('arms (6R test arm, random chains; identity / random bases) x goals (FK of in-limit vectors, beyond reach, on the limit boundary) x starts (near, far) x tolerance settings x both solver paths x restarts on/off; '
        'distinct = distinct (arm, goal, start, settings); non-trivial = the solver iterated at least once')
SAMPLED = ['local convergence: started within 0.02 rad of an in-limit non-singular solution the solver succeeds (sampled on the implementation)']


def err_twist_ref(T_fk, T_goal):
    """independent space-frame error twist via scipy logm"""
    X = np.linalg.inv(T_fk) @ T_goal
    L = np.real(sla.logm(X))
    Vb = np.array([L[2, 1], L[0, 2], L[1, 0], L[0, 3], L[1, 3], L[2, 3]])
    return armh.Ad(T_fk) @ Vb


def run(res, tier, seed, driver_ok):
    rnd = random.Random(seed * 7919 + 7)
    thorough = tier == 'thorough'
    tm = armh.libs()[0]
    N = 4000 if thorough else 150
    lines, expect = [], []
    stats = {'success': 0, 'failure': 0, 'unreachable': 0, 'local_conv_tried': 0, 'near_threshold_skipped': 0}

    def bad(key, what, inp, obs):
        if len(res.violations) < 40:
            res.violations.append({'key': key, 'what': what, 'input': inp, 'observed': obs})

    for n in range(N):
        kind = rnd.choice(['six_r', 'chain', 'chain', 'urdf:' + rnd.choice(armh.URDFS)])
        base6 = [0.0] * 6 if rnd.random() < 0.5 else list(np.concatenate([G.translation(rnd, 2.0), G.rotvec(rnd, 'generic')[0]]))
        seed_arm = rnd.randrange(1 << 30)
        try:
            with contextlib.redirect_stdout(io.StringIO()):
                arm, spec = armh.build(random.Random(seed_arm), kind, base6)
        except Exception as e:
            bad('raises:constructor:%s' % type(e).__name__, 'Arm(...) raised', {'arm': kind}, repr(e)); break
        nj = spec.n
        lim = rnd.choice([2 * math.pi, 2.0, 1.0])
        if kind.startswith('urdf:'):
            lo, hi = spec.mins.copy(), spec.maxs.copy()                  # the file's own limits (asymmetric for irb_2400)
        elif rnd.random() < 0.5:
            lo, hi = np.ones(nj) * -lim, np.ones(nj) * lim
        else:                                                             # asymmetric limits: |lower| != upper, per joint
            lo = -lim * np.array([rnd.uniform(0.3, 1.0) for _ in range(nj)]); hi = lim * np.array([rnd.uniform(0.3, 1.0) for _ in range(nj)])
        if not kind.startswith('urdf:'):
            arm.setJointProperties(lo.copy(), hi.copy())
        spec.mins, spec.maxs = lo.copy(), hi.copy()
        mid, half = (lo + hi) / 2, (hi - lo) / 2
        # a third of the arms carry a tool: the tool frame was changed (setArbitraryHome) and not restored before the solve
        tool6 = None
        if rnd.random() < 0.33:
            tool6 = list(np.concatenate([G.translation(rnd, 0.5), G.rotvec(rnd, rnd.choice(['zero', 'one', 'generic']))[0]]))
            Dm = armh.T6(np.array(tool6, dtype=float))
            with contextlib.redirect_stdout(io.StringIO()):
                arm.setArbitraryHome(tm(arm.getEEPos().gTM() @ Dm))
            spec.M = spec.M @ Dm
        pos_tol, rot_tol = rnd.choice([(1e-4, 1e-5), (1e-3, 1e-4), (1e-5, 1e-4), (1e-4, 1e-3)])
        arm.pos_tolerance, arm.rot_tolerance = pos_tol, rot_tol
        baseT = armh.T6(spec.base6)
        gk = rnd.choice(['reachable', 'reachable', 'reachable', 'boundary', 'beyond'])
        thg = mid + half * 0.9 * np.array([rnd.uniform(-1, 1) for _ in range(nj)])
        if gk == 'boundary':
            j = rnd.randrange(nj); thg[j] = rnd.choice([lo[j], hi[j]])
        goal = spec.fk(baseT, spec.M, thg)
        if gk == 'beyond':
            goal = goal.copy(); goal[:3, 3] += G.axis(rnd) * 60.0
        start = thg + np.array([rnd.uniform(-0.02, 0.02) for _ in range(nj)]) if rnd.random() < 0.5 else np.array([rnd.uniform(lo[j_], hi[j_]) for j_ in range(nj)])
        start = np.clip(start, lo, hi)
        path = rnd.choice(['constrained', 'constrained', 'free'])
        check = rnd.random() < 0.5
        res.evaluations += 1
        res.distinct.add((seed_arm, n))
        # how the start is handed over: a private copy, not at all (the solver starts from the arm's stored state), or the very array
        # the arm was last given (so the stored state and the start may share memory)
        form = rnd.choice(['copy', 'copy', 'omitted', 'same_array'])
        try:
            with contextlib.redirect_stdout(io.StringIO()):
                kw = {'check': check}
                if path != 'constrained':
                    kw['protect'] = True
                if form == 'copy':
                    th, ok = arm.IK(tm(goal), start.copy(), **kw)
                elif form == 'omitted':
                    arm.FK(start.copy())
                    th, ok = arm.IK(tm(goal), **kw)
                else:
                    shared = start.copy()
                    arm.FK(shared)
                    th, ok = arm.IK(tm(goal), shared, **kw)
        except Exception as e:
            bad('raises:IK:%s:%s' % (path, type(e).__name__), 'IK raised', {'arm': kind, 'path': path}, repr(e)); continue
        th = np.asarray(th, dtype=float).reshape(-1)
        ok = bool(ok)
        inp = {'arm': kind, 'seed_arm': seed_arm, 'base6': list(base6), 'limit': [lo.tolist(), hi.tolist()], 'pos_tol': pos_tol, 'rot_tol': rot_tol, 'goal_kind': gk, 'theta_goal': thg.tolist(),
               'start': start.tolist(), 'path': path, 'check': check, 'start_form': form, 'tool_change': tool6}
        T_fk = spec.fk(baseT, spec.M, th)           # independent FK of the returned vector (no clamping: the vector itself is judged)
        if ok:
            stats['success'] += 1
            V = err_twist_ref(T_fk, goal)
            eo, ev = float(np.linalg.norm(V[:3])), float(np.linalg.norm(V[3:]))
            if eo > rot_tol * (1 + 1e-6) + 1e-12 or ev > pos_tol * (1 + 1e-6) + 1e-12:
                bad('false-success:%s:%s' % (path, 'orientation' if eo > rot_tol * (1 + 1e-6) else 'position'),
                    'IK reports success but FK of the returned joint vector misses the configured tolerance', inp, {'orientation_error': eo, 'rot_tol': rot_tol, 'position_error': ev, 'pos_tol': pos_tol})
            if gk == 'beyond':
                bad('unreachable-reached:%s' % path, 'a goal beyond reach was reported as reached', inp, None)
            if path == 'constrained' and (np.any(th < lo - 1e-12) or np.any(th > hi + 1e-12)):
                bad('out-of-limits', 'limit-respecting solver returned a joint vector outside the limits', inp, th.tolist())
            st = np.asarray(arm._theta, dtype=float).reshape(-1)
            d = (st - th) / (2 * math.pi)
            if G.gt(np.max(np.abs(d - np.round(d))), 1e-9):
                bad('state-not-solution:%s' % path, 'after a successful solve the arm\'s stored joint vector is not the returned solution', inp, {'stored': st.tolist(), 'returned': th.tolist()})
        else:
            stats['failure'] += 1
            if gk == 'beyond':
                stats['unreachable'] += 1
        # coherent state either way
        st = np.asarray(arm._theta, dtype=float).reshape(-1)
        ee = arm.getEEPos().gTM()
        cands = [spec.fk(baseT, spec.M, np.clip(st, lo, hi)), spec.fk(baseT, spec.M, st)]
        if np.any((np.abs(st) > 0) & (np.abs(st) < 1e-6)):
            # a stored joint angle inside the exponential's 1e-6 cut-off band (e.g. 2*pi + 5e-7 wrapped by angleMod): the library's FK
            # treats that joint as not turned, the exact product of exponentials differs by up to 1e-6 * lever. The pose of the stored
            # vector *as the library computes it* is the reference then (the band itself is the C12/C01 known-finding topic, not C07's).
            from basic_robotics.general import fmr as _fmr
            cands.append(np.asarray(_fmr.FKinSpace(arm._end_effector_home.gTM(), np.ascontiguousarray(arm.screw_list, dtype=float), st.copy()), dtype=float))
            stats['joint_angle_in_cutoff_band'] = stats.get('joint_angle_in_cutoff_band', 0) + 1
        if min(G.maxdiff(ee, c) for c in cands) > 1e-7 * max(1.0, np.max(np.abs(ee))):
            bad('incoherent-after-%s:%s' % ('success' if ok else 'failure', path), 'after IK the reported tool pose is not the pose of the stored joint vector', inp,
                {'diff': min(G.maxdiff(ee, c) for c in cands)})
        # targeted starts: the start IS a solution of a nearby goal — the goal is that pose displaced along one basis twist by 0.5x / 3x / 8x
        # the tolerance of that component — so the solver's test of the starting vector decides; both paths, every tolerance pair
        if n % 2 == 0:
            ths = mid + half * 0.8 * np.array([rnd.uniform(-1, 1) for _ in range(nj)])
            T0 = spec.fk(baseT, spec.M, ths)
            for k in (rnd.randrange(3), 3 + rnd.randrange(3)):
                for mult in (0.5, 3.0, 8.0):
                    tw = np.zeros(6); tw[k] = mult * (rot_tol if k < 3 else pos_tol)
                    goal2 = T0 @ armh.expm6(tw / np.linalg.norm(tw), float(np.linalg.norm(tw)))
                    for path2 in ('constrained', 'free'):
                        stats['targeted_starts'] = stats.get('targeted_starts', 0) + 1
                        try:
                            with contextlib.redirect_stdout(io.StringIO()):
                                th2, ok2 = arm.IK(tm(goal2), ths.copy(), check=False, protect=(path2 == 'free'))
                        except Exception as e:
                            bad('raises:IK:%s:%s' % (path2, type(e).__name__), 'IK raised', {'arm': kind, 'path': path2}, repr(e)); continue
                        if not ok2:
                            continue
                        th2 = np.asarray(th2, dtype=float).reshape(-1)
                        st2 = np.asarray(arm._theta, dtype=float).reshape(-1)
                        d2_ = (st2 - th2) / (2 * math.pi)
                        if len(st2) != len(th2) or G.gt(float(np.max(np.abs(d2_ - np.round(d2_)))), 1e-9):
                            bad('state-not-solution:%s' % path2, 'after a successful solve the arm\'s stored joint vector is not the returned solution (an earlier solve on the same arm had failed)' if stats['failure'] else
                                'after a successful solve the arm\'s stored joint vector is not the returned solution', {'arm': kind, 'seed_arm': seed_arm, 'path': path2, 'history': 'earlier solves on this arm, then a solve started at a solution'},
                                {'stored': st2.tolist(), 'returned': th2.tolist()})
                        V2 = err_twist_ref(spec.fk(baseT, spec.M, th2), goal2)
                        eo2, ev2 = float(np.linalg.norm(V2[:3])), float(np.linalg.norm(V2[3:]))
                        if eo2 > rot_tol * (1 + 1e-6) + 1e-12 or ev2 > pos_tol * (1 + 1e-6) + 1e-12:
                            bad('false-success:%s:%s' % (path2, 'orientation' if eo2 > rot_tol * (1 + 1e-6) else 'position'),
                                'IK reports success but FK of the returned joint vector misses the configured tolerance',
                                {'arm': kind, 'seed_arm': seed_arm, 'base6': list(base6), 'limit': [lo.tolist(), hi.tolist()], 'pos_tol': pos_tol, 'rot_tol': rot_tol, 'tool_change': tool6, 'start_is_solution_of_displaced_goal': True,
                                 'theta_start': ths.tolist(), 'displaced_component': k, 'multiple_of_tolerance': mult, 'path': path2},
                                {'orientation_error': eo2, 'rot_tol': rot_tol, 'position_error': ev2, 'pos_tol': pos_tol})
        # local convergence clause (sampled)
        if gk == 'reachable' and np.all(thg >= lo + 0.15) and np.all(thg <= hi - 0.15):
            J = arm.jacobian(thg.copy())
            sv = np.linalg.svd(J, compute_uv=False)
            if sv[min(nj, 6) - 1] >= 0.05 and nj >= 6:
                stats['local_conv_tried'] += 1
                s0 = thg + np.array([rnd.uniform(-0.02, 0.02) for _ in range(nj)]) / math.sqrt(nj)
                with contextlib.redirect_stdout(io.StringIO()):
                    _, ok2 = arm.IK(tm(goal), s0.copy(), check=False)
                if not ok2:
                    bad('no-local-convergence', 'started within 0.02 rad of an in-limit non-singular solution the solver fails', inp, {'min_singular_value': float(sv[-1])})
        # postcondition transfer to the model
        S_glob = np.asarray(arm.screw_list, dtype=float)
        home = arm._end_effector_home.gTM()
        H = lambda xs: ' '.join(C.f2h(x) for x in np.asarray(xs, dtype=float).reshape(-1))
        lines.append('ik.check %s %s %s %s %s %s %s' % (C.f2h(nj), H(home), H(S_glob.T), H(goal), C.f2h(rot_tol), C.f2h(pos_tol), H(th)))
        expect.append((ok, rot_tol, pos_tol, inp))
        if n < 2:
            res.sample({k: inp[k] for k in ('arm', 'goal_kind', 'path', 'pos_tol', 'rot_tol', 'check')})
    ncmp = 0
    if driver_ok and lines:
        try:
            model = C.Driver().batch(lines)
            for rep, (ok, rt, pt, inp), line in zip(model, expect, lines):
                if rep == 'bad-op':
                    res.mismatches.append({'request': line[:40], 'model': 'bad-op'}); continue
                e, eo, ev = [C.h2f(t) for t in rep.split()]
                if not (math.isfinite(eo) and math.isfinite(ev)):
                    continue
                if abs(eo - rt) <= 1e-9 * rt + 1e-15 or abs(ev - pt) <= 1e-9 * pt + 1e-15:
                    stats['near_threshold_skipped'] += 1; continue
                ncmp += 1
                if (e == 0.0) != ok and len(res.mismatches) < 10:
                    res.mismatches.append({'impl_success': ok, 'model_err': e, 'model_orientation_error': eo, 'rot_tol': rt, 'model_position_error': ev, 'pos_tol': pt, 'case': {k: inp[k] for k in ('arm', 'path', 'goal_kind')}})
        except Exception as e:
            res.mismatches.append({'driver': str(e)[:300]})
    stats['model_verdicts_compared'] = ncmp
    res.stats.update(stats)


def replay(data):
    print('recorded:', data.get('key'), data.get('what'), data.get('observed'))
    inp = data['input']
    tm = armh.libs()[0]
    with contextlib.redirect_stdout(io.StringIO()):
        arm, spec = armh.build(random.Random(inp['seed_arm']), inp['arm'], inp['base6'])
    n = spec.n; lim = inp['limit']
    if not inp['arm'].startswith('urdf:'):
        if isinstance(lim, list):
            arm.setJointProperties(np.array(lim[0], dtype=float), np.array(lim[1], dtype=float))
        else:
            arm.setJointProperties(np.ones(n) * -lim, np.ones(n) * lim)
    arm.pos_tolerance, arm.rot_tolerance = inp['pos_tol'], inp['rot_tol']
    if inp.get('tool_change'):
        Dm = armh.T6(np.array(inp['tool_change'], dtype=float))
        with contextlib.redirect_stdout(io.StringIO()):
            arm.setArbitraryHome(tm(arm.getEEPos().gTM() @ Dm))
        spec.M = spec.M @ Dm
    baseT = armh.T6(spec.base6)
    if inp.get('start_is_solution_of_displaced_goal'):
        ths = np.array(inp['theta_start'])
        k = inp['displaced_component']
        tw = np.zeros(6); tw[k] = inp['multiple_of_tolerance'] * (inp['rot_tol'] if k < 3 else inp['pos_tol'])
        goal = spec.fk(baseT, spec.M, ths) @ armh.expm6(tw / np.linalg.norm(tw), float(np.linalg.norm(tw)))
        inp = dict(inp, start=ths.tolist())
    else:
        goal = spec.fk(baseT, spec.M, np.array(inp['theta_goal']))
    with contextlib.redirect_stdout(io.StringIO()):
        form = inp.get('start_form', 'copy')
        st0 = np.array(inp['start'], dtype=float)
        if form == 'omitted':
            arm.FK(st0.copy()); th, ok = arm.IK(tm(goal), check=False, protect=(inp['path'] == 'free'))
        elif form == 'same_array':
            arm.FK(st0); th, ok = arm.IK(tm(goal), st0, check=False, protect=(inp['path'] == 'free'))
        else:
            th, ok = arm.IK(tm(goal), st0, check=False, protect=(inp['path'] == 'free'))
    V = err_twist_ref(spec.fk(baseT, spec.M, np.asarray(th).reshape(-1)), goal)
    print('success =', ok, ' orientation error', np.linalg.norm(V[:3]), 'tol', inp['rot_tol'], ' position error', np.linalg.norm(V[3:]), 'tol', inp['pos_tol'])
    return (not ok) or (np.linalg.norm(V[:3]) <= inp['rot_tol'] * (1 + 1e-6) and np.linalg.norm(V[3:]) <= inp['pos_tol'] * (1 + 1e-6))
