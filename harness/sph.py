"""Building real Stewart platforms across the geometry ranges of C09 and independent references."""
import math, io, contextlib
import numpy as np
import gen as G


def libs():
    from basic_robotics.general import tm, fsr, Wrench
    from basic_robotics.kinematics import SP
    from basic_robotics.kinematics.sp_model import newSP
    return tm, fsr, Wrench, SP, newSP


def T6(v):
    T = np.eye(4); T[:3, :3] = G.rot_ref(v[3:]); T[:3, 3] = v[:3]
    return T


def geometry(rnd):
    rb = rnd.uniform(0.2, 2.0)
    ratio = rnd.uniform(0.3, 1.0)
    g = {'rb': rb, 'rt': rb * ratio, 'bspace': rnd.uniform(5, 40), 'tspace': rnd.uniform(5, 40),
         'bth': rnd.uniform(0, 0.1) * rb, 'tth': rnd.uniform(0, 0.1) * rb,
         'lmin': rnd.uniform(0.8, 1.5) * rb, 'rot': rnd.choice([1, -1])}
    g['lmax'] = g['lmin'] * rnd.uniform(1.5, 2.0)
    return g


def build(rnd, g=None, base6=None):
    tm, fsr, Wrench, SP, newSP = libs()
    g = g or geometry(rnd)
    base6 = np.zeros(6) if base6 is None else np.asarray(base6, dtype=float)
    with contextlib.redirect_stdout(io.StringIO()):
        sp = newSP(g['rb'], g['rt'], g['bspace'], g['tspace'], g['bth'], g['tth'], 0.9, 0.5, 1.0, 6.0, 0.2 * g['lmin'], 0.2 * g['lmin'],
                   g['lmin'], g['lmax'], tm(list(base6)), 'sp', g['rot'])
    return sp, g


def local_joints(sp):
    return np.array(sp._bottom_joints_local, dtype=float).copy(), np.array(sp._top_joints_local, dtype=float).copy()


def lengths_ref(bj, tj, Tb, Tt):
    out = []
    for i in range(6):
        b = Tb[:3, :3] @ bj[:, i] + Tb[:3, 3]
        t = Tt[:3, :3] @ tj[:, i] + Tt[:3, 3]
        out.append(np.linalg.norm(t - b))
    return np.array(out)


def rel_pose(rnd, h, scale=1.0):
    """relative plate pose inside the property's workspace: lateral <= 20% h, height within 15% h, rotation comps <= 0.3 rad"""
    return np.array([rnd.uniform(-0.2, 0.2) * h * scale, rnd.uniform(-0.2, 0.2) * h * scale, h * (1 + rnd.uniform(-0.15, 0.15) * scale),
                     rnd.uniform(-0.3, 0.3) * scale, rnd.uniform(-0.3, 0.3) * scale, rnd.uniform(-0.3, 0.3) * scale])
