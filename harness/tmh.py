"""Driving real `tm` objects with the op lines the Lean Tm model understands (shared by C03/C04/C14)."""
import math
import numpy as np
import common as C
import gen as G


def libs():
    from basic_robotics.general import tm, fsr
    return tm, fsr


def H(xs):
    return ' '.join(C.f2h(x) for x in xs)


class Store:
    """a list of real tm objects; apply(op) executes one op tuple and returns (driver line, index of affected object)"""

    def __init__(self):
        self.tm, self.fsr = libs()
        self.objs = []

    def apply(self, op):
        tm, fsr = self.tm, self.fsr
        k = op[0]
        o = self.objs
        if k in ('ctor6', 'ctor6a'):
            _, rpy, v = op
            arg = [float(x) for x in v] if k == 'ctor6' else np.array(v, dtype=float)
            o.append(tm(arg, rpy=bool(rpy)) if rpy else tm(arg))
            return 'ctor6 %d %s' % (rpy, H(v)), len(o) - 1
        if k in ('ctor3', 'ctor3a'):
            _, rpy, v = op
            arg = [float(x) for x in v] if k == 'ctor3' else np.array(v, dtype=float)
            o.append(tm(arg, rpy=bool(rpy)) if rpy else tm(arg))
            return 'ctor3 %d %s' % (rpy, H(v)), len(o) - 1
        if k in ('ctor7', 'ctor7a'):
            _, v = op
            arg = [float(x) for x in v] if k == 'ctor7' else np.array(v, dtype=float)
            o.append(tm(arg))
            return 'ctor7 %s' % H(v), len(o) - 1
        if k == 'ctorTM':
            _, T = op
            o.append(tm(np.array(T, dtype=float)))
            return 'ctorTM %s' % H(np.asarray(T).reshape(-1)), len(o) - 1
        if k == 'ctorCopy':
            o.append(tm(o[op[1]]))
            return 'ctorCopy %d' % op[1], len(o) - 1
        if k == 'ctorCopyArr':
            arr = np.empty(1, dtype=object); arr[0] = o[op[1]]
            o.append(tm(arr))
            return 'ctorCopyArr %d' % op[1], len(o) - 1
        if k == 'sTM':
            _, i, T = op
            o[i].sTM(np.array(T, dtype=float))
            return 'sTM %d %s' % (i, H(np.asarray(T).reshape(-1))), i
        if k == 'sTAA':
            _, i, v = op
            o[i].sTAA(np.array(v, dtype=float).reshape((6, 1)))
            return 'sTAA %d %s' % (i, H(v)), i
        if k == 'set':
            _, i, kk, x = op
            o[i].set(kk, float(x))
            return 'set %d %d %s' % (i, kk, C.f2h(x)), i
        if k == 'setitem':
            _, i, kk, x = op
            o[i][kk] = float(x)
            return 'set %d %d %s' % (i, kk, C.f2h(x)), i
        if k in ('setPos', 'setRot'):
            _, i, v, form = op
            sl = slice(0, 3) if k == 'setPos' else slice(3, 6)
            o[i][sl] = (np.array(v, dtype=float).reshape((3, 1)) if form else [float(x) for x in v])
            return '%s %d %s' % (k, i, H(v)), i
        if k == 'setQuat':
            _, i, q = op
            o[i].setQuat(np.array(q, dtype=float))
            return 'setQuat %d %s' % (i, H(q)), i
        if k == 'angleMod':
            o[op[1]].angleMod()
            return 'angleMod %d' % op[1], op[1]
        if k == 'copy':
            o.append(o[op[1]].copy()); return 'copy %d' % op[1], len(o) - 1
        if k == 'inv':
            o.append(o[op[1]].inv()); return 'inv %d' % op[1], len(o) - 1
        if k == 'matmul':
            o.append(o[op[1]] @ o[op[2]]); return 'matmul %d %d' % (op[1], op[2]), len(o) - 1
        if k == 'add':
            o.append(o[op[1]] + o[op[2]]); return 'add %d %d' % (op[1], op[2]), len(o) - 1
        if k == 'sub':
            o.append(o[op[1]] - o[op[2]]); return 'sub %d %d' % (op[1], op[2]), len(o) - 1
        if k == 'mulS':
            o.append(o[op[1]] * float(op[2])); return 'mulS %d %s' % (op[1], C.f2h(op[2])), len(o) - 1
        if k == 'rmulS':
            o.append(float(op[2]) * o[op[1]]); return 'mulS %d %s' % (op[1], C.f2h(op[2])), len(o) - 1
        if k == 'divS':
            o.append(o[op[1]] / float(op[2])); return 'divS %d %s' % (op[1], C.f2h(op[2])), len(o) - 1
        if k == 'abs':
            o.append(abs(o[op[1]])); return 'abs %d' % op[1], len(o) - 1
        if k == 'floordivS':
            o.append(o[op[1]] // float(op[2])); return 'floordivS %d %s' % (op[1], C.f2h(op[2])), len(o) - 1
        if k == 'floordiv':
            o.append(o[op[1]] // o[op[2]]); return 'floordiv %d %d' % (op[1], op[2]), len(o) - 1
        if k == 'l2g':
            o.append(fsr.localToGlobal(o[op[1]], o[op[2]])); return 'l2g %d %d' % (op[1], op[2]), len(o) - 1
        if k == 'g2l':
            o.append(fsr.globalToLocal(o[op[1]], o[op[2]])); return 'g2l %d %d' % (op[1], op[2]), len(o) - 1
        raise ValueError(op)

    def state(self, i):
        t = self.objs[i]
        return np.asarray(t.gTM(), dtype=float), np.asarray(t.gTAA(), dtype=float)


def coherence_error(TM, TAA):
    """independent statement of C03 on one object: shapes, SE(3) membership, TM vs exp of TAA; returns (text or None)"""
    if TM.shape != (4, 4) or TAA.shape != (6, 1):
        return 'shapes TM %s TAA %s' % (TM.shape, TAA.shape)
    if not (np.all(np.isfinite(TM)) and np.all(np.isfinite(TAA))):
        return 'non-finite entries'
    R = TM[:3, :3]
    if G.gt(np.max(np.abs(R.T @ R - np.eye(3))), 5e-6) or abs(np.linalg.det(R) - 1) > 5e-6 or G.gt(np.max(np.abs(TM[3] - [0, 0, 0, 1])), 5e-6):
        return 'matrix is not in SE(3)'
    ref = np.eye(4)
    ref[:3, :3] = G.rot_ref(TAA[3:6, 0])
    ref[:3, 3] = TAA[0:3, 0]
    err = float(np.max(np.abs(ref - TM)))
    if err > 5e-6:
        return 'matrix and six-vector disagree by %.3g' % err
    return None


def parse_reply(line):
    t = line.split()
    idx = int(t[0])
    f = [C.h2f(x) for x in t[1:]]
    return idx, np.array(f[:16]).reshape(4, 4), np.array(f[16:22]).reshape(6, 1)
