"""C09 — Stewart platform: IK is exact geometry and FK inverts it."""
import os, sys, random, math, io, contextlib, warnings
import numpy as np
import common as C
import gen as G
import sph

PROP = 'C09'
LEAN_MODULES = ['BR.Props.C09']
THEOREMS = ['BR.C09.ik_is_distance', 'BR.C09.ik_rigid_invariant', 'BR.C09.ik_relative_only', 'BR.C09.fkRes_eq', 'BR.C09.raphson_residual_exit',
            'BR.C09.raphson_iters', 'BR.C09.fk_lengths_accurate', 'BR.C09.published_lengths']
TIE = ('SPIKinSpace and the whole SPFKinSpaceR loop (residuals, the approximate Jacobian dfda, height clamp, both exit tests, iteration count) are modelled in lean/BR/Model/SP.lean; '
       'the Float instance (with Gaussian elimination in place of LAPACK) is run on the same lengths/start/geometry as the numba kernels and compared: final guess to 1e-9, iteration count and exit kind exactly. '
       'IK exactness, rigid-motion invariance and FK(IK(pose)) = pose are evaluated directly on the real SP for plain, moved, re-spun and re-spun+moved platforms with both fk modes.')
TRUSTED = ['Lean 4.33 kernel + Mathlib v4.33 (axioms: propext, Classical.choice, Quot.sound)', 'harness/sph.py (geometry generator, independent numpy reference for leg lengths)',
           'np.linalg.solve is modelled by Gaussian elimination with partial pivoting (theorems hold for any solver)',
           'convergence of the quasi-Newton iteration to the pose the lengths came from is NOT a theorem: decided on the implementation (sampled)',
           'scipy.optimize.fsolve (fk_mode 0) is not modelled; its result is only accepted by the code after a length check, otherwise the Raphson path runs']
ASSUMPTIONS = ['geometries and poses as quantified in the property', 'pose and lengths recovered to 1e-3 of the neutral height']
RULE = ('random geometries (radius 0.2..2, ratio 0.3..1, spacings 5..40 deg, thickness <= 10%, min leg 0.8..1.5 radii, stroke 1.5..2, both handedness) x {plain at a random base, moved, re-spun, re-spun and moved} '
        'x relative poses in the stated workspace; FK from the neutral pose with fk_mode 0 and 1; distinct = distinct (geometry, placement, pose); non-trivial = pose accepted without corrective action')
SAMPLED = ['FK(IK(pose)) recovers the pose to 1e-3 h (convergence of the iteration from the neutral start)', 'lengths after a small-step exit (no residual guarantee)']


def run(res, tier, seed, driver_ok):
    warnings.filterwarnings('ignore')
    rnd = random.Random(seed * 7919 + 9)
    thorough = tier == 'thorough'
    tm, fsr, Wrench, SP, newSP = sph.libs()
    from basic_robotics.general import fmr
    N = 900 if thorough else 45
    lines, expect = [], []
    stats = {'ik_calls': 0, 'in_workspace': 0, 'corrective_or_invalid': 0, 'fk_runs': 0, 'raphson_compared': 0, 'exit_residual': 0, 'exit_small_step': 0,
             'exit_budget': 0, 'modes': {}}
    worst = {'pose/h': 0.0, 'lengths/h': 0.0}

    def bad(key, what, inp, obs):
        if len(res.violations) < 40:
            res.violations.append({'key': key, 'what': what, 'input': inp, 'observed': obs})

    for n_ in range(N):
        base6 = [rnd.uniform(-2, 2) for _ in range(3)] + [rnd.uniform(-1.5, 1.5) for _ in range(3)]
        mode = rnd.choice(['plain', 'moved', 'spun', 'spun_moved'])
        stats['modes'][mode] = stats['modes'].get(mode, 0) + 1
        try:
            with contextlib.redirect_stdout(io.StringIO()):
                geo = None
                if rnd.random() < 0.3:      # squat platforms: small top plate, short legs - the neutral height is close to the minimum leg length
                    geo = sph.geometry(rnd)
                    geo['rt'] = geo['rb'] * rnd.uniform(0.3, 0.4); geo['lmin'] = geo['rb'] * rnd.uniform(0.8, 0.9); geo['lmax'] = geo['lmin'] * rnd.uniform(1.5, 2.0)
                    geo['bspace'] = rnd.uniform(5, 15); geo['tspace'] = rnd.uniform(5, 15)
                sp, g = sph.build(rnd, g=geo, base6=base6 if mode == 'plain' else None)
                spin = None
                if mode in ('spun', 'spun_moved'):
                    spin = rnd.uniform(-3.1, 3.1)
                    sp.spinCustom(spin)
                if mode in ('moved', 'spun_moved'):
                    sp.move(tm(list(base6)))
        except Exception as e:
            bad('raises:setup:%s' % type(e).__name__, 'constructing / moving / re-spinning a platform raised', {'mode': mode}, repr(e)[:200]); continue
        h = sp._nominal_height
        bj, tj = sph.local_joints(sp)
        legs = []
        for i in range(6):
            legs += list(bj[:, i]) + list(tj[:, i])
        inp0 = {'geometry': g, 'mode': mode, 'base6': base6, 'spin': spin, 'case': n_, 'seed': seed}
        for t_ in range(3):
            rel = sph.rel_pose(rnd, h)
            if t_ == 2:
                rel[2] = h * (1 - rnd.uniform(0.08, 0.15))     # the low end of the height range
            Tb = sp.getBottomT().gTM().copy()
            Tt = Tb @ sph.T6(rel)
            inp = dict(inp0); inp['rel_pose'] = list(rel)
            res.evaluations += 1
            stats['ik_calls'] += 1
            try:
                with contextlib.redirect_stdout(io.StringIO()):
                    L, valid = sp.IK(tm(Tt))
            except Exception as e:
                bad('raises:IK:%s' % type(e).__name__, 'IK raised', inp, repr(e)[:200]); continue
            L = np.array(L, dtype=float).reshape(-1)
            ref = sph.lengths_ref(bj, tj, Tb, Tt)
            if np.abs(L - ref).max() > 1e-9 * max(1.0, h):
                bad('ik-exact:%s' % mode, 'IK lengths differ from the joint-to-joint distances', inp, {'lib': list(L), 'ref': list(ref)})
            accepted = bool(valid) and np.abs(sp.getTopT().gTM() - Tt).max() < 1e-12 and L.min() >= sp.leg_ext_min and L.max() <= sp.leg_ext_max
            # rigid-motion invariance (protected IK so that no corrective action interferes)
            Gm = sph.T6([rnd.uniform(-3, 3) for _ in range(3)] + [float(x) for x in G.rotvec(rnd)[0]])
            try:
                with contextlib.redirect_stdout(io.StringIO()):
                    L2, _ = sp.IK(tm(Gm @ Tt), tm(Gm @ Tb), protect=True)
                    L3, _ = sp.IK(tm(Tt), tm(Tb), protect=True)
                # model correspondence for SPIKinSpace (state published by a protected IK at the same poses)
                lines.append('sp.ik ' + ' '.join(C.f2h(x) for x in list(Tb.reshape(-1)) + list(Tt.reshape(-1)) + legs))
                expect.append(('ik', np.hstack([np.array(L3, dtype=float).reshape(-1), np.array(sp.getBottomJoints(), dtype=float).T.reshape(-1),
                                                np.array(sp.getTopJoints(), dtype=float).T.reshape(-1)]), inp))
                if np.abs(np.array(L3, dtype=float).reshape(-1) - L).max() > 1e-12:
                    bad('ik-protect-differs:%s' % mode, 'protected and unprotected IK return different lengths for the same poses', inp, None)
                L2 = np.array(L2, dtype=float).reshape(-1)
                if np.abs(L2 - L).max() > 1e-9 * max(1.0, h):
                    bad('ik-invariance:%s' % mode, 'moving both plates by one rigid motion changed the leg lengths', inp, float(np.abs(L2 - L).max()))
            except Exception as e:
                bad('raises:IK2:%s' % type(e).__name__, 'IK with both poses raised', inp, repr(e)[:200])
            if not accepted:
                stats['corrective_or_invalid'] += 1
                continue
            stats['in_workspace'] += 1
            res.distinct.add((n_, t_))
            # the kernel itself, model against numba
            att = np.array([0, 0, h, 0, 0, 0], dtype=float)
            try:
                a, it = fmr.SPFKinSpaceR(L.copy(), att.copy(), sp._bottom_joints_init, sp._top_joints_init, sp._max_iterations, sp._tol_f, sp._tol_a, sp.leg_ext_min)
                lines.append('sp.raph ' + ' '.join(C.f2h(x) for x in list(L) + list(att) + legs + [sp._max_iterations, sp._tol_f, sp._tol_a, sp.leg_ext_min]))
                expect.append(('raph', (np.array(a, dtype=float).copy(), int(it)), inp))
                # a second start below the height floor, so that the clamp at leg_ext_min/2 is exercised on every run
                att2 = np.array([rnd.uniform(-0.1, 0.1) * h, rnd.uniform(-0.1, 0.1) * h, rnd.uniform(0.05, 0.95) * sp.leg_ext_min, 0.0, 0.0, rnd.uniform(-0.2, 0.2)], dtype=float)
                a2, it2 = fmr.SPFKinSpaceR(L.copy(), att2.copy(), sp._bottom_joints_init, sp._top_joints_init, 60, sp._tol_f, sp._tol_a, sp.leg_ext_min)
                lines.append('sp.raph ' + ' '.join(C.f2h(x) for x in list(L) + list(att2) + legs + [60, sp._tol_f, sp._tol_a, sp.leg_ext_min]))
                expect.append(('raph', (np.array(a2, dtype=float).copy(), int(it2)), dict(inp, start=list(att2))))
            except Exception as e:
                bad('raises:SPFKinSpaceR:%s' % type(e).__name__, 'the FK kernel raised on in-workspace lengths', inp, repr(e)[:200])
            for fk_mode in (0, 1):
                stats['fk_runs'] += 1
                try:
                    with contextlib.redirect_stdout(io.StringIO()):
                        sp.IK(tm(Tb @ sph.T6([0, 0, h, 0, 0, 0])), tm(Tb), protect=True)
                        top, v2 = sp.FK(L.copy(), fk_mode=fk_mode)
                except Exception as e:
                    bad('raises:FK:%s' % type(e).__name__, 'FK raised', inp, repr(e)[:200]); continue
                e_pose = float(np.abs(top.gTM() - Tt).max()) / h
                e_len = float(np.abs(np.array(sp.getLens(), dtype=float).reshape(-1) - L).max()) / h
                worst['pose/h'] = max(worst['pose/h'], e_pose); worst['lengths/h'] = max(worst['lengths/h'], e_len)
                i2 = dict(inp); i2['fk_mode'] = fk_mode
                if not e_pose <= 1e-3:
                    bad('fk-pose:%s:%d' % (mode, fk_mode), 'FK of the IK lengths from the neutral pose does not recover the pose to 1e-3 h', i2, e_pose)
                if not e_len <= 1e-3:
                    bad('fk-lengths:%s:%d' % (mode, fk_mode), 'lengths reported after FK are not the requested ones (1e-3 h)', i2, e_len)
                if not v2:
                    bad('fk-invalid:%s:%d' % (mode, fk_mode), 'FK of in-workspace lengths reported invalid', i2, None)
        # lengths that differ from the neutral ones in ONE actuator only (each of the six in turn): every residual of the FK iteration but one starts at zero
        try:
            with contextlib.redirect_stdout(io.StringIO()):
                sp.IK(tm(Tb @ sph.T6([0, 0, h, 0, 0, 0])), tm(Tb), protect=True)
                L0 = np.array(sp.getLens(), dtype=float).reshape(-1).copy()
            for k_ in range(6):
                L1 = L0.copy(); L1[k_] = min(sp.leg_ext_max - 1e-3 * h, L0[k_] + 0.06 * h)
                for fk_mode in (1, 0):
                    with contextlib.redirect_stdout(io.StringIO()):
                        sp.IK(tm(Tb @ sph.T6([0, 0, h, 0, 0, 0])), tm(Tb), protect=True)
                        top1, v1 = sp.FK(L1.copy(), fk_mode=fk_mode)
                        got1 = np.array(sp.getLens(), dtype=float).reshape(-1)
                        ref1 = sph.lengths_ref(*sph.local_joints(sp), sp.getBottomT().gTM(), top1.gTM())
                    stats['single_actuator_fk'] = stats.get('single_actuator_fk', 0) + 1
                    if not v1:
                        continue            # not accepted without corrective action: outside the clause
                    e1 = max(float(np.abs(got1 - L1).max()), float(np.abs(ref1 - L1).max())) / h
                    if not e1 <= 1e-3:
                        bad('fk-lengths:single-actuator:%d' % fk_mode, 'after FK of lengths that differ from neutral in one actuator only, the pose returned does not have the requested lengths (1e-3 h)',
                            {'geometry': g, 'mode': mode, 'base6': base6 if 'base6' in dir() else None, 'actuator': k_, 'lengths': L1.tolist(), 'fk_mode': fk_mode}, e1)
        except Exception as e:
            bad('raises:FK:%s' % type(e).__name__, 'FK raised', {'geometry': g, 'mode': mode}, repr(e)[:200])
        if n_ < 2:
            res.sample({'geometry': g, 'mode': mode, 'neutral_height': h})
    if driver_ok and lines:
        out = C.Driver().batch(lines)
        for (kind, exp, inp), o in zip(expect, out):
            if o == 'bad-op':
                res.mismatches.append({'fn': kind, 'what': 'model refused', 'input': inp}); continue
            v = np.array([C.h2f(x) for x in o.split()])
            if kind == 'ik':
                if np.abs(v - exp).max() > 1e-10 * max(1.0, np.abs(exp).max()):
                    res.mismatches.append({'fn': 'SPIKinSpace', 'max_diff': float(np.abs(v - exp).max()), 'input': inp})
            else:
                a, it = exp
                stats['raphson_compared'] += 1
                ex = int(v[7])
                stats[['exit_residual', 'exit_small_step', 'exit_budget'][ex]] += 1
                if ex == 2:
                    # the iteration budget ran out: a non-convergent run amplifies rounding differences without bound, only the
                    # iteration count is comparable
                    stats['budget_exits_compared_by_count_only'] = stats.get('budget_exits_compared_by_count_only', 0) + 1
                    if int(v[6]) != it:
                        res.mismatches.append({'fn': 'SPFKinSpaceR', 'iters_model': int(v[6]), 'iters_real': it, 'input': inp})
                elif np.abs(v[:6] - a).max() > 1e-9 or int(v[6]) != it:
                    res.mismatches.append({'fn': 'SPFKinSpaceR', 'max_diff': float(np.abs(v[:6] - a).max()), 'iters_model': int(v[6]), 'iters_real': it, 'input': inp})
    stats['worst_pose_error_over_h'] = worst['pose/h']; stats['worst_length_error_over_h'] = worst['lengths/h']
    res.stats.update(stats)


def replay(data):
    print('recorded:', data.get('key'), data.get('what'), str(data.get('observed'))[:300])
    return False
