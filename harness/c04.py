"""C04 — transform algebra is the SE(3) group; every constructor form means the same pose."""
import os, sys, random, math
import numpy as np
import common as C
import gen as G
import tmh

PROP = 'C04'
LEAN_MODULES = ['BR.Props.C04']
THEOREMS = ['BR.C04.matmul_is_mul', 'BR.C04.matmul_assoc', 'BR.C04.inv_is_group_inv', 'BR.C04.localToGlobal_eq', 'BR.C04.globalToLocal_eq',
            'BR.C04.l2g_g2l_inverse', 'BR.C04.ctor6_plain', 'BR.C04.ctor_rpy', 'BR.C04.ctor_pair', 'BR.C04.ctor_matrix', 'BR.C04.ctor_quat',
            'BR.C04.ctor_tm', 'BR.C04.setQuat_getQuat_id', 'BR.C04.quatToRot_smul', 'BR.C04.quatToRot_neg', 'BR.C04.ctor_quat_scale', 'BR.C04.transInv_mul_rev',
            'BR.C04.transInv_transInv', 'BR.C04.inv_matmul']
TIE = ('K: the Tm model of C03 (lean/BR/Model/Tm.lean); every run renders one pose in each documented constructor form and evaluates pose triples on real tm objects and on the '
       'Float instance of the model, comparing gTM()/gTAA(); the group laws and constructor equivalences are also evaluated directly on the real objects against NumPy references.')
TRUSTED = ['Lean 4.33 kernel + Mathlib v4.33 (axioms: propext, Classical.choice, Quot.sound)', 'harness/tmh.py, harness/c04.py, harness/gen.py',
           'scipy Rotation (from_quat modelled and compared; from_matrix/as_quat assumed to return a quaternion of the given rotation: contract stated as a hypothesis of setQuat_getQuat_id and checked on the implementation)',
           'theorems over ℝ; frame-conversion theorems carry the side condition that the relative rotation angle is 0 or >= 1e-6 (inside the band the conversion snaps to the identity rotation: measured <= 1e-6 against the 5e-6 allowance)']
ASSUMPTIONS = ['poses with |p| <= 1e3 and rotation angle in [0, pi-1e-3]']
RULE = ('poses from (axis class x angle class in [0, pi-1e-3] x translation magnitude); each pose rendered as 6-list, 6-array, 3-rotation, rpy angles, position+quaternion, 4x4, [position, rotation] pair, tm, array([tm]); '
        'pose triples for the group laws; distinct = distinct poses/triples; non-trivial = rotation angle > 0')
SAMPLED = ['setQuat(getQuat()) = identity (scipy round trip, implementation only)']

CLASSES = [k for k in G.ANGLE_CLASSES if k not in ('nearer_pi',)]


def rand_pose(rnd):
    k = rnd.choice(CLASSES)
    w, k = G.rotvec(rnd, k, math.pi - 1e-3)
    p = G.translation(rnd)
    return w, p, k


def rpy_of(R):
    """angles (r,p,y) with Rx(r) Ry(p) Rz(y) = R (independent of the library)"""
    # R = Rx Ry Rz -> R[0,2] = sin p ; R[1,2] = -sin r cos p ; R[2,2] = cos r cos p ; R[0,1] = -cos p sin y ; R[0,0] = cos p cos y
    p = math.asin(max(-1.0, min(1.0, R[0, 2])))
    r = math.atan2(-R[1, 2], R[2, 2])
    y = math.atan2(-R[0, 1], R[0, 0])
    return r, p, y


def quat_of(w):
    th = float(np.linalg.norm(w))
    if th == 0:
        return [0.0, 0.0, 0.0, 1.0]
    u = np.asarray(w) / th
    s = math.sin(th / 2)
    return [u[0] * s, u[1] * s, u[2] * s, math.cos(th / 2)]


def Tref(w, p):
    T = np.eye(4); T[:3, :3] = G.rot_ref(w); T[:3, 3] = p
    return T


def run(res, tier, seed, driver_ok):
    rnd = random.Random(seed * 7919 + 4)
    thorough = tier == 'thorough'
    tm, fsr = tmh.libs()
    lines, expect = [], []     # correspondence requests and implementation states

    def bad(key, what, inp, obs):
        if len(res.violations) < 40:
            res.violations.append({'key': key, 'what': what, 'input': inp, 'observed': obs})

    def tolfor(k, scale):
        return 5e-6 + 1e-9 * scale + (1e-6 * scale if k in ('zero', 'tiny', 'band_lo', 'band_hi') else 0)

    nposes = 20000 if thorough else 700
    forms_hit = {}
    for n in range(nposes):
        w, p, k = rand_pose(rnd)
        T = Tref(w, p)
        scale = max(1.0, float(np.max(np.abs(p))))
        tol = tolfor(k, scale)
        R = T[:3, :3]
        r_, p_, y_ = rpy_of(R)
        forms = {
            'list6': ('ctor6', 0, list(p) + list(w)),
            'array6': ('ctor6a', 0, list(p) + list(w)),
            'rpy6': ('ctor6', 1, list(p) + [r_, p_, y_]),
            'quat7': ('ctor7', list(p) + quat_of(w)),
            'quat7a': ('ctor7a', list(p) + [-x for x in quat_of(w)]),      # q and -q are the same rotation
            'matrix': ('ctorTM', T),
            'pair': ('ctorPair', list(p), list(w)),
            'pair_rpy': ('ctorPair', list(p), [r_, p_, y_]),               # [position, rotation] pair with the roll-pitch-yaw flag
            'pair_arr': ('ctorPair', list(p), list(w)),                    # the same pair given as two arrays
        }
        st = tmh.Store()
        lines.append('tm.reset'); expect.append(None)
        for name, op in forms.items():
            try:
                if name == 'pair':
                    st.objs.append(tm([list(op[1]), list(op[2])]))
                    line, idx = 'ctorPair 0 %s' % tmh.H(op[1] + op[2]), len(st.objs) - 1
                elif name == 'pair_rpy':
                    st.objs.append(tm([list(op[1]), list(op[2])], True) if n % 2 == 0 else tm([list(op[1]), list(op[2])], rpy=True))
                    line, idx = 'ctorPair 1 %s' % tmh.H(op[1] + op[2]), len(st.objs) - 1
                elif name == 'pair_arr':
                    st.objs.append(tm([np.array(op[1], dtype=float), np.array(op[2], dtype=float)]))
                    line, idx = 'ctorPair 0 %s' % tmh.H(op[1] + op[2]), len(st.objs) - 1
                else:
                    line, idx = st.apply(op)
            except Exception as e:
                bad('ctor-raises:%s:%s' % (name, type(e).__name__), 'constructor form %s raised %r' % (name, e), {'w': list(w), 'p': list(p)}, None)
                continue
            TM, TAA = st.state(idx)
            lines.append('tm.op ' + line); expect.append((TM, TAA, k))
            forms_hit[name] = forms_hit.get(name, 0) + 1
            res.evaluations += 1
            # ... and means that pose when it is USED: as the operand of the frame conversions (which read the six-vector)
            try:
                Xo = st.objs[idx]
                Rf = tm([0.4, -0.3, 0.2, 0.2, 0.3, -0.1])
                for fname, got_, want_ in (('localToGlobal', fsr.localToGlobal(Rf, Xo).gTM(), Rf.gTM() @ T), ('globalToLocal', fsr.globalToLocal(Rf, Xo).gTM(), np.linalg.inv(Rf.gTM()) @ T)):
                    ang_ = math.acos(max(-1.0, min(1.0, (np.trace(want_[:3, :3]) - 1) / 2)))
                    if ang_ < math.pi - 0.1 and G.gt(np.max(np.abs(got_ - want_)), tol * 4):
                        bad('ctor-form-in-use:%s:%s' % (name, fname), 'a pose built by constructor form %s does not behave as that pose in %s' % (name, fname),
                            {'w': list(w), 'p': list(p), 'form': name}, {'maxdiff': G.maxdiff(got_, want_)})
            except Exception as e:
                bad('ctor-raises:%s:%s' % (name, type(e).__name__), 'using a pose built by constructor form %s raised %r' % (name, e), {'w': list(w), 'p': list(p)}, None)
            if G.gt(np.max(np.abs(TM - T)), tol):
                bad('ctor-form:%s' % name, 'constructor form %s does not produce the described pose' % name,
                    {'w': list(w), 'p': list(p), 'form': name, 'args': tmh.__dict__.get('x', None) or [x.tolist() if isinstance(x, np.ndarray) else x for x in op]},
                    {'got': TM.tolist(), 'want': T.tolist(), 'maxdiff': G.maxdiff(TM, T)})
        # 3-element rotation forms (pure rotation)
        for name, op in (('rot3', ('ctor3', 0, list(w))), ('rot3a', ('ctor3a', 0, list(w))), ('rot3rpy', ('ctor3', 1, [r_, p_, y_]))):
            line, idx = st.apply(op)
            TM, TAA = st.state(idx)
            lines.append('tm.op ' + line); expect.append((TM, TAA, k))
            Tr = np.eye(4); Tr[:3, :3] = R
            if G.gt(np.max(np.abs(TM - Tr)), tolfor(k, 1.0)):
                bad('ctor-form:%s' % name, 'rotation-only constructor form %s wrong' % name, {'w': list(w), 'form': name}, {'got': TM.tolist(), 'maxdiff': G.maxdiff(TM, Tr)})
        # copies: tm(t), tm(array([t])), and quaternion read/set round trip
        base = st.objs[0]
        for name, op in (('tm', ('ctorCopy', 0)), ('arr_tm', ('ctorCopyArr', 0))):
            line, idx = st.apply(op)
            TM, TAA = st.state(idx)
            lines.append('tm.op ' + line); expect.append((TM, TAA, k))
            if G.gt(np.max(np.abs(TM - base.gTM())), tol):
                bad('ctor-form:%s' % name, 'copy constructor form %s changes the pose' % name, {'w': list(w), 'p': list(p)}, G.maxdiff(TM, base.gTM()))
        # a pose built FROM another pose is its own pose: editing it afterwards must not change what the source means (in every use)
        for nm_, mk_ in (('tm', lambda: tm(base)), ('arr_tm', lambda: tm(np.array([base], dtype=object))), ('copy', lambda: base.copy())):
            try:
                src_TM, src_TAA = base.gTM().copy(), base.gTAA().copy()
                cpy = mk_()
                cpy[0] = float(cpy[0]) + 1.0; cpy[4] = float(cpy[4]) + 0.3
                Rf = tm([0.4, -0.3, 0.2, 0.2, 0.3, -0.1])
                used = fsr.localToGlobal(Rf, base).gTM()
                want_ = Rf.gTM() @ src_TM
                ang_ = math.acos(max(-1.0, min(1.0, (np.trace(want_[:3, :3]) - 1) / 2)))
                if not np.array_equal(base.gTM(), src_TM) or not np.array_equal(base.gTAA(), src_TAA) or (ang_ < math.pi - 0.1 and G.gt(np.max(np.abs(used - want_)), tol * 4)):
                    bad('ctor-form-source-changed:%s' % nm_, 'editing a pose built from another pose (%s) changed what the source pose means' % nm_, {'w': list(w), 'p': list(p), 'form': nm_},
                        {'six_vector_changed': not np.array_equal(base.gTAA(), src_TAA), 'matrix_changed': not np.array_equal(base.gTM(), src_TM)})
                    base = tm(src_TM.copy())
            except Exception as e:
                bad('ctor-raises:%s:%s' % (nm_, type(e).__name__), 'editing a pose built by form %s raised %r' % (nm_, e), {'w': list(w), 'p': list(p)}, None)
        c = base.copy()
        before = c.gTM()
        c.setQuat(c.getQuat())
        if G.gt(np.max(np.abs(c.gTM() - before)), tol):
            bad('quat-roundtrip', 'setQuat(getQuat()) changes the transform', {'w': list(w), 'p': list(p)}, G.maxdiff(c.gTM(), before))
        res.distinct.add(('pose', tuple(w), tuple(p)))
        if n < 2:
            res.sample({'pose_rotvec': list(w), 'pose_pos': list(p), 'class': k, 'forms': list(forms)})

    # ---- group laws on triples
    ntr = 20000 if thorough else 700
    for n in range(ntr):
        (w1, p1, k1), (w2, p2, k2), (w3, p3, k3) = rand_pose(rnd), rand_pose(rnd), rand_pose(rnd)
        if n % 12 == 0:
            # poses inside the quantifier (quarter turns) whose COMPOSITION is an exact half turn about a coordinate axis: ref*rel for equal
            # quarter turns, inv(ref)*x for opposite ones — the three pivots of the logarithm's angle-pi case
            ax = np.zeros(3); ax[(n // 12) % 3] = rnd.choice([1.0, -1.0])
            w1 = ax * (math.pi / 2); w2 = ax * (math.pi / 2) * (1 if (n // 36) % 2 == 0 else -1)
        A, B, Cc = tm(list(p1) + list(w1)), tm(list(p2) + list(w2)), tm(list(p3) + list(w3))
        TA, TB, TC = A.gTM(), B.gTM(), Cc.gTM()
        scale = max(1.0, float(np.max(np.abs(np.concatenate([p1, p2, p3])))))
        rel_band = lambda M: math.acos(max(-1, min(1, (np.trace(M[:3, :3]) - 1) / 2))) < 2e-6
        # next to a half turn the logarithm loses precision (known finding of C01) — unless the code takes its exact half-turn branch (trace <= -1)
        near_pi = lambda M: math.acos(max(-1, min(1, (np.trace(M[:3, :3]) - 1) / 2))) > math.pi - 1e-3 and not (M[0, 0] + M[1, 1] + M[2, 2] - 1) / 2.0 <= -1
        tol = 5e-6 + 1e-9 * scale * scale
        res.evaluations += 1
        res.distinct.add(('triple', tuple(w1), tuple(w2), tuple(w3)))
        AB = (A @ B).gTM()
        if G.gt(np.max(np.abs(AB - TA @ TB)), tol):
            bad('matmul', 'a @ b differs from the product of the homogeneous matrices', {'a': list(p1) + list(w1), 'b': list(p2) + list(w2)}, G.maxdiff(AB, TA @ TB))
        I = (A.inv() @ A).gTM()
        if G.gt(np.max(np.abs(I - np.eye(4))), tol) or G.gt(np.max(np.abs((A @ A.inv()).gTM() - np.eye(4))), tol):
            bad('inv', 'inv() is not the group inverse', {'a': list(p1) + list(w1)}, G.maxdiff(I, np.eye(4)))
        iL = (A @ B).inv().gTM(); iR = (B.inv() @ A.inv()).gTM()
        if G.gt(np.max(np.abs(iL - iR)), tol * scale) or G.gt(np.max(np.abs(iL - np.linalg.inv(TA @ TB))), tol * scale):
            bad('inv-rev', 'inv(a @ b) differs from inv(b) @ inv(a)', {'a': list(p1) + list(w1), 'b': list(p2) + list(w2)}, G.maxdiff(iL, iR))
        if G.gt(np.max(np.abs(A.inv().inv().gTM() - TA)), tol):
            bad('inv-inv', 'inv(inv(a)) is not a', {'a': list(p1) + list(w1)}, G.maxdiff(A.inv().inv().gTM(), TA))
        L = ((A @ B) @ Cc).gTM(); Rr = (A @ (B @ Cc)).gTM()
        if G.gt(np.max(np.abs(L - Rr)), tol * scale):
            bad('assoc', 'composition is not associative', {'a': list(p1) + list(w1), 'b': list(p2) + list(w2), 'c': list(p3) + list(w3)}, G.maxdiff(L, Rr))
        if not near_pi(TA @ TB):          # the property's poses have angle <= pi-1e-3; products may exceed it (then C01's known log defect applies)
            l2g = fsr.localToGlobal(A, B).gTM()
            t2 = tol + (1e-6 * scale if rel_band(TA @ TB) else 0)
            if G.gt(np.max(np.abs(l2g - TA @ TB)), t2):
                bad('l2g', 'localToGlobal(ref, rel) != ref*rel', {'ref': list(p1) + list(w1), 'rel': list(p2) + list(w2)}, G.maxdiff(l2g, TA @ TB))
            back = fsr.globalToLocal(A, fsr.localToGlobal(A, B)).gTM()
            if G.gt(np.max(np.abs(back - TB)), t2 + 1e-6 * scale):
                bad('l2g-g2l', 'globalToLocal(ref, localToGlobal(ref, x)) != x', {'ref': list(p1) + list(w1), 'x': list(p2) + list(w2)}, G.maxdiff(back, TB))
        iAB = np.linalg.inv(TA) @ TB
        if not near_pi(iAB):
            g2l = fsr.globalToLocal(A, B).gTM()
            t2 = tol + (1e-6 * scale if rel_band(iAB) else 0)
            if G.gt(np.max(np.abs(g2l - iAB)), t2):
                bad('g2l', 'globalToLocal(ref, x) != inv(ref)*x', {'ref': list(p1) + list(w1), 'x': list(p2) + list(w2)}, G.maxdiff(g2l, iAB))
            fwd = fsr.localToGlobal(A, fsr.globalToLocal(A, B)).gTM()
            if G.gt(np.max(np.abs(fwd - TB)), t2 + 1e-6 * scale):
                bad('g2l-l2g', 'localToGlobal(ref, globalToLocal(ref, x)) != x', {'ref': list(p1) + list(w1), 'x': list(p2) + list(w2)}, G.maxdiff(fwd, TB))
        if n < (3000 if thorough else 300):
            st = tmh.Store()
            lines.append('tm.reset'); expect.append(None)
            for op in (('ctor6', 0, list(p1) + list(w1)), ('ctor6', 0, list(p2) + list(w2)), ('ctor6', 0, list(p3) + list(w3)),
                       ('matmul', 0, 1), ('matmul', 3, 2), ('inv', 0), ('l2g', 0, 1), ('g2l', 0, 1), ('g2l', 0, 6)):
                ill = False
                try:
                    import c03
                    ill = c03.log_input_near_pi(st, op)
                except Exception:
                    pass
                line, idx = st.apply(op)
                TM, TAA = st.state(idx)
                lines.append('tm.op ' + line); expect.append((TM, TAA, 'ill' if ill else 'x'))
    # ---- correspondence
    if driver_ok:
        try:
            model = C.Driver().batch(lines)
            skip = False
            hist_loose = 0.0
            for rep, exp_, line in zip(model, expect, lines):
                if exp_ is None:
                    skip = False
                    hist_loose = 0.0
                    continue
                if skip:
                    continue
                if rep == 'bad-op':
                    res.mismatches.append({'request': line[:80], 'model': 'bad-op'}); continue
                TM2, TAA2, k = exp_
                if k == 'ill':
                    skip = True; continue
                idx, TM, TAA = tmh.parse_reply(rep)
                ang = math.acos(max(-1.0, min(1.0, (np.trace(TM2[:3, :3]) - 1) / 2)))
                # conditioning allowance, carried along the history (a difference allowed once travels with the objects)
                hist_loose = min(1e-4, hist_loose * 2.0 * max(1.0, float(np.max(np.abs(TM2)))) + 1e-13 / max(1e-8, math.pi - ang) ** 2)
                loose = hist_loose
                if not (G.close(TM, TM2, 1e-9 + loose, 1e-9) and G.close(TAA, TAA2, 1e-9 + loose, 1e-9)):
                    # a rotation vector within 1e-8 of the 1e-6 cut-off: the exponential is discontinuous there and a rounding-level
                    # difference puts model and implementation on different sides; skipped and counted, never compared
                    na, nb = float(np.linalg.norm(TAA.reshape(-1)[3:])), float(np.linalg.norm(TAA2.reshape(-1)[3:]))
                    if abs(na - 1e-6) < 1e-8 or abs(nb - 1e-6) < 1e-8:
                        res.stats['skipped_at_cutoff_threshold'] = res.stats.get('skipped_at_cutoff_threshold', 0) + 1
                        skip = True
                        continue
                    if len(res.mismatches) < 10:
                        res.mismatches.append({'request': line[:70], 'model_TAA': TAA.reshape(-1).tolist(), 'impl_TAA': TAA2.reshape(-1).tolist(), 'dTM': G.maxdiff(TM, TM2)})
        except Exception as e:
            res.mismatches.append({'driver': str(e)[:300]})
    res.stats.update({'poses': nposes, 'triples': ntr, 'constructor_forms_exercised': forms_hit, 'model_lines': len(lines)})


def replay(data):
    tm, fsr = tmh.libs()
    inp = data['input']
    key = data.get('key', '')
    if key.startswith('ctor-form:pair') or inp.get('form') == 'pair':
        w, p = inp['w'], inp['p']
        T = Tref(w, p)
        got = tm([list(p), list(w)]).gTM()
        print('tm([p, w]) differs from the pose by', G.maxdiff(got, T))
        return G.maxdiff(got, T) <= 5e-6 * max(1, np.max(np.abs(p)))
    print('recorded:', data.get('what'), data.get('observed'))
    return False
