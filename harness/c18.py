"""C18 — geometric helper functions satisfy their defining relations."""
import os, sys, random, math
import numpy as np
import common as C
import gen as G
import tmh

PROP = 'C18'
LEAN_MODULES = ['BR.Props.C18', 'BR.Props.C18Twist', 'BR.Props.C18Arc']
THEOREMS = ['BR.C18.plane_contains_points', 'BR.C18.mirror_reflects', 'BR.C18.mirror_involution', 'BR.C18.interpMid_pos', 'BR.C18.interpMid_geodesic',
            'BR.C18.lookAt_keeps_pos', 'BR.C18.lookAt_proper', 'BR.C18.distance_metric', 'BR.C18.arcDistance_is_norm', 'BR.C18.closeLinearGap_advance',
            'BR.C18.ikPath_shape', 'BR.C18.ikPath_even', 'BR.C18.fibo_unit', 'BR.C18.unitSphere_unit', 'BR.C18.angleMod_mod_2pi', 'BR.C18.angleMod_range', 'BR.C18.angleMod_idem',
            'BR.Rot.rod_add', 'BR.Rot.log3_generic_form',
            'BR.C18T.twistToGoal_reaches', 'BR.C18A.rel_of_step', 'BR.C18A.closeArcGap_advance', 'BR.C18A.closeArcGap_at_goal']
TIE = ('K: hand-written model lean/BR/Model/Helpers.lean of the fsr helpers; every run evaluates the Float instance (compiled driver) and the real functions on the same '
       'inputs (frames not through the world origin) and compares; each defining relation is also evaluated directly on the real functions.')
TRUSTED = ['Lean 4.33 kernel + Mathlib v4.33 (axioms: propext, Classical.choice, Quot.sound)', 'harness/c18.py generators and tolerances',
           'rotationFromVector (scipy fmin) and numericalJacobian are exercised on the implementation only', 'theorems over ℝ; cut-off side conditions explicit']
ASSUMPTIONS = ['|p| <= 10, rotation angle <= pi-1e-3']
RULE = ('poses from pose classes with positions up to 10 (mirror planes / reference frames away from the origin), non-collinear point triples, deltas in (0,1], step counts 2..200, '
        'point counts 1..2000, angles in [-50,50]; distinct = distinct (function, input); non-trivial = rotation part non-zero or position non-zero')
SAMPLED = ['closeArcGap inside the 1e-6 cut-off band of the step rotation (outside it, advancing by exactly delta in arc distance is a theorem)',
           'numerical Jacobian equals the analytic one (central differences on the implementation, 1e-5); chainJacobian is tied to the model of JacobianSpace (same recursion), whose column formula and derivative property are C06 theorems', 'rotationFromVector (optimiser, 1e-5)']


def pose6(rnd, scale=10.0):
    w, k = G.rotvec(rnd, rnd.choice(['zero', 'small', 'one', 'half_pi', 'generic', 'generic', 'near_pi']), math.pi - 1e-3)
    return np.concatenate([G.translation(rnd, scale), w])


def T6(v):
    T = np.eye(4); T[:3, :3] = G.rot_ref(v[3:]); T[:3, 3] = v[:3]
    return T


def angle_of(R):
    return math.acos(max(-1.0, min(1.0, (np.trace(R) - 1) / 2)))


def run(res, tier, seed, driver_ok):
    rnd = random.Random(seed * 7919 + 18)
    thorough = tier == 'thorough'
    tm, fsr = tmh.libs()
    import basic_robotics.modern_robotics_numba as mrn
    mr = mrn.mr
    lines, expect = [], []

    def bad(key, what, inp, obs):
        if len(res.violations) < 60:
            res.violations.append({'key': key, 'what': what, 'input': inp, 'observed': obs})

    def corr(line, val, tol=1e-9):
        lines.append(line); expect.append((np.asarray(val, dtype=float).reshape(-1), tol))

    N = 8000 if thorough else 400
    tol = 1e-8
    for n in range(N):
        res.evaluations += 1
        a, b, c = pose6(rnd), pose6(rnd), pose6(rnd)
        A, B, Cc = tm(list(a)), tm(list(b)), tm(list(c))
        res.distinct.add(tuple(a))
        # ---- plane through three points
        pl = fsr.planeFromThreePoints(A, B, Cc)
        corr('hlp.plane %s %s %s' % (tmh.H(a[:3]), tmh.H(b[:3]), tmh.H(c[:3])), pl)
        nrm = np.array(pl[:3]); sc = max(1.0, np.linalg.norm(nrm) * 10)
        for P in (a, b, c):
            if abs(nrm @ P[:3] - pl[3]) > tol * sc:
                bad('plane', 'plane through three points does not contain them', {'p1': list(a[:3]), 'p2': list(b[:3]), 'p3': list(c[:3])}, list(map(float, pl)))
        # ---- mirror: reflect across the local XY plane of frame A (A is NOT at the origin)
        pt = G.translation(rnd, 10.0)
        m = fsr.mirror(A, tm([pt[0], pt[1], pt[2], 0, 0, 0]))
        mp = np.array([m[0], m[1], m[2]])
        corr('hlp.mirror %s %s' % (tmh.H(a), tmh.H(pt)), mp)
        TA = T6(a)
        loc = TA[:3, :3].T @ (pt - a[:3]); locm = TA[:3, :3].T @ (mp - a[:3])
        if G.gt(np.max(np.abs(locm - loc * np.array([1, 1, -1]))), tol * 20):
            bad('mirror', 'mirror does not negate exactly the local z coordinate', {'frame': list(a), 'point': list(pt)}, {'local_before': loc.tolist(), 'local_after': locm.tolist()})
        m2 = fsr.mirror(A, m)
        if G.gt(np.max(np.abs(np.array([m2[0], m2[1], m2[2]]) - pt)), tol * 20):
            bad('mirror-involution', 'mirror applied twice is not the identity', {'frame': list(a), 'point': list(pt)}, [m2[0], m2[1], m2[2]])
        # ---- interpolated midpoint
        mid = fsr.tmInterpMidpoint(A, B)
        Re = T6(b)[:3, :3] @ T6(a)[:3, :3].T
        th = angle_of(Re)
        if th < math.pi - 1e-2:
            # the result's own rotation must stay away from a half turn too: its six-vector is a logarithm (ill-conditioned there,
            # known finding C18-midpoint-near-pi-log); such cases are left to the falsifier below
            if 1e-9 < th:
                wre_ = th / (2 * math.sin(th)) * np.array([Re[2, 1] - Re[1, 2], Re[0, 2] - Re[2, 0], Re[1, 0] - Re[0, 1]])
                ang_mid = angle_of(G.rot_ref(wre_ / 2) @ T6(a)[:3, :3])
            else:
                ang_mid = angle_of(T6(a)[:3, :3])
            if ang_mid < math.pi - 1e-2 and angle_of(T6(a)[:3, :3]) < math.pi - 1e-3 and angle_of(T6(b)[:3, :3]) < math.pi - 1e-3:
                corr('hlp.interp %s %s' % (tmh.H(a), tmh.H(b)), mid.gTAA(), 1e-7)
        if G.gt(np.max(np.abs(mid.gTAA()[:3, 0] - (a[:3] + b[:3]) / 2)), tol * 10):
            bad('midpoint-pos', 'interpolated midpoint does not have the mean position', {'a': list(a), 'b': list(b)}, mid.gTAA().reshape(-1).tolist())
        if 1e-5 < th < math.pi - 1e-2:
            H = mid.gTM()[:3, :3] @ T6(a)[:3, :3].T
            if G.gt(np.max(np.abs(H @ H - Re)), 1e-7) or abs(angle_of(H) - th / 2) > 1e-7:
                # independent midpoint rotation: is it within 1e-4 of a half turn (where MatrixLog3 is known to lose precision, C01)?
                wre = th / (2 * math.sin(th)) * np.array([Re[2, 1] - Re[1, 2], Re[0, 2] - Re[2, 0], Re[1, 0] - Re[0, 1]])
                rmid = G.rot_ref(wre / 2) @ T6(a)[:3, :3]
                bad('midpoint-rot' + (':near_pi_log' if angle_of(rmid) > math.pi - 1e-4 else ''), 'midpoint rotation is not geodesically half-way between the two', {'a': list(a), 'b': list(b)},
                    {'angle_total': th, 'angle_to_mid': angle_of(H), 'err': G.maxdiff(H @ H, Re)})
        # ---- lookAt
        vertical = rnd.random() < 0.05
        tgt = a[:3] + (np.array([0, 0, rnd.choice([-1, 1]) * rnd.uniform(0.5, 5)]) if vertical else G.axis(rnd) * rnd.uniform(0.5, 5))
        if not vertical and rnd.random() < 0.08:      # ALMOST above / below the viewer: a lateral offset far below any 'near zero' threshold, but not zero
            ph_ = rnd.uniform(0, 2 * math.pi); eps_ = rnd.choice([5e-7, 1e-7, 2e-8])
            tgt = a[:3] + np.array([eps_ * math.cos(ph_), eps_ * math.sin(ph_), rnd.choice([-1, 1]) * rnd.uniform(0.5, 5)])
        vertical = bool(np.linalg.norm(np.cross([0, 0, 1.0], tgt - a[:3])) < 1e-9 * np.linalg.norm(tgt - a[:3]))
        Tg = tm([tgt[0], tgt[1], tgt[2], 0, 0, 0])
        try:
            L = fsr.lookAt(A, Tg).gTM()
            d = (tgt - a[:3]) / np.linalg.norm(tgt - a[:3])
            okrot = np.all(np.isfinite(L)) and np.max(np.abs(L[:3, :3].T @ L[:3, :3] - np.eye(3))) < 1e-7 and abs(np.linalg.det(L[:3, :3]) - 1) < 1e-7
            if not okrot or G.gt(np.max(np.abs(L[:3, 3] - a[:3])), tol * 10) or G.gt(np.max(np.abs(L[:3, 2] - d)), (1e-4 if vertical else 1e-7)):
                bad('lookAt:%s' % ('vertical' if vertical else 'generic'), 'lookAt does not keep the position / is not a proper rotation with local z at the target',
                    {'from': list(a), 'target': list(tgt)}, np.asarray(L).tolist())
            if not vertical:
                corr('hlp.lookat %s %s' % (tmh.H(a[:3]), tmh.H(tgt)), L, 1e-8)
        except Exception as e:
            bad('lookAt-raises:%s' % type(e).__name__, 'lookAt raised', {'from': list(a), 'target': list(tgt)}, repr(e))
        # ---- distances
        dab, dba, dbc, dac = fsr.distance(A, B), fsr.distance(B, A), fsr.distance(B, Cc), fsr.distance(A, Cc)
        corr('hlp.distance %s %s' % (tmh.H(a[:3]), tmh.H(b[:3])), [dab])
        if abs(dab - dba) > 1e-12 or dab < 0 or dac > dab + dbc + 1e-9 or abs(fsr.distance(A, A)) > 0 or abs(dab - np.linalg.norm(a[:3] - b[:3])) > tol * 10:
            bad('distance', 'distance is not the Euclidean metric', {'a': list(a), 'b': list(b), 'c': list(c)}, [dab, dba, dbc, dac])
        if th < math.pi - 1e-2:
            arc = fsr.arcDistance(A, B)
            corr('hlp.arcdist %s %s' % (tmh.H(a), tmh.H(b)), [arc], 1e-7)
            rel = np.linalg.inv(T6(a)) @ T6(b)
            want = math.sqrt(np.linalg.norm(rel[:3, 3]) ** 2 + angle_of(rel[:3, :3]) ** 2)
            if abs(arc - want) > 1e-7 * max(1, want):
                bad('arcDistance', 'arc distance is not the norm of the relative pose', {'a': list(a), 'b': list(b)}, [arc, want])
        # ---- gap closing
        delta = rnd.uniform(1e-3, 1.0)
        g1 = fsr.closeLinearGap(A, B, delta)
        corr('hlp.clg %s %s %s' % (tmh.H(a), tmh.H(b), C.f2h(delta)), g1.gTAA())
        adv = np.linalg.norm(g1.gTAA().reshape(-1) - a)
        dirn = (b - a) / np.linalg.norm(b - a)
        if abs(adv - delta) > tol or G.gt(np.max(np.abs((g1.gTAA().reshape(-1) - a) / delta - dirn)), 1e-7):
            bad('closeLinearGap', 'linear gap step does not advance by delta toward the goal', {'a': list(a), 'b': list(b), 'delta': delta}, adv)
        g2 = fsr.closeArcGap(A, B, delta)
        corr('hlp.cag %s %s %s' % (tmh.H(a), tmh.H(b), C.f2h(delta)), g2.gTM(), 1e-8)
        stepT = np.linalg.inv(T6(a)) @ g2.gTM()
        advarc = math.sqrt(np.linalg.norm(stepT[:3, 3]) ** 2 + angle_of(stepT[:3, :3]) ** 2)
        if abs(advarc - delta) > 1e-6:
            bad('closeArcGap', 'arc gap step does not advance by delta in arc distance', {'a': list(a), 'b': list(b), 'delta': delta}, advarc)
        if angle_of(g2.gTM()[:3, :3]) < math.pi - 1e-3:
            own = float(np.asarray(fsr.arcDistance(A, g2)).reshape(-1)[0])
            if abs(own - delta) > 1e-6:
                bad('closeArcGap', 'arcDistance(origin, closeArcGap(origin, goal, delta)) is not delta', {'a': list(a), 'b': list(b), 'delta': delta}, own)
        # ---- gap closing when the goal is NEARER than the step (the step still advances by exactly delta, along the same line)
        if n % 3 == 0:
            u6 = np.array([rnd.gauss(0, 1) for _ in range(6)]); u6 = u6 / np.linalg.norm(u6)
            near = a + u6 * delta * rnd.uniform(0.2, 0.95)
            Bn = tm(list(near))
            g3 = fsr.closeLinearGap(A, Bn, delta)
            corr('hlp.clg %s %s %s' % (tmh.H(a), tmh.H(near), C.f2h(delta)), g3.gTAA())
            adv3 = np.linalg.norm(g3.gTAA().reshape(-1) - a)
            if abs(adv3 - delta) > tol or G.gt(np.max(np.abs((g3.gTAA().reshape(-1) - a) / delta - u6)), 1e-6):
                bad('closeLinearGap', 'linear gap step does not advance by delta toward the goal', {'a': list(a), 'b': list(near), 'delta': delta, 'goal_nearer_than_step': True}, adv3)
        steps = rnd.choice([2, 3, 5, 17, rnd.randint(2, 200)])
        path = fsr.IKPath(A, B, steps)
        P = np.array([p.gTAA().reshape(-1) for p in path])
        if n % 10 == 0:
            corr('hlp.ikpath %s %s %s' % (tmh.H(a), tmh.H(b), C.f2h(steps)), P, 1e-9)
        inc = np.diff(P, axis=0)
        if len(path) != steps or G.gt(np.max(np.abs(P[0] - a)), tol) or G.gt(np.max(np.abs(P[-1] - b)), tol) or \
                (steps > 2 and G.gt(np.max(np.abs(inc - inc[0])), tol * 10)) or G.gt(np.max(np.abs(inc[0] - (b - a) / (steps - 1))), tol * 10):
            bad('IKPath', 'straight path is not `steps` evenly spaced poses from start to goal', {'a': list(a), 'b': list(b), 'steps': steps},
                {'len': len(path), 'first': P[0].tolist(), 'last': P[-1].tolist()})
        # ---- twist to goal
        if angle_of((T6(b) @ np.linalg.inv(T6(a)))[:3, :3]) < math.pi - 1e-2:
            tw = fsr.twistToGoal(A, B)
            corr('hlp.twisttogoal %s %s' % (tmh.H(T6(a).reshape(-1)), tmh.H(T6(b).reshape(-1))), tw, 1e-7)
            reach = mr.MatrixExp6(mr.VecTose3(np.asarray(tw, dtype=float).reshape(6))) @ A.gTM()
            if G.gt(np.max(np.abs(reach - B.gTM())), 1e-7 * 10):
                bad('twistToGoal', 'the twist to the goal does not exponentiate onto the goal', {'a': list(a), 'b': list(b)}, G.maxdiff(reach, B.gTM()))
        # ---- angle wrapping (scalar, array, 6-vector, tm)
        r = rnd.uniform(-50, 50)
        w1 = fsr.angleMod(r)
        corr('hlp.anglemod %s' % C.f2h(r), [w1])
        arr = np.array([rnd.uniform(-50, 50) for _ in range(rnd.choice([2, 3, 4, 7]))]); arr0 = arr.copy()
        w2 = fsr.angleMod(arr)
        six = np.array([rnd.uniform(-50, 50) for _ in range(6)]); six0 = six.copy()
        w3 = fsr.angleMod(six)
        tt = tm([1.0, 2.0, 3.0, rnd.uniform(-50, 50), rnd.uniform(-50, 50), rnd.uniform(-50, 50)]); t0 = tt.gTAA().reshape(-1).copy()
        w4 = fsr.angleMod(tt).gTAA().reshape(-1)
        m2pi = lambda x, y: np.max(np.abs(((np.asarray(x) - np.asarray(y)) / (2 * math.pi)) - np.round((np.asarray(x) - np.asarray(y)) / (2 * math.pi))))
        if m2pi(w1, r) > 1e-9:
            bad('angleMod:scalar', 'angle wrapping changes the angle modulo 2*pi', {'r': r}, float(w1))
        if m2pi(w2, arr0) > 1e-9:
            bad('angleMod:array', 'angle wrapping changes the angle modulo 2*pi', {'r': arr0.tolist()}, np.asarray(w2).tolist())
        if m2pi(w3[3:], six0[3:]) > 1e-9 or G.gt(np.max(np.abs(w3[:3] - six0[:3])), 0):
            bad('angleMod:six', 'angle wrapping of a 6-vector changes an angle modulo 2*pi (or touches the position)', {'r': six0.tolist()}, np.asarray(w3).tolist())
        if m2pi(w4[3:], t0[3:]) > 1e-9:
            bad('angleMod:tm', 'angle wrapping of a transform changes an angle modulo 2*pi', {'taa': t0.tolist()}, w4.tolist())
        # ---- samplers
        if n % 20 == 0:
            npts = rnd.choice([1, 2, 10, 100, rnd.randint(1, 2000)])
            fb = fsr.fiboSphere(npts); us = fsr.unitSphere(npts)
            if fb.shape != (npts, 3) or G.gt(np.max(np.abs(np.linalg.norm(fb, axis=1) - 1)), tol) or G.gt(np.max(np.abs(np.linalg.norm(us, axis=1) - 1)), tol):
                bad('samplers', 'sphere samplers do not return unit vectors', {'n': npts}, None)
            i = rnd.randrange(npts)
            corr('hlp.fibo %s %s' % (C.f2h(float(i)), C.f2h(float(npts))), fb[i], 1e-9)
        # ---- chain / numerical Jacobians
        if n % 10 == 0:
            nj = rnd.randint(1, 7)
            S = np.array([G.screw(rnd) for _ in range(nj)]).T
            thv = np.array([rnd.uniform(-3, 3) for _ in range(nj)])
            Jc = fsr.chainJacobian(S, thv)
            Js = mr.JacobianSpace(np.ascontiguousarray(S), thv)
            # chainJacobian is the same recursion as JacobianSpace (T <- T e^{[S]theta}, column = Ad(T) S): it is tied to the SAME model
            # function, so the C06 theorems (column formula, derivative of FK) are about it too
            corr('mr.jacobianspace %s %s %s' % (C.f2h(nj), ' '.join(C.f2h(x) for x in S.T.reshape(-1)), ' '.join(C.f2h(x) for x in thv)), np.asarray(Jc).T.reshape(-1), 1e-9)
            if G.gt(np.max(np.abs(Jc - Js)), 1e-8):
                bad('chainJacobian', 'chain Jacobian differs from the analytic space Jacobian', {'screws': S.T.tolist(), 'theta': thv.tolist()}, G.maxdiff(Jc, Js))
            # whole-number screws (axis-aligned joints through lattice points) typed as integers, as a caller would write them
            Si = np.zeros((6, nj), dtype=int)
            for j_ in range(nj):
                w_ = [0, 0, 0]; w_[rnd.randrange(3)] = rnd.choice([1, -1]); q_ = [rnd.randint(-3, 3) for _ in range(3)]
                Si[:3, j_] = w_; Si[3:, j_] = -np.cross(w_, q_)
            try:
                Jci = np.asarray(fsr.chainJacobian(Si, thv), dtype=float)
                Jsi = mr.JacobianSpace(np.ascontiguousarray(Si.astype(float)), thv)
                if Jci.shape != Jsi.shape or G.gt(np.max(np.abs(Jci - Jsi)), 1e-8):
                    bad('chainJacobian', 'chain Jacobian differs from the analytic space Jacobian', {'screws': Si.T.tolist(), 'theta': thv.tolist(), 'dtype': 'int'}, G.maxdiff(Jci, Jsi) if Jci.shape == Jsi.shape else 'shape')
            except Exception as e:
                bad('raises:chainJacobian:%s' % type(e).__name__, 'chainJacobian raised on whole-number screws', {'screws': Si.T.tolist(), 'theta': thv.tolist()}, repr(e))
            f = lambda x: np.array([math.sin(x[0]) * x[1], x[0] ** 2 + x[2], math.cos(x[2]) * x[1]])
            x0 = np.array([rnd.uniform(-1, 1) for _ in range(3)])
            Jn = fsr.numericalJacobian(f, x0, 1e-5)
            Ja = np.array([[math.cos(x0[0]) * x0[1], math.sin(x0[0]), 0], [2 * x0[0], 0, 1], [0, math.cos(x0[2]), -math.sin(x0[2]) * x0[1]]])
            if G.gt(np.max(np.abs(Jn - Ja)), 1e-5):
                bad('numericalJacobian', 'numerical Jacobian differs from the analytic one', {'x0': x0.tolist()}, G.maxdiff(Jn, Ja))
        if n < 2:
            res.sample({'a': list(a), 'b': list(b), 'point': list(pt), 'delta': delta, 'steps': steps})
    # ---- samplers, every grid: unitSphere's output depends on the point count only through k = round(sqrt(n)), so n = k*k for k = 1..45 covers
    # every count in 1..2000; fiboSphere is run on every count up to 64 and a spread of larger ones
    for k_ in range(1, 46):
        res.evaluations += 1
        us = np.asarray(fsr.unitSphere(k_ * k_), dtype=float)
        nr = np.linalg.norm(us, axis=1) if us.ndim == 2 and us.shape[1] == 3 else np.array([np.nan])
        if not np.all(np.isfinite(nr)) or G.gt(np.max(np.abs(nr - 1)), tol):
            bad('samplers', 'sphere samplers do not return unit vectors', {'function': 'unitSphere', 'n': k_ * k_, 'grid': k_},
                {'rows_not_unit': int(np.sum(~(np.abs(nr - 1) <= tol))), 'rows': int(len(nr))})
    for n_ in list(range(1, 65)) + [rnd.randint(65, 2000) for _ in range(12)]:
        res.evaluations += 1
        fb = np.asarray(fsr.fiboSphere(n_), dtype=float)
        nr = np.linalg.norm(fb, axis=1) if fb.ndim == 2 and fb.shape[1] == 3 else np.array([np.nan])
        if fb.shape != (n_, 3) or not np.all(np.isfinite(nr)) or G.gt(np.max(np.abs(nr - 1)), tol):
            bad('samplers', 'sphere samplers do not return unit vectors', {'function': 'fiboSphere', 'n': n_}, {'shape': list(fb.shape)})
    # ---- correspondence
    ncmp = 0
    if driver_ok:
        try:
            model = C.Driver().batch(lines)
            for rep, (val, tl), line in zip(model, expect, lines):
                if rep == 'bad-op':
                    res.mismatches.append({'request': line[:60], 'model': 'bad-op'}); continue
                mv = np.array([C.h2f(t) for t in rep.split()])
                ncmp += 1
                if not G.close(mv, val, tl, tl) and len(res.mismatches) < 12:
                    res.mismatches.append({'request': line.split()[0], 'args': [C.h2f(t) for t in line.split()[1:]][:13], 'model': mv.tolist()[:16], 'impl': val.tolist()[:16]})
        except Exception as e:
            res.mismatches.append({'driver': str(e)[:300]})
    res.stats.update({'cases': N, 'model_lines_compared': ncmp})


def replay(data):
    tm, fsr = tmh.libs()
    inp, key = data.get('input', {}), data.get('key', '')
    print('recorded:', key, data.get('what'), data.get('observed'))
    if key.startswith('mirror'):
        A = tm(list(inp['frame'])); pt = np.array(inp['point'])
        m = fsr.mirror(A, tm([pt[0], pt[1], pt[2], 0, 0, 0])); mp = np.array([m[0], m[1], m[2]])
        R = A.gTM()[:3, :3]; o = A.gTM()[:3, 3]
        print('local before', R.T @ (pt - o), 'after', R.T @ (mp - o))
        return bool(np.max(np.abs(R.T @ (mp - o) - (R.T @ (pt - o)) * np.array([1, 1, -1]))) < 1e-7)
    return False
