"""C19 — the message router delivers each received message exactly once per active rule."""
import os, sys, random, itertools, time
import multiprocessing as mp
import common as C

PROP = 'C19'
LEAN_MODULES = ['BR.Props.C19']
THEOREMS = ['BR.C19.inv_step', 'BR.C19.history_inv', 'BR.C19.getData_delivery',
            'BR.C19.getData_once_per_destination', 'BR.C19.receive_none_silent', 'BR.C19.unknown_port_silent',
            'BR.C19.closed_port_no_data', 'BR.C19.registration_reports_change', 'BR.C19.spin_sources_once',
            'BR.C19.callSources_sends']
TIE = ('K: hand-written model lean/BR/Model/Comms.lean; every run drives the real Comms class (in-memory CommsObject doubles) '
       'and the compiled Lean model with the same operation histories (exhaustive to a fixed depth on 2 endpoints from several '
       'start states, random to depth 60 on 1..4 endpoints, a no-data receive possible at every receive position) and compares '
       'return values and the full delivery/forward/source-call event log after every operation.')
TRUSTED = ['Lean 4.33 kernel + Mathlib v4.33 (axioms: propext, Classical.choice, Quot.sound)',
           'harness/c19.py (endpoint doubles, canonicalisation, generators) — a behaviour the generators never reach is not tied',
           'modelled, not verified: sockets (UDPObject is only smoke-tested on 127.0.0.1), the serial/OPC/ROS bridges, Comms.newComPort',
           'sink and source callbacks are doubles that only log; callbacks that re-enter the hub are outside the model']
ASSUMPTIONS = ['endpoint set fixed after construction (no re-registration of a name with a new object)',
               'spin(k) with k >= 0 (k < 0 loops forever by design)']
RULE = ('operation histories over {fwd, del, sink, source, get, send, spin, open, close, inject(msg|no-data)}; exhaustive over a fixed '
        'alphabet on 2 endpoints (+1 unknown name) from 3 start states, then random histories up to length 60 on 1..4 endpoints with 0..3 sinks/sources; '
        'distinct = distinct op sequences; non-trivial = the history contains at least one receive that returned data while a rule was registered')
SAMPLED = ['UDP endpoint contract (real sockets on 127.0.0.1): time-out receive returns None (also after earlier receives), each datagram is returned once, close does not raise; short random send/poll history through the hub']


# ------------------------------------------------------------------ implementation side
def _mods():
    from basic_robotics.interfaces.comms_core import Comms
    from basic_robotics.interfaces.comms_object import CommsObject
    return Comms, CommsObject


class _Handle:
    def close(self):
        pass


def make_double(CommsObject, name, log):
    class Double(CommsObject):
        def __init__(self):
            super().__init__(str(name), 'DOUBLE')
            self.comm_handle = _Handle()
            self.inbox = []
            self.n = name
            self.rx_log = []

        def getData(self):
            if not self.open or not self.inbox:
                self.rx_log.append(None)
                return None
            d = self.inbox.pop(0)
            self.rx_log.append(d)
            return d

        def sendData(self, data):
            log.append('S%s:%s:%d' % (self.n, 'N' if data is None else data, 1 if self.open else 0))
            return bool(self.open)
    return Double()


class Hub:
    """the real Comms object with doubles, driven by the same op lines as the Lean model"""

    def __init__(self, n):
        Comms, CommsObject = _mods()
        self.c = Comms()
        self.log = []
        self.eps = {}
        for i in range(n):
            d = make_double(CommsObject, i, self.log)
            self.eps[i] = d
            self.c.endpoints[i] = d
        self.sinks, self.srcs, self.cnt = {}, {}, {}

    def sink(self, h):
        """sink number h as a BOUND METHOD taken afresh from its recorder on every call: equal to, but not the same object as, the
        handle of an earlier registration (what `hub.setDataSink(ep, recorder.on_message)` written twice hands over)"""
        if h not in self.sinks:
            hub = self

            class _Rec:
                def on_message(self_, data, h=h):
                    hub.log.append('K%s:%s' % (h, 'N' if data is None else data))
            self.sinks[h] = _Rec()
        return self.sinks[h].on_message

    def src(self, h):
        if h not in self.srcs:
            def f(h=h):
                k = self.cnt.get(h, 0)
                self.cnt[h] = k + 1
                self.log.append('R%s' % h)
                return 1000 + 100 * h + k
            self.srcs[h] = f
        return self.srcs[h]

    def rules(self):
        inv = {id(o): n for n, o in self.eps.items()}
        return ({k: sorted(inv.get(id(o), -1) for o in v) for k, v in self.c.forwarding.items() if v},
                {k: sorted(set(id(getattr(f, '__self__', f)) for f in v)) for k, v in self.c.output_functions.items() if v},      # a sink is one sink however often it is listed
                {k: sorted(id(f) for f in v) for k, v in self.c.input_functions.items() if v})

    def step(self, op):
        """returns (canonical reply, property-violation text or None)"""
        c = self.c
        del self.log[:]
        t = op.split()
        k = t[0]
        a = [None if x == 'N' else int(x) for x in t[1:]]
        before = self.rules()
        raw_fwd = {kk: list(v) for kk, v in c.forwarding.items()}
        raw_snk = {kk: list(v) for kk, v in c.output_functions.items()}
        cnt0 = dict(self.cnt)
        viol = None
        try:
            if k == 'fwd':
                r = c.setForwardData(a[0], a[1])
            elif k == 'del':
                r = c.deleteForwardingRule(a[0], a[1])
            elif k == 'sink':
                r = c.setDataSink(a[0], None if a[1] is None else self.sink(a[1]))
            elif k == 'source':
                r = c.setDataSource(a[0], None if a[1] is None else self.src(a[1]))
            elif k == 'get':
                ep = self.eps.get(a[0])
                nrx = len(ep.rx_log) if ep else 0
                r = c.getData(a[0])
            elif k == 'send':
                r = c.sendData(a[0], a[1])
            elif k == 'spin':
                r = c.spin(a[0])
            elif k == 'open':
                r = c.openCom(a[0])
            elif k == 'close':
                r = c.closeCom(a[0])
            elif k == 'inject':
                if a[0] in self.eps:
                    self.eps[a[0]].inbox.append(a[1])
                r = None
            else:
                raise ValueError(op)
        except Exception as e:
            return 'EXC:%s' % type(e).__name__, 'operation %s raised %r' % (op, e)
        evs = list(self.log)
        # ---- the property, stated directly on what was observed
        if k in ('fwd', 'del', 'sink', 'source'):
            changed = self.rules() != before
            if not isinstance(r, bool) or r != changed:
                viol = 'registration %s returned %r but rule set %s' % (op, r, 'changed' if changed else 'did not change')
        if k == 'get':
            ep = self.eps.get(a[0])
            rx = ep.rx_log[nrx] if ep and len(ep.rx_log) > nrx else None
            if rx is None:
                if evs:
                    viol = 'receive on %s yielded no data but %s happened' % (a[0], evs)
            else:
                inv = {id(o): n for n, o in self.eps.items()}
                want = sorted(['S%s:%s' % (d, rx) for d in set(inv[id(o)] for o in raw_fwd.get(a[0], []))] +
                              ['K%s:%s' % (h, rx) for h in sorted(set(hh for hh, f in self.sinks.items() for g in raw_snk.get(a[0], []) if getattr(g, '__self__', None) is f))])
                got = sorted(e.rsplit(':', 1)[0] if e[0] == 'S' else e for e in evs)
                if got != want:
                    viol = 'receive of %s on %s delivered %s, rules require %s' % (rx, a[0], got, want)
        if k == 'spin':
            for n_, fl in c.input_functions.items():
                for f in fl:
                    h = next(hh for hh, g in self.srcs.items() if g is f)
                    if self.cnt.get(h, 0) - cnt0.get(h, 0) != a[0] * sum(1 for fl2 in c.input_functions.values() for g in fl2 if g is f):
                        viol = 'spin(%d): source %s called %d times' % (a[0], h, self.cnt.get(h, 0) - cnt0.get(h, 0))
        rep = ('T' if r is True else 'F' if r is False else 'N' if r is None and k != 'get' else
               ('D' + ('N' if r is None else str(r))) if k == 'get' and a[0] in self.eps else 'N' if r is None else str(r))
        return rep + '|' + ';'.join(evs), viol


# ------------------------------------------------------------------ generators
FULL = (['fwd %d %d' % (i, o) for i in (0, 1) for o in (0, 1)] + ['fwd 0 9', 'fwd 9 1'] +
        ['del %d %d' % (i, o) for i in (0, 1) for o in (0, 1)] + ['del 9 1', 'del 0 9'] +
        ['sink 0 0', 'sink 1 0', 'sink 0 1', 'sink 0 N', 'sink 9 0', 'source 0 0', 'source 1 0', 'source 1 1', 'source 1 N', 'source 9 0',
         'get 0', 'get 1', 'get 9', 'send 0 5', 'send 1 N', 'send 9 5', 'spin 1', 'spin 2', 'open 0', 'open 1', 'close 0', 'close 1', 'close 9',
         'inject 0 7', 'inject 0 N', 'inject 1 8', 'inject 0 0'])
REDUCED = ['fwd 0 1', 'fwd 0 0', 'fwd 1 0', 'del 0 1', 'del 0 0', 'sink 0 0', 'sink 0 1', 'source 1 0', 'get 0', 'get 1', 'spin 1',
           'open 0', 'close 1', 'inject 0 7', 'inject 0 N', 'inject 1 8', 'inject 0 0']
STARTS = [[], ['open 0', 'open 1', 'inject 0 5', 'inject 0 N', 'inject 0 0', 'inject 0 6', 'inject 1 4'],
          ['open 0', 'open 1', 'fwd 0 1', 'sink 0 0', 'source 1 0', 'inject 0 5', 'inject 0 6', 'inject 1 4', 'inject 1 N']]


def _run_histories(hists):
    """hists: list of (nendpoints, [ops]); returns (driver lines, impl replies, violations)"""
    lines, replies, viols, nontrivial = [], [], [], 0
    for hi, (n, ops) in enumerate(hists):
        hub = Hub(n)
        lines.append('comms.init %d' % n)
        replies.append('ok')
        nt = False
        for j, op in enumerate(ops):
            rep, v = hub.step(op)
            lines.append('comms.op ' + op)
            replies.append(rep)
            if rep.startswith('D') and not rep.startswith('DN') and '|' in rep and rep.split('|')[1]:
                nt = True
            if v and len(viols) < 50:
                viols.append((hi, j, v))
        nontrivial += nt
    return lines, replies, viols, nontrivial


def _worker(hists):
    lines, replies, viols, nt = _run_histories(hists)
    try:
        model = C.Driver().batch(lines)
    except Exception as e:
        return {'driver_error': str(e)[:300]}, viols, hists, len(lines), nt
    mism = []
    for i, (m, r) in enumerate(zip(model, replies)):
        if m != r:
            mism.append((i, lines[i], m, r))
            if len(mism) >= 5:
                break
    return mism, viols, hists, len(lines), nt


def _shrink(n, ops, pred):
    """delta-debug an op list while pred(n, ops) stays true"""
    changed = True
    while changed:
        changed = False
        for i in range(len(ops)):
            cand = ops[:i] + ops[i + 1:]
            if pred(n, cand):
                ops = cand
                changed = True
                break
    return ops


def _violates(n, ops):
    hub = Hub(n)
    for op in ops:
        _, v = hub.step(op)
        if v:
            return v
    return None


def replay(data):
    if data['input'].get('udp'):
        class _R:
            pass
        r = _R(); r.violations = []; r.stats = {}
        udp_smoke(r)
        udp_history(r, int(data['input'].get('seed', 0)))
        for v in r.violations:
            print('observed: %s' % v['what'])
        if not r.violations:
            print('observed: no violation')
        return not r.violations
    v = _violates(data['input']['endpoints'], data['input']['ops'])
    print('history: %s' % data['input']['ops'])
    print('observed: %s' % (v or 'no violation'))
    return v is None



def udp_history(res, seed):
    """real UDP sockets on loopback, a short random history: A --socket--> B (sink, forward to M) ; M --socket--> N.
    Every message is delivered exactly once to the sink and forwarded exactly once; a poll with nothing waiting — also after
    earlier successful receives — returns None, reaches no sink and forwards nothing."""
    try:
        from basic_robotics.interfaces.comms_core import Comms
        import socket
        ports = []
        for _ in range(4):
            s = socket.socket(socket.AF_INET, socket.SOCK_DGRAM)
            s.bind(('127.0.0.1', 0)); ports.append(s.getsockname()[1]); s.close()
    except Exception as e:
        res.stats['udp_history'] = 'skipped: %r' % (e,)
        return
    p1, p2, p3, p4 = ports
    got, ops = [], []
    c = Comms()
    c.newComPort('A', 'UDP', ip='127.0.0.1', rx_port=p1, tx_port=p2, timeout=0.03)
    c.newComPort('B', 'UDP', ip='127.0.0.1', rx_port=p2, tx_port=p1, timeout=0.03)
    c.newComPort('M', 'UDP', ip='127.0.0.1', rx_port=p3, tx_port=p4, timeout=0.03)
    c.newComPort('N', 'UDP', ip='127.0.0.1', rx_port=p4, tx_port=p3, timeout=0.03)
    rr = random.Random(seed * 7919 + 1919)
    try:
        ops.append('open')
        for n in 'ABMN':
            c.openCom(n)
        c.setDataSink('B', lambda d: got.append(d))
        c.setForwardData('B', 'M')
        pend_b, pend_n, want = [], [], []
        script = ['send', 'poll-B', 'poll-B', 'poll-N', 'poll-N']      # a receive, then an empty poll after it, on both hops
        for n in range(20):
            k = script[n] if n < len(script) else rr.choice(['send', 'send', 'poll-B', 'poll-B', 'poll-N'])
            ops.append('%s#%d' % (k, n))
            if k == 'send':
                m = '' if n % 5 == 0 else 'm%d' % n        # an empty datagram is a message too
                c.sendData('A', m); pend_b.append(m)
                continue
            if k == 'poll-B':
                r = c.getData('B')
                exp = pend_b.pop(0) if pend_b else None
                if exp is not None:
                    want.append(exp); pend_n.append(exp)
            else:
                r = c.getData('N')
                exp = pend_n.pop(0) if pend_n else None
            if r != exp or got != want:
                res.violations.append({'key': 'udp:history:%s' % ('stale-or-extra' if exp is None else 'delivery'), 'input': {'ops': list(ops), 'udp': True, 'seed': seed},
                                       'observed': {'returned': r, 'expected': exp, 'sink_received': list(got), 'sink_expected': list(want)},
                                       'what': 'UDP hub history: %s returned %r (expected %r); sink saw %r (expected %r)' % (k, r, exp, got, want)})
                break
        # close and re-open an endpoint that has been used, then use it again: delivery and silence as before, nothing raises
        if not res.violations or all(not v['key'].startswith('udp:') for v in res.violations):
            ops.append('close-B'); c.closeCom('B')
            ops.append('get-closed-B'); r = c.getData('B')
            if r is not None or got != want:
                res.violations.append({'key': 'udp:history:closed-delivered', 'input': {'ops': list(ops), 'udp': True, 'seed': seed}, 'observed': {'returned': r, 'sink_received': list(got)},
                                       'what': 'UDP hub history: a receive on a closed endpoint returned %r / delivered' % (r,)})
            ops.append('reopen-B'); c.openCom('B')
            ops.append('poll-B-after-reopen'); r = c.getData('B')          # whatever was queued on the old socket is gone with it
            if r is not None or got != want:
                res.violations.append({'key': 'udp:history:reopen', 'input': {'ops': list(ops), 'udp': True, 'seed': seed}, 'observed': {'returned': r, 'sink_received': list(got)},
                                       'what': 'UDP hub history: the first poll after re-opening returned %r' % (r,)})
            ops.append('send-after-reopen'); c.sendData('A', 'again'); want.append('again')
            ops.append('poll-B'); r = c.getData('B')
            if r != 'again' or got != want:
                res.violations.append({'key': 'udp:history:reopen', 'input': {'ops': list(ops), 'udp': True, 'seed': seed}, 'observed': {'returned': r, 'sink_received': list(got), 'sink_expected': list(want)},
                                       'what': 'UDP hub history: after close and re-open of the receiving endpoint a message sent to it was not delivered exactly once'})
        res.stats['udp_history'] = 'ran %d steps, %d messages delivered' % (len(ops) - 1, len(want))
    except Exception as e:
        res.violations.append({'key': 'udp:raises:%s:%s' % (ops[-1].split('#')[0], type(e).__name__), 'input': {'ops': ops, 'udp': True, 'seed': seed},
                               'observed': repr(e), 'what': 'UDP hub operation %s raised %r' % (ops[-1], e)})
    finally:
        for n in 'ABMN':
            try:
                c.closeCom(n)
            except Exception:
                pass

def udp_smoke(res):
    """real UDP sockets on loopback: a timed-out receive is silent; close does not raise"""
    try:
        from basic_robotics.interfaces.comms_core import Comms
        import socket
        s = socket.socket(socket.AF_INET, socket.SOCK_DGRAM)
        s.bind(('127.0.0.1', 0)); p1 = s.getsockname()[1]; s.close()
        s = socket.socket(socket.AF_INET, socket.SOCK_DGRAM)
        s.bind(('127.0.0.1', 0)); p2 = s.getsockname()[1]; s.close()
    except Exception as e:
        res.stats['udp_smoke'] = 'skipped: %r' % (e,)
        return
    got = []
    c = Comms()
    c.newComPort('A', 'UDP', ip='127.0.0.1', rx_port=p1, tx_port=p2, timeout=0.05)
    c.newComPort('B', 'UDP', ip='127.0.0.1', rx_port=p2, tx_port=p1, timeout=0.05)
    ops = []
    try:
        ops.append('open'); c.openCom('A'); c.openCom('B')
        c.setDataSink('B', lambda d: got.append(d))
        c.setForwardData('B', 'A')
        ops.append('get-timeout'); r = c.getData('B')
        if r is not None or got:
            res.violations.append({'key': 'udp:timeout-delivered', 'input': {'ops': ops}, 'observed': [r, got],
                                   'what': 'a timed-out UDP receive delivered %r to sinks %r' % (r, got)})
        ops.append('send'); c.sendData('A', 'hello')
        ops.append('get'); r = c.getData('B')
        if r != 'hello' or got != ['hello']:
            res.violations.append({'key': 'udp:delivery', 'input': {'ops': ops}, 'observed': [r, got],
                                   'what': 'UDP message not delivered exactly once to the sink'})
        ops.append('get-A'); r2 = c.getData('A')      # forwarded copy B->A arrives on A's socket
        ops.append('close'); c.closeCom('A'); c.closeCom('B')
        ops.append('get-closed'); r3 = c.getData('B')
        if r3 is not None or got != ['hello']:
            res.violations.append({'key': 'udp:closed-delivered', 'input': {'ops': ops}, 'observed': [r3, got],
                                   'what': 'receive on a closed UDP port delivered data'})
        res.stats['udp_smoke'] = 'ran: %s' % ops
    except Exception as e:
        res.violations.append({'key': 'udp:raises:%s:%s' % (ops[-1], type(e).__name__), 'input': {'ops': ops, 'udp': True},
                               'observed': repr(e), 'what': 'UDP hub operation %s raised %r' % (ops[-1], e)})
        res.stats['udp_smoke'] = 'raised at %s: %r' % (ops[-1], e)
        for n in ('A', 'B'):
            try:
                c.getCom(n).comm_handle.close()
            except Exception:
                pass


def run(res, tier, seed, driver_ok):
    rnd = random.Random(seed * 7919 + 19)
    thorough = tier == 'thorough'
    hists = []
    d_full, d_red = (4, 5) if thorough else (3, 4)
    for st in STARTS:
        for seq in itertools.product(FULL, repeat=d_full):
            hists.append((2, st + list(seq)))
    n_exh_full = len(hists)
    for st in STARTS[:2] if not thorough else STARTS:
        for seq in itertools.product(REDUCED, repeat=d_red):
            hists.append((2, st + list(seq)))
    n_exh = len(hists)
    # random histories, 1..4 endpoints
    for _ in range(20000 if thorough else 1500):
        n = rnd.randint(1, 4)
        names = list(range(n)) + [9]
        L = rnd.randint(5, 60)
        ops = ['open %d' % i for i in range(n) if rnd.random() < 0.8]
        for _ in range(L):
            k = rnd.choice(['fwd', 'fwd', 'del', 'sink', 'source', 'get', 'get', 'get', 'send', 'spin', 'open', 'close', 'inject', 'inject', 'inject'])
            nm = lambda: rnd.choice(names) if rnd.random() < 0.08 else rnd.randrange(n)
            if k in ('fwd', 'del'):
                ops.append('%s %d %d' % (k, nm(), nm()))
            elif k in ('sink', 'source'):
                ops.append('%s %d %s' % (k, nm(), rnd.choice(['0', '1', '2', 'N']) if rnd.random() < 0.9 else 'N'))
            elif k == 'get':
                ops.append('get %d' % nm())
            elif k == 'send':
                ops.append('send %d %s' % (nm(), rnd.choice(['N', '5', '77'])))
            elif k == 'spin':
                ops.append('spin %d' % rnd.randint(0, 3))
            elif k in ('open', 'close'):
                ops.append('%s %d' % (k, nm()))
            else:
                ops.append('inject %d %s' % (rnd.randrange(n), rnd.choice(['N', '0', str(rnd.randint(1, 99)), str(rnd.randint(1, 99))])))      # '0': a message that is falsy in Python is still a message
        hists.append((n, ops))
    nproc = min(16, os.cpu_count() or 1)
    chunk = (len(hists) + nproc * 4 - 1) // (nproc * 4)
    parts = [hists[i:i + chunk] for i in range(0, len(hists), chunk)]
    if driver_ok:
        with mp.Pool(nproc) as pool:
            outs = pool.map(_worker, parts)
    else:
        outs = []
        for p in parts:
            lines, replies, viols, nt = _run_histories(p)
            outs.append(([], viols, p, len(lines), nt))
    total_lines = nontrivial = 0
    for mism, viols, part, nl, nt in outs:
        total_lines += nl
        nontrivial += nt
        if isinstance(mism, dict):
            res.mismatches.append(mism)
            continue
        for (i, line, m, r) in mism[:2]:
            if len(res.mismatches) < 10:
                res.mismatches.append({'line_index': i, 'request': line, 'model': m, 'impl': r})
        for (hi, j, v) in viols[:3]:
            n, ops = part[hi]
            ops = _shrink(n, ops[:j + 1], lambda n_, o_: _violates(n_, o_) is not None)
            v2 = _violates(n, ops)
            kind = ('raises' if 'raised' in v2 else 'no-data-delivered' if 'yielded no data' in v2 else
                    'registration' if 'registration' in v2 else 'spin' if 'spin' in v2 else 'delivery')
            res.violations.append({'key': 'comms:%s' % kind, 'input': {'endpoints': n, 'ops': ops}, 'observed': v2,
                                   'what': 'message-router property fails on the real Comms object'})
    res.evaluations = len(hists)
    res.distinct = set(range(nontrivial))      # histories are distinct by construction (product / independent random draws); counted: non-trivial ones
    res.stats.update({'histories': len(hists), 'exhaustive_full_alphabet': n_exh_full, 'exhaustive_reduced_alphabet': n_exh - n_exh_full,
                      'depth_full': d_full, 'depth_reduced': d_red, 'alphabet_full': len(FULL), 'alphabet_reduced': len(REDUCED),
                      'random': len(hists) - n_exh, 'ops_compared_with_model': total_lines if driver_ok else 0,
                      'nontrivial_histories': nontrivial})
    res.sample({'endpoints': hists[n_exh_full - 1][0], 'ops': hists[n_exh_full - 1][1]})
    res.sample({'endpoints': hists[-1][0], 'ops': hists[-1][1][:25]})
    udp_smoke(res)
    udp_history(res, seed)
