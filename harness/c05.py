"""C05 — arm forward kinematics is base * product of exponentials, through any history."""
import os, sys, random, math, io, contextlib, copy
import numpy as np
import common as C
import gen as G
import armh

PROP = 'C05'
LEAN_MODULES = ['BR.Props.C05']
THEOREMS = ['BR.C05.fk_eq_spec', 'BR.C05.fkRaw_eq_spec', 'BR.C05.FK_clamps', 'BR.C05.step_inv', 'BR.C05.step_bookkeeping', 'BR.C05.history_inv', 'BR.C05.new_inv',
            'BR.Rot.exp6_conj', 'BR.Rot.exp3_conj', 'BR.Rot.fkinSpace_conj', 'BR.hat_conj', 'BR.norm3_rot']
TIE = ('K over operation histories: the Arm state machine of lean/BR/Model/Arm.lean (base, local screws, tool home, joint state; solver answers as oracle inputs) is replayed next to the real Arm '
       'and compared after every call; FK of the real arm is also compared with base*prod(expm)*home computed by SciPy from the constructor arguments.')
TRUSTED = ['Lean 4.33 kernel + Mathlib v4.33 (axioms: propext, Classical.choice, Quot.sound)', 'harness/armh.py, harness/c05.py (arm builders, SciPy expm reference, history generator)',
           'IK solvers enter the model as oracle answers (theta, success)', 'URDF parsing is C13\'s business; bundled URDF arms are used here as given']
ASSUMPTIONS = ['joint vectors in [-2pi, 2pi]^n', 'poses compared to 1e-7']
RULE = ('arms (6R test arm, random 1..7-joint chains, bundled URDF arms; identity and random construction bases) x histories of length <= 10 over {FK, IK(limit-respecting and free), move, move(stationary), '
        'setArbitraryHome, restoreOriginalEE, randomPos}; distinct = distinct (arm, history); non-trivial = the history contains a move or a tool change')
SAMPLED = []

TOL = 1e-7


def clamp(theta, spec):
    return np.minimum(np.maximum(theta, spec.mins), spec.maxs)


def band(theta, err, scale):
    """':cutoff-band' when the deviation is what the library's exponential does by design to a joint angle strictly inside (0, 1e-6):
    MatrixExp6 snaps such a rotation to the identity (NearZero), which moves the tool by at most |theta_i| * reach"""
    th = np.abs(np.asarray(theta, dtype=float).reshape(-1))
    b = th[(th > 0) & (th < 1e-6)]
    return ':cutoff-band' if len(b) and err <= 4.0 * float(b.sum()) * max(1.0, scale) else ''


class Tracker:
    """independent bookkeeping of what the property says the arm's state must be"""

    def __init__(self, spec):
        self.spec = spec
        self.base = armh.T6(spec.base6)
        self.M = spec.M.copy()          # current local tool home
        self.M0 = spec.M.copy()
        self.theta = np.zeros(spec.n)

    def fk(self, theta):
        return self.spec.fk(self.base, self.M, clamp(np.asarray(theta, dtype=float), self.spec))


def check_state(arm, tr, where):
    """returns list of (key, text)"""
    out = []
    ee = arm.getEEPos().gTM()
    want = tr.fk(tr.theta)
    raw = tr.spec.fk(tr.base, tr.M, np.asarray(tr.theta, dtype=float))       # the limit-free solver may legitimately leave a state outside the limits
    if np.max(np.abs(ee - raw)) <= TOL * max(1.0, np.max(np.abs(raw))):
        want = raw
    if G.gt(np.max(np.abs(arm.getBasePos().gTM() - tr.base)), TOL):
        out.append(('state:base', 'after %s: reported base pose differs from the base the arm was moved to by %.3g' % (where, G.maxdiff(arm.getBasePos().gTM(), tr.base))))
    if G.gt(np.max(np.abs(ee - want)), TOL * max(1.0, np.max(np.abs(want)))):
        out.append(('state:ee' + band(tr.theta, G.maxdiff(ee, want), np.max(np.abs(want))), 'after %s: reported tool pose differs from base*prod(exp)*home at the stored joint vector by %.3g' % (where, G.maxdiff(ee, want))))
    th_arm = np.asarray(arm._theta, dtype=float).reshape(-1)
    impl = tr.spec.fk(tr.base, tr.M, clamp(th_arm, tr.spec))
    impl_raw = tr.spec.fk(tr.base, tr.M, th_arm)
    if np.max(np.abs(ee - impl_raw)) <= TOL * max(1.0, np.max(np.abs(impl_raw))):
        impl = impl_raw
    if G.gt(np.max(np.abs(ee - impl)), TOL * max(1.0, np.max(np.abs(impl)))):
        out.append(('state:ee-vs-theta' + band(th_arm, G.maxdiff(ee, impl), np.max(np.abs(impl))), 'after %s: reported tool pose differs from the pose implied by the stored joint state by %.3g' % (where, G.maxdiff(ee, impl))))
    try:
        with contextlib.redirect_stdout(io.StringIO()):
            jt = arm.getJointTransforms()
        if G.gt(np.max(np.abs(jt[0].gTM() - tr.base)), TOL) and getattr(arm, '_fixed_base_offset', None) is None:
            out.append(('state:joint0', 'after %s: first joint-frame pose is not the base pose' % where))
        inside = bool(np.all(th_arm >= tr.spec.mins - 1e-12) and np.all(th_arm <= tr.spec.maxs + 1e-12))   # only the limit-free solver can leave the state outside the limits; queries then clamp by design
        if inside and G.gt(np.max(np.abs(jt[-1].gTM() - ee)), TOL * max(1.0, np.max(np.abs(ee)))):
            out.append(('state:joint-last' + band(th_arm, G.maxdiff(jt[-1].gTM(), ee), np.max(np.abs(ee))), 'after %s: last joint-frame pose differs from the reported tool pose by %.3g' % (where, G.maxdiff(jt[-1].gTM(), ee))))
        J0 = arm.jacobian(); J1 = arm.jacobian(th_arm.copy())
        if G.gt(np.max(np.abs(J0 - J1)), TOL):
            out.append(('state:default-jacobian', 'after %s: jacobian() with defaulted argument does not refer to the stored state' % where))
    except Exception as e:
        out.append(('raises:getJointTransforms:%s' % type(e).__name__, 'after %s: %r' % (where, e)))
    return out


def apply(arm, tr, op, rnd):
    """run one op on the real arm, update the tracker; returns violations"""
    tm = armh.libs()[0]
    k = op[0]
    out = []
    with contextlib.redirect_stdout(io.StringIO()):
        if k in ('FK', 'FKedge'):
            if k == 'FKedge':      # inside the limits except for ONE joint, which leaves them on one side by a small or large amount
                th = tr.spec.mins + np.array(op[1], dtype=float) * (tr.spec.maxs - tr.spec.mins)
                j = op[2] % tr.spec.n
                th[j] = (tr.spec.mins[j] - op[4]) if op[3] else (tr.spec.maxs[j] + op[4])
            else:
                th = np.array(op[1], dtype=float)
            tr.last_theta = th.copy()
            T = arm.FK(th.copy()).gTM()
            tr.theta = clamp(th, tr.spec)
            want = tr.fk(th)
            if G.gt(np.max(np.abs(T - want)), TOL * max(1.0, np.max(np.abs(want)))):
                out.append(('fk' + band(clamp(th, tr.spec), G.maxdiff(T, want), np.max(np.abs(want))), 'FK(theta) differs from base*prod(exp(S_i theta_i))*home (theta clamped to the limits) by %.3g' % G.maxdiff(T, want)))
        elif k in ('IK', 'IKfree'):
            goal = tr.fk(np.array(op[1], dtype=float))
            if len(op) > 3 and op[3]:            # a goal far beyond reach: every attempt of the solver fails
                goal = goal.copy(); goal[:3, 3] += np.array(op[3], dtype=float)
            th0 = np.array(op[2], dtype=float)
            th, ok = arm.IK(tm(goal), th0.copy(), protect=(k == 'IKfree'))
            th = np.asarray(th, dtype=float).reshape(-1)
            tr.theta = np.asarray(arm._theta, dtype=float).reshape(-1).copy()     # solver answer is an oracle; consistency is checked in check_state
        elif k == 'move':
            tr.base = armh.T6(np.array(op[1], dtype=float))
            arm.move(tm(list(op[1])), stationary=False)
        elif k == 'moveS':
            old_ee = arm.getEEPos().gTM()
            tr.base = armh.T6(np.array(op[1], dtype=float))
            arm.move(tm(list(op[1])), stationary=True)
            tr.theta = np.asarray(arm._theta, dtype=float).reshape(-1).copy()
        elif k == 'setHome':
            D = armh.T6(np.array(op[1], dtype=float))                 # new tool frame relative to the current tool pose
            X = arm.getEEPos().gTM() @ D
            arm.setArbitraryHome(tm(X))
            tr.M = tr.M @ D
        elif k == 'restore':
            arm.restoreOriginalEE()
            tr.M = tr.M0.copy()
        elif k == 'randomPos':
            arm.randomPos()
            tr.theta = np.asarray(arm._theta, dtype=float).reshape(-1).copy()
    return out


def rand_history(rnd, spec, L):
    ops = []
    n = spec.n
    for _ in range(L):
        k = rnd.choice(['FK', 'FK', 'FKedge', 'FKedge', 'IK', 'IKfree', 'move', 'move', 'moveS', 'setHome', 'restore', 'randomPos'])
        th = lambda s=2 * math.pi: [rnd.uniform(-s, s) for _ in range(n)]
        if k == 'FK':
            ops.append(('FK', th()))
        elif k == 'FKedge':
            ops.append(('FKedge', [rnd.random() for _ in range(n)], rnd.randrange(n), rnd.random() < 0.5, rnd.choice([1e-3, 0.05, 0.1, 0.5])))
        elif k in ('IK', 'IKfree'):
            g = th(1.5)
            far = [rnd.choice([-1, 1]) * rnd.uniform(30, 60) for _ in range(3)] if rnd.random() < 0.25 else None
            ops.append((k, g, [x + rnd.uniform(-0.05, 0.05) for x in g] if rnd.random() < 0.7 else th(1.5), far))
        elif k in ('move', 'moveS'):
            ops.append((k, list(np.concatenate([G.translation(rnd, 2.0), G.rotvec(rnd, rnd.choice(['zero', 'one', 'generic', 'half_pi']))[0]]))))
        elif k == 'setHome':
            ops.append(('setHome', list(np.concatenate([G.translation(rnd, 0.5), G.rotvec(rnd, rnd.choice(['zero', 'one', 'generic']))[0]]))))
        else:
            ops.append((k,))
    return ops


def run_history(cfg):
    rnd = random.Random(cfg['seed'])
    try:
        arm, spec = armh.build(rnd, cfg['arm'], cfg['base6'], limits='random')
    except Exception as e:
        return [('raises:constructor:%s' % type(e).__name__, 'Arm(...) raised %r' % (e,))], 0
    tr = Tracker(spec)
    viol = [(k, t) for k, t in check_state(arm, tr, 'construction')]
    steps = 0
    H = lambda xs: ' '.join(C.f2h(x) for x in np.asarray(xs, dtype=float).reshape(-1))
    lines = ['arm.new %s %s %s %s %s %s' % (C.f2h(spec.n), H(armh.T6(spec.base6)), H(spec.M), H(spec.S.T), H(spec.mins), H(spec.maxs))]
    states = [(arm.getEEPos().gTM(), arm.getBasePos().gTM(), np.asarray(arm._theta, dtype=float).reshape(-1).copy(), False)]
    ill_hist = [False]
    for op in cfg['ops']:
        if viol:
            break
        steps += 1
        ee_before = arm.getEEPos().gTM().copy()
        try:
            v = apply(arm, tr, op, rnd)
        except Exception as e:
            viol.append(('raises:%s:%s' % (op[0], type(e).__name__), '%s raised %r' % (op[0], e)))
            break
        viol += v
        viol += check_state(arm, tr, op[0])
        th_now = np.asarray(arm._theta, dtype=float).reshape(-1).copy()
        k = op[0]
        if k in ('FK', 'FKedge'):
            lines.append('arm.op FK ' + H(tr.last_theta))
        elif k in ('IK', 'IKfree', 'randomPos'):
            lines.append('arm.op %s %s' % (k, H(th_now)))              # the solver's / sampler's answer is the oracle input
        elif k == 'move':
            lines.append('arm.op move ' + H(armh.T6(np.array(op[1]))))
        elif k == 'moveS':
            lines.append('arm.op moveS %s %s' % (H(armh.T6(np.array(op[1]))), H(th_now)))
        elif k == 'setHome':
            lines.append('arm.op setHome ' + H(armh.T6(np.array(op[1]))))
        else:
            lines.append('arm.op restore')
        tiny = bool(np.any((np.abs(th_now) > 0) & (np.abs(th_now) < 2e-6)))
        # the tool-frame operations go through MatrixLog3 (tm objects): next to a half turn the logarithm amplifies rounding by
        # 1/(pi - angle)^2, and next to the 1e-6 cut-off the exponential is discontinuous; the model (same algorithm, other
        # rounding) may then legitimately differ by more than 1e-8 — such histories are not compared from that point on
        if k in ('setHome', 'restore', 'move', 'moveS'):
            for T_ in (arm._end_effector_home.gTM(), arm._end_effector_home_local.gTM(), arm.getBasePos().gTM(), arm.getEEPos().gTM(), ee_before):
                ang_ = math.acos(max(-1.0, min(1.0, (np.trace(T_[:3, :3]) - 1) / 2)))
                if math.pi - ang_ < 3e-3 or (0 < ang_ < 3e-6):
                    ill_hist[0] = True
        states.append((arm.getEEPos().gTM(), arm.getBasePos().gTM(), th_now, tiny or ill_hist[0]))
    run_history.last = (lines, states)
    return viol, steps


def make_cfgs(rnd, n):
    cfgs = []
    for i in range(n):
        arm = rnd.choice(['six_r', 'six_r', 'chain', 'chain', 'chain', 'urdf:' + rnd.choice(armh.URDFS)])
        base6 = [0.0] * 6 if rnd.random() < 0.4 else list(np.concatenate([G.translation(rnd, 2.0), G.rotvec(rnd, rnd.choice(['one', 'generic', 'half_pi']))[0]]))
        seed = rnd.randrange(1 << 30)
        r2 = random.Random(seed)
        try:
            _, spec = None, None
            class _S: pass
            sp = _S()
            if arm.startswith('urdf:'):
                sp.n = 6
            else:
                S, M, homes, axes = (armh.six_r() if arm == 'six_r' else armh.random_chain(random.Random(seed)))
                sp.n = S.shape[1]
        except Exception:
            continue
        ops = rand_history(r2, sp, rnd.randint(1, 10))
        cfgs.append({'arm': arm, 'base6': base6, 'seed': seed, 'ops': ops})
    return cfgs


def shrink(cfg):
    ops = list(cfg['ops'])
    base = run_history(cfg)[0]
    if not base:
        return cfg
    key0 = base[0][0]
    changed = True
    while changed:
        changed = False
        for i in range(len(ops) - 1, -1, -1):
            cand = dict(cfg, ops=ops[:i] + ops[i + 1:])
            v = run_history(cand)[0]
            if v and v[0][0] == key0:
                ops = cand['ops']; changed = True; break
    return dict(cfg, ops=ops)


def replay(data):
    v, steps = run_history(data['input'])
    print('arm:', data['input']['arm'], 'base:', data['input']['base6'])
    print('history:', [op[0] for op in data['input']['ops']])
    print('observed:', v[:3] or 'state agrees after every call')
    return not v


def run(res, tier, seed, driver_ok):
    rnd = random.Random(seed * 7919 + 5)
    thorough = tier == 'thorough'
    cfgs = make_cfgs(rnd, 6000 if thorough else 120)
    seen = {}
    all_lines, all_states = [], []
    for cfg in cfgs:
        res.evaluations += 1
        v, steps = run_history(cfg)
        if not v and hasattr(run_history, 'last'):
            all_lines += run_history.last[0]; all_states += run_history.last[1]
        if any(op[0] in ('move', 'moveS', 'setHome', 'restore') for op in cfg['ops']):
            res.distinct.add(cfg['seed'])
        for key, text in v[:1]:
            if key in seen:
                continue
            small = shrink(cfg)
            v2 = run_history(small)[0]
            seen[key] = 1
            res.violations.append({'key': 'arm:' + key, 'input': small, 'observed': (v2 or v)[0][1], 'what': 'arm forward-kinematics / state-coherence property fails on the real Arm'})
    ncmp = 0
    if driver_ok and all_lines:
        try:
            model = C.Driver().batch(all_lines)
            for rep, (ee, base, th, tiny), line in zip(model, all_states, all_lines):
                if rep == 'bad-op':
                    res.mismatches.append({'request': line[:60], 'model': 'bad-op'}); continue
                mv = np.array([C.h2f(t) for t in rep.split()])
                ncmp += 1
                ok = G.close(mv[:16], ee.reshape(-1), 1e-8, 1e-8) and G.close(mv[16:32], base.reshape(-1), 1e-8, 1e-8)
                # the stored joint vector goes through fsr.angleMod in the code (wrap of the last three entries of a 6-vector): compare modulo 2*pi
                d = (mv[32:] - th) / (2 * math.pi) if len(mv[32:]) == len(th) else np.array([0.5])
                ok = ok and bool(np.max(np.abs(d - np.round(d))) < 1e-9) if len(th) else ok
                if not ok and not tiny and len(res.mismatches) < 10:
                    res.mismatches.append({'request': line[:40], 'model_ee': mv[:16].tolist(), 'impl_ee': ee.reshape(-1).tolist(), 'model_theta': mv[32:].tolist(), 'impl_theta': th.tolist()})
        except Exception as e:
            res.mismatches.append({'driver': str(e)[:300]})
    res.stats.update({'histories': len(cfgs), 'violation_kinds': sorted(seen), 'model_steps_compared': ncmp})
    res.sample({'arm': cfgs[0]['arm'], 'base6': cfgs[0]['base6'], 'ops': [op[0] for op in cfgs[0]['ops']]})
