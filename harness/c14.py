"""C14 — value semantics: operators and queries neither mutate nor alias their operands."""
import os, sys, random, math, io, contextlib
import numpy as np
import common as C
import gen as G
import mrargs

PROP = 'C14'
LEAN_MODULES = ['BR.Props.C14']
THEOREMS = ['BR.C14.inv_step', 'BR.C14.inv_exec', 'BR.C14.op_no_mutation', 'BR.C14.op_fresh', 'BR.C14.scope_ops_value_semantics']
TIE = ('K on alias graphs: lean/BR/Model/HeapOps.lean transcribes every operation in scope into a heap program (which lines copy, which return a reference, which write in place); '
       'the soundness theorems hold for every heap and every aliasing of the operands. Every run executes each operation on real objects, fingerprints every operand array (bytes) before/after, '
       'tests every array exposed by the result for shared memory with an operand, then mutates every exposed array of the result in place and re-checks the operands; the observed '
       '(mutated?, shares?) pair must equal the prediction computed by the compiled model.')
TRUSTED = ['Lean 4.33 kernel + Mathlib v4.33 (axioms: propext, Classical.choice, Quot.sound)', 'the transcription of the source into heap programs (BR/Model/HeapOps.lean), checked only by the correspondence run',
           'harness/c14.py: enumeration of operand-reachable / result-exposed ndarrays (attributes TM, TAA, data and returned arrays), np.shares_memory']
ASSUMPTIONS = ['excluded by the property: index/slice access, frame/position metadata objects of screws and wrenches, Screw->Wrench conversion, documented in-place functions']
RULE = ('every operation of the scope table x operand draws (poses from pose classes, random data) ; distinct = distinct (operation, operands); non-trivial = operand payload non-zero')
SAMPLED = ['robot constructors leave the arrays they are given unaltered (at construction and through a short history of use): observed on real Arm / SP objects, no theorem']


def libs():
    from basic_robotics.general import tm, fsr, Wrench
    from basic_robotics.general.faser_screw import Screw
    return tm, fsr, Screw, Wrench


def arrays_of(x, depth=0):
    """payload ndarrays reachable from a value (objects: TM/TAA/data; containers: elements)"""
    out = []
    if isinstance(x, np.ndarray):
        if x.dtype == object:
            for e in x.reshape(-1):
                out += arrays_of(e, depth + 1)
        else:
            out.append(x)
    elif isinstance(x, (list, tuple)) and depth < 3:
        for e in x:
            out += arrays_of(e, depth + 1)
    else:
        for attr in ('TM', 'TAA', 'data'):
            v = getattr(x, attr, None)
            if isinstance(v, np.ndarray):
                out.append(v)
    return out


def observe(make_operands, op, mutate_result=True, result_matters=True):
    """returns (mutated?, shares?, exception or None)"""
    ops = make_operands()
    arrs = []
    for o in ops:
        arrs += arrays_of(o)
    before = [a.tobytes() for a in arrs]
    try:
        with contextlib.redirect_stdout(io.StringIO()):
            res = op(*ops)
    except Exception as e:
        return False, False, e
    mutated = any(a.tobytes() != b for a, b in zip(arrs, before))
    # an operand whose payload attribute was *rebound* to a new array (x.data = f(x.data)) is mutated too:
    # read the operands' payloads again and compare with what they held before the call
    arrs_after = []
    for o in ops:
        arrs_after += arrays_of(o)
    if len(arrs_after) != len(before) or any(a.tobytes() != b for a, b in zip(arrs_after, before)):
        mutated = True
    shares = False
    if result_matters:
        rarr = arrays_of(res)
        shares = any(np.shares_memory(r, a) for r in rarr for a in arrs)
        if mutate_result and not mutated:
            for r in rarr:
                try:
                    if r.flags.writeable and r.dtype.kind == 'f':
                        r[...] = 7.25
                except Exception:
                    pass
            if any(a.tobytes() != b for a, b in zip(arrs, before)):
                shares = True
    return mutated, shares, None


def op_table(rnd):
    tm, fsr, Screw, Wrench = libs()
    pose = lambda: list(np.concatenate([G.translation(rnd, 5.0), G.rotvec(rnd, rnd.choice(['small', 'one', 'generic', 'half_pi']))[0]]))
    T = lambda: tm(pose())
    vec6 = lambda: np.array([rnd.uniform(-3, 3) for _ in range(6)])
    S = lambda: Screw(vec6().reshape((6, 1)), T())
    W = lambda: Wrench(vec6().reshape((6, 1)), None, T())
    k = rnd.choice([2.0, -0.5, 3.0])
    two = lambda f: (lambda: (f(), f()))
    one = lambda f: (lambda: (f(),))

    def pair():
        """operand pairs for the two-pose helpers: generic, and the special placements their branches key on — the same pose, the same
        position, one directly above / below the other (lookAt's degenerate case), pure translations, collinear along an axis"""
        a = pose()
        kind = rnd.choice(['generic', 'generic', 'same', 'same_position', 'above', 'below', 'translations', 'along_x'])
        if kind == 'generic':
            b = pose()
        elif kind == 'same':
            b = list(a)
        elif kind == 'same_position':
            b = a[:3] + pose()[3:]
        elif kind in ('above', 'below'):
            b = [a[0], a[1], a[2] + (1 if kind == 'above' else -1) * rnd.uniform(0.5, 4.0)] + (pose()[3:] if rnd.random() < 0.5 else [0.0, 0.0, 0.0])
        elif kind == 'translations':
            a = a[:3] + [0.0, 0.0, 0.0]; b = pose()[:3] + [0.0, 0.0, 0.0]
        else:
            b = [a[0] + rnd.uniform(0.5, 3.0), a[1], a[2]] + a[3:]
        return tm(a), tm(b)
    tab = [
        ('tm.gTM', one(T), lambda a: a.gTM(), True), ('tm.gTAA', one(T), lambda a: a.gTAA(), True), ('tm.gPos', one(T), lambda a: a.gPos(), True),
        ('tm.gRot', one(T), lambda a: a.gRot(), True), ('tm.getQuat', one(T), lambda a: a.getQuat(), True), ('tm.adjoint', one(T), lambda a: a.adjoint(), True),
        ('tm.copy', one(T), lambda a: a.copy(), True), ('tm.ctor_tm', one(T), lambda a: tm(a), True),
        ('tm.ctor_array_of_tm', one(T), lambda a: tm(np.array([a], dtype=object)), True),
        ('tm.ctor_matrix', lambda: (T().gTM(),), lambda m: tm(m), True), ('tm.ctor_array6', lambda: (np.array(pose()),), lambda v: tm(v), True),
        ('tm.inv', one(T), lambda a: a.inv(), True), ('tm.matmul', two(T), lambda a, b: a @ b, True), ('tm.add', two(T), lambda a, b: a + b, True),
        ('tm.sub', two(T), lambda a, b: a - b, True), ('tm.mulS', one(T), lambda a: a * k, True), ('tm.divS', one(T), lambda a: a / k, True),
        ('tm.abs', one(T), lambda a: abs(a), True), ('tm.floordivS', one(T), lambda a: a // 2.0, True), ('tm.floordiv', two(T), lambda a, b: a // b, True),
        ('fsr.localToGlobal', pair, lambda a, b: fsr.localToGlobal(a, b), False), ('fsr.globalToLocal', pair, lambda a, b: fsr.globalToLocal(a, b), False),
        ('fsr.distance', pair, lambda a, b: fsr.distance(a, b), False), ('fsr.arcDistance', pair, lambda a, b: fsr.arcDistance(a, b), False),
        ('fsr.tmInterpMidpoint', pair, lambda a, b: fsr.tmInterpMidpoint(a, b), False), ('fsr.tmAvgMidpoint', pair, lambda a, b: fsr.tmAvgMidpoint(a, b), False),
        ('fsr.closeLinearGap', pair, lambda a, b: fsr.closeLinearGap(a, b, 0.3), False), ('fsr.closeArcGap', pair, lambda a, b: fsr.closeArcGap(a, b, 0.3), False),
        ('fsr.IKPath', pair, lambda a, b: fsr.IKPath(a, b, 5), False),
        ('fsr.adjustRotationToMidpoint', lambda: (T(), T(), T()), lambda a, b, c: fsr.adjustRotationToMidpoint(a, b, c), False),
        ('fsr.lookAt', pair, lambda a, b: fsr.lookAt(a, b), False), ('fsr.mirror', pair, lambda a, b: fsr.mirror(a, b), False),
        ('fsr.poseError', pair, lambda a, b: fsr.poseError(a, b), False), ('fsr.geometricError', pair, lambda a, b: fsr.geometricError(a, b), False),
        ('fsr.twistToGoal', pair, lambda a, b: fsr.twistToGoal(a, b), False),
        ('screw.getData', one(S), lambda a: a.getData(), True), ('screw.flatten', one(S), lambda a: a.flatten(), True), ('screw.copy', one(S), lambda a: a.copy(), True),
        ('screw.add_obj', two(S), lambda a, b: a + b, True), ('screw.sub_obj', two(S), lambda a, b: a - b, True),
        ('screw.add_arr', lambda: (S(), vec6()), lambda a, v: a + v, True), ('screw.sub_arr', lambda: (S(), vec6().reshape(6, 1)), lambda a, v: a - v, True),
        ('screw.rsub_arr', lambda: (S(), vec6()), lambda a, v: a.__rsub__(v), True),
        ('screw.add_scalar', one(S), lambda a: a + k, True), ('screw.sub_scalar', one(S), lambda a: a - k, True),
        ('screw.mulS', one(S), lambda a: a * k, True), ('screw.rmulS', one(S), lambda a: k * a, True), ('screw.divS', one(S), lambda a: a / k, True),
        ('screw.abs', one(S), lambda a: abs(a), True), ('screw.cross', two(S), lambda a, b: a * b, True), ('screw.dot', two(S), lambda a, b: a @ b, True),
        ('wrench.getMoment', one(W), lambda a: a.getMoment(), True), ('wrench.getForce', one(W), lambda a: a.getForce(), True), ('wrench.copy', one(W), lambda a: a.copy(), True),
        ('wrench.ctor_force_at_point', lambda: (np.array([rnd.uniform(-3, 3) for _ in range(3)]), T()), lambda f, p: Wrench(f, p), True),
        ('wrench.add_obj', two(W), lambda a, b: a + b, True), ('wrench.sub_obj', two(W), lambda a, b: a - b, True),
        ('wrench.mulS', one(W), lambda a: a * k, True), ('wrench.divS', one(W), lambda a: a / k, True), ('wrench.abs', one(W), lambda a: abs(a), True),
    ]
    # the same operators with the scalars that invite a shortcut (0 for +/-, 1 for * and /), in direct and reflected form, and Python's sum();
    # each is predicted by the model entry of the plain operator named last
    for cls_, mk_, pre in ((S, 'screw', 'screw'), (W, 'wrench', 'wrench')):
        tab += [
            ('%s.add_zero' % pre, one(cls_), lambda a: a + 0, True, 'screw.add_scalar' if pre == 'screw' else 'wrench.mulS'),
            ('%s.radd_zero' % pre, one(cls_), lambda a: 0 + a, True, 'screw.add_scalar' if pre == 'screw' else 'wrench.mulS'),
            ('%s.radd_zero_float' % pre, one(cls_), lambda a: 0.0 + a, True, 'screw.add_scalar' if pre == 'screw' else 'wrench.mulS'),
            ('%s.sum_single' % pre, one(cls_), lambda a: sum([a]), True, 'screw.add_scalar' if pre == 'screw' else 'wrench.mulS'),
            ('%s.sub_zero' % pre, one(cls_), lambda a: a - 0, True, 'screw.sub_scalar' if pre == 'screw' else 'wrench.mulS'),
            ('%s.mul_one' % pre, one(cls_), lambda a: a * 1, True, 'screw.mulS' if pre == 'screw' else 'wrench.mulS'),
            ('%s.rmul_one' % pre, one(cls_), lambda a: 1 * a, True, 'screw.rmulS' if pre == 'screw' else 'wrench.mulS'),
            ('%s.div_one' % pre, one(cls_), lambda a: a / 1, True, 'screw.divS' if pre == 'screw' else 'wrench.divS'),
        ]
    tab += [('tm.mul_one', one(T), lambda a: a * 1, True, 'tm.mulS'), ('tm.div_one', one(T), lambda a: a / 1, True, 'tm.divS'),
            ('tm.add_zero_tm', one(T), lambda a: a + tm(), True, 'tm.add'), ('tm.sub_zero_tm', one(T), lambda a: a - tm(), True, 'tm.sub'),
            ('tm.matmul_identity', one(T), lambda a: a @ tm(), True, 'tm.matmul'), ('tm.rmatmul_identity', one(T), lambda a: tm() @ a, True, 'tm.matmul')]
    return tab


def default_ctor_history(kind):
    """construct, mutate the instance in every exposed way, construct again: is the new one pristine and unshared?"""
    tm, fsr, Screw, Wrench = libs()
    mk = {'tm': tm, 'screw': Screw, 'wrench': Wrench}[kind]
    a = mk()
    arrs = arrays_of(a)
    try:
        a[0] = 5.0
        a[4] = -3.0
    except Exception:
        pass
    for r in arrs:
        r[...] = 9.5
    b = mk()
    if kind == 'tm':
        pristine = np.array_equal(b.gTM(), np.eye(4)) and np.array_equal(b.gTAA(), np.zeros((6, 1)))
    else:
        pristine = np.array_equal(b.getData(), np.zeros((6, 1)))
    shares = any(np.shares_memory(x, y) for x in arrays_of(b) for y in arrs)
    return pristine, shares


def run(res, tier, seed, driver_ok):
    rnd = random.Random(seed * 7919 + 14)
    thorough = tier == 'thorough'
    draws = 300 if thorough else 20
    names = [t[0] for t in op_table(rnd) if len(t) == 4] + ['tm.default', 'screw.default', 'wrench.default', 'mr.function']
    pred = {}
    if driver_ok:
        try:
            reps = C.Driver().batch(['heap.predict ' + n for n in names])
            for n, r in zip(names, reps):
                if r in ('unknown-op', 'bad-op'):
                    res.mismatches.append({'op': n, 'model': r})
                else:
                    pred[n] = tuple(int(x) for x in r.split())
        except Exception as e:
            res.mismatches.append({'driver': str(e)[:300]})

    def report(name, mutated, shares, exc, detail):
        if exc is not None:
            res.violations.append({'key': 'raises:%s:%s' % (name, type(exc).__name__), 'what': '%s raised %r on valid operands' % (name, exc), 'input': detail})
            return
        if name in pred and pred[name] != (int(mutated), int(shares)) and len(res.mismatches) < 20:
            res.mismatches.append({'op': name, 'model_predicts(mutates,shares)': list(pred[name]), 'observed': [int(mutated), int(shares)]})
        if mutated:
            res.violations.append({'key': 'mutates:%s' % name, 'what': '%s modifies an operand' % name, 'input': detail, 'observed': 'operand bytes changed'})
        if shares:
            res.violations.append({'key': 'aliases:%s' % name, 'what': 'the result of %s shares storage with an operand (changing the result changes the source)' % name,
                                   'input': detail, 'observed': 'np.shares_memory / write-through'})

    seen = set()
    for d in range(draws):
        for ent in op_table(rnd):
            name, mk, op, result_matters = ent[:4]
            if len(ent) > 4 and ent[4] in pred:
                pred[name] = pred[ent[4]]
            res.evaluations += 1
            mutated, shares, exc = observe(mk, op, True, result_matters)
            key = (name, mutated, shares, type(exc).__name__ if exc else None)
            res.distinct.add((name, d))
            if key in seen and not (mutated or shares or exc):
                continue
            if (mutated or shares or exc) and key in seen:
                continue
            seen.add(key)
            report(name, mutated, shares, exc, {'op': name, 'draw': d})
    for kind in ('tm', 'screw', 'wrench'):
        res.evaluations += 1
        pristine, shares = default_ctor_history(kind)
        name = kind + '.default'
        if name in pred and pred[name] != (0, int(shares or not pristine)):
            res.mismatches.append({'op': name, 'model_predicts': list(pred[name]), 'observed_not_pristine_or_shared': int(shares or not pristine)})
        if not pristine or shares:
            res.violations.append({'key': 'default-ctor:%s' % kind, 'what': 'a freshly default-constructed %s depends on what was done to an earlier instance' % kind,
                                   'input': {'history': ['x = %s()' % kind, 'x[0] = 5.0; x[4] = -3.0; every exposed array filled with 9.5', 'y = %s()' % kind]},
                                   'observed': {'pristine': bool(pristine), 'shares_memory': bool(shares)}})
    # ---- ported Modern Robotics functions leave their arguments unaltered
    import basic_robotics.modern_robotics_numba as mrn
    mr = mrn.mr
    nfun = set()
    for d in range(40 if thorough else 3):
        for name, args, kind in mrargs.cases(rnd):
            f = getattr(mr, name, None)
            if f is None:
                continue
            a2 = mrargs.deep_copy_args(args)
            fp = mrargs.fingerprint(a2)
            res.evaluations += 1
            try:
                with contextlib.redirect_stdout(io.StringIO()):
                    f(*a2)
            except Exception as e:
                continue        # raising is C02's business
            nfun.add(name)
            if mrargs.fingerprint(a2) != fp:
                res.violations.append({'key': 'mutates:mr.%s' % name, 'what': 'MR function %s alters an array argument' % name, 'input': {'function': name}, 'observed': 'argument bytes changed'})
                if 'mr.function' in pred and pred['mr.function'][0] == 0:
                    res.mismatches.append({'op': 'mr.' + name, 'model_predicts': [0, 0], 'observed': [1, 0]})
    # ---- arrays handed to the robot constructors stay unaltered, at construction and through a short history of use
    #      (the constructors keep references to some of them: any later in-place update would write into the caller's array)
    import armh, sph
    from basic_robotics.kinematics import Arm, SP
    nrobots = 0
    for d in range(30 if thorough else 3):
        S, M, homes, axes = armh.six_r() if d % 2 == 0 else armh.random_chain(rnd, rnd.randint(2, 7))
        ops_ = {'screw_list': np.array(S, dtype=float), 'joint_poses_home': np.array(homes, dtype=float), 'joint_axes': np.array(axes, dtype=float)}
        fp = {k: v.tobytes() for k, v in ops_.items()}
        res.evaluations += 1
        try:
            with contextlib.redirect_stdout(io.StringIO()):
                arm = Arm(libs()[0]([rnd.uniform(-1, 1) for _ in range(6)]), ops_['screw_list'], libs()[0](M.copy()), ops_['joint_poses_home'], ops_['joint_axes'])
                n_ = arm.num_dof
                stage = 'constructor'
                bad_ = [k for k, v in ops_.items() if v.tobytes() != fp[k]]
                if not bad_:
                    stage = 'history'
                    th = np.array([rnd.uniform(-1, 1) for _ in range(n_)])
                    arm.FK(th.copy()); arm.move(libs()[0]([rnd.uniform(-1, 1) for _ in range(6)])); arm.FK(th.copy() * 0.5)
                    arm.setArbitraryHome(arm.getEEPos() @ libs()[0]([0.1, 0, 0.2, 0, 0.1, 0])); arm.restoreOriginalEE()
                    arm.jacobian(th.copy()); arm.jacobianBody(th.copy()); arm.IK(arm.FK(th.copy()), theta_init=th + 0.01)
                    bad_ = [k for k, v in ops_.items() if v.tobytes() != fp[k]]
            nrobots += 1
            for k in bad_:
                res.violations.append({'key': 'robot-ctor-altered:arm:%s:%s' % (k, stage), 'what': 'an array handed to the Arm constructor was altered (%s)' % stage, 'input': {'argument': k, 'joints': n_}, 'observed': 'argument bytes changed'})
        except Exception as e:
            res.violations.append({'key': 'raises:arm.ctor:%s' % type(e).__name__, 'what': 'Arm constructor / use raised %r' % (e,), 'input': {'draw': d}})
        g_ = sph.geometry(rnd)
        bj = np.array([[g_['rb'] * math.cos(k), g_['rb'] * math.sin(k), g_['bth']] for k in np.linspace(0, 5.2, 6)]).T.copy()
        tj = np.array([[g_['rt'] * math.cos(k + 0.3), g_['rt'] * math.sin(k + 0.3), -g_['tth']] for k in np.linspace(0, 5.2, 6)]).T.copy()
        fpb, fpt = bj.tobytes(), tj.tobytes()
        res.evaluations += 1
        try:
            with contextlib.redirect_stdout(io.StringIO()):
                hgt = 1.2 * g_['rb']
                sp = SP(bj, tj, libs()[0](), libs()[0]([0, 0, hgt, 0, 0, 0]), 0.5 * hgt, 2.5 * hgt, g_['bth'], g_['tth'], 'sp')
                stage = 'constructor'
                alt = bj.tobytes() != fpb or tj.tobytes() != fpt
                if not alt:
                    stage = 'history'
                    sp.IK(libs()[0]([0.05 * hgt, 0, hgt * 1.05, 0.05, 0, 0.1])); sp.FK(np.array(sp.getLens()).reshape(-1).copy()); sp.move(libs()[0]([1, 2, 3, 0.1, 0.2, 0.3])); sp.spinCustom(0.4)
                    sp.inverseJacobian()
                    alt = bj.tobytes() != fpb or tj.tobytes() != fpt
            nrobots += 1
            if alt:
                res.violations.append({'key': 'robot-ctor-altered:sp:%s' % stage, 'what': 'a joint table handed to the SP constructor was altered (%s)' % stage, 'input': {'draw': d}, 'observed': 'argument bytes changed'})
        except Exception as e:
            res.violations.append({'key': 'raises:sp.ctor:%s' % type(e).__name__, 'what': 'SP constructor / use raised %r' % (e,), 'input': {'draw': d}})
    res.stats.update({'operations': len(names), 'draws': draws, 'mr_functions_checked': len(nfun), 'predictions': len(pred), 'robots_constructed_and_used': nrobots})
    res.sample({'op': 'tm.matmul', 'observed': [0, 0]}); res.sample({'ops': names[:12]})


def replay(data):
    rnd = random.Random(1)
    key = data.get('key', '')
    if key.startswith('default-ctor:'):
        pristine, shares = default_ctor_history(key.split(':')[1])
        print('second default instance pristine:', pristine, ' shares storage with the first:', shares)
        return pristine and not shares
    name = data.get('input', {}).get('op')
    for n, mk, op, rm in op_table(rnd):
        if n == name:
            m, s, e = observe(mk, op, True, rm)
            print(n, 'mutates operand:', m, ' result aliases operand:', s, ' exception:', e)
            return not (m or s or e)
    print('recorded:', data.get('what'))
    return False
