"""C11 — Stewart platform inverse Jacobian is d(legs)/d(twist); leg forces balance load."""
import os, sys, random, math, io, contextlib, warnings
import numpy as np
import common as C
import gen as G
import sph, armh

PROP = 'C11'
LEAN_MODULES = ['BR.Props.C11', 'BR.Props.C11Body', 'BR.Props.C11Carry']
THEOREMS = ['BR.C11.cross_top_eq_cross_bottom', 'BR.C11.leg_wrench', 'BR.C11.sumActuator_eq_neg', 'BR.C11.statics_balance', 'BR.C11.row_dot_twist',
            'BR.C11.hasDerivAt_norm3_sub', 'BR.C11.invJac_is_length_derivative',
            'BR.C11B.dot_mulVec_transpose', 'BR.C11B.bodyForces_eq',
            'BR.C11C.carryWrench_force', 'BR.C11C.carryWrench_moment', 'BR.C11C.shaftWrenches_force', 'BR.C11C.pointTowards_on_leg']
TIE = ('The rows [q x n, n] of SP.inverseJacobian, the wrench sum of SP.sumActuatorWrenches and the transpose map invJ^T tau are modelled in lean/BR/Model/SP.lean; their Float instances are compared '
       'with the real methods on the joint positions the real platform publishes (1e-10). The derivative, equilibrium, body-frame and mass-carrying clauses are also evaluated directly on the real SP '
       '(Richardson central differences of independently computed leg lengths; independent wrench bookkeeping).')
TRUSTED = ['Lean 4.33 kernel + Mathlib v4.33 (axioms: propext, Classical.choice, Quot.sound)', 'harness/sph.py, harness/armh.py (independent exp6 / Ad / leg lengths)',
           'np.linalg.pinv is an oracle (contract: inverse of an invertible 6x6 matrix); theorems are stated for any forces solving invJ^T tau = W',
           'the body-frame interface and carryMassCalc bookkeeping are decided on the implementation only (sampled)',
           'the derivative theorem assumes the top joint moves with the velocity field of a rigid motion with spatial twist V (standard kinematics; not derived from the exp6 model)']
ASSUMPTIONS = ['geometries, placements and poses of C09 with cond(invJ) <= 1e4', 'derivative to 1e-6 (Richardson, steps 2e-4/1e-4), equilibrium to 1e-8 relative to the wrench norm']
RULE = ('random geometries x {plain at a random base, moved, re-spun and moved, small platform far (up to 12) from the origin with cond 1e3..1e4} x in-workspace relative poses accepted without corrective action x random twists and wrenches (components up to 1 and 10); '
        'distinct = distinct (geometry, placement, pose); non-trivial = non-vertical wrench away from the origin')
SAMPLED = ['staticForcesInvBody inverts staticForcesBody (pseudo-inverse oracle; the forward direction is a theorem for any Jacobian)']


def run(res, tier, seed, driver_ok):
    warnings.filterwarnings('ignore')
    rnd = random.Random(seed * 7919 + 11)
    thorough = tier == 'thorough'
    tm, fsr, Wrench, SP, newSP = sph.libs()
    N = 700 if thorough else 50
    lines, expect = [], []
    stats = {'poses': 0, 'skipped_corrected': 0, 'skipped_ill_conditioned': 0, 'worst_derivative_error': 0.0, 'worst_equilibrium_error': 0.0, 'modes': {}}

    def bad(key, what, inp, obs):
        if len(res.violations) < 40:
            res.violations.append({'key': key, 'what': what, 'input': inp, 'observed': obs})

    for n_ in range(N):
        base6 = [rnd.uniform(-2, 2) for _ in range(3)] + [rnd.uniform(-1.5, 1.5) for _ in range(3)]
        mode = rnd.choice(['plain', 'moved', 'spun_moved', 'far'])
        stats['modes'][mode] = stats['modes'].get(mode, 0) + 1
        geo = None
        if mode == 'far':
            # a small platform standing far from the world origin: the moment rows q x n dominate and the inverse Jacobian's
            # condition number reaches 1e3..1e4, the upper part of the property's range
            geo = sph.geometry(rnd)
            sc = rnd.uniform(0.2, 0.35) / geo['rb']
            for k in ('rb', 'rt', 'bth', 'tth', 'lmin', 'lmax'):
                geo[k] *= sc
            base6 = [rnd.uniform(-12, 12) for _ in range(3)] + [rnd.uniform(-1.5, 1.5) for _ in range(3)]
        try:
            with contextlib.redirect_stdout(io.StringIO()):
                sp, g = sph.build(rnd, g=geo, base6=base6 if mode in ('plain', 'far') else None)
                if mode == 'spun_moved':
                    sp.spinCustom(rnd.uniform(-3, 3))
                if mode != 'plain':
                    sp.move(tm(list(base6)))
                sp.setMasses(rnd.uniform(1, 5), rnd.uniform(0.2, 1), rnd.uniform(0.2, 1), top_plate_mass=rnd.uniform(1, 5))
                sp.setCOG(rnd.uniform(0.1, 0.3) * g['lmin'], rnd.uniform(0.1, 0.45) * g['lmin'])      # motor and shaft centres of gravity at DIFFERENT distances
        except Exception as e:
            bad('raises:setup:%s' % type(e).__name__, 'setting a platform up raised', {'mode': mode}, repr(e)[:200]); continue
        h = sp._nominal_height
        bj, tj = sph.local_joints(sp)
        rel = sph.rel_pose(rnd, h, 0.8)
        Tb = sp.getBottomT().gTM().copy(); Tt = Tb @ sph.T6(rel)
        inp = {'geometry': g, 'mode': mode, 'base6': base6, 'rel_pose': list(rel), 'case': n_, 'seed': seed}
        res.evaluations += 1
        try:
            with contextlib.redirect_stdout(io.StringIO()):
                L, valid = sp.IK(tm(Tt))
                if np.abs(sp.getTopT().gTM() - Tt).max() > 1e-12 or not valid:
                    stats['skipped_corrected'] += 1; continue
                iJ = np.array(sp.inverseJacobian(), dtype=float)
        except Exception as e:
            bad('raises:inverseJacobian:%s' % type(e).__name__, 'IK / inverseJacobian raised', inp, repr(e)[:200]); continue
        if np.abs(sp.getTopT().gTM() - Tt).max() > 1e-9 or np.abs(sp.getBottomT().gTM() - Tb).max() > 1e-9:
            bad('query-moved:inverseJacobian', 'inverseJacobian changed a plate pose', inp, None)
        cnd = float(np.linalg.cond(iJ))
        if not cnd <= 1e4:
            stats['skipped_ill_conditioned'] += 1; continue
        if cnd > 1e3:
            stats['cond_1e3_to_1e4'] = stats.get('cond_1e3_to_1e4', 0) + 1
        stats['poses'] += 1
        res.distinct.add(n_)
        bs = np.array(sp.getBottomJoints(), dtype=float); ts = np.array(sp.getTopJoints(), dtype=float)
        lines.append('sp.invjac ' + ' '.join(C.f2h(x) for x in list(bs.T.reshape(-1)) + list(ts.T.reshape(-1))))
        expect.append(('inverseJacobian', iJ.reshape(-1), inp))
        # derivative clause
        V = np.array([rnd.uniform(-1, 1) for _ in range(6)])

        def lens(s):
            return sph.lengths_ref(bj, tj, Tb, armh.expm6(V, s) @ Tt)

        def cd(hh):
            return (lens(hh) - lens(-hh)) / (2 * hh)
        hh = 2e-4
        d = (4 * cd(hh / 2) - cd(hh)) / 3
        e = float(np.abs(iJ @ V - d).max())
        stats['worst_derivative_error'] = max(stats['worst_derivative_error'], e)
        if not e <= 1e-6:
            bad('derivative:%s' % mode, 'inverseJacobian * twist differs from the Richardson derivative of the leg lengths', dict(inp, twist=list(V)), e)
        # the same query with BOTH plate poses given by the caller: the platform placed somewhere else (same relative pose)
        if n_ % 2 == 0:
            Gm = sph.T6([rnd.uniform(-3, 3) for _ in range(3)] + [rnd.uniform(-1.2, 1.2) for _ in range(3)])
            Tb2, Tt2 = Gm @ Tb, Gm @ Tt
            try:
                with contextlib.redirect_stdout(io.StringIO()):
                    iJ2 = np.array(sp.inverseJacobian(tm(Tt2.copy()), tm(Tb2.copy())), dtype=float)
            except Exception as e:
                bad('raises:inverseJacobian:%s' % type(e).__name__, 'inverseJacobian(top, bottom) raised', inp, repr(e)[:200]); iJ2 = None
            if iJ2 is not None:
                stats['explicit_pose_queries'] = stats.get('explicit_pose_queries', 0) + 1
                if np.abs(sp.getTopT().gTM() - Tt).max() > 1e-9 or np.abs(sp.getBottomT().gTM() - Tb).max() > 1e-9:
                    bad('query-moved:inverseJacobian', 'inverseJacobian(top, bottom) changed a plate pose', inp, None)
                bs2 = (Tb2 @ np.vstack([bj, np.ones((1, 6))]))[:3]; ts2 = (Tt2 @ np.vstack([tj, np.ones((1, 6))]))[:3]
                lines.append('sp.invjac ' + ' '.join(C.f2h(x) for x in list(bs2.T.reshape(-1)) + list(ts2.T.reshape(-1))))
                expect.append(('inverseJacobian(top, bottom)', iJ2.reshape(-1), dict(inp, placed_by=Gm.reshape(-1).tolist())))
                cd2 = lambda hh_: (sph.lengths_ref(bj, tj, Tb2, armh.expm6(V, hh_) @ Tt2) - sph.lengths_ref(bj, tj, Tb2, armh.expm6(V, -hh_) @ Tt2)) / (2 * hh_)
                d2 = (4 * cd2(1e-4) - cd2(2e-4)) / 3
                if np.linalg.cond(iJ2) <= 1e4 and not float(np.abs(iJ2 @ V - d2).max()) <= 1e-6 * max(1.0, float(np.linalg.norm(Tt2[:3, 3]))):
                    bad('derivative:explicit-poses', 'inverseJacobian(top, bottom) * twist differs from the Richardson derivative of the leg lengths at the poses given',
                        dict(inp, twist=list(V), placed_by=Gm.reshape(-1).tolist()), float(np.abs(iJ2 @ V - d2).max()))
        # statics
        W = np.array([rnd.uniform(-10, 10) for _ in range(6)])
        wn = float(np.linalg.norm(W))
        i2 = dict(inp, wrench=list(W))
        try:
            with contextlib.redirect_stdout(io.StringIO()):
                tau = np.asarray(sp.staticForces(Wrench(W.copy()))).reshape(-1)
                sw = np.asarray(sp.sumActuatorWrenches(tau).data, dtype=float).reshape(-1)
                back = np.asarray(sp.staticForcesInv(tau).data, dtype=float).reshape(-1)
                Wb = armh.Ad(Tt).T @ W
                taub = np.asarray(sp.staticForcesBody(Wrench(Wb.copy()))).reshape(-1)
                backb = np.asarray(sp.staticForcesInvBody(taub).data, dtype=float).reshape(-1)
                taum, wr = sp.carryMassCalc(Wrench(W.copy()))
        except Exception as e:
            bad('raises:statics:%s' % type(e).__name__, 'a force query raised', i2, repr(e)[:200]); continue
        lines.append('sp.sumact ' + ' '.join(C.f2h(x) for x in list(bs.T.reshape(-1)) + list(ts.T.reshape(-1)) + list(tau)))
        expect.append(('sumActuatorWrenches', sw, i2))
        # ... and for leg forces that are NOT the ones the last statics call left behind
        farb = np.array([rnd.uniform(-10, 10) for _ in range(6)])
        try:
            with contextlib.redirect_stdout(io.StringIO()):
                swa = np.asarray(sp.sumActuatorWrenches(farb.copy()).data, dtype=float).reshape(-1)
            lines.append('sp.sumact ' + ' '.join(C.f2h(x) for x in list(bs.T.reshape(-1)) + list(ts.T.reshape(-1)) + list(farb)))
            expect.append(('sumActuatorWrenches(forces)', swa, dict(i2, forces=list(farb))))
            if not float(np.abs(swa + iJ.T @ farb).max()) <= 1e-8 * max(1.0, float(np.linalg.norm(iJ.T @ farb))):
                bad('sum-explicit-forces', 'sumActuatorWrenches(forces) is not the summed leg wrench of the forces given (-invJ^T forces)', dict(i2, forces=list(farb)),
                    {'got': swa.tolist(), 'want': (-iJ.T @ farb).tolist()})
        except Exception as e:
            bad('raises:sumActuatorWrenches:%s' % type(e).__name__, 'sumActuatorWrenches(forces) raised', i2, repr(e)[:200])
        lines.append('sp.rowsT ' + ' '.join(C.f2h(x) for x in list(iJ.reshape(-1)) + list(tau)))
        expect.append(('staticForcesInv', back, i2))
        # the wrench carryMassCalc hands to the statics, recovered from the leg forces it returns: invJ^T tau_m
        lines.append('sp.carry ' + ' '.join(C.f2h(x) for x in list(W) + list(np.asarray(sp.grav, dtype=float).reshape(-1)) + list(Tt[:3, 3]) +
                                              [sp._top_plate_mass, sp._act_shaft_mass, sp._act_shaft_grav_center] + list(bs.T.reshape(-1)) + list(ts.T.reshape(-1))))
        expect.append(('carryMassCalc', iJ.T @ np.asarray(taum, dtype=float).reshape(-1), i2))
        e = float(np.abs(iJ.T @ tau - W).max()) / wn
        stats['worst_equilibrium_error'] = max(stats['worst_equilibrium_error'], e)
        if not e <= 1e-8:
            bad('equilibrium:%s' % mode, 'invJ^T tau differs from the applied wrench', i2, e)
        e = float(np.abs(sw + W).max()) / wn
        if not e <= 1e-8:
            bad('base-wrench:%s' % mode, 'summed leg wrench on the base is not the negative of the applied wrench', i2, e)
        e = float(np.abs(back - W).max()) / wn
        if not e <= 1e-8:
            bad('forces-back:%s' % mode, 'staticForcesInv(staticForces(W)) differs from W', i2, e)
        e = float(np.abs(taub - tau).max()) / wn
        if not e <= 1e-8:
            bad('body-forces:%s' % mode, 'staticForcesBody of the body-frame wrench differs from staticForces of the same wrench in the space frame', i2, e)
        e = float(np.abs(backb - Wb).max()) / float(np.linalg.norm(Wb))
        if not e <= 1e-8:
            bad('body-back:%s' % mode, 'staticForcesInvBody(staticForcesBody(Wb)) differs from Wb', i2, e)
        # the same balance read through the DEFAULTED queries, in both interfaces, with a different wrench each time: the legs' summed wrench
        # on the base is the negative of the wrench applied LAST (the platform remembers the forces of its last statics call)
        try:
            Wa = np.array([rnd.uniform(-10, 10) for _ in range(6)]); Wc = np.array([rnd.uniform(-10, 10) for _ in range(6)])
            with contextlib.redirect_stdout(io.StringIO()):
                sp.staticForces(Wrench(Wa.copy()))
                s_space = np.asarray(sp.sumActuatorWrenches().data, dtype=float).reshape(-1)
                sp.staticForcesBody(Wrench((armh.Ad(Tt).T @ Wc).copy()))
                s_body = np.asarray(sp.sumActuatorWrenches().data, dtype=float).reshape(-1)
            for nm_, got_, want_ in (('space', s_space, -Wa), ('body', s_body, -Wc)):
                if not float(np.abs(got_ - want_).max()) <= 1e-8 * float(np.linalg.norm(want_)):
                    bad('base-wrench-default:%s' % nm_, 'after a %s-frame statics call, sumActuatorWrenches() (defaulted) is not the negative of the wrench just applied' % nm_,
                        dict(inp, wrench=list(Wa if nm_ == 'space' else Wc)), {'got': got_.tolist(), 'want': want_.tolist()})
        except Exception as e:
            bad('raises:statics-default:%s' % type(e).__name__, 'a defaulted force query raised', inp, repr(e)[:200])
        grav = np.asarray(sp.grav, dtype=float).reshape(-1)

        def wrench_at(p, m):
            f = grav * m
            return np.hstack([np.cross(p, f), f])
        Wexp = W + wrench_at(Tt[:3, 3], sp._top_plate_mass)
        for i in range(6):
            n = bs[:, i] - ts[:, i]; n = n / np.linalg.norm(n)
            Wexp = Wexp + wrench_at(ts[:, i] + n * sp._act_shaft_grav_center, sp._act_shaft_mass)
        tauexp = np.linalg.solve(iJ.T, Wexp)
        e = float(np.abs(np.asarray(taum).reshape(-1) - tauexp).max()) / float(np.linalg.norm(Wexp))
        if not e <= 1e-8:
            bad('carry-mass:%s' % mode, 'carryMassCalc leg forces differ from those carrying wrench + top plate weight + shaft weights at their centres of gravity', i2, e)
        if np.abs(sp.getTopT().gTM() - Tt).max() > 1e-9 or np.abs(sp.getBottomT().gTM() - Tb).max() > 1e-9:
            bad('query-moved:forces', 'a force query changed a plate pose', i2, None)
        if n_ < 2:
            res.sample({'geometry': g, 'mode': mode, 'cond': float(np.linalg.cond(iJ))})
    if driver_ok and lines:
        out = C.Driver().batch(lines)
        for (kind, exp, inp), o in zip(expect, out):
            if o == 'bad-op':
                res.mismatches.append({'fn': kind, 'what': 'model refused', 'input': inp}); continue
            v = np.array([C.h2f(x) for x in o.split()])
            sc = max(1.0, float(np.abs(exp).max()))
            if v.shape != exp.shape or not np.abs(v - exp).max() <= 1e-9 * sc:
                res.mismatches.append({'fn': kind, 'max_diff': float(np.abs(v - exp).max()) if v.shape == exp.shape else 'shape', 'input': inp})
    stats['model_lines_compared'] = len(lines)
    res.stats.update(stats)


def replay(data):
    print('recorded:', data.get('key'), data.get('what'), str(data.get('observed'))[:300])
    return False
