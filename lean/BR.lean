import BR.Scalar
import BR.Real
import BR.Gen.C15
import BR.Lemmas.SegBox
