/-
  The `ℝ` instance of the scalar classes (proof files only) and the bridge lemmas that
  turn the model's operations into Mathlib's.
-/
import BR.Scalar
import Mathlib.Analysis.SpecialFunctions.Trigonometric.Inverse
import Mathlib.Analysis.SpecialFunctions.Trigonometric.Arctan
import Mathlib.Analysis.SpecialFunctions.Sqrt
import Mathlib.Tactic.Ring
import Mathlib.Tactic.Linarith
import Mathlib.Tactic.FieldSimp
import Mathlib.Tactic.NormNum
import Mathlib.Algebra.Order.Floor.Ring

noncomputable section

/-- The scalar operations of any linear ordered field (used at `ℝ` and `ℚ`). -/
@[reducible] def OrdField.ofField (K : Type) [Field K] [LinearOrder K] [IsStrictOrderedRing K] :
    OrdField K where
  natLit n := (n : K)
  sciLit m s e := (OfScientific.ofScientific m s e : K)
  decLt _ _ := inferInstance
  decLe _ _ := inferInstance

@[reducible] instance instOrdFieldReal : OrdField ℝ := OrdField.ofField ℝ

/-- `atan2` is only a parameter of the models over ℝ (no theorem depends on its value
    except through explicitly stated hypotheses). -/
def Real.atan2 (y x : ℝ) : ℝ :=
  if 0 < x then Real.arctan (y / x)
  else if x < 0 then (if 0 ≤ y then Real.arctan (y / x) + Real.pi else Real.arctan (y / x) - Real.pi)
  else if 0 < y then Real.pi / 2 else if y < 0 then -(Real.pi / 2) else 0

@[reducible] instance instScalarReal : Scalar ℝ where
  sin := Real.sin
  cos := Real.cos
  tan := Real.tan
  sqrt := Real.sqrt
  acos := Real.arccos
  atan2 := Real.atan2
  floor := fun x => (⌊x⌋ : ℝ)
  pi := Real.pi

end

namespace BR
open OrdField

section field
variable {K : Type} [Field K] [LinearOrder K] [IsStrictOrderedRing K]

@[simp] theorem natLit_field (n : Nat) : (@OrdField.natLit K (OrdField.ofField K) n) = (n : K) := rfl
theorem ofNat_field_cast (n : Nat) :
    (@OfNat.ofNat K n (@OrdField.instOfNat K (OrdField.ofField K) n)) = (n : K) := rfl
theorem ofNat_field (n : Nat) [n.AtLeastTwo] :
    (@OfNat.ofNat K n (@OrdField.instOfNat K (OrdField.ofField K) n)) = (OfNat.ofNat n : K) := rfl
@[simp] theorem ofNat_field_zero :
    (@OfNat.ofNat K 0 (@OrdField.instOfNat K (OrdField.ofField K) 0)) = (0 : K) := by
  rw [ofNat_field_cast]; exact Nat.cast_zero
@[simp] theorem ofNat_field_one :
    (@OfNat.ofNat K 1 (@OrdField.instOfNat K (OrdField.ofField K) 1)) = (1 : K) := by
  rw [ofNat_field_cast]; exact Nat.cast_one
@[simp] theorem sabs_field (x : K) : @sabs K (OrdField.ofField K) x = |x| := by
  unfold sabs
  split_ifs with h
  · exact (abs_of_neg (by simpa using h)).symm
  · exact (abs_of_nonneg (by simpa using h)).symm
end field

@[simp] theorem sabs_real (x : ℝ) : sabs x = |x| := sabs_field x

/-! the same bridges for the instance path `Scalar ℝ → OrdField ℝ` (what models over `[Scalar α]` produce) -/
theorem ofNat_real (n : Nat) [n.AtLeastTwo] :
    (@OfNat.ofNat ℝ n (@OrdField.instOfNat ℝ (@Scalar.toOrdField ℝ instScalarReal) n)) = (OfNat.ofNat n : ℝ) := rfl
@[simp] theorem ofNat_real_zero :
    (@OfNat.ofNat ℝ 0 (@OrdField.instOfNat ℝ (@Scalar.toOrdField ℝ instScalarReal) 0)) = (0 : ℝ) :=
  ofNat_field_zero
@[simp] theorem ofNat_real_one :
    (@OfNat.ofNat ℝ 1 (@OrdField.instOfNat ℝ (@Scalar.toOrdField ℝ instScalarReal) 1)) = (1 : ℝ) :=
  ofNat_field_one
@[simp] theorem sabs_real' (x : ℝ) : @sabs ℝ (@Scalar.toOrdField ℝ instScalarReal) x = |x| := sabs_field x
@[simp] theorem sin_real (x : ℝ) : Scalar.sin x = Real.sin x := rfl
@[simp] theorem cos_real (x : ℝ) : Scalar.cos x = Real.cos x := rfl
@[simp] theorem tan_real (x : ℝ) : Scalar.tan x = Real.tan x := rfl
@[simp] theorem sqrt_real (x : ℝ) : Scalar.sqrt x = Real.sqrt x := rfl
@[simp] theorem acos_real (x : ℝ) : Scalar.acos x = Real.arccos x := rfl
@[simp] theorem pi_real : (Scalar.pi : ℝ) = Real.pi := rfl
@[simp] theorem sci_real (m : Nat) (s : Bool) (e : Nat) :
    (@OfScientific.ofScientific ℝ (@OrdField.instOfScientific ℝ (@Scalar.toOrdField ℝ instScalarReal)) m s e)
      = (OfScientific.ofScientific m s e : ℝ) := rfl

end BR
