/-
  C16 — RRT* builds a collision-free, cost-consistent tree and returns a path in it.
  Property theorems about BR/Model/RRT.lean at ℝ, for every oracle trace.
-/
import BR.Real
import BR.Model.RRT
import Mathlib.Tactic.Linarith

namespace BR.C16
open BR.RRT OrdField

abbrev N := Node ℝ

/-! ### the choose-parent fold -/

/-- what the fold guarantees about its result, relative to the start value and the candidates seen -/
structure Chosen (tree : List N) (start : Nat × ℝ × ℝ) (cs : List (Cand ℝ)) (best : Nat × ℝ × ℝ) : Prop where
  le_start : best.2.1 ≤ start.2.1
  le_free : ∀ c ∈ cs, c.collides = false → best.2.1 ≤ c.dist + costOf tree c.id
  attained : best = start ∨ ∃ c ∈ cs, c.collides = false ∧ best = (c.id, c.dist + costOf tree c.id, c.dist)

theorem choose_fold (tree : List N) (start : Nat × ℝ × ℝ) (cs : List (Cand ℝ)) :
    Chosen tree start cs (cs.foldl (choose tree) start) := by
  induction cs using List.reverseRecOn with
  | nil => exact ⟨le_refl _, (by intro c hc; cases hc), Or.inl rfl⟩
  | append_singleton cs c ih =>
    rw [List.foldl_append, List.foldl_cons, List.foldl_nil]
    set b := cs.foldl (choose tree) start with hb
    unfold choose
    split_ifs with h
    · obtain ⟨hlt, hfree⟩ := h
      refine ⟨?_, ?_, Or.inr ⟨c, by simp, hfree, rfl⟩⟩
      · exact le_trans hlt.le ih.le_start
      · intro c' hc' hf'
        rcases List.mem_append.mp hc' with h1 | h1
        · exact le_trans hlt.le (ih.le_free c' h1 hf')
        · rw [List.mem_singleton.mp h1]
    · refine ⟨ih.le_start, ?_, ?_⟩
      · intro c' hc' hf'
        rcases List.mem_append.mp hc' with h1 | h1
        · exact ih.le_free c' h1 hf'
        · rw [List.mem_singleton.mp h1] at hf' ⊢
          by_contra hcon
          exact h ⟨not_le.mp hcon, hf'⟩
      · rcases ih.attained with h1 | ⟨c', hc', hf', he⟩
        · exact Or.inl h1
        · exact Or.inr ⟨c', List.mem_append_left _ hc', hf', he⟩

/-! ### one insertion -/

/-- the oracle refers only to nodes already in the tree -/
def WFIter (tree : List N) (it : Iter ℝ) : Prop :=
  it.nearest < tree.length ∧ ∀ c ∈ it.cands, c.id < tree.length

/-- the node appended by `insert` -/
noncomputable def newNode (tree : List N) (it : Iter ℝ) : N :=
  let best := it.cands.foldl (choose tree) (it.nearest, it.dist0 + costOf tree it.nearest, it.dist0)
  { parent := some best.1, cost := best.2.1, edge := best.2.2 }

theorem insert_eq (tree : List N) (it : Iter ℝ) : insert tree it = tree ++ [newNode tree it] := rfl

/-- **insertion-time clause**: the new node is attached to the cheapest candidate among the first
    nearest node and the collision-free neighbours examined; its cost is that candidate's cost plus
    the distance to it; and the link is collision-free whenever the sample was accepted. -/
theorem insert_attaches_cheapest_free (tree : List N) (it : Iter ℝ) (dmin dmax : ℝ)
    (hacc : ¬ rejected dmin dmax it) :
    let n := newNode tree it
    (n.cost ≤ it.dist0 + costOf tree it.nearest) ∧
    (∀ c ∈ it.cands, c.collides = false → n.cost ≤ c.dist + costOf tree c.id) ∧
    ((n.parent = some it.nearest ∧ n.edge = it.dist0 ∧ it.coll0 = false) ∨
      ∃ c ∈ it.cands, c.collides = false ∧ n.parent = some c.id ∧ n.edge = c.dist) ∧
    (∃ p, n.parent = some p ∧ n.cost = n.edge + costOf tree p) ∧
    (dmin ≤ it.dist0 ∧ it.dist0 ≤ dmax) := by
  intro n
  have hch := choose_fold tree (it.nearest, it.dist0 + costOf tree it.nearest, it.dist0) it.cands
  have hc0 : it.coll0 = false := by
    unfold rejected at hacc
    cases h : it.coll0 with
    | false => rfl
    | true => exact absurd (Or.inr (Or.inr h)) hacc
  have hr : dmin ≤ it.dist0 ∧ it.dist0 ≤ dmax := by
    unfold rejected at hacc
    constructor
    · by_contra h; exact hacc (Or.inr (Or.inl (not_le.mp h)))
    · by_contra h; exact hacc (Or.inl (not_le.mp h))
  refine ⟨hch.le_start, hch.le_free, ?_, ?_, hr⟩
  · rcases hch.attained with h1 | ⟨c, hc, hf, he⟩
    · left
      refine ⟨?_, ?_, hc0⟩ <;> simp only [n, newNode, h1]
    · right
      refine ⟨c, hc, hf, ?_, ?_⟩ <;> simp only [n, newNode, he]
  · rcases hch.attained with h1 | ⟨c, hc, hf, he⟩
    · exact ⟨it.nearest, by simp only [n, newNode, h1], by simp only [n, newNode, h1] <;> ring⟩
    · exact ⟨c.id, by simp only [n, newNode, he], by simp only [n, newNode, he] <;> ring⟩

theorem newNode_parent_lt (tree : List N) (it : Iter ℝ) (hwf : WFIter tree it) :
    ∃ p, (newNode tree it).parent = some p ∧ p < tree.length := by
  have hch := choose_fold tree (it.nearest, it.dist0 + costOf tree it.nearest, it.dist0) it.cands
  rcases hch.attained with h1 | ⟨c, hc, _, he⟩
  · exact ⟨it.nearest, by simp only [newNode, h1], hwf.1⟩
  · exact ⟨c.id, by simp only [newNode, he], hwf.2 c hc⟩

/-! ### the whole tree -/

/-- every oracle answer of the trace refers to nodes present at that time -/
def WFTrace : List N → List (Iter ℝ) → Prop
  | _, [] => True
  | tree, it :: its => WFIter tree it ∧ WFTrace (insert tree it) its

/-- structural invariant: node 0 is the root, every other node's parent was inserted earlier,
    and its stored cost is its parent's cost plus the recorded distance to the parent -/
def TreeInv (tree : List N) : Prop :=
  (∃ r, tree[0]? = some r ∧ r.parent = none) ∧
  ∀ i n, tree[i]? = some n → 0 < i →
    ∃ p, n.parent = some p ∧ p < i ∧ n.cost = n.edge + costOf tree p

theorem costOf_append (tree : List N) (x : N) (p : Nat) (hp : p < tree.length) :
    costOf (tree ++ [x]) p = costOf tree p := by
  unfold costOf
  rw [List.getElem?_append_left hp]

theorem treeInv_root : TreeInv ([root] : List N) := by
  refine ⟨⟨root, rfl, rfl⟩, ?_⟩
  intro i n h hi
  cases i with
  | zero => exact absurd hi (lt_irrefl 0)
  | succ k => simp at h

theorem treeInv_insert (tree : List N) (it : Iter ℝ) (dmin dmax : ℝ) (h : TreeInv tree) (hwf : WFIter tree it)
    (hacc : ¬ rejected dmin dmax it) : TreeInv (insert tree it) := by
  obtain ⟨⟨r, hr0, hrp⟩, hall⟩ := h
  have hlen : 0 < tree.length := by
    by_contra hc
    have : tree = [] := List.eq_nil_of_length_eq_zero (by omega)
    rw [this] at hr0; simp at hr0
  rw [insert_eq]
  refine ⟨⟨r, by rw [List.getElem?_append_left hlen]; exact hr0, hrp⟩, ?_⟩
  intro i n hi hpos
  by_cases hlt : i < tree.length
  · rw [List.getElem?_append_left hlt] at hi
    obtain ⟨p, hp, hpi, hc⟩ := hall i n hi hpos
    exact ⟨p, hp, hpi, by rw [costOf_append _ _ _ (lt_trans hpi hlt)]; exact hc⟩
  · have hi' : i = tree.length := by
      have := (List.getElem?_eq_some_iff.mp hi).1
      simp at this; omega
    subst hi'
    rw [List.getElem?_append_right (le_refl _)] at hi
    simp at hi
    subst hi
    obtain ⟨p, hp, hplt⟩ := newNode_parent_lt tree it hwf
    obtain ⟨_, _, _, ⟨p', hp', hcost⟩, _⟩ := insert_attaches_cheapest_free tree it dmin dmax hacc
    rw [hp] at hp'; cases hp'
    exact ⟨p, hp, hplt, by rw [costOf_append _ _ _ hplt]; exact hcost⟩

theorem generate_from (tree : List N) (its : List (Iter ℝ)) (dmin dmax : ℝ) (h : TreeInv tree)
    (hwf : WFTrace tree its) (hacc : ∀ it ∈ its, ¬ rejected dmin dmax it) :
    TreeInv (its.foldl RRT.insert tree) ∧ (its.foldl RRT.insert tree).length = tree.length + its.length := by
  induction its generalizing tree with
  | nil => exact ⟨h, rfl⟩
  | cons it its ih =>
    simp only [List.foldl_cons]
    have h1 := treeInv_insert tree it dmin dmax h hwf.1 (hacc it (by simp))
    have := ih (insert tree it) h1 hwf.2 (fun x hx => hacc x (by simp [hx]))
    refine ⟨this.1, ?_⟩
    rw [this.2, insert_eq]; simp; omega

/-- **the generated tree**: rooted at node 0, every other node's parent is an earlier node (so
    parent links are acyclic and lead to the root), stored cost = parent's cost + distance to the
    parent, and the tree holds exactly one node per iteration plus the root — for every trace of
    generator / distance / collision / nearest-neighbour answers. -/
theorem tree_rooted_acyclic_cost_consistent (its : List (Iter ℝ)) (dmin dmax : ℝ)
    (hwf : WFTrace [root] its) (hacc : ∀ it ∈ its, ¬ rejected dmin dmax it) :
    TreeInv (generate its) ∧ (generate its).length = its.length + 1 := by
  have := generate_from [root] its dmin dmax treeInv_root hwf hacc
  exact ⟨this.1, by rw [generate, this.2]; simp; omega⟩

/-! ### following parent links reaches the root -/

theorem pathTo_shape (tree : List N) (h : TreeInv tree) (fuel i : Nat) (hi : i < tree.length) (hf : i ≤ fuel) :
    (pathTo tree fuel i).head? = some 0 ∧ (pathTo tree fuel i).getLast? = some i ∧
    List.IsChain (fun a b => ((tree[b]?).bind Node.parent) = some a) (pathTo tree fuel i) := by
  induction fuel generalizing i with
  | zero =>
    have : i = 0 := by omega
    subst this
    simp [pathTo]
  | succ fuel ih =>
    unfold pathTo
    by_cases h0 : i = 0
    · subst h0
      obtain ⟨⟨r, hr0, hrp⟩, _⟩ := h
      simp [hr0, hrp]
    · obtain ⟨n, hn⟩ : ∃ n, tree[i]? = some n := ⟨tree[i], List.getElem?_eq_getElem hi⟩
      obtain ⟨p, hp, hpi, _⟩ := h.2 i n hn (Nat.pos_of_ne_zero h0)
      have hb : (tree[i]?).bind Node.parent = some p := by rw [hn]; exact hp
      rw [hb]
      have := ih p (lt_trans hpi hi) (by omega)
      obtain ⟨hh, hl, hc⟩ := this
      have hne : pathTo tree fuel p ≠ [] := by
        intro he; rw [he] at hh; simp at hh
      refine ⟨?_, by simp, ?_⟩
      · rw [List.head?_append_of_ne_nil _ hne]; exact hh
      · rw [List.isChain_append]
        refine ⟨hc, List.isChain_singleton _, ?_⟩
        intro a ha b hb'
        rw [List.getLast?_eq_some_iff] at hl
        obtain ⟨l, hl⟩ := hl
        rw [hl] at ha
        simp at ha hb'
        rw [← ha, ← hb']; exact hb

/-- **the returned path** (ids of the stored poses, then the goal is appended by the code):
    starts at the root, follows parent links in order, ends at the node nearest the goal -/
theorem path_shape (its : List (Iter ℝ)) (dmin dmax : ℝ) (hwf : WFTrace [root] its)
    (hacc : ∀ it ∈ its, ¬ rejected dmin dmax it) (i : Nat) (hi : i < (generate its).length) :
    (pathTo (generate its) (generate its).length i).head? = some 0 ∧
    (pathTo (generate its) (generate its).length i).getLast? = some i ∧
    List.IsChain (fun a b => (((generate its)[b]?).bind Node.parent) = some a)
      (pathTo (generate its) (generate its).length i) :=
  pathTo_shape _ (tree_rooted_acyclic_cost_consistent its dmin dmax hwf hacc).1 _ i hi (le_of_lt hi)

/-! ### the stored cost is the length of the path to the root -/

/-- the oracle's distance answer stored on the link from node j to its parent -/
noncomputable def edgeOf (tree : List N) (j : Nat) : ℝ := ((tree[j]?).map Node.edge).getD 0

theorem pathTo_ne_nil (tree : List N) (fuel i : Nat) : pathTo tree fuel i ≠ [] := by
  cases fuel with
  | zero => simp [pathTo]
  | succ fuel =>
    unfold pathTo
    split <;> simp

/-- **path cost**: in any tree satisfying the invariant, the cost stored on node i is the root's cost plus the sum of the
    link distances along the parent walk from i (the walk the path extraction performs) — so costs compared by the
    choose-parent step are path lengths, for every tree size and walk length -/
theorem pathTo_cost (tree : List N) (h : TreeInv tree) (fuel i : Nat) (hi : i < tree.length) (hf : i ≤ fuel) :
    costOf tree i = costOf tree 0 + (((pathTo tree fuel i).tail).map (edgeOf tree)).sum := by
  induction fuel generalizing i with
  | zero =>
    have : i = 0 := by omega
    subst this
    simp [pathTo]
  | succ fuel ih =>
    unfold pathTo
    by_cases h0 : i = 0
    · subst h0
      obtain ⟨⟨r, hr0, hrp⟩, _⟩ := h
      simp [hr0, hrp]
    · obtain ⟨n, hn⟩ : ∃ n, tree[i]? = some n := ⟨tree[i], List.getElem?_eq_getElem hi⟩
      obtain ⟨p, hp, hpi, hcost⟩ := h.2 i n hn (Nat.pos_of_ne_zero h0)
      have hb : (tree[i]?).bind Node.parent = some p := by rw [hn]; exact hp
      rw [hb]
      have ihp := ih p (lt_trans hpi hi) (by omega)
      have hne := pathTo_ne_nil tree fuel p
      have hci : costOf tree i = n.cost := by unfold costOf; rw [hn]; rfl
      have hei : edgeOf tree i = n.edge := by unfold edgeOf; rw [hn]; rfl
      rw [List.tail_append_of_ne_nil hne, List.map_append, List.sum_append, hci, hcost, ihp]
      simp only [List.map_cons, List.map_nil, List.sum_cons, List.sum_nil, hei]
      ring

/-- …for the generated tree, whose root has cost 0: stored cost = sum of the link distances to the root -/
theorem generated_cost_is_path_length (its : List (Iter ℝ)) (dmin dmax : ℝ) (hwf : WFTrace [root] its)
    (hacc : ∀ it ∈ its, ¬ rejected dmin dmax it) (i : Nat) (hi : i < (generate its).length) :
    costOf (generate its) i =
      (((pathTo (generate its) (generate its).length i).tail).map (edgeOf (generate its))).sum := by
  have h := (tree_rooted_acyclic_cost_consistent its dmin dmax hwf hacc).1
  have := pathTo_cost _ h _ i hi (le_of_lt hi)
  have h0 : costOf (generate its) 0 = 0 := by
    have hg : ∀ (l : List (Iter ℝ)) (t : List N), (l.foldl RRT.insert t)[0]? = (t ++ [])[0]? ∨ t = [] := by
      intro l
      induction l with
      | nil => intro t; left; simp
      | cons x xs ihl =>
        intro t
        by_cases ht : t = []
        · right; exact ht
        · left
          simp only [List.foldl_cons]
          rcases ihl (insert t x) with h1 | h1
          · rw [h1, insert_eq]
            cases t with
            | nil => exact absurd rfl ht
            | cons a as => simp
          · rw [insert_eq] at h1; simp at h1
    rcases hg its [root] with h1 | h1
    · unfold costOf generate; rw [h1]; simp [root]
    · simp at h1
  rw [this, h0, zero_add]

/-! non-vacuity: a one-iteration trace satisfying the hypotheses -/
noncomputable def demoIt : Iter ℝ := { nearest := 0, dist0 := 1, coll0 := false, cands := [⟨0, 1, false⟩] }
example : WFTrace [root] [demoIt] := by
  refine ⟨⟨Nat.zero_lt_one, ?_⟩, trivial⟩
  intro c hc
  rw [show demoIt.cands = [⟨0, 1, false⟩] from rfl, List.mem_singleton] at hc
  rw [hc]; exact Nat.zero_lt_one
example : ∀ it ∈ [demoIt], ¬ rejected (1 / 10 : ℝ) 100 it := by
  intro it hit
  rw [List.mem_singleton] at hit
  subst hit
  unfold rejected
  rw [show demoIt.dist0 = (1 : ℝ) from rfl, show demoIt.coll0 = false from rfl]
  norm_num

/-- with non-negative link distances (any metric-like distance callback) a node never costs less than its parent … -/
theorem cost_ge_parent (tree : List N) (h : TreeInv tree) (i : Nat) (n : N) (hn : tree[i]? = some n) (hi : 0 < i)
    (he : 0 ≤ n.edge) : ∃ p, n.parent = some p ∧ costOf tree p ≤ costOf tree i := by
  obtain ⟨p, hp, _, hc⟩ := h.2 i n hn hi
  refine ⟨p, hp, ?_⟩
  have : costOf tree i = n.cost := by unfold costOf; rw [hn]; rfl
  rw [this, hc]; linarith

/-- … and every stored cost of the generated tree is non-negative (it is a sum of link distances) -/
theorem generated_cost_nonneg (its : List (Iter ℝ)) (dmin dmax : ℝ) (hwf : WFTrace [root] its)
    (hacc : ∀ it ∈ its, ¬ rejected dmin dmax it) (he : ∀ j, 0 ≤ edgeOf (generate its) j)
    (i : Nat) (hi : i < (generate its).length) : 0 ≤ costOf (generate its) i := by
  rw [generated_cost_is_path_length its dmin dmax hwf hacc i hi]
  apply List.sum_nonneg
  intro x hx
  rw [List.mem_map] at hx
  obtain ⟨j, _, rfl⟩ := hx
  exact he j

end BR.C16
