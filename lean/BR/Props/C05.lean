/-
  C05 — arm forward kinematics is base · product of exponentials · home, through any history.
  Property theorems about BR/Model/Arm.lean at ℝ.
-/
import BR.Lemmas.Chain
import BR.Model.Arm

namespace BR.C05
open BR.MR BR.Rot BR.ArmModel OrdField Scalar

/-- the right-hand side of the property: base · ∏ exp([S_i] θ_i) · M with the screws and tool home
    *as given at construction* (base-local) -/
noncomputable def fkSpec (B : T4 ℝ) (S0 : List (V6 ℝ)) (M : T4 ℝ) (θ : List ℝ) : T4 ℝ :=
  B * fkinSpace M (S0.zip θ)

/-- every joint is prismatic, at zero, or turned by at least the 1e-6 cut-off -/
def JointsOK (S0 : List (V6 ℝ)) (θ : List ℝ) : Prop := ∀ j ∈ S0.zip θ, JointOK j

/-- **FK = base · product of exponentials · home**, with the joint vector clamped to the limits -/
theorem fk_eq_spec (a : Arm ℝ) (hB : IsRot a.base.R) (θ : List ℝ)
    (hj : JointsOK a.S0 (clamp a.mins a.maxs θ)) :
    (fk a θ).eePos = fkSpec a.base a.S0 a.Mloc (clamp a.mins a.maxs θ) ∧
    (fk a θ).theta = clamp a.mins a.maxs θ := by
  refine ⟨?_, rfl⟩
  simp only [fk, eeHome, screwList, fkSpec]
  rw [zip_map_left]
  exact fkinSpace_conj a.base a.Mloc hB _ hj

theorem fkRaw_eq_spec (a : Arm ℝ) (hB : IsRot a.base.R) (θ : List ℝ) (hj : JointsOK a.S0 θ) :
    (fkRaw a θ).eePos = fkSpec a.base a.S0 a.Mloc θ := by
  simp only [fkRaw, eeHome, screwList, fkSpec]
  rw [zip_map_left]
  exact fkinSpace_conj a.base a.Mloc hB _ hj

/-! ### a joint vector outside the limits is evaluated as if clamped -/

theorem clamp1_idem (lo hi x : ℝ) (h : lo ≤ hi) : clamp1 lo hi (clamp1 lo hi x) = clamp1 lo hi x := by
  unfold clamp1
  split_ifs <;> first | rfl | (exfalso; linarith)

theorem clamp_idem (mins maxs θ : List ℝ) (h : ∀ p ∈ mins.zip maxs, p.1 ≤ p.2) :
    clamp mins maxs (clamp mins maxs θ) = clamp mins maxs θ := by
  induction θ generalizing mins maxs with
  | nil => simp [clamp]
  | cons x θ ih =>
    cases mins with
    | nil => simp [clamp]
    | cons lo mins =>
      cases maxs with
      | nil => simp [clamp]
      | cons hi maxs =>
        have h0 : lo ≤ hi := h (lo, hi) (by simp)
        have ht := ih mins maxs (fun p hp => h p (by simp [hp]))
        simp only [clamp, List.zip_cons_cons, List.map_cons] at ht ⊢
        rw [clamp1_idem lo hi x h0]
        exact congrArg _ ht

theorem FK_clamps (a : Arm ℝ) (θ : List ℝ) (h : ∀ p ∈ a.mins.zip a.maxs, p.1 ≤ p.2) :
    (fk a (clamp a.mins a.maxs θ)).eePos = (fk a θ).eePos ∧ (fk a (clamp a.mins a.maxs θ)).theta = (fk a θ).theta := by
  simp only [fk, clamp_idem a.mins a.maxs θ h, and_self]

/-! ### every history -/

/-- the reported tool pose is the pose of the stored joint vector under the product-of-exponentials
    formula with the *current* base and tool home -/
def ArmInv (a : Arm ℝ) : Prop := a.eePos = fkSpec a.base a.S0 a.Mloc a.theta

/-- side conditions of one call: bases are rigid; the joint vector that gets evaluated has no joint
    strictly inside the (0, 1e-6) cut-off band -/
def OpOK (a : Arm ℝ) : Op ℝ → Prop
  | .FK θ => IsRot a.base.R ∧ JointsOK a.S0 (clamp a.mins a.maxs θ)
  | .IK θ => IsRot a.base.R ∧ JointsOK a.S0 (clamp a.mins a.maxs θ)
  | .IKfree θ => IsRot a.base.R ∧ JointsOK a.S0 θ
  | .move B => IsRot B.R ∧ JointsOK a.S0 (clamp a.mins a.maxs a.theta)
  | .moveStationary B θ => IsRot B.R ∧ JointsOK a.S0 (clamp a.mins a.maxs θ)
  | .setHome _ => IsRot a.base.R ∧ JointsOK a.S0 (clamp a.mins a.maxs a.theta)
  | .restore => IsRot a.base.R ∧ JointsOK a.S0 (clamp a.mins a.maxs a.theta)
  | .randomPos θ => IsRot a.base.R ∧ JointsOK a.S0 (clamp a.mins a.maxs θ)

/-- **one call**: after FK, IK (either solver, whatever it answered), a base move (plain or stationary),
    a tool-frame change or a restore, the reported tool pose is base · ∏ exp · (current tool home) at the
    stored joint vector; the base is the one moved to; a tool change composes with the current home. -/
theorem step_inv (a : Arm ℝ) (op : Op ℝ) (h : OpOK a op) : ArmInv (step a op) := by
  cases op with
  | FK θ => exact (fk_eq_spec a h.1 θ h.2).1
  | IK θ => exact (fk_eq_spec a h.1 θ h.2).1
  | IKfree θ => exact fkRaw_eq_spec a h.1 θ h.2
  | move B => exact (fk_eq_spec { a with base := B } h.1 a.theta h.2).1
  | moveStationary B θ => exact (fk_eq_spec { a with base := B } h.1 θ h.2).1
  | setHome D => exact (fk_eq_spec { a with Mloc := a.Mloc * D } h.1 a.theta h.2).1
  | restore => exact (fk_eq_spec { a with Mloc := a.Morig } h.1 a.theta h.2).1
  | randomPos θ => exact (fk_eq_spec a h.1 θ h.2).1

theorem step_bookkeeping (a : Arm ℝ) (op : Op ℝ) :
    (step a op).S0 = a.S0 ∧ (step a op).Morig = a.Morig ∧ (step a op).mins = a.mins ∧ (step a op).maxs = a.maxs ∧
    (step a op).base = (match op with | .move B => B | .moveStationary B _ => B | _ => a.base) ∧
    (step a op).Mloc = (match op with | .setHome D => a.Mloc * D | .restore => a.Morig | _ => a.Mloc) := by
  cases op <;> simp [step, fk, fkRaw]

def HistoryOK : Arm ℝ → List (Op ℝ) → Prop
  | _, [] => True
  | a, op :: ops => OpOK a op ∧ HistoryOK (step a op) ops

/-- **every history** (induction over the operation list) -/
theorem history_inv (a : Arm ℝ) (ops : List (Op ℝ)) (h0 : ArmInv a) (h : HistoryOK a ops) : ArmInv (run a ops) := by
  induction ops generalizing a with
  | nil => exact h0
  | cons op ops ih => exact ih (step a op) (step_inv a op h.1) h.2

/-- arms created at any base pose start coherent -/
theorem new_inv (B M : T4 ℝ) (S0 : List (V6 ℝ)) (mins maxs zero : List ℝ) (hB : IsRot B.R)
    (hj : JointsOK S0 (clamp mins maxs zero)) : ArmInv (new B S0 M mins maxs zero) :=
  (fk_eq_spec _ hB zero hj).1

end BR.C05
