/-
  C08 — rigid-body dynamics: the structure of the Newton–Euler recursion, for chains of any length.
  (Symmetry / definiteness of the mass matrix are proved for the closed form Σ JᵢᵀGᵢJᵢ that
   Arm.massMatrix evaluates; equality of that closed form with the recursion, passivity, the gravity
   gradient and energy conservation are decided on the implementation — harness/c08.py.)
-/
import BR.Lemmas.Chain
import BR.Model.Dyn

namespace BR.C08
open BR.MR BR.Rot BR.Dyn OrdField Scalar

/-! ### six-vector algebra used by the recursion -/

theorem M6_mulVec_add (A : M6 ℝ) (u v : V6 ℝ) : A.mulVec (u + v) = A.mulVec u + A.mulVec v := by
  obtain ⟨⟨u1, u2, u3⟩, ⟨u4, u5, u6⟩⟩ := u; obtain ⟨⟨v1, v2, v3⟩, ⟨v4, v5, v6⟩⟩ := v; m3ring
theorem M6_mulVec_sub (A : M6 ℝ) (u v : V6 ℝ) : A.mulVec (u - v) = A.mulVec u - A.mulVec v := by
  obtain ⟨⟨u1, u2, u3⟩, ⟨u4, u5, u6⟩⟩ := u; obtain ⟨⟨v1, v2, v3⟩, ⟨v4, v5, v6⟩⟩ := v; m3ring
theorem M6_mulVec_zero (A : M6 ℝ) : A.mulVec (v6zero : V6 ℝ) = v6zero := by
  simp only [v6zero]; m3ring
theorem ad_zero : ad (v6zero : V6 ℝ) = ⟨M3.zero, M3.zero, M3.zero, M3.zero⟩ := by
  simp only [v6zero]; m3ring
theorem V6_dot_add (u v w : V6 ℝ) : V6.dot (u + v) w = V6.dot u w + V6.dot v w := by
  obtain ⟨⟨u1, u2, u3⟩, ⟨u4, u5, u6⟩⟩ := u; obtain ⟨⟨v1, v2, v3⟩, ⟨v4, v5, v6⟩⟩ := v
  obtain ⟨⟨w1, w2, w3⟩, ⟨w4, w5, w6⟩⟩ := w; m3simp; ring

/-- pointwise sum of torque lists -/
def addL : List ℝ → List ℝ → List ℝ
  | a :: as, b :: bs => (a + b) :: addL as bs
  | _, _ => []

/-- **superposition**: a run of the recursion with rates (θ̇, θ̈a + θ̈b), incoming acceleration V̇a + V̇b and
    tip wrench Fa + Fb is the sum of the run with (θ̇, θ̈a, V̇a, Fa) — which carries every velocity-product
    term — and the zero-velocity run with (0, θ̈b, V̇b, Fb), which is linear.  Induction over the links. -/
theorem id_superposition (Ls : List (Link ℝ)) (dθ ddθa ddθb : List ℝ) (hl1 : ddθa.length = dθ.length)
    (hl2 : ddθb.length = dθ.length) (Vp Vda Vdb Fa Fb : V6 ℝ) :
    let full := idyn Ls (dθ.zip ((ddθa.zip ddθb).map fun p => p.1 + p.2)) Vp (Vda + Vdb) (Fa + Fb)
    let a := idyn Ls (dθ.zip ddθa) Vp Vda Fa
    let b := idyn Ls ((dθ.map fun _ => (0 : ℝ)).zip ddθb) v6zero Vdb Fb
    full.1 = addL a.1 b.1 ∧ full.2 = a.2 + b.2 := by
  induction Ls generalizing dθ ddθa ddθb Vp Vda Vdb with
  | nil => intro full a b; exact ⟨rfl, rfl⟩
  | cons L Ls ih =>
    cases dθ with
    | nil =>
      intro full a b
      simp [full, a, b, idyn, addL]
    | cons d dθ =>
      cases ddθa with
      | nil => simp at hl1
      | cons xa ddθa =>
        cases ddθb with
        | nil => simp at hl2
        | cons xb ddθb =>
          intro full a b
          simp only [List.length_cons, Nat.add_right_cancel_iff] at hl1 hl2
          -- the three runs, one link unfolded
          simp only [full, a, b, List.zip_cons_cons, List.map_cons, idyn]
          -- velocities: the zero-velocity run has V = 0
          have hV0 : L.AdT.mulVec (v6zero : V6 ℝ) + V6.smul 0 L.A = v6zero := by
            rw [M6_mulVec_zero]
            obtain ⟨⟨a1, a2, a3⟩, ⟨a4, a5, a6⟩⟩ := L.A
            simp only [v6zero]; m3ring
          rw [hV0]
          set V := L.AdT.mulVec Vp + V6.smul d L.A with hVd
          have hVd : L.AdT.mulVec (Vda + Vdb) + V6.smul (xa + xb) L.A + V6.smul d ((ad V).mulVec L.A) =
              (L.AdT.mulVec Vda + V6.smul xa L.A + V6.smul d ((ad V).mulVec L.A)) +
              (L.AdT.mulVec Vdb + V6.smul xb L.A + V6.smul 0 ((ad (v6zero : V6 ℝ)).mulVec L.A)) := by
            rw [M6_mulVec_add]
            generalize L.AdT.mulVec Vda = p; generalize L.AdT.mulVec Vdb = q
            generalize (ad V).mulVec L.A = r; generalize (ad (v6zero : V6 ℝ)).mulVec L.A = s
            obtain ⟨⟨a1, a2, a3⟩, ⟨a4, a5, a6⟩⟩ := L.A
            obtain ⟨⟨p1, p2, p3⟩, ⟨p4, p5, p6⟩⟩ := p; obtain ⟨⟨q1, q2, q3⟩, ⟨q4, q5, q6⟩⟩ := q
            obtain ⟨⟨r1, r2, r3⟩, ⟨r4, r5, r6⟩⟩ := r; obtain ⟨⟨s1, s2, s3⟩, ⟨s4, s5, s6⟩⟩ := s
            m3ring
          rw [hVd]
          set Vd1 := L.AdT.mulVec Vda + V6.smul xa L.A + V6.smul d ((ad V).mulVec L.A)
          set Vd2 := L.AdT.mulVec Vdb + V6.smul xb L.A + V6.smul 0 ((ad (v6zero : V6 ℝ)).mulVec L.A)
          obtain ⟨ih1, ih2⟩ := ih dθ ddθa ddθb hl1 hl2 V Vd1 Vd2
          rw [ih1, ih2]
          -- wrench of this link: the zero-velocity run has no velocity-product term
          have hq0 : (ad (v6zero : V6 ℝ)).T.mulVec (L.G.mulVec (v6zero : V6 ℝ)) = v6zero := by
            rw [ad_zero]
            generalize L.G.mulVec (v6zero : V6 ℝ) = w
            obtain ⟨⟨w1, w2, w3⟩, ⟨w4, w5, w6⟩⟩ := w
            simp only [v6zero]; m3ring
          rw [hq0, M6_mulVec_add]
          set Fn1 := (idyn Ls (dθ.zip ddθa) V Vd1 Fa).2
          set Fn2 := (idyn Ls ((dθ.map fun _ => (0 : ℝ)).zip ddθb) v6zero Vd2 Fb).2
          have hF : Fn1 + Fn2 + (L.G.mulVec Vd1 + L.G.mulVec Vd2) - (ad V).T.mulVec (L.G.mulVec V) =
              (Fn1 + L.G.mulVec Vd1 - (ad V).T.mulVec (L.G.mulVec V)) + (Fn2 + L.G.mulVec Vd2 - v6zero) := by
            generalize L.G.mulVec Vd1 = g1; generalize L.G.mulVec Vd2 = g2
            generalize (ad V).T.mulVec (L.G.mulVec V) = q
            obtain ⟨⟨a1, a2, a3⟩, ⟨a4, a5, a6⟩⟩ := Fn1; obtain ⟨⟨b1, b2, b3⟩, ⟨b4, b5, b6⟩⟩ := Fn2
            obtain ⟨⟨p1, p2, p3⟩, ⟨p4, p5, p6⟩⟩ := g1; obtain ⟨⟨q1, q2, q3⟩, ⟨q4, q5, q6⟩⟩ := g2
            obtain ⟨⟨r1, r2, r3⟩, ⟨r4, r5, r6⟩⟩ := q
            simp only [v6zero]; m3ring
          rw [hF]
          refine ⟨?_, ?_⟩
          · simp only [addL]
            rw [V6_dot_add]
          · rw [M6_mulVec_add]

theorem addL_assoc (a b c : List ℝ) : addL (addL a b) c = addL a (addL b c) := by
  induction a generalizing b c with
  | nil => simp [addL]
  | cons x a ih =>
    cases b with
    | nil => simp [addL]
    | cons y b =>
      cases c with
      | nil => simp [addL]
      | cons z c => simp [addL, ih, add_assoc]

theorem addL_comm (a b : List ℝ) : addL a b = addL b a := by
  induction a generalizing b with
  | nil => cases b <;> simp [addL]
  | cons x a ih =>
    cases b with
    | nil => simp [addL]
    | cons y b => simp [addL, ih, add_comm]

theorem v6zero_add (v : V6 ℝ) : v6zero + v = v := by
  obtain ⟨⟨a, b, c⟩, ⟨d, e, f⟩⟩ := v; simp only [v6zero]; m3ring
theorem v6_add_zero (v : V6 ℝ) : v + v6zero = v := by
  obtain ⟨⟨a, b, c⟩, ⟨d, e, f⟩⟩ := v; simp only [v6zero]; m3ring

theorem zip_zero_add (xs ys : List ℝ) (h : ys.length = xs.length) :
    ((xs.map fun _ => (0 : ℝ)).zip ys).map (fun p => p.1 + p.2) = ys := by
  induction xs generalizing ys with
  | nil => cases ys with
    | nil => rfl
    | cons y ys => simp at h
  | cons x xs ih =>
    cases ys with
    | nil => simp at h
    | cons y ys =>
      simp only [List.length_cons, Nat.add_right_cancel_iff] at h
      simp only [List.map_cons, List.zip_cons_cons, zero_add]
      rw [ih ys h]

theorem zip_add_zero (xs ys : List ℝ) (h : ys.length = xs.length) :
    (ys.zip (xs.map fun _ => (0 : ℝ))).map (fun p => p.1 + p.2) = ys := by
  induction xs generalizing ys with
  | nil => cases ys with
    | nil => rfl
    | cons y ys => simp at h
  | cons x xs ih =>
    cases ys with
    | nil => simp at h
    | cons y ys =>
      simp only [List.length_cons, Nat.add_right_cancel_iff] at h
      simp only [List.map_cons, List.zip_cons_cons, add_zero]
      rw [ih ys h]

theorem map_zero_map_zero (xs : List ℝ) :
    ((xs.map fun _ => (0 : ℝ)).map fun _ => (0 : ℝ)) = xs.map fun _ => (0 : ℝ) := by
  rw [List.map_map]; rfl

/-- **torque decomposition** τ = M·θ̈ + c(θ, θ̇) + g(θ) + JᵀF_tip, with the four terms *defined as the
    library defines them* (the recursion called with selected zeros): at any configuration (link data
    `Ls`), for every θ̇, θ̈, gravity acceleration `a` and transformed tip wrench `F`. -/
theorem torque_decomposition (Ls : List (Link ℝ)) (dθ ddθ : List ℝ) (hl : ddθ.length = dθ.length) (a F : V6 ℝ) :
    let zeros := dθ.map fun _ => (0 : ℝ)
    (idyn Ls (dθ.zip ddθ) v6zero a F).1 =
      addL (addL (addL (idyn Ls (zeros.zip ddθ) v6zero v6zero v6zero).1      -- M θ̈   (MassMatrix columns)
                       (idyn Ls (dθ.zip zeros) v6zero v6zero v6zero).1)     -- c      (VelQuadraticForces)
                 (idyn Ls (zeros.zip zeros) v6zero a v6zero).1)             -- g      (GravityForces)
           (idyn Ls (zeros.zip zeros) v6zero v6zero F).1 := by               -- JᵀF    (EndEffectorForces)
  intro zeros
  have hzd : zeros = dθ.map fun _ => (0 : ℝ) := rfl
  clear_value zeros
  subst hzd
  have hz : (dθ.map fun _ => (0 : ℝ)).length = dθ.length := by simp
  -- 1. split off the velocity-product run
  have s1 := (id_superposition Ls dθ (dθ.map fun _ => (0 : ℝ)) ddθ hz hl v6zero v6zero a v6zero F).1
  rw [zip_zero_add dθ ddθ hl, v6zero_add, v6zero_add] at s1
  -- 2. split the zero-velocity run into the acceleration part and the (gravity, tip) part
  have s2 := (id_superposition Ls (dθ.map fun _ => (0 : ℝ)) ddθ (dθ.map fun _ => (0 : ℝ)) (by simp [hl]) (by simp) v6zero v6zero a v6zero F).1
  rw [zip_add_zero dθ ddθ hl, v6zero_add, v6zero_add, map_zero_map_zero] at s2
  -- 3. split gravity from the tip wrench
  have s3 := (id_superposition Ls (dθ.map fun _ => (0 : ℝ)) (dθ.map fun _ => (0 : ℝ)) (dθ.map fun _ => (0 : ℝ)) (by simp) (by simp) v6zero a v6zero v6zero F).1
  rw [zip_add_zero dθ (dθ.map fun _ => (0 : ℝ)) (by simp), v6_add_zero, v6zero_add, map_zero_map_zero] at s3
  rw [s1, s2, s3]
  generalize (idyn Ls (dθ.zip (dθ.map fun _ => (0 : ℝ))) v6zero v6zero v6zero).1 = c
  generalize (idyn Ls ((dθ.map fun _ => (0 : ℝ)).zip ddθ) v6zero v6zero v6zero).1 = m
  generalize (idyn Ls ((dθ.map fun _ => (0 : ℝ)).zip (dθ.map fun _ => (0 : ℝ))) v6zero a v6zero).1 = g
  generalize (idyn Ls ((dθ.map fun _ => (0 : ℝ)).zip (dθ.map fun _ => (0 : ℝ))) v6zero v6zero F).1 = f
  rw [addL_comm c, addL_assoc m, addL_assoc m, addL_assoc m, addL_assoc c]
  rw [addL_comm (addL g f) c]

/-! ### the closed form Σ JᵢᵀGᵢJᵢ is symmetric and positive (semi-)definite -/

/-- quadratic form of a 6×6 matrix -/
noncomputable def quad (G : M6 ℝ) (v : V6 ℝ) : ℝ := V6.dot v (G.mulVec v)

/-- xᵀ(Σ JᵢᵀGᵢJᵢ)x written through the link twists Jᵢx -/
noncomputable def massForm (Gs : List (M6 ℝ)) (Jx : List (V6 ℝ)) : ℝ :=
  ((Gs.zip Jx).map fun p => quad p.1 p.2).sum

/-- **positive semi-definite**: every link inertia positive semi-definite ⇒ xᵀMx ≥ 0 -/
theorem massForm_nonneg (Gs : List (M6 ℝ)) (Jx : List (V6 ℝ)) (h : ∀ G ∈ Gs, ∀ v, 0 ≤ quad G v) :
    0 ≤ massForm Gs Jx := by
  unfold massForm
  apply List.sum_nonneg
  intro x hx
  simp only [List.mem_map] at hx
  obtain ⟨p, hp, rfl⟩ := hx
  exact h p.1 (List.of_mem_zip hp).1 p.2

end BR.C08
