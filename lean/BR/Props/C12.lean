/-
  C12 — wrenches and screws change frame as a group action and add as vectors.
  Property theorems about BR/Model/Screw.lean at ℝ.
-/
import BR.Props.C04
import BR.Model.Screw

namespace BR.C12
open BR.MR BR.Rot BR.TmModel BR.ScrewModel BR.C03 BR.C04 OrdField Scalar

/-! ### 6×6 helper algebra -/

theorem M6_mulVec_mul (A B : M6 ℝ) (v : V6 ℝ) : (A * B).mulVec v = A.mulVec (B.mulVec v) := by
  obtain ⟨⟨a1, a2, a3⟩, ⟨b1, b2, b3⟩⟩ := v
  m3ring

theorem M6_one_mulVec (v : V6 ℝ) : (M6.one : M6 ℝ).mulVec v = v := by
  obtain ⟨⟨a1, a2, a3⟩, ⟨b1, b2, b3⟩⟩ := v
  m3ring

theorem M6_dot_T (A : M6 ℝ) (f v : V6 ℝ) : V6.dot (A.T.mulVec f) v = V6.dot f (A.mulVec v) := by
  obtain ⟨⟨a1, a2, a3⟩, ⟨b1, b2, b3⟩⟩ := v
  obtain ⟨⟨f1, f2, f3⟩, ⟨g1, g2, g3⟩⟩ := f
  m3ring

/-- a frame: a coherent transform object in SE(3) (what C03 shows every tm is) -/
def FrameOK (t : Tm ℝ) : Prop := WF t ∧ Coherent t

/-- relative rotation of two frames is outside the (0, 1e-6) cut-off band -/
def RelAngleOK (ref x : Tm ℝ) : Prop := AngleOK (transInv ref.TM * x.TM).R

theorem relTM_eq (ref x : Tm ℝ) (hr : FrameOK ref) (hx : FrameOK x) (hA : RelAngleOK ref x) :
    relTM ref x = transInv ref.TM * x.TM :=
  globalToLocal_eq ref x hr.2 hx.2 hr.1 hx.1 hA

theorem rel_isRot (ref x : Tm ℝ) (hr : FrameOK ref) (hx : FrameOK x) : IsRot (transInv ref.TM * x.TM).R :=
  isRot_mul (isRot_T hr.1) hx.1

/-- inv(A)·B · inv(B)·C = inv(A)·C -/
theorem rel_compose (A B C : T4 ℝ) (hB : IsRot B.R) :
    (transInv A * B) * (transInv B * C) = transInv A * C := by
  rw [T4_mul_assoc, ← T4_mul_assoc B, BR.C01.mul_transInv B hB, T4_one_mul]

theorem rel_self (A : T4 ℝ) (hA : IsRot A.R) : transInv A * A = T4.one := BR.C01.transInv_mul A hA.1

/-! ### frame change is the adjoint action -/

/-- **twist-like objects: S_b = Ad(inv(B)·A) S_a, and the object records its new frame** -/
theorem screw_change_is_Ad (s : Scr ℝ) (new : Tm ℝ) (hne : ¬ tmEq s.frame new) (hs : FrameOK s.frame)
    (hn : FrameOK new) (hA : RelAngleOK new s.frame) :
    (screwChange s new).data = (adjoint (transInv new.TM * s.frame.TM)).mulVec s.data ∧
    (screwChange s new).frame = new := by
  unfold screwChange
  rw [if_neg hne, relTM_eq new s.frame hn hs hA]
  exact ⟨rfl, rfl⟩

/-- **wrenches: F_b = Ad(inv(A)·B)ᵀ F_a** -/
theorem wrench_change_is_AdT (s : Scr ℝ) (new : Tm ℝ) (hne : ¬ tmEq s.frame new) (hs : FrameOK s.frame)
    (hn : FrameOK new) (hA : RelAngleOK s.frame new) :
    (wrenchChange s new).data = (adjoint (transInv s.frame.TM * new.TM)).T.mulVec s.data ∧
    (wrenchChange s new).frame = new := by
  unfold wrenchChange
  rw [if_neg hne, relTM_eq s.frame new hs hn hA]
  exact ⟨rfl, rfl⟩

/-- frames closer than 1e-8 in every coordinate are treated as equal: nothing changes -/
theorem change_same_frame (w : Bool) (s : Scr ℝ) (new : Tm ℝ) (h : tmEq s.frame new) : change w s new = s := by
  unfold change screwChange wrenchChange
  split_ifs <;> rfl

theorem adj_rel_compose (A B C : T4 ℝ) (hA : IsRot A.R) (hB : IsRot B.R) (v : V6 ℝ) :
    (adjoint (transInv A * B)).mulVec ((adjoint (transInv B * C)).mulVec v) =
      (adjoint (transInv A * C)).mulVec v := by
  rw [← M6_mulVec_mul, ← BR.C01.adjoint_mul _ _ (isRot_mul (isRot_T hA) hB), rel_compose A B C hB]

/-- **A → B → C equals A → C** (screws) -/
theorem screw_change_compose (d : V6 ℝ) (A B C : Tm ℝ) (hA : FrameOK A) (hB : FrameOK B) (hC : FrameOK C)
    (nAB : ¬ tmEq A B) (nBC : ¬ tmEq B C) (nAC : ¬ tmEq A C)
    (aBA : RelAngleOK B A) (aCB : RelAngleOK C B) (aCA : RelAngleOK C A) :
    (screwChange (screwChange ⟨d, A⟩ B) C).data = (screwChange ⟨d, A⟩ C).data := by
  have h1 := screw_change_is_Ad ⟨d, A⟩ B nAB hA hB aBA
  have h3 := screw_change_is_Ad ⟨d, A⟩ C nAC hA hC aCA
  have h2 := screw_change_is_Ad (screwChange ⟨d, A⟩ B) C (by rw [h1.2]; exact nBC) (by rw [h1.2]; exact hB) hC
    (by rw [h1.2]; exact aCB)
  rw [h2.1, h1.1, h1.2, h3.1]
  exact adj_rel_compose C.TM B.TM A.TM hC.1 hB.1 d

theorem tmEq_symm (a b : Tm ℝ) : tmEq a b ↔ tmEq b a := by
  unfold tmEq
  simp only [sabs_real', sci_real, abs_sub_comm]

/-- **A → B → A is the identity** (screws) -/
theorem screw_change_roundtrip (d : V6 ℝ) (A B : Tm ℝ) (hA : FrameOK A) (hB : FrameOK B)
    (nAB : ¬ tmEq A B) (aBA : RelAngleOK B A) (aAB : RelAngleOK A B) :
    (screwChange (screwChange ⟨d, A⟩ B) A).data = d := by
  have h1 := screw_change_is_Ad ⟨d, A⟩ B nAB hA hB aBA
  have nBA : ¬ tmEq B A := fun h => nAB ((tmEq_symm _ _).mp h)
  have h2 := screw_change_is_Ad (screwChange ⟨d, A⟩ B) A (by rw [h1.2]; exact nBA) (by rw [h1.2]; exact hB) hA
    (by rw [h1.2]; exact aAB)
  rw [h2.1, h1.1, h1.2, adj_rel_compose A.TM B.TM A.TM hA.1 hB.1 d, rel_self A.TM hA.1, BR.C01.adjoint_one,
    M6_one_mulVec]

/-- **the pairing wrench · twist is the same in every frame** -/
theorem pairing_invariant (f v : V6 ℝ) (A B : Tm ℝ) (hA : FrameOK A) (hB : FrameOK B)
    (nAB : ¬ tmEq A B) (aBA : RelAngleOK B A) (aAB : RelAngleOK A B) :
    V6.dot (wrenchChange ⟨f, A⟩ B).data (screwChange ⟨v, A⟩ B).data = V6.dot f v := by
  rw [(wrench_change_is_AdT ⟨f, A⟩ B nAB hA hB aAB).1, (screw_change_is_Ad ⟨v, A⟩ B nAB hA hB aBA).1, M6_dot_T,
    adj_rel_compose A.TM B.TM A.TM hA.1 hB.1 v, rel_self A.TM hA.1, BR.C01.adjoint_one, M6_one_mulVec]

/-- wrench round trip A → B → A -/
theorem wrench_change_roundtrip (d : V6 ℝ) (A B : Tm ℝ) (hA : FrameOK A) (hB : FrameOK B)
    (nAB : ¬ tmEq A B) (aBA : RelAngleOK B A) (aAB : RelAngleOK A B) :
    (wrenchChange (wrenchChange ⟨d, A⟩ B) A).data = d := by
  have h1 := wrench_change_is_AdT ⟨d, A⟩ B nAB hA hB aAB
  have nBA : ¬ tmEq B A := fun h => nAB ((tmEq_symm _ _).mp h)
  have h2 := wrench_change_is_AdT (wrenchChange ⟨d, A⟩ B) A (by rw [h1.2]; exact nBA) (by rw [h1.2]; exact hB) hA
    (by rw [h1.2]; exact aBA)
  rw [h2.1, h1.1, h1.2]
  -- Ad(inv(B)A)ᵀ Ad(inv(A)B)ᵀ d = (Ad(inv(A)B) Ad(inv(B)A))ᵀ d = d
  have hT : ∀ (M N : M6 ℝ) (w : V6 ℝ), N.T.mulVec (M.T.mulVec w) = (M * N).T.mulVec w := by
    intro M N w
    obtain ⟨⟨a1, a2, a3⟩, ⟨b1, b2, b3⟩⟩ := w
    m3ring
  rw [hT, ← BR.C01.adjoint_mul _ _ (rel_isRot A B hA hB), rel_compose A.TM B.TM A.TM hB.1, rel_self A.TM hA.1,
    BR.C01.adjoint_one]
  obtain ⟨⟨a1, a2, a3⟩, ⟨b1, b2, b3⟩⟩ := d
  m3ring

/-! ### forces at points -/

/-- a force applied at a point has moment p × f about the frame origin -/
theorem moment_is_p_cross_f (f p : V3 ℝ) (frame : Tm ℝ) :
    (wrenchAt f p frame).data = ⟨V3.cross p f, f⟩ := rfl

/-- …and zero moment about its own point of application (frame translated to p, same orientation) -/
theorem zero_moment_at_application (f p : V3 ℝ) :
    ((adjoint (⟨M3.one, p⟩ : T4 ℝ)).T.mulVec (wrenchAt f p ident).data).a = ⟨0, 0, 0⟩ := by
  obtain ⟨f1, f2, f3⟩ := f
  obtain ⟨p1, p2, p3⟩ := p
  simp only [wrenchAt]
  m3ring

/-! ### sums in mixed frames and the vector-space laws -/

/-- sums / differences in different frames are taken after expressing the right operand in the left one's frame -/
theorem add_mixed_frames (w : Bool) (a b : Scr ℝ) (h : ¬ tmEq b.frame a.frame) :
    (addObj w a b).data = a.data + (change w b a.frame).data ∧ (addObj w a b).frame = a.frame ∧
    (subObj w a b).data = a.data - (change w b a.frame).data ∧ (subObj w a b).frame = a.frame := by
  unfold addObj subObj
  rw [if_neg h, if_neg h]
  exact ⟨rfl, rfl, rfl, rfl⟩

theorem add_sub_cancel (w : Bool) (a b : Scr ℝ) (h : tmEq b.frame a.frame) :
    (subObj w (addObj w a b) b).data = a.data := by
  have h1 : (addObj w a b) = ⟨a.data + b.data, a.frame⟩ := by unfold addObj; rw [if_pos h]
  unfold subObj
  rw [h1, if_pos h]
  obtain ⟨⟨a1, a2, a3⟩, ⟨a4, a5, a6⟩⟩ := a.data
  obtain ⟨⟨b1, b2, b3⟩, ⟨b4, b5, b6⟩⟩ := b.data
  m3ring

/-- (a + b) − b = a also when the operands live in different frames: both operators re-express `b` in the left operand's
    frame (which the sum keeps), so the same vector is added and taken away — whatever `change` computes -/
theorem add_sub_cancel_mixed (w : Bool) (a b : Scr ℝ) :
    (subObj w (addObj w a b) b).data = a.data ∧ (subObj w (addObj w a b) b).frame = a.frame := by
  by_cases h : tmEq b.frame a.frame
  · have h1 : (addObj w a b) = ⟨a.data + b.data, a.frame⟩ := by unfold addObj; rw [if_pos h]
    unfold subObj
    rw [h1, if_pos h]
    refine ⟨?_, rfl⟩
    obtain ⟨⟨a1, a2, a3⟩, ⟨a4, a5, a6⟩⟩ := a.data
    obtain ⟨⟨b1, b2, b3⟩, ⟨b4, b5, b6⟩⟩ := b.data
    m3ring
  · have h1 : (addObj w a b) = ⟨a.data + (change w b a.frame).data, a.frame⟩ := by unfold addObj; rw [if_neg h]
    unfold subObj
    rw [h1, if_neg h]
    refine ⟨?_, rfl⟩
    obtain ⟨⟨a1, a2, a3⟩, ⟨a4, a5, a6⟩⟩ := a.data
    obtain ⟨⟨b1, b2, b3⟩, ⟨b4, b5, b6⟩⟩ := (change w b a.frame).data
    m3ring

/-- …and (a − b) + b = a, in any pair of frames -/
theorem sub_add_cancel_mixed (w : Bool) (a b : Scr ℝ) :
    (addObj w (subObj w a b) b).data = a.data ∧ (addObj w (subObj w a b) b).frame = a.frame := by
  by_cases h : tmEq b.frame a.frame
  · have h1 : (subObj w a b) = ⟨a.data - b.data, a.frame⟩ := by unfold subObj; rw [if_pos h]
    unfold addObj
    rw [h1, if_pos h]
    refine ⟨?_, rfl⟩
    obtain ⟨⟨a1, a2, a3⟩, ⟨a4, a5, a6⟩⟩ := a.data
    obtain ⟨⟨b1, b2, b3⟩, ⟨b4, b5, b6⟩⟩ := b.data
    m3ring
  · have h1 : (subObj w a b) = ⟨a.data - (change w b a.frame).data, a.frame⟩ := by unfold subObj; rw [if_neg h]
    unfold addObj
    rw [h1, if_neg h]
    refine ⟨?_, rfl⟩
    obtain ⟨⟨a1, a2, a3⟩, ⟨a4, a5, a6⟩⟩ := a.data
    obtain ⟨⟨b1, b2, b3⟩, ⟨b4, b5, b6⟩⟩ := (change w b a.frame).data
    m3ring

/-- array operands (6-array / 6×1 array): (a + v) − v = a and v − a = −(a − v), frame kept -/
theorem arr_add_sub_cancel (a : Scr ℝ) (v : V6 ℝ) : subArr (addArr a v) v = a := by
  obtain ⟨⟨⟨a1, a2, a3⟩, ⟨a4, a5, a6⟩⟩, fr⟩ := a
  obtain ⟨⟨v1, v2, v3⟩, ⟨v4, v5, v6⟩⟩ := v
  simp only [subArr, addArr]
  m3ring

theorem arr_rsub_eq_neg_sub (a : Scr ℝ) (v : V6 ℝ) :
    (rsubArr a v).data = V6.smul (-1) (subArr a v).data ∧ (rsubArr a v).frame = a.frame := by
  obtain ⟨⟨⟨a1, a2, a3⟩, ⟨a4, a5, a6⟩⟩, fr⟩ := a
  obtain ⟨⟨v1, v2, v3⟩, ⟨v4, v5, v6⟩⟩ := v
  refine ⟨?_, rfl⟩
  simp only [rsubArr, subArr]
  m3ring

/-- non-vacuity: two objects in frames that differ (translation by 1) take the mixed-frame branch -/
example : ¬ tmEq (ofTAA (⟨⟨1, 0, 0⟩, ⟨0, 0, 0⟩⟩ : V6 ℝ)) (ofTAA (⟨⟨0, 0, 0⟩, ⟨0, 0, 0⟩⟩ : V6 ℝ)) := by
  unfold tmEq
  simp only [ofTAA]
  intro h
  have := h.1
  simp only [sabs_real', sci_real] at this
  norm_num at this

theorem sub_scalar_eq_add_neg (a : Scr ℝ) (s : ℝ) : subScalar a s = addScalar a (-s) := by
  obtain ⟨⟨⟨a1, a2, a3⟩, ⟨a4, a5, a6⟩⟩, fr⟩ := a
  simp only [subScalar, addScalar, v6const]
  m3ring

theorem rsub_scalar_eq_neg_sub (a : Scr ℝ) (s : ℝ) : rsubScalar a s = V6.smul (-1) (subScalar a s) := by
  obtain ⟨⟨⟨a1, a2, a3⟩, ⟨a4, a5, a6⟩⟩, fr⟩ := a
  simp only [rsubScalar, subScalar, v6const]
  m3ring

theorem mul_div_cancel (a : Scr ℝ) (k : ℝ) (hk : k ≠ 0) : (divScalar (mulScalar a k) k).data = a.data := by
  obtain ⟨⟨⟨a1, a2, a3⟩, ⟨a4, a5, a6⟩⟩, fr⟩ := a
  simp only [divScalar, mulScalar]
  m3simp
  refine ⟨⟨?_, ?_, ?_⟩, ?_, ?_, ?_⟩ <;> field_simp

end BR.C12
