/-
  C06 (derivative clause) — the space Jacobian's column i is the derivative of forward kinematics with respect to
  joint angle i, as a spatial twist:  d/dθ_i FK(θ) = [J_s(θ) e_i] · FK(θ).
  Derivatives of T4-valued functions are taken entry by entry (`HasDerivT4`).
  The statement holds where the joint's own exponential is the closed form, i.e. outside the library's 1e-6 cut-off
  (|θ_i| > 1e-6 for a revolute joint; everywhere for a prismatic one) — inside the band the code's exponential is constant.
-/
import Mathlib.Analysis.SpecialFunctions.Trigonometric.Deriv
import BR.Props.C01
import BR.Props.C06
import BR.Lemmas.TmLemmas

namespace BR.C06D
open BR.MR BR.Rot BR.C06 OrdField Scalar

/-- entrywise derivative of a 3×3-valued function -/
def HasDerivM3 (f : ℝ → M3 ℝ) (f' : M3 ℝ) (t : ℝ) : Prop :=
  HasDerivAt (fun s => (f s).a11) f'.a11 t ∧
  HasDerivAt (fun s => (f s).a12) f'.a12 t ∧
  HasDerivAt (fun s => (f s).a13) f'.a13 t ∧
  HasDerivAt (fun s => (f s).a21) f'.a21 t ∧
  HasDerivAt (fun s => (f s).a22) f'.a22 t ∧
  HasDerivAt (fun s => (f s).a23) f'.a23 t ∧
  HasDerivAt (fun s => (f s).a31) f'.a31 t ∧
  HasDerivAt (fun s => (f s).a32) f'.a32 t ∧
  HasDerivAt (fun s => (f s).a33) f'.a33 t

def HasDerivV3 (f : ℝ → V3 ℝ) (f' : V3 ℝ) (t : ℝ) : Prop :=
  HasDerivAt (fun s => (f s).x) f'.x t ∧ HasDerivAt (fun s => (f s).y) f'.y t ∧ HasDerivAt (fun s => (f s).z) f'.z t

/-- entrywise derivative of a homogeneous-matrix-valued function; the derivative is a 4×4 with bottom row 0,
    carried as a `T4` (rotation block, translation column) -/
def HasDerivT4 (f : ℝ → T4 ℝ) (f' : T4 ℝ) (t : ℝ) : Prop :=
  HasDerivM3 (fun s => (f s).R) f'.R t ∧ HasDerivV3 (fun s => (f s).p) f'.p t

/-- (bottom-row-0 matrix) · (rigid transform) -/
noncomputable def tg (X T : T4 ℝ) : T4 ℝ := ⟨X.R * T.R, X.R.mulVec T.p + X.p⟩
/-- (rigid transform) · (bottom-row-0 matrix) -/
noncomputable def gt (T X : T4 ℝ) : T4 ℝ := ⟨T.R * X.R, T.R.mulVec X.p⟩


theorem HasDerivM3.const_mul (A : M3 ℝ) {F : ℝ → M3 ℝ} {F' : M3 ℝ} {t : ℝ} (h : HasDerivM3 F F' t) :
    HasDerivM3 (fun s => A * F s) (A * F') t := by
  obtain ⟨h11, h12, h13, h21, h22, h23, h31, h32, h33⟩ := h
  refine ⟨?_, ?_, ?_, ?_, ?_, ?_, ?_, ?_, ?_⟩
  · exact ((h11.const_mul A.a11).add (h21.const_mul A.a12)).add (h31.const_mul A.a13)
  · exact ((h12.const_mul A.a11).add (h22.const_mul A.a12)).add (h32.const_mul A.a13)
  · exact ((h13.const_mul A.a11).add (h23.const_mul A.a12)).add (h33.const_mul A.a13)
  · exact ((h11.const_mul A.a21).add (h21.const_mul A.a22)).add (h31.const_mul A.a23)
  · exact ((h12.const_mul A.a21).add (h22.const_mul A.a22)).add (h32.const_mul A.a23)
  · exact ((h13.const_mul A.a21).add (h23.const_mul A.a22)).add (h33.const_mul A.a23)
  · exact ((h11.const_mul A.a31).add (h21.const_mul A.a32)).add (h31.const_mul A.a33)
  · exact ((h12.const_mul A.a31).add (h22.const_mul A.a32)).add (h32.const_mul A.a33)
  · exact ((h13.const_mul A.a31).add (h23.const_mul A.a32)).add (h33.const_mul A.a33)

theorem HasDerivM3.mul_const (B : M3 ℝ) {F : ℝ → M3 ℝ} {F' : M3 ℝ} {t : ℝ} (h : HasDerivM3 F F' t) :
    HasDerivM3 (fun s => F s * B) (F' * B) t := by
  obtain ⟨h11, h12, h13, h21, h22, h23, h31, h32, h33⟩ := h
  refine ⟨?_, ?_, ?_, ?_, ?_, ?_, ?_, ?_, ?_⟩
  · exact ((h11.mul_const B.a11).add (h12.mul_const B.a21)).add (h13.mul_const B.a31)
  · exact ((h11.mul_const B.a12).add (h12.mul_const B.a22)).add (h13.mul_const B.a32)
  · exact ((h11.mul_const B.a13).add (h12.mul_const B.a23)).add (h13.mul_const B.a33)
  · exact ((h21.mul_const B.a11).add (h22.mul_const B.a21)).add (h23.mul_const B.a31)
  · exact ((h21.mul_const B.a12).add (h22.mul_const B.a22)).add (h23.mul_const B.a32)
  · exact ((h21.mul_const B.a13).add (h22.mul_const B.a23)).add (h23.mul_const B.a33)
  · exact ((h31.mul_const B.a11).add (h32.mul_const B.a21)).add (h33.mul_const B.a31)
  · exact ((h31.mul_const B.a12).add (h32.mul_const B.a22)).add (h33.mul_const B.a32)
  · exact ((h31.mul_const B.a13).add (h32.mul_const B.a23)).add (h33.mul_const B.a33)

theorem HasDerivV3.const_mulVec (A : M3 ℝ) {p : ℝ → V3 ℝ} {p' : V3 ℝ} {t : ℝ} (h : HasDerivV3 p p' t) :
    HasDerivV3 (fun s => A.mulVec (p s)) (A.mulVec p') t := by
  obtain ⟨hx, hy, hz⟩ := h
  refine ⟨?_, ?_, ?_⟩
  · exact ((hx.const_mul A.a11).add (hy.const_mul A.a12)).add (hz.const_mul A.a13)
  · exact ((hx.const_mul A.a21).add (hy.const_mul A.a22)).add (hz.const_mul A.a23)
  · exact ((hx.const_mul A.a31).add (hy.const_mul A.a32)).add (hz.const_mul A.a33)

theorem HasDerivM3.mulVec_const (b : V3 ℝ) {F : ℝ → M3 ℝ} {F' : M3 ℝ} {t : ℝ} (h : HasDerivM3 F F' t) :
    HasDerivV3 (fun s => (F s).mulVec b) (F'.mulVec b) t := by
  obtain ⟨h11, h12, h13, h21, h22, h23, h31, h32, h33⟩ := h
  refine ⟨?_, ?_, ?_⟩
  · exact ((h11.mul_const b.x).add (h12.mul_const b.y)).add (h13.mul_const b.z)
  · exact ((h21.mul_const b.x).add (h22.mul_const b.y)).add (h23.mul_const b.z)
  · exact ((h31.mul_const b.x).add (h32.mul_const b.y)).add (h33.mul_const b.z)

theorem HasDerivV3.add {p q : ℝ → V3 ℝ} {p' q' : V3 ℝ} {t : ℝ} (hp : HasDerivV3 p p' t) (hq : HasDerivV3 q q' t) :
    HasDerivV3 (fun s => p s + q s) (p' + q') t :=
  ⟨hp.1.add hq.1, hp.2.1.add hq.2.1, hp.2.2.add hq.2.2⟩

theorem HasDerivV3.add_const (c : V3 ℝ) {p : ℝ → V3 ℝ} {p' : V3 ℝ} {t : ℝ} (hp : HasDerivV3 p p' t) :
    HasDerivV3 (fun s => p s + c) p' t :=
  ⟨hp.1.add_const c.x, hp.2.1.add_const c.y, hp.2.2.add_const c.z⟩

/-- A · G(s), A constant -/
theorem HasDerivT4.const_mul (A : T4 ℝ) {G : ℝ → T4 ℝ} {G' : T4 ℝ} {t : ℝ} (h : HasDerivT4 G G' t) :
    HasDerivT4 (fun s => A * G s) (gt A G') t :=
  ⟨h.1.const_mul A.R, (h.2.const_mulVec A.R).add_const A.p⟩

/-- G(s) · B, B constant -/
theorem HasDerivT4.mul_const (B : T4 ℝ) {G : ℝ → T4 ℝ} {G' : T4 ℝ} {t : ℝ} (h : HasDerivT4 G G' t) :
    HasDerivT4 (fun s => G s * B) (tg G' B) t :=
  ⟨h.1.mul_const B.R, (h.1.mulVec_const B.p).add h.2⟩

/-! ### one joint -/

theorem trig_deriv (c0 c1 c2 c3 t : ℝ) :
    HasDerivAt (fun θ => c0 + Real.sin θ * c1 + (1 - Real.cos θ) * c2 + θ * c3) (Real.cos t * c1 + Real.sin t * c2 + c3) t := by
  have h1 := (Real.hasDerivAt_sin t).mul_const c1
  have h2 := ((Real.hasDerivAt_cos t).const_sub 1).mul_const c2
  have h3 := (hasDerivAt_id t).mul_const c3
  have h := ((h1.const_add c0).add h2).add h3
  have e : Real.cos t * c1 + -(-Real.sin t) * c2 + 1 * c3 = Real.cos t * c1 + Real.sin t * c2 + c3 := by ring
  rw [e] at h
  exact h

theorem comp_deriv (f : ℝ → ℝ) (d c0 c1 c2 c3 t : ℝ)
    (hf : ∀ θ, f θ = c0 + Real.sin θ * c1 + (1 - Real.cos θ) * c2 + θ * c3) (hd : d = Real.cos t * c1 + Real.sin t * c2 + c3) :
    HasDerivAt f d t := by
  have : f = fun θ => c0 + Real.sin θ * c1 + (1 - Real.cos θ) * c2 + θ * c3 := funext hf
  rw [this, hd]; exact trig_deriv c0 c1 c2 c3 t

/-- closed form of a revolute joint's exponential (unit axis ω, point-velocity part v), as a function of the angle -/
noncomputable def revR (ω : V3 ℝ) (θ : ℝ) : M3 ℝ :=
  M3.one + M3.smul (Real.sin θ) (hat ω) + M3.smul (1 - Real.cos θ) (hat ω * hat ω)
noncomputable def revP (ω v : V3 ℝ) (θ : ℝ) : V3 ℝ :=
  (M3.smul θ M3.one + M3.smul (1 - Real.cos θ) (hat ω) + M3.smul (θ - Real.sin θ) (hat ω * hat ω)).mulVec v

/-- **d/dθ of the closed form is [S] times it** (S = (ω, v), ω a unit vector) -/
theorem hasDeriv_revolute (ω v : V3 ℝ) (hu : ω.x ^ 2 + ω.y ^ 2 + ω.z ^ 2 - 1 = 0) (t : ℝ) :
    HasDerivT4 (fun θ => (⟨revR ω θ, revP ω v θ⟩ : T4 ℝ)) (tg (hat6 ⟨ω, v⟩) ⟨revR ω t, revP ω v t⟩) t := by
  obtain ⟨x, y, z⟩ := ω
  obtain ⟨a, b, c⟩ := v
  simp only at hu
  refine ⟨⟨?_, ?_, ?_, ?_, ?_, ?_, ?_, ?_, ?_⟩, ⟨?_, ?_, ?_⟩⟩
  · exact comp_deriv _ _ (1) (0) (-y^2 - z^2) (0) t
      (fun θ => by simp only [revR, revP]; m3simp; ring)
      (by simp only [tg, revR, revP]; m3simp; linear_combination (0) * hu)
  · exact comp_deriv _ _ (0) (-z) (x*y) (0) t
      (fun θ => by simp only [revR, revP]; m3simp; ring)
      (by simp only [tg, revR, revP]; m3simp; linear_combination ((1 - Real.cos t)*z) * hu)
  · exact comp_deriv _ _ (0) (y) (x*z) (0) t
      (fun θ => by simp only [revR, revP]; m3simp; ring)
      (by simp only [tg, revR, revP]; m3simp; linear_combination (-(1 - Real.cos t)*y) * hu)
  · exact comp_deriv _ _ (0) (z) (x*y) (0) t
      (fun θ => by simp only [revR, revP]; m3simp; ring)
      (by simp only [tg, revR, revP]; m3simp; linear_combination (-(1 - Real.cos t)*z) * hu)
  · exact comp_deriv _ _ (1) (0) (-x^2 - z^2) (0) t
      (fun θ => by simp only [revR, revP]; m3simp; ring)
      (by simp only [tg, revR, revP]; m3simp; linear_combination (0) * hu)
  · exact comp_deriv _ _ (0) (-x) (y*z) (0) t
      (fun θ => by simp only [revR, revP]; m3simp; ring)
      (by simp only [tg, revR, revP]; m3simp; linear_combination ((1 - Real.cos t)*x) * hu)
  · exact comp_deriv _ _ (0) (-y) (x*z) (0) t
      (fun θ => by simp only [revR, revP]; m3simp; ring)
      (by simp only [tg, revR, revP]; m3simp; linear_combination ((1 - Real.cos t)*y) * hu)
  · exact comp_deriv _ _ (0) (x) (y*z) (0) t
      (fun θ => by simp only [revR, revP]; m3simp; ring)
      (by simp only [tg, revR, revP]; m3simp; linear_combination (-(1 - Real.cos t)*x) * hu)
  · exact comp_deriv _ _ (1) (0) (-x^2 - y^2) (0) t
      (fun θ => by simp only [revR, revP]; m3simp; ring)
      (by simp only [tg, revR, revP]; m3simp; linear_combination (0) * hu)
  · exact comp_deriv _ _ (0) (a*y^2 + a*z^2 - b*x*y - c*x*z) (-b*z + c*y) (-a*y^2 - a*z^2 + a + b*x*y + c*x*z) t
      (fun θ => by simp only [revR, revP]; m3simp; ring)
      (by simp only [tg, revR, revP]; m3simp; linear_combination (-b*Real.sin t*z + b*z*t + c*Real.sin t*y - c*y*t) * hu)
  · exact comp_deriv _ _ (0) (-a*x*y + b*x^2 + b*z^2 - c*y*z) (a*z - c*x) (a*x*y - b*x^2 - b*z^2 + b + c*y*z) t
      (fun θ => by simp only [revR, revP]; m3simp; ring)
      (by simp only [tg, revR, revP]; m3simp; linear_combination (a*Real.sin t*z - a*z*t - c*Real.sin t*x + c*x*t) * hu)
  · exact comp_deriv _ _ (0) (-a*x*z - b*y*z + c*x^2 + c*y^2) (-a*y + b*x) (a*x*z + b*y*z - c*x^2 - c*y^2 + c) t
      (fun θ => by simp only [revR, revP]; m3simp; ring)
      (by simp only [tg, revR, revP]; m3simp; linear_combination (-a*Real.sin t*y + a*y*t + b*Real.sin t*x - b*x*t) * hu)

theorem norm3_smul (k : ℝ) (w : V3 ℝ) : norm3 (V3.smul k w) = |k| * norm3 w := by
  apply norm3_eq_of_sq _ _ (mul_nonneg (abs_nonneg k) (norm3_nonneg w))
  have h := norm3_sq w
  have e : (|k| * norm3 w) ^ 2 = k ^ 2 * (w.x ^ 2 + w.y ^ 2 + w.z ^ 2) := by rw [mul_pow, sq_abs, h]
  rw [e]
  obtain ⟨x, y, z⟩ := w
  simp only [V3.smul]
  ring

/-- **a revolute joint's exponential is the closed form** for every angle outside the cut-off band (unit axis) -/
theorem exp6_revolute (S : V6 ℝ) (hunit : norm3 S.a = 1) (θ : ℝ) (hθ : (1e-6 : ℝ) ≤ |θ|) :
    matrixExp6 (hat6 (V6.smul θ S)) = ⟨revR S.a θ, revP S.a S.b θ⟩ := by
  obtain ⟨ω, v⟩ := S
  simp only at hunit
  have hn : norm3 (V6.smul θ (⟨ω, v⟩ : V6 ℝ)).a = |θ| := by
    show norm3 (V3.smul θ ω) = |θ|
    rw [norm3_smul, hunit, mul_one]
  have hnz : ¬ nearZero (norm3 (V6.smul θ (⟨ω, v⟩ : V6 ℝ)).a) := by rw [hn]; exact not_nearZero_of_le _ hθ
  have hpos : 0 < |θ| := lt_of_lt_of_le (by norm_num) hθ
  have hne : θ ≠ 0 := abs_pos.mp hpos
  have hsq := norm3_sq ω
  rw [hunit] at hsq
  rw [exp6_rotating _ hnz, exp3_eq_rod _ hnz, hn]
  obtain ⟨x, y, z⟩ := ω
  obtain ⟨a, b, c⟩ := v
  simp only at hsq
  rcases lt_or_gt_of_ne hne with hneg | hpos'
  · rw [abs_of_neg hneg, Real.sin_neg, Real.cos_neg]
    unfold Gmat rod revR revP
    rw [← M3.one_eq]
    simp only [V6.smul, ← M3.smul_eq, Real.sin_neg, Real.cos_neg]
    m3simp
    have : -θ ≠ 0 := by linarith
    refine ⟨⟨?_, ?_, ?_, ?_, ?_, ?_, ?_, ?_, ?_⟩, ?_, ?_, ?_⟩ <;> field_simp <;> ring
  · rw [abs_of_pos hpos']
    unfold Gmat rod revR revP
    rw [← M3.one_eq]
    simp only [V6.smul, ← M3.smul_eq]
    m3simp
    refine ⟨⟨?_, ?_, ?_, ?_, ?_, ?_, ?_, ?_, ?_⟩, ?_, ?_, ?_⟩ <;> field_simp <;> ring

/-- a prismatic joint (no angular part): the exponential is a translation along v, for every θ -/
theorem exp6_prismatic (v : V3 ℝ) (θ : ℝ) :
    matrixExp6 (hat6 (V6.smul θ (⟨⟨0, 0, 0⟩, v⟩ : V6 ℝ))) = ⟨M3.one, V3.smul θ v⟩ := by
  have hz : nearZero (norm3 (V6.smul θ (⟨⟨0, 0, 0⟩, v⟩ : V6 ℝ)).a) := by
    have : (V6.smul θ (⟨⟨0, 0, 0⟩, v⟩ : V6 ℝ)).a = ⟨0, 0, 0⟩ := by
      show V3.smul θ ⟨0, 0, 0⟩ = _
      simp [V3.smul]
    rw [this, norm3_eq_of_sq _ 0 (le_refl 0) (by norm_num), nearZero_iff]; norm_num
  rw [exp6_translating _ hz]
  rfl

/-! ### derivative of a joint's exponential with respect to its angle -/

theorem HasDerivT4.congr {f g : ℝ → T4 ℝ} {g' : T4 ℝ} {t : ℝ} (h : HasDerivT4 g g' t) (he : f =ᶠ[nhds t] g) :
    HasDerivT4 f g' t := by
  obtain ⟨⟨h11, h12, h13, h21, h22, h23, h31, h32, h33⟩, hx, hy, hz⟩ := h
  exact ⟨⟨h11.congr_of_eventuallyEq (he.fun_comp (fun T => T.R.a11)), h12.congr_of_eventuallyEq (he.fun_comp (fun T => T.R.a12)),
          h13.congr_of_eventuallyEq (he.fun_comp (fun T => T.R.a13)), h21.congr_of_eventuallyEq (he.fun_comp (fun T => T.R.a21)),
          h22.congr_of_eventuallyEq (he.fun_comp (fun T => T.R.a22)), h23.congr_of_eventuallyEq (he.fun_comp (fun T => T.R.a23)),
          h31.congr_of_eventuallyEq (he.fun_comp (fun T => T.R.a31)), h32.congr_of_eventuallyEq (he.fun_comp (fun T => T.R.a32)),
          h33.congr_of_eventuallyEq (he.fun_comp (fun T => T.R.a33))⟩,
         hx.congr_of_eventuallyEq (he.fun_comp (fun T => T.p.x)), hy.congr_of_eventuallyEq (he.fun_comp (fun T => T.p.y)),
         hz.congr_of_eventuallyEq (he.fun_comp (fun T => T.p.z))⟩

/-- the joint's own exponential as a function of its angle -/
noncomputable def jointExp (S : V6 ℝ) (θ : ℝ) : T4 ℝ := matrixExp6 (hat6 (V6.smul θ S))

/-- what the property asks of a joint at the angle where the derivative is taken: a prismatic joint, or a revolute
    joint with unit axis turned by more than the library's cut-off -/
def JointSmooth (S : V6 ℝ) (t : ℝ) : Prop := S.a = ⟨0, 0, 0⟩ ∨ (norm3 S.a = 1 ∧ (1e-6 : ℝ) < |t|)

/-- **d/dθ e^{[S]θ} = [S] e^{[S]θ}** for the library's exponential, outside its cut-off band -/
theorem hasDeriv_jointExp (S : V6 ℝ) (t : ℝ) (h : JointSmooth S t) :
    HasDerivT4 (jointExp S) (tg (hat6 S) (jointExp S t)) t := by
  rcases h with h0 | ⟨hunit, ht⟩
  · obtain ⟨ω, v⟩ := S
    simp only at h0
    subst h0
    have hf : jointExp (⟨⟨0, 0, 0⟩, v⟩ : V6 ℝ) = fun θ => (⟨M3.one, V3.smul θ v⟩ : T4 ℝ) := by
      funext θ; exact exp6_prismatic v θ
    rw [hf]
    obtain ⟨a, b, c⟩ := v
    refine ⟨⟨?_, ?_, ?_, ?_, ?_, ?_, ?_, ?_, ?_⟩, ⟨?_, ?_, ?_⟩⟩
    · exact comp_deriv _ _ (1) 0 0 0 t (fun θ => by m3simp; ring) (by simp only [tg, hat6]; m3simp; ring)
    · exact comp_deriv _ _ (0) 0 0 0 t (fun θ => by m3simp; ring) (by simp only [tg, hat6]; m3simp; ring)
    · exact comp_deriv _ _ (0) 0 0 0 t (fun θ => by m3simp; ring) (by simp only [tg, hat6]; m3simp; ring)
    · exact comp_deriv _ _ (0) 0 0 0 t (fun θ => by m3simp; ring) (by simp only [tg, hat6]; m3simp; ring)
    · exact comp_deriv _ _ (1) 0 0 0 t (fun θ => by m3simp; ring) (by simp only [tg, hat6]; m3simp; ring)
    · exact comp_deriv _ _ (0) 0 0 0 t (fun θ => by m3simp; ring) (by simp only [tg, hat6]; m3simp; ring)
    · exact comp_deriv _ _ (0) 0 0 0 t (fun θ => by m3simp; ring) (by simp only [tg, hat6]; m3simp; ring)
    · exact comp_deriv _ _ (0) 0 0 0 t (fun θ => by m3simp; ring) (by simp only [tg, hat6]; m3simp; ring)
    · exact comp_deriv _ _ (1) 0 0 0 t (fun θ => by m3simp; ring) (by simp only [tg, hat6]; m3simp; ring)
    · exact comp_deriv _ _ 0 0 0 (a) t (fun θ => by m3simp; ring) (by simp only [tg, hat6]; m3simp; ring)
    · exact comp_deriv _ _ 0 0 0 (b) t (fun θ => by m3simp; ring) (by simp only [tg, hat6]; m3simp; ring)
    · exact comp_deriv _ _ 0 0 0 (c) t (fun θ => by m3simp; ring) (by simp only [tg, hat6]; m3simp; ring)
  · have hsq := norm3_sq S.a
    rw [hunit] at hsq
    have hu : S.a.x ^ 2 + S.a.y ^ 2 + S.a.z ^ 2 - 1 = 0 := by linarith
    have hev : jointExp S =ᶠ[nhds t] fun θ => (⟨revR S.a θ, revP S.a S.b θ⟩ : T4 ℝ) := by
      have hopen : ∀ᶠ θ in nhds t, (1e-6 : ℝ) < |θ| := continuous_abs.continuousAt.eventually (lt_mem_nhds ht)
      filter_upwards [hopen] with θ hθ
      exact exp6_revolute S hunit θ hθ.le
    have hval : jointExp S t = ⟨revR S.a t, revP S.a S.b t⟩ := exp6_revolute S hunit t ht.le
    rw [hval]
    have := hasDeriv_revolute S.a S.b hu t
    exact this.congr hev

/-! ### the chain -/

/-- the chain with the angle of joint i replaced by s -/
def setAngle : List (V6 ℝ × ℝ) → Nat → ℝ → List (V6 ℝ × ℝ)
  | [], _, _ => []
  | (S, _) :: js, 0, s => (S, s) :: js
  | j :: js, i + 1, s => j :: setAngle js i s

theorem setAngle_self (joints : List (V6 ℝ × ℝ)) (i : Nat) (hi : i < joints.length) :
    setAngle joints i (joints[i]).2 = joints := by
  induction joints generalizing i with
  | nil => simp at hi
  | cons j js ih =>
    obtain ⟨S, θ⟩ := j
    cases i with
    | zero => simp [setAngle]
    | succ k => simp only [setAngle, List.getElem_cons_succ]; rw [ih k (by simpa using hi)]

/-- FK with the angle of joint i as the variable: (product of the joints before i) · e^{[S_i]s} · (the rest) -/
theorem fk_split (M T : T4 ℝ) (joints : List (V6 ℝ × ℝ)) (i : Nat) (hi : i < joints.length) (s : ℝ) :
    T * fkinSpace M (setAngle joints i s) =
      prefixProd T joints i * (jointExp (joints[i]).1 s * fkinSpace M (joints.drop (i + 1))) := by
  induction joints generalizing T i with
  | nil => simp at hi
  | cons j js ih =>
    obtain ⟨S, θ⟩ := j
    cases i with
    | zero => simp [setAngle, fkinSpace, prefixProd, jointExp]
    | succ k =>
      simp only [setAngle, fkinSpace, prefixProd, List.getElem_cons_succ, List.drop_succ_cons]
      rw [← T4_mul_assoc]
      exact ih _ k (by simpa using hi)

theorem prefixProd_isRot (T : T4 ℝ) (hT : IsRot T.R) (joints : List (V6 ℝ × ℝ)) (i : Nat) :
    IsRot (prefixProd T joints i).R := by
  induction joints generalizing T i with
  | nil => cases i <;> exact hT
  | cons j js ih =>
    obtain ⟨S, θ⟩ := j
    cases i with
    | zero => exact hT
    | succ k =>
      simp only [prefixProd]
      apply ih
      show IsRot (T.R * (matrixExp6 (hat6 (V6.smul θ S))).R)
      exact isRot_mul hT (BR.C01.exp6_mem_SE3 _)

theorem tg_assoc (X E B : T4 ℝ) : tg (tg X E) B = tg X (E * B) := by
  obtain ⟨Xr, xp⟩ := X; obtain ⟨Er, ep⟩ := E; obtain ⟨Br, bp⟩ := B
  cases Xr; cases Er; cases Br; cases xp; cases ep; cases bp
  unfold tg
  m3ring

/-- P · (X · Y) = (P X P⁻¹) · (P Y) for a rigid transform P, a bottom-row-0 matrix X and a rigid transform Y -/
theorem gt_tg (P X Y : T4 ℝ) (hP : IsRot P.R) : gt P (tg X Y) = tg (BR.C01.conj P X) (P * Y) := by
  have h1 : P.R.T * P.R = 1 := (isRot_inv hP).2
  obtain ⟨A, a⟩ := P; obtain ⟨Xr, xp⟩ := X; obtain ⟨Yr, yp⟩ := Y
  simp only at h1
  unfold gt tg BR.C01.conj transInv
  show (⟨A * (Xr * Yr), A.mulVec (Xr.mulVec yp + xp)⟩ : T4 ℝ) = ⟨A * Xr * A.T * (A * Yr), _⟩
  have e1 : A * Xr * A.T * (A * Yr) = A * (Xr * Yr) := by
    calc A * Xr * A.T * (A * Yr) = A * Xr * (A.T * A) * Yr := by noncomm_ring
      _ = A * (Xr * Yr) := by rw [h1]; noncomm_ring
  rw [e1]
  congr 1
  have e2 : A * Xr * A.T * A = A * Xr := by
    calc A * Xr * A.T * A = A * Xr * (A.T * A) := by noncomm_ring
      _ = A * Xr := by rw [h1]; noncomm_ring
  simp only [T4.mul_def, T4.mul]
  simp only [V3.smul_eq, mulVec_add, mulVec_smul, ← mulVec_mul, ofNat_real_one]
  rw [e2]
  module

/-- **the derivative clause of C06**: with respect to the angle of joint i, forward kinematics moves with the spatial
    twist Ad(e^{[S_0]θ_0}⋯e^{[S_{i-1}]θ_{i-1}}) S_i — column i of the space Jacobian (`jacobianSpace_col`) —
    i.e.  d/dθ_i FK(θ) = [J_s(θ) e_i] · FK(θ), for chains of any length, at every configuration where joint i is outside
    the exponential's cut-off band -/
theorem fk_hasDeriv (M : T4 ℝ) (joints : List (V6 ℝ × ℝ)) (i : Nat) (hi : i < joints.length)
    (hs : JointSmooth (joints[i]).1 (joints[i]).2) :
    HasDerivT4 (fun s => fkinSpace M (setAngle joints i s))
      (tg (hat6 ((adjoint (prefixProd T4.one joints i)).mulVec (joints[i]).1)) (fkinSpace M joints)) (joints[i]).2 := by
  set P := prefixProd T4.one joints i with hPdef
  set Rest := fkinSpace M (joints.drop (i + 1)) with hRest
  have hP : IsRot P.R := prefixProd_isRot T4.one BR.C01.one_isRot joints i
  have hfun : (fun s => fkinSpace M (setAngle joints i s)) = fun s => P * (jointExp (joints[i]).1 s * Rest) := by
    funext s
    have := fk_split M T4.one joints i hi s
    rw [T4_one_mul] at this
    exact this
  have hval : fkinSpace M joints = P * (jointExp (joints[i]).1 (joints[i]).2 * Rest) := by
    have := congrFun hfun (joints[i]).2
    rw [setAngle_self joints i hi] at this
    exact this
  rw [hfun, hval]
  have hd := ((hasDeriv_jointExp (joints[i]).1 (joints[i]).2 hs).mul_const Rest).const_mul P
  rw [tg_assoc, gt_tg _ _ _ hP, BR.C01.conj_hat6 P hP] at hd
  exact hd

/-- the same statement phrased with the Jacobian the library computes -/
theorem jacobianSpace_is_derivative (M : T4 ℝ) (joints : List (V6 ℝ × ℝ)) (i : Nat) (hi : i < joints.length)
    (hs : JointSmooth (joints[i]).1 (joints[i]).2) :
    ∃ J, (jacobianSpace joints)[i]? = some J ∧
      HasDerivT4 (fun s => fkinSpace M (setAngle joints i s)) (tg (hat6 J) (fkinSpace M joints)) (joints[i]).2 :=
  ⟨_, jacobianSpace_col joints i hi, fk_hasDeriv M joints i hi hs⟩

/-- non-vacuity: a unit-axis revolute joint turned by 1 rad is smooth -/
example : JointSmooth (⟨⟨0, 0, 1⟩, ⟨0, 0, 0⟩⟩ : V6 ℝ) 1 := by
  right
  refine ⟨norm3_eq_of_sq _ 1 (by norm_num) (by norm_num), ?_⟩
  rw [abs_one]; norm_num

end BR.C06D
