/-
  C20 — disp shows every element it was given, in row-major order, rounded to the requested decimals.

  (Totality — "never raises" — is not a statement a total Lean function can make about Python; the model is total
   by construction and its agreement with the real function, character for character, on every kind of object is
   what harness/c20.py checks.  The theorems below are about what the rendered text contains.)
-/
import Mathlib.Tactic.Linarith
import Mathlib.Tactic.Ring
import Mathlib.Tactic.FieldSimp
import Mathlib.Tactic.Positivity
import Mathlib.Algebra.Order.Field.Basic
import Mathlib.Algebra.Order.AbsoluteValue.Basic
import Mathlib.Data.Rat.Cast.Order
import BR.Model.Disp

namespace BR.C20
open BR.Disp

/-! ### rounding -/

/-- **round-half-even returns a nearest integer**: 2·|n·den − num| ≤ den -/
theorem roundHalfEven_nearest (num den : Nat) (hd : 0 < den) :
    2 * ((roundHalfEven num den : Int) * den - num) ≤ den ∧ 2 * ((num : Int) - roundHalfEven num den * den) ≤ den := by
  have hnum : num = den * (num / den) + num % den := (Nat.div_add_mod num den).symm
  have hmod := Nat.mod_lt num hd
  unfold roundHalfEven
  simp only
  generalize num / den = q at *
  generalize num % den = r at *
  subst hnum
  have hdI : (0 : Int) ≤ den := Int.natCast_nonneg den
  have hrI : (0 : Int) ≤ r := Int.natCast_nonneg r
  have hlt : (r : Int) < den := by exact_mod_cast hmod
  split
  · rename_i h1
    have : 2 * (r : Int) < den := by exact_mod_cast h1
    constructor <;> push_cast <;> nlinarith
  · split
    · rename_i h1 h2
      have : (den : Int) < 2 * r := by exact_mod_cast h2
      constructor <;> push_cast <;> nlinarith
    · rename_i h1 h2
      have heq : 2 * r = den := by omega
      have : 2 * (r : Int) = den := by exact_mod_cast heq
      split
      · constructor <;> push_cast <;> nlinarith
      · constructor <;> push_cast <;> nlinarith

/-- **a printed finite number is the element rounded to p decimals**: the integer the digits are produced from,
    divided by 10^p, is within half a unit in the last place of the exact value num/den -/
theorem scaled_error (num den p : Nat) (hd : 0 < den) :
    |((scaled num den p : ℚ) / 10 ^ p) - (num : ℚ) / den| ≤ 1 / (2 * 10 ^ p) := by
  have h := roundHalfEven_nearest (num * 10 ^ p) den hd
  unfold scaled
  set n := roundHalfEven (num * 10 ^ p) den with hn
  have hdq : (0 : ℚ) < den := by exact_mod_cast hd
  have hpq : (0 : ℚ) < 10 ^ p := by positivity
  have h1 : 2 * ((n : ℚ) * den - num * 10 ^ p) ≤ den := by
    have := h.1
    have : ((2 * ((n : Int) * den - (num * 10 ^ p : Nat)) : Int) : ℚ) ≤ ((den : Int) : ℚ) := by exact_mod_cast this
    push_cast at this; linarith
  have h2 : 2 * ((num : ℚ) * 10 ^ p - n * den) ≤ den := by
    have := h.2
    have : ((2 * (((num * 10 ^ p : Nat) : Int) - n * den) : Int) : ℚ) ≤ ((den : Int) : ℚ) := by exact_mod_cast this
    push_cast at this; linarith
  rw [abs_le]
  have key : (n : ℚ) / 10 ^ p - (num : ℚ) / den = ((n : ℚ) * den - num * 10 ^ p) / (10 ^ p * den) := by
    field_simp
  rw [key]
  have hpos : (0 : ℚ) < 10 ^ p * den := by positivity
  constructor
  · rw [le_div_iff₀ hpos]
    have : -(1 / (2 * (10 : ℚ) ^ p)) * (10 ^ p * den) = -(den / 2) := by field_simp
    rw [this]; linarith
  · rw [div_le_iff₀ hpos]
    have : (1 / (2 * (10 : ℚ) ^ p)) * (10 ^ p * den) = den / 2 := by field_simp
    rw [this]; linarith

/-- below 9999 the requested number of decimals is used unchanged and the field is nd + 6 wide -/
theorem cell_small (nd : Nat) (x : Num) (h : isBig x = false) : cell nd x = fmtFixed x (nd + 6) nd := by
  unfold cell decimalsFor
  simp [h]

/-! ### every element, in row-major order -/

theorem chunk_length (data : List Num) (m i n : Nat) (h : data.length = n * m) (hi : i < n) :
    (chunk data m i).length = m := by
  unfold chunk
  simp only [List.length_take, List.length_drop, h]
  have : i * m + m ≤ n * m := by
    calc i * m + m = (i + 1) * m := by ring
      _ ≤ n * m := Nat.mul_le_mul_right m hi
  omega

/-- cutting a list of n·m elements into n consecutive chunks of m and concatenating gives the list back -/
theorem chunks_cover (m : Nat) : ∀ (n : Nat) (data : List Num), data.length = n * m →
    (List.range n).flatMap (chunk data m) = data := by
  intro n
  induction n with
  | zero => intro data h; simp at h; simp [h]
  | succ k ih =>
    intro data h
    rw [List.range_succ, List.flatMap_append]
    simp only [List.flatMap_cons, List.flatMap_nil, List.append_nil]
    have hlen : (data.take (k * m)).length = k * m := by
      rw [List.length_take, h]; apply Nat.min_eq_left; rw [Nat.succ_mul]; omega
    have hpre : (List.range k).flatMap (chunk data m) = (List.range k).flatMap (chunk (data.take (k * m)) m) := by
      apply List.flatMap_congr
      intro i hi
      have hi' : i < k := List.mem_range.1 hi
      unfold chunk
      have : i * m + m ≤ k * m := by
        calc i * m + m = (i + 1) * m := by ring
          _ ≤ k * m := Nat.mul_le_mul_right m hi'
      rw [List.drop_take, List.take_take]
      congr 1
      omega
    rw [hpre, ih _ hlen]
    unfold chunk
    have : (data.drop (k * m)).take m = data.drop (k * m) := by
      apply List.take_of_length_le
      rw [List.length_drop, h, Nat.succ_mul]; omega
    rw [this, List.take_append_drop]

theorem rows2_cells (nd n m : Nat) (data : List Num) (h : data.length = n * m) :
    (rows2 nd n m data).flatMap Line.cells = data.map (cell nd) := by
  unfold rows2
  rw [List.flatMap_map]
  have : ∀ i, (vecRow nd (if i = 0 then 1 else if i = n - 1 then 2 else 0) (chunk data m i)).cells = (chunk data m i).map (cell nd) := by
    intro i
    unfold vecRow
    split <;> rfl
  simp only [this]
  rw [← List.map_flatMap, chunks_cover m n data h]

theorem flatMap_text_cells (ls : List Line) (s : String) : ([Line.text s] ++ ls).flatMap Line.cells = ls.flatMap Line.cells := by
  simp [Line.cells]

/-- blocks of a 3-D array: DIM lines carry no cells -/
theorem blocks_cells (nd k n m : Nat) (pdims : Bool) (data : List Num) (h : data.length = k * (n * m)) :
    ((List.range k).flatMap (fun i =>
      (if pdims then [Line.text ("DIM " ++ toString i ++ ":")] else []) ++ rows2 nd n m (chunk data (n * m) i))).flatMap Line.cells
      = data.map (cell nd) := by
  rw [List.flatMap_assoc]
  have : ∀ i ∈ List.range k, ((if pdims then [Line.text ("DIM " ++ toString i ++ ":")] else []) ++ rows2 nd n m (chunk data (n * m) i)).flatMap Line.cells
      = (chunk data (n * m) i).map (cell nd) := by
    intro i hi
    have hl := chunk_length data (n * m) i k h (List.mem_range.1 hi)
    cases pdims
    · simp only [Bool.false_eq_true, ↓reduceIte, List.nil_append]; exact rows2_cells nd n m _ hl
    · simp only [↓reduceIte, List.flatMap_append]
      rw [rows2_cells nd n m _ hl]; simp [Line.cells]
  rw [List.flatMap_congr this, ← List.map_flatMap, chunks_cover (n * m) k data h]

theorem disp3_cells (nd k n m : Nat) (pdims : Bool) (data : List Num) (title : String) (h : data.length = k * (n * m)) :
    (disp3 k n m data title nd pdims).flatMap Line.cells = data.map (cell nd) := by
  unfold disp3
  simp only
  rw [List.flatMap_append, List.flatMap_append, blocks_cells nd k n m pdims data h]
  simp [Line.cells]

/-- **the rendered text of a numeric array with 1 to 4 axes contains every element exactly once, in row-major order,
    each as the cell `cell nd x`** (for |x| < 9999 that is the element rounded half-even to nd decimals in a field of
    nd+6 characters: `cell_small`, `scaled_error`) — for every shape, including empty extents, every title, nd, pdims -/
theorem cells_rowmajor (shape : List Nat) (data : List Num) (title : String) (nd : Nat) (pdims top : Bool)
    (hdims : 1 ≤ shape.length ∧ shape.length ≤ 4) (hlen : data.length = prodList shape) :
    (dispaArr shape data title nd pdims top).flatMap Line.cells = data.map (cell nd) := by
  match shape, hdims, hlen with
  | [n], _, hlen =>
    simp only [prodList, Nat.mul_one] at hlen
    simp only [dispaArr, List.flatMap_cons, List.flatMap_nil, List.append_nil, Line.cells]
    rw [List.take_of_length_le (by omega)]
  | [n, m], _, hlen =>
    simp only [prodList, Nat.mul_one] at hlen
    simp only [dispaArr]
    rw [List.flatMap_append, List.flatMap_append, rows2_cells nd n m data hlen]
    split <;> simp [Line.cells]
  | [k, n, m], _, hlen =>
    simp only [prodList, Nat.mul_one] at hlen
    simp only [dispaArr]
    exact disp3_cells nd k n m pdims data title hlen
  | [j, k, n, m], _, hlen =>
    simp only [prodList, Nat.mul_one] at hlen
    simp only [dispaArr]
    rw [List.flatMap_append, List.flatMap_append]
    have hj : data.length = j * (k * n * m) := by rw [hlen]; ring
    have hmid : ((List.range j).flatMap (fun i => disp3 k n m (chunk data (k * n * m) i) (title ++ " d:" ++ toString i) nd pdims)).flatMap Line.cells
        = data.map (cell nd) := by
      rw [List.flatMap_assoc]
      have : ∀ i ∈ List.range j, (disp3 k n m (chunk data (k * n * m) i) (title ++ " d:" ++ toString i) nd pdims).flatMap Line.cells
          = (chunk data (k * n * m) i).map (cell nd) := by
        intro i hi
        have hl := chunk_length data (k * n * m) i j hj (List.mem_range.1 hi)
        exact disp3_cells nd k n m pdims _ _ (by rw [hl]; ring)
      rw [List.flatMap_congr this, ← List.map_flatMap, chunks_cover (k * n * m) j data hj]
    rw [hmid]
    simp [Line.cells]
  | [], h, _ => simp at h
  | _ :: _ :: _ :: _ :: _ :: _, h, _ => simp at h

/-- non-vacuity: the hypotheses of `cells_rowmajor` are met by a 2×2 matrix -/
example : (1 ≤ [2, 2].length ∧ [2, 2].length ≤ 4) ∧
    [Num.fin false 3 2, Num.fin true 1 10000, Num.fin false 5 2, Num.fin false 1 8].length = prodList [2, 2] := by decide

/- a worked instance, evaluated at build time (a test, not a theorem): what the model renders for that matrix -/
#guard flatten (dispaArr [2, 2] [Num.fin false 3 2, Num.fin true 1 10000, Num.fin false 5 2, Num.fin false 1 8] "xy" 2 true true) ==
    "╔═════ xy BEGIN ════╗\n╔     1.50,   -0.00 ╗\n╚     2.50,    0.12 ╝\n╚══════ xy END ═════╝\n"

end BR.C20
