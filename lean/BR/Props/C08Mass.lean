/-
  C08 (mass matrix) — for the Newton–Euler recursion the library runs, the zero-velocity response to joint accelerations is a
  symmetric, positive semi-definite bilinear form:   τ(a) · b = Σᵢ (Gᵢ V̇ᵢ(a)) · V̇ᵢ(b),
  where V̇ᵢ(x) are the link accelerations of the run with joint accelerations x.  Hence the matrix whose columns MassMatrix
  obtains by calling the recursion on unit accelerations is symmetric when every Gᵢ is, and xᵀMx ≥ 0 when every Gᵢ is
  positive semi-definite — for chains of any length, at every configuration.
-/
import BR.Props.C08

namespace BR.C08M
open BR.MR BR.Rot BR.Dyn BR.C08 OrdField Scalar

/-- Σ aᵢ bᵢ -/
noncomputable def dotL : List ℝ → List ℝ → ℝ
  | a :: as, b :: bs => a * b + dotL as bs
  | _, _ => 0

/-- the bilinear form Σᵢ (Gᵢ V̇ᵢ(a)) · V̇ᵢ(b) of the zero-velocity runs with joint accelerations a and b and incoming
    accelerations V̇a, V̇b -/
noncomputable def energyForm : List (Link ℝ) → List ℝ → List ℝ → V6 ℝ → V6 ℝ → ℝ
  | L :: Ls, a :: as, b :: bs, Vda, Vdb =>
    let va := L.AdT.mulVec Vda + V6.smul a L.A
    let vb := L.AdT.mulVec Vdb + V6.smul b L.A
    V6.dot (L.G.mulVec va) vb + energyForm Ls as bs va vb
  | _, _, _, _, _ => 0

theorem V6_dot_add_right (u v w : V6 ℝ) : V6.dot u (v + w) = V6.dot u v + V6.dot u w := by
  obtain ⟨⟨u1, u2, u3⟩, ⟨u4, u5, u6⟩⟩ := u; obtain ⟨⟨v1, v2, v3⟩, ⟨v4, v5, v6⟩⟩ := v
  obtain ⟨⟨w1, w2, w3⟩, ⟨w4, w5, w6⟩⟩ := w; m3simp; ring

theorem V6_dot_smul_right (u v : V6 ℝ) (k : ℝ) : V6.dot u (V6.smul k v) = k * V6.dot u v := by
  obtain ⟨⟨u1, u2, u3⟩, ⟨u4, u5, u6⟩⟩ := u; obtain ⟨⟨v1, v2, v3⟩, ⟨v4, v5, v6⟩⟩ := v; m3simp; ring

theorem V6_dot_T (A : M6 ℝ) (u v : V6 ℝ) : V6.dot (A.T.mulVec u) v = V6.dot u (A.mulVec v) := by
  obtain ⟨A1, A2, A3, A4⟩ := A
  obtain ⟨⟨u1, u2, u3⟩, ⟨u4, u5, u6⟩⟩ := u; obtain ⟨⟨v1, v2, v3⟩, ⟨v4, v5, v6⟩⟩ := v
  cases A1; cases A2; cases A3; cases A4
  m3simp; ring

theorem v6_smul_zero (A : V6 ℝ) : V6.smul (0 : ℝ) A = v6zero := by
  obtain ⟨⟨a1, a2, a3⟩, ⟨a4, a5, a6⟩⟩ := A; simp only [v6zero]; m3ring

theorem v6zero_add' (v : V6 ℝ) : v6zero + v = v := by
  obtain ⟨⟨v1, v2, v3⟩, ⟨v4, v5, v6⟩⟩ := v; simp only [v6zero]; m3ring

theorem v6_add_zero' (v : V6 ℝ) : v + v6zero = v := by
  obtain ⟨⟨v1, v2, v3⟩, ⟨v4, v5, v6⟩⟩ := v; simp only [v6zero]; m3ring

theorem v6_sub_zero (v : V6 ℝ) : v - v6zero = v := by
  obtain ⟨⟨v1, v2, v3⟩, ⟨v4, v5, v6⟩⟩ := v; simp only [v6zero]; m3ring

theorem M6_zeroT_mulVec (v : V6 ℝ) : (⟨M3.zero, M3.zero, M3.zero, M3.zero⟩ : M6 ℝ).T.mulVec v = v6zero := by
  obtain ⟨⟨v1, v2, v3⟩, ⟨v4, v5, v6⟩⟩ := v; simp only [v6zero]; m3ring

/-- **virtual work of the zero-velocity run**: τ(a)·b plus the power of the wrench handed down to the parent through the
    parent's acceleration equals the energy form — induction over the links -/
theorem zero_velocity_power (Ls : List (Link ℝ)) (a b : List ℝ) (hb : b.length = a.length) (Vda Vdb : V6 ℝ) :
    dotL (idyn Ls ((a.map fun _ => (0 : ℝ)).zip a) v6zero Vda v6zero).1 b +
      V6.dot (idyn Ls ((a.map fun _ => (0 : ℝ)).zip a) v6zero Vda v6zero).2 Vdb
      = energyForm Ls a b Vda Vdb := by
  induction Ls generalizing a b Vda Vdb with
  | nil =>
    simp only [idyn, dotL, energyForm]
    obtain ⟨⟨v1, v2, v3⟩, ⟨v4, v5, v6⟩⟩ := Vdb
    simp only [v6zero]; m3simp; ring
  | cons L Ls ih =>
    cases a with
    | nil =>
      simp only [List.map_nil, List.zip_nil_left, idyn, dotL, energyForm]
      obtain ⟨⟨v1, v2, v3⟩, ⟨v4, v5, v6⟩⟩ := Vdb
      simp only [v6zero]; m3simp; ring
    | cons a0 as =>
      cases b with
      | nil => simp at hb
      | cons b0 bs =>
        have hb' : bs.length = as.length := by simpa using hb
        simp only [List.map_cons, List.zip_cons_cons, idyn, energyForm]
        -- the link's own velocity stays zero
        have hV : L.AdT.mulVec (v6zero : V6 ℝ) + V6.smul (0 : ℝ) L.A = v6zero := by
          rw [M6_mulVec_zero, v6_smul_zero, v6zero_add']
        rw [hV]
        have hVd : L.AdT.mulVec Vda + V6.smul a0 L.A + V6.smul (0 : ℝ) ((ad (v6zero : V6 ℝ)).mulVec L.A) =
            L.AdT.mulVec Vda + V6.smul a0 L.A := by
          rw [v6_smul_zero, v6_add_zero']
        rw [hVd]
        set va := L.AdT.mulVec Vda + V6.smul a0 L.A with hva
        set vb := L.AdT.mulVec Vdb + V6.smul b0 L.A with hvb
        have hI := ih as bs hb' va vb
        generalize idyn Ls ((as.map fun _ => (0 : ℝ)).zip as) v6zero va v6zero = r at hI ⊢
        obtain ⟨τs, Fn⟩ := r
        simp only at hI ⊢
        simp only [dotL]
        have hF : Fn + L.G.mulVec va - (ad (v6zero : V6 ℝ)).T.mulVec (L.G.mulVec (v6zero : V6 ℝ)) = Fn + L.G.mulVec va := by
          rw [ad_zero, M6_zeroT_mulVec, v6_sub_zero]
        rw [hF, V6_dot_T]
        have : V6.dot (Fn + L.G.mulVec va) L.A * b0 + V6.dot (Fn + L.G.mulVec va) (L.AdT.mulVec Vdb) =
            V6.dot (Fn + L.G.mulVec va) vb := by
          rw [hvb, V6_dot_add_right, V6_dot_smul_right]; ring
        rw [V6_dot_add] at this ⊢
        linarith [this, hI, V6_dot_add Fn (L.G.mulVec va) vb]

/-- symmetric spatial inertia: (G u)·v = u·(G v) -/
def SymG (G : M6 ℝ) : Prop := ∀ u v : V6 ℝ, V6.dot (G.mulVec u) v = V6.dot u (G.mulVec v)

theorem V6_dot_comm (u v : V6 ℝ) : V6.dot u v = V6.dot v u := by
  obtain ⟨⟨u1, u2, u3⟩, ⟨u4, u5, u6⟩⟩ := u; obtain ⟨⟨v1, v2, v3⟩, ⟨v4, v5, v6⟩⟩ := v; m3simp; ring

/-- the energy form is symmetric when every link inertia is -/
theorem energyForm_symm (Ls : List (Link ℝ)) (h : ∀ L ∈ Ls, SymG L.G) (a b : List ℝ) (Vda Vdb : V6 ℝ) :
    energyForm Ls a b Vda Vdb = energyForm Ls b a Vdb Vda := by
  induction Ls generalizing a b Vda Vdb with
  | nil => cases a <;> cases b <;> simp [energyForm]
  | cons L Ls ih =>
    cases a with
    | nil => cases b <;> simp [energyForm]
    | cons a0 as =>
      cases b with
      | nil => simp [energyForm]
      | cons b0 bs =>
        simp only [energyForm]
        rw [ih (fun L' hL' => h L' (List.mem_cons_of_mem _ hL')), h L (by simp), V6_dot_comm]

/-- the energy form is non-negative on the diagonal when every link inertia is positive semi-definite -/
theorem energyForm_nonneg (Ls : List (Link ℝ)) (h : ∀ L ∈ Ls, ∀ v, 0 ≤ quad L.G v) (a : List ℝ) (Vda : V6 ℝ) :
    0 ≤ energyForm Ls a a Vda Vda := by
  induction Ls generalizing a Vda with
  | nil => cases a <;> simp [energyForm]
  | cons L Ls ih =>
    cases a with
    | nil => simp [energyForm]
    | cons a0 as =>
      simp only [energyForm]
      have h1 := h L (by simp) (L.AdT.mulVec Vda + V6.smul a0 L.A)
      unfold quad at h1
      rw [V6_dot_comm] at h1
      have h2 := ih (fun L' hL' => h L' (List.mem_cons_of_mem _ hL')) as (L.AdT.mulVec Vda + V6.smul a0 L.A)
      linarith

/-- the mass-matrix response of the recursion: torques of the zero-velocity, zero-gravity, zero-tip-wrench run -/
noncomputable def massResponse (Ls : List (Link ℝ)) (a : List ℝ) : List ℝ :=
  (idyn Ls ((a.map fun _ => (0 : ℝ)).zip a) v6zero v6zero v6zero).1

theorem V6_dot_zero_right (u : V6 ℝ) : V6.dot u v6zero = 0 := by
  obtain ⟨⟨u1, u2, u3⟩, ⟨u4, u5, u6⟩⟩ := u; simp only [v6zero]; m3simp; ring

/-- **M is symmetric**: (M a)·b = (M b)·a for the mass matrix the recursion defines, when the link inertias are symmetric -/
theorem mass_symmetric (Ls : List (Link ℝ)) (h : ∀ L ∈ Ls, SymG L.G) (a b : List ℝ) (hab : b.length = a.length) :
    dotL (massResponse Ls a) b = dotL (massResponse Ls b) a := by
  have h1 := zero_velocity_power Ls a b hab v6zero v6zero
  have h2 := zero_velocity_power Ls b a hab.symm v6zero v6zero
  rw [V6_dot_zero_right, add_zero] at h1 h2
  unfold massResponse
  rw [h1, h2, energyForm_symm Ls h]

/-- **M is positive semi-definite**: aᵀ M a ≥ 0 for the mass matrix the recursion defines, when the link inertias are -/
theorem mass_nonneg (Ls : List (Link ℝ)) (h : ∀ L ∈ Ls, ∀ v, 0 ≤ quad L.G v) (a : List ℝ) :
    0 ≤ dotL (massResponse Ls a) a := by
  have h1 := zero_velocity_power Ls a a rfl v6zero v6zero
  rw [V6_dot_zero_right, add_zero] at h1
  unfold massResponse
  rw [h1]
  exact energyForm_nonneg Ls h a v6zero

end BR.C08M
