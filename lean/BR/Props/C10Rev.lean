/-
  C10 — "a verdict of 'valid' implies that every enabled constraint holds", for the REVERSED forward kinematics.

  FK(L, reverse=True) solves and validates with the bottom plate fixed, then re-expresses the result with the old top plate held
  fixed: both plates are moved by one rigid motion G (top ↦ saved top, bottom ↦ saved top · inv(relative pose)) through a public IK
  call whose own verdict is discarded; the verdict returned is the one obtained BEFORE the move.  It is still true of the state left
  behind, because every constraint the platform checks is a function of the relative plate pose and the plate-fixed joint
  coordinates only (theorem `allHold_rigid`, over ℝ, for rigid plate poses): the IK inside the re-expression finds every enabled
  constraint satisfied, takes no corrective action (`validate_noop`) and leaves exactly the moved state.
-/
import BR.Props.C10
import BR.Props.C09
import BR.Props.C06Body

namespace BR.C10R
open BR BR.SP BR.MR BR.Rot BR.C10 OrdField Scalar

/-- `validate()` on a state that meets every enabled constraint: verdict true, no corrective action, no solver call
    (any scalar instance) -/
theorem validate_noop {α : Type} [Scalar α] (p : Par α) (s : St α) (o : List (Sol α)) (h : AllHold p s) :
    validate p s o = some (true, s, o) := by
  obtain ⟨h0, h1, h2, h3, h4⟩ := h
  unfold validate vLegs
  cases hs0 : s.set0
  · simp only [Bool.false_eq_true, ↓reduceIte, h0, Bool.not_false]
    unfold vStage
    cases hs1 : s.set1 <;> cases hs2 : s.set2 <;> cases hs3 : s.set3 <;> simp_all
  · simp only [↓reduceIte, h1 hs0, h0, Bool.not_false]
    unfold vStage
    cases hs1 : s.set1 <;> cases hs2 : s.set2 <;> cases hs3 : s.set3 <;> simp_all

theorem transInv_mul_rev (A B : T4 ℝ) (hA : A.R.T * A.R = M3.one) : transInv (A * B) = transInv B * transInv A := by
  obtain ⟨R, p⟩ := A; obtain ⟨S, q⟩ := B
  obtain ⟨a, b, c, d, e, f, g, h, i⟩ := R
  obtain ⟨x, y, z⟩ := p
  obtain ⟨a', b', c', d', e', f', g', h', i'⟩ := S
  obtain ⟨x', y', z'⟩ := q
  revert hA
  m3simp
  rintro ⟨e1, e2, e3, e4, e5, e6, e7, e8, e9⟩
  refine ⟨⟨?_, ?_, ?_, ?_, ?_, ?_, ?_, ?_, ?_⟩, ?_, ?_, ?_⟩ <;> try ring1
  · linear_combination (-a' * x') * e1 + (-d' * x') * e2 + (-g' * x') * e3 + (-a' * y') * e4 + (-d' * y') * e5 + (-g' * y') * e6 + (-a' * z') * e7 + (-d' * z') * e8 + (-g' * z') * e9
  · linear_combination (-b' * x') * e1 + (-e' * x') * e2 + (-h' * x') * e3 + (-b' * y') * e4 + (-e' * y') * e5 + (-h' * y') * e6 + (-b' * z') * e7 + (-e' * z') * e8 + (-h' * z') * e9
  · linear_combination (-c' * x') * e1 + (-f' * x') * e2 + (-i' * x') * e3 + (-c' * y') * e4 + (-f' * y') * e5 + (-i' * y') * e6 + (-c' * z') * e7 + (-f' * z') * e8 + (-i' * z') * e9

/-- the relative pose of two plates moved by one rigid motion is unchanged -/
theorem rel_rigid (G Tb Tt : T4 ℝ) (hG : IsRot G.R) : transInv (G * Tb) * (G * Tt) = transInv Tb * Tt := by
  rw [transInv_mul_rev G Tb hG.1, T4_mul_assoc, ← T4_mul_assoc (transInv G) G Tt, BR.C01.transInv_mul G hG.1, T4_one_mul]

theorem zip3With_congr {β γ δ ε : Type} (f f' : β → γ → δ → ε) {κ : Type} (a a' : κ → β) (b b' : κ → γ)
    (hf : ∀ k h, f (a k) (b k) h = f' (a' k) (b' k) h) (l : List κ) (H : List δ) :
    zip3With f (l.map a) (l.map b) H = zip3With f' (l.map a') (l.map b') H := by
  induction l generalizing H with
  | nil => simp [zip3With]
  | cons k ks ih =>
    cases H with
    | nil => simp [zip3With]
    | cons h hs => simp only [List.map_cons, zip3With, hf k h, ih hs]

theorem ikP_rel (s : St ℝ) (Tt Tb : T4 ℝ) : (ikP s Tt Tb).rel = transInv Tb * Tt := rfl

/-- every constraint of the platform is invariant under moving both plates by one rigid motion -/
theorem allHold_rigid (p : Par ℝ) (s : St ℝ) (G : T4 ℝ) (hs : Coh s) (hG : IsRot G.R) (hb : IsRot s.Tb.R)
    (h : AllHold p s) : AllHold p (ikP s (G * s.Tt) (G * s.Tb)) := by
  obtain ⟨cbs, cts, clens, crel⟩ := hs
  obtain ⟨h0, h1, h2, h3, h4⟩ := h
  have hrel : transInv (G * s.Tb) * (G * s.Tt) = s.rel := by rw [rel_rigid G _ _ hG, crel]
  have hGb : IsRot (G * s.Tb).R := isRot_mul hG hb
  -- leg lengths
  have hlens : (ikP s (G * s.Tt) (G * s.Tb)).lens = s.lens := by
    show (spIK (G * s.Tb) (G * s.Tt) s.legs).map (·.1) = s.lens
    have := BR.C09.ik_rigid_invariant G s.Tb s.Tt hG s.legs
    unfold lengths at this
    rw [this, clens]
    unfold spIK trVec
    simp [List.map_map, Function.comp_def]
  refine ⟨?_, ?_, ?_, ?_, ?_⟩
  · -- distance between the plate origins
    have e : (G * s.Tb).p - (G * s.Tt).p = G.R.mulVec (s.Tb.p - s.Tt.p) := by
      obtain ⟨R, q⟩ := G
      obtain ⟨Rb, pb⟩ := s.Tb
      obtain ⟨Rt, pt⟩ := s.Tt
      cases R; cases q; cases pb; cases pt
      show (T4.mul _ _).p - (T4.mul _ _).p = _
      unfold T4.mul
      m3ring
    unfold distC at h0 ⊢
    rw [ikP_Tb, ikP_Tt, e, norm3_rot _ hG]
    exact h0
  · intro hs0
    have := h1 hs0
    unfold legC at this ⊢
    rw [hlens]; exact this
  · intro hs1
    have := h2 hs1
    unfold contC at this ⊢
    rw [ikP_Tb, ikP_Tt, rel_rigid G _ _ hG]; exact this
  · intro hs2
    have := h3 hs2
    unfold intC at this ⊢
    have hja : jointAngles (ikP s (G * s.Tt) (G * s.Tb)) = jointAngles s := by
      unfold jointAngles
      show zip3With _ ((spIK (G * s.Tb) (G * s.Tt) s.legs).map (·.2.1)) ((spIK (G * s.Tb) (G * s.Tt) s.legs).map (·.2.2)) s.homeB ++
           zip3With _ ((spIK (G * s.Tb) (G * s.Tt) s.legs).map (·.2.1)) ((spIK (G * s.Tb) (G * s.Tt) s.legs).map (·.2.2)) s.homeT = _
      rw [cbs, cts]
      unfold spIK trVec
      simp only [List.map_map, Function.comp_def]
      congr 1
      · apply zip3With_congr
        intro l hh
        show angleBetween ((transInv (G * s.Tb)).act ((G * s.Tt).act l.t)) ((transInv (G * s.Tb)).act ((G * s.Tb).act l.b)) hh
           = angleBetween ((transInv s.Tb).act (s.Tt.act l.t)) ((transInv s.Tb).act (s.Tb.act l.b)) hh
        rw [← BR.C09.act_mul, ← BR.C09.act_mul, ← BR.C09.act_mul, ← BR.C09.act_mul, rel_rigid G _ _ hG,
          BR.C01.transInv_mul _ hGb.1, BR.C01.transInv_mul _ hb.1]
      · apply zip3With_congr
        intro l hh
        show angleBetween ((transInv (G * s.Tt)).act ((G * s.Tb).act l.b)) ((transInv (G * s.Tt)).act ((G * s.Tt).act l.t)) hh
           = angleBetween ((transInv s.Tt).act (s.Tb.act l.b)) ((transInv s.Tt).act (s.Tt.act l.t)) hh
        rw [← BR.C09.act_mul, ← BR.C09.act_mul, ← BR.C09.act_mul, ← BR.C09.act_mul, rel_rigid G _ _ hG]
        -- inv(G·Tt)·(G·Tt) and inv(Tt)·Tt act alike on l.t without needing Tt rigid: both equal inv(·)·(·) of the same pair
        rw [rel_rigid G s.Tt s.Tt hG]
    rw [hja]; exact this
  · intro hs3
    have := h4 hs3
    unfold rotC at this ⊢
    rw [ikP_rel]
    rw [hrel]; exact this

/-- **the verdict of a reversed FK is sound**: if the state that was solved and validated (verdict true) has rigid plate poses and
    the saved top pose is rigid, the re-expression returns the same verdict, takes no corrective action, puts the top plate back
    where it was, keeps the relative pose — and every enabled constraint holds of the state it leaves -/
theorem fkReverse_sound (p : Par ℝ) (savedTop top : T4 ℝ) (s : St ℝ) (o : List (Sol ℝ)) (hs : Coh s) (hA : AllHold p s)
    (hb : IsRot s.Tb.R) (ht : IsRot s.Tt.R) (hS : IsRot savedTop.R) :
    ∃ s', fkReverse p savedTop top true s o = some (top, true, s', o) ∧ AllHold p s' ∧ s'.Tt = savedTop ∧ s'.rel = s.rel ∧ Coh s' := by
  obtain ⟨cbs, cts, clens, crel⟩ := hs
  set G := savedTop * transInv s.Tt with hGdef
  have hG : IsRot G.R := isRot_mul hS (isRot_T ht)
  have e1 : G * s.Tt = savedTop := by
    rw [hGdef, T4_mul_assoc, BR.C01.transInv_mul _ ht.1, T4_mul_one]
  have e2 : savedTop * transInv s.rel = G * s.Tb := by
    have hTbT : (transInv s.Tb).R.T * (transInv s.Tb).R = M3.one := (isRot_T hb).1
    rw [crel, transInv_mul_rev _ _ hTbT, BR.C06B.transInv_transInv _ hb, hGdef, T4_mul_assoc]
  have hAll := allHold_rigid p s G ⟨cbs, cts, clens, crel⟩ hG hb hA
  rw [e1, ← e2] at hAll
  refine ⟨ikP s savedTop (savedTop * transInv s.rel), ?_, hAll, rfl, ?_, coh_ikP _ _ _⟩
  · unfold fkReverse ik
    rw [validate_noop p _ o hAll]
  · show transInv (savedTop * transInv s.rel) * savedTop = s.rel
    rw [e2]
    conv_lhs => rw [← e1]
    rw [rel_rigid G _ _ hG, crel]

/-- the verdict a reversed FK returns is the verdict of the validation that preceded the re-expression -/
theorem fkReverse_verdict (p : Par ℝ) (savedTop top : T4 ℝ) (v : Bool) (s : St ℝ) (o : List (Sol ℝ))
    {t' : T4 ℝ} {v' : Bool} {s' : St ℝ} {o' : List (Sol ℝ)} (h : fkReverse p savedTop top v s o = some (t', v', s', o')) : v' = v := by
  unfold fkReverse at h
  split at h
  · simp at h
  · simp only [Option.some.injEq, Prod.mk.injEq] at h
    exact h.2.1.symm

/-- **a reversed, unprotected FK that reports 'valid' leaves a state in which every enabled constraint holds**, provided the plate
    poses it solved for are rigid transforms (hypothesis `hrig`: the solver oracles return six-vectors, which the platform turns into
    rigid transforms; the pose an upside-down repair arrives at is an oracle whose rigidity is assumed here and observed on the
    implementation) and the top pose it started from is rigid -/
theorem fk_reverse_sound (p : Par ℝ) (s : St ℝ) (L : List ℝ) (o : List (Sol ℝ)) (hS : IsRot s.Tt.R)
    (hrig : ∀ top1 s1 o1 v s2 o2, fkCore p s L o false = some (top1, s1, o1) → validate p s1 o1 = some (v, s2, o2) →
      IsRot s2.Tb.R ∧ IsRot s2.Tt.R)
    {top : T4 ℝ} {s' : St ℝ} {o' : List (Sol ℝ)} (h : fk p s L true false o = some (top, true, s', o')) :
    AllHold p s' ∧ s'.Tt = s.Tt := by
  unfold fk fkAt at h
  simp only [↓reduceIte] at h
  split at h
  · simp at h
  · rename_i top1 s1 o1 hc
    have hc : fkCore p s L o false = some (top1, s1, o1) := hc
    have h1 := fkCore_coh p s L o false hc
    simp only [Bool.false_eq_true, ↓reduceIte] at h
    split at h
    · simp at h
    · rename_i v2 s2 o2 hv
      have h2 := validate_coh p s1 o1 h1 hv
      have hvt : v2 = true := (fkReverse_verdict p _ _ _ _ _ h).symm
      subst hvt
      have hA := validate_sound p s1 o1 hv
      obtain ⟨hb, ht⟩ := hrig _ _ _ _ _ _ hc hv
      obtain ⟨s'', e, hAll, hTt, _, _⟩ := fkReverse_sound p s.Tt top1 s2 o2 h2 hA hb ht hS
      rw [e] at h
      simp only [Option.some.injEq, Prod.mk.injEq] at h
      obtain ⟨_, _, rfl, _⟩ := h
      exact ⟨hAll, hTt⟩

/-! ### non-vacuity -/

noncomputable def I4 : T4 ℝ := ⟨⟨1, 0, 0, 0, 1, 0, 0, 0, 1⟩, ⟨0, 0, 0⟩⟩
noncomputable def Up : T4 ℝ := ⟨⟨1, 0, 0, 0, 1, 0, 0, 0, 1⟩, ⟨0, 0, 1⟩⟩
noncomputable def s0 : St ℝ :=
  { legs := [], homeB := [], homeT := [], Tb := I4, Tt := Up, bs := [], ts := [], lens := [],
    rel := transInv I4 * Up, set0 := true, set1 := true, set2 := true, set3 := true, fkMode := 1, repaired := false }
noncomputable def p0 : Par ℝ := { lmin := 1, lmax := 2, safety := 0, nominalH := 1, rotLimit := 0, deflMax := 1 }

/-- non-vacuity: a concrete coherent state … -/
example : Coh s0 := by
  unfold Coh s0; simp

/-- … meeting every enabled constraint, with rigid plates: the hypotheses of `fkReverse_sound` are satisfiable -/
example : AllHold p0 s0 := by
  refine ⟨?_, ?_, ?_, ?_, ?_⟩
  · unfold distC s0 p0 I4 Up
    simp only [decide_eq_false_iff_not, not_lt]
    have : norm3 ((⟨0, 0, 0⟩ : V3 ℝ) - ⟨0, 0, 1⟩) = 1 := by
      unfold norm3; show Real.sqrt _ = 1
      m3simp; norm_num
    rw [this]; norm_num
  · intro _; unfold legC s0; simp
  · intro _; unfold contC s0 I4 Up transInv
    simp only [Bool.not_eq_true', decide_eq_false_iff_not, not_lt]
    m3simp; norm_num
  · intro _; unfold intC jointAngles s0; simp [zip3With]
  · intro _; unfold rotC s0 p0 I4 Up transInv
    simp only [Bool.not_eq_true', Bool.or_eq_false_iff, decide_eq_false_iff_not, not_le]
    m3simp; norm_num

end BR.C10R
