/-
  C18 — "gap-closing steps advance by exactly the requested amount toward the goal": the arc variant.

  closeArcGap(origin, goal, δ) = origin @ TAAtoTM(δ · d/|d|), d = goal − origin (six-vector difference).
  Measured by the library's own arcDistance (norm of the pose of the result relative to the origin) the step is
  exactly |δ| long, and the relative pose is a multiple of d.  Side conditions, explicit: the rotation part of the step
  is zero or has a norm in [1e-6, π) (inside the cut-off band the library's exponential snaps to the identity and the
  rotational part of the step is lost), and the result's rotation is outside that band too (`AngleOK`).
-/
import BR.Props.C18
import BR.Props.C01
import BR.Props.C03

namespace BR.C18A
open BR.MR BR.Rot BR.TmModel BR.Helpers BR.C18 OrdField Scalar

/-- log3 ∘ exp3 on rotation vectors that are zero or outside the cut-off band and below π -/
theorem log3_exp3' (w : V3 ℝ) (h : w = ⟨0, 0, 0⟩ ∨ ((1e-6 : ℝ) ≤ norm3 w ∧ norm3 w < Real.pi)) :
    vee (matrixLog3 (matrixExp3 (hat w))) = w := by
  rcases h with h | ⟨h1, h2⟩
  · subst h
    have h0 : norm3 (⟨0, 0, 0⟩ : V3 ℝ) < (1e-6 : ℝ) := by
      unfold norm3; show Real.sqrt _ < _; norm_num
    rw [BR.C01.log3_exp3_small _ h0]; simp [vee, M3.zero]
  · rw [BR.C01.log3_exp3 w h1 h2, BR.Rot.vee_hat]

/-- the pose of `o @ TAAtoTM(v)` relative to `o` is `v` -/
theorem rel_of_step (o v : V6 ℝ)
    (hv : v.b = ⟨0, 0, 0⟩ ∨ ((1e-6 : ℝ) ≤ norm3 v.b ∧ norm3 v.b < Real.pi))
    (hA : BR.C03.AngleOK (taaToTM o * taaToTM v).R) :
    globalToLocalTAA o (ofTM (taaToTM o * taaToTM v)).TAA = v := by
  have hRo : IsRot (matrixExp3 (hat o.b)) := exp3_isRot o.b
  have hRv : IsRot (matrixExp3 (hat v.b)) := exp3_isRot v.b
  have hX : IsRot (matrixExp3 (hat o.b) * matrixExp3 (hat v.b)) := isRot_mul hRo hRv
  have hXR : (taaToTM o * taaToTM v).R = matrixExp3 (hat o.b) * matrixExp3 (hat v.b) := rfl
  have hXp : (taaToTM o * taaToTM v).p = (matrixExp3 (hat o.b)).mulVec v.a + o.a := rfl
  rw [hXR] at hA
  unfold globalToLocalTAA ofTM tmToTAA
  simp only [hXR, hXp]
  rw [hat_vee_log3, BR.Rot.exp3_log3 _ hX hA, ← M3.mul_assoc', hRo.1]
  have h1 : (M3.one : M3 ℝ) * matrixExp3 (hat v.b) = matrixExp3 (hat v.b) := by
    generalize matrixExp3 (hat v.b) = E
    obtain ⟨a1, a2, a3, a4, a5, a6, a7, a8, a9⟩ := E
    m3ring
  have hone : (1 : M3 ℝ) = M3.one := rfl
  rw [h1, log3_exp3' v.b hv]
  have hpos : (matrixExp3 (hat o.b)).T.mulVec ((matrixExp3 (hat o.b)).mulVec v.a + o.a - o.a) = v.a := by
    have hTR := hRo.1
    generalize matrixExp3 (hat o.b) = R at hTR
    obtain ⟨a1, a2, a3, a4, a5, a6, a7, a8, a9⟩ := R
    obtain ⟨⟨x, y, z⟩, vb⟩ := v
    obtain ⟨⟨ox, oy, oz⟩, ob⟩ := o
    revert hTR
    m3simp
    rintro ⟨e1, e2, e3, e4, e5, e6, e7, e8, e9⟩
    refine ⟨?_, ?_, ?_⟩
    · linear_combination x * e1 + y * e2 + z * e3
    · linear_combination x * e4 + y * e5 + z * e6
    · linear_combination x * e7 + y * e8 + z * e9
  rw [hpos]

theorem norm6_unit (d : V6 ℝ) (hn : norm6 d ≠ 0) : norm6 (V6.sdiv d (norm6 d)) = 1 := by
  have hpos : 0 < norm6 d := lt_of_le_of_ne (Real.sqrt_nonneg _) (Ne.symm hn)
  have : V6.sdiv d (norm6 d) = V6.smul (1 / norm6 d) d := by
    generalize norm6 d = N at hn hpos
    obtain ⟨⟨a1, a2, a3⟩, ⟨a4, a5, a6⟩⟩ := d
    m3simp
    refine ⟨⟨?_, ?_, ?_⟩, ?_, ?_, ?_⟩ <;> field_simp
  rw [this, norm6_smul, abs_of_pos (by positivity)]
  field_simp

/-- **closeArcGap advances by exactly |δ| in arc distance, along the direction of goal − origin** -/
theorem closeArcGap_advance (o g : V6 ℝ) (δ : ℝ) (isZero : ℝ → Bool) (X : T4 ℝ)
    (hz : ∀ x, isZero x = true ↔ x = 0) (h : closeArcGap o g δ isZero = some X)
    (hv : (V6.smul δ (V6.sdiv (g - o) (norm6 (g - o)))).b = ⟨0, 0, 0⟩ ∨
          ((1e-6 : ℝ) ≤ norm3 (V6.smul δ (V6.sdiv (g - o) (norm6 (g - o)))).b ∧
           norm3 (V6.smul δ (V6.sdiv (g - o) (norm6 (g - o)))).b < Real.pi))
    (hA : BR.C03.AngleOK X.R) :
    arcDistance o (ofTM X).TAA = |δ| ∧
    globalToLocalTAA o (ofTM X).TAA = V6.smul (δ / norm6 (g - o)) (g - o) := by
  unfold closeArcGap at h
  simp only at h
  split_ifs at h with h0
  have hn : norm6 (g - o) ≠ 0 := fun hh => h0 ((hz _).mpr hh)
  cases h
  have hrel := rel_of_step o _ hv hA
  constructor
  · unfold arcDistance
    rw [hrel, norm6_smul, norm6_unit _ hn, mul_one]
  · rw [hrel]
    have hpos : 0 < norm6 (g - o) := lt_of_le_of_ne (Real.sqrt_nonneg _) (Ne.symm hn)
    generalize norm6 (g - o) = N at hn hpos
    generalize g - o = d
    obtain ⟨⟨a1, a2, a3⟩, ⟨a4, a5, a6⟩⟩ := d
    m3simp
    refine ⟨⟨?_, ?_, ?_⟩, ?_, ?_, ?_⟩ <;> field_simp

/-- when origin and goal coincide the goal itself is returned (model: `none`) -/
theorem closeArcGap_at_goal (o : V6 ℝ) (δ : ℝ) (isZero : ℝ → Bool) (hz : ∀ x, isZero x = true ↔ x = 0) :
    closeArcGap o o δ isZero = none := by
  unfold closeArcGap
  simp only
  have : norm6 (o - o) = 0 := by
    obtain ⟨⟨a1, a2, a3⟩, ⟨a4, a5, a6⟩⟩ := o
    unfold norm6
    show Real.sqrt _ = 0
    m3simp
    simp
  rw [if_pos ((hz _).mpr this)]

/-- non-vacuity: a pure translation step of length 1/2 from the origin towards (1,0,0) meets the hypotheses -/
example : (V6.smul (1/2 : ℝ) (⟨⟨1, 0, 0⟩, ⟨0, 0, 0⟩⟩ : V6 ℝ)).b = ⟨0, 0, 0⟩ := by
  simp [V6.smul, V3.smul]

end BR.C18A
