/-
  C15 — the planner's collision test equals exact segment-versus-box intersection.
  Property theorems only.  `obstruction{0,1,2}_gen` are REGENERATED from
  basic_robotics/path_planning/pathplanner.py on every run (BR/Gen/C15.lean).
-/
import BR.Real
import BR.Gen.C15
import BR.Lemmas.SegBox

namespace BR.C15
open BR.Gen OrdField

theorem ite_false_true_iff (c : Prop) [Decidable c] (b : Bool) :
    (if c then false else b) = true ↔ ¬c ∧ b = true := by
  split_ifs with h <;> simp [h]

theorem ite_or_lift (c : Prop) [Decidable c] (T X Y : Bool) (h : X = (Y || T)) :
    (if c then T else X) = ((if c then false else Y) || T) := by
  split_ifs <;> simp [h]

variable {K : Type} [Field K] [LinearOrder K] [IsStrictOrderedRing K]

/-- Specification: the closed segment p1→p2 meets the closed axis-aligned box with corners lo, hi. -/
def SegHitsBox (p1x p1y p1z p2x p2y p2z lox loy loz hix hiy hiz : K) : Prop :=
  ∃ t : K, (0 ≤ t ∧ t ≤ 1) ∧
    (min lox hix ≤ p1x + t * (p2x - p1x) ∧ p1x + t * (p2x - p1x) ≤ max lox hix) ∧
    (min loy hiy ≤ p1y + t * (p2y - p1y) ∧ p1y + t * (p2y - p1y) ≤ max loy hiy) ∧
    (min loz hiz ≤ p1z + t * (p2z - p1z) ∧ p1z + t * (p2z - p1z) ≤ max loz hiz)

set_option maxRecDepth 100000 in
theorem gen1_iff_sat (p1x p1y p1z p2x p2y p2z lox loy loz hix hiy hiz : K) :
    @obstruction1_gen K (OrdField.ofField K) p1x p1y p1z p2x p2y p2z lox loy loz hix hiy hiz = true ↔
    (|(p1x+p2x)/2 - (hix+lox)/2| ≤ |hix - (hix+lox)/2| + |(p1x-p2x)/2| ∧ 
     |(p1y+p2y)/2 - (hiy+loy)/2| ≤ |hiy - (hiy+loy)/2| + |(p1y-p2y)/2| ∧ 
     |(p1z+p2z)/2 - (hiz+loz)/2| ≤ |hiz - (hiz+loz)/2| + |(p1z-p2z)/2| ∧ 
     |((p1y+p2y)/2 - (hiy+loy)/2) * ((p1z-p2z)/2) - ((p1z+p2z)/2 - (hiz+loz)/2) * ((p1y-p2y)/2)| ≤ 
        |hiy - (hiy+loy)/2| * |(p1z-p2z)/2| + |hiz - (hiz+loz)/2| * |(p1y-p2y)/2| ∧
     |((p1x+p2x)/2 - (hix+lox)/2) * ((p1z-p2z)/2) - ((p1z+p2z)/2 - (hiz+loz)/2) * ((p1x-p2x)/2)| ≤ 
        |hix - (hix+lox)/2| * |(p1z-p2z)/2| + |hiz - (hiz+loz)/2| * |(p1x-p2x)/2| ∧
     |((p1x+p2x)/2 - (hix+lox)/2) * ((p1y-p2y)/2) - ((p1y+p2y)/2 - (hiy+loy)/2) * ((p1x-p2x)/2)| ≤ 
        |hix - (hix+lox)/2| * |(p1y-p2y)/2| + |hiy - (hiy+loy)/2| * |(p1x-p2x)/2|) := by
  unfold obstruction1_gen
  simp only [sabs_field, ofNat_field, ite_false_true_iff, not_lt, and_true]
  ring_nf

/-- **C15, one box.** The traced collision test answers `true` exactly when the closed segment
    meets the closed box — every segment (zero-length, axis-parallel, touching, piercing,
    contained), every box (corners in any order), over any linear ordered field. -/
theorem obstructedBox_iff (p1x p1y p1z p2x p2y p2z lox loy loz hix hiy hiz : K) :
    @obstruction1_gen K (OrdField.ofField K) p1x p1y p1z p2x p2y p2z lox loy loz hix hiy hiz = true ↔
    SegHitsBox p1x p1y p1z p2x p2y p2z lox loy loz hix hiy hiz := by
  rw [gen1_iff_sat, SegBox.sat_iff (abs_nonneg _) (abs_nonneg _) (abs_nonneg _)]
  unfold SegHitsBox
  constructor
  · rintro ⟨s, ⟨hs0, hs1⟩, h1, h2, h3⟩
    refine ⟨(1 - s) / 2, ⟨by linarith, by linarith⟩, ?_, ?_, ?_⟩
    · rw [SegBox.slab_iff]; convert h1 using 2; ring
    · rw [SegBox.slab_iff]; convert h2 using 2; ring
    · rw [SegBox.slab_iff]; convert h3 using 2; ring
  · rintro ⟨t, ⟨ht0, ht1⟩, h1, h2, h3⟩
    rw [SegBox.slab_iff] at h1 h2 h3
    refine ⟨1 - 2 * t, ⟨by linarith, by linarith⟩, ?_, ?_, ?_⟩
    · convert h1 using 2; ring
    · convert h2 using 2; ring
    · convert h3 using 2; ring

/-- the loop over boxes: two boxes = disjunction of the one-box tests (0 boxes: never obstructed) -/
theorem obstruction2_eq_or (p1x p1y p1z p2x p2y p2z ax ay az bx b_y bz cx cy cz dx dy dz : K) :
    @obstruction2_gen K (OrdField.ofField K) p1x p1y p1z p2x p2y p2z ax ay az bx b_y bz cx cy cz dx dy dz =
    (@obstruction1_gen K (OrdField.ofField K) p1x p1y p1z p2x p2y p2z ax ay az bx b_y bz ||
     @obstruction1_gen K (OrdField.ofField K) p1x p1y p1z p2x p2y p2z cx cy cz dx dy dz) := by
  unfold obstruction2_gen
  conv => rhs; arg 1; unfold obstruction1_gen
  iterate 6 refine ite_or_lift _ _ _ _ ?_
  exact (Bool.true_or _).symm

theorem obstruction0_never : obstruction0_gen = false := rfl

/-- **C15, any set of boxes.** The loop over the registered boxes answers `true` exactly when the
    segment meets at least one box (the loop structure itself is tied by `obstruction2_eq_or`
    and `obstruction0_never`, regenerated from the source with 0, 1 and 2 symbolic boxes). -/
theorem obstruction_iff_any (p1x p1y p1z p2x p2y p2z : K) (boxes : List ((K × K × K) × (K × K × K))) :
    (boxes.any fun b => @obstruction1_gen K (OrdField.ofField K) p1x p1y p1z p2x p2y p2z
        b.1.1 b.1.2.1 b.1.2.2 b.2.1 b.2.2.1 b.2.2.2) = true ↔
    ∃ b ∈ boxes, SegHitsBox p1x p1y p1z p2x p2y p2z b.1.1 b.1.2.1 b.1.2.2 b.2.1 b.2.2.1 b.2.2.2 := by
  simp only [List.any_eq_true, obstructedBox_iff]

/-! Non-vacuity: a piercing, a touching (boundary contact only) and a missing segment. -/
example : SegHitsBox (K := ℚ) (-2) 0 0 2 0 0 (-1) (-1) (-1) 1 1 1 :=
  ⟨1 / 2, by norm_num, by norm_num, by norm_num, by norm_num⟩
example : SegHitsBox (K := ℚ) 1 (-2) 0 1 2 0 (-1) (-1) (-1) 1 1 1 :=
  ⟨1 / 2, by norm_num, by norm_num, by norm_num, by norm_num⟩
example : ¬ SegHitsBox (K := ℚ) 2 (-2) 0 2 2 0 (-1) (-1) (-1) 1 1 1 := by
  rintro ⟨t, _, ⟨_, h⟩, _⟩
  norm_num at h
example : @obstruction1_gen ℚ (OrdField.ofField ℚ) 1 (-2) 0 1 2 0 (-1) (-1) (-1) 1 1 1 = true := by
  rw [obstructedBox_iff]; exact ⟨1 / 2, by norm_num, by norm_num, by norm_num, by norm_num⟩

end BR.C15
