/-
  C03 / C01 (cut-off band) — inside the exponential's 1e-6 band the library's exp∘log is not the identity by design; this
  file bounds what is lost: for a rotation R whose angle θ lies in (0, 1e-6), every entry of R − exp(log R) is at most
  θ + θ²/2 in absolute value (so a `tm` built from such a matrix is coherent to 1e-6·(1 + 5e-7)).
-/
import Mathlib.Analysis.SpecialFunctions.Trigonometric.Bounds
import BR.Lemmas.SO3
import BR.Lemmas.SE3

namespace BR.C03B
open BR.MR BR.Rot OrdField Scalar

theorem abs_le_one_of_sq {x s : ℝ} (h : x ^ 2 ≤ s) (hs : s ≤ 1) : |x| ≤ 1 := by
  rw [abs_le]; constructor <;> nlinarith [sq_nonneg (x - 1), sq_nonneg (x + 1)]

/-- every entry of sin θ·[u] + (1 − cos θ)·[u]² is at most θ + θ²/2 in absolute value (u a unit vector, θ ≥ 0) -/
theorem rod_sub_one_entry_bound (u : V3 ℝ) (hu : u.x ^ 2 + u.y ^ 2 + u.z ^ 2 - 1 = 0) (θ : ℝ) (hθ : 0 ≤ θ) :
    let D := rod u (Real.sin θ) (Real.cos θ) - (1 : M3 ℝ)
    |D.a11| ≤ θ + θ ^ 2 / 2 ∧ |D.a12| ≤ θ + θ ^ 2 / 2 ∧ |D.a13| ≤ θ + θ ^ 2 / 2 ∧
    |D.a21| ≤ θ + θ ^ 2 / 2 ∧ |D.a22| ≤ θ + θ ^ 2 / 2 ∧ |D.a23| ≤ θ + θ ^ 2 / 2 ∧
    |D.a31| ≤ θ + θ ^ 2 / 2 ∧ |D.a32| ≤ θ + θ ^ 2 / 2 ∧ |D.a33| ≤ θ + θ ^ 2 / 2 := by
  obtain ⟨x, y, z⟩ := u
  simp only at hu
  have hs : |Real.sin θ| ≤ θ := by
    rw [abs_le]; constructor
    · have := Real.neg_one_le_sin θ
      by_cases h1 : θ ≤ 1
      · have := Real.sin_nonneg_of_nonneg_of_le_pi hθ (by linarith [Real.two_le_pi])
        linarith
      · linarith
    · exact Real.sin_le hθ
  have hc0 : 0 ≤ 1 - Real.cos θ := by linarith [Real.cos_le_one θ]
  have hc : 1 - Real.cos θ ≤ θ ^ 2 / 2 := by
    have := Real.one_sub_sq_div_two_le_cos (x := θ)
    linarith
  have hx : |x| ≤ 1 := abs_le_one_of_sq (s := 1) (by nlinarith [sq_nonneg y, sq_nonneg z]) le_rfl
  have hy : |y| ≤ 1 := abs_le_one_of_sq (s := 1) (by nlinarith [sq_nonneg x, sq_nonneg z]) le_rfl
  have hz : |z| ≤ 1 := abs_le_one_of_sq (s := 1) (by nlinarith [sq_nonneg x, sq_nonneg y]) le_rfl
  have hxy : |x * y| ≤ 1 := by rw [abs_mul]; nlinarith [abs_nonneg x, abs_nonneg y]
  have hxz : |x * z| ≤ 1 := by rw [abs_mul]; nlinarith [abs_nonneg x, abs_nonneg z]
  have hyz : |y * z| ≤ 1 := by rw [abs_mul]; nlinarith [abs_nonneg y, abs_nonneg z]
  have hd1 : |-(y ^ 2 + z ^ 2)| ≤ 1 := by rw [abs_neg, abs_of_nonneg (by positivity)]; nlinarith [sq_nonneg x]
  have hd2 : |-(x ^ 2 + z ^ 2)| ≤ 1 := by rw [abs_neg, abs_of_nonneg (by positivity)]; nlinarith [sq_nonneg y]
  have hd3 : |-(x ^ 2 + y ^ 2)| ≤ 1 := by rw [abs_neg, abs_of_nonneg (by positivity)]; nlinarith [sq_nonneg z]
  -- a generic entry: s·k + m·q with |k|, |q| ≤ 1
  have key : ∀ k q : ℝ, |k| ≤ 1 → |q| ≤ 1 → |Real.sin θ * k + (1 - Real.cos θ) * q| ≤ θ + θ ^ 2 / 2 := by
    intro k q hk hq
    calc |Real.sin θ * k + (1 - Real.cos θ) * q| ≤ |Real.sin θ * k| + |(1 - Real.cos θ) * q| := abs_add_le _ _
      _ = |Real.sin θ| * |k| + (1 - Real.cos θ) * |q| := by rw [abs_mul, abs_mul, abs_of_nonneg hc0]
      _ ≤ θ * 1 + θ ^ 2 / 2 * 1 := by
          apply add_le_add
          · exact mul_le_mul hs hk (abs_nonneg _) hθ
          · exact mul_le_mul hc hq (abs_nonneg _) (by positivity)
      _ = θ + θ ^ 2 / 2 := by ring
  intro D
  have hD : D = M3.smul (Real.sin θ) (hat ⟨x, y, z⟩) + M3.smul (1 - Real.cos θ) (hat ⟨x, y, z⟩ * hat ⟨x, y, z⟩) := by
    show rod _ _ _ - (1 : M3 ℝ) = _
    rw [rod_eq]
    simp only [M3.smul_eq]
    module
  rw [hD]
  m3simp
  have z0 : |(0 : ℝ)| ≤ 1 := by simp
  refine ⟨?_, ?_, ?_, ?_, ?_, ?_, ?_, ?_, ?_⟩
  · have := key 0 (-(y ^ 2 + z ^ 2)) z0 hd1; convert this using 2; ring
  · have := key (-z) (x * y) (by rw [abs_neg]; exact hz) hxy; convert this using 2; ring
  · have := key y (x * z) hy hxz; convert this using 2; ring
  · have := key z (x * y) hz hxy; convert this using 2; ring
  · have := key 0 (-(x ^ 2 + z ^ 2)) z0 hd2; convert this using 2; ring
  · have := key (-x) (y * z) (by rw [abs_neg]; exact hx) hyz; convert this using 2; ring
  · have := key (-y) (x * z) (by rw [abs_neg]; exact hy) hxz; convert this using 2; ring
  · have := key x (y * z) hx hyz; convert this using 2; ring
  · have := key 0 (-(x ^ 2 + y ^ 2)) z0 hd3; convert this using 2; ring

/-- **loss of exp∘log inside the band**: for a rotation whose angle θ is in (0, 1e-6), R − exp3(log3 R) = R − I and every
    entry is at most θ + θ²/2 < 1e-6·(1 + 5e-7) in absolute value -/
theorem band_roundtrip_bound (R : M3 ℝ) (hR : IsRot R) (hlo : -1 < (R.trace - 1) / 2) (hhi : (R.trace - 1) / 2 < 1)
    (hband : Real.arccos ((R.trace - 1) / 2) < (1e-6 : ℝ)) :
    matrixExp3 (matrixLog3 R) = M3.one ∧
    ∃ θ : ℝ, 0 < θ ∧ θ < 1e-6 ∧
      let D := R - (1 : M3 ℝ)
      |D.a11| ≤ θ + θ ^ 2 / 2 ∧ |D.a12| ≤ θ + θ ^ 2 / 2 ∧ |D.a13| ≤ θ + θ ^ 2 / 2 ∧
      |D.a21| ≤ θ + θ ^ 2 / 2 ∧ |D.a22| ≤ θ + θ ^ 2 / 2 ∧ |D.a23| ≤ θ + θ ^ 2 / 2 ∧
      |D.a31| ≤ θ + θ ^ 2 / 2 ∧ |D.a32| ≤ θ + θ ^ 2 / 2 ∧ |D.a33| ≤ θ + θ ^ 2 / 2 := by
  obtain ⟨w, hw, hnorm, hpos, hlt, hrod⟩ := log3_generic_form R hR hlo hhi
  have hnz : nearZero (norm3 w) := by
    rw [hnorm, nearZero_iff, abs_of_pos hpos]; exact hband
  refine ⟨by rw [hw, exp3_small w hnz], Real.arccos ((R.trace - 1) / 2), hpos, hband, ?_⟩
  have hu : (V3.sdiv w (norm3 w)).x ^ 2 + (V3.sdiv w (norm3 w)).y ^ 2 + (V3.sdiv w (norm3 w)).z ^ 2 - 1 = 0 := by
    have hs := norm3_sq w
    have hne : norm3 w ≠ 0 := by rw [hnorm]; exact ne_of_gt hpos
    simp only [V3.sdiv]
    field_simp
    linarith
  have := rod_sub_one_entry_bound (V3.sdiv w (norm3 w)) hu (norm3 w) (norm3_nonneg w)
  rw [← hrod, hnorm] at this
  exact this

end BR.C03B
