/-
  C06 — "the link-mass variant adds exactly the moment of each link's weight about each joint axis".

  Arm.staticForcesWithLinkMasses walks from the last joint to the first, adding the weight wrench of link i to a carried wrench and
  taking the i-th torque as (column i−1 of the Jacobian) · (carried wrench).  Model: `linkMassTorques`.  Theorems: for chains of any
  length the i-th torque is  Jᵢ·W + Σ_{k ≥ i} Jᵢ·w_k  (tool wrench plus the weights of the links distal to the joint, nothing else), and for
  a revolute screw column Jᵢ = (ω, q × ω) and a weight f acting at p,  Jᵢ·(p × f, f) = ω · ((p − q) × f)  — the moment of the weight
  about the joint axis.
-/
import BR.Props.C06
import BR.Model.ArmStatics

namespace BR.C06L
open BR.MR BR.Rot BR.ArmStatics OrdField Scalar

/-- Σ of a list of wrenches -/
noncomputable def sumW : List (V6 ℝ) → V6 ℝ
  | [] => ⟨⟨0, 0, 0⟩, ⟨0, 0, 0⟩⟩
  | w :: ws => w + sumW ws

theorem V6_add_assoc (a b c : V6 ℝ) : a + b + c = a + (b + c) := by
  obtain ⟨⟨a1, a2, a3⟩, ⟨a4, a5, a6⟩⟩ := a; obtain ⟨⟨b1, b2, b3⟩, ⟨b4, b5, b6⟩⟩ := b
  obtain ⟨⟨c1, c2, c3⟩, ⟨c4, c5, c6⟩⟩ := c; m3ring

theorem V6_add_comm (a b : V6 ℝ) : a + b = b + a := by
  obtain ⟨⟨a1, a2, a3⟩, ⟨a4, a5, a6⟩⟩ := a; obtain ⟨⟨b1, b2, b3⟩, ⟨b4, b5, b6⟩⟩ := b; m3ring

theorem V6_add_zero (a : V6 ℝ) : a + (⟨⟨0, 0, 0⟩, ⟨0, 0, 0⟩⟩ : V6 ℝ) = a := by
  obtain ⟨⟨a1, a2, a3⟩, ⟨a4, a5, a6⟩⟩ := a; m3ring

theorem V6_dot_add_right (u v w : V6 ℝ) : V6.dot u (v + w) = V6.dot u v + V6.dot u w := by
  obtain ⟨⟨u1, u2, u3⟩, ⟨u4, u5, u6⟩⟩ := u; obtain ⟨⟨v1, v2, v3⟩, ⟨v4, v5, v6⟩⟩ := v
  obtain ⟨⟨w1, w2, w3⟩, ⟨w4, w5, w6⟩⟩ := w; m3simp; ring

/-- the carried wrench at joint i is the tool wrench plus the weights of the links from i on -/
theorem carry_eq (W : V6 ℝ) (Js ws : List (V6 ℝ)) (h : Js.length = ws.length) :
    (linkMassAux W Js ws).2 = W + sumW ws := by
  induction Js generalizing ws with
  | nil =>
    cases ws with
    | nil => simp [linkMassAux, sumW, V6_add_zero]
    | cons w ws => simp at h
  | cons J Js ih =>
    cases ws with
    | nil => simp at h
    | cons w ws =>
      simp only [linkMassAux, sumW]
      rw [ih ws (by simpa using h), V6_add_assoc, V6_add_comm (sumW ws) w]

/-- **torque of joint i = Jᵢ · (tool wrench + weights of the links distal to joint i)**, for chains of any length -/
theorem linkMassTorques_get (W : V6 ℝ) (Js ws : List (V6 ℝ)) (h : Js.length = ws.length) (i : Nat) (hi : i < Js.length) :
    (linkMassTorques W Js ws)[i]? = some (V6.dot Js[i] (W + sumW (ws.drop i))) := by
  unfold linkMassTorques
  induction Js generalizing ws i with
  | nil => simp at hi
  | cons J Js ih =>
    cases ws with
    | nil => simp at h
    | cons w ws =>
      have h' : Js.length = ws.length := by simpa using h
      cases i with
      | zero =>
        simp only [linkMassAux, List.getElem?_cons_zero, List.getElem_cons_zero, List.drop_zero, sumW]
        rw [carry_eq W Js ws h', V6_add_assoc, V6_add_comm (sumW ws) w]
      | succ j =>
        simp only [linkMassAux, List.getElem?_cons_succ, List.getElem_cons_succ, List.drop_succ_cons]
        exact ih ws h' j (by simpa using hi)

/-- … hence it is the plain statics torque Jᵢ·W plus, for each distal link, Jᵢ·(weight wrench) and nothing else -/
theorem linkMassTorques_split (W : V6 ℝ) (Js ws : List (V6 ℝ)) (h : Js.length = ws.length) (i : Nat) (hi : i < Js.length) :
    (linkMassTorques W Js ws)[i]? = some (V6.dot Js[i] W + V6.dot Js[i] (sumW (ws.drop i))) := by
  rw [linkMassTorques_get W Js ws h i hi, V6_dot_add_right]

/-- **Jᵢ · (weight wrench) is the moment of the weight about the joint axis**: for a revolute screw column (ω, q × ω) (axis ω
    through the point q) and a force f applied at p,  (ω, q × ω) · (p × f, f) = ω · ((p − q) × f) -/
theorem column_dot_weight (ω q p f : V3 ℝ) :
    V6.dot (⟨ω, V3.cross q ω⟩ : V6 ℝ) ⟨V3.cross p f, f⟩ = V3.dot ω (V3.cross (p - q) f) := by
  obtain ⟨w1, w2, w3⟩ := ω; obtain ⟨q1, q2, q3⟩ := q; obtain ⟨p1, p2, p3⟩ := p; obtain ⟨f1, f2, f3⟩ := f
  m3simp; ring

/-- a weight acting on the joint axis itself loads that joint with nothing -/
theorem column_dot_weight_on_axis (ω q f : V3 ℝ) (t : ℝ) :
    V6.dot (⟨ω, V3.cross q ω⟩ : V6 ℝ) ⟨V3.cross (q + V3.smul t ω) f, f⟩ = 0 := by
  rw [column_dot_weight]
  obtain ⟨w1, w2, w3⟩ := ω; obtain ⟨q1, q2, q3⟩ := q; obtain ⟨f1, f2, f3⟩ := f
  m3simp; ring

/-- non-vacuity: a two-joint instance -/
example : ([⟨⟨0, 0, 1⟩, ⟨0, 0, 0⟩⟩, ⟨⟨0, 1, 0⟩, ⟨0, 0, 1⟩⟩] : List (V6 ℝ)).length =
    ([⟨⟨0, 0, 0⟩, ⟨0, 0, -1⟩⟩, ⟨⟨0, 0, 0⟩, ⟨0, 0, -2⟩⟩] : List (V6 ℝ)).length := rfl

end BR.C06L
