/-
  C13 — loading a URDF preserves the kinematics the file describes.
  Theorems about BR/Model/Urdf.lean at ℝ.
-/
import BR.Lemmas.Chain
import BR.Lemmas.TmLemmas
import BR.Model.Urdf

namespace BR.C13
open BR.MR BR.Rot BR.UrdfModel OrdField Scalar

/-- the screw the loader builds for a joint at accumulated pose Q with axis w is Ad(Q) applied to the
    pure rotation screw (w, 0) -/
theorem loader_screw (Q : T4 ℝ) (w : V3 ℝ) :
    (⟨Q.R.mulVec w, V3.cross Q.p (Q.R.mulVec w)⟩ : V6 ℝ) = (adjoint Q).mulVec ⟨w, ⟨0, 0, 0⟩⟩ := by
  obtain ⟨⟨a, b, c, d, e, f, g, h, i⟩, ⟨x, y, z⟩⟩ := Q
  obtain ⟨w1, w2, w3⟩ := w
  m3ring

/-- the exponential of a pure rotation screw is the rotation about its axis, with no translation -/
theorem exp6_pure_rot (v : V3 ℝ) :
    matrixExp6 (hat6 ⟨v, ⟨0, 0, 0⟩⟩) = ⟨matrixExp3 (hat v), ⟨0, 0, 0⟩⟩ := by
  by_cases hz : nearZero (norm3 v)
  · rw [exp6_translating ⟨v, ⟨0, 0, 0⟩⟩ hz, exp3_small v hz]
  · rw [exp6_rotating ⟨v, ⟨0, 0, 0⟩⟩ hz]
    simp only [T4.mk.injEq, true_and]
    generalize Gmat (M3.sdiv (hat v) (norm3 v)) (norm3 v) = G
    obtain ⟨a, b, c, d, e, f, g, h, i⟩ := G
    m3simp
    simp

/-- rigid documents: every origin transform is rigid -/
def DocOK (js : List (Joint ℝ)) : Prop := ∀ j ∈ js, IsRot j.origin.R

/-- no moving joint is turned by an angle strictly inside the (0, 1e-6) cut-off band -/
def AnglesOK : List (Joint ℝ) → List ℝ → Prop
  | [], _ => True
  | j :: rest, θs =>
    if j.moving then
      match θs with
      | θ :: θs' => (V3.smul θ j.axis = 0 ∨ (1e-6 : ℝ) ≤ norm3 (V3.smul θ j.axis)) ∧ AnglesOK rest θs'
      | [] => False
    else AnglesOK rest θs

theorem isRot_T4_mul {A B : T4 ℝ} (hA : IsRot A.R) (hB : IsRot B.R) : IsRot (A * B).R := isRot_mul hA hB

theorem chainFK_left (A P : T4 ℝ) (js : List (Joint ℝ)) (θs : List ℝ) :
    chainFK (A * P) js θs = A * chainFK P js θs := by
  induction js generalizing P θs with
  | nil => rfl
  | cons j rest ih =>
    simp only [chainFK]
    split_ifs
    · cases θs with
      | nil => simp only; rw [T4_mul_assoc, ih]
      | cons θ θs' => simp only; rw [T4_mul_assoc, T4_mul_assoc, ← T4_mul_assoc P, ih]
    · rw [T4_mul_assoc, ih]

/-- **the loaded arm's product-of-exponentials FK equals the file's own semantics**, for chains of any
    length with fixed joints before, between and after the moving ones (induction over the chain) -/
theorem loader_FK_eq_urdfFK (P : T4 ℝ) (hP : IsRot P.R) (js : List (Joint ℝ)) (hjs : DocOK js) (θs : List ℝ)
    (hlen : θs.length = numDof js) (hang : AnglesOK js θs) :
    fkinSpace (homeOf P js) ((screwsOf P js).zip θs) = chainFK P js θs := by
  induction js generalizing P θs with
  | nil => simp [homeOf, screwsOf, chainFK, fkinSpace]
  | cons j rest ih =>
    have hO : IsRot j.origin.R := hjs j (by simp)
    have hQ : IsRot (P * j.origin).R := isRot_T4_mul hP hO
    have hrest : DocOK rest := fun x hx => hjs x (by simp [hx])
    simp only [homeOf, screwsOf, chainFK]
    by_cases hm : j.moving = true
    · simp only [hm, if_true]
      cases θs with
      | nil => simp [numDof, hm] at hlen
      | cons θ θs' =>
        simp only [AnglesOK, hm, if_true] at hang
        have hl' : θs'.length = numDof rest := by simpa [numDof, hm] using hlen
        simp only [List.zip_cons_cons, fkinSpace]
        rw [ih (P * j.origin) hQ hrest θs' hl' hang.2]
        set Q := P * j.origin with hQd
        -- the joint's exponential is Q · Rot(axis, θ) · Q⁻¹
        have hs : V6.smul θ (⟨Q.R.mulVec j.axis, V3.cross Q.p (Q.R.mulVec j.axis)⟩ : V6 ℝ) =
            (adjoint Q).mulVec ⟨V3.smul θ j.axis, ⟨0, 0, 0⟩⟩ := by
          rw [loader_screw, ← adjoint_smul]
          congr 1
          obtain ⟨a1, a2, a3⟩ := j.axis
          m3simp; simp
        have hok : (⟨V3.smul θ j.axis, ⟨0, 0, 0⟩⟩ : V6 ℝ).a = 0 ∨ (1e-6 : ℝ) ≤ norm3 (⟨V3.smul θ j.axis, ⟨0, 0, 0⟩⟩ : V6 ℝ).a := hang.1
        rw [hs, exp6_conj Q hQ _ hok, exp6_pure_rot]
        rw [T4_mul_assoc, ← chainFK_left, T4_transInv_mul Q hQ, ← chainFK_left]
        congr 1
        rw [T4_mul_one]
        simp only [ofNat_real_zero]
    · have hm' : j.moving = false := by simpa using hm
      simp only [hm', if_false, Bool.false_eq_true]
      have hl' : θs.length = numDof rest := by simpa [numDof, hm'] using hlen
      have ha' : AnglesOK rest θs := by simpa [AnglesOK, hm'] using hang
      exact ih (P * j.origin) hQ hrest θs hl' ha'

/-- number of degrees of freedom = number of moving joints; one screw per moving joint, in file order -/
theorem dof_and_order (P : T4 ℝ) (js : List (Joint ℝ)) : (screwsOf P js).length = numDof js := by
  induction js generalizing P with
  | nil => rfl
  | cons j rest ih =>
    simp only [screwsOf, numDof, List.filter_cons]
    split_ifs with h
    · simp [ih, numDof]
    · simpa [numDof] using ih (P * j.origin)

/-- the origin element is xyz translation with fixed-axis roll-pitch-yaw, i.e. Rz(yaw)·Ry(pitch)·Rx(roll) -/
theorem rpy_origin (xyz rpy : V3 ℝ) :
    (originOf xyz rpy).p = xyz ∧
    (originOf xyz rpy).R = matrixExp3 (hat ⟨0, 0, rpy.z⟩) * matrixExp3 (hat ⟨0, rpy.y, 0⟩) * matrixExp3 (hat ⟨rpy.x, 0, 0⟩) :=
  ⟨rfl, by simp only [originOf, ofNat_real_zero]⟩

theorem origin_isRot (xyz rpy : V3 ℝ) : IsRot (originOf xyz rpy).R :=
  isRot_mul (isRot_mul (exp3_isRot _) (exp3_isRot _)) (exp3_isRot _)

end BR.C13
