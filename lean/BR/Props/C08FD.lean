/-
  C08 — "forward dynamics inverts inverse dynamics".

  ForwardDynamics(θ, θ̇, τ, g, F) = inv(MassMatrix(θ)) · (τ − c(θ, θ̇) − g(θ) − JᵀF)   (np.linalg.inv: an oracle).
  Whatever the oracle returns, if it solves the linear system — the zero-velocity response of the recursion to the returned
  accelerations x equals τ − c − g − JᵀF — then running the inverse dynamics on (θ̇, x) with the same gravity and tip wrench gives
  back τ, for chains of any length and every state.  (The response is the product MassMatrix · x because the zero-velocity run is
  linear in the accelerations: `massResponse_add`, `massResponse_smul`.)
-/
import BR.Props.C08Mass

namespace BR.C08F
open BR.MR BR.Rot BR.Dyn BR.C08 BR.C08M OrdField Scalar

theorem idyn_length (Ls : List (Link ℝ)) (rs : List (ℝ × ℝ)) (Vp Vdp F : V6 ℝ) :
    (idyn Ls rs Vp Vdp F).1.length = min Ls.length rs.length := by
  induction Ls generalizing rs Vp Vdp with
  | nil => simp [idyn]
  | cons L Ls ih =>
    cases rs with
    | nil => simp [idyn]
    | cons r rs =>
      obtain ⟨d, dd⟩ := r
      simp only [idyn, List.length_cons]
      rw [ih]
      omega

theorem addL_length (a b : List ℝ) : (addL a b).length = min a.length b.length := by
  induction a generalizing b with
  | nil => simp [addL]
  | cons x xs ih =>
    cases b with
    | nil => simp [addL]
    | cons y ys => simp only [addL, List.length_cons, ih]; omega

theorem addL_getElem (a b : List ℝ) (i : Nat) (h : i < (addL a b).length) :
    (addL a b)[i] = a[i]'(by rw [addL_length] at h; omega) + b[i]'(by rw [addL_length] at h; omega) := by
  induction a generalizing b i with
  | nil => simp [addL] at h
  | cons x xs ih =>
    cases b with
    | nil => simp [addL] at h
    | cons y ys =>
      cases i with
      | zero => simp [addL]
      | succ j => simp only [addL, List.getElem_cons_succ]; exact ih ys j _

/-- pointwise difference of two lists -/
def subL : List ℝ → List ℝ → List ℝ
  | a :: as, b :: bs => (a - b) :: subL as bs
  | _, _ => []

theorem subL_length (a b : List ℝ) : (subL a b).length = min a.length b.length := by
  induction a generalizing b with
  | nil => simp [subL]
  | cons x xs ih =>
    cases b with
    | nil => simp [subL]
    | cons y ys => simp only [subL, List.length_cons, ih]; omega

theorem subL_getElem (a b : List ℝ) (i : Nat) (h : i < (subL a b).length) :
    (subL a b)[i] = a[i]'(by rw [subL_length] at h; omega) - b[i]'(by rw [subL_length] at h; omega) := by
  induction a generalizing b i with
  | nil => simp [subL] at h
  | cons x xs ih =>
    cases b with
    | nil => simp [subL] at h
    | cons y ys =>
      cases i with
      | zero => simp [subL]
      | succ j => simp only [subL, List.getElem_cons_succ]; exact ih ys j _

/-- list algebra behind the inversion: ((τ − ((c + g) + f)) + c) + g + f = τ for lists of one length -/
theorem addL_cancel (τ c g f : List ℝ) (hc : c.length = τ.length) (hg : g.length = τ.length) (hf : f.length = τ.length) :
    addL (addL (addL (subL τ (addL (addL c g) f)) c) g) f = τ := by
  apply List.ext_getElem
  · simp only [addL_length, subL_length]; omega
  · intro i h1 h2
    have hlen : ∀ {a b : List ℝ}, a.length = τ.length → b.length = τ.length → (addL a b).length = τ.length := by
      intro a b ha hb; rw [addL_length]; omega
    rw [addL_getElem, addL_getElem, addL_getElem, subL_getElem, addL_getElem, addL_getElem]
    ring

/-- **forward dynamics inverts inverse dynamics**: if the accelerations `x` returned by the linear solve satisfy
    M·x = τ − c − g − JᵀF (with the four terms as the library computes them), then InverseDynamics(θ̇, x, gravity, F) = τ -/
theorem inverse_of_forward (Ls : List (Link ℝ)) (dθ x τ : List ℝ) (hx : x.length = dθ.length) (hτ : τ.length = dθ.length)
    (hL : Ls.length = dθ.length) (a F : V6 ℝ)
    (hsolve :
      let zeros := dθ.map fun _ => (0 : ℝ)
      (idyn Ls (zeros.zip x) v6zero v6zero v6zero).1 =
        subL τ (addL (addL (idyn Ls (dθ.zip zeros) v6zero v6zero v6zero).1 (idyn Ls (zeros.zip zeros) v6zero a v6zero).1)
                     (idyn Ls (zeros.zip zeros) v6zero v6zero F).1)) :
    (idyn Ls (dθ.zip x) v6zero a F).1 = τ := by
  have hd := torque_decomposition Ls dθ x hx a F
  simp only at hd hsolve
  rw [hd, hsolve]
  apply addL_cancel <;> rw [idyn_length] <;> simp [hL, hτ]

/-! ### the zero-velocity response is linear, so it is the matrix–vector product MassMatrix · x -/

theorem zip_zeros_eq (a b : List ℝ) (h : b.length = a.length) :
    (a.map fun _ => (0 : ℝ)) = (b.map fun _ => (0 : ℝ)) := by
  induction a generalizing b with
  | nil => cases b with
    | nil => rfl
    | cons y ys => simp at h
  | cons x xs ih =>
    cases b with
    | nil => simp at h
    | cons y ys => simp only [List.map_cons, List.cons.injEq, true_and]; exact ih ys (by simpa using h)

/-- additivity of the mass response -/
theorem massResponse_add (Ls : List (Link ℝ)) (a b : List ℝ) (h : b.length = a.length) :
    massResponse Ls ((a.zip b).map fun p => p.1 + p.2) = addL (massResponse Ls a) (massResponse Ls b) := by
  unfold massResponse
  have hz : (a.map fun _ => (0 : ℝ)).length = a.length := by simp
  have s := (id_superposition Ls (a.map fun _ => (0 : ℝ)) a b (by simp) (by simp [h]) v6zero v6zero v6zero v6zero v6zero).1
  simp only at s
  rw [v6zero_add, map_zero_map_zero] at s
  have e1 : (((a.zip b).map fun p => p.1 + p.2).map fun _ => (0 : ℝ)) = a.map fun _ => (0 : ℝ) := by
    apply zip_zeros_eq; simp [h]
  have e2 : (b.map fun _ => (0 : ℝ)) = a.map fun _ => (0 : ℝ) := zip_zeros_eq b a h.symm
  rw [e1, e2]
  exact s

/-- homogeneity of the zero-velocity run -/
theorem idyn_zero_smul (k : ℝ) (Ls : List (Link ℝ)) (a : List ℝ) (Vd F : V6 ℝ) :
    (idyn Ls ((a.map fun _ => (0 : ℝ)).zip (a.map fun t => k * t)) v6zero (V6.smul k Vd) (V6.smul k F)).1 =
      (idyn Ls ((a.map fun _ => (0 : ℝ)).zip a) v6zero Vd F).1.map (fun t => k * t) ∧
    (idyn Ls ((a.map fun _ => (0 : ℝ)).zip (a.map fun t => k * t)) v6zero (V6.smul k Vd) (V6.smul k F)).2 =
      V6.smul k (idyn Ls ((a.map fun _ => (0 : ℝ)).zip a) v6zero Vd F).2 := by
  induction Ls generalizing a Vd with
  | nil => simp [idyn]
  | cons L Ls ih =>
    cases a with
    | nil => simp [idyn]
    | cons t ts =>
      simp only [List.map_cons, List.zip_cons_cons, idyn]
      have hV : L.AdT.mulVec (v6zero : V6 ℝ) + V6.smul (0 : ℝ) L.A = v6zero := by
        rw [M6_mulVec_zero, v6_smul_zero, v6zero_add']
      rw [hV]
      have hVd : L.AdT.mulVec (V6.smul k Vd) + V6.smul (k * t) L.A + V6.smul (0 : ℝ) ((ad (v6zero : V6 ℝ)).mulVec L.A)
          = V6.smul k (L.AdT.mulVec Vd + V6.smul t L.A + V6.smul (0 : ℝ) ((ad (v6zero : V6 ℝ)).mulVec L.A)) := by
        rw [v6_smul_zero, v6_add_zero', v6_add_zero']
        generalize L.AdT = A
        generalize L.A = s
        obtain ⟨⟨A1, A2, A3, A4, A5, A6, A7, A8, A9⟩, ⟨B1, B2, B3, B4, B5, B6, B7, B8, B9⟩, ⟨C1, C2, C3, C4, C5, C6, C7, C8, C9⟩,
          ⟨D1, D2, D3, D4, D5, D6, D7, D8, D9⟩⟩ := A
        obtain ⟨⟨s1, s2, s3⟩, ⟨s4, s5, s6⟩⟩ := s
        obtain ⟨⟨v1, v2, v3⟩, ⟨v4, v5, v6⟩⟩ := Vd
        m3simp
        refine ⟨⟨?_, ?_, ?_⟩, ?_, ?_, ?_⟩ <;> ring
      rw [hVd]
      obtain ⟨ih1, ih2⟩ := ih ts (L.AdT.mulVec Vd + V6.smul t L.A + V6.smul (0 : ℝ) ((ad (v6zero : V6 ℝ)).mulVec L.A))
      rw [ih1, ih2]
      have hG : (ad (v6zero : V6 ℝ)).T.mulVec (L.G.mulVec v6zero) = v6zero := by
        rw [M6_mulVec_zero, ad_zero]; exact M6_zeroT_mulVec _
      rw [hG, v6_sub_zero, v6_sub_zero]
      set W := L.AdT.mulVec Vd + V6.smul t L.A + V6.smul (0 : ℝ) ((ad (v6zero : V6 ℝ)).mulVec L.A) with hW
      set Fn := (idyn Ls ((ts.map fun _ => (0 : ℝ)).zip ts) v6zero W F).2 with hFn
      have hF : V6.smul k Fn + L.G.mulVec (V6.smul k W) = V6.smul k (Fn + L.G.mulVec W) := by
        generalize L.G = A
        obtain ⟨⟨A1, A2, A3, A4, A5, A6, A7, A8, A9⟩, ⟨B1, B2, B3, B4, B5, B6, B7, B8, B9⟩, ⟨C1, C2, C3, C4, C5, C6, C7, C8, C9⟩,
          ⟨D1, D2, D3, D4, D5, D6, D7, D8, D9⟩⟩ := A
        clear_value W Fn
        obtain ⟨⟨w1, w2, w3⟩, ⟨w4, w5, w6⟩⟩ := W
        obtain ⟨⟨f1, f2, f3⟩, ⟨f4, f5, f6⟩⟩ := Fn
        m3simp
        refine ⟨⟨?_, ?_, ?_⟩, ?_, ?_, ?_⟩ <;> ring
      rw [hF]
      refine ⟨?_, ?_⟩
      · simp only [List.cons.injEq, and_true]
        generalize Fn + L.G.mulVec W = X
        generalize L.A = s
        obtain ⟨⟨x1, x2, x3⟩, ⟨x4, x5, x6⟩⟩ := X
        obtain ⟨⟨s1, s2, s3⟩, ⟨s4, s5, s6⟩⟩ := s
        m3simp
        ring
      · generalize Fn + L.G.mulVec W = X
        generalize L.AdT = A
        obtain ⟨⟨A1, A2, A3, A4, A5, A6, A7, A8, A9⟩, ⟨B1, B2, B3, B4, B5, B6, B7, B8, B9⟩, ⟨C1, C2, C3, C4, C5, C6, C7, C8, C9⟩,
          ⟨D1, D2, D3, D4, D5, D6, D7, D8, D9⟩⟩ := A
        obtain ⟨⟨x1, x2, x3⟩, ⟨x4, x5, x6⟩⟩ := X
        m3simp
        refine ⟨⟨?_, ?_, ?_⟩, ?_, ?_, ?_⟩ <;> ring

theorem v6_smul_v6zero (k : ℝ) : V6.smul k (v6zero : V6 ℝ) = v6zero := by
  simp only [v6zero]; m3simp; simp

/-- homogeneity of the mass response -/
theorem massResponse_smul (Ls : List (Link ℝ)) (k : ℝ) (a : List ℝ) :
    massResponse Ls (a.map fun t => k * t) = (massResponse Ls a).map (fun t => k * t) := by
  unfold massResponse
  have h := (idyn_zero_smul k Ls a v6zero v6zero).1
  rw [v6_smul_v6zero] at h
  rw [List.map_map]
  exact h

theorem subL_cancel (m c g f : List ℝ) (hc : c.length = m.length) (hg : g.length = m.length) (hf : f.length = m.length) :
    subL (addL (addL (addL m c) g) f) (addL (addL c g) f) = m := by
  apply List.ext_getElem
  · simp only [addL_length, subL_length]; omega
  · intro i h1 h2
    rw [subL_getElem, addL_getElem, addL_getElem, addL_getElem, addL_getElem, addL_getElem]
    ring

/-- non-vacuity of `inverse_of_forward`, for every chain and state: the torques τ that the inverse dynamics returns for any
    accelerations x make x a solution of the linear system (so the hypothesis `hsolve` is met by (x, τ)) -/
theorem solve_hypothesis_met (Ls : List (Link ℝ)) (dθ x : List ℝ) (hx : x.length = dθ.length) (hL : Ls.length = dθ.length) (a F : V6 ℝ) :
    let zeros := dθ.map fun _ => (0 : ℝ)
    (idyn Ls (zeros.zip x) v6zero v6zero v6zero).1 =
      subL (idyn Ls (dθ.zip x) v6zero a F).1
        (addL (addL (idyn Ls (dθ.zip zeros) v6zero v6zero v6zero).1 (idyn Ls (zeros.zip zeros) v6zero a v6zero).1)
              (idyn Ls (zeros.zip zeros) v6zero v6zero F).1) := by
  have hd := torque_decomposition Ls dθ x hx a F
  simp only at hd ⊢
  rw [hd]
  symm
  apply subL_cancel <;> rw [idyn_length, idyn_length] <;> simp [hL, hx]

end BR.C08F
