/-
  C06 — arm Jacobians and statics: the algebraic clauses.
  (The derivative clause J = d(FK)/dθ and the body/space relation are decided on the implementation
   by Richardson differences — see harness/c06.py; they are not theorems yet.)
-/
import BR.Lemmas.Chain

namespace BR.C06
open BR.MR BR.Rot OrdField Scalar

/-- product of the first `i` joint exponentials, starting from `T` -/
noncomputable def prefixProd (T : T4 ℝ) : List (V6 ℝ × ℝ) → Nat → T4 ℝ
  | _, 0 => T
  | [], _ + 1 => T
  | (S, θ) :: rest, i + 1 => prefixProd (T * matrixExp6 (hat6 (V6.smul θ S))) rest i

theorem jacobianSpaceAux_col (T : T4 ℝ) (joints : List (V6 ℝ × ℝ)) (i : Nat) (hi : i < joints.length) :
    (jacobianSpaceAux T joints)[i]? = some ((adjoint (prefixProd T joints i)).mulVec (joints[i]'hi).1) := by
  induction joints generalizing T i with
  | nil => simp at hi
  | cons j js ih =>
    obtain ⟨S, θ⟩ := j
    cases i with
    | zero => simp [jacobianSpaceAux, prefixProd]
    | succ k =>
      simp only [jacobianSpaceAux, List.getElem?_cons_succ, List.getElem_cons_succ, prefixProd]
      exact ih _ k (by simpa using hi)

/-- **column i of the space Jacobian is Ad(e^{[S_0]θ_0} ⋯ e^{[S_{i-1}]θ_{i-1}}) S_i** — the spatial
    velocity of everything distal to joint i per unit rate of joint i, for chains of any length -/
theorem jacobianSpace_col (joints : List (V6 ℝ × ℝ)) (i : Nat) (hi : i < joints.length) :
    (jacobianSpace joints)[i]? = some ((adjoint (prefixProd T4.one joints i)).mulVec (joints[i]'hi).1) := by
  cases joints with
  | nil => simp at hi
  | cons j js =>
    obtain ⟨S, θ⟩ := j
    cases i with
    | zero =>
      simp only [jacobianSpace, List.getElem?_cons_zero, List.getElem_cons_zero, prefixProd, Option.some.injEq]
      have : adjoint (T4.one : T4 ℝ) = M6.one := by m3simp; norm_num
      rw [this]
      obtain ⟨⟨a, b, c⟩, ⟨d, e, f⟩⟩ := S
      m3ring
    | succ k =>
      simp only [jacobianSpace, List.getElem?_cons_succ, List.getElem_cons_succ, prefixProd]
      exact jacobianSpaceAux_col _ js k (by simpa using hi)

/-! ### statics is the transpose map -/

/-- J q̇ for a Jacobian given by its columns -/
noncomputable def applyJ : List (V6 ℝ) → List ℝ → V6 ℝ
  | c :: cs, q :: qs => V6.smul q c + applyJ cs qs
  | _, _ => ⟨⟨0, 0, 0⟩, ⟨0, 0, 0⟩⟩

/-- Jᵀ F: one torque per column -/
noncomputable def applyJT (cols : List (V6 ℝ)) (F : V6 ℝ) : List ℝ := cols.map fun c => V6.dot c F

noncomputable def dotList : List ℝ → List ℝ → ℝ
  | a :: as, b :: bs => a * b + dotList as bs
  | _, _ => 0

/-- **torque · rate = wrench · twist** for every Jacobian, rate vector and wrench -/
theorem statics_power (cols : List (V6 ℝ)) (F : V6 ℝ) (qd : List ℝ) :
    dotList (applyJT cols F) qd = V6.dot F (applyJ cols qd) := by
  induction cols generalizing qd with
  | nil =>
    obtain ⟨⟨a, b, c⟩, ⟨d, e, f⟩⟩ := F
    simp only [applyJT, List.map_nil, dotList, applyJ]
    m3simp; ring
  | cons c cs ih =>
    cases qd with
    | nil =>
      obtain ⟨⟨a, b, c'⟩, ⟨d, e, f⟩⟩ := F
      simp only [applyJT, List.map_cons, dotList, applyJ]
      m3simp; ring
    | cons q qs =>
      simp only [applyJT, List.map_cons, dotList, applyJ] at ih ⊢
      rw [ih qs]
      obtain ⟨⟨a, b, c'⟩, ⟨d, e, f⟩⟩ := F
      obtain ⟨⟨c1, c2, c3⟩, ⟨c4, c5, c6⟩⟩ := c
      generalize applyJ cs qs = w
      obtain ⟨⟨w1, w2, w3⟩, ⟨w4, w5, w6⟩⟩ := w
      m3simp; ring

/-- the link-mass variant adds, to joint i, the pairing of its Jacobian column with the weight wrench
    of every distal link: linearity of the transpose map in the wrench -/
theorem statics_linear (cols : List (V6 ℝ)) (F W : V6 ℝ) :
    applyJT cols (F + W) = (applyJT cols F).zipWith (· + ·) (applyJT cols W) := by
  induction cols with
  | nil => rfl
  | cons c cs ih =>
    simp only [applyJT, List.map_cons, List.zipWith_cons_cons] at ih ⊢
    rw [ih]
    congr 1
    obtain ⟨⟨a, b, c'⟩, ⟨d, e, f⟩⟩ := F
    obtain ⟨⟨c1, c2, c3⟩, ⟨c4, c5, c6⟩⟩ := c
    obtain ⟨⟨w1, w2, w3⟩, ⟨w4, w5, w6⟩⟩ := W
    m3simp; ring

end BR.C06
