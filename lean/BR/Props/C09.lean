/-
  C09 — Stewart platform: IK is exact geometry, depends only on the relative plate pose, and the
  Newton–Raphson FK loop — when it stops on its residual test — returns a pose whose leg lengths are the
  requested ones up to a bound computed from the tolerance.

  (That the loop *does* stop on a pose close to the one the lengths came from is a convergence statement about
   a quasi-Newton iteration with an approximate Jacobian; it is decided on the implementation by harness/c09.py.)
-/
import BR.Lemmas.SE3
import BR.Lemmas.TmLemmas
import BR.Model.SP

namespace BR.C09
open BR.SP BR.MR BR.Rot OrdField Scalar

/-! ### IK -/

/-- **IK is exact geometry**: leg i is the distance between the bottom joint carried by the bottom plate pose and
    the top joint carried by the top plate pose -/
theorem ik_is_distance (Tb Tt : T4 ℝ) (legs : List (Leg ℝ)) :
    lengths Tb Tt legs = legs.map (fun l => norm3 (Tt.act l.t - Tb.act l.b)) ∧
    (spIK Tb Tt legs).map (·.2.1) = legs.map (fun l => Tb.act l.b) ∧
    (spIK Tb Tt legs).map (·.2.2) = legs.map (fun l => Tt.act l.t) := by
  unfold lengths spIK trVec
  simp [List.map_map, Function.comp_def]

theorem act_mul (G T : T4 ℝ) (v : V3 ℝ) : (G * T).act v = G.act (T.act v) := by
  obtain ⟨R, p⟩ := G; obtain ⟨S, q⟩ := T
  cases R; cases S; cases p; cases q; cases v
  show T4.act (T4.mul _ _) _ = _
  unfold T4.mul T4.act
  m3ring

theorem act_sub (G : T4 ℝ) (a b : V3 ℝ) : G.act a - G.act b = G.R.mulVec (a - b) := by
  obtain ⟨R, p⟩ := G
  cases R; cases p; cases a; cases b
  unfold T4.act
  m3ring

/-- **moving both plates by one rigid motion leaves every leg length unchanged** -/
theorem ik_rigid_invariant (G Tb Tt : T4 ℝ) (hG : IsRot G.R) (legs : List (Leg ℝ)) :
    lengths (G * Tb) (G * Tt) legs = lengths Tb Tt legs := by
  rw [(ik_is_distance _ _ _).1, (ik_is_distance _ _ _).1]
  apply List.map_congr_left
  intro l _
  rw [act_mul, act_mul, act_sub, norm3_rot _ hG]

theorem one_act (v : V3 ℝ) : (T4.one : T4 ℝ).act v = v := by
  cases v; unfold T4.act T4.one M3.one V3.zero; m3ring

theorem transInv_mul (T : T4 ℝ) (h : T.R.T * T.R = M3.one) : transInv T * T = T4.one := by
  obtain ⟨R, p⟩ := T
  obtain ⟨a, b, c, d, e, f, g, h', i⟩ := R
  obtain ⟨x, y, z⟩ := p
  revert h
  m3simp
  rintro ⟨h1, h2, h3, h4, h5, h6, h7, h8, h9⟩
  refine ⟨⟨h1, h2, h3, h4, h5, h6, h7, h8, h9⟩, ?_, ?_, ?_⟩ <;> ring

/-- **the lengths depend only on the relative plate pose** inv(bottom)·top -/
theorem ik_relative_only (Tb Tt : T4 ℝ) (hB : IsRot Tb.R) (legs : List (Leg ℝ)) :
    lengths Tb Tt legs = lengths T4.one (transInv Tb * Tt) legs := by
  have hinv : IsRot (transInv Tb).R := by
    show IsRot Tb.R.T
    exact isRot_T hB
  have h := ik_rigid_invariant (transInv Tb) Tb Tt hinv legs
  rw [transInv_mul Tb hB.1] at h
  exact h.symm

/-! ### the residual the FK loop drives to zero is the IK's squared-length error -/

theorem sq3_eq (v : V3 ℝ) : sq3 v = norm3 v ^ 2 := by
  rw [norm3_sq]; unfold sq3; ring

/-- residual of leg i at the guess (p, w) = L_i² − (length of leg i at the relative pose tm(p, w))² -/
theorem fkRes_eq (g : V6 ℝ) (l : Leg ℝ) (L : ℝ) :
    fkRes g.a (matrixExp3 (hat g.b)) l L =
      L ^ 2 - norm3 ((BR.TmModel.taaToTM g).act l.t - (T4.one : T4 ℝ).act l.b) ^ 2 := by
  unfold fkRes
  rw [sq3_eq, one_act]
  have : (BR.TmModel.taaToTM g).act l.t - l.b = (g.a - l.b) + (matrixExp3 (hat g.b)).mulVec l.t := by
    unfold BR.TmModel.taaToTM T4.act
    obtain ⟨⟨a, b, c⟩, w⟩ := g
    obtain ⟨⟨b1, b2, b3⟩, ⟨t1, t2, t3⟩⟩ := l
    generalize matrixExp3 (hat w) = R
    cases R
    m3ring
  rw [this]
  m3simp
  ring

/-! ### the loop -/

theorem sumAbs_nonneg : ∀ l : List ℝ, 0 ≤ sumAbs l
  | [] => by simp [sumAbs]
  | x :: xs => by
    simp only [sumAbs]
    have := sumAbs_nonneg xs
    have h2 : 0 ≤ sabs x := by rw [sabs_real']; exact abs_nonneg x
    linarith

theorem mem_le_sumAbs : ∀ (l : List ℝ) (x : ℝ), x ∈ l → |x| ≤ sumAbs l
  | [], x, h => by simp at h
  | y :: ys, x, h => by
    simp only [sumAbs]
    have hy : sabs y = |y| := sabs_real' y
    rcases List.mem_cons.1 h with rfl | h'
    · have := sumAbs_nonneg ys; rw [hy]; linarith
    · have := mem_le_sumAbs ys x h'; have h2 := abs_nonneg y; rw [hy]; linarith

/-- **residual exit is sound**: when SPFKinSpaceR stops on its residual test, the summed absolute squared-length
    residual at the pose it returns is below the tolerance — for any linear solver, any start, any iteration budget -/
theorem raphson_residual_exit (solve : List (List ℝ) → List ℝ → List ℝ) (legs : List (Leg ℝ)) (L : List ℝ)
    (tolF tolA lmin : ℝ) (fuel it : Nat) (g g' : V6 ℝ) (it' : Nat)
    (h : raphson solve legs L tolF tolA lmin fuel it g = (g', it', Exit.residual)) :
    sumAbs (residuals legs L g') < tolF := by
  induction fuel generalizing it g with
  | zero => simp [raphson] at h
  | succ n ih =>
    rw [raphson] at h
    split at h
    · rename_i hlt
      simp only [Prod.mk.injEq] at h
      obtain ⟨rfl, _, _⟩ := h
      exact hlt
    · split at h
      · simp at h
      · exact ih _ _ h

/-- the iteration count reported never exceeds the budget, and the budget exit reports exactly the budget -/
theorem raphson_iters (solve : List (List ℝ) → List ℝ → List ℝ) (legs : List (Leg ℝ)) (L : List ℝ)
    (tolF tolA lmin : ℝ) (fuel it : Nat) (g g' : V6 ℝ) (it' : Nat) (e : Exit)
    (h : raphson solve legs L tolF tolA lmin fuel it g = (g', it', e)) :
    it' ≤ it + fuel ∧ (e = Exit.budget → it' = it + fuel) := by
  induction fuel generalizing it g with
  | zero => simp only [raphson, Prod.mk.injEq] at h; obtain ⟨_, rfl, rfl⟩ := h; simp
  | succ n ih =>
    rw [raphson] at h
    split at h
    · simp only [Prod.mk.injEq] at h; obtain ⟨_, rfl, rfl⟩ := h; constructor <;> [omega; simp]
    · split at h
      · simp only [Prod.mk.injEq] at h; obtain ⟨_, rfl, rfl⟩ := h; constructor <;> [omega; simp]
      · have := ih _ _ h
        constructor
        · omega
        · intro he; have := this.2 he; omega

/-- a squared-length residual below ε pins the length itself: |ℓ − L| < ε / L -/
theorem length_of_sq_residual (ℓ L ε : ℝ) (hℓ : 0 ≤ ℓ) (hL : 0 < L) (h : |L ^ 2 - ℓ ^ 2| < ε) : |ℓ - L| < ε / L := by
  have hsum : 0 < ℓ + L := by linarith
  have hfac : |L ^ 2 - ℓ ^ 2| = |ℓ - L| * (ℓ + L) := by
    have : L ^ 2 - ℓ ^ 2 = -((ℓ - L) * (ℓ + L)) := by ring
    rw [this, abs_neg, abs_mul, abs_of_pos hsum]
  rw [hfac] at h
  rw [lt_div_iff₀ hL]
  calc |ℓ - L| * L ≤ |ℓ - L| * (ℓ + L) := by
        apply mul_le_mul_of_nonneg_left _ (abs_nonneg _); linarith
    _ < ε := h

/-- **lengths after a residual exit are the requested ones**: if SPFKinSpaceR stops on its residual test at the
    guess g', then the platform's IK at the relative pose tm(g') — which is what `_FKRaphson` publishes, at any base
    placement by `ik_relative_only` — has every leg within tol_f / L_i of the requested length L_i -/
theorem fk_lengths_accurate (solve : List (List ℝ) → List ℝ → List ℝ) (legs : List (Leg ℝ)) (L : List ℝ)
    (tolF tolA lmin : ℝ) (fuel it : Nat) (g g' : V6 ℝ) (it' : Nat)
    (h : raphson solve legs L tolF tolA lmin fuel it g = (g', it', Exit.residual))
    (i : Nat) (hi : i < legs.length) (hiL : i < L.length) (hpos : 0 < L[i]) :
    |norm3 ((BR.TmModel.taaToTM g').act (legs[i]).t - (T4.one : T4 ℝ).act (legs[i]).b) - L[i]| < tolF / L[i] := by
  have hres := raphson_residual_exit solve legs L tolF tolA lmin fuel it g g' it' h
  have hmem : fkRes g'.a (matrixExp3 (hat g'.b)) legs[i] L[i] ∈ residuals legs L g' := by
    unfold residuals
    rw [List.mem_iff_getElem]
    exact ⟨i, by simp [List.length_zipWith]; omega, by simp [List.getElem_zipWith]⟩
  have hle := mem_le_sumAbs _ _ hmem
  rw [fkRes_eq] at hle
  apply length_of_sq_residual _ _ _ (norm3_nonneg _) hpos
  linarith

/-- the published lengths of a platform standing anywhere equal those of the relative pose (instance used with
    `fk_lengths_accurate`: `_FKRaphson` publishes IK(bottom · tm(g'), bottom)) -/
theorem published_lengths (bottom : T4 ℝ) (hB : IsRot bottom.R) (g' : V6 ℝ) (legs : List (Leg ℝ)) :
    lengths bottom (bottom * BR.TmModel.taaToTM g') legs = lengths T4.one (BR.TmModel.taaToTM g') legs := by
  have := ik_rigid_invariant bottom T4.one (BR.TmModel.taaToTM g') hB legs
  have h1 : bottom * (T4.one : T4 ℝ) = bottom := by
    obtain ⟨R, p⟩ := bottom; cases R; cases p
    show T4.mul _ _ = _
    unfold T4.mul T4.one M3.one V3.zero
    m3ring
  rw [h1] at this
  exact this

/-- non-vacuity: the residual test can fire — at the exact pose the residuals are all zero -/
example (g : V6 ℝ) (l : Leg ℝ) :
    fkRes g.a (matrixExp3 (hat g.b)) l (norm3 ((BR.TmModel.taaToTM g).act l.t - (T4.one : T4 ℝ).act l.b)) = 0 := by
  rw [fkRes_eq]; ring

end BR.C09
