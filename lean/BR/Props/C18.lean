/-
  C18 — geometric helper functions satisfy their defining relations.
  Property theorems about BR/Model/Helpers.lean at ℝ.
-/
import BR.Lemmas.TmLemmas
import BR.Model.Helpers
import Mathlib.Analysis.InnerProductSpace.PiL2

namespace BR.C18
open BR.MR BR.Rot BR.TmModel BR.Helpers OrdField Scalar

/-! ### plane through three points -/

theorem plane_contains_points (p1 p2 p3 : V3 ℝ) :
    let pl := planeFromThreePoints p1 p2 p3
    V3.dot pl.1 p1 = pl.2 ∧ V3.dot pl.1 p2 = pl.2 ∧ V3.dot pl.1 p3 = pl.2 := by
  obtain ⟨a, b, c⟩ := p1; obtain ⟨d, e, f⟩ := p2; obtain ⟨g, h, i⟩ := p3
  simp only [planeFromThreePoints]
  m3ring

/-! ### mirror: reflection across the local XY plane -/

/-- local coordinates of a point in the frame (R, o): Rᵀ (p − o) -/
noncomputable def localCoords (R : M3 ℝ) (o p : V3 ℝ) : V3 ℝ := R.T.mulVec (p - o)

/-- **mirror negates exactly the local z coordinate** (frame anywhere in space, any orientation) -/
theorem mirror_reflects (origin : Tm ℝ) (hR : IsRot origin.TM.R) (p : V3 ℝ) :
    localCoords origin.TM.R origin.TAA.a (mirror origin p) =
      ⟨(localCoords origin.TM.R origin.TAA.a p).x, (localCoords origin.TM.R origin.TAA.a p).y,
        -(localCoords origin.TM.R origin.TAA.a p).z⟩ := by
  obtain ⟨⟨R, tp⟩, ⟨o, rv⟩⟩ := origin
  obtain ⟨a, b, c, d, e, f, g, h, i⟩ := R
  have F := facts_of_isRot hR
  obtain ⟨ox, oy, oz⟩ := o
  obtain ⟨px, py, pz⟩ := p
  -- the plane normal is ŷ × x̂ = −ẑ, of unit length
  have hx : e * g - h * d = -c := by linarith [F.cc]
  have hy : h * a - b * g = -f := by linarith [F.cf]
  have hz : b * d - e * a = -i := by linarith [F.ci]
  have hD : -c * -c + -f * -f + -i * -i = 1 := by linarith [F.h9]
  simp only [mirror, planeFromThreePoints, localCoords, col1, col2]
  m3simp
  simp only [add_sub_cancel_left, hx, hy, hz, hD, div_one]
  refine ⟨?_, ?_, ?_⟩
  · linear_combination (2*b*c + 2*c*ox - 2*c*px + 2*e*f + 2*f*oy - 2*f*py + 2*h*i + 2*i*oz - 2*i*pz) * F.h3
  · linear_combination (2*b*c + 2*c*ox - 2*c*px + 2*e*f + 2*f*oy - 2*f*py + 2*h*i + 2*i*oz - 2*i*pz) * F.h6
  · linear_combination (2*c^2 + 2*f^2 + 2*i^2) * F.h6 + (2*c*ox - 2*c*px + 2*f*oy - 2*f*py + 2*i*oz - 2*i*pz) * F.h9

theorem localCoords_inj (R : M3 ℝ) (hR : IsRot R) (o u v : V3 ℝ)
    (h : localCoords R o u = localCoords R o v) : u = v := by
  have hRR := M3.mul_T_of_T_mul hR.1 hR.2
  have key : ∀ w : V3 ℝ, R.mulVec (R.T.mulVec w) = w := by
    intro w
    have : R.mulVec (R.T.mulVec w) = (R * R.T).mulVec w := by
      obtain ⟨a, b, c, d, e, f, g, h, i⟩ := R; obtain ⟨x, y, z⟩ := w; m3ring
    rw [this, hRR]; obtain ⟨x, y, z⟩ := w; m3ring
  have h2 : u - o = v - o := by
    have := congrArg R.mulVec h
    simp only [localCoords] at this
    rw [key, key] at this; exact this
  obtain ⟨u1, u2, u3⟩ := u; obtain ⟨v1, v2, v3⟩ := v; obtain ⟨o1, o2, o3⟩ := o
  revert h2; m3simp
  rintro ⟨h1, h2, h3⟩
  exact ⟨by linarith, by linarith, by linarith⟩

/-- **mirror is an involution** -/
theorem mirror_involution (origin : Tm ℝ) (hR : IsRot origin.TM.R) (p : V3 ℝ) :
    mirror origin (mirror origin p) = p := by
  apply localCoords_inj origin.TM.R hR origin.TAA.a
  rw [mirror_reflects origin hR, mirror_reflects origin hR]
  simp only [neg_neg]

/-! ### interpolated midpoint -/

/-- the midpoint has the mean position -/
theorem interpMid_pos (a b : V6 ℝ) : (tmInterpMidpoint a b).TAA.a = V3.sdiv (a.a + b.a) 2 := rfl

/-- **geodesic half-way**: the relative rotation from R1 to the midpoint, applied twice, is the
    relative rotation from R1 to R2; stated for the relative rotation Re = R2·R1ᵀ in the generic
    branch of the logarithm with half-angle outside the cut-off band. -/
theorem interpMid_geodesic (Re : M3 ℝ) (hR : IsRot Re) (hlo : -1 < (Re.trace - 1) / 2)
    (hhi : (Re.trace - 1) / 2 < 1) (hθ : (2e-6 : ℝ) ≤ Real.arccos ((Re.trace - 1) / 2)) :
    let H := matrixExp3 (hat (vee (M3.sdiv (matrixLog3 Re) 2)))
    H * H = Re := by
  obtain ⟨w, hlog, hnorm, hpos, hlt, hrod⟩ := log3_generic_form Re hR hlo hhi
  intro H
  set θ := Real.arccos ((Re.trace - 1) / 2) with hθd
  have hθne : θ ≠ 0 := ne_of_gt hpos
  -- half of the logarithm is the hat of w/2, of norm θ/2
  have hhalf : vee (M3.sdiv (matrixLog3 Re) 2) = V3.sdiv w 2 := by
    rw [hlog]; obtain ⟨x, y, z⟩ := w; m3ring
  have hn2 : norm3 (V3.sdiv w 2) = θ / 2 := by
    apply norm3_eq_of_sq _ (θ / 2) (by linarith)
    have := norm3_sq w
    rw [hnorm] at this
    obtain ⟨x, y, z⟩ := w
    simp only [V3.sdiv] at this ⊢
    field_simp
    linear_combination (-1 : ℝ) * this
  have hnz : ¬ nearZero (norm3 (V3.sdiv w 2)) := by
    rw [hn2]; apply not_nearZero_of_le; linarith
  have hH : H = rod (V3.sdiv w θ) (Real.sin (θ / 2)) (Real.cos (θ / 2)) := by
    show matrixExp3 (hat (vee (M3.sdiv (matrixLog3 Re) 2))) = _
    rw [hhalf, exp3_eq_rod _ hnz, hn2]
    congr 1
    obtain ⟨x, y, z⟩ := w
    simp only [V3.sdiv, V3.mk.injEq]
    refine ⟨?_, ?_, ?_⟩ <;> field_simp
  have hu : (V3.sdiv w θ).x ^ 2 + (V3.sdiv w θ).y ^ 2 + (V3.sdiv w θ).z ^ 2 - 1 = 0 := by
    have := norm3_sq w
    rw [hnorm] at this
    obtain ⟨x, y, z⟩ := w
    simp only [V3.sdiv] at this ⊢
    field_simp
    linarith
  rw [hH, rod_add _ _ _ _ _ hu, hrod, hnorm]
  congr 1
  · have := Real.sin_two_mul (θ / 2)
    rw [show 2 * (θ / 2) = θ by ring] at this
    rw [this]; ring
  · have := Real.cos_two_mul' (θ / 2)
    rw [show 2 * (θ / 2) = θ by ring] at this
    rw [this]; ring

/-! ### lookAt -/

theorem normalize_unit (v : V3 ℝ) (h : 0 < norm3 v) :
    (MR.normalize v).x ^ 2 + (MR.normalize v).y ^ 2 + (MR.normalize v).z ^ 2 - 1 = 0 := by
  have hs := norm3_sq v
  have hne : norm3 v ≠ 0 := ne_of_gt h
  simp only [MR.normalize, V3.sdiv]
  field_simp
  linarith

theorem normalize_dot (v w : V3 ℝ) : V3.dot (MR.normalize v) w = V3.dot v w / norm3 v := by
  simp only [MR.normalize, V3.sdiv, V3.dot]; ring

/-- lookAt keeps the position of the first pose -/
theorem lookAt_keeps_pos (va vb : V3 ℝ) : (lookAt va vb).TM.p = va := rfl

/-- an orthonormal pair (x, z) completed by y = z × x is a proper rotation with columns x, y, z -/
theorem frame_isRot (x z : V3 ℝ) (huz : z.x ^ 2 + z.y ^ 2 + z.z ^ 2 - 1 = 0)
    (hux : x.x ^ 2 + x.y ^ 2 + x.z ^ 2 - 1 = 0) (hxz : x.x * z.x + x.y * z.y + x.z * z.z = 0) :
    IsRot ⟨x.x, (V3.cross z x).x, z.x, x.y, (V3.cross z x).y, z.y, x.z, (V3.cross z x).z, z.z⟩ := by
  obtain ⟨zx, zy, zz⟩ := z
  obtain ⟨xx, xy, xz⟩ := x
  simp only at huz hux hxz
  constructor
  · m3simp
    refine ⟨?_, ?_, ?_, ?_, ?_, ?_, ?_, ?_, ?_⟩
    · linear_combination (1) * hux
    · ring
    · linear_combination (1) * hxz
    · ring
    · linear_combination (xx^2 + xy^2 + xz^2) * huz + (1) * hux + (-xx*zx - xy*zy - xz*zz) * hxz
    · ring
    · linear_combination (1) * hxz
    · ring
    · linear_combination (1) * huz
  · m3simp
    linear_combination (xx^2 + xy^2 + xz^2) * huz + (1) * hux + (-xx*zx - xy*zy - xz*zz) * hxz

/-- **lookAt is a proper rotation whose local z is the unit vector towards the target**, whenever the
    target is neither at the viewer nor straight above / below it (where `up × z = 0`; the code's
    `except` branch is meant for that set) -/
theorem lookAt_proper (va vb : V3 ℝ) (hz : 0 < norm3 (vb - va))
    (hx : 0 < norm3 (V3.cross ⟨0, 0, 1⟩ (MR.normalize (vb - va)))) :
    IsRot (lookAtT va vb).R ∧ col3 (lookAtT va vb).R = MR.normalize (vb - va) := by
  have huz := normalize_unit (vb - va) hz
  have hux := normalize_unit _ hx
  have hxz := normalize_dot (V3.cross ⟨0, 0, 1⟩ (MR.normalize (vb - va))) (MR.normalize (vb - va))
  have h0 : V3.dot (V3.cross ⟨0, 0, 1⟩ (MR.normalize (vb - va))) (MR.normalize (vb - va)) = 0 := by
    simp only [V3.dot, V3.cross]; ring
  rw [h0, zero_div] at hxz
  simp only [V3.dot] at hxz
  refine ⟨?_, rfl⟩
  have := frame_isRot _ _ huz hux hxz
  simpa only [lookAtT, ofNat_real_zero, ofNat_real_one] using this

/-! ### distances -/

/-- the Euclidean point of a position -/
noncomputable def toE (p : V3 ℝ) : EuclideanSpace ℝ (Fin 3) := !₂[p.x, p.y, p.z]

/-- `distance` is the Euclidean metric, hence symmetric, zero exactly on equal positions, and
    satisfies the triangle inequality -/
theorem distance_eq_dist (p q : V3 ℝ) : distance p q = dist (toE p) (toE q) := by
  rw [EuclideanSpace.dist_eq]
  simp only [distance, sqrt_real, toE, Fin.sum_univ_three]
  congr 1
  simp [Real.dist_eq, sq_abs]
  ring

theorem distance_metric (p q r : V3 ℝ) :
    distance p q = distance q p ∧ 0 ≤ distance p q ∧ (distance p q = 0 ↔ p = q) ∧
    distance p r ≤ distance p q + distance q r := by
  simp only [distance_eq_dist]
  refine ⟨dist_comm _ _, dist_nonneg, ?_, dist_triangle _ _ _⟩
  rw [dist_eq_zero]
  constructor
  · intro h
    have h0 := congrArg (fun v : EuclideanSpace ℝ (Fin 3) => v 0) h
    have h1 := congrArg (fun v : EuclideanSpace ℝ (Fin 3) => v 1) h
    have h2 := congrArg (fun v : EuclideanSpace ℝ (Fin 3) => v 2) h
    obtain ⟨a, b, c⟩ := p; obtain ⟨d, e, f⟩ := q
    simp [toE] at h0 h1 h2
    rw [h0, h1, h2]
  · rintro rfl; rfl

/-- arc distance is the six-norm of the relative pose (by definition of the model, as in the code) -/
theorem arcDistance_is_norm (a b : V6 ℝ) : arcDistance a b = norm6 (globalToLocalTAA a b) := rfl

/-! ### gap closing and straight paths -/

theorem norm6_sq (v : V6 ℝ) : norm6 v ^ 2 =
    v.a.x ^ 2 + v.a.y ^ 2 + v.a.z ^ 2 + v.b.x ^ 2 + v.b.y ^ 2 + v.b.z ^ 2 := by
  unfold norm6
  show Real.sqrt _ ^ 2 = _
  have hnn : 0 ≤ v.a.x * v.a.x + v.a.y * v.a.y + v.a.z * v.a.z + v.b.x * v.b.x + v.b.y * v.b.y + v.b.z * v.b.z := by
    have h1 := mul_self_nonneg v.a.x; have h2 := mul_self_nonneg v.a.y; have h3 := mul_self_nonneg v.a.z
    have h4 := mul_self_nonneg v.b.x; have h5 := mul_self_nonneg v.b.y; have h6 := mul_self_nonneg v.b.z
    linarith
  rw [Real.sq_sqrt hnn]
  ring

theorem norm6_smul (t : ℝ) (v : V6 ℝ) : norm6 (V6.smul t v) = |t| * norm6 v := by
  unfold norm6
  show Real.sqrt _ = |t| * Real.sqrt _
  rw [← Real.sqrt_sq (abs_nonneg t), ← Real.sqrt_mul (sq_nonneg _)]
  congr 1
  obtain ⟨⟨a1, a2, a3⟩, ⟨a4, a5, a6⟩⟩ := v
  simp only [V6.smul, V3.smul, sq_abs]
  ring

/-- **closeLinearGap advances by exactly |δ|** in the six-norm, along the straight line to the goal -/
theorem closeLinearGap_advance (o g : V6 ℝ) (δ : ℝ) (isZero : ℝ → Bool) (r : V6 ℝ)
    (hz : ∀ x, isZero x = true ↔ x = 0) (h : closeLinearGap o g δ isZero = some r) :
    norm6 (r - o) = |δ| ∧ ∃ t : ℝ, r - o = V6.smul t (g - o) := by
  unfold closeLinearGap at h
  simp only at h
  split_ifs at h with h0
  have hn : norm6 (g - o) ≠ 0 := fun hh => h0 ((hz _).mpr hh)
  have hpos : 0 < norm6 (g - o) := lt_of_le_of_ne (Real.sqrt_nonneg _) (Ne.symm hn)
  cases h
  have hline : o + V6.smul δ (V6.sdiv (g - o) (norm6 (g - o))) - o = V6.smul (δ / norm6 (g - o)) (g - o) := by
    generalize norm6 (g - o) = N at hn hpos ⊢
    obtain ⟨⟨a1, a2, a3⟩, ⟨a4, a5, a6⟩⟩ := o
    obtain ⟨⟨b1, b2, b3⟩, ⟨b4, b5, b6⟩⟩ := g
    m3simp
    refine ⟨⟨?_, ?_, ?_⟩, ?_, ?_, ?_⟩ <;> field_simp <;> ring
  refine ⟨?_, ⟨_, hline⟩⟩
  rw [hline, norm6_smul, abs_div, abs_of_pos hpos]
  field_simp

/-- **IKPath**: the requested number of poses, first = start, last = goal -/
theorem ikPath_shape (a b : V6 ℝ) (steps : Nat) (hs : 2 ≤ steps) :
    (ikPath a b steps (fun n => (n : ℝ))).length = steps ∧
    (ikPath a b steps (fun n => (n : ℝ))).head? = some a ∧
    (ikPath a b steps (fun n => (n : ℝ))).getLast? = some b := by
  unfold ikPath
  refine ⟨by simp; omega, ?_, by simp⟩
  obtain ⟨k, rfl⟩ : ∃ k, steps = k + 2 := ⟨steps - 2, by omega⟩
  simp only [Nat.add_sub_cancel, show k + 2 - 1 = k + 1 by omega, List.range_succ_eq_map, List.map_cons,
    List.cons_append, List.head?_cons, Option.some.injEq]
  obtain ⟨⟨a1, a2, a3⟩, ⟨a4, a5, a6⟩⟩ := a
  obtain ⟨⟨b1, b2, b3⟩, ⟨b4, b5, b6⟩⟩ := b
  m3simp
  simp

/-- …and evenly spaced: consecutive six-vectors differ by the same increment (goal − start)/(steps − 1) -/
theorem ikPath_even (a b : V6 ℝ) (steps : Nat) (hs : 2 ≤ steps) (i : Nat) (hi : i + 1 < steps) :
    let δ := V6.sdiv (b - a) ((steps - 1 : Nat) : ℝ)
    let pt := fun (j : Nat) => if j < steps - 1 then a + V6.smul (j : ℝ) δ else b
    pt (i + 1) - pt i = δ := by
  intro δ pt
  simp only [pt]
  have hne : ((steps - 1 : Nat) : ℝ) ≠ 0 := by
    have : 0 < steps - 1 := by omega
    exact_mod_cast this.ne'
  rw [if_pos (by omega : i < steps - 1)]
  obtain ⟨⟨a1, a2, a3⟩, ⟨a4, a5, a6⟩⟩ := a
  obtain ⟨⟨b1, b2, b3⟩, ⟨b4, b5, b6⟩⟩ := b
  split_ifs with h1
  · simp only [δ]; m3simp; push_cast; refine ⟨⟨?_, ?_, ?_⟩, ?_, ?_, ?_⟩ <;> ring
  · have hi2 : (i : ℝ) + 1 = ((steps - 1 : Nat) : ℝ) := by
      have : i + 1 = steps - 1 := by omega
      exact_mod_cast this
    simp only [δ]; m3simp
    refine ⟨⟨?_, ?_, ?_⟩, ?_, ?_, ?_⟩ <;> field_simp <;> rw [← hi2] <;> ring

/-! ### samplers and angle wrapping -/

theorem sphere_unit (t p : ℝ) :
    (Real.cos t * Real.sin p) ^ 2 + (Real.sin t * Real.sin p) ^ 2 + Real.cos p ^ 2 = 1 := by
  have h1 := Real.sin_sq_add_cos_sq t
  have h2 := Real.sin_sq_add_cos_sq p
  linear_combination (Real.sin p) ^ 2 * h1 + h2

theorem fibo_unit (i n : ℝ) : (fiboPoint i n).x ^ 2 + (fiboPoint i n).y ^ 2 + (fiboPoint i n).z ^ 2 = 1 := by
  simp only [fiboPoint, sin_real, cos_real]
  exact sphere_unit _ _

theorem unitSphere_unit (a e : ℝ) :
    (unitSpherePoint a e).x ^ 2 + (unitSpherePoint a e).y ^ 2 + (unitSpherePoint a e).z ^ 2 = 1 := by
  simp only [unitSpherePoint, sin_real, cos_real]
  exact sphere_unit _ _

/-- **angle wrapping preserves the angle modulo 2π** -/
theorem angleMod_mod_2pi (r : ℝ) : ∃ k : ℤ, angleModScalar r = r - 2 * Real.pi * k := by
  unfold angleModScalar
  split_ifs
  · refine ⟨⌊r / (2 * Real.pi)⌋, ?_⟩
    simp only [pymod]
    rfl
  · exact ⟨0, by rw [Int.cast_zero, mul_zero, sub_zero]⟩

theorem pymod_range (r m : ℝ) (hm : 0 < m) : 0 ≤ pymod r m ∧ pymod r m < m := by
  simp only [pymod]
  have h1 := Int.floor_le (r / m)
  have h2 := Int.lt_floor_add_one (r / m)
  have e : r = m * (r / m) := by field_simp
  constructor
  · have := mul_le_mul_of_nonneg_left h1 hm.le
    change 0 ≤ r - m * (⌊r / m⌋ : ℝ)
    linarith
  · have := mul_lt_mul_of_pos_left h2 hm
    change r - m * (⌊r / m⌋ : ℝ) < m
    nlinarith

/-- **angle wrapping lands in [−2π, 2π]** and wrapping twice is wrapping once -/
theorem angleMod_range (r : ℝ) : |angleModScalar r| ≤ 2 * Real.pi := by
  unfold angleModScalar
  simp only [sabs_real', pi_real]
  split_ifs with h
  · obtain ⟨h0, h1⟩ := pymod_range r (2 * Real.pi) (by positivity)
    rw [abs_of_nonneg h0]; exact h1.le
  · exact not_lt.mp h

theorem angleMod_idem (r : ℝ) : angleModScalar (angleModScalar r) = angleModScalar r := by
  have h := angleMod_range r
  generalize angleModScalar r = s at h
  unfold angleModScalar
  simp only [sabs_real', pi_real]
  rw [if_neg (not_lt.mpr h)]

end BR.C18
