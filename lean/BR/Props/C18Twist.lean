/-
  C18 (twistToGoal clause) — exponentiating the twist `twistToGoal(start, goal)` and applying it to `start` gives `goal`,
  for every pair of rigid transforms whose relative rotation angle is 0 or at least the 1e-6 cut-off (half turns included).
-/
import BR.Props.C01
import BR.Props.C01Half
import BR.Lemmas.Chain
import BR.Lemmas.TmLemmas
import BR.Model.Helpers

namespace BR.C18T
open BR.MR BR.Rot BR.Helpers BR.C01 OrdField Scalar

theorem hat_skew (w : V3 ℝ) : IsSkew (hat w) := by
  obtain ⟨x, y, z⟩ := w
  unfold IsSkew
  m3ring

theorem zero_skew : IsSkew (M3.zero : M3 ℝ) := by
  unfold IsSkew
  m3ring

/-- the rotation block of the library's logarithm is skew (identity, generic and half-turn branches) -/
theorem log6_R_skew (eq0 : M3 ℝ → Bool) (T : T4 ℝ) (hR : IsRot T.R) : IsSkew (matrixLog6 eq0 T).R := by
  unfold matrixLog6
  simp only
  split
  · exact zero_skew
  · by_cases h1 : 1 ≤ (T.R.trace - 1) / 2
    · have : matrixLog3 T.R = M3.zero := by
        unfold matrixLog3
        simp only [ofNat_real_one, ofNat_real]
        rw [if_pos h1]
      simp only [this]; exact zero_skew
    · by_cases h2 : (T.R.trace - 1) / 2 ≤ -1
      · obtain ⟨u, _, hlog⟩ := log3_halfturn_form T.R hR h2
        simp only [hlog]; exact hat_skew _
      · obtain ⟨w, hw, _⟩ := log3_generic_form T.R hR (not_le.mp h2) (not_le.mp h1)
        simp only [hw]; exact hat_skew w

/-- **twistToGoal reaches the goal**: e^{[twistToGoal(A, B)]} · A = B -/
theorem twistToGoal_reaches (eq0 : M3 ℝ → Bool) (heq0 : ∀ m, eq0 m = true ↔ m3IsZero m) (A B : T4 ℝ)
    (hA : IsRot A.R) (hB : IsRot B.R)
    (h : 1 ≤ ((B * transInv A).R.trace - 1) / 2 ∨ (1e-6 : ℝ) ≤ Real.arccos (((B * transInv A).R.trace - 1) / 2)) :
    matrixExp6 (hat6 (twistToGoal eq0 A B)) * A = B := by
  set D := B * transInv A with hD
  have hDR : IsRot D.R := by
    show IsRot (B.R * A.R.T)
    exact isRot_mul hB (isRot_T hA)
  unfold twistToGoal
  rw [← hD, hat6_vee6 _ (log6_R_skew eq0 D hDR), exp6_log6 eq0 heq0 D hDR h, hD, T4_mul_assoc, T4_transInv_mul A hA, T4_mul_one]

end BR.C18T
