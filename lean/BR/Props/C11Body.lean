/-
  C11 (body-frame clause) — the body-frame statics interface is the space-frame interface applied to the frame-changed
  wrench: with J the (pseudo-inverse) Jacobian the robot base class computes, `staticForcesBody` uses
  J_b = Ad(T⁻¹)·J and returns J_bᵀ W_b; this equals Jᵀ W_s for W_s = Ad(T⁻¹)ᵀ W_b, whatever J is.
-/
import BR.Lemmas.SE3

namespace BR.C11B
open BR.MR BR.Rot OrdField Scalar

/-- ⟨A c, w⟩ = ⟨c, Aᵀ w⟩ for 6×6 matrices in block form -/
theorem dot_mulVec_transpose (A : M6 ℝ) (c w : V6 ℝ) : V6.dot (A.mulVec c) w = V6.dot c (A.T.mulVec w) := by
  obtain ⟨A1, A2, A3, A4⟩ := A
  obtain ⟨⟨c1, c2, c3⟩, ⟨c4, c5, c6⟩⟩ := c
  obtain ⟨⟨w1, w2, w3⟩, ⟨w4, w5, w6⟩⟩ := w
  cases A1; cases A2; cases A3; cases A4
  m3simp
  ring

/-- `Robot.staticForcesBody`: (Ad(T⁻¹)·J)ᵀ W_b, J given by its columns (one per actuator) -/
noncomputable def bodyForces (cols : List (V6 ℝ)) (AdTinv : M6 ℝ) (Wb : V6 ℝ) : List ℝ :=
  cols.map fun c => V6.dot (AdTinv.mulVec c) Wb

/-- `Robot.staticForces`: Jᵀ W_s -/
noncomputable def spaceForces (cols : List (V6 ℝ)) (Ws : V6 ℝ) : List ℝ := cols.map fun c => V6.dot c Ws

/-- **body interface = space interface on the frame-changed wrench**, for any Jacobian (any number of actuators) -/
theorem bodyForces_eq (cols : List (V6 ℝ)) (AdTinv : M6 ℝ) (Wb : V6 ℝ) :
    bodyForces cols AdTinv Wb = spaceForces cols (AdTinv.T.mulVec Wb) := by
  unfold bodyForces spaceForces
  apply List.map_congr_left
  intro c _
  exact dot_mulVec_transpose AdTinv c Wb

end BR.C11B
