/-
  C07 — arm inverse kinematics never claims a pose it has not reached.
-/
import BR.Props.C05
import BR.Props.C02
import BR.Model.IK

namespace BR.C07
open BR.MR BR.Rot BR.MRRef BR.ArmModel BR.IKModel OrdField Scalar

/-- **a reported success meets the configured tolerances**: whatever the pseudo-inverse oracle does
    and whatever the iteration cap, `(θ, true)` implies the angular part of the error twist is within the
    orientation tolerance and the linear part within the position tolerance -/
theorem ikc_success_sound (eq0 : M3 ℝ → Bool) (home : T4 ℝ) (screws : List (V6 ℝ)) (goal : T4 ℝ)
    (rotTol posTol : ℝ) (mins maxs : List ℝ) (dθ : List ℝ → List ℝ) (maxIter : Nat) (θ0 : List ℝ) :
    let r := ikinSpaceConstrained eq0 home screws goal rotTol posTol mins maxs dθ maxIter θ0
    r.2 = true →
      norm3 (errTwist eq0 home screws goal r.1).a ≤ rotTol ∧ norm3 (errTwist eq0 home screws goal r.1).b ≤ posTol := by
  intro r h
  have := BR.C02.ikLoop_success_sound _ _ maxIter θ0 h
  exact (BR.C02.ikErr_false_iff rotTol posTol _).mp this

/-- and a reported failure means the returned joint vector misses a tolerance (so an unreachable goal,
    for which no joint vector meets them, is never reported as reached) -/
theorem ikc_unreachable_never_true (eq0 : M3 ℝ → Bool) (home : T4 ℝ) (screws : List (V6 ℝ)) (goal : T4 ℝ)
    (rotTol posTol : ℝ) (mins maxs : List ℝ) (dθ : List ℝ → List ℝ) (maxIter : Nat) (θ0 : List ℝ)
    (hun : ∀ θ, ikTest eq0 home screws goal rotTol posTol θ = true) :
    (ikinSpaceConstrained eq0 home screws goal rotTol posTol mins maxs dθ maxIter θ0).2 = false := by
  by_contra h
  have h' : (ikinSpaceConstrained eq0 home screws goal rotTol posTol mins maxs dθ maxIter θ0).2 = true := by
    simpa using h
  have := BR.C02.ikLoop_success_sound _ _ maxIter θ0 h'
  rw [hun] at this
  exact Bool.noConfusion this

/-- whatever a loop returns satisfies every predicate that holds of the start and of every update -/
theorem ikLoop_range {Θ : Type} (P : Θ → Prop) (err : Θ → Bool) (upd : Θ → Θ) (hupd : ∀ θ, P (upd θ)) (fuel : Nat)
    (θ0 : Θ) (h0 : P θ0) : P (ikLoop err upd fuel θ0).1 := by
  induction fuel generalizing θ0 with
  | zero => exact h0
  | succ n ih =>
    unfold ikLoop
    split_ifs
    · exact ih (upd θ0) (hupd θ0)
    · exact h0

/-- every entry of a clamped vector lies within its limits -/
def InLimits (mins maxs θ : List ℝ) : Prop :=
  ∀ t ∈ θ.zip (mins.zip maxs), t.2.1 ≤ t.1 ∧ t.1 ≤ t.2.2

theorem clamp_inLimits (mins maxs θ : List ℝ) (h : ∀ p ∈ mins.zip maxs, p.1 ≤ p.2) :
    InLimits mins maxs (clamp mins maxs θ) := by
  induction θ generalizing mins maxs with
  | nil => intro t ht; simp [clamp] at ht
  | cons x θ ih =>
    cases mins with
    | nil => intro t ht; simp [clamp] at ht
    | cons lo mins =>
      cases maxs with
      | nil => intro t ht; simp [clamp] at ht
      | cons hi maxs =>
        have h0 : lo ≤ hi := h (lo, hi) (by simp)
        have ht := ih mins maxs (fun p hp => h p (by simp [hp]))
        intro t hmem
        simp only [clamp, List.zip_cons_cons, List.map_cons, List.mem_cons] at hmem
        rcases hmem with rfl | hmem
        · simp only [clamp1]
          split_ifs with h1 h2
          · exact ⟨le_refl _, h0⟩
          · exact ⟨h0, le_refl _⟩
          · exact ⟨not_lt.mp h1, not_lt.mp h2⟩
        · exact ht t hmem

/-- **the limit-respecting solver's answer lies inside the joint limits** (every iteration ends with the
    clamp; with zero iterations the answer is the start vector, inside the limits iff the start is) -/
theorem ikc_in_limits (eq0 : M3 ℝ → Bool) (home : T4 ℝ) (screws : List (V6 ℝ)) (goal : T4 ℝ)
    (rotTol posTol : ℝ) (mins maxs : List ℝ) (dθ : List ℝ → List ℝ) (maxIter : Nat) (θ0 : List ℝ)
    (hlim : ∀ p ∈ mins.zip maxs, p.1 ≤ p.2) (h0 : InLimits mins maxs θ0) :
    InLimits mins maxs (ikinSpaceConstrained eq0 home screws goal rotTol posTol mins maxs dθ maxIter θ0).1 :=
  ikLoop_range (InLimits mins maxs) _ _ (fun θ => clamp_inLimits mins maxs _ hlim) maxIter θ0 h0

/-- **the arm's state after a solve is coherent**, success or failure: both solvers' write-backs end in an
    FK of the joint vector they store (C05's `step_inv` for the `IK` / `IKfree` operations) -/
theorem ik_state_coherent (a : Arm ℝ) (θ : List ℝ) (hB : IsRot a.base.R)
    (hj : BR.C05.JointsOK a.S0 (clamp a.mins a.maxs θ)) :
    BR.C05.ArmInv (step a (Op.IK θ)) := BR.C05.step_inv a (Op.IK θ) ⟨hB, hj⟩

end BR.C07
