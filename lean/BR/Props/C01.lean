/-
  C01 — rigid-motion primitives: exp/log are inverse, inverse/adjoint are homomorphic.
  Property theorems about BR/Model/MR.lean at the `ℝ` instance.
-/
import BR.Lemmas.SO3
import BR.Lemmas.SE3
import Mathlib.Tactic.Module

namespace BR.C01
open BR.MR BR.Rot OrdField Scalar

/-- skew-symmetric 3×3 -/
def IsSkew (m : M3 ℝ) : Prop := m.T = -m

/-! ### hat / vee are mutually inverse -/

theorem vee_hat (w : V3 ℝ) : vee (hat w) = w := BR.Rot.vee_hat w

theorem hat_vee (m : M3 ℝ) (h : IsSkew m) : hat (vee m) = m := by
  obtain ⟨a, b, c, d, e, f, g, h', i⟩ := m
  unfold IsSkew at h
  revert h; m3simp
  rintro ⟨h1, h2, h3, h4, h5, h6, h7, h8, h9⟩
  (constructorm* _ ∧ _) <;> (first | exact True.intro | linarith)

theorem vee6_hat6 (V : V6 ℝ) : vee6 (hat6 V) = V := by
  obtain ⟨⟨a, b, c⟩, v⟩ := V; rfl

theorem hat6_vee6 (X : T4 ℝ) (h : IsSkew X.R) : hat6 (vee6 X) = X := by
  obtain ⟨R, p⟩ := X
  simp only [hat6, vee6, T4.mk.injEq, and_true]
  exact hat_vee R h

/-! ### the exponential is a proper rotation -/

theorem not_nearZero_norm (w : V3 ℝ) (h : ¬ nearZero (norm3 w)) : (1e-6 : ℝ) ≤ norm3 w := by
  rw [nearZero_iff, abs_of_nonneg (norm3_nonneg w)] at h
  exact not_lt.mp h

theorem unit_of_pos (w : V3 ℝ) (h : 0 < norm3 w) :
    (V3.sdiv w (norm3 w)).x ^ 2 + (V3.sdiv w (norm3 w)).y ^ 2 + (V3.sdiv w (norm3 w)).z ^ 2 - 1 = 0 := by
  have hs := norm3_sq w
  simp only [V3.sdiv]
  have hne : norm3 w ≠ 0 := ne_of_gt h
  field_simp
  linarith

theorem one_isRot : IsRot M3.one := by
  constructor
  · m3simp; norm_num
  · m3simp; norm_num

/-- **exp3 lands in SO(3)** for every rotation vector (both branches of the cut-off). -/
theorem exp3_mem_SO3 (w : V3 ℝ) : IsRot (matrixExp3 (hat w)) := by
  by_cases h : nearZero (norm3 w)
  · rw [exp3_small w h]; exact one_isRot
  · rw [exp3_eq_rod w h]
    have hpos : 0 < norm3 w := lt_of_lt_of_le (by norm_num) (not_nearZero_norm w h)
    have hu := unit_of_pos w hpos
    have hsc : Real.sin (norm3 w) ^ 2 + Real.cos (norm3 w) ^ 2 - 1 = 0 := by
      rw [Real.sin_sq_add_cos_sq]; ring
    exact ⟨rod_orth _ _ _ hu hsc, rod_det _ _ _ hu hsc⟩

/-- **exp6 is a rigid transform**: its rotation block is exp3 of the angular part (last row is
    0 0 0 1 by the `T4` representation, i.e. by construction in `MatrixExp6`). -/
theorem exp6_rot (V : V6 ℝ) : (matrixExp6 (hat6 V)).R = matrixExp3 (hat V.a) := by
  unfold matrixExp6
  simp only [hat6, vee_hat]
  split_ifs with h
  · exact (exp3_small V.a h).symm
  · rfl

theorem exp6_mem_SE3 (V : V6 ℝ) : IsRot (matrixExp6 (hat6 V)).R := by
  rw [exp6_rot]; exact exp3_mem_SO3 _

/-! ### log undoes exp below π -/

/-- **log3 ∘ exp3 = id** for rotation angle in [1e-6, π). -/
theorem log3_exp3 (w : V3 ℝ) (h1 : (1e-6 : ℝ) ≤ norm3 w) (h2 : norm3 w < Real.pi) :
    matrixLog3 (matrixExp3 (hat w)) = hat w := by
  have hpos : 0 < norm3 w := lt_of_lt_of_le (by norm_num) h1
  have hnz : ¬ nearZero (norm3 w) := by
    rw [nearZero_iff, abs_of_nonneg hpos.le]; exact not_lt.mpr h1
  rw [exp3_eq_rod w hnz]
  set θ := norm3 w with hθ
  set u := V3.sdiv w θ with hu
  have hunit := unit_of_pos w hpos
  have htr := rod_trace u (Real.sin θ) (Real.cos θ) hunit
  have hcos_lt : Real.cos θ < 1 := by
    have := Real.cos_lt_cos_of_nonneg_of_le_pi (le_refl 0) h2.le hpos
    simpa using this
  have hcos_gt : -1 < Real.cos θ := by
    have := Real.cos_lt_cos_of_nonneg_of_le_pi hpos.le (le_refl _) h2
    simpa using this
  have hsin : 0 < Real.sin θ := Real.sin_pos_of_pos_of_lt_pi hpos h2
  unfold matrixLog3
  have hacos : (M3.trace (rod u (Real.sin θ) (Real.cos θ)) - 1) / 2 = Real.cos θ := by
    rw [htr]; ring
  (try simp only [ofNat_real_one, ofNat_real] at hacos ⊢)
  rw [hacos]
  rw [if_neg (not_le.mpr hcos_lt), if_neg (not_le.mpr hcos_gt)]
  have hclip : safeClip (Real.cos θ) (-1) 1 = Real.cos θ := by
    unfold safeClip smin smax
    rw [if_neg (not_lt.mpr hcos_gt.le), if_pos hcos_lt]
  rw [hclip]
  show M3.smul (Real.arccos (Real.cos θ) / 2 / Real.sin (Real.arccos (Real.cos θ))) _ = _
  rw [Real.arccos_cos hpos.le h2.le, rod_skew_part]
  obtain ⟨x, y, z⟩ := w
  have hne : θ ≠ 0 := ne_of_gt hpos
  have hsne : Real.sin θ ≠ 0 := ne_of_gt hsin
  simp only [hu]
  m3simp
  (constructorm* _ ∧ _) <;> field_simp <;> ring

/-- inside the cut-off band exp3 is the identity and its log is 0: the round-trip error is
    exactly the rotation vector itself, of norm < 1e-6 (the property's "cut-off" allowance). -/
theorem log3_exp3_small (w : V3 ℝ) (h : norm3 w < (1e-6 : ℝ)) :
    matrixLog3 (matrixExp3 (hat w)) = M3.zero := by
  have hnz : nearZero (norm3 w) := by
    rw [nearZero_iff, abs_of_nonneg (norm3_nonneg w)]; exact h
  rw [exp3_small w hnz]
  unfold matrixLog3
  have : (M3.trace (M3.one : M3 ℝ) - 1) / 2 = 1 := by m3simp; norm_num
  simp only [ofNat_real_one, ofNat_real] at this ⊢
  rw [this, if_pos (le_refl _)]

/-- **exp3 ∘ log3 = id on all of SO(3)** (identity, generic and half-turn branches with all three
    pivots), for every rotation whose angle is 0 or at least the library's 1e-6 cut-off. -/
theorem exp3_log3 (R : M3 ℝ) (hR : IsRot R)
    (h : 1 ≤ (R.trace - 1) / 2 ∨ (1e-6 : ℝ) ≤ Real.arccos ((R.trace - 1) / 2)) :
    matrixExp3 (matrixLog3 R) = R := BR.Rot.exp3_log3 R hR h

/-- half turns (trace = −1) are covered: the hypothesis of `exp3_log3` holds there -/
example (R : M3 ℝ) (ht : R.trace = -1) : (1e-6 : ℝ) ≤ Real.arccos ((R.trace - 1) / 2) := by
  rw [ht, show ((-1 : ℝ) - 1) / 2 = -1 by norm_num, Real.arccos_neg_one]
  linarith [Real.two_le_pi]

/-! ### inverse and adjoint agree with the group structure -/

/-- **inv(T)·T = I** for every T with orthonormal rotation block -/
theorem transInv_mul (T : T4 ℝ) (h : T.R.T * T.R = M3.one) : transInv T * T = T4.one := by
  obtain ⟨R, p⟩ := T
  obtain ⟨a, b, c, d, e, f, g, h', i⟩ := R
  obtain ⟨x, y, z⟩ := p
  revert h
  m3simp
  rintro ⟨h1, h2, h3, h4, h5, h6, h7, h8, h9⟩
  refine ⟨⟨h1, h2, h3, h4, h5, h6, h7, h8, h9⟩, ?_, ?_, ?_⟩ <;> ring

theorem mul_transInv (T : T4 ℝ) (h : IsRot T.R) : T * transInv T = T4.one := by
  have h' := M3.mul_T_of_T_mul h.1 h.2
  obtain ⟨R, p⟩ := T
  obtain ⟨a, b, c, d, e, f, g, hh, i⟩ := R
  obtain ⟨x, y, z⟩ := p
  revert h'
  m3simp
  rintro ⟨h1, h2, h3, h4, h5, h6, h7, h8, h9⟩
  refine ⟨⟨h1, h2, h3, h4, h5, h6, h7, h8, h9⟩, ?_, ?_, ?_⟩
  · linear_combination (-x) * h1 + (-y) * h2 + (-z) * h3
  · linear_combination (-x) * h4 + (-y) * h5 + (-z) * h6
  · linear_combination (-x) * h7 + (-y) * h8 + (-z) * h9

/-- `[R v]·R = R·[v]` on SO(3) -/
theorem hat_rot (R : M3 ℝ) (h : IsRot R) (v : V3 ℝ) : hat (R.mulVec v) * R = R * hat v := by
  have h1 := hat_cofactor R v
  have h2 := M3.mul_T_of_T_mul h.1 h.2
  rw [h.2] at h1
  have h3 : M3.smul 1 (hat v) = hat v := by cases v; m3simp; norm_num
  rw [h3] at h1
  calc hat (R.mulVec v) * R = M3.one * (hat (R.mulVec v) * R) := (M3.one_mul' _).symm
    _ = (R * R.T) * (hat (R.mulVec v) * R) := by rw [h2]
    _ = R * (R.T * hat (R.mulVec v) * R) := by
        simp only [M3.mul_assoc']
    _ = R * hat v := by rw [h1]

/-- **Ad(T1·T2) = Ad(T1)·Ad(T2)** -/
theorem adjoint_mul (T1 T2 : T4 ℝ) (h1 : IsRot T1.R) : adjoint (T1 * T2) = adjoint T1 * adjoint T2 := by
  have key := hat_rot T1.R h1 T2.p
  obtain ⟨R1, p1⟩ := T1
  obtain ⟨R2, p2⟩ := T2
  simp only at key
  have e1 : hat (R1.mulVec p2 + p1) * (R1 * R2) = hat p1 * R1 * R2 + R1 * (hat p2 * R2) := by
    have : hat (R1.mulVec p2 + p1) = hat (R1.mulVec p2) + hat p1 := by
      cases p1; cases p2; m3ring
    rw [this]
    have d1 : (hat (R1.mulVec p2) + hat p1) * (R1 * R2)
        = hat (R1.mulVec p2) * R1 * R2 + hat p1 * R1 * R2 := by
      m3ring
    rw [d1, key]
    m3ring
  simp only [adjoint, T4.mul_def, T4.mul, M6.mul_def, M6.mul, M6.mk.injEq]
  refine ⟨?_, ?_, ?_, ?_⟩
  · m3ring
  · m3ring
  · rw [e1]
  · m3ring

theorem adjoint_one : adjoint (T4.one : T4 ℝ) = M6.one := by
  m3simp
  norm_num

/-- **Ad(inv T) = inv(Ad T)** (stated as a two-sided inverse) -/
theorem adjoint_transInv (T : T4 ℝ) (h : IsRot T.R) :
    adjoint (transInv T) * adjoint T = M6.one ∧ adjoint T * adjoint (transInv T) = M6.one := by
  have hinvrot : IsRot (transInv T).R := by
    have h2 := M3.mul_T_of_T_mul h.1 h.2
    refine ⟨?_, ?_⟩
    · obtain ⟨R, p⟩ := T; obtain ⟨a, b, c, d, e, f, g, hh, i⟩ := R
      revert h2; m3simp; exact id
    · obtain ⟨R, p⟩ := T; obtain ⟨a, b, c, d, e, f, g, hh, i⟩ := R
      have := h.2; revert this; m3simp; intro this; linarith
  constructor
  · rw [← adjoint_mul _ _ hinvrot, transInv_mul T h.1, adjoint_one]
  · rw [← adjoint_mul _ _ h, mul_transInv T h, adjoint_one]

/-- product of a rigid transform with an se(3) matrix (bottom row 0) and back: T·X·inv(T) -/
noncomputable def conj (T X : T4 ℝ) : T4 ℝ :=
  let TX : T4 ℝ := ⟨T.R * X.R, T.R.mulVec X.p⟩                      -- T·X, bottom row 0
  ⟨TX.R * (transInv T).R, TX.R.mulVec (transInv T).p + TX.p⟩         -- (T·X)·inv(T), bottom row 0

/-- **T·[V]·inv(T) = [Ad(T) V]** -/
theorem conj_hat6 (T : T4 ℝ) (h : IsRot T.R) (V : V6 ℝ) :
    conj T (hat6 V) = hat6 ((adjoint T).mulVec V) := by
  have key := hat_rot T.R h V.a
  have h2 := M3.mul_T_of_T_mul h.1 h.2
  obtain ⟨R, p⟩ := T
  obtain ⟨w, v⟩ := V
  simp only at key h2
  -- R [w] Rᵀ = [R w]
  have e1 : R * hat w * R.T = hat (R.mulVec w) := by
    calc R * hat w * R.T = hat (R.mulVec w) * R * R.T := by rw [key]
      _ = hat (R.mulVec w) * (R * R.T) := M3.mul_assoc' _ _ _
      _ = hat (R.mulVec w) := by rw [h2, M3.mul_one']
  simp only [conj, hat6, adjoint, transInv, M6.mulVec, T4.mk.injEq, ofNat_real_one]
  constructor
  · rw [e1]
    obtain ⟨a, b, c, d, e, f, g, hh, i⟩ := R
    obtain ⟨x, y, z⟩ := w
    m3ring
  · have e2 : (R * hat w * R.T).mulVec p = (hat (R.mulVec w)).mulVec p := by rw [e1]
    have e3 : (R * hat w).mulVec (V3.smul (-1) (R.T.mulVec p)) = V3.smul (-1) ((R * hat w * R.T).mulVec p) := by
      obtain ⟨a, b, c, d, e, f, g, hh, i⟩ := R
      obtain ⟨x, y, z⟩ := w
      obtain ⟨px, py, pz⟩ := p
      m3ring
    rw [e3, e2]
    obtain ⟨a, b, c, d, e, f, g, hh, i⟩ := R
    obtain ⟨x, y, z⟩ := w
    obtain ⟨px, py, pz⟩ := p
    obtain ⟨vx, vy, vz⟩ := v
    m3ring

/-- `ad` is the Lie bracket: [ad_V W] = [V][W] − [W][V] (4×4 commutator of se(3) matrices) -/
theorem ad_bracket (V W : V6 ℝ) :
    hat6 ((ad V).mulVec W) =
      ⟨hat V.a * hat W.a - hat W.a * hat V.a, (hat V.a).mulVec W.b - (hat W.a).mulVec V.b⟩ := by
  obtain ⟨⟨a, b, c⟩, ⟨d, e, f⟩⟩ := V
  obtain ⟨⟨g, h, i⟩, ⟨j, k, l⟩⟩ := W
  m3ring

/-! ### non-vacuity: a concrete rational rotation (3-4-5) meets every hypothesis -/

noncomputable def R345 : M3 ℝ := ⟨3 / 5, -4 / 5, 0, 4 / 5, 3 / 5, 0, 0, 0, 1⟩
example : IsRot R345 := by
  constructor
  · unfold R345; m3simp; norm_num
  · unfold R345; m3simp; norm_num
example : ∃ w : V3 ℝ, (1e-6 : ℝ) ≤ norm3 w ∧ norm3 w < Real.pi := by
  refine ⟨⟨1, 0, 0⟩, ?_, ?_⟩
  · unfold norm3; show (1e-6 : ℝ) ≤ Real.sqrt _; rw [show ((1:ℝ) * 1 + 0 * 0 + 0 * 0) = 1 by ring, Real.sqrt_one]; norm_num
  · unfold norm3; show Real.sqrt _ < _; rw [show ((1:ℝ) * 1 + 0 * 0 + 0 * 0) = 1 by ring, Real.sqrt_one]
    linarith [Real.two_le_pi]


/-! ### log6 ∘ exp6 = id below π -/

namespace Log6
open BR.Rot

/-- products of polynomials in a matrix with K³ = −K -/
theorem Kpoly_mul (K : M3 ℝ) (h3 : K * K * K = -K) (a b g0 g1 g2 : ℝ) :
    ((1 : M3 ℝ) + a • K + b • (K * K)) * (g0 • (1 : M3 ℝ) + g1 • K + g2 • (K * K)) =
      g0 • (1 : M3 ℝ) + (g1 + a * g0 - a * g2 - b * g1) • K + (g2 + a * g1 + b * g0 - b * g2) • (K * K) := by
  have h4 : K * K * K * K = -(K * K) := by rw [h3]; noncomm_ring
  simp only [add_mul, mul_add, smul_mul_assoc, mul_smul_comm, one_mul, mul_one, ← mul_assoc, h3, neg_mul, smul_neg]
  module

/-- half-angle facts behind the `1/tan(θ/2)` term of MatrixLog6 (also true at θ = π, where Lean's and Python's
    `1/tan` both vanish) -/
theorem cot_half (θ : ℝ) (hs : Real.sin (θ / 2) ≠ 0) :
    (1 - Real.cos θ) * (1 / Real.tan (θ / 2)) = Real.sin θ ∧ (1 / Real.tan (θ / 2)) * Real.sin θ = 1 + Real.cos θ := by
  have hct : 1 / Real.tan (θ / 2) = Real.cos (θ / 2) / Real.sin (θ / 2) := by
    rw [Real.tan_eq_sin_div_cos]
    by_cases hc : Real.cos (θ / 2) = 0
    · simp [hc]
    · field_simp
  have hsin : Real.sin θ = 2 * Real.sin (θ / 2) * Real.cos (θ / 2) := by
    have := Real.sin_two_mul (θ / 2)
    rw [show 2 * (θ / 2) = θ by ring] at this; exact this
  have hcos : Real.cos θ = 2 * Real.cos (θ / 2) ^ 2 - 1 := by
    have := Real.cos_two_mul (θ / 2)
    rw [show 2 * (θ / 2) = θ by ring] at this; exact this
  have hsc := Real.sin_sq_add_cos_sq (θ / 2)
  rw [hct, hsin, hcos]
  constructor
  · field_simp
    have : Real.sin (θ / 2) ^ 2 = 1 - Real.cos (θ / 2) ^ 2 := by linarith
    rw [this]; ring
  · field_simp
    ring

/-- the `lterm` of MatrixLog6 undoes the `G` of MatrixExp6: `lterm · G = θ·I` -/
theorem lterm_mul_G (u : V3 ℝ) (hu : u.x ^ 2 + u.y ^ 2 + u.z ^ 2 - 1 = 0) (θ : ℝ) (hθ : θ ≠ 0) (hs : Real.sin (θ / 2) ≠ 0) :
    ((1 : M3 ℝ) + (-(θ / 2)) • hat u + ((1 / θ - 1 / Real.tan (θ / 2) / 2) * θ) • (hat u * hat u)) * Gmat (hat u) θ = θ • (1 : M3 ℝ) := by
  unfold Gmat
  rw [Kpoly_mul (hat u) (hat_cube u hu)]
  obtain ⟨h1, h2⟩ := cot_half θ hs
  set ct := 1 / Real.tan (θ / 2) with hct
  have e1 : (1 - Real.cos θ + -(θ / 2) * θ - -(θ / 2) * (θ - Real.sin θ) - (1 / θ - ct / 2) * θ * (1 - Real.cos θ)) = 0 := by
    have : (1 / θ - ct / 2) * θ = 1 - θ / 2 * ct := by field_simp
    rw [this]
    linear_combination (θ / 2) * h1
  have e2 : (θ - Real.sin θ + -(θ / 2) * (1 - Real.cos θ) + (1 / θ - ct / 2) * θ * θ - (1 / θ - ct / 2) * θ * (θ - Real.sin θ)) = 0 := by
    have : (1 / θ - ct / 2) * θ = 1 - θ / 2 * ct := by field_simp
    rw [this]
    linear_combination (-(θ / 2)) * h2
  have e1' : (1 - Real.cos θ + -(θ / 2) * θ - -(θ / 2) * (θ - Real.sin θ) - (1 / θ - 1 / Real.tan (θ / 2) / 2) * θ * (1 - Real.cos θ)) = 0 := by
    rw [← hct]; exact e1
  have e2' : (θ - Real.sin θ + -(θ / 2) * (1 - Real.cos θ) + (1 / θ - 1 / Real.tan (θ / 2) / 2) * θ * θ - (1 / θ - 1 / Real.tan (θ / 2) / 2) * θ * (θ - Real.sin θ)) = 0 := by
    rw [← hct]; exact e2
  rw [e1', e2']
  module

end Log6

theorem hat_ne_zero (w : V3 ℝ) (h : norm3 w ≠ 0) : ¬ m3IsZero (hat w) := by
  intro hz
  obtain ⟨x, y, z⟩ := w
  unfold m3IsZero at hz
  simp only [hat, ofNat_real_zero, neg_eq_zero] at hz
  obtain ⟨_, hz1, hz2, _, _, hz3, _, _, _⟩ := hz
  apply h
  rw [hz1, hz2, hz3]
  exact norm3_eq_of_sq _ 0 (le_refl 0) (by norm_num)

/-- **log6 ∘ exp6 = id** for every twist whose rotation part has angle in [1e-6, π) (any translation part), and for pure
    translations; `eq0` is the code's `np.array_equal(omgmat, zeros)` -/
theorem log6_exp6 (eq0 : M3 ℝ → Bool) (heq0 : ∀ m, eq0 m = true ↔ m3IsZero m) (V : V6 ℝ)
    (h : V.a = ⟨0, 0, 0⟩ ∨ ((1e-6 : ℝ) ≤ norm3 V.a ∧ norm3 V.a < Real.pi)) :
    matrixLog6 eq0 (matrixExp6 (hat6 V)) = hat6 V := by
  rcases h with h0 | ⟨h1, h2⟩
  · -- pure translation
    have hn : norm3 V.a = 0 := by rw [h0]; exact norm3_eq_of_sq _ 0 (le_refl 0) (by norm_num)
    have hz : nearZero (norm3 V.a) := by rw [hn, nearZero_iff]; norm_num
    rw [exp6_translating V hz]
    unfold matrixLog6
    have hlog : matrixLog3 (M3.one : M3 ℝ) = M3.zero := by
      have := log3_exp3_small ⟨0, 0, 0⟩ (by
        rw [norm3_eq_of_sq _ 0 (le_refl 0) (by norm_num)]; norm_num)
      rw [exp3_small _ (by rw [norm3_eq_of_sq _ 0 (le_refl 0) (by norm_num), nearZero_iff]; norm_num)] at this
      exact this
    simp only [hlog]
    have hzero : eq0 (M3.zero : M3 ℝ) = true := (heq0 _).2 (by unfold m3IsZero M3.zero; simp)
    rw [if_pos hzero]
    obtain ⟨a, b⟩ := V
    simp only at h0
    subst h0
    unfold hat6 hat M3.zero
    simp
  · have hpos : 0 < norm3 V.a := lt_of_lt_of_le (by norm_num) h1
    have hnz : ¬ nearZero (norm3 V.a) := not_nearZero_of_le _ h1
    rw [exp6_rotating V hnz]
    set θ := norm3 V.a with hθ
    have hne : θ ≠ 0 := ne_of_gt hpos
    have hunit := unit_of_pos V.a hpos
    set u := V3.sdiv V.a θ with hu
    have hK : M3.sdiv (hat V.a) θ = hat u := by rw [hu, hat_sdiv]
    have hw : hat V.a = θ • hat u := by
      rw [hu, hat_sdiv, sdiv_eq_smul, smul_smul]
      have : θ * (1 / θ) = 1 := by field_simp
      rw [this, one_smul]
    unfold matrixLog6
    have hlog : matrixLog3 (matrixExp3 (hat V.a)) = hat V.a := log3_exp3 V.a h1 h2
    simp only [hlog]
    have hnotzero : eq0 (hat V.a) = false := by
      rcases hb : eq0 (hat V.a) with _ | _
      · rfl
      · exfalso
        exact hat_ne_zero V.a (by rw [← hθ]; exact hne) ((heq0 _).1 hb)
    rw [hnotzero]
    simp only [Bool.false_eq_true, ↓reduceIte]
    -- the angle recovered from the trace is θ
    have hexp : matrixExp3 (hat V.a) = rod u (Real.sin θ) (Real.cos θ) := exp3_eq_rod V.a hnz
    have htr := rod_trace u (Real.sin θ) (Real.cos θ) hunit
    have hcos_lt : Real.cos θ < 1 := by
      have := Real.cos_lt_cos_of_nonneg_of_le_pi (le_refl 0) h2.le hpos
      simpa using this
    have hcos_gt : -1 < Real.cos θ := by
      have := Real.cos_lt_cos_of_nonneg_of_le_pi hpos.le (le_refl _) h2
      simpa using this
    simp only [ofNat_real_one, ofNat_real, acos_real, tan_real]
    have hang : Real.arccos (safeClip ((M3.trace (matrixExp3 (hat V.a)) - 1) / 2) (-1) 1) = θ := by
      rw [hexp]
      have hacos : (M3.trace (rod u (Real.sin θ) (Real.cos θ)) - 1) / 2 = Real.cos θ := by rw [htr]; ring
      rw [hacos]
      have hclip : safeClip (Real.cos θ) (-1) 1 = Real.cos θ := by
        unfold safeClip smin smax
        rw [if_neg (not_lt.mpr hcos_gt.le), if_pos hcos_lt]
      rw [hclip]
      exact Real.arccos_cos hpos.le h2.le
    rw [hang]
    have hs : Real.sin (θ / 2) ≠ 0 := by
      apply ne_of_gt
      apply Real.sin_pos_of_pos_of_lt_pi <;> linarith [Real.pi_pos]
    have hlg := Log6.lterm_mul_G u hunit θ hne hs
    -- the code's lterm is the polynomial of the lemma
    have hlterm : (M3.one - M3.sdiv (hat V.a) 2 + M3.sdiv (M3.smul (1 / θ - 1 / Real.tan (θ / 2) / 2) (hat V.a * hat V.a)) θ : M3 ℝ) =
        (1 : M3 ℝ) + (-(θ / 2)) • hat u + ((1 / θ - 1 / Real.tan (θ / 2) / 2) * θ) • (hat u * hat u) := by
      rw [hw, M3.one_eq, sdiv_eq_smul, sdiv_eq_smul, M3.smul_eq]
      simp only [smul_mul_assoc, mul_smul_comm, smul_smul]
      have e1 : (1 / 2 : ℝ) * θ = θ / 2 := by ring
      have e2 : 1 / θ * ((1 / θ - 1 / Real.tan (θ / 2) / 2) * (θ * θ)) = (1 / θ - 1 / Real.tan (θ / 2) / 2) * θ := by
        field_simp
      rw [e1, e2]
      module
    rw [hlterm]
    show (⟨hat V.a, _⟩ : T4 ℝ) = hat6 V
    unfold hat6
    congr 1
    rw [hK, V3.sdiv_eq_smul, mulVec_smul, ← mulVec_mul, hlg, smul_mulVec, one_mulVec, smul_smul]
    have : 1 / θ * θ = 1 := by field_simp
    rw [this, one_smul]

/-- the hypothesis of `log6_exp6` is met by a quarter turn about z with a translation -/
example : (1e-6 : ℝ) ≤ norm3 (⟨0, 0, 1⟩ : V3 ℝ) ∧ norm3 (⟨0, 0, 1⟩ : V3 ℝ) < Real.pi := by
  have : norm3 (⟨0, 0, 1⟩ : V3 ℝ) = 1 := norm3_eq_of_sq _ 1 (by norm_num) (by norm_num)
  rw [this]; constructor <;> [norm_num; linarith [Real.two_le_pi]]

/-! ### exp6 ∘ log6 = id below π -/

namespace Log6
open BR.Rot

/-- the same product with the factors exchanged (polynomials in K commute) -/
theorem Kpoly_mul' (K : M3 ℝ) (h3 : K * K * K = -K) (a b g0 g1 g2 : ℝ) :
    (g0 • (1 : M3 ℝ) + g1 • K + g2 • (K * K)) * ((1 : M3 ℝ) + a • K + b • (K * K)) =
      g0 • (1 : M3 ℝ) + (g1 + a * g0 - a * g2 - b * g1) • K + (g2 + a * g1 + b * g0 - b * g2) • (K * K) := by
  simp only [add_mul, mul_add, smul_mul_assoc, mul_smul_comm, one_mul, mul_one, ← mul_assoc, h3, neg_mul, smul_neg]
  module

theorem G_mul_lterm (u : V3 ℝ) (hu : u.x ^ 2 + u.y ^ 2 + u.z ^ 2 - 1 = 0) (θ : ℝ) (hθ : θ ≠ 0) (hs : Real.sin (θ / 2) ≠ 0) :
    Gmat (hat u) θ * ((1 : M3 ℝ) + (-(θ / 2)) • hat u + ((1 / θ - 1 / Real.tan (θ / 2) / 2) * θ) • (hat u * hat u)) = θ • (1 : M3 ℝ) := by
  have h := lterm_mul_G u hu θ hθ hs
  unfold Gmat at h ⊢
  rw [Kpoly_mul (hat u) (hat_cube u hu)] at h
  rw [Kpoly_mul' (hat u) (hat_cube u hu)]
  exact h

end Log6

/-- **exp6 ∘ log6 = id** for every rigid transform whose rotation angle is 0 or lies in [1e-6, π)
    (the half-turn branch, angle exactly π, is decided on the implementation only) -/
theorem exp6_log6_below_pi (eq0 : M3 ℝ → Bool) (heq0 : ∀ m, eq0 m = true ↔ m3IsZero m) (T : T4 ℝ) (hR : IsRot T.R)
    (h : 1 ≤ (T.R.trace - 1) / 2 ∨ (-1 < (T.R.trace - 1) / 2 ∧ (1e-6 : ℝ) ≤ Real.arccos ((T.R.trace - 1) / 2))) :
    matrixExp6 (matrixLog6 eq0 T) = T := by
  obtain ⟨R, p⟩ := T
  simp only at hR h
  rcases h with h1 | ⟨hlo, hθ⟩
  · -- identity rotation
    have hR1 : R = M3.one := by
      obtain ⟨a, b, c, d, e, f, g, h', i⟩ := R
      have F := facts_of_isRot hR
      have htr : (M3.trace (⟨a, b, c, d, e, f, g, h', i⟩ : M3 ℝ)) = a + e + i := by m3simp
      rw [htr] at h1
      exact eq_one_of_trace_ge F (by linarith)
    subst hR1
    have hlog : matrixLog3 (M3.one : M3 ℝ) = M3.zero := by
      unfold matrixLog3
      have : (M3.trace (M3.one : M3 ℝ) - 1) / 2 = 1 := by m3simp; norm_num
      simp only [ofNat_real_one, ofNat_real] at this ⊢
      rw [this, if_pos (le_refl _)]
    unfold matrixLog6
    simp only [hlog]
    rw [if_pos ((heq0 _).2 (by unfold m3IsZero M3.zero; simp))]
    have : (⟨M3.zero, p⟩ : T4 ℝ) = hat6 ⟨⟨0, 0, 0⟩, p⟩ := by
      unfold hat6 hat M3.zero; simp
    rw [this, exp6_translating]
    rw [nearZero_iff, norm3_eq_of_sq _ 0 (le_refl 0) (by norm_num)]; norm_num
  · have hhi : (R.trace - 1) / 2 < 1 := by
      by_contra hc
      have : Real.arccos ((R.trace - 1) / 2) = 0 := Real.arccos_eq_zero.2 (not_lt.mp hc)
      rw [this] at hθ; norm_num at hθ
    obtain ⟨w, hw, hnorm, hpos, hlt, hrod⟩ := log3_generic_form R hR hlo hhi
    set θ := Real.arccos ((R.trace - 1) / 2) with hθdef
    have hne : θ ≠ 0 := ne_of_gt hpos
    have hnz : ¬ nearZero (norm3 w) := by rw [hnorm]; exact not_nearZero_of_le _ hθ
    have hunit := unit_of_pos w (by rw [hnorm]; exact hpos)
    have hexp : matrixExp3 (hat w) = R := by
      have := exp3_log3_generic R hR hlo hhi hθ
      rw [hw] at this; exact this
    unfold matrixLog6
    simp only [hw]
    have hnotzero : eq0 (hat w) = false := by
      rcases hb : eq0 (hat w) with _ | _
      · rfl
      · exfalso
        exact hat_ne_zero w (by rw [hnorm]; exact hne) ((heq0 _).1 hb)
    rw [hnotzero]
    simp only [Bool.false_eq_true, ↓reduceIte]
    simp only [ofNat_real_one, ofNat_real, acos_real, tan_real]
    have hclip : safeClip ((R.trace - 1) / 2) (-1) 1 = (R.trace - 1) / 2 := by
      unfold safeClip smin smax
      rw [if_neg (not_lt.mpr hlo.le), if_pos hhi]
    rw [hclip, ← hθdef]
    set u := V3.sdiv w (norm3 w) with hu
    have hK : M3.sdiv (hat w) θ = hat u := by rw [hu, hnorm, hat_sdiv]
    have hwu : hat w = θ • hat u := by
      rw [hu, hnorm, hat_sdiv, sdiv_eq_smul, smul_smul]
      have : θ * (1 / θ) = 1 := by field_simp
      rw [this, one_smul]
    have hs : Real.sin (θ / 2) ≠ 0 := by
      apply ne_of_gt
      apply Real.sin_pos_of_pos_of_lt_pi <;> linarith [Real.pi_pos]
    have hgl := Log6.G_mul_lterm u hunit θ hne hs
    have hlterm : (M3.one - M3.sdiv (hat w) 2 + M3.sdiv (M3.smul (1 / θ - 1 / Real.tan (θ / 2) / 2) (hat w * hat w)) θ : M3 ℝ) =
        (1 : M3 ℝ) + (-(θ / 2)) • hat u + ((1 / θ - 1 / Real.tan (θ / 2) / 2) * θ) • (hat u * hat u) := by
      rw [hwu, M3.one_eq, sdiv_eq_smul, sdiv_eq_smul, M3.smul_eq]
      simp only [smul_mul_assoc, mul_smul_comm, smul_smul]
      have e1 : (1 / 2 : ℝ) * θ = θ / 2 := by ring
      have e2 : 1 / θ * ((1 / θ - 1 / Real.tan (θ / 2) / 2) * (θ * θ)) = (1 / θ - 1 / Real.tan (θ / 2) / 2) * θ := by
        field_simp
      rw [e1, e2]
      module
    rw [hlterm]
    have hform : (⟨hat w, ((1 : M3 ℝ) + (-(θ / 2)) • hat u + ((1 / θ - 1 / Real.tan (θ / 2) / 2) * θ) • (hat u * hat u)).mulVec p⟩ : T4 ℝ) =
        hat6 ⟨w, ((1 : M3 ℝ) + (-(θ / 2)) • hat u + ((1 / θ - 1 / Real.tan (θ / 2) / 2) * θ) • (hat u * hat u)).mulVec p⟩ := rfl
    rw [hform, exp6_rotating _ hnz]
    simp only
    rw [hexp, hnorm, hK]
    congr 1
    rw [← mulVec_mul, hgl, V3.sdiv_eq_smul, smul_mulVec, one_mulVec, smul_smul]
    have : 1 / θ * θ = 1 := by field_simp
    rw [this, one_smul]

end BR.C01
