/-
  C11 — Stewart platform: the inverse Jacobian is d(leg lengths)/d(spatial twist of the top plate), and
  the leg forces balance the load.

  Modelled: the rows `[q_i × n_i, n_i]` built by `SP.inverseJacobian`, the wrench sum of
  `SP.sumActuatorWrenches`, the transpose map used by `staticForces` / `staticForcesInv`.
  `np.linalg.pinv` is an oracle (contract: inverse of an invertible matrix) — the theorems are stated for
  *any* leg forces τ that solve invJᵀ τ = W, which is what that contract delivers.
-/
import Mathlib.Analysis.SpecialFunctions.Sqrt
import Mathlib.Analysis.Calculus.Deriv.Pow
import Mathlib.Analysis.Calculus.Deriv.Add
import Mathlib.Analysis.Calculus.Deriv.Mul
import BR.Lemmas.SE3
import BR.Model.SP

namespace BR.C11
open BR.SP BR.MR BR.Rot OrdField Scalar

/-! ### geometry of one leg -/

/-- a leg with top joint t, bottom joint b, length ℓ ≠ 0 and unit direction n = (t − b)/ℓ -/
theorem top_eq (b t : V3 ℝ) (h : norm3 (t - b) ≠ 0) : t = b + V3.smul (norm3 (t - b)) (MR.normalize (t - b)) := by
  unfold MR.normalize
  generalize norm3 (t - b) = ℓ at h
  obtain ⟨b1, b2, b3⟩ := b; obtain ⟨t1, t2, t3⟩ := t
  m3simp
  refine ⟨?_, ?_, ?_⟩ <;> field_simp <;> ring

/-- the moment arm may be taken from either joint: t × n = b × n -/
theorem cross_top_eq_cross_bottom (b t : V3 ℝ) (h : norm3 (t - b) ≠ 0) :
    V3.cross t (MR.normalize (t - b)) = V3.cross b (MR.normalize (t - b)) := by
  have ht := top_eq b t h
  generalize MR.normalize (t - b) = n at ht
  generalize norm3 (t - b) = ℓ at ht
  subst ht
  obtain ⟨b1, b2, b3⟩ := b; obtain ⟨n1, n2, n3⟩ := n
  m3ring

theorem normalize_neg (b t : V3 ℝ) : MR.normalize (b - t) = V3.neg (MR.normalize (t - b)) := by
  have hn : norm3 (b - t) = norm3 (t - b) := by
    unfold norm3
    obtain ⟨b1, b2, b3⟩ := b; obtain ⟨t1, t2, t3⟩ := t
    m3simp
    congr 1; ring
  unfold MR.normalize
  rw [hn]
  generalize norm3 (t - b) = ℓ
  obtain ⟨b1, b2, b3⟩ := b; obtain ⟨t1, t2, t3⟩ := t
  m3simp
  refine ⟨?_, ?_, ?_⟩ <;> ring

/-- **one leg, action and reaction**: the wrench `sumActuatorWrenches` books for leg i (force f along bottom − top,
    applied at the top joint) is the negative of f times row i of the inverse Jacobian -/
theorem leg_wrench (b t : V3 ℝ) (f : ℝ) (h : norm3 (t - b) ≠ 0) :
    wrenchAt t (V3.smul f (MR.normalize (b - t))) = V6.smul (-f) (invJacRow b t) := by
  unfold wrenchAt invJacRow
  rw [normalize_neg]
  have hc := cross_top_eq_cross_bottom b t h
  generalize MR.normalize (t - b) = n at hc
  obtain ⟨b1, b2, b3⟩ := b; obtain ⟨t1, t2, t3⟩ := t; obtain ⟨n1, n2, n3⟩ := n
  revert hc
  m3simp
  rintro ⟨h1, h2, h3⟩
  refine ⟨⟨?_, ?_, ?_⟩, ?_, ?_, ?_⟩ <;> first | ring | nlinarith [h1, h2, h3] | skip
  · linear_combination (-f) * h1
  · linear_combination (-f) * h2
  · linear_combination (-f) * h3

/-- every leg has non-zero length -/
def NonDegenerate : List (V3 ℝ) → List (V3 ℝ) → Prop
  | b :: bs, t :: ts => norm3 (t - b) ≠ 0 ∧ NonDegenerate bs ts
  | _, _ => True

theorem v6_add_smul_neg (a b : V6 ℝ) (r s : V6 ℝ) (f : ℝ) (h1 : a = V6.smul (-f) r) (h2 : b = V6.smul (-1) s) :
    a + b = V6.smul (-1) (V6.smul f r + s) := by
  subst h1; subst h2
  obtain ⟨⟨r1, r2, r3⟩, ⟨r4, r5, r6⟩⟩ := r
  obtain ⟨⟨s1, s2, s3⟩, ⟨s4, s5, s6⟩⟩ := s
  m3ring

/-- **the legs' summed wrench on the base is the negative of the wrench they exert on the top plate**
    (invJacᵀ τ), for any leg forces and any number of legs -/
theorem sumActuator_eq_neg (bs ts : List (V3 ℝ)) (τ : List ℝ) (h : NonDegenerate bs ts) :
    sumActuatorWrenches bs ts τ = V6.smul (-1) (applyRowsT (invJac bs ts) τ) := by
  induction bs generalizing ts τ with
  | nil => simp only [sumActuatorWrenches, invJac, List.zipWith_nil_left, applyRowsT]; unfold v6zero; m3ring
  | cons b bs ih =>
    cases ts with
    | nil => simp only [sumActuatorWrenches, invJac, List.zipWith_nil_right, applyRowsT]; unfold v6zero; m3ring
    | cons t ts =>
      cases τ with
      | nil => simp only [sumActuatorWrenches, invJac, List.zipWith_cons_cons, applyRowsT]; unfold v6zero; m3ring
      | cons f fs =>
        simp only [sumActuatorWrenches, invJac, List.zipWith_cons_cons, applyRowsT]
        exact v6_add_smul_neg _ _ _ _ f (leg_wrench b t f h.1) (ih ts fs h.2)

/-- **static equilibrium**: leg forces τ that carry the wrench W (invJacᵀ τ = W — what `staticForces` computes
    through the pseudo-inverse of an invertible inverse Jacobian) load the base with exactly −W, and mapping them
    back (`staticForcesInv`: invJacᵀ τ) returns W -/
theorem statics_balance (bs ts : List (V3 ℝ)) (τ : List ℝ) (W : V6 ℝ) (h : NonDegenerate bs ts)
    (hτ : applyRowsT (invJac bs ts) τ = W) :
    sumActuatorWrenches bs ts τ = V6.smul (-1) W ∧ applyRowsT (invJac bs ts) τ = W :=
  ⟨by rw [sumActuator_eq_neg bs ts τ h, hτ], hτ⟩

/-! ### leg rates -/

/-- velocity of a point x of a body moving with spatial twist V = (ω, v) -/
noncomputable def pointVel (V : V6 ℝ) (x : V3 ℝ) : V3 ℝ := V3.cross V.a x + V.b

/-- **leg rate = inverse-Jacobian row · twist**: the component along the leg of the top joint's velocity under the
    spatial twist V equals `[q × n, n] · V`, q the *bottom* joint -/
theorem row_dot_twist (b t : V3 ℝ) (V : V6 ℝ) (h : norm3 (t - b) ≠ 0) :
    V6.dot (invJacRow b t) V = V3.dot (MR.normalize (t - b)) (pointVel V t) := by
  unfold invJacRow pointVel
  have hc := cross_top_eq_cross_bottom b t h
  generalize MR.normalize (t - b) = n at hc
  obtain ⟨b1, b2, b3⟩ := b; obtain ⟨t1, t2, t3⟩ := t; obtain ⟨n1, n2, n3⟩ := n
  obtain ⟨⟨w1, w2, w3⟩, ⟨v1, v2, v3⟩⟩ := V
  revert hc
  m3simp
  rintro ⟨h1, h2, h3⟩
  linear_combination (-w1) * h1 + (-w2) * h2 + (-w3) * h3

/-- derivative of the distance from a moving point to a fixed one -/
theorem hasDerivAt_norm3_sub (x y z : ℝ → ℝ) (x' y' z' : ℝ) (b : V3 ℝ)
    (hx : HasDerivAt x x' 0) (hy : HasDerivAt y y' 0) (hz : HasDerivAt z z' 0)
    (hne : norm3 ((⟨x 0, y 0, z 0⟩ : V3 ℝ) - b) ≠ 0) :
    HasDerivAt (fun s => norm3 ((⟨x s, y s, z s⟩ : V3 ℝ) - b))
      (V3.dot (MR.normalize ((⟨x 0, y 0, z 0⟩ : V3 ℝ) - b)) ⟨x', y', z'⟩) 0 := by
  obtain ⟨b1, b2, b3⟩ := b
  have hq : HasDerivAt (fun s => (x s - b1) * (x s - b1) + (y s - b2) * (y s - b2) + (z s - b3) * (z s - b3))
      (2 * ((x 0 - b1) * x' + (y 0 - b2) * y' + (z 0 - b3) * z')) 0 := by
    have hx1 : HasDerivAt (fun s => x s - b1) x' 0 := (hasDerivAt_sub_const_iff b1).2 hx
    have hy1 : HasDerivAt (fun s => y s - b2) y' 0 := (hasDerivAt_sub_const_iff b2).2 hy
    have hz1 : HasDerivAt (fun s => z s - b3) z' 0 := (hasDerivAt_sub_const_iff b3).2 hz
    have h1 := HasDerivAt.mul hx1 hx1
    have h2 := HasDerivAt.mul hy1 hy1
    have h3 := HasDerivAt.mul hz1 hz1
    have h := (h1.add h2).add h3
    have e : (x' * (x 0 - b1) + (x 0 - b1) * x' + (y' * (y 0 - b2) + (y 0 - b2) * y') + (z' * (z 0 - b3) + (z 0 - b3) * z')) =
        2 * ((x 0 - b1) * x' + (y 0 - b2) * y' + (z 0 - b3) * z') := by ring
    rw [← e]
    exact h
  have hpos : (x 0 - b1) * (x 0 - b1) + (y 0 - b2) * (y 0 - b2) + (z 0 - b3) * (z 0 - b3) ≠ 0 := by
    intro h0
    apply hne
    unfold norm3
    show Real.sqrt _ = 0
    have : ((⟨x 0, y 0, z 0⟩ : V3 ℝ) - ⟨b1, b2, b3⟩) = ⟨x 0 - b1, y 0 - b2, z 0 - b3⟩ := rfl
    rw [this]
    simp only
    rw [h0, Real.sqrt_zero]
  have hs := hq.sqrt hpos
  have hfun : (fun s => norm3 ((⟨x s, y s, z s⟩ : V3 ℝ) - ⟨b1, b2, b3⟩)) =
      fun s => Real.sqrt ((x s - b1) * (x s - b1) + (y s - b2) * (y s - b2) + (z s - b3) * (z s - b3)) := rfl
  rw [hfun]
  convert hs using 1
  unfold MR.normalize norm3 V3.dot V3.sdiv
  show _ = _
  have : ((⟨x 0, y 0, z 0⟩ : V3 ℝ) - ⟨b1, b2, b3⟩) = ⟨x 0 - b1, y 0 - b2, z 0 - b3⟩ := rfl
  rw [this]
  simp only
  set r := Real.sqrt ((x 0 - b1) * (x 0 - b1) + (y 0 - b2) * (y 0 - b2) + (z 0 - b3) * (z 0 - b3)) with hr
  have hr0 : r ≠ 0 := by
    rw [hr]; exact fun h => hpos ((Real.sqrt_eq_zero' ).1 h |>.antisymm (by nlinarith [mul_self_nonneg (x 0 - b1), mul_self_nonneg (y 0 - b2), mul_self_nonneg (z 0 - b3)]))
  show (x 0 - b1) / r * x' + (y 0 - b2) / r * y' + (z 0 - b3) / r * z' = _
  field_simp

/-- **the inverse Jacobian is the derivative of the leg lengths with respect to the spatial twist**: if the top
    joint of leg i moves along a differentiable path whose velocity at s = 0 is that of a rigid body with spatial
    twist V (ω × t + v — the path of a plate-fixed point under `exp(s[V])·T_top`), the leg's length has derivative
    `invJacRow b t · V` there, with the moment arm taken from the bottom joint b as the code does -/
theorem invJac_is_length_derivative (x y z : ℝ → ℝ) (b : V3 ℝ) (V : V6 ℝ)
    (hx : HasDerivAt x (pointVel V ⟨x 0, y 0, z 0⟩).x 0)
    (hy : HasDerivAt y (pointVel V ⟨x 0, y 0, z 0⟩).y 0)
    (hz : HasDerivAt z (pointVel V ⟨x 0, y 0, z 0⟩).z 0)
    (hne : norm3 ((⟨x 0, y 0, z 0⟩ : V3 ℝ) - b) ≠ 0) :
    HasDerivAt (fun s => norm3 ((⟨x s, y s, z s⟩ : V3 ℝ) - b)) (V6.dot (invJacRow b ⟨x 0, y 0, z 0⟩) V) 0 := by
  rw [row_dot_twist b _ V hne]
  exact hasDerivAt_norm3_sub x y z _ _ _ b hx hy hz hne

/-- non-vacuity: a leg of length 1 along z -/
example : NonDegenerate [(⟨0, 0, 0⟩ : V3 ℝ)] [(⟨0, 0, 1⟩ : V3 ℝ)] := by
  refine ⟨?_, trivial⟩
  have : norm3 ((⟨0, 0, 1⟩ : V3 ℝ) - ⟨0, 0, 0⟩) = 1 := by
    apply norm3_eq_of_sq _ 1 (by norm_num)
    show (0 - 0 : ℝ) ^ 2 + (0 - 0) ^ 2 + (1 - 0) ^ 2 = 1 ^ 2
    norm_num
  rw [this]; norm_num

end BR.C11
