/-
  C01 — exp6 ∘ log6 = id on the half-turn branch, and hence for every rigid transform whose rotation angle is 0 or at
  least the 1e-6 cut-off (all of SE(3) outside the band).
-/
import BR.Props.C01
import BR.Lemmas.SO3Half
import BR.Props.C06Deriv

namespace BR.C01
open BR.MR BR.Rot OrdField Scalar

/-- the common tail of the two non-trivial branches: once the logarithm of the rotation block is `[w]` with |w| = θ equal to
    the angle the code recovers from the trace, exp6 undoes log6 -/
theorem exp6_log6_core (eq0 : M3 ℝ → Bool) (heq0 : ∀ m, eq0 m = true ↔ m3IsZero m) (R : M3 ℝ) (p w : V3 ℝ) (θ : ℝ)
    (hθ6 : (1e-6 : ℝ) ≤ θ) (hθle : θ ≤ Real.pi)
    (hw : matrixLog3 R = hat w) (hnorm : norm3 w = θ)
    (hang : Real.arccos (safeClip ((R.trace - 1) / 2) (-1) 1) = θ) (hexp : matrixExp3 (hat w) = R) :
    matrixExp6 (matrixLog6 eq0 ⟨R, p⟩) = ⟨R, p⟩ := by
  have hpos : 0 < θ := lt_of_lt_of_le (by norm_num) hθ6
  have hne : θ ≠ 0 := ne_of_gt hpos
  have hnz : ¬ nearZero (norm3 w) := by rw [hnorm]; exact not_nearZero_of_le _ hθ6
  have hunit := unit_of_pos w (by rw [hnorm]; exact hpos)
  unfold matrixLog6
  simp only [hw]
  have hnotzero : eq0 (hat w) = false := by
    rcases hb : eq0 (hat w) with _ | _
    · rfl
    · exfalso
      exact hat_ne_zero w (by rw [hnorm]; exact hne) ((heq0 _).1 hb)
  rw [hnotzero]
  simp only [Bool.false_eq_true, ↓reduceIte]
  simp only [ofNat_real_one, ofNat_real, acos_real, tan_real]
  rw [hang]
  set u := V3.sdiv w (norm3 w) with hu
  have hK : M3.sdiv (hat w) θ = hat u := by rw [hu, hnorm, hat_sdiv]
  have hwu : hat w = θ • hat u := by
    rw [hu, hnorm, hat_sdiv, sdiv_eq_smul, smul_smul]
    have : θ * (1 / θ) = 1 := by field_simp
    rw [this, one_smul]
  have hs : Real.sin (θ / 2) ≠ 0 := by
    apply ne_of_gt
    apply Real.sin_pos_of_pos_of_lt_pi <;> linarith [Real.pi_pos]
  have hgl := Log6.G_mul_lterm u hunit θ hne hs
  have hlterm : (M3.one - M3.sdiv (hat w) 2 + M3.sdiv (M3.smul (1 / θ - 1 / Real.tan (θ / 2) / 2) (hat w * hat w)) θ : M3 ℝ) =
      (1 : M3 ℝ) + (-(θ / 2)) • hat u + ((1 / θ - 1 / Real.tan (θ / 2) / 2) * θ) • (hat u * hat u) := by
    rw [hwu, M3.one_eq, sdiv_eq_smul, sdiv_eq_smul, M3.smul_eq]
    simp only [smul_mul_assoc, mul_smul_comm, smul_smul]
    have e1 : (1 / 2 : ℝ) * θ = θ / 2 := by ring
    have e2 : 1 / θ * ((1 / θ - 1 / Real.tan (θ / 2) / 2) * (θ * θ)) = (1 / θ - 1 / Real.tan (θ / 2) / 2) * θ := by
      field_simp
    rw [e1, e2]
    module
  rw [hlterm]
  have hform : (⟨hat w, ((1 : M3 ℝ) + (-(θ / 2)) • hat u + ((1 / θ - 1 / Real.tan (θ / 2) / 2) * θ) • (hat u * hat u)).mulVec p⟩ : T4 ℝ) =
      hat6 ⟨w, ((1 : M3 ℝ) + (-(θ / 2)) • hat u + ((1 / θ - 1 / Real.tan (θ / 2) / 2) * θ) • (hat u * hat u)).mulVec p⟩ := rfl
  rw [hform, exp6_rotating _ hnz]
  simp only
  rw [hexp, hnorm, hK]
  congr 1
  rw [← mulVec_mul, hgl, V3.sdiv_eq_smul, smul_mulVec, one_mulVec, smul_smul]
  have : 1 / θ * θ = 1 := by field_simp
  rw [this, one_smul]

/-- **exp6 ∘ log6 = id on the half-turn branch** (rotation angle exactly π, any of the three pivots) -/
theorem exp6_log6_halfturn (eq0 : M3 ℝ → Bool) (heq0 : ∀ m, eq0 m = true ↔ m3IsZero m) (T : T4 ℝ) (hR : IsRot T.R)
    (hle : (T.R.trace - 1) / 2 ≤ -1) : matrixExp6 (matrixLog6 eq0 T) = T := by
  obtain ⟨R, p⟩ := T
  simp only at hR hle
  obtain ⟨u, hu, hlog⟩ := log3_halfturn_form R hR hle
  have hnu : norm3 u = 1 := norm3_eq_of_sq u 1 (by norm_num) (by linarith)
  have hnorm : norm3 (V3.smul Real.pi u) = Real.pi := by
    rw [BR.C06D.norm3_smul, hnu, mul_one, abs_of_pos Real.pi_pos]
  have hclip : safeClip ((R.trace - 1) / 2) (-1) 1 = -1 := by
    unfold safeClip smin smax
    by_cases hlt : (R.trace - 1) / 2 < -1
    · rw [if_pos hlt, if_pos (by norm_num)]
    · have : (R.trace - 1) / 2 = -1 := le_antisymm hle (not_lt.mp hlt)
      rw [if_neg hlt, this, if_pos (by norm_num)]
  have hexp : matrixExp3 (hat (V3.smul Real.pi u)) = R := by
    have := exp3_log3_halfturn R hR hle
    rw [hlog] at this; exact this
  exact exp6_log6_core eq0 heq0 R p (V3.smul Real.pi u) Real.pi (by linarith [Real.two_le_pi]) (le_refl _) hlog hnorm
    (by rw [hclip, Real.arccos_neg_one]) hexp

/-- **exp6 ∘ log6 = id for every rigid transform** whose rotation angle is 0 or at least the library's 1e-6 cut-off:
    identity, generic and half-turn branches -/
theorem exp6_log6 (eq0 : M3 ℝ → Bool) (heq0 : ∀ m, eq0 m = true ↔ m3IsZero m) (T : T4 ℝ) (hR : IsRot T.R)
    (h : 1 ≤ (T.R.trace - 1) / 2 ∨ (1e-6 : ℝ) ≤ Real.arccos ((T.R.trace - 1) / 2)) :
    matrixExp6 (matrixLog6 eq0 T) = T := by
  by_cases h1 : 1 ≤ (T.R.trace - 1) / 2
  · exact exp6_log6_below_pi eq0 heq0 T hR (Or.inl h1)
  · by_cases h2 : (T.R.trace - 1) / 2 ≤ -1
    · exact exp6_log6_halfturn eq0 heq0 T hR h2
    · exact exp6_log6_below_pi eq0 heq0 T hR (Or.inr ⟨not_le.mp h2, h.resolve_left h1⟩)

end BR.C01
