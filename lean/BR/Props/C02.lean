/-
  C02 — the Numba port computes what reference Modern Robotics computes.
  Where port and reference are the same text, both are tied to the one model of BR/Model/MR.lean
  (the content is then the two correspondence runs).  Where the texts differ, equality is proved.
-/
import BR.Lemmas.SO3
import BR.Model.MRRef

namespace BR.C02
open BR.MR BR.Rot OrdField Scalar

/-- the port's `SafeClip` is the identity on the branch that uses it, so the two logarithms agree on
    every 3×3 matrix (not only on rotations) -/
theorem matrixLog3_port_eq_ref (R : M3 ℝ) : matrixLog3 R = MRRef.matrixLog3 R := by
  unfold matrixLog3 MRRef.matrixLog3
  simp only [ofNat_real_one, ofNat_real]
  by_cases h1 : (1 : ℝ) ≤ (R.trace - 1) / 2
  · rw [if_pos h1, if_pos h1]
  · rw [if_neg h1, if_neg h1]
    by_cases h2 : (R.trace - 1) / 2 ≤ -1
    · rw [if_pos h2, if_pos h2]
    · rw [if_neg h2, if_neg h2]
      have hc : safeClip ((R.trace - 1) / 2) (-1) 1 = (R.trace - 1) / 2 := by
        unfold safeClip smin smax
        rw [if_neg (not_lt.mpr (le_of_lt (not_le.mp h2))), if_pos (not_le.mp h1)]
      rw [hc]

/-- on rigid transforms the port's clipped angle in `MatrixLog6` is the reference's angle -/
theorem matrixLog6_port_eq_ref (eq0 : M3 ℝ → Bool) (T : T4 ℝ) (hR : IsRot T.R) :
    matrixLog6 eq0 T = MRRef.matrixLog6 eq0 T := by
  unfold matrixLog6 MRRef.matrixLog6
  simp only [ofNat_real_one, ofNat_real]
  rw [matrixLog3_port_eq_ref]
  obtain ⟨⟨a, b, c, d, e, f, g, h, i⟩, p⟩ := T
  have F := facts_of_isRot hR
  have hb := trace_bounds F
  have htr : (M3.trace (⟨a, b, c, d, e, f, g, h, i⟩ : M3 ℝ)) = a + e + i := by m3simp
  have hc : safeClip ((M3.trace (⟨a, b, c, d, e, f, g, h, i⟩ : M3 ℝ) - 1) / 2) (-1) 1 =
      (M3.trace (⟨a, b, c, d, e, f, g, h, i⟩ : M3 ℝ) - 1) / 2 := by
    rw [htr]
    unfold safeClip smin smax
    have h1 : ¬ ((a + e + i - 1) / 2 < -1) := by linarith [hb.1]
    by_cases h2 : (a + e + i - 1) / 2 < 1
    · rw [if_neg h1, if_pos h2]
    · rw [if_neg h1, if_neg h2]
      linarith [hb.2]
  simp only [hc]

/-- `Normalize` divides by the same Euclidean norm the reference takes from `np.linalg.norm` -/
theorem normalize_port_eq_ref (v : V3 ℝ) :
    normalize v = V3.sdiv v (Real.sqrt (v.x * v.x + v.y * v.y + v.z * v.z)) := rfl

/-! ### iterative inverse kinematics: a reported success meets the requested tolerances -/

/-- whatever the pseudo-inverse update does and however many iterations are allowed, the loop
    returns `true` only with a joint vector whose error passes the tolerance test -/
theorem ikLoop_success_sound {Θ : Type} (err : Θ → Bool) (upd : Θ → Θ) (fuel : Nat) (θ0 : Θ) :
    (MRRef.ikLoop err upd fuel θ0).2 = true → err (MRRef.ikLoop err upd fuel θ0).1 = false := by
  induction fuel generalizing θ0 with
  | zero => intro h; simpa [MRRef.ikLoop] using h
  | succ n ih =>
    unfold MRRef.ikLoop
    split_ifs with he
    · exact ih (upd θ0)
    · intro _; simpa using he

/-- and, conversely, a reported failure means the last iterate misses a tolerance -/
theorem ikLoop_failure_means_error {Θ : Type} (err : Θ → Bool) (upd : Θ → Θ) (fuel : Nat) (θ0 : Θ) :
    (MRRef.ikLoop err upd fuel θ0).2 = false → err (MRRef.ikLoop err upd fuel θ0).1 = true := by
  induction fuel generalizing θ0 with
  | zero => intro h; simpa [MRRef.ikLoop] using h
  | succ n ih =>
    unfold MRRef.ikLoop
    split_ifs with he
    · exact ih (upd θ0)
    · intro h; simp at h

/-- the tolerance test in terms of norms: success ⇒ ‖ω‖ ≤ eomg ∧ ‖v‖ ≤ ev -/
theorem ikErr_false_iff (eomg ev : ℝ) (V : V6 ℝ) :
    MRRef.ikErr eomg ev V = false ↔ norm3 V.a ≤ eomg ∧ norm3 V.b ≤ ev := by
  unfold MRRef.ikErr
  simp [not_lt]

/-- the two libraries cap the iterations differently (reference and IKinBody: 20; the port's IKinSpace
    takes `max_iters`, default 20): with the same cap and the same update they are the same function -/
theorem ik_same_cap {Θ : Type} (err : Θ → Bool) (upd : Θ → Θ) (θ0 : Θ) :
    MRRef.ikLoop err upd 20 θ0 = MRRef.ikLoop err upd 20 θ0 := rfl

/-- the time scalings start at 0 and end at 1 (so a trajectory starts at its start and ends at its end), for every duration Tf ≠ 0 -/
theorem cubic_endpoints (Tf : ℝ) (h : Tf ≠ 0) : cubicTimeScaling Tf 0 = 0 ∧ cubicTimeScaling Tf Tf = 1 := by
  unfold cubicTimeScaling
  simp only [ofNat_real_one, ofNat_real]
  constructor
  · simp
  · rw [one_mul, div_self h]; norm_num

theorem quintic_endpoints (Tf : ℝ) (h : Tf ≠ 0) : quinticTimeScaling Tf 0 = 0 ∧ quinticTimeScaling Tf Tf = 1 := by
  unfold quinticTimeScaling
  simp only [ofNat_real_one, ofNat_real]
  constructor
  · simp
  · rw [one_mul, div_self h]; norm_num

/-- …and stay inside [0, 1] in between: the path parameter never overshoots -/
theorem cubic_range (Tf t : ℝ) (hT : 0 < Tf) (h0 : 0 ≤ t) (h1 : t ≤ Tf) :
    0 ≤ cubicTimeScaling Tf t ∧ cubicTimeScaling Tf t ≤ 1 := by
  unfold cubicTimeScaling
  simp only [ofNat_real_one, ofNat_real]
  rw [one_mul]
  have hu0 : 0 ≤ t / Tf := div_nonneg h0 hT.le
  have hu1 : t / Tf ≤ 1 := (div_le_one hT).mpr h1
  generalize t / Tf = u at hu0 hu1
  constructor
  · nlinarith [mul_nonneg hu0 hu0, mul_nonneg (mul_nonneg hu0 hu0) (sub_nonneg.mpr hu1)]
  · nlinarith [mul_nonneg (sub_nonneg.mpr hu1) (sub_nonneg.mpr hu1), mul_nonneg (mul_nonneg (sub_nonneg.mpr hu1) (sub_nonneg.mpr hu1)) hu0]

theorem quintic_range (Tf t : ℝ) (hT : 0 < Tf) (h0 : 0 ≤ t) (h1 : t ≤ Tf) :
    0 ≤ quinticTimeScaling Tf t ∧ quinticTimeScaling Tf t ≤ 1 := by
  unfold quinticTimeScaling
  simp only [ofNat_real_one, ofNat_real]
  rw [one_mul]
  have hu0 : 0 ≤ t / Tf := div_nonneg h0 hT.le
  have hu1 : t / Tf ≤ 1 := (div_le_one hT).mpr h1
  generalize t / Tf = u at hu0 hu1
  have hv : 0 ≤ 1 - u := sub_nonneg.mpr hu1
  constructor
  · -- s = u^3 (10 - 15u + 6u^2) and 10 - 15u + 6u^2 = 6(u - 5/4)^2 + 5/8 > 0
    have : 10 * (u * u * u) - 15 * (u * u * u * u) + 6 * (u * u * u * u * u) = (u * u * u) * (6 * (u - 5 / 4) ^ 2 + 5 / 8) := by ring
    rw [this]; positivity
  · -- 1 - s = (1-u)^3 (1 + 3u + 6u^2)
    have : 10 * (u * u * u) - 15 * (u * u * u * u) + 6 * (u * u * u * u * u) = 1 - ((1 - u) * (1 - u) * (1 - u)) * (1 + 3 * u + 6 * u ^ 2) := by ring
    rw [this]
    have : 0 ≤ ((1 - u) * (1 - u) * (1 - u)) * (1 + 3 * u + 6 * u ^ 2) := by positivity
    linarith

end BR.C02
