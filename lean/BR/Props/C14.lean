/-
  C14 — value semantics: operators and queries neither mutate nor alias their operands.
  Soundness of the syntactic analysis of BR/Model/Heap.lean for *every* heap, every placement
  (and aliasing) of the operand buffers, and every computed content.
-/
import BR.Model.Heap
import BR.Model.HeapOps
import Mathlib.Tactic.Linarith

namespace BR.C14
open BR.Heap

/-- invariant linking the concrete state to the syntactic flags: the first `n0` buffers (everything
    that existed before the operation) are untouched, and fresh-flagged locals point past them -/
structure Inv (n0 : Nat) (h0 : List Buf) (flags : List Bool) (s : St) : Prop where
  len : n0 ≤ s.heap.length
  old : ∀ i, i < n0 → s.heap.getD i [] = h0.getD i []
  loc_len : s.locals.length = flags.length
  fresh : ∀ k, flags.getD k false = true → n0 ≤ s.locals.getD k 0 ∧ s.locals.getD k 0 < s.heap.length

theorem refFresh_ge {n0 h0 flags s} (hI : Inv n0 h0 flags s) (args : Nat → Nat) (r : Ref)
    (h : refFresh flags r = true) : n0 ≤ resolve args s r ∧ resolve args s r < s.heap.length := by
  cases r with
  | arg i => simp [refFresh] at h
  | loc k => exact hI.fresh k h

theorem getD_append_new {α} (l : List α) (x : α) (k : Nat) (d : α) :
    (l ++ [x]).getD k d = if k < l.length then l.getD k d else if k = l.length then x else d := by
  simp only [List.getD_eq_getElem?_getD, List.getElem?_append]
  split_ifs with h1 h2
  · rfl
  · subst h2; simp
  · have : ¬ k - l.length < 1 := by omega
    simp [List.getElem?_eq_none (by simp; omega : [x].length ≤ k - l.length)]

theorem inv_step {n0 h0 flags s} (hI : Inv n0 h0 flags s) (args : Nat → Nat) (vals : Buf) (i : Instr)
    (hs : (match i with | .write dst => refFresh flags dst | _ => true) = true) :
    Inv n0 h0 (flagsStep flags i) (exec1 args s vals i) := by
  cases i with
  | allocNew =>
    refine ⟨by simp [exec1]; have := hI.len; omega, ?_, by simp [exec1, flagsStep, hI.loc_len], ?_⟩
    · intro j hj
      simp only [exec1]
      rw [getD_append_new, if_pos (lt_of_lt_of_le hj hI.len)]; exact hI.old j hj
    · intro k hk
      simp only [exec1, flagsStep] at hk ⊢
      rw [getD_append_new] at hk ⊢
      rw [hI.loc_len]
      split_ifs at hk ⊢ with h1 h2
      · have := hI.fresh k hk
        refine ⟨this.1, ?_⟩
        rw [List.length_append, List.length_singleton]; omega
      · refine ⟨hI.len, ?_⟩
        rw [List.length_append, List.length_singleton]; omega
  | allocCopy src =>
    refine ⟨by simp [exec1]; have := hI.len; omega, ?_, by simp [exec1, flagsStep, hI.loc_len], ?_⟩
    · intro j hj
      simp only [exec1]
      rw [getD_append_new, if_pos (lt_of_lt_of_le hj hI.len)]; exact hI.old j hj
    · intro k hk
      simp only [exec1, flagsStep] at hk ⊢
      rw [getD_append_new] at hk ⊢
      rw [hI.loc_len]
      split_ifs at hk ⊢ with h1 h2
      · have := hI.fresh k hk
        refine ⟨this.1, ?_⟩
        rw [List.length_append, List.length_singleton]; omega
      · refine ⟨hI.len, ?_⟩
        rw [List.length_append, List.length_singleton]; omega
  | viewOf src =>
    refine ⟨hI.len, hI.old, by simp [exec1, flagsStep, hI.loc_len], ?_⟩
    intro k hk
    simp only [exec1, flagsStep] at hk ⊢
    rw [getD_append_new] at hk ⊢
    rw [hI.loc_len]
    split_ifs at hk ⊢ with h1 h2
    · exact hI.fresh k hk
    · exact refFresh_ge hI args src hk
  | write dst =>
    simp only at hs
    have hd := refFresh_ge hI args dst hs
    refine ⟨by simp only [exec1, List.length_set]; exact hI.len, ?_, hI.loc_len, ?_⟩
    · intro j hj
      simp only [exec1]
      rw [List.getD_eq_getElem?_getD, List.getElem?_set_ne (by omega), ← List.getD_eq_getElem?_getD]
      exact hI.old j hj
    · intro k hk
      simp only [exec1, flagsStep] at hk ⊢
      have := hI.fresh k hk
      rw [List.length_set]; exact this

theorem inv_exec {n0 h0} (args : Nat → Nat) (oracle : Nat → Buf) (is : List Instr) :
    ∀ flags s n, Inv n0 h0 flags s → writesSafe flags is = true →
      Inv n0 h0 (finalFlags flags is) (exec args oracle s n is) := by
  induction is with
  | nil => intro flags s n hI _; exact hI
  | cons i is ih =>
    intro flags s n hI hw
    simp only [writesSafe, Bool.and_eq_true] at hw
    exact ih _ _ _ (inv_step hI args (oracle n) i hw.1) hw.2

/-- **no mutation**: an operation whose program passes `noMutation` leaves every pre-existing array
    byte-for-byte unchanged — for every heap, every placement and aliasing of the operand arrays
    and every computed content. -/
theorem op_no_mutation (p : Prog) (h : noMutation p = true) (heap : List Buf) (args : Nat → Nat)
    (oracle : Nat → Buf) (i : Nat) (hi : i < heap.length) :
    (exec args oracle ⟨heap, []⟩ 0 p.instrs).heap.getD i [] = heap.getD i [] := by
  have h0 : Inv heap.length heap [] ⟨heap, []⟩ := ⟨le_refl _, fun _ _ => rfl, rfl, by intro k hk; simp at hk⟩
  exact (inv_exec args oracle p.instrs [] _ 0 h0 h).old i hi

/-- **no aliasing**: if moreover the program passes `resultFresh`, every array exposed by the result
    is storage allocated by the operation itself, disjoint from everything that existed before. -/
theorem op_fresh (p : Prog) (h : noMutation p = true) (hr : resultFresh p = true) (heap : List Buf)
    (args : Nat → Nat) (oracle : Nat → Buf) (r : Ref) (hrm : r ∈ p.result) :
    heap.length ≤ resolve args (exec args oracle ⟨heap, []⟩ 0 p.instrs) r := by
  have h0 : Inv heap.length heap [] ⟨heap, []⟩ := ⟨le_refl _, fun _ _ => rfl, rfl, by intro k hk; simp at hk⟩
  have hI := inv_exec args oracle p.instrs [] _ 0 h0 h
  have := List.all_eq_true.mp hr r hrm
  exact (refFresh_ge hI args r this).1

/-- every operation in the property's scope, as transcribed in BR/Model/HeapOps.lean, passes both
    analyses (decided by evaluation of the two Boolean functions on the finite table) -/
theorem scope_ops_value_semantics :
    ∀ op ∈ HeapOps.scope, noMutation op.2 = true ∧ resultFresh op.2 = true := by decide

end BR.C14
