/-
  C06 (body-frame clause) — the body Jacobian the library computes from the body screws B_i = Ad(M⁻¹) S_i is the space
  Jacobian seen from the tool frame:  J_b(θ) e_i = Ad(FK(θ)⁻¹) · J_s(θ) e_i,  for chains of any length.
  Every joint must be "exact" at its angle: prismatic, at angle 0, or with unit axis and |θ| at least the 1e-6 cut-off
  (inside the band the library's exponential is a pure translation and the identities hold only to 1e-6).
-/
import BR.Props.C06Deriv

namespace BR.C06B
open BR.MR BR.Rot BR.C06 BR.C06D OrdField Scalar

noncomputable instance : Monoid (T4 ℝ) where
  mul := (· * ·)
  one := T4.one
  mul_assoc := T4_mul_assoc
  one_mul := T4_one_mul
  mul_one := T4_mul_one

theorem T4.one_eq : (T4.one : T4 ℝ) = 1 := rfl

/-- a joint is exact at its angle: prismatic, at angle 0, or unit axis turned by at least the cut-off -/
def JointExact (S : V6 ℝ) (θ : ℝ) : Prop := S.a = ⟨0, 0, 0⟩ ∨ θ = 0 ∨ (norm3 S.a = 1 ∧ (1e-6 : ℝ) ≤ |θ|)

theorem JointExact.neg {S : V6 ℝ} {θ : ℝ} (h : JointExact S θ) : JointExact S (-θ) := by
  rcases h with h | h | ⟨h1, h2⟩
  · exact Or.inl h
  · exact Or.inr (Or.inl (by rw [h]; simp))
  · exact Or.inr (Or.inr ⟨h1, by rw [abs_neg]; exact h2⟩)

theorem v3zero : (⟨0, 0, 0⟩ : V3 ℝ) = 0 := by
  rw [← V3.zero_eq]; simp only [V3.zero, ofNat_real_zero]

theorem smul_zero_a (S : V6 ℝ) : (V6.smul 0 S).a = ⟨0, 0, 0⟩ := by
  obtain ⟨⟨x, y, z⟩, v⟩ := S
  simp [V6.smul, V3.smul]

theorem jointExp_zero (S : V6 ℝ) : jointExp S 0 = 1 := by
  unfold jointExp
  have hz : nearZero (norm3 (V6.smul 0 S).a) := by
    rw [smul_zero_a, norm3_eq_of_sq _ 0 (le_refl 0) (by norm_num), nearZero_iff]; norm_num
  rw [exp6_translating _ hz, ← T4.one_eq]
  obtain ⟨w, ⟨a, b, c⟩⟩ := S
  simp [V6.smul, V3.smul, T4.one, V3.zero]

/-- the angular part of the scaled screw is zero or at least the cut-off: what `exp6_conj` asks -/
theorem JointExact.conjOK {S : V6 ℝ} {θ : ℝ} (h : JointExact S θ) :
    (V6.smul θ S).a = 0 ∨ (1e-6 : ℝ) ≤ norm3 (V6.smul θ S).a := by
  rcases h with h | h | ⟨h1, h2⟩
  · left
    obtain ⟨w, v⟩ := S
    simp only at h
    subst h
    show V3.smul θ ⟨0, 0, 0⟩ = 0
    simp [V3.smul]; exact v3zero
  · left
    subst h
    rw [smul_zero_a]; exact v3zero
  · right
    show (1e-6 : ℝ) ≤ norm3 (V3.smul θ S.a)
    rw [norm3_smul, h1, mul_one]; exact h2

/-! ### a joint's exponential: inverse, and its own screw is fixed by its adjoint -/

theorem revR_eq (ω : V3 ℝ) (θ : ℝ) : revR ω θ = 1 + Real.sin θ • hat ω + (1 - Real.cos θ) • (hat ω * hat ω) := rfl

theorem rev_neg_mul (ω v : V3 ℝ) (hu : ω.x ^ 2 + ω.y ^ 2 + ω.z ^ 2 - 1 = 0) (θ : ℝ) :
    (⟨revR ω (-θ), revP ω v (-θ)⟩ : T4 ℝ) * ⟨revR ω θ, revP ω v θ⟩ = 1 := by
  have h3 := hat_cube ω hu
  have hsc := Real.sin_sq_add_cos_sq θ
  set K := hat ω with hK
  set s := Real.sin θ with hs
  set c := Real.cos θ with hc
  have hRm : revR ω (-θ) = (1 : M3 ℝ) + (-s) • K + (1 - c) • (K * K) := by
    rw [revR_eq, Real.sin_neg, Real.cos_neg]
  have hRp : revR ω θ = (1 : ℝ) • (1 : M3 ℝ) + s • K + (1 - c) • (K * K) := by
    rw [revR_eq, one_smul]
  have hPp : revP ω v θ = (θ • (1 : M3 ℝ) + (1 - c) • K + (θ - s) • (K * K)).mulVec v := rfl
  have hPm : revP ω v (-θ) = ((-θ) • (1 : M3 ℝ) + (1 - c) • K + (-θ + s) • (K * K)).mulVec v := by
    show (M3.smul (-θ) M3.one + M3.smul (1 - Real.cos (-θ)) (hat ω) + M3.smul (-θ - Real.sin (-θ)) (hat ω * hat ω)).mulVec v = _
    rw [Real.sin_neg, Real.cos_neg, sub_neg_eq_add]
    rfl
  show (⟨revR ω (-θ) * revR ω θ, (revR ω (-θ)).mulVec (revP ω v θ) + revP ω v (-θ)⟩ : T4 ℝ) = ⟨M3.one, V3.zero⟩
  have e1 : revR ω (-θ) * revR ω θ = M3.one := by
    rw [hRm, hRp, BR.C01.Log6.Kpoly_mul K h3, M3.one_eq]
    have z1 : (s + -s * 1 - -s * (1 - c) - (1 - c) * s) = 0 := by ring
    have z2 : (1 - c + -s * s + (1 - c) * 1 - (1 - c) * (1 - c)) = 0 := by nlinarith [hsc]
    rw [z1, z2]; module
  have e2 : (revR ω (-θ)).mulVec (revP ω v θ) + revP ω v (-θ) = V3.zero := by
    rw [hPp, hPm, ← mulVec_mul, hRm, BR.C01.Log6.Kpoly_mul K h3, ← add_mulVec]
    have z1 : (1 - c + -s * θ - -s * (θ - s) - (1 - c) * (1 - c)) = -(1 - c) := by nlinarith [hsc]
    have z2 : (θ - s + -s * (1 - c) + (1 - c) * θ - (1 - c) * (θ - s)) = θ - s := by ring
    rw [z1, z2]
    have : (θ • (1 : M3 ℝ) + -(1 - c) • K + (θ - s) • (K * K) + (-θ • (1 : M3 ℝ) + (1 - c) • K + (-θ + s) • (K * K))) = 0 := by module
    rw [this, ← M3.zero_eq, zero_mulVec, V3.zero_eq]
  rw [e1, e2]

/-- **e^{-[S]θ} · e^{[S]θ} = I** for the library's exponential at an exact joint -/
theorem jointExp_neg_mul (S : V6 ℝ) (θ : ℝ) (h : JointExact S θ) : jointExp S (-θ) * jointExp S θ = 1 := by
  rcases h with h | h | ⟨h1, h2⟩
  · obtain ⟨w, v⟩ := S
    simp only at h
    subst h
    unfold jointExp
    rw [exp6_prismatic, exp6_prismatic, ← T4.one_eq]
    obtain ⟨a, b, c⟩ := v
    show T4.mul _ _ = _
    unfold T4.mul T4.one M3.one V3.zero V3.smul
    m3simp
    refine ⟨⟨?_, ?_, ?_, ?_, ?_, ?_, ?_, ?_, ?_⟩, ?_, ?_, ?_⟩ <;> ring
  · subst h
    rw [neg_zero, jointExp_zero, mul_one]
  · have hsq := norm3_sq S.a
    rw [h1] at hsq
    have hu : S.a.x ^ 2 + S.a.y ^ 2 + S.a.z ^ 2 - 1 = 0 := by linarith
    unfold jointExp
    rw [exp6_revolute S h1 θ h2, exp6_revolute S h1 (-θ) (by rw [abs_neg]; exact h2)]
    exact rev_neg_mul S.a S.b hu θ

theorem jointExp_mul_neg (S : V6 ℝ) (θ : ℝ) (h : JointExact S θ) : jointExp S θ * jointExp S (-θ) = 1 := by
  have := jointExp_neg_mul S (-θ) h.neg
  rw [neg_neg] at this
  exact this

/-- **Ad(e^{[S]θ}) S = S**: a joint's screw is invariant under its own motion -/
theorem adjoint_jointExp_self (S : V6 ℝ) (θ : ℝ) (h : JointExact S θ) : (adjoint (jointExp S θ)).mulVec S = S := by
  rcases h with h | h | ⟨h1, h2⟩
  · obtain ⟨w, ⟨a, b, c⟩⟩ := S
    simp only at h
    subst h
    unfold jointExp
    rw [exp6_prismatic]
    simp only [V3.smul]
    m3simp
    refine ⟨⟨?_, ?_, ?_⟩, ?_, ?_, ?_⟩ <;> ring
  · subst h
    rw [jointExp_zero, ← T4.one_eq]
    obtain ⟨⟨x, y, z⟩, ⟨a, b, c⟩⟩ := S
    m3simp
    refine ⟨⟨?_, ?_, ?_⟩, ?_, ?_, ?_⟩ <;> ring
  · have hsq := norm3_sq S.a
    rw [h1] at hsq
    have hu : S.a.x ^ 2 + S.a.y ^ 2 + S.a.z ^ 2 - 1 = 0 := by linarith
    unfold jointExp
    rw [exp6_revolute S h1 θ h2]
    obtain ⟨⟨x, y, z⟩, ⟨a, b, c⟩⟩ := S
    simp only at hu
    simp only [revR, revP]
    m3simp
    refine ⟨⟨?_, ?_, ?_⟩, ?_, ?_, ?_⟩
    · ring
    · ring
    · ring
    · linear_combination (-(Real.sin θ - θ) * (-b * z + c * y)) * hu
    · linear_combination ((Real.sin θ - θ) * (-a * z + c * x)) * hu
    · linear_combination (-(Real.sin θ - θ) * (-a * y + b * x)) * hu

/-! ### suffix products and the structure of `JacobianBody` -/

/-- inverse of the product of the exponentials of a list of joints: e^{-[S_k]θ_k} ⋯ e^{-[S_1]θ_1} -/
noncomputable def sufInv : List (V6 ℝ × ℝ) → T4 ℝ
  | [] => 1
  | (S, θ) :: rest => sufInv rest * jointExp S (-θ)

def AllExact (l : List (V6 ℝ × ℝ)) : Prop := ∀ j ∈ l, JointExact j.1 j.2

theorem AllExact.tail {j : V6 ℝ × ℝ} {l : List (V6 ℝ × ℝ)} (h : AllExact (j :: l)) : AllExact l :=
  fun k hk => h k (List.mem_cons_of_mem _ hk)

theorem AllExact.head {j : V6 ℝ × ℝ} {l : List (V6 ℝ × ℝ)} (h : AllExact (j :: l)) : JointExact j.1 j.2 :=
  h j (by simp)

theorem fkinSpace_cons (M : T4 ℝ) (S : V6 ℝ) (θ : ℝ) (l : List (V6 ℝ × ℝ)) :
    fkinSpace M ((S, θ) :: l) = jointExp S θ * fkinSpace M l := rfl

/-- FK(l) · (M⁻¹ · (E_1 ⋯ E_k)⁻¹) = I -/
theorem fk_mul_sufInv (M : T4 ℝ) (hM : IsRot M.R) (l : List (V6 ℝ × ℝ)) (h : AllExact l) :
    fkinSpace M l * (transInv M * sufInv l) = 1 := by
  induction l with
  | nil =>
    show M * (transInv M * 1) = 1
    rw [mul_one]; exact BR.C01.mul_transInv M hM
  | cons j l ih =>
    obtain ⟨S, θ⟩ := j
    rw [fkinSpace_cons]
    show jointExp S θ * fkinSpace M l * (transInv M * (sufInv l * jointExp S (-θ))) = 1
    calc jointExp S θ * fkinSpace M l * (transInv M * (sufInv l * jointExp S (-θ)))
        = jointExp S θ * (fkinSpace M l * (transInv M * sufInv l)) * jointExp S (-θ) := by simp only [mul_assoc]
      _ = 1 := by rw [ih h.tail, mul_one]; exact jointExp_mul_neg S θ h.head

theorem jointExp_isRot (S : V6 ℝ) (θ : ℝ) : IsRot (jointExp S θ).R := BR.C01.exp6_mem_SE3 _

theorem sufInv_isRot (l : List (V6 ℝ × ℝ)) : IsRot (sufInv l).R := by
  induction l with
  | nil => exact BR.C01.one_isRot
  | cons j l ih =>
    obtain ⟨S, θ⟩ := j
    show IsRot ((sufInv l).R * (jointExp S (-θ)).R)
    exact isRot_mul ih (jointExp_isRot _ _)

theorem transInv_isRot {T : T4 ℝ} (h : IsRot T.R) : IsRot (transInv T).R := isRot_T h

theorem transInv_transInv (T : T4 ℝ) (h : IsRot T.R) : transInv (transInv T) = T := by
  have h2 := M3.mul_T_of_T_mul h.1 h.2
  obtain ⟨R, p⟩ := T
  obtain ⟨a, b, c, d, e, f, g, h', i⟩ := R
  obtain ⟨x, y, z⟩ := p
  revert h2
  m3simp
  rintro ⟨h1, h2, h3, h4, h5, h6, h7, h8, h9⟩
  refine ⟨trivial, ?_, ?_, ?_⟩
  · linear_combination x * h1 + y * h2 + z * h3
  · linear_combination x * h4 + y * h5 + z * h6
  · linear_combination x * h7 + y * h8 + z * h9

/-- the body screw of a joint: its space screw seen from the home tool frame -/
noncomputable def bodyOf (M : T4 ℝ) (j : V6 ℝ × ℝ) : V6 ℝ × ℝ := ((adjoint (transInv M)).mulVec j.1, j.2)

/-- the exponential of a body screw is the conjugate of the space one: F = M⁻¹ E M -/
theorem bodyExp (M : T4 ℝ) (hM : IsRot M.R) (S : V6 ℝ) (θ : ℝ) (h : JointExact S θ) :
    matrixExp6 (hat6 (V6.smul θ ((adjoint (transInv M)).mulVec S))) = transInv M * jointExp S θ * M := by
  rw [← adjoint_smul, exp6_conj (transInv M) (transInv_isRot hM) _ h.conjOK, transInv_transInv M hM]
  rfl

/-- what `JacobianBody` computes, joint by joint -/
noncomputable def bodyCols (M : T4 ℝ) : List (V6 ℝ × ℝ) → List (V6 ℝ)
  | [] => []
  | j :: tail => (adjoint (transInv M * sufInv tail)).mulVec j.1 :: bodyCols M tail

theorem adjoint_mul' (A B : T4 ℝ) (hA : IsRot A.R) (V : V6 ℝ) :
    (adjoint (A * B)).mulVec V = (adjoint A).mulVec ((adjoint B).mulVec V) := by
  rw [BR.C01.adjoint_mul A B hA]
  obtain ⟨⟨a1, a2, a3⟩, ⟨a4, a5, a6⟩⟩ := V
  generalize adjoint A = X
  generalize adjoint B = Y
  obtain ⟨X1, X2, X3, X4⟩ := X
  obtain ⟨Y1, Y2, Y3, Y4⟩ := Y
  cases X1; cases X2; cases X3; cases X4; cases Y1; cases Y2; cases Y3; cases Y4
  m3ring

theorem bodyAux_spec (M : T4 ℝ) (hM : IsRot M.R) (tail : List (V6 ℝ × ℝ)) :
    ∀ (j : V6 ℝ × ℝ), AllExact tail →
      jacobianBodyAux ((j :: tail).map (bodyOf M)) = (transInv M * sufInv tail * M, bodyCols M (j :: tail)) := by
  induction tail with
  | nil =>
    intro j _
    obtain ⟨S, θ⟩ := j
    show ((T4.one : T4 ℝ), [(adjoint (transInv M)).mulVec S]) = _
    have h1 : transInv M * sufInv [] * M = T4.one := by
      show transInv M * 1 * M = T4.one
      rw [mul_one]; exact BR.C01.transInv_mul M hM.1
    rw [h1]
    simp only [bodyCols, sufInv, mul_one]
  | cons j' rest ih =>
    intro j hall
    obtain ⟨S, θ⟩ := j
    obtain ⟨S', θ'⟩ := j'
    have hI := ih (S', θ') hall.tail
    simp only [List.map_cons] at hI ⊢
    show (let (T, cols) := jacobianBodyAux (bodyOf M (S', θ') :: List.map (bodyOf M) rest)
          let T' := T * matrixExp6 (hat6 (V6.smul (-θ') (bodyOf M (S', θ')).1))
          (T', (adjoint T').mulVec (bodyOf M (S, θ)).1 :: cols)) = _
    rw [hI]
    simp only [bodyOf]
    rw [bodyExp M hM S' (-θ') hall.head.neg]
    have hT' : transInv M * sufInv rest * M * (transInv M * jointExp S' (-θ') * M) = transInv M * sufInv ((S', θ') :: rest) * M := by
      show _ = transInv M * (sufInv rest * jointExp S' (-θ')) * M
      have hmm : M * transInv M = 1 := BR.C01.mul_transInv M hM
      calc transInv M * sufInv rest * M * (transInv M * jointExp S' (-θ') * M)
          = transInv M * sufInv rest * (M * transInv M) * jointExp S' (-θ') * M := by simp only [mul_assoc]
        _ = transInv M * (sufInv rest * jointExp S' (-θ')) * M := by rw [hmm]; simp only [mul_assoc, mul_one]
    rw [hT']
    congr 1
    simp only [bodyCols]
    congr 1
    -- Ad(M⁻¹ X M) Ad(M⁻¹) S = Ad(M⁻¹ X) S
    set X := sufInv ((S', θ') :: rest) with hX
    have hXR : IsRot X.R := sufInv_isRot _
    have hA : IsRot (transInv M * X * M).R := by
      show IsRot ((transInv M).R * X.R * M.R)
      exact isRot_mul (isRot_mul (transInv_isRot hM) hXR) hM
    rw [← adjoint_mul' _ _ hA]
    have : transInv M * X * M * transInv M = transInv M * X := by
      have hmm : M * transInv M = 1 := BR.C01.mul_transInv M hM
      calc transInv M * X * M * transInv M = transInv M * X * (M * transInv M) := by simp only [mul_assoc]
        _ = transInv M * X := by rw [hmm, mul_one]
    rw [this]

theorem bodyCols_get (M : T4 ℝ) (l : List (V6 ℝ × ℝ)) (i : Nat) (hi : i < l.length) :
    (bodyCols M l)[i]? = some ((adjoint (transInv M * sufInv (l.drop (i + 1)))).mulVec (l[i]).1) := by
  induction l generalizing i with
  | nil => simp at hi
  | cons j l ih =>
    cases i with
    | zero => simp [bodyCols]
    | succ k =>
      simp only [bodyCols, List.getElem?_cons_succ, List.getElem_cons_succ, List.drop_succ_cons]
      exact ih k (by simpa using hi)

theorem jacobianBody_cols (M : T4 ℝ) (hM : IsRot M.R) (joints : List (V6 ℝ × ℝ)) (hall : AllExact joints) :
    jacobianBody (joints.map (bodyOf M)) = bodyCols M joints := by
  cases joints with
  | nil => rfl
  | cons j tail =>
    unfold jacobianBody
    rw [bodyAux_spec M hM tail j hall.tail]

theorem fkinSpace_isRot (M : T4 ℝ) (hM : IsRot M.R) (l : List (V6 ℝ × ℝ)) : IsRot (fkinSpace M l).R := by
  induction l with
  | nil => exact hM
  | cons j l ih =>
    obtain ⟨S, θ⟩ := j
    show IsRot ((jointExp S θ).R * (fkinSpace M l).R)
    exact isRot_mul (jointExp_isRot _ _) ih

theorem AllExact.drop {l : List (V6 ℝ × ℝ)} (h : AllExact l) (k : Nat) : AllExact (l.drop k) :=
  fun j hj => h j (List.mem_of_mem_drop hj)

/-- **the body Jacobian is the space Jacobian seen from the tool frame**: for the body screws B_k = Ad(M⁻¹) S_k the library's
    JacobianBody column i equals Ad(FK(θ)⁻¹) applied to column i of JacobianSpace (`jacobianSpace_col`), for chains of any
    length and every configuration whose joints are exact -/
theorem jacobianBody_eq (M : T4 ℝ) (hM : IsRot M.R) (joints : List (V6 ℝ × ℝ)) (hall : AllExact joints)
    (i : Nat) (hi : i < joints.length) :
    (jacobianBody (joints.map (bodyOf M)))[i]? =
      some ((adjoint (transInv (fkinSpace M joints))).mulVec ((adjoint (prefixProd T4.one joints i)).mulVec (joints[i]).1)) := by
  rw [jacobianBody_cols M hM joints hall, bodyCols_get M joints i hi]
  congr 1
  set S := (joints[i]).1 with hS
  set θ := (joints[i]).2 with hθ
  set rest := joints.drop (i + 1) with hrest
  set P := prefixProd T4.one joints i with hP
  set T := fkinSpace M joints with hT
  have hex : JointExact S θ := hall _ (List.getElem_mem hi)
  have hTR : IsRot T.R := fkinSpace_isRot M hM joints
  have hPR : IsRot P.R := prefixProd_isRot T4.one BR.C01.one_isRot joints i
  -- T = P · (E_i · FK(rest))
  have hsplit : T = P * (jointExp S θ * fkinSpace M rest) := by
    have := fk_split M T4.one joints i hi θ
    rw [T4_one_mul, hθ, setAngle_self joints i hi] at this
    exact this
  -- T · (M⁻¹ · sufInv rest · E_i(−θ)) = P
  have hTZ : T * (transInv M * sufInv rest * jointExp S (-θ)) = P := by
    rw [hsplit]
    calc P * (jointExp S θ * fkinSpace M rest) * (transInv M * sufInv rest * jointExp S (-θ))
        = P * (jointExp S θ * (fkinSpace M rest * (transInv M * sufInv rest)) * jointExp S (-θ)) := by simp only [mul_assoc]
      _ = P := by rw [fk_mul_sufInv M hM rest (hall.drop _), mul_one, jointExp_mul_neg S θ hex, mul_one]
  have hZ : transInv T * P = transInv M * sufInv rest * jointExp S (-θ) := by
    rw [← hTZ, ← mul_assoc]
    have : transInv T * T = 1 := BR.C01.transInv_mul T hTR.1
    rw [this, one_mul]
  have hMS : IsRot (transInv M * sufInv rest).R := by
    show IsRot ((transInv M).R * (sufInv rest).R)
    exact isRot_mul (transInv_isRot hM) (sufInv_isRot _)
  rw [← adjoint_mul' _ _ (transInv_isRot hTR), hZ, adjoint_mul' _ _ hMS, adjoint_jointExp_self S (-θ) hex.neg]

/-- non-vacuity: a two-joint chain (unit z axis turned by 1, prismatic along x) is exact -/
example : AllExact [((⟨⟨0, 0, 1⟩, ⟨0, 0, 0⟩⟩ : V6 ℝ), (1 : ℝ)), (⟨⟨0, 0, 0⟩, ⟨1, 0, 0⟩⟩, 0.3)] := by
  intro j hj
  simp only [List.mem_cons, List.mem_nil_iff, or_false] at hj
  rcases hj with rfl | rfl
  · right; right
    exact ⟨norm3_eq_of_sq _ 1 (by norm_num) (by norm_num), by rw [abs_one]; norm_num⟩
  · left; rfl

end BR.C06B
