/-
  C10 — Stewart platform: the published state stays coherent over any history and a verdict of
  "valid" means that every enabled constraint holds.

  The theorems are about the state machine of BR/Model/SP.lean and hold for *every* scalar instance
  (so also for the Float instance the correspondence check runs), for every history and for every value
  the numeric solvers may return (they are universally quantified oracle inputs).
-/
import BR.Model.SP

namespace BR.C10
open BR.SP BR.MR OrdField Scalar

variable {α : Type} [Scalar α]

/-- the published state is coherent: joint positions are the plate poses applied to the plate-fixed joint
    coordinates, leg lengths are the joint-to-joint distances, the relative transform is inv(bottom)·top -/
def Coh (s : St α) : Prop :=
  s.bs = s.legs.map (fun l => trVec s.Tb l.b) ∧
  s.ts = s.legs.map (fun l => trVec s.Tt l.t) ∧
  s.lens = s.legs.map (fun l => norm3 (trVec s.Tt l.t - trVec s.Tb l.b)) ∧
  s.rel = transInv s.Tb * s.Tt

/-- **the IK helper followed by the plate update establishes coherence, whatever the state was** -/
theorem coh_ikP (s : St α) (Tt Tb : T4 α) : Coh (ikP s Tt Tb) := by
  unfold Coh ikP setPlate ikHelper spIK
  simp [List.map_map, Function.comp_def]

@[simp] theorem ikP_Tb (s : St α) (Tt Tb : T4 α) : (ikP s Tt Tb).Tb = Tb := rfl
@[simp] theorem ikP_Tt (s : St α) (Tt Tb : T4 α) : (ikP s Tt Tb).Tt = Tt := rfl
@[simp] theorem ikP_set0 (s : St α) (Tt Tb : T4 α) : (ikP s Tt Tb).set0 = s.set0 := rfl
@[simp] theorem ikP_set1 (s : St α) (Tt Tb : T4 α) : (ikP s Tt Tb).set1 = s.set1 := rfl
@[simp] theorem ikP_set2 (s : St α) (Tt Tb : T4 α) : (ikP s Tt Tb).set2 = s.set2 := rfl
@[simp] theorem ikP_set3 (s : St α) (Tt Tb : T4 α) : (ikP s Tt Tb).set3 = s.set3 := rfl

theorem coh_setPlate_ikHelper (s : St α) (Tt Tb : T4 α) : Coh (setPlate (ikHelper s Tt Tb) Tb Tt) := coh_ikP s Tt Tb

/-- coherence does not depend on the switches, the solver choice or the repair flag -/
theorem coh_congr {s s' : St α} (h : Coh s) (h1 : s'.legs = s.legs) (h2 : s'.Tb = s.Tb) (h3 : s'.Tt = s.Tt)
    (h4 : s'.bs = s.bs) (h5 : s'.ts = s.ts) (h6 : s'.lens = s.lens) (h7 : s'.rel = s.rel) : Coh s' := by
  unfold Coh at *
  rw [h1, h2, h3, h4, h5, h6, h7]; exact h

/-! ### solvers: whatever they return, the platform ends coherent with the poses it reports -/

theorem fkRaphsonNF_good (p : Par α) (s : St α) (bottom : T4 α) (o : List (Sol α))
    {b t : T4 α} {s' : St α} {o' : List (Sol α)} (h : fkRaphsonNF p s bottom o = some (b, t, s', o')) :
    s'.Tb = b ∧ s'.Tt = t ∧ Coh s' := by
  unfold fkRaphsonNF at h
  split at h
  all_goals first
    | (simp only [Option.some.injEq, Prod.mk.injEq] at h
       obtain ⟨rfl, rfl, rfl, _⟩ := h
       exact ⟨rfl, rfl, coh_ikP _ _ _⟩)
    | simp at h

theorem fkSolve_good (p : Par α) (s : St α) (L : List α) (bottom : T4 α) (protect : Bool) (o : List (Sol α))
    {b t : T4 α} {s' : St α} {o' : List (Sol α)} (h : fkSolve p s L bottom protect o = some (b, t, s', o')) :
    s'.Tb = b ∧ s'.Tt = t ∧ Coh s' := by
  unfold fkSolve at h
  split at h
  · dsimp only at h
    split at h
    · exact fkRaphsonNF_good _ _ _ _ h
    · simp only [Option.some.injEq, Prod.mk.injEq] at h
      obtain ⟨rfl, rfl, rfl, _⟩ := h
      cases protect
      · simp only [Bool.false_eq_true, ↓reduceIte]
        exact ⟨rfl, rfl, coh_ikP _ _ _⟩
      · simp only [↓reduceIte]
        exact ⟨rfl, rfl, coh_ikP _ _ _⟩
  · simp at h

theorem fkRaphson_good (p : Par α) (s : St α) (L : List α) (bottom : T4 α) (protect : Bool) (o : List (Sol α))
    {b t : T4 α} {s' : St α} {o' : List (Sol α)} (h : fkRaphson p s L bottom protect o = some (b, t, s', o')) :
    s'.Tb = b ∧ s'.Tt = t ∧ Coh s' := by
  unfold fkRaphson at h
  split at h
  · exact fkSolve_good _ _ _ _ _ _ h
  · exact fkSolve_good _ _ _ _ _ _ h
  · exact fkRaphsonNF_good _ _ _ _ h

theorem fkFinish_coh (bottom top : T4 α) (s : St α) (o : List (Sol α)) (hb : s.Tb = bottom) (ht : s.Tt = top) (hc : Coh s)
    {t' : T4 α} {s' : St α} {o' : List (Sol α)} (h : fkFinish bottom top s o = some (t', s', o')) : Coh s' := by
  have hrel : s.rel = transInv bottom * top := by rw [hc.2.2.2, hb, ht]
  unfold fkFinish at h
  split at h
  · simp only [Option.some.injEq, Prod.mk.injEq] at h
    obtain ⟨_, rfl, _⟩ := h
    exact coh_congr hc rfl rfl rfl rfl rfl rfl hrel.symm
  · split at h
    · simp only [Option.some.injEq, Prod.mk.injEq] at h
      obtain ⟨_, rfl, _⟩ := h
      exact coh_congr (coh_ikP s _ s.Tb) rfl rfl rfl rfl rfl rfl rfl
    · simp at h

theorem fkCoreAt_coh (p : Par α) (s : St α) (L : List α) (B : T4 α) (o : List (Sol α)) (protect : Bool)
    {top : T4 α} {s' : St α} {o' : List (Sol α)} (h : fkCoreAt p s L B o protect = some (top, s', o')) : Coh s' := by
  unfold fkCoreAt at h
  split at h
  · simp at h
  · rename_i bottom top0 s1 o1 hr
    have hg : s1.Tb = bottom ∧ s1.Tt = top0 ∧ Coh s1 := by
      unfold fkSolverAt at hr
      split at hr
      · exact fkSolve_good _ _ _ _ _ _ hr
      · exact fkRaphson_good _ _ _ _ _ _ hr
    obtain ⟨hb, ht, hc⟩ := hg
    exact fkFinish_coh _ _ _ _ hb ht hc h

theorem fkCore_coh (p : Par α) (s : St α) (L : List α) (o : List (Sol α)) (protect : Bool)
    {top : T4 α} {s' : St α} {o' : List (Sol α)} (h : fkCore p s L o protect = some (top, s', o')) : Coh s' :=
  fkCoreAt_coh p s L s.Tb o protect h

/-! ### validation -/

theorem vLegs_coh (p : Par α) (s : St α) (o : List (Sol α)) (v : Bool) (hs : Coh s)
    {v' : Bool} {s' : St α} {o' : List (Sol α)} (h : vLegs p s o v = some (v', s', o')) : Coh s' := by
  unfold vLegs at h
  split at h
  · split at h
    · simp only [Option.some.injEq, Prod.mk.injEq] at h; obtain ⟨_, rfl, _⟩ := h; exact hs
    · split at h
      · rename_i hk
        simp only [Option.some.injEq, Prod.mk.injEq] at h; obtain ⟨_, rfl, _⟩ := h
        exact fkCore_coh _ _ _ _ _ hk
      · simp at h
  · simp only [Option.some.injEq, Prod.mk.injEq] at h; obtain ⟨_, rfl, _⟩ := h; exact hs

theorem vStage_coh (p : Par α) (en c : St α → Bool) (lim : Nat) (vs : Bool × St α) (hs : Coh vs.2) :
    Coh (vStage p en c lim vs).2 := by
  unfold vStage
  split
  · split
    · exact hs
    · exact coh_ikP _ _ _
  · exact hs

theorem validate_coh (p : Par α) (s : St α) (o : List (Sol α)) (hs : Coh s)
    {v : Bool} {s' : St α} {o' : List (Sol α)} (h : validate p s o = some (v, s', o')) : Coh s' := by
  unfold validate at h
  split at h
  · simp at h
  · rename_i v1 s1 o1 hl
    simp only [Option.some.injEq, Prod.mk.injEq] at h
    obtain ⟨_, rfl, _⟩ := h
    exact vStage_coh _ _ _ _ _ (vStage_coh _ _ _ _ _ (vStage_coh _ _ _ _ _ (vLegs_coh _ _ _ _ hs hl)))

/-- what `validate(True)` (all four stages) returning true means -/
def AllHold (p : Par α) (s : St α) : Prop :=
  distC p s = false ∧ (s.set0 = true → legC p s = true) ∧ (s.set1 = true → contC s = true) ∧
  (s.set2 = true → intC p s = true) ∧ (s.set3 = true → rotC p s = true)

/-- **the pure validation tells the truth**: it returns true exactly when the platform is not farther than twice
    its neutral height and every enabled constraint holds -/
theorem validateDN_sound (p : Par α) (s : St α) : validateDN p s 4 = true ↔ AllHold p s := by
  unfold validateDN AllHold
  cases h0 : s.set0 <;> cases h1 : s.set1 <;> cases h2 : s.set2 <;> cases h3 : s.set3 <;>
    cases distC p s <;> cases legC p s <;> cases contC s <;> cases intC p s <;> cases rotC p s <;> simp

/-- stage view of `validateDN`: one more stage is one more conjunct -/
theorem validateDN_one (p : Par α) (s : St α) : validateDN p s 1 = (!distC p s && (!s.set0 || legC p s)) := by
  simp only [validateDN]; cases s.set0 <;> cases distC p s <;> cases legC p s <;> simp
theorem validateDN_two (p : Par α) (s : St α) : validateDN p s 2 = (validateDN p s 1 && (!s.set1 || contC s)) := by
  simp only [validateDN]; cases s.set0 <;> cases s.set1 <;> cases distC p s <;> cases legC p s <;> cases contC s <;> simp
theorem validateDN_three (p : Par α) (s : St α) : validateDN p s 3 = (validateDN p s 2 && (!s.set2 || intC p s)) := by
  simp only [validateDN]
  cases s.set0 <;> cases s.set1 <;> cases s.set2 <;> cases distC p s <;> cases legC p s <;> cases contC s <;> cases intC p s <;> simp
theorem validateDN_four (p : Par α) (s : St α) : validateDN p s 4 = (validateDN p s 3 && (!s.set3 || rotC p s)) := by
  simp only [validateDN]
  cases s.set3 <;> cases rotC p s <;> simp

/-- the invariant carried through the stages: a true verdict so far means `validate(True, k)` holds of the current state -/
def Upto (p : Par α) (k : Nat) (vs : Bool × St α) : Prop := vs.1 = true → validateDN p vs.2 k = true

theorem vLegs_upto (p : Par α) (s : St α) (o : List (Sol α))
    {v' : Bool} {s' : St α} {o' : List (Sol α)} (h : vLegs p s o (!distC p s) = some (v', s', o')) : Upto p 1 (v', s') := by
  unfold vLegs at h
  split at h
  · rename_i h0
    split at h
    · rename_i hl
      simp only [Option.some.injEq, Prod.mk.injEq] at h; obtain ⟨rfl, rfl, _⟩ := h
      intro hv
      simp only at hv ⊢
      rw [validateDN_one]
      simp only [hl, Bool.or_true, Bool.and_true]
      simpa using hv
    · split at h
      · simp only [Option.some.injEq, Prod.mk.injEq] at h; obtain ⟨rfl, rfl, _⟩ := h
        intro hv; exact hv
      · simp at h
  · rename_i h0
    simp only [Option.some.injEq, Prod.mk.injEq] at h; obtain ⟨rfl, rfl, _⟩ := h
    intro hv
    simp only at hv ⊢
    rw [validateDN_one]
    have : s.set0 = false := by simpa using h0
    simp only [this, Bool.not_false, Bool.true_or, Bool.and_true]
    simpa using hv

theorem vStage_upto1 (p : Par α) (vs : Bool × St α) (h : Upto p 1 vs) : Upto p 2 (vStage p (·.set1) contC 2 vs) := by
  unfold vStage
  split
  · rename_i he
    split
    · rename_i hc
      intro hv; rw [validateDN_two, h hv]; simp [hc]
    · intro hv; exact hv
  · rename_i he
    intro hv; rw [validateDN_two, h hv]
    have : vs.2.set1 = false := by simpa using he
    simp [this]

theorem vStage_upto2 (p : Par α) (vs : Bool × St α) (h : Upto p 2 vs) : Upto p 3 (vStage p (·.set2) (intC p) 3 vs) := by
  unfold vStage
  split
  · rename_i he
    split
    · rename_i hc
      intro hv; rw [validateDN_three, h hv]; simp [hc]
    · intro hv; exact hv
  · rename_i he
    intro hv; rw [validateDN_three, h hv]
    have : vs.2.set2 = false := by simpa using he
    simp [this]

theorem vStage_upto3 (p : Par α) (vs : Bool × St α) (h : Upto p 3 vs) : Upto p 4 (vStage p (·.set3) (rotC p) 4 vs) := by
  unfold vStage
  split
  · rename_i he
    split
    · rename_i hc
      intro hv; rw [validateDN_four, h hv]; simp [hc]
    · intro hv; exact hv
  · rename_i he
    intro hv; rw [validateDN_four, h hv]
    have : vs.2.set3 = false := by simpa using he
    simp [this]

/-- **"valid" means valid**: whenever `validate()` — with any corrective actions it took and whatever the solvers
    returned inside them — reports true, the state it leaves satisfies every enabled constraint -/
theorem validate_sound (p : Par α) (s : St α) (o : List (Sol α))
    {s' : St α} {o' : List (Sol α)} (h : validate p s o = some (true, s', o')) : AllHold p s' := by
  unfold validate at h
  split at h
  · simp at h
  · rename_i v1 s1 o1 hl
    simp only [Option.some.injEq, Prod.mk.injEq] at h
    obtain ⟨hv, rfl, _⟩ := h
    have := vStage_upto3 p _ (vStage_upto2 p _ (vStage_upto1 p _ (vLegs_upto p s o hl)))
    exact (validateDN_sound p _).1 (this hv)

/-! ### every public call -/

theorem ik_coh (p : Par α) (s : St α) (Tt Tb : T4 α) (o : List (Sol α))
    {v : Bool} {s' : St α} {o' : List (Sol α)} (h : ik p s Tt Tb o = some (v, s', o')) : Coh s' :=
  validate_coh p _ o (coh_ikP s Tt Tb) h

/-- the verdict returned by an unprotected IK is sound -/
theorem ik_sound (p : Par α) (s : St α) (Tt Tb : T4 α) (o : List (Sol α))
    {s' : St α} {o' : List (Sol α)} (h : ik p s Tt Tb o = some (true, s', o')) : AllHold p s' :=
  validate_sound p _ o h

theorem fkReverse_coh (p : Par α) (savedTop top : T4 α) (v : Bool) (s : St α) (o : List (Sol α))
    {t' : T4 α} {v' : Bool} {s' : St α} {o' : List (Sol α)} (h : fkReverse p savedTop top v s o = some (t', v', s', o')) : Coh s' := by
  unfold fkReverse at h
  split at h
  · simp at h
  · rename_i v3 s3 o3 hi
    simp only [Option.some.injEq, Prod.mk.injEq] at h
    obtain ⟨_, _, rfl, _⟩ := h
    exact ik_coh p _ _ _ _ hi

theorem fkAt_coh (p : Par α) (s : St α) (L : List α) (B : T4 α) (rev prot : Bool) (o : List (Sol α))
    {top : T4 α} {v : Bool} {s' : St α} {o' : List (Sol α)} (h : fkAt p s L B rev prot o = some (top, v, s', o')) : Coh s' := by
  unfold fkAt at h
  split at h
  · simp at h
  · rename_i top1 s1 o1 hc
    have h1 := fkCoreAt_coh p s L _ o prot hc
    split at h
    · split at h
      · exact fkReverse_coh _ _ _ _ _ _ h
      · simp only [Option.some.injEq, Prod.mk.injEq] at h
        obtain ⟨_, _, rfl, _⟩ := h; exact h1
    · split at h
      · simp at h
      · rename_i v2 s2 o2 hv
        have h2 := validate_coh p s1 o1 h1 hv
        split at h
        · exact fkReverse_coh _ _ _ _ _ _ h
        · simp only [Option.some.injEq, Prod.mk.injEq] at h
          obtain ⟨_, _, rfl, _⟩ := h; exact h2

theorem fk_coh (p : Par α) (s : St α) (L : List α) (rev prot : Bool) (o : List (Sol α))
    {top : T4 α} {v : Bool} {s' : St α} {o' : List (Sol α)} (h : fk p s L rev prot o = some (top, v, s', o')) : Coh s' :=
  fkAt_coh p s L s.Tb rev prot o h

/-- the verdict of an unprotected, non-reversed FK is sound — over whatever bottom pose the caller gave -/
theorem fkAt_sound (p : Par α) (s : St α) (L : List α) (B : T4 α) (o : List (Sol α))
    {top : T4 α} {s' : St α} {o' : List (Sol α)} (h : fkAt p s L B false false o = some (top, true, s', o')) : AllHold p s' := by
  unfold fkAt at h
  split at h
  · simp at h
  · rename_i top1 s1 o1 hc
    simp only [Bool.false_eq_true, ↓reduceIte] at h
    split at h
    · simp at h
    · rename_i v2 s2 o2 hv
      simp only [Option.some.injEq, Prod.mk.injEq] at h
      obtain ⟨_, rfl, rfl, _⟩ := h
      exact validate_sound p _ _ hv

theorem fk_sound (p : Par α) (s : St α) (L : List α) (o : List (Sol α))
    {top : T4 α} {s' : St α} {o' : List (Sol α)} (h : fk p s L false false o = some (top, true, s', o')) : AllHold p s' :=
  fkAt_sound p s L s.Tb o h

theorem move_coh (p : Par α) (s : St α) (T : T4 α) (o : List (Sol α))
    {s' : St α} {o' : List (Sol α)} (h : move p s T o = some (s', o')) : Coh s' := by
  unfold move at h
  dsimp only at h
  split at h
  · simp at h
  · rename_i v1 s1 o1 hi
    simp only [Option.some.injEq, Prod.mk.injEq] at h
    obtain ⟨rfl, _⟩ := h
    exact ik_coh p _ _ _ _ hi

theorem spin_coh (p : Par α) (s : St α) (r : α) (o : List (Sol α))
    {s' : St α} {o' : List (Sol α)} (h : spinCustom p s r o = some (s', o')) : Coh s' := by
  unfold spinCustom at h
  split at h
  · simp at h
  · split at h
    · simp at h
    · split at h
      · simp at h
      · exact move_coh p _ _ _ h

theorem invJac_coh (p : Par α) (s : St α) (prot : Bool) (o : List (Sol α))
    {rows : List (V6 α)} {s' : St α} {o' : List (Sol α)} (h : inverseJacobian p s prot o = some (rows, s', o')) :
    s'.Tb = s.Tb ∧ s'.Tt = s.Tt ∧ Coh s' := by
  unfold inverseJacobian at h
  split at h
  · simp only [Option.some.injEq, Prod.mk.injEq] at h
    obtain ⟨_, rfl, _⟩ := h
    exact ⟨rfl, rfl, coh_ikP _ _ _⟩
  · split at h
    · simp at h
    · simp only [Option.some.injEq, Prod.mk.injEq] at h
      obtain ⟨_, rfl, _⟩ := h
      exact ⟨rfl, rfl, coh_ikP _ _ _⟩

/-- **pure queries leave both plate poses unchanged** (inverseJacobian, staticForces, carryMassCalc: with or
    without protection, whatever corrective action the query's own IK triggered) -/
theorem inverseJacobian_restores (p : Par α) (s : St α) (prot : Bool) (o : List (Sol α))
    {rows : List (V6 α)} {s' : St α} {o' : List (Sol α)} (h : inverseJacobian p s prot o = some (rows, s', o')) :
    s'.Tb = s.Tb ∧ s'.Tt = s.Tt :=
  ⟨(invJac_coh p s prot o h).1, (invJac_coh p s prot o h).2.1⟩

theorem randomPos_coh (p : Par α) (d : α) (Ls : List (List α)) (s : St α) (o : List (Sol α)) (hs : Coh s)
    {s' : St α} {o' : List (Sol α)} (h : randomPos p d Ls s o = some (s', o')) : Coh s' := by
  induction Ls generalizing s o with
  | nil => simp only [randomPos, Option.some.injEq, Prod.mk.injEq] at h; obtain ⟨rfl, _⟩ := h; exact hs
  | cons L Ls ih =>
    simp only [randomPos] at h
    split at h
    · simp at h
    · rename_i t1 v1 s1 o1 hf
      have h1 := fk_coh p s L false false o hf
      split at h
      · simp at h
      · rename_i v2 s2 o2 hv
        have h2 := validate_coh p s1 o1 h1 hv
        split at h
        · simp only [Option.some.injEq, Prod.mk.injEq] at h; obtain ⟨rfl, _⟩ := h; exact h2
        · exact ih s2 o2 h2 h

/-- **every public call preserves coherence**, whatever the numeric solvers returned during it -/
theorem op_coherent (p : Par α) (s : St α) (op : Op α) (hs : Coh s)
    {v : Option Bool} {s' : St α} {n : Nat} (h : step p s op = some (v, s', n)) : Coh s' := by
  cases op with
  | ik Tt o =>
    simp only [step, Option.map_eq_some_iff] at h
    obtain ⟨⟨v1, s1, o1⟩, h1, h2⟩ := h
    simp only [Prod.mk.injEq] at h2; obtain ⟨_, rfl, _⟩ := h2
    exact ik_coh p _ _ _ _ h1
  | fk L rev prot o =>
    simp only [step, Option.map_eq_some_iff] at h
    obtain ⟨⟨t1, v1, s1, o1⟩, h1, h2⟩ := h
    simp only [Prod.mk.injEq] at h2; obtain ⟨_, rfl, _⟩ := h2
    exact fk_coh p _ _ _ _ _ h1
  | fkAt L B rev prot o =>
    simp only [step, Option.map_eq_some_iff] at h
    obtain ⟨⟨t1, v1, s1, o1⟩, h1, h2⟩ := h
    simp only [Prod.mk.injEq] at h2; obtain ⟨_, rfl, _⟩ := h2
    exact fkAt_coh p _ _ _ _ _ _ h1
  | move T o =>
    simp only [step, Option.map_eq_some_iff] at h
    obtain ⟨⟨s1, o1⟩, h1, h2⟩ := h
    simp only [Prod.mk.injEq] at h2; obtain ⟨_, rfl, _⟩ := h2
    exact move_coh p _ _ _ h1
  | spin r o =>
    simp only [step, Option.map_eq_some_iff] at h
    obtain ⟨⟨s1, o1⟩, h1, h2⟩ := h
    simp only [Prod.mk.injEq] at h2; obtain ⟨_, rfl, _⟩ := h2
    exact spin_coh p _ _ _ h1
  | validate o =>
    simp only [step, Option.map_eq_some_iff] at h
    obtain ⟨⟨v1, s1, o1⟩, h1, h2⟩ := h
    simp only [Prod.mk.injEq] at h2; obtain ⟨_, rfl, _⟩ := h2
    exact validate_coh p _ _ hs h1
  | validateDN =>
    simp only [step, Option.some.injEq, Prod.mk.injEq] at h; obtain ⟨_, rfl, _⟩ := h; exact hs
  | invJac prot o =>
    simp only [step, Option.map_eq_some_iff] at h
    obtain ⟨⟨r1, s1, o1⟩, h1, h2⟩ := h
    simp only [Prod.mk.injEq] at h2; obtain ⟨_, rfl, _⟩ := h2
    exact (invJac_coh p _ _ _ h1).2.2
  | randomPos d Ls o =>
    simp only [step, Option.map_eq_some_iff] at h
    obtain ⟨⟨s1, o1⟩, h1, h2⟩ := h
    simp only [Prod.mk.injEq] at h2; obtain ⟨_, rfl, _⟩ := h2
    exact randomPos_coh p _ _ _ _ hs h1
  | switches a b c d =>
    simp only [step, Option.some.injEq, Prod.mk.injEq] at h; obtain ⟨_, rfl, _⟩ := h
    exact coh_congr hs rfl rfl rfl rfl rfl rfl rfl
  | mode m =>
    simp only [step, Option.some.injEq, Prod.mk.injEq] at h; obtain ⟨_, rfl, _⟩ := h
    exact coh_congr hs rfl rfl rfl rfl rfl rfl rfl

/-- the verdict a call returns is sound whenever it comes from a validation of the state it leaves
    (IK, unprotected forward FK, validate, validate(True)) -/
theorem op_verdict_sound (p : Par α) (s : St α) (op : Op α) {s' : St α} {n : Nat}
    (h : step p s op = some (some true, s', n))
    (hop : match op with | Op.ik _ _ => True | Op.validate _ => True | Op.validateDN => True
                         | Op.fk _ false false _ => True | Op.fkAt _ _ false false _ => True | _ => False) : AllHold p s' := by
  cases op with
  | fk L rev prot o =>
    cases rev <;> cases prot <;> simp only at hop
    simp only [step, Option.map_eq_some_iff] at h
    obtain ⟨⟨t1, v1, s1, o1⟩, h1, h2⟩ := h
    simp only [Prod.mk.injEq, Option.some.injEq] at h2; obtain ⟨rfl, rfl, _⟩ := h2
    exact fk_sound p _ _ _ h1
  | fkAt L B rev prot o =>
    cases rev <;> cases prot <;> simp only at hop
    simp only [step, Option.map_eq_some_iff] at h
    obtain ⟨⟨t1, v1, s1, o1⟩, h1, h2⟩ := h
    simp only [Prod.mk.injEq, Option.some.injEq] at h2; obtain ⟨rfl, rfl, _⟩ := h2
    exact fkAt_sound p _ _ _ _ h1
  | ik Tt o =>
    simp only [step, Option.map_eq_some_iff] at h
    obtain ⟨⟨v1, s1, o1⟩, h1, h2⟩ := h
    simp only [Prod.mk.injEq, Option.some.injEq] at h2; obtain ⟨rfl, rfl, _⟩ := h2
    exact ik_sound p _ _ _ _ h1
  | validate o =>
    simp only [step, Option.map_eq_some_iff] at h
    obtain ⟨⟨v1, s1, o1⟩, h1, h2⟩ := h
    simp only [Prod.mk.injEq, Option.some.injEq] at h2; obtain ⟨rfl, rfl, _⟩ := h2
    exact validate_sound p _ _ h1
  | validateDN =>
    simp only [step, Option.some.injEq, Prod.mk.injEq] at h; obtain ⟨hv, rfl, _⟩ := h
    exact (validateDN_sound p _).1 hv
  | _ => simp at hop

/-- **any history**: from a coherent platform, every state reached by any sequence of public calls is coherent -/
theorem history_coherent (p : Par α) (s : St α) (ops : List (Op α)) (hs : Coh s)
    {s' : St α} (h : run p s ops = some s') : Coh s' := by
  induction ops generalizing s with
  | nil => simp only [run, Option.some.injEq] at h; subst h; exact hs
  | cons op ops ih =>
    simp only [run] at h
    split at h
    · rename_i v s1 n hst
      exact ih s1 (op_coherent p s op hs hst) h
    · simp at h

/-- the platform a constructor builds (protected IK on the given poses) is coherent — the hypothesis of
    `history_coherent` is met by every constructed platform -/
example (s0 : St α) (Tt Tb : T4 α) : Coh (ikP s0 Tt Tb) := coh_ikP s0 Tt Tb

end BR.C10
