/-
  C03 — a transform object's matrix and six-vector always describe the same pose.
  Property theorems about BR/Model/Tm.lean at ℝ.
-/
import BR.Lemmas.TmLemmas
import Mathlib.Analysis.SpecialFunctions.Trigonometric.Bounds

namespace BR.C03
open BR.MR BR.Rot BR.TmModel OrdField Scalar

/-- the 4×4 is exactly the transform whose rotation is exp of the last three entries of the
    six-vector and whose translation is the first three -/
def Coherent (t : Tm ℝ) : Prop := t.TM = taaToTM t.TAA

/-- the matrix is an element of SE(3) (rotation block proper; last row 0 0 0 1 is in the type) -/
def WF (t : Tm ℝ) : Prop := IsRot t.TM.R

/-- the rotation angle of R is 0 or at least the library's 1e-6 cut-off (outside the band in
    which `MatrixExp3` snaps to the identity) -/
def AngleOK (R : M3 ℝ) : Prop :=
  1 ≤ (R.trace - 1) / 2 ∨ (1e-6 : ℝ) ≤ Real.arccos ((R.trace - 1) / 2)

/-- writers of the six-vector: coherent by construction, for every six-vector -/
theorem ofTAA_coherent (v : V6 ℝ) : Coherent (ofTAA v) := rfl

theorem ofTAA_wf (v : V6 ℝ) : WF (ofTAA v) := exp3_isRot v.b

/-- writers of the matrix: `TMtoTAA` produces a six-vector whose exponential is the matrix,
    for every rigid transform outside the cut-off band (all three branches of the logarithm) -/
theorem ofTM_coherent (T : T4 ℝ) (hR : IsRot T.R) (hA : AngleOK T.R) : Coherent (ofTM T) := by
  unfold Coherent ofTM taaToTM tmToTAA
  simp only
  rw [hat_vee_log3, exp3_log3 T.R hR hA]

theorem ofTM_wf (T : T4 ℝ) (hR : IsRot T.R) : WF (ofTM T) := hR

/-! ### every operation of the alphabet -/

/-- matrices that an operation hands to `TMtoTAA` (with the object store `s`), if any -/
noncomputable def viaTM (s : List (Tm ℝ)) : Op ℝ → Option (T4 ℝ)
  | .ctorTM T => some T
  | .sTM _ T => some T
  | .ctor7 p x y z w => some ⟨quatToRot x y z w, p⟩
  | .setQuat i x y z w => some ⟨quatToRot x y z w, (getD s i).TM.p⟩
  | .inv i => some (transInv (getD s i).TM)
  | .ctorCopyArr i => some (getD s i).TM
  | .matmul i j => some ((getD s i).TM * (getD s j).TM)
  | .floordiv i j => some ((getD s i).TM * transInv (getD s j).TM)
  | _ => none

/-- side conditions on caller-supplied data: matrices are rigid, quaternions non-zero -/
def InputOK : Op ℝ → Prop
  | .ctorTM T => IsRot T.R
  | .sTM _ T => IsRot T.R
  | .ctor7 _ x y z w => 0 < x * x + y * y + z * z + w * w
  | .setQuat _ x y z w => 0 < x * x + y * y + z * z + w * w
  | _ => True

def StoreOK (s : List (Tm ℝ)) : Prop := ∀ t ∈ s, WF t ∧ Coherent t

theorem ident_ok : WF (ident : Tm ℝ) ∧ Coherent (ident : Tm ℝ) := by
  have h1 : IsRot (T4.one : T4 ℝ).R := isRot_one
  refine ⟨h1, ofTM_coherent _ h1 (Or.inl ?_)⟩
  show 1 ≤ ((M3.one : M3 ℝ).trace - 1) / 2
  m3simp; norm_num

theorem getD_ok {s : List (Tm ℝ)} (hs : StoreOK s) (i : Nat) : WF (getD s i) ∧ Coherent (getD s i) := by
  unfold getD
  rw [List.getD_eq_getElem?_getD]
  cases h : s[i]? with
  | none => exact ident_ok
  | some t => exact hs t (List.mem_of_getElem? h)

theorem transInv_isRot {T : T4 ℝ} (h : IsRot T.R) : IsRot (transInv T).R := isRot_T h

/-- **one step**: whatever operation of the alphabet is applied to coherent, well-formed objects,
    the object it produces or rewrites is again well-formed and coherent — provided no matrix
    handed to `TMtoTAA` has its rotation angle strictly inside (0, 1e-6). -/
theorem result_ok (s : List (Tm ℝ)) (hs : StoreOK s) (op : Op ℝ) (hin : InputOK op)
    (hA : ∀ T, viaTM s op = some T → AngleOK T.R) :
    WF (result s op) ∧ Coherent (result s op) := by
  cases op with
  | ctor6 v rpy =>
    simp only [result, ctor6]; split_ifs <;> exact ⟨ofTAA_wf _, ofTAA_coherent _⟩
  | ctor3 r rpy =>
    simp only [result, ctor3]; split_ifs <;> exact ⟨ofTAA_wf _, ofTAA_coherent _⟩
  | ctor7 p x y z w =>
    have hr := quatToRot_isRot x y z w hin
    exact ⟨hr, ofTM_coherent _ hr (hA _ rfl)⟩
  | ctorTM T => exact ⟨hin, ofTM_coherent _ hin (hA _ rfl)⟩
  | ctorPair p r rpy =>
    simp only [result, ctor6]; split_ifs <;> exact ⟨ofTAA_wf _, ofTAA_coherent _⟩
  | ctorCopy i => exact getD_ok hs i
  | ctorCopyArr i => exact ⟨(getD_ok hs i).1, ofTM_coherent _ (getD_ok hs i).1 (hA _ rfl)⟩
  | sTM i T => exact ⟨hin, ofTM_coherent _ hin (hA _ rfl)⟩
  | sTAA i v => exact ⟨ofTAA_wf _, ofTAA_coherent _⟩
  | set i k x => exact ⟨ofTAA_wf _, ofTAA_coherent _⟩
  | setPos i v => exact ⟨ofTAA_wf _, ofTAA_coherent _⟩
  | setRot i v => exact ⟨ofTAA_wf _, ofTAA_coherent _⟩
  | setQuat i x y z w =>
    have hr := quatToRot_isRot x y z w hin
    exact ⟨hr, ofTM_coherent _ hr (hA _ rfl)⟩
  | angleMod i =>
    simp only [result, angleMod]
    split
    · exact ⟨ofTAA_wf _, ofTAA_coherent _⟩
    · exact getD_ok hs i
  | copy i => exact getD_ok hs i
  | inv i =>
    have hr := transInv_isRot (getD_ok hs i).1
    exact ⟨hr, ofTM_coherent _ hr (hA _ rfl)⟩
  | matmul i j =>
    have hr : IsRot ((getD s i).TM * (getD s j).TM).R := isRot_mul (getD_ok hs i).1 (getD_ok hs j).1
    exact ⟨hr, ofTM_coherent _ hr (hA _ rfl)⟩
  | add i j => exact ⟨ofTAA_wf _, ofTAA_coherent _⟩
  | sub i j => exact ⟨ofTAA_wf _, ofTAA_coherent _⟩
  | mulS i k => exact ⟨ofTAA_wf _, ofTAA_coherent _⟩
  | divS i k => exact ⟨ofTAA_wf _, ofTAA_coherent _⟩
  | abs i => exact ⟨ofTAA_wf _, ofTAA_coherent _⟩
  | floordivS i k => exact ⟨ofTAA_wf _, ofTAA_coherent _⟩
  | floordiv i j =>
    have hr : IsRot ((getD s i).TM * transInv (getD s j).TM).R :=
      isRot_mul (getD_ok hs i).1 (transInv_isRot (getD_ok hs j).1)
    exact ⟨hr, ofTM_coherent _ hr (hA _ rfl)⟩
  | l2g i j => exact ⟨ofTAA_wf _, ofTAA_coherent _⟩
  | g2l i j => exact ⟨ofTAA_wf _, ofTAA_coherent _⟩

theorem step_ok (s : List (Tm ℝ)) (hs : StoreOK s) (op : Op ℝ) (hin : InputOK op)
    (hA : ∀ T, viaTM s op = some T → AngleOK T.R) : StoreOK (step s op) := by
  have hr := result_ok s hs op hin hA
  unfold step
  cases target op with
  | none =>
    intro t ht
    rcases List.mem_append.mp ht with h | h
    · exact hs t h
    · rw [List.mem_singleton.mp h]; exact hr
  | some i =>
    simp only
    split_ifs with hi
    · intro t ht
      rcases List.mem_or_eq_of_mem_set ht with h | h
      · exact hs t h
      · rw [h]; exact hr
    · exact hs

/-- side conditions along a whole history -/
def HistoryOK : List (Tm ℝ) → List (Op ℝ) → Prop
  | _, [] => True
  | s, op :: ops => InputOK op ∧ (∀ T, viaTM s op = some T → AngleOK T.R) ∧ HistoryOK (step s op) ops

/-- **every history**: after any sequence of constructions, setters, element / slice
    assignments, quaternion updates and operators, every object in the store is coherent and in
    SE(3) (induction over the operation list). -/
theorem history_coherent (s : List (Tm ℝ)) (ops : List (Op ℝ)) (hs : StoreOK s) (h : HistoryOK s ops) :
    StoreOK (run s ops) := by
  induction ops generalizing s with
  | nil => exact hs
  | cons op ops ih =>
    obtain ⟨hin, hA, hrest⟩ := h
    exact ih (step s op) (step_ok s hs op hin hA) hrest

theorem history_from_empty (ops : List (Op ℝ)) (h : HistoryOK [] ops) : StoreOK (run [] ops) :=
  history_coherent [] ops (by intro t ht; cases ht) h

/-- what is written through one representation is read back through the other:
    `sTAA v` then `gTM` is exp of v; `sTM T` then the six-vector exponentiates back to T. -/
theorem write_taa_read_tm (v : V6 ℝ) : (ofTAA v).TM = ⟨matrixExp3 (hat v.b), v.a⟩ := rfl
theorem write_tm_read_taa (T : T4 ℝ) (hR : IsRot T.R) (hA : AngleOK T.R) :
    taaToTM (ofTM T).TAA = T := (ofTM_coherent T hR hA).symm

/-! non-vacuity: a concrete history satisfying the side conditions -/
noncomputable def R345 : M3 ℝ := ⟨3 / 5, -4 / 5, 0, 4 / 5, 3 / 5, 0, 0, 0, 1⟩
theorem R345_isRot : IsRot R345 := by
  constructor
  · unfold R345; m3simp; norm_num
  · unfold R345; m3simp; norm_num
theorem R345_angle : AngleOK R345 := by
  right
  have : (R345.trace - 1) / 2 = 3 / 5 := by unfold R345; m3simp; norm_num
  rw [this]
  have h1 : Real.arccos (3 / 5) = Real.pi / 2 - Real.arcsin (3 / 5) := Real.arccos_eq_pi_div_two_sub_arcsin _
  have h2 : Real.arcsin (3 / 5) ≤ Real.arcsin 1 := Real.arcsin_le_arcsin (by norm_num)
  rw [Real.arcsin_one] at h2
  have h3 : Real.arcsin (3 / 5 : ℝ) < Real.pi / 2 - 1e-6 := by
    have h4 : Real.sin (Real.arcsin (3 / 5 : ℝ)) = 3 / 5 := Real.sin_arcsin (by norm_num) (by norm_num)
    by_contra hcon
    have hge : Real.pi / 2 - 1e-6 ≤ Real.arcsin (3 / 5 : ℝ) := not_lt.mp hcon
    have hmono := Real.sin_le_sin_of_le_of_le_pi_div_two (by linarith [Real.two_le_pi]) h2 hge
    rw [h4, Real.sin_pi_div_two_sub] at hmono
    have hc : 1 - (1e-6 : ℝ) ^ 2 / 2 ≤ Real.cos 1e-6 := Real.one_sub_sq_div_two_le_cos (x := 1e-6)
    norm_num at hc hmono
    linarith
  linarith
example : HistoryOK [] [Op.ctorTM ⟨R345, ⟨1, 2, 3⟩⟩, Op.ctor6 ⟨⟨0, 0, 1⟩, ⟨0, 0, 5e-7⟩⟩ false, Op.add 0 1] :=
  ⟨R345_isRot, (fun T hT => by cases hT; exact R345_angle), trivial, (fun T hT => by cases hT), trivial,
    (fun T hT => by cases hT), trivial⟩

end BR.C03
