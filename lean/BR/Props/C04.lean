/-
  C04 — transform algebra is the SE(3) group; every constructor form means the same pose.
  Property theorems about BR/Model/Tm.lean at ℝ.
-/
import BR.Props.C03
import BR.Props.C01

namespace BR.C04
open BR.MR BR.Rot BR.TmModel BR.C03 OrdField Scalar

/-! ### @, inv, associativity -/

/-- composing with `@` is multiplying the homogeneous matrices -/
theorem matmul_is_mul (a b : Tm ℝ) : (matmul a b).TM = a.TM * b.TM := rfl

theorem T4_mul_assoc (A B C : T4 ℝ) : A * B * C = A * (B * C) := by m3ring

theorem matmul_assoc (a b c : Tm ℝ) : (matmul (matmul a b) c).TM = (matmul a (matmul b c)).TM := by
  simp only [matmul_is_mul, T4_mul_assoc]

/-- `inv()` is the group inverse (two-sided) -/
theorem inv_is_group_inv (a : Tm ℝ) (h : WF a) :
    (ofTM (transInv a.TM)).TM * a.TM = T4.one ∧ a.TM * (ofTM (transInv a.TM)).TM = T4.one :=
  ⟨BR.C01.transInv_mul a.TM h.1, BR.C01.mul_transInv a.TM h⟩

theorem T4_one_mul (A : T4 ℝ) : T4.one * A = A := by
  obtain ⟨⟨a, b, c, d, e, f, g, h, i⟩, ⟨x, y, z⟩⟩ := A; m3ring

/-! ### frame conversion -/

/-- localToGlobal(ref, rel) = ref · rel -/
theorem localToGlobal_eq (a b : Tm ℝ) (ha : Coherent a) (hb : Coherent b) (hwa : WF a) (hwb : WF b)
    (hA : AngleOK (a.TM * b.TM).R) :
    (ofTAA (localToGlobalTAA a.TAA b.TAA)).TM = a.TM * b.TM := by
  unfold Coherent taaToTM at ha hb
  have hRa : matrixExp3 (hat a.TAA.b) = a.TM.R := by rw [ha]
  have hRb : matrixExp3 (hat b.TAA.b) = b.TM.R := by rw [hb]
  have hpa : a.TAA.a = a.TM.p := by rw [ha]
  have hpb : b.TAA.a = b.TM.p := by rw [hb]
  have hrot : IsRot (a.TM.R * b.TM.R) := isRot_mul hwa hwb
  simp only [ofTAA, taaToTM, localToGlobalTAA, hRa, hRb, hpa, hpb]
  rw [hat_vee_log3, exp3_log3 _ hrot hA]
  obtain ⟨Ra, pa⟩ := a.TM
  obtain ⟨Rb, pb⟩ := b.TM
  obtain ⟨x, y, z⟩ := pa
  obtain ⟨x', y', z'⟩ := pb
  m3ring

/-- globalToLocal(ref, x) = inv(ref) · x -/
theorem globalToLocal_eq (a b : Tm ℝ) (ha : Coherent a) (hb : Coherent b) (hwa : WF a) (hwb : WF b)
    (hA : AngleOK (transInv a.TM * b.TM).R) :
    (ofTAA (globalToLocalTAA a.TAA b.TAA)).TM = transInv a.TM * b.TM := by
  unfold Coherent taaToTM at ha hb
  have hRa : matrixExp3 (hat a.TAA.b) = a.TM.R := by rw [ha]
  have hRb : matrixExp3 (hat b.TAA.b) = b.TM.R := by rw [hb]
  have hpa : a.TAA.a = a.TM.p := by rw [ha]
  have hpb : b.TAA.a = b.TM.p := by rw [hb]
  have hrot : IsRot (a.TM.R.T * b.TM.R) := isRot_mul (isRot_T hwa) hwb
  simp only [ofTAA, taaToTM, globalToLocalTAA, hRa, hRb, hpa, hpb]
  rw [hat_vee_log3, exp3_log3 _ hrot hA]
  obtain ⟨Ra, pa⟩ := a.TM
  obtain ⟨Rb, pb⟩ := b.TM
  obtain ⟨a1, a2, a3, a4, a5, a6, a7, a8, a9⟩ := Ra
  obtain ⟨x, y, z⟩ := pa
  obtain ⟨x', y', z'⟩ := pb
  m3ring

/-- the two conversions are mutual inverses at the level of matrices: inv(A)·(A·B) = B and A·(inv(A)·B) = B -/
theorem l2g_g2l_inverse (A B : T4 ℝ) (h : IsRot A.R) :
    transInv A * (A * B) = B ∧ A * (transInv A * B) = B := by
  constructor
  · rw [← T4_mul_assoc, BR.C01.transInv_mul A h.1, T4_one_mul]
  · rw [← T4_mul_assoc, BR.C01.mul_transInv A h, T4_one_mul]

/-! ### constructor forms -/

/-- list / array of six numbers: position and rotation vector as given -/
theorem ctor6_plain (v : V6 ℝ) : (ctor6 v false).TM = ⟨matrixExp3 (hat v.b), v.a⟩ := rfl

/-- the elementary rotations the rpy flag composes -/
noncomputable def Rx (r : ℝ) : M3 ℝ := matrixExp3 (hat ⟨r, 0, 0⟩)
noncomputable def Ry (p : ℝ) : M3 ℝ := matrixExp3 (hat ⟨0, p, 0⟩)
noncomputable def Rz (y : ℝ) : M3 ℝ := matrixExp3 (hat ⟨0, 0, y⟩)

theorem rpyTm_TM (r : V3 ℝ) : (rpyTm r).TM.R = Rx r.x * Ry r.y * Rz r.z := by
  simp only [rpyTm, matmul, ofTM, ofTAA, taaToTM, T4.mul_def, T4.mul, Rx, Ry, Rz, ofNat_real_zero]

/-- **rpy flag**: the rotation is Rx(roll)·Ry(pitch)·Rz(yaw), the position is as given -/
theorem ctor_rpy (v : V6 ℝ) (hA : AngleOK (Rx v.b.x * Ry v.b.y * Rz v.b.z)) :
    (ctor6 v true).TM = ⟨Rx v.b.x * Ry v.b.y * Rz v.b.z, v.a⟩ := by
  have hrot : IsRot (Rx v.b.x * Ry v.b.y * Rz v.b.z) :=
    isRot_mul (isRot_mul (exp3_isRot _) (exp3_isRot _)) (exp3_isRot _)
  have h1 : (rpyTm v.b).TAA.b = vee (matrixLog3 (Rx v.b.x * Ry v.b.y * Rz v.b.z)) := by
    rw [← rpyTm_TM]; rfl
  simp only [ctor6, if_true, ofTAA, taaToTM]
  rw [h1, hat_vee_log3, exp3_log3 _ hrot hA]

/-- nested [position, rotation] pair = the six-number form -/
theorem ctor_pair (p r : V3 ℝ) (rpy : Bool) (s : List (Tm ℝ)) :
    result s (Op.ctorPair p r rpy) = ctor6 ⟨p, r⟩ rpy := rfl

/-- 4×4 matrix form: the matrix is stored as given -/
theorem ctor_matrix (T : T4 ℝ) : (ofTM T).TM = T := rfl

/-- position + quaternion form -/
theorem ctor_quat (p : V3 ℝ) (x y z w : ℝ) : (ctor7 p x y z w).TM = ⟨quatToRot x y z w, p⟩ := rfl

/-- another transform / one-element array of a transform: same matrix -/
theorem ctor_tm (s : List (Tm ℝ)) (i : Nat) :
    (result s (Op.ctorCopy i)).TM = (getD s i).TM ∧ (result s (Op.ctorCopyArr i)).TM = (getD s i).TM :=
  ⟨rfl, rfl⟩

/-- reading then setting the quaternion is the identity on the matrix, for any reader that
    returns a quaternion of the current rotation (the contract assumed of scipy's
    `Rotation.from_matrix(..).as_quat()`; checked on the implementation by the harness) -/
theorem setQuat_getQuat_id (t : Tm ℝ) (x y z w : ℝ) (hq : quatToRot x y z w = t.TM.R) :
    (setQuat t x y z w).TM = t.TM := by
  simp only [setQuat, ofTM, hq]

/-- the quaternion form is insensitive to the scale and the sign of the quaternion (scipy normalises first; q and −q
    are the same rotation): equivalent quaternion descriptions of one pose give the same matrix -/
theorem quatToRot_smul (k x y z w : ℝ) (hk : k ≠ 0) :
    quatToRot (k * x) (k * y) (k * z) (k * w) = quatToRot x y z w := by
  unfold quatToRot
  simp only [sqrt_real]
  have hs : Real.sqrt (k * x * (k * x) + k * y * (k * y) + k * z * (k * z) + k * w * (k * w))
      = |k| * Real.sqrt (x * x + y * y + z * z + w * w) := by
    rw [show k * x * (k * x) + k * y * (k * y) + k * z * (k * z) + k * w * (k * w)
        = k ^ 2 * (x * x + y * y + z * z + w * w) by ring, Real.sqrt_mul (sq_nonneg k), Real.sqrt_sq_eq_abs]
  rw [hs]
  set n := Real.sqrt (x * x + y * y + z * z + w * w)
  have key : ∀ a b : ℝ, (k * a / (|k| * n)) * (k * b / (|k| * n)) = (a / n) * (b / n) := by
    intro a b
    have hk2 : |k| ≠ 0 := abs_ne_zero.mpr hk
    by_cases hn : n = 0
    · simp [hn]
    · field_simp
      rw [show |k| ^ 2 = k ^ 2 from sq_abs k]
      ring
  simp only [M3.mk.injEq]
  refine ⟨?_, ?_, ?_, ?_, ?_, ?_, ?_, ?_, ?_⟩ <;> simp only [key, mul_sub, mul_add]

theorem quatToRot_neg (x y z w : ℝ) : quatToRot (-x) (-y) (-z) (-w) = quatToRot x y z w := by
  have := quatToRot_smul (-1) x y z w (by norm_num)
  simpa using this

theorem ctor_quat_scale (p : V3 ℝ) (k x y z w : ℝ) (hk : k ≠ 0) :
    (ctor7 p (k * x) (k * y) (k * z) (k * w)).TM = (ctor7 p x y z w).TM := by
  rw [ctor_quat, ctor_quat, quatToRot_smul k x y z w hk]

theorem T4_mul_one' (A : T4 ℝ) : A * T4.one = A := by
  obtain ⟨⟨a, b, c, d, e, f, g, h, i⟩, ⟨x, y, z⟩⟩ := A
  m3ring

/-- the inverse reverses products: inv(A·B) = inv(B)·inv(A) (uniqueness of the group inverse) -/
theorem transInv_mul_rev (A B : T4 ℝ) (hA : IsRot A.R) (hB : IsRot B.R) :
    transInv (A * B) = transInv B * transInv A := by
  have hAB : IsRot (A * B).R := isRot_mul hA hB
  have h1 : transInv (A * B) * (A * B) = T4.one := BR.C01.transInv_mul _ hAB.1
  have h2 : (A * B) * (transInv B * transInv A) = T4.one := by
    rw [T4_mul_assoc, ← T4_mul_assoc B, BR.C01.mul_transInv B hB, T4_one_mul, BR.C01.mul_transInv A hA]
  calc transInv (A * B) = transInv (A * B) * ((A * B) * (transInv B * transInv A)) := by rw [h2, T4_mul_one']
    _ = (transInv (A * B) * (A * B)) * (transInv B * transInv A) := (T4_mul_assoc _ _ _).symm
    _ = transInv B * transInv A := by rw [h1, T4_one_mul]

/-- inverting twice gives the transform back -/
theorem transInv_transInv (A : T4 ℝ) (hA : IsRot A.R) : transInv (transInv A) = A := by
  have hI : IsRot (transInv A).R := isRot_T hA
  have h1 : transInv (transInv A) * transInv A = T4.one := BR.C01.transInv_mul _ hI.1
  calc transInv (transInv A) = transInv (transInv A) * (transInv A * A) := by rw [BR.C01.transInv_mul A hA.1, T4_mul_one']
    _ = (transInv (transInv A) * transInv A) * A := (T4_mul_assoc _ _ _).symm
    _ = A := by rw [h1, T4_one_mul]

/-- on transform objects: `(a @ b).inv()` and `b.inv() @ a.inv()` have the same matrix; `a.inv().inv()` is `a` -/
theorem inv_matmul (a b : Tm ℝ) (ha : WF a) (hb : WF b) :
    transInv (matmul a b).TM = transInv b.TM * transInv a.TM ∧ transInv (transInv a.TM) = a.TM :=
  ⟨by rw [matmul_is_mul]; exact transInv_mul_rev _ _ ha hb, transInv_transInv _ ha⟩

end BR.C04
