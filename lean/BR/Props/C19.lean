/-
  C19 — the message router delivers each received message exactly once per active rule.
  Property theorems about BR/Model/Comms.lean (hand-written model, tied to
  basic_robotics/interfaces/comms_core.py by the correspondence check harness/c19.py).
-/
import BR.Model.Comms
import Mathlib.Data.List.Nodup
import Mathlib.Data.List.Count
import Mathlib.Tactic.Tauto

set_option linter.unusedSimpArgs false

namespace BR.C19
open BR.Comms

/-! ### helper lemmas (tables are untouched by receiving / spinning) -/

def TableOK (t : Table) : Prop := ∀ k l, t k = some l → l.Nodup

theorem register_ok {t : Table} (h : TableOK t) (k : Name) (x : Nat) : TableOK (register t k x).1 := by
  unfold register
  cases hk : t k with
  | none =>
    intro k' l hl
    simp only [Table.upd] at hl
    split_ifs at hl with e
    · cases hl; simp
    · exact h _ _ hl
  | some l0 =>
    simp only
    split_ifs with hx
    · exact h
    · intro k' l hl
      simp only [Table.upd] at hl
      split_ifs at hl with e
      · cases hl
        have := h k l0 hk
        exact List.Nodup.append this (by simp) (by simpa using hx)
      · exact h _ _ hl

theorem unregister_ok {t : Table} (h : TableOK t) (k : Name) (x : Nat) : TableOK (unregister t k x).1 := by
  unfold unregister
  cases hk : t k with
  | none => exact h
  | some l0 =>
    simp only
    split_ifs with hx
    · intro k' l hl
      simp only [Table.upd] at hl
      split_ifs at hl with e
      · cases hl; exact (h k l0 hk).erase _
      · exact h _ _ hl
    · exact h

theorem getData_tables (s : St) (i : Name) :
    (getData s i).1.fwd = s.fwd ∧ (getData s i).1.sinks = s.sinks ∧ (getData s i).1.srcs = s.srcs ∧
    (getData s i).1.names = s.names := by
  unfold getData
  split_ifs with hi
  · cases h : recv (s.ep i) with
    | mk e rx => cases rx <;> simp [setEp]
  · simp

theorem callSources_tables (s : St) (n : Name) (hs : List Nat) :
    (callSources s n hs).1.fwd = s.fwd ∧ (callSources s n hs).1.sinks = s.sinks ∧
    (callSources s n hs).1.srcs = s.srcs ∧ (callSources s n hs).1.names = s.names := by
  induction hs generalizing s with
  | nil => simp [callSources]
  | cons h hs ih =>
    simp only [callSources]
    have := ih { s with cnt := fun x => if x = h then s.cnt h + 1 else s.cnt x }
    simpa using this

theorem spinOne_tables (s : St) (n : Name) :
    (spinOne s n).1.fwd = s.fwd ∧ (spinOne s n).1.sinks = s.sinks ∧ (spinOne s n).1.srcs = s.srcs ∧
    (spinOne s n).1.names = s.names := by
  unfold spinOne
  have h1 := callSources_tables s n (s.srcs.at n)
  cases hc : callSources s n (s.srcs.at n) with
  | mk s1 e1 =>
    rw [hc] at h1
    simp only
    split_ifs
    · have h2 := getData_tables s1 n
      cases hg : getData s1 n with
      | mk s2 r =>
        rw [hg] at h2
        simp only at h1 h2 ⊢
        exact ⟨h2.1.trans h1.1, h2.2.1.trans h1.2.1, h2.2.2.1.trans h1.2.2.1, h2.2.2.2.trans h1.2.2.2⟩
    · exact h1

theorem spinNames_tables (s : St) (ns : List Name) :
    (spinNames s ns).1.fwd = s.fwd ∧ (spinNames s ns).1.sinks = s.sinks ∧
    (spinNames s ns).1.srcs = s.srcs ∧ (spinNames s ns).1.names = s.names := by
  induction ns generalizing s with
  | nil => simp [spinNames]
  | cons n ns ih =>
    simp only [spinNames]
    have h1 := spinOne_tables s n
    have h2 := ih (spinOne s n).1
    exact ⟨h2.1.trans h1.1, h2.2.1.trans h1.2.1, h2.2.2.1.trans h1.2.2.1, h2.2.2.2.trans h1.2.2.2⟩

theorem spinK_tables (s : St) (k : Nat) :
    (spinK s k).1.fwd = s.fwd ∧ (spinK s k).1.sinks = s.sinks ∧ (spinK s k).1.srcs = s.srcs ∧
    (spinK s k).1.names = s.names := by
  induction k generalizing s with
  | zero => simp [spinK]
  | succ k ih =>
    simp only [spinK]
    have h1 := spinNames_tables s s.names
    have h2 := ih (singleSpin s).1
    unfold singleSpin at h2 ⊢
    exact ⟨h2.1.trans h1.1, h2.2.1.trans h1.2.1, h2.2.2.1.trans h1.2.2.1, h2.2.2.2.trans h1.2.2.2⟩

/-! ### the property theorems -/

/-- rule tables never hold a duplicate: the structural reason for "exactly once" -/
def Inv (s : St) : Prop := TableOK s.fwd ∧ TableOK s.sinks ∧ TableOK s.srcs

theorem inv_init (names : List Name) : Inv (init names) := by
  refine ⟨?_, ?_, ?_⟩ <;> intro k l h <;> simp [init] at h

theorem inv_step (s : St) (op : Op) (h : Inv s) : Inv (step s op).1 := by
  obtain ⟨hf, hk, hr⟩ := h
  cases op with
  | fwd i o =>
    simp only [step]; split_ifs
    · exact ⟨register_ok hf _ _, hk, hr⟩
    · exact ⟨hf, hk, hr⟩
  | del i o =>
    simp only [step]; split_ifs
    · exact ⟨unregister_ok hf _ _, hk, hr⟩
    · exact ⟨hf, hk, hr⟩
  | sink i h =>
    cases h with
    | none => exact ⟨hf, hk, hr⟩
    | some h =>
      simp only [step]; split_ifs
      · exact ⟨hf, register_ok hk _ _, hr⟩
      · exact ⟨hf, hk, hr⟩
  | source o h =>
    cases h with
    | none => exact ⟨hf, hk, hr⟩
    | some h =>
      simp only [step]; split_ifs
      · exact ⟨hf, hk, register_ok hr _ _⟩
      · exact ⟨hf, hk, hr⟩
  | get i =>
    have := getData_tables s i
    simp only [step, Inv]; rw [this.1, this.2.1, this.2.2.1]; exact ⟨hf, hk, hr⟩
  | send n d => simp only [step]; split_ifs <;> exact ⟨hf, hk, hr⟩
  | spin k =>
    have := spinK_tables s k
    simp only [step, Inv]; rw [this.1, this.2.1, this.2.2.1]; exact ⟨hf, hk, hr⟩
  | opn n => simp only [step]; split_ifs <;> exact ⟨hf, hk, hr⟩
  | cls n => simp only [step]; split_ifs <;> exact ⟨hf, hk, hr⟩
  | inject n d => exact ⟨hf, hk, hr⟩

/-- every reachable state satisfies the invariant (induction over the history) -/
theorem inv_run (s : St) (ops : List Op) (h : Inv s) : Inv (run s ops).1 := by
  induction ops generalizing s with
  | nil => exact h
  | cons op ops ih => simp only [run]; exact ih _ (inv_step s op h)

theorem history_inv (names : List Name) (ops : List Op) : Inv (run (init names) ops).1 :=
  inv_run _ _ (inv_init names)

/-- number of `send` events addressed to endpoint `d` -/
def sendsTo (d : Name) (evs : List Ev) : Nat :=
  (evs.filter fun e => match e with | .send n _ _ => n == d | _ => false).length
/-- number of calls of sink `h` -/
def sinkCalls (h : Nat) (evs : List Ev) : Nat :=
  (evs.filter fun e => match e with | .sink x _ => x == h | _ => false).length

/-- **delivery**: a received message goes to the current destinations and sinks of that endpoint,
    in order, with that payload, and to nothing else. -/
theorem getData_delivery (s : St) (i : Name) (hi : i ∈ s.names) (m : Nat)
    (hrx : (recv (s.ep i)).2 = some m) :
    (getData s i).2.1 = Ret.data (some m) ∧
    (getData s i).2.2 =
      (s.fwd.at i).map (fun d => Ev.send d (some m) (((getData s i).1.ep d).isOpen)) ++
      (s.sinks.at i).map (fun h => Ev.sink h (some m)) := by
  unfold getData
  rw [if_pos hi]
  cases h : recv (s.ep i) with
  | mk e rx =>
    rw [h] at hrx; simp only at hrx; subst hrx
    simp [setEp, sendEv]

theorem count_map_send (l : List Name) (d : Name) (m : Option Nat) (f : Name → Bool) :
    sendsTo d (l.map fun x => Ev.send x m (f x)) = l.count d := by
  induction l with
  | nil => simp [sendsTo]
  | cons a l ih =>
    unfold sendsTo at ih ⊢
    by_cases had : a = d
    · subst had; simp [List.filter_cons, ih]
    · have : (a == d) = false := by simpa using had
      simp [List.filter_cons, this, ih, List.count_cons, had]

theorem sendsTo_append (d : Name) (a b : List Ev) : sendsTo d (a ++ b) = sendsTo d a + sendsTo d b := by
  simp [sendsTo, List.filter_append]

theorem sendsTo_sinks (d : Name) (l : List Nat) (m : Option Nat) :
    sendsTo d (l.map fun h => Ev.sink h m) = 0 := by
  induction l with
  | nil => simp [sendsTo]
  | cons a l ih => unfold sendsTo at ih ⊢; simp [List.filter_cons]

/-- **exactly once per destination** (uses the no-duplicates invariant) -/
theorem getData_once_per_destination (s : St) (hinv : Inv s) (i : Name) (hi : i ∈ s.names) (m : Nat)
    (hrx : (recv (s.ep i)).2 = some m) (d : Name) :
    sendsTo d (getData s i).2.2 = if d ∈ s.fwd.at i then 1 else 0 := by
  rw [(getData_delivery s i hi m hrx).2, sendsTo_append, count_map_send, sendsTo_sinks]
  have hnd : (s.fwd.at i).Nodup := by
    unfold Table.at
    cases h : s.fwd i with
    | none => simp
    | some l => simpa using hinv.1 i l h
  split_ifs with hd
  · simp [List.count_eq_one_of_mem hnd hd]
  · simp [List.count_eq_zero_of_not_mem hd]

/-- **no data, no effect**: a receive that yields nothing delivers nothing and forwards nothing. -/
theorem receive_none_silent (s : St) (i : Name) (hrx : (recv (s.ep i)).2 = none) :
    (getData s i).2.2 = [] ∧ ((getData s i).2.1 = Ret.data none ∨ (getData s i).2.1 = Ret.none) := by
  unfold getData
  split_ifs with hi
  · cases h : recv (s.ep i) with
    | mk e rx => rw [h] at hrx; simp only at hrx; subst hrx; simp
  · simp

/-- unknown port: nothing happens at all -/
theorem unknown_port_silent (s : St) (i : Name) (hi : i ∉ s.names) :
    getData s i = (s, Ret.none, []) := by
  unfold getData; rw [if_neg hi]

/-- a closed port yields no data -/
theorem closed_port_no_data (e : EP) (h : e.isOpen = false) : (recv e).2 = none := by
  unfold recv; simp [h]

/-! ### registration calls report success exactly when they changed the rule set -/

theorem register_true_iff (t : Table) (k : Name) (x : Nat) :
    ((register t k x).2 = true ↔ ∃ k', (register t k x).1.at k' ≠ t.at k') ∧
    ((register t k x).2 = false → (register t k x).1 = t) := by
  unfold register
  cases hk : t k with
  | none =>
    refine ⟨⟨fun _ => ⟨k, ?_⟩, fun _ => rfl⟩, by simp⟩
    simp [Table.at, Table.upd, hk]
  | some l =>
    simp only
    split_ifs with hx
    · simp
    · refine ⟨⟨fun _ => ⟨k, ?_⟩, fun _ => rfl⟩, by simp⟩
      simp [Table.at, Table.upd, hk]

theorem unregister_true_iff (t : Table) (k : Name) (x : Nat) :
    ((unregister t k x).2 = true ↔ ∃ k', (unregister t k x).1.at k' ≠ t.at k') ∧
    ((unregister t k x).2 = false → (unregister t k x).1 = t) := by
  unfold unregister
  cases hk : t k with
  | none => simp
  | some l =>
    simp only
    split_ifs with hx
    · refine ⟨⟨fun _ => ⟨k, ?_⟩, fun _ => rfl⟩, by simp⟩
      simp only [Table.at, Table.upd, hk, if_true, Option.getD_some]
      intro h
      have := congrArg List.length h
      rw [List.length_erase_of_mem hx] at this
      have : 0 < l.length := List.length_pos_of_mem hx
      omega
    · simp

/-- the three rule tables as sets of entries per key -/
def rulesChanged (s s' : St) : Prop :=
  ∃ k, s'.fwd.at k ≠ s.fwd.at k ∨ s'.sinks.at k ≠ s.sinks.at k ∨ s'.srcs.at k ≠ s.srcs.at k

def isRegistration : Op → Bool
  | .fwd _ _ | .del _ _ | .sink _ _ | .source _ _ => true
  | _ => false

theorem registration_reports_change (s : St) (op : Op) (hop : isRegistration op = true) :
    ((step s op).2.1 = Ret.bool true ↔ rulesChanged s (step s op).1) ∧
    ((step s op).2.1 = Ret.bool true ∨ (step s op).2.1 = Ret.bool false) := by
  cases op with
  | fwd i o =>
    simp only [step]
    split_ifs with h
    · have := register_true_iff s.fwd i o
      cases hr : register s.fwd i o with
      | mk t b =>
        rw [hr] at this; simp only at this
        cases b
        · have ht := this.2 rfl; subst ht
          simp [rulesChanged]
        · refine ⟨⟨fun _ => ?_, fun _ => rfl⟩, Or.inl rfl⟩
          obtain ⟨k, hk⟩ := this.1.mp rfl
          exact ⟨k, Or.inl hk⟩
    · simp [rulesChanged]
  | del i o =>
    simp only [step]
    split_ifs with h
    · have := unregister_true_iff s.fwd i o
      cases hr : unregister s.fwd i o with
      | mk t b =>
        rw [hr] at this; simp only at this
        cases b
        · have ht := this.2 rfl; subst ht
          simp [rulesChanged]
        · refine ⟨⟨fun _ => ?_, fun _ => rfl⟩, Or.inl rfl⟩
          obtain ⟨k, hk⟩ := this.1.mp rfl
          exact ⟨k, Or.inl hk⟩
    · simp [rulesChanged]
  | sink i h =>
    cases h with
    | none => simp [step, rulesChanged]
    | some h =>
      simp only [step]
      split_ifs with hi
      · have := register_true_iff s.sinks i h
        cases hr : register s.sinks i h with
        | mk t b =>
          rw [hr] at this; simp only at this
          cases b
          · have ht := this.2 rfl; subst ht
            simp [rulesChanged]
          · refine ⟨⟨fun _ => ?_, fun _ => rfl⟩, Or.inl rfl⟩
            obtain ⟨k, hk⟩ := this.1.mp rfl
            exact ⟨k, Or.inr (Or.inl hk)⟩
      · simp [rulesChanged]
  | source o h =>
    cases h with
    | none => simp [step, rulesChanged]
    | some h =>
      simp only [step]
      split_ifs with hi
      · have := register_true_iff s.srcs o h
        cases hr : register s.srcs o h with
        | mk t b =>
          rw [hr] at this; simp only at this
          cases b
          · have ht := this.2 rfl; subst ht
            simp [rulesChanged]
          · refine ⟨⟨fun _ => ?_, fun _ => rfl⟩, Or.inl rfl⟩
            obtain ⟨k, hk⟩ := this.1.mp rfl
            exact ⟨k, Or.inr (Or.inr hk)⟩
      · simp [rulesChanged]
  | get i => simp [isRegistration] at hop
  | send n d => simp [isRegistration] at hop
  | spin k => simp [isRegistration] at hop
  | opn n => simp [isRegistration] at hop
  | cls n => simp [isRegistration] at hop
  | inject n d => simp [isRegistration] at hop

/-! ### each spin calls each source once, for its endpoint -/

def srcCalls (evs : List Ev) : List Nat := evs.filterMap fun e => match e with | .src h => some h | _ => none

theorem callSources_calls (s : St) (n : Name) (hs : List Nat) : srcCalls (callSources s n hs).2 = hs := by
  induction hs generalizing s with
  | nil => simp [callSources, srcCalls]
  | cons h hs ih =>
    simp only [callSources]
    have := ih { s with cnt := fun x => if x = h then s.cnt h + 1 else s.cnt x }
    unfold srcCalls at this ⊢
    simp [List.filterMap_cons, sendEv, this]

theorem getData_no_src (s : St) (i : Name) : srcCalls (getData s i).2.2 = [] := by
  unfold getData
  split_ifs with hi
  · cases h : recv (s.ep i) with
    | mk e rx =>
      cases rx with
      | none => simp [srcCalls]
      | some m =>
        simp only [srcCalls, List.filterMap_append]
        simp [List.filterMap_map, sendEv, Function.comp_def]
  · simp [srcCalls]

theorem srcCalls_append (a b : List Ev) : srcCalls (a ++ b) = srcCalls a ++ srcCalls b := by
  simp [srcCalls, List.filterMap_append]

theorem spinOne_calls (s : St) (n : Name) : srcCalls (spinOne s n).2 = s.srcs.at n := by
  unfold spinOne
  have h1 := callSources_calls s n (s.srcs.at n)
  cases hc : callSources s n (s.srcs.at n) with
  | mk s1 e1 =>
    rw [hc] at h1
    simp only
    split_ifs
    · have h2 := getData_no_src s1 n
      cases hg : getData s1 n with
      | mk s2 r =>
        rw [hg] at h2
        simp only at h1 h2 ⊢
        rw [srcCalls_append, h1, h2, List.append_nil]
    · exact h1

theorem spinNames_calls (s : St) (ns : List Name) :
    srcCalls (spinNames s ns).2 = ns.flatMap fun n => s.srcs.at n := by
  induction ns generalizing s with
  | nil => simp [spinNames, srcCalls]
  | cons n ns ih =>
    simp only [spinNames, List.flatMap_cons]
    rw [srcCalls_append, spinOne_calls, ih, (spinOne_tables s n).2.2.1]

/-- **each spin calls each registered source exactly once, in endpoint order** -/
theorem spin_sources_once (s : St) :
    srcCalls (singleSpin s).2 = s.names.flatMap fun n => s.srcs.at n :=
  spinNames_calls s s.names

/-- and each source value is sent to its own endpoint right after the call -/
theorem callSources_sends (s : St) (n : Name) (hs : List Nat) :
    sendsTo n (callSources s n hs).2 = hs.length := by
  induction hs generalizing s with
  | nil => simp [callSources, sendsTo]
  | cons h hs ih =>
    simp only [callSources]
    have := ih { s with cnt := fun x => if x = h then s.cnt h + 1 else s.cnt x }
    unfold sendsTo at this ⊢
    simp [List.filter_cons, sendEv, this]

/-! ### non-vacuity: a concrete hub meeting the hypotheses -/

def demo : St := (run (init [0, 1]) [.opn 0, .opn 1, .fwd 0 1, .fwd 0 1, .sink 0 (some 7), .inject 0 (some 42)]).1

example : 0 ∈ demo.names ∧ (recv (demo.ep 0)).2 = some 42 ∧ demo.fwd.at 0 = [1] ∧ demo.sinks.at 0 = [7] := by
  decide
example : (getData demo 0).2.2 = [Ev.send 1 (some 42) true, Ev.sink 7 (some 42)] := by decide
example : Inv demo := history_inv _ _

end BR.C19
