/-
  C11 (mass-carrying clause) — the wrench `carryMassCalc` hands to the statics is the applied wrench plus pure gravity loads:
  its force part is the applied force plus (m_top + n·m_shaft)·g, for any number of legs, and every added load is the weight
  m·g acting at a point of the platform (moment = point × weight).
-/
import BR.Lemmas.SE3
import BR.Model.SPCarry

namespace BR.C11C
open BR.SP BR.MR BR.Rot OrdField Scalar

/-- the force part of the shaft loads is (number of legs)·m_shaft·g -/
theorem shaftWrenches_force (g : V3 ℝ) (mShaft cog : ℝ) (bs ts : List (V3 ℝ)) (h : bs.length = ts.length) :
    (shaftWrenches g mShaft cog bs ts).b = V3.smul ((bs.length : ℝ) * mShaft) g := by
  induction bs generalizing ts with
  | nil =>
    obtain ⟨x, y, z⟩ := g
    simp only [shaftWrenches, v6zero, List.length_nil, Nat.cast_zero]
    m3ring
  | cons b bs ih =>
    cases ts with
    | nil => simp at h
    | cons t ts =>
      have := ih ts (by simpa using h)
      simp only [shaftWrenches, List.length_cons, Nat.cast_succ]
      show (wrenchAt _ _).b + (shaftWrenches g mShaft cog bs ts).b = _
      rw [this]
      obtain ⟨x, y, z⟩ := g
      unfold wrenchAt
      m3ring

/-- **the legs carry exactly the applied force plus the weights**: force part of the carried wrench -/
theorem carryWrench_force (W : V6 ℝ) (g topPos : V3 ℝ) (mTop mShaft cog : ℝ) (bs ts : List (V3 ℝ)) (h : bs.length = ts.length) :
    (carryWrench W g topPos mTop mShaft cog bs ts).b = W.b + V3.smul (mTop + (bs.length : ℝ) * mShaft) g := by
  unfold carryWrench
  show (W.b + (wrenchAt topPos (V3.smul mTop g)).b) + (shaftWrenches g mShaft cog bs ts).b = _
  rw [shaftWrenches_force g mShaft cog bs ts h]
  obtain ⟨x, y, z⟩ := g
  obtain ⟨⟨w1, w2, w3⟩, ⟨w4, w5, w6⟩⟩ := W
  unfold wrenchAt
  m3ring

/-- Σ (centre of gravity of shaft i) × (m_shaft·g) -/
noncomputable def shaftMoments (g : V3 ℝ) (mShaft cog : ℝ) : List (V3 ℝ) → List (V3 ℝ) → V3 ℝ
  | b :: bs, t :: ts => V3.cross (pointTowards t b cog) (V3.smul mShaft g) + shaftMoments g mShaft cog bs ts
  | _, _ => ⟨0, 0, 0⟩

theorem shaftWrenches_moment (g : V3 ℝ) (mShaft cog : ℝ) (bs ts : List (V3 ℝ)) :
    (shaftWrenches g mShaft cog bs ts).a = shaftMoments g mShaft cog bs ts := by
  induction bs generalizing ts with
  | nil => simp [shaftWrenches, shaftMoments, v6zero]
  | cons b bs ih =>
    cases ts with
    | nil => simp [shaftWrenches, shaftMoments, v6zero]
    | cons t ts =>
      simp only [shaftWrenches, shaftMoments]
      show (wrenchAt _ _).a + (shaftWrenches g mShaft cog bs ts).a = _
      rw [ih ts]; rfl

/-- **moment part of the carried wrench**: the applied moment plus the moment of the plate weight about the origin (plate position ×
    weight) plus the moment of each shaft weight acting at its centre of gravity — nothing else -/
theorem carryWrench_moment (W : V6 ℝ) (g topPos : V3 ℝ) (mTop mShaft cog : ℝ) (bs ts : List (V3 ℝ)) :
    (carryWrench W g topPos mTop mShaft cog bs ts).a =
      W.a + V3.cross topPos (V3.smul mTop g) + shaftMoments g mShaft cog bs ts := by
  unfold carryWrench
  show (W.a + (wrenchAt topPos (V3.smul mTop g)).a) + (shaftWrenches g mShaft cog bs ts).a = _
  rw [shaftWrenches_moment]; rfl

/-- each load is a pure force at a point: its moment is point × force (no couple is added) -/
theorem wrenchAt_moment (p f : V3 ℝ) : (wrenchAt p f).a = V3.cross p f ∧ (wrenchAt p f).b = f := ⟨rfl, rfl⟩

/-- the shaft's centre of gravity lies on the leg: top joint + cog · (unit vector towards the bottom joint) -/
theorem pointTowards_on_leg (t b : V3 ℝ) (cog : ℝ) :
    pointTowards t b cog - t = V3.smul cog (MR.normalize (b - t)) := by
  unfold pointTowards
  generalize MR.normalize (b - t) = n
  obtain ⟨t1, t2, t3⟩ := t; obtain ⟨n1, n2, n3⟩ := n
  m3ring

end BR.C11C
