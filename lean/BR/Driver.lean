/-
  Line-protocol driver over the executable instances of the models (import-free, so it is
  also compiled as the `brdriver` executable).  One request per line:
      <function> <arg> <arg> ...
  Floats cross the boundary as 16 hex digits (IEEE-754 bits); rationals as `p/q` or `p`.
  One reply line per request; `bad-op` for anything the driver does not understand.
-/
import BR.Scalar
import BR.Gen.C15
import BR.Model.Comms
import BR.Model.MR
import BR.Model.Tm
import BR.Model.Screw
import BR.Model.Helpers
import BR.Model.RRT
import BR.Model.HeapOps
import BR.Model.Arm
import BR.Model.IK
import BR.Model.Urdf
import BR.Model.Dyn
import BR.Model.ArmStatics
import BR.Model.SP
import BR.Model.SPCarry
import BR.Model.Disp

namespace BR.Driver

def hexVal (c : Char) : Option Nat :=
  if '0' ≤ c ∧ c ≤ '9' then some (c.toNat - '0'.toNat)
  else if 'a' ≤ c ∧ c ≤ 'f' then some (c.toNat - 'a'.toNat + 10)
  else if 'A' ≤ c ∧ c ≤ 'F' then some (c.toNat - 'A'.toNat + 10)
  else none

def parseHex (s : String) : Option Nat :=
  if s.isEmpty then none else
  s.foldl (fun acc c => match acc, hexVal c with
    | some a, some v => some (a * 16 + v)
    | _, _ => none) (some 0)

def parseFloat (s : String) : Option Float :=
  if s.length != 16 then none else (parseHex s).map fun n => Float.ofBits n.toUInt64

def hexDigit (n : Nat) : Char := if n < 10 then Char.ofNat (48 + n) else Char.ofNat (87 + n)

def fmtFloat (x : Float) : String :=
  let n := x.toBits.toNat
  String.ofList ((List.range 16).map fun i => hexDigit ((n >>> (4 * (15 - i))) % 16))

def parseInt (s : String) : Option Int := s.toInt?

def parseRat (s : String) : Option Rat :=
  match s.splitOn "/" with
  | [p] => (parseInt p).map fun n => (n : Rat)
  | [p, q] => match parseInt p, q.toNat? with
      | some n, some d => if d = 0 then none else some (mkRat n d)
      | _, _ => none
  | _ => none

def fmtRat (r : Rat) : String := if r.den = 1 then toString r.num else s!"{r.num}/{r.den}"

def allSome {α} (l : List (Option α)) : Option (List α) :=
  l.foldr (fun x acc => match x, acc with | some a, some as => some (a :: as) | _, _ => none) (some [])

namespace MRIO
open BR.MR

def v3 : List Float → Option (V3 Float × List Float)
  | a :: b :: c :: r => some (⟨a, b, c⟩, r)
  | _ => none
def m3 : List Float → Option (M3 Float × List Float)
  | a :: b :: c :: d :: e :: f :: g :: h :: i :: r => some (⟨a, b, c, d, e, f, g, h, i⟩, r)
  | _ => none
def v6 (l : List Float) : Option (V6 Float × List Float) := do
  let (a, r) ← v3 l
  let (b, r) ← v3 r
  some (⟨a, b⟩, r)
/-- 4×4 given row-major as 16 numbers; the bottom row is read and dropped -/
def t4 : List Float → Option (T4 Float × List Float)
  | a :: b :: c :: x :: d :: e :: f :: y :: g :: h :: i :: z :: _ :: _ :: _ :: _ :: r =>
      some (⟨⟨a, b, c, d, e, f, g, h, i⟩, ⟨x, y, z⟩⟩, r)
  | _ => none

def oV3 (v : V3 Float) : List Float := [v.x, v.y, v.z]
def oM3 (m : M3 Float) : List Float := [m.a11, m.a12, m.a13, m.a21, m.a22, m.a23, m.a31, m.a32, m.a33]
def oV6 (v : V6 Float) : List Float := oV3 v.a ++ oV3 v.b
/-- 4×4 row-major with the given bottom-right entry (1 for SE(3), 0 for se(3)) -/
def oT4 (t : T4 Float) (br : Float) : List Float :=
  [t.R.a11, t.R.a12, t.R.a13, t.p.x, t.R.a21, t.R.a22, t.R.a23, t.p.y, t.R.a31, t.R.a32, t.R.a33, t.p.z, 0, 0, 0, br]
def oM6 (m : M6 Float) : List Float :=
  [m.tl.a11, m.tl.a12, m.tl.a13, m.tr.a11, m.tr.a12, m.tr.a13,
   m.tl.a21, m.tl.a22, m.tl.a23, m.tr.a21, m.tr.a22, m.tr.a23,
   m.tl.a31, m.tl.a32, m.tl.a33, m.tr.a31, m.tr.a32, m.tr.a33,
   m.bl.a11, m.bl.a12, m.bl.a13, m.br.a11, m.br.a12, m.br.a13,
   m.bl.a21, m.bl.a22, m.bl.a23, m.br.a21, m.br.a22, m.br.a23,
   m.bl.a31, m.bl.a32, m.bl.a33, m.br.a31, m.br.a32, m.br.a33]

/-- joints given as n, then n screws (6 each), then n angles -/
def joints (l : List Float) : Option (List (V6 Float × Float) × List Float) :=
  match l with
  | [] => none
  | nf :: r =>
    let n := nf.toUInt64.toNat
    let rec go (k : Nat) (r : List Float) (acc : List (V6 Float)) : Option (List (V6 Float) × List Float) :=
      match k with
      | 0 => some (acc.reverse, r)
      | k + 1 => match v6 r with
        | some (s, r') => go k r' (s :: acc)
        | none => none
    match go n r [] with
    | some (ss, r') =>
      if r'.length < n then none else some (ss.zip (r'.take n), r'.drop n)
    | none => none

def handle (fn : String) (a : List Float) : Option (List Float) :=
  match fn with
  | "mr.nearzero" => match a with | [z] => some [if nearZero z then 1 else 0] | _ => none
  | "mr.norm" => do let (v, _) ← v3 a; some [norm3 v]
  | "mr.normalize" => do let (v, _) ← v3 a; some (oV3 (normalize v))
  | "mr.cubic" => match a with | [tf, t] => some [cubicTimeScaling tf t] | _ => none
  | "mr.quintic" => match a with | [tf, t] => some [quinticTimeScaling tf t] | _ => none
  | "mr.hat" => do let (v, _) ← v3 a; some (oM3 (hat v))
  | "mr.vee" => do let (m, _) ← m3 a; some (oV3 (vee m))
  | "mr.axisang3" => do let (v, _) ← v3 a; let r := axisAng3 v; some (oV3 r.1 ++ [r.2])
  | "mr.exp3" => do let (m, _) ← m3 a; some (oM3 (matrixExp3 m))
  | "mr.log3" => do let (m, _) ← m3 a; some (oM3 (matrixLog3 m) ++ [Float.ofNat (log3Branch m)])
  | "mr.transinv" => do let (t, _) ← t4 a; some (oT4 (transInv t) 1)
  | "mr.hat6" => do let (v, _) ← v6 a; some (oT4 (hat6 v) 0)
  | "mr.vee6" => do let (t, _) ← t4 a; some (oV6 (vee6 t))
  | "mr.adjoint" => do let (t, _) ← t4 a; some (oM6 (adjoint t))
  | "mr.ad" => do let (v, _) ← v6 a; some (oM6 (ad v))
  | "mr.screwtoaxis" => do
      let (q, r) ← v3 a; let (s, r) ← v3 r
      match r with | [h] => some (oV6 (screwToAxis q s h)) | _ => none
  | "mr.axisang6" => do let (v, _) ← v6 a; let r := axisAng6 v; some (oV6 r.1 ++ [r.2])
  | "mr.exp6" => do let (t, _) ← t4 a; some (oT4 (matrixExp6 t) 1)
  | "mr.log6" => do let (t, _) ← t4 a; some (oT4 (matrixLog6 m3IsZeroF t) 0)
  | "mr.fkinspace" => do let (m, r) ← t4 a; let (j, _) ← joints r; some (oT4 (fkinSpace m j) 1)
  | "mr.fkinbody" => do let (m, r) ← t4 a; let (j, _) ← joints r; some (oT4 (fkinBody m j) 1)
  | "mr.jacobianspace" => do let (j, _) ← joints a; some ((jacobianSpace j).flatMap oV6)
  | "mr.jacobianbody" => do let (j, _) ← joints a; some ((jacobianBody j).flatMap oV6)
  | _ => none

end MRIO

namespace ScrIO
open BR.ScrewModel BR.TmModel MRIO

def handle (fn : String) (a : List Float) : Option (List Float) :=
  match fn with
  | "scr.change" => do
      match a with
      | w :: r =>
        let (d, r) ← v6 r; let (o, r) ← v6 r; let (n, _) ← v6 r
        let res := change (w != 0) ⟨d, ofTAA o⟩ (ofTAA n)
        some (oV6 res.data ++ oV6 res.frame.TAA)
      | _ => none
  | "scr.add" | "scr.sub" => do
      match a with
      | w :: r =>
        let (d1, r) ← v6 r; let (f1, r) ← v6 r; let (d2, r) ← v6 r; let (f2, _) ← v6 r
        let x : Scr Float := ⟨d1, ofTAA f1⟩
        let y : Scr Float := ⟨d2, ofTAA f2⟩
        let res := if fn == "scr.add" then addObj (w != 0) x y else subObj (w != 0) x y
        some (oV6 res.data ++ oV6 res.frame.TAA)
      | _ => none
  | "scr.adds" | "scr.subs" | "scr.rsubs" | "scr.mul" | "scr.div" => do
      let (d, r) ← v6 a
      match r with
      | [s] =>
        let x : Scr Float := ⟨d, ident⟩
        some (oV6 (match fn with
          | "scr.adds" => addScalar x s
          | "scr.subs" => subScalar x s
          | "scr.rsubs" => rsubScalar x s
          | "scr.mul" => (mulScalar x s).data
          | _ => (divScalar x s).data))
      | _ => none
  | "scr.wrenchat" => do
      let (f, r) ← v3 a; let (p, _) ← v3 r
      some (oV6 (wrenchAt f p ident).data)
  | _ => none

end ScrIO

namespace HlpIO
open BR.Helpers BR.TmModel BR.MR MRIO

def handle (fn : String) (a : List Float) : Option (List Float) :=
  match fn with
  | "hlp.plane" => do
      let (p1, r) ← v3 a; let (p2, r) ← v3 r; let (p3, _) ← v3 r
      let pl := planeFromThreePoints p1 p2 p3
      some (oV3 pl.1 ++ [pl.2])
  | "hlp.mirror" => do
      let (o, r) ← v6 a; let (p, _) ← v3 r
      some (oV3 (mirror (ofTAA o) p))
  | "hlp.interp" => do
      let (x, r) ← v6 a; let (y, _) ← v6 r
      some (oV6 (tmInterpMidpoint x y).TAA)
  | "hlp.lookat" => do
      let (x, r) ← v3 a; let (y, _) ← v3 r
      some (oT4 (lookAtT x y) 1)
  | "hlp.distance" => do
      let (x, r) ← v3 a; let (y, _) ← v3 r
      some [distance x y]
  | "hlp.arcdist" => do
      let (x, r) ← v6 a; let (y, _) ← v6 r
      some [arcDistance x y]
  | "hlp.clg" => do
      let (o, r) ← v6 a; let (g, r) ← v6 r
      match r with
      | [d] => match closeLinearGap o g d (fun x => x == 0) with
        | some v => some (oV6 v)
        | none => some (oV6 g)
      | _ => none
  | "hlp.cag" => do
      let (o, r) ← v6 a; let (g, r) ← v6 r
      match r with
      | [d] => match closeArcGap o g d (fun x => x == 0) with
        | some t => some (oT4 t 1)
        | none => some (oT4 (taaToTM g) 1)
      | _ => none
  | "hlp.ikpath" => do
      let (x, r) ← v6 a; let (y, r) ← v6 r
      match r with
      | [n] => some ((ikPath x y n.toUInt64.toNat (fun k => Float.ofNat k)).flatMap oV6)
      | _ => none
  | "hlp.twisttogoal" => do
      let (x, r) ← t4 a; let (y, _) ← t4 r
      some (oV6 (twistToGoal m3IsZeroF x y))
  | "hlp.anglemod" => match a with | [r] => some [angleModScalar r] | _ => none
  | "hlp.fibo" => match a with | [i, n] => some (oV3 (fiboPoint i n)) | _ => none
  | "hlp.usphere" => match a with | [x, e] => some (oV3 (unitSpherePoint x e)) | _ => none
  | _ => none

end HlpIO

/-- session state of the stateful models -/
structure DState where
  comms : BR.Comms.St := BR.Comms.init []
  tms : List (BR.TmModel.Tm Float) := []
  rrt : List (BR.RRT.Node Float) := [BR.RRT.root]
  arm : Option (BR.ArmModel.Arm Float) := none

namespace TmIO
open BR.TmModel BR.MR MRIO

def fl (l : List String) : Option (List Float) := allSome (l.map parseFloat)

def parseOp : List String → Option (Op Float)
  | "ctor6" :: rpy :: r => do let (v, _) ← v6 (← fl r); some (.ctor6 v (rpy == "1"))
  | "ctor3" :: rpy :: r => do let (v, _) ← v3 (← fl r); some (.ctor3 v (rpy == "1"))
  | "ctor7" :: r => do
      let f ← fl r
      match f with
      | [a, b, c, x, y, z, w] => some (.ctor7 ⟨a, b, c⟩ x y z w)
      | _ => none
  | "ctorPair" :: rpy :: r => do let (v, _) ← v6 (← fl r); some (.ctorPair v.a v.b (rpy == "1"))
  | "ctorTM" :: r => do let (t, _) ← t4 (← fl r); some (.ctorTM t)
  | ["ctorCopy", i] => do some (.ctorCopy (← i.toNat?))
  | ["ctorCopyArr", i] => do some (.ctorCopyArr (← i.toNat?))
  | "sTM" :: i :: r => do let (t, _) ← t4 (← fl r); some (.sTM (← i.toNat?) t)
  | "sTAA" :: i :: r => do let (v, _) ← v6 (← fl r); some (.sTAA (← i.toNat?) v)
  | ["set", i, k, x] => do some (.set (← i.toNat?) (← k.toNat?) (← parseFloat x))
  | "setPos" :: i :: r => do let (v, _) ← v3 (← fl r); some (.setPos (← i.toNat?) v)
  | "setRot" :: i :: r => do let (v, _) ← v3 (← fl r); some (.setRot (← i.toNat?) v)
  | ["setQuat", i, x, y, z, w] => do
      some (.setQuat (← i.toNat?) (← parseFloat x) (← parseFloat y) (← parseFloat z) (← parseFloat w))
  | ["angleMod", i] => do some (.angleMod (← i.toNat?))
  | ["copy", i] => do some (.copy (← i.toNat?))
  | ["inv", i] => do some (.inv (← i.toNat?))
  | ["matmul", i, j] => do some (.matmul (← i.toNat?) (← j.toNat?))
  | ["add", i, j] => do some (.add (← i.toNat?) (← j.toNat?))
  | ["sub", i, j] => do some (.sub (← i.toNat?) (← j.toNat?))
  | ["mulS", i, k] => do some (.mulS (← i.toNat?) (← parseFloat k))
  | ["divS", i, k] => do some (.divS (← i.toNat?) (← parseFloat k))
  | ["abs", i] => do some (.abs (← i.toNat?))
  | ["floordivS", i, k] => do some (.floordivS (← i.toNat?) (← parseFloat k))
  | ["floordiv", i, j] => do some (.floordiv (← i.toNat?) (← j.toNat?))
  | ["l2g", i, j] => do some (.l2g (← i.toNat?) (← j.toNat?))
  | ["g2l", i, j] => do some (.g2l (← i.toNat?) (← j.toNat?))
  | _ => none

def fmtTm (t : Tm Float) : String :=
  " ".intercalate ((oT4 t.TM 1 ++ oV6 t.TAA).map fmtFloat)

end TmIO

namespace CommsIO
open BR.Comms

def optNat (s : String) : Option (Option Nat) :=
  if s = "N" then some none else s.toNat?.map some

def fmtOpt : Option Nat → String
  | none => "N"
  | some m => toString m

def fmtEv : Ev → String
  | .send n d ok => s!"S{n}:{fmtOpt d}:{if ok then 1 else 0}"
  | .sink h d => s!"K{h}:{fmtOpt d}"
  | .src h => s!"R{h}"

def fmtRet : Ret → String
  | .bool true => "T"
  | .bool false => "F"
  | .data d => "D" ++ fmtOpt d
  | .none => "N"

def parseOp : List String → Option Op
  | ["fwd", i, o] => do some (.fwd (← i.toNat?) (← o.toNat?))
  | ["del", i, o] => do some (.del (← i.toNat?) (← o.toNat?))
  | ["sink", i, h] => do some (.sink (← i.toNat?) (← optNat h))
  | ["source", o, h] => do some (.source (← o.toNat?) (← optNat h))
  | ["get", i] => do some (.get (← i.toNat?))
  | ["send", n, d] => do some (.send (← n.toNat?) (← optNat d))
  | ["spin", k] => do some (.spin (← k.toNat?))
  | ["open", n] => do some (.opn (← n.toNat?))
  | ["close", n] => do some (.cls (← n.toNat?))
  | ["inject", n, d] => do some (.inject (← n.toNat?) (← optNat d))
  | _ => none

end CommsIO

namespace ArmIO
open BR.ArmModel BR.MR MRIO

def takeN (n : Nat) (l : List Float) : Option (List Float × List Float) :=
  if l.length < n then none else some (l.take n, l.drop n)

def screws (n : Nat) (l : List Float) : Option (List (V6 Float) × List Float) :=
  match n with
  | 0 => some ([], l)
  | k + 1 => do
    let (s, r) ← v6 l
    let (ss, r') ← screws k r
    some (s :: ss, r')

def fmt (a : Arm Float) : String :=
  " ".intercalate ((oT4 a.eePos 1 ++ oT4 a.base 1 ++ a.theta).map fmtFloat)

def parseNew (l : List Float) : Option (Arm Float) :=
  match l with
  | nf :: r => do
    let n := nf.toUInt64.toNat
    let (b, r) ← t4 r
    let (m, r) ← t4 r
    let (ss, r) ← screws n r
    let (mins, r) ← takeN n r
    let (maxs, _) ← takeN n r
    some (BR.ArmModel.new b ss m mins maxs (List.replicate n 0))
  | [] => none

def parseOp (name : String) (l : List Float) (n : Nat) : Option (Op Float) :=
  match name with
  | "FK" => do let (t, _) ← takeN n l; some (.FK t)
  | "IK" => do let (t, _) ← takeN n l; some (.IK t)
  | "IKfree" => do let (t, _) ← takeN n l; some (.IKfree t)
  | "randomPos" => do let (t, _) ← takeN n l; some (.randomPos t)
  | "move" => do let (b, _) ← t4 l; some (.move b)
  | "moveS" => do let (b, r) ← t4 l; let (t, _) ← takeN n r; some (.moveStationary b t)
  | "setHome" => do let (d, _) ← t4 l; some (.setHome d)
  | "restore" => some .restore
  | _ => none

end ArmIO

namespace DynIO
open BR.Dyn BR.MR MRIO

def m6 (l : List Float) : Option (M6 Float × List Float) :=
  if l.length < 36 then none else
    let g := fun (i j : Nat) => l.getD (6 * i + j) 0
    let blk := fun (r c : Nat) => (⟨g r c, g r (c+1), g r (c+2), g (r+1) c, g (r+1) (c+1), g (r+1) (c+2),
                                    g (r+2) c, g (r+2) (c+1), g (r+2) (c+2)⟩ : M3 Float)
    some (⟨blk 0 0, blk 0 3, blk 3 0, blk 3 3⟩, l.drop 36)

def many {β} (p : List Float → Option (β × List Float)) : Nat → List Float → Option (List β × List Float)
  | 0, l => some ([], l)
  | k + 1, l => do
    let (x, r) ← p l
    let (xs, r') ← many p k r
    some (x :: xs, r')

/-- dyn.id n Mlist((n+1)×16) Glist(n×36) Slist(n×6) θ dθ ddθ g(3) F(6) -/
def handle (fn : String) (a : List Float) : Option (List Float) :=
  match fn, a with
  | "dyn.id", nf :: r => do
    let n := nf.toUInt64.toNat
    let (Ms, r) ← many t4 (n + 1) r
    let (Gs, r) ← many m6 n r
    let (Ss, r) ← many v6 n r
    let (th, r) ← ArmIO.takeN n r
    let (dth, r) ← ArmIO.takeN n r
    let (ddth, r) ← ArmIO.takeN n r
    let (g, r) ← v3 r
    let (F, _) ← v6 r
    some (inverseDynamics Ms Gs Ss th dth ddth g F)
  | "dyn.linkmass", nf :: r => do     -- n W(6) J columns (n×6) link weight wrenches (n×6) -> torques of staticForcesWithLinkMasses
    let n := nf.toUInt64.toNat
    let (W, r) ← v6 r
    let (Js, r) ← many v6 n r
    let (ws, _) ← many v6 n r
    some (BR.ArmStatics.linkMassTorques W Js ws)
  | _, _ => none

end DynIO

namespace UrdfIO
open BR.UrdfModel BR.MR MRIO

def joints (n : Nat) (l : List Float) : Option (List (Joint Float)) :=
  match n with
  | 0 => some []
  | k + 1 => match l with
    | m :: r => do
      let (o, r) ← t4 r
      let (a, r) ← v3 r
      let rest ← joints k r
      some ({ moving := m != 0, origin := o, axis := a } :: rest)
    | [] => none

/-- urdf.load n (moving origin16 axis3)* -> home16 then the screws -/
def handle (fn : String) (a : List Float) : Option (List Float) :=
  match fn, a with
  | "urdf.load", nf :: r => do
    let js ← joints nf.toUInt64.toNat r
    some (oT4 (homeOf T4.one js) 1 ++ (screwsOf T4.one js).flatMap oV6)
  | _, _ => none

end UrdfIO

namespace IKIO
open BR.IKModel BR.MR MRIO

/-- ik.check n home16 screws(n×6) goal16 rotTol posTol θ(n) -> err ‖ω‖ ‖v‖ -/
def handle (fn : String) (a : List Float) : Option (List Float) :=
  match fn, a with
  | "ik.check", nf :: r => do
    let n := nf.toUInt64.toNat
    let (home, r) ← t4 r
    let (ss, r) ← ArmIO.screws n r
    let (goal, r) ← t4 r
    match r with
    | rot :: pos :: r =>
      let (th, _) ← ArmIO.takeN n r
      let V := errTwist m3IsZeroF home ss goal th
      some [if ikTest m3IsZeroF home ss goal rot pos th then 1 else 0, norm3 V.a, norm3 V.b]
    | _ => none
  | _, _ => none

end IKIO


namespace SPIO
open BR.SP BR.MR MRIO

def takeN (n : Nat) (l : List Float) : Option (List Float × List Float) :=
  if l.length < n then none else some (l.take n, l.drop n)

def v3s : Nat → List Float → Option (List (V3 Float) × List Float)
  | 0, r => some ([], r)
  | k + 1, r => do
    let (v, r) ← v3 r
    let (vs, r) ← v3s k r
    some (v :: vs, r)

def legs : Nat → List Float → Option (List (Leg Float) × List Float)
  | 0, r => some ([], r)
  | k + 1, r => do
    let (b, r) ← v3 r
    let (t, r) ← v3 r
    let (ls, r) ← legs k r
    some (⟨b, t⟩ :: ls, r)

def sols : Nat → List Float → Option (List (Sol Float) × List Float)
  | 0, r => some ([], r)
  | k + 1, r => match r with
    | kind :: r =>
      if kind == 4 then do       -- the repaired top pose: a 4×4
        let (T, r) ← t4 r
        let (ss, r) ← sols k r
        some (Sol.fix T :: ss, r)
      else do
        let (x, r) ← v6 r
        match r with
        | flag :: r => do
          let (ss, r) ← sols k r
          some ((if kind == 1 then Sol.raph x (flag != 0) else if kind == 3 then Sol.raised else Sol.fsolve x) :: ss, r)
        | [] => none
    | [] => none

def oracle (r : List Float) : Option (List (Sol Float) × List Float) :=
  match r with
  | n :: r => sols n.toUInt64.toNat r
  | [] => none

def lists6 : Nat → List Float → Option (List (List Float) × List Float)
  | 0, r => some ([], r)
  | k + 1, r => do
    let (L, r) ← takeN 6 r
    let (Ls, r) ← lists6 k r
    some (L :: Ls, r)

def obs (ok : Bool) (verdict : Float) (s : St Float) (left : Nat) : List Float :=
  [if ok then 1 else 0, verdict] ++ oT4 s.Tb 1 ++ oT4 s.Tt 1 ++ s.lens ++ s.bs.flatMap oV3 ++ s.ts.flatMap oV3 ++
    oT4 s.rel 1 ++ [if s.repaired then 1 else 0, left.toFloat]

def b2f (b : Bool) : Float := if b then 1 else 0

/-- reads one operation of a history -/
def readOp (r : List Float) : Option (Op Float × List Float) :=
  match r with
  | code :: r =>
    match code.toUInt64.toNat with
    | 1 => do
      let (Tt, r) ← t4 r
      let (o, r) ← oracle r
      some (Op.ik Tt o, r)
    | 2 => do
      let (L, r) ← takeN 6 r
      match r with
      | rev :: prot :: r => do
        let (o, r) ← oracle r
        some (Op.fk L (rev != 0) (prot != 0) o, r)
      | _ => none
    | 11 => do
      let (L, r) ← takeN 6 r
      let (B, r) ← t4 r
      match r with
      | rev :: prot :: r => do
        let (o, r) ← oracle r
        some (Op.fkAt L B (rev != 0) (prot != 0) o, r)
      | _ => none
    | 3 => do
      let (T, r) ← t4 r
      let (o, r) ← oracle r
      some (Op.move T o, r)
    | 4 => match r with
      | rot :: r => do
        let (o, r) ← oracle r
        some (Op.spin rot o, r)
      | [] => none
    | 5 => do
      let (o, r) ← oracle r
      some (Op.validate o, r)
    | 6 => some (Op.validateDN, r)
    | 7 => match r with
      | prot :: r => do
        let (o, r) ← oracle r
        some (Op.invJac (prot != 0) o, r)
      | [] => none
    | 8 => match r with
      | minDev :: k :: r => do
        let (Ls, r) ← lists6 k.toUInt64.toNat r
        let (o, r) ← oracle r
        some (Op.randomPos minDev Ls o, r)
      | _ => none
    | 9 => match r with
      | a :: b :: c :: d :: r => some (Op.switches (a != 0) (b != 0) (c != 0) (d != 0), r)
      | _ => none
    | 10 => match r with
      | m :: r => some (Op.mode m.toUInt64.toNat, r)
      | _ => none
    | _ => none
  | [] => none

/-- runs the operations of a history through `SP.step`; one observation block per operation -/
partial def runOps (p : Par Float) (s : St Float) (n : Nat) (r : List Float) (acc : List Float) : Option (List Float) :=
  match n with
  | 0 => some acc
  | n + 1 => do
    let (op, r) ← readOp r
    match step p s op with
    | some (v, s', left) =>
      let vf : Float := match v with | some true => 1 | some false => 0 | none => -1
      runOps p s' n r (acc ++ obs true vf s' left)
    | none => runOps p s n r (acc ++ obs false (-1) s 0)

def exitCode : Exit → Float
  | Exit.residual => 0
  | Exit.smallStep => 1
  | Exit.budget => 2

def handle (fn : String) (a : List Float) : Option (List Float) :=
  match fn with
  | "sp.ik" => do          -- Tb16 Tt16 legs36 -> lens6 bs18 ts18
    let (Tb, r) ← t4 a
    let (Tt, r) ← t4 r
    let (ls, _) ← legs 6 r
    let res := spIK Tb Tt ls
    some (res.map (·.1) ++ res.flatMap (fun x => oV3 x.2.1) ++ res.flatMap (fun x => oV3 x.2.2))
  | "sp.invjac" => do      -- bs18 ts18 -> rows 36
    let (bs, r) ← v3s 6 a
    let (ts, _) ← v3s 6 r
    some ((invJac bs ts).flatMap oV6)
  | "sp.sumact" => do      -- bs18 ts18 f6 -> wrench6
    let (bs, r) ← v3s 6 a
    let (ts, r) ← v3s 6 r
    let (f, _) ← takeN 6 r
    some (oV6 (sumActuatorWrenches bs ts f))
  | "sp.carry" => do       -- W6 g3 top3 mTop mShaft cog bs18 ts18 -> the wrench carryMassCalc hands to the statics
    let (W, r) ← v6 a
    let (g, r) ← v3 r
    let (tp, r) ← v3 r
    match r with
    | mTop :: mShaft :: cog :: r => do
      let (bs, r) ← v3s 6 r
      let (ts, _) ← v3s 6 r
      some (oV6 (carryWrench W g tp mTop mShaft cog bs ts))
    | _ => none
  | "sp.rowsT" => do       -- rows36 f6 -> wrench6
    let rec rows : Nat → List Float → Option (List (V6 Float) × List Float)
      | 0, r => some ([], r)
      | k + 1, r => do
        let (v, r) ← v6 r
        let (vs, r) ← rows k r
        some (v :: vs, r)
    let (rs, r) ← rows 6 a
    let (f, _) ← takeN 6 r
    some (oV6 (applyRowsT rs f))
  | "sp.res" => do         -- guess6 legs36 L6 -> residuals 6, Σ|f|
    let (g, r) ← v6 a
    let (ls, r) ← legs 6 r
    let (L, _) ← takeN 6 r
    let f := residuals ls L g
    some (f ++ [sumAbs f])
  | "sp.raph" => do        -- L6 guess6 legs36 maxIter tolF tolA lmin -> guess6 iters exit
    let (L, r) ← takeN 6 a
    let (g, r) ← v6 r
    let (ls, r) ← legs 6 r
    match r with
    | [mx, tf, ta, lmin] =>
      let (g', it, e) := raphson gaussSolve ls L tf ta lmin mx.toUInt64.toNat 0 g
      some (oV6 g' ++ [it.toFloat, exitCode e])
    | _ => none
  | "sp.corrected" => do   -- lmin lmax safety lens6 -> corrected lens6
    match a with
    | lmin :: lmax :: safety :: r =>
      let (L, _) ← takeN 6 r
      some (correctedLens { lmin := lmin, lmax := lmax, safety := safety, nominalH := 0, rotLimit := 0, deflMax := 0 } L)
    | _ => none
  | "sp.angles" => do      -- Tb16 Tt16 legs36 homeB18 homeT18 -> 12 angles
    let (Tb, r) ← t4 a
    let (Tt, r) ← t4 r
    let (ls, r) ← legs 6 r
    let (hb, r) ← v3s 6 r
    let (ht, _) ← v3s 6 r
    let s0 : St Float := { legs := ls, homeB := hb, homeT := ht, Tb := Tb, Tt := Tt, bs := [], ts := [], lens := [],
                           rel := T4.one, set0 := false, set1 := false, set2 := false, set3 := false, fkMode := 1, repaired := false }
    some (jointAngles (ikP s0 Tt Tb))
  | "sp.hist" => do        -- par6 legs36 homeB18 homeT18 Tb16 Tt16 set4 fkMode nops ops... -> observation blocks
    match a with
    | lmin :: lmax :: safety :: nh :: rl :: dm :: r =>
      let p : Par Float := { lmin := lmin, lmax := lmax, safety := safety, nominalH := nh, rotLimit := rl, deflMax := dm }
      let (ls, r) ← legs 6 r
      let (hb, r) ← v3s 6 r
      let (ht, r) ← v3s 6 r
      let (Tb, r) ← t4 r
      let (Tt, r) ← t4 r
      match r with
      | a0 :: a1 :: a2 :: a3 :: m :: nops :: r =>
        let s0 : St Float := { legs := ls, homeB := hb, homeT := ht, Tb := Tb, Tt := Tt, bs := [], ts := [], lens := [],
                               rel := T4.one, set0 := a0 != 0, set1 := a1 != 0, set2 := a2 != 0, set3 := a3 != 0,
                               fkMode := m.toUInt64.toNat, repaired := false }
        runOps p (ikP s0 Tt Tb) nops.toUInt64.toNat r []
      | _ => none
    | _ => none
  | _ => none

end SPIO


namespace DispIO
open BR.Disp

/-- exact value of an IEEE-754 double -/
def numOfBits (b : Nat) : Num :=
  let neg := b / 2 ^ 63 % 2 = 1
  let e := b / 2 ^ 52 % 2048
  let m := b % 2 ^ 52
  if e = 2047 then (if m = 0 then Num.inf neg else Num.nan)
  else if e = 0 then Num.fin neg m (2 ^ 1074)
  else
    let mant := 2 ^ 52 + m
    if 1075 ≤ e then Num.fin neg (mant * 2 ^ (e - 1075)) 1 else Num.fin neg mant (2 ^ (1075 - e))

def num (s : String) : Option Num := if s.length != 16 then none else (parseHex s).map numOfBits

/-- strings travel as `x` followed by the hex of their UTF-8 bytes -/
def unhexBytes : List Char → Option (List UInt8)
  | [] => some []
  | a :: b :: r => match hexVal a, hexVal b, unhexBytes r with
    | some x, some y, some t => some ((x * 16 + y).toUInt8 :: t)
    | _, _, _ => none
  | _ => none

def str (s : String) : Option String :=
  match s.toList with
  | 'x' :: r => (unhexBytes r).bind fun bs => String.fromUTF8? (ByteArray.mk bs.toArray)
  | _ => none

def hexOfString (s : String) : String :=
  String.ofList (s.toUTF8.toList.flatMap fun b => [hexDigit (b.toNat / 16), hexDigit (b.toNat % 16)])

def nums : Nat → List String → Option (List Num × List String)
  | 0, r => some ([], r)
  | k + 1, t :: r => do
    let x ← num t
    let (xs, r) ← nums k r
    some (x :: xs, r)
  | _, [] => none

def nats : Nat → List String → Option (List Nat × List String)
  | 0, r => some ([], r)
  | k + 1, t :: r => do
    let x ← t.toNat?
    let (xs, r) ← nats k r
    some (x :: xs, r)
  | _, [] => none

mutual
partial def obj : List String → Option (Obj × List String)
  | "O" :: s :: r => (str s).map fun v => (Obj.opaque v, r)
  | "A" :: nd :: r => do
    let k ← nd.toNat?
    let (shape, r) ← nats k r
    match r with
    | c :: r => do
      let cnt ← c.toNat?
      let (xs, r) ← nums cnt r
      some (Obj.arr shape xs, r)
    | [] => none
  | "T" :: r => do
    let (xs, r) ← nums 6 r
    some (Obj.tm xs, r)
  | "W" :: r => do
    let (xs, r) ← nums 6 r
    some (Obj.wrench xs, r)
  | "L" :: n :: r => do
    let k ← n.toNat?
    let (items, r) ← objs k r
    some (Obj.list items, r)
  | _ => none
partial def objs : Nat → List String → Option (List Obj × List String)
  | 0, r => some ([], r)
  | k + 1, r => do
    let (o, r) ← obj r
    let (os, r) ← objs k r
    some (o :: os, r)
end

/-- disp <title> <nd> <pdims> <object> -> x<hex of the rendered text>; disp.cell <nd> <float> -> the cell text -/
def handle (fn : String) (args : List String) : String :=
  match fn, args with
  | "disp", t :: nd :: pd :: r =>
    match str t, nd.toNat?, obj r with
    | some title, some n, some (o, []) => "x" ++ hexOfString (disp o title n (pd != "0"))
    | _, _, _ => "bad-op"
  | "disp.cell", [nd, x] =>
    match nd.toNat?, num x with
    | some n, some v => "x" ++ hexOfString (cell n v)
    | _, _ => "bad-op"
  | _, _ => "bad-op"

end DispIO

/-- stateful requests; `none` = not a stateful request -/
def handleState (st : DState) (fn : String) (args : List String) : Option (DState × String) :=
  match fn with
  | "comms.init" => match args with
      | [n] => match n.toNat? with
        | some k => some ({ st with comms := BR.Comms.init (List.range k) }, "ok")
        | none => some (st, "bad-op")
      | _ => some (st, "bad-op")
  | "comms.op" => match CommsIO.parseOp args with
      | some op =>
        let (s', r, evs) := BR.Comms.step st.comms op
        some ({ st with comms := s' }, CommsIO.fmtRet r ++ "|" ++ ";".intercalate (evs.map CommsIO.fmtEv))
      | none => some (st, "bad-op")
  | "heap.predict" => match args with
      | [name] => match BR.HeapOps.predict name with
        | some (nm, rf) => some (st, s!"{if nm then 0 else 1} {if rf then 0 else 1}")
        | none => some (st, "unknown-op")
      | _ => some (st, "bad-op")
  | "arm.new" => match allSome (args.map parseFloat) with
      | some fl => match ArmIO.parseNew fl with
        | some a => some ({ st with arm := some a }, ArmIO.fmt a)
        | none => some (st, "bad-op")
      | none => some (st, "bad-op")
  | "arm.op" => match args, st.arm with
      | name :: rest, some a => match allSome (rest.map parseFloat) with
        | some fl => match ArmIO.parseOp name fl a.S0.length with
          | some op => let a' := BR.ArmModel.step a op; some ({ st with arm := some a' }, ArmIO.fmt a')
          | none => some (st, "bad-op")
        | none => some (st, "bad-op")
      | _, _ => some (st, "bad-op")
  | "rrt.reset" => some ({ st with rrt := [BR.RRT.root] }, "ok")
  | "rrt.iter" =>
      -- rrt.iter <nearest> <dist0> <coll0> (<cand id> <dist> <collides>)*
      match args with
      | nr :: d0 :: c0 :: rest =>
        let rec cands (l : List String) (acc : List (BR.RRT.Cand Float)) : Option (List (BR.RRT.Cand Float)) :=
          match l with
          | [] => some acc.reverse
          | i :: d :: c :: r => match i.toNat?, parseFloat d with
            | some i, some d => cands r ({ id := i, dist := d, collides := c == "1" } :: acc)
            | _, _ => none
          | _ => none
        match nr.toNat?, parseFloat d0, cands rest [] with
        | some nr, some d0, some cs =>
          let t := BR.RRT.insert st.rrt { nearest := nr, dist0 := d0, coll0 := c0 == "1", cands := cs }
          match t.getLast? with
          | some n => some ({ st with rrt := t }, s!"{n.parent.getD 0} {fmtFloat n.cost} {fmtFloat n.edge}")
          | none => some (st, "bad-op")
        | _, _, _ => some (st, "bad-op")
      | _ => some (st, "bad-op")
  | "rrt.path" => match args with
      | [i] => match i.toNat? with
        | some i => some (st, " ".intercalate ((BR.RRT.pathTo st.rrt st.rrt.length i).map toString))
        | none => some (st, "bad-op")
      | _ => some (st, "bad-op")
  | "tm.reset" => some ({ st with tms := [] }, "ok")
  | "tm.op" => match TmIO.parseOp args with
      | some op =>
        let s' := BR.TmModel.step st.tms op
        let idx := match BR.TmModel.target op with
          | some i => i
          | none => s'.length - 1
        some ({ st with tms := s' }, s!"{idx} " ++ TmIO.fmtTm (BR.TmModel.getD s' idx))
      | none => some (st, "bad-op")
  | _ => none

open BR.Gen in
def handle (fn : String) (args : List String) : String :=
  match fn with
  | "obs1q" => match allSome (args.map parseRat) with
      | some [a,b,c,d,e,f,g,h,i,j,k,l] => toString (obstruction1_gen a b c d e f g h i j k l)
      | _ => "bad-op"
  | "obs2q" => match allSome (args.map parseRat) with
      | some [a,b,c,d,e,f,g,h,i,j,k,l,m,n,o,p,q,r] =>
          toString (obstruction2_gen a b c d e f g h i j k l m n o p q r)
      | _ => "bad-op"
  | "obs1f" => match allSome (args.map parseFloat) with
      | some [a,b,c,d,e,f,g,h,i,j,k,l] => toString (obstruction1_gen a b c d e f g h i j k l)
      | _ => "bad-op"
  | "obs2f" => match allSome (args.map parseFloat) with
      | some [a,b,c,d,e,f,g,h,i,j,k,l,m,n,o,p,q,r] =>
          toString (obstruction2_gen a b c d e f g h i j k l m n o p q r)
      | _ => "bad-op"
  | "disp" => DispIO.handle fn args
  | "disp.cell" => DispIO.handle fn args
  | _ =>
    if fn.startsWith "mr." || fn.startsWith "scr." || fn.startsWith "hlp." || fn.startsWith "ik." || fn.startsWith "urdf." || fn.startsWith "dyn." || fn.startsWith "sp." then
      match allSome (args.map parseFloat) with
      | some fl => match (if fn.startsWith "mr." then MRIO.handle fn fl
                          else if fn.startsWith "scr." then ScrIO.handle fn fl
                          else if fn.startsWith "ik." then IKIO.handle fn fl
                          else if fn.startsWith "urdf." then UrdfIO.handle fn fl
                          else if fn.startsWith "dyn." then DynIO.handle fn fl
                          else if fn.startsWith "sp." then SPIO.handle fn fl else HlpIO.handle fn fl) with
        | some out => " ".intercalate (out.map fmtFloat)
        | none => "bad-op"
      | none => "bad-op"
    else "bad-op"

partial def loop (h : IO.FS.Stream) (out : IO.FS.Stream) (st : DState) : IO Unit := do
  let line ← h.getLine
  if line.isEmpty then return ()
  let toks := (line.trimAscii.toString.splitOn " ").filter (· ≠ "")
  match toks with
  | [] => out.putStrLn "bad-op"; loop h out st
  | fn :: args =>
    match handleState st fn args with
    | some (st', reply) => out.putStrLn reply; loop h out st'
    | none => out.putStrLn (handle fn args); loop h out st

end BR.Driver

def main : IO Unit := do
  let stdin ← IO.getStdin
  let stdout ← IO.getStdout
  BR.Driver.loop stdin stdout {}
