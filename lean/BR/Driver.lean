/-
  Line-protocol driver over the executable instances of the models (import-free, so it is
  also compiled as the `brdriver` executable).  One request per line:
      <function> <arg> <arg> ...
  Floats cross the boundary as 16 hex digits (IEEE-754 bits); rationals as `p/q` or `p`.
  One reply line per request; `bad-op` for anything the driver does not understand.
-/
import BR.Scalar
import BR.Gen.C15
import BR.Model.Comms

namespace BR.Driver

def hexVal (c : Char) : Option Nat :=
  if '0' ≤ c ∧ c ≤ '9' then some (c.toNat - '0'.toNat)
  else if 'a' ≤ c ∧ c ≤ 'f' then some (c.toNat - 'a'.toNat + 10)
  else if 'A' ≤ c ∧ c ≤ 'F' then some (c.toNat - 'A'.toNat + 10)
  else none

def parseHex (s : String) : Option Nat :=
  if s.isEmpty then none else
  s.foldl (fun acc c => match acc, hexVal c with
    | some a, some v => some (a * 16 + v)
    | _, _ => none) (some 0)

def parseFloat (s : String) : Option Float :=
  if s.length != 16 then none else (parseHex s).map fun n => Float.ofBits n.toUInt64

def hexDigit (n : Nat) : Char := if n < 10 then Char.ofNat (48 + n) else Char.ofNat (87 + n)

def fmtFloat (x : Float) : String :=
  let n := x.toBits.toNat
  String.ofList ((List.range 16).map fun i => hexDigit ((n >>> (4 * (15 - i))) % 16))

def parseInt (s : String) : Option Int := s.toInt?

def parseRat (s : String) : Option Rat :=
  match s.splitOn "/" with
  | [p] => (parseInt p).map fun n => (n : Rat)
  | [p, q] => match parseInt p, q.toNat? with
      | some n, some d => if d = 0 then none else some (mkRat n d)
      | _, _ => none
  | _ => none

def fmtRat (r : Rat) : String := if r.den = 1 then toString r.num else s!"{r.num}/{r.den}"

def allSome {α} (l : List (Option α)) : Option (List α) :=
  l.foldr (fun x acc => match x, acc with | some a, some as => some (a :: as) | _, _ => none) (some [])

/-- session state of the stateful models -/
structure DState where
  comms : BR.Comms.St := BR.Comms.init []

namespace CommsIO
open BR.Comms

def optNat (s : String) : Option (Option Nat) :=
  if s = "N" then some none else s.toNat?.map some

def fmtOpt : Option Nat → String
  | none => "N"
  | some m => toString m

def fmtEv : Ev → String
  | .send n d ok => s!"S{n}:{fmtOpt d}:{if ok then 1 else 0}"
  | .sink h d => s!"K{h}:{fmtOpt d}"
  | .src h => s!"R{h}"

def fmtRet : Ret → String
  | .bool true => "T"
  | .bool false => "F"
  | .data d => "D" ++ fmtOpt d
  | .none => "N"

def parseOp : List String → Option Op
  | ["fwd", i, o] => do some (.fwd (← i.toNat?) (← o.toNat?))
  | ["del", i, o] => do some (.del (← i.toNat?) (← o.toNat?))
  | ["sink", i, h] => do some (.sink (← i.toNat?) (← optNat h))
  | ["source", o, h] => do some (.source (← o.toNat?) (← optNat h))
  | ["get", i] => do some (.get (← i.toNat?))
  | ["send", n, d] => do some (.send (← n.toNat?) (← optNat d))
  | ["spin", k] => do some (.spin (← k.toNat?))
  | ["open", n] => do some (.opn (← n.toNat?))
  | ["close", n] => do some (.cls (← n.toNat?))
  | ["inject", n, d] => do some (.inject (← n.toNat?) (← optNat d))
  | _ => none

end CommsIO

/-- stateful requests; `none` = not a stateful request -/
def handleState (st : DState) (fn : String) (args : List String) : Option (DState × String) :=
  match fn with
  | "comms.init" => match args with
      | [n] => match n.toNat? with
        | some k => some ({ st with comms := BR.Comms.init (List.range k) }, "ok")
        | none => some (st, "bad-op")
      | _ => some (st, "bad-op")
  | "comms.op" => match CommsIO.parseOp args with
      | some op =>
        let (s', r, evs) := BR.Comms.step st.comms op
        some ({ st with comms := s' }, CommsIO.fmtRet r ++ "|" ++ ";".intercalate (evs.map CommsIO.fmtEv))
      | none => some (st, "bad-op")
  | _ => none

open BR.Gen in
def handle (fn : String) (args : List String) : String :=
  match fn with
  | "obs1q" => match allSome (args.map parseRat) with
      | some [a,b,c,d,e,f,g,h,i,j,k,l] => toString (obstruction1_gen a b c d e f g h i j k l)
      | _ => "bad-op"
  | "obs2q" => match allSome (args.map parseRat) with
      | some [a,b,c,d,e,f,g,h,i,j,k,l,m,n,o,p,q,r] =>
          toString (obstruction2_gen a b c d e f g h i j k l m n o p q r)
      | _ => "bad-op"
  | "obs1f" => match allSome (args.map parseFloat) with
      | some [a,b,c,d,e,f,g,h,i,j,k,l] => toString (obstruction1_gen a b c d e f g h i j k l)
      | _ => "bad-op"
  | "obs2f" => match allSome (args.map parseFloat) with
      | some [a,b,c,d,e,f,g,h,i,j,k,l,m,n,o,p,q,r] =>
          toString (obstruction2_gen a b c d e f g h i j k l m n o p q r)
      | _ => "bad-op"
  | _ => "bad-op"

partial def loop (h : IO.FS.Stream) (out : IO.FS.Stream) (st : DState) : IO Unit := do
  let line ← h.getLine
  if line.isEmpty then return ()
  let toks := (line.trimAscii.toString.splitOn " ").filter (· ≠ "")
  match toks with
  | [] => out.putStrLn "bad-op"; loop h out st
  | fn :: args =>
    match handleState st fn args with
    | some (st', reply) => out.putStrLn reply; loop h out st'
    | none => out.putStrLn (handle fn args); loop h out st

end BR.Driver

def main : IO Unit := do
  let stdin ← IO.getStdin
  let stdout ← IO.getStdout
  BR.Driver.loop stdin stdout {}
