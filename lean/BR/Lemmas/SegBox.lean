/-
  Helper lemmas for C15: the separating-axis conditions for a centred segment
  {m + s L | s ∈ [-1,1]} against a centred box {|x_k| ≤ e_k} are equivalent to intersection.
-/
import Mathlib.Tactic.Ring
import Mathlib.Tactic.Linarith
import Mathlib.Tactic.FieldSimp
import Mathlib.Algebra.Order.AbsoluteValue.Basic
import Mathlib.Algebra.Order.Field.Basic

namespace BR.SegBox

variable {K : Type*} [Field K] [LinearOrder K] [IsStrictOrderedRing K]
set_option linter.unusedSectionVars false

/-- one-dimensional Helly for four closed intervals -/
theorem helly4 {l0 l1 l2 l3 h0 h1 h2 h3 : K}
    (H : ∀ l ∈ [l0, l1, l2, l3], ∀ h ∈ [h0, h1, h2, h3], l ≤ h) :
    ∃ s, (l0 ≤ s ∧ s ≤ h0) ∧ (l1 ≤ s ∧ s ≤ h1) ∧ (l2 ≤ s ∧ s ≤ h2) ∧ (l3 ≤ s ∧ s ≤ h3) := by
  refine ⟨max (max l0 l1) (max l2 l3), ?_⟩
  have hh : ∀ h ∈ [h0, h1, h2, h3], max (max l0 l1) (max l2 l3) ≤ h := by
    intro h hh
    refine max_le (max_le ?_ ?_) (max_le ?_ ?_) <;> exact H _ (by simp) _ hh
  refine ⟨⟨?_, hh _ (by simp)⟩, ⟨?_, hh _ (by simp)⟩, ⟨?_, hh _ (by simp)⟩, ⟨?_, hh _ (by simp)⟩⟩
  · exact le_trans (le_max_left _ _) (le_max_left _ _)
  · exact le_trans (le_max_right _ _) (le_max_left _ _)
  · exact le_trans (le_max_left _ _) (le_max_right _ _)
  · exact le_trans (le_max_right _ _) (le_max_right _ _)

/-- lower end of the parameter interval on which coordinate `k` is inside the slab -/
def lo (m L e : K) : K := if L = 0 then -1 else -m / L - e / |L|
/-- upper end -/
def hi (m L e : K) : K := if L = 0 then 1 else -m / L + e / |L|

theorem inside_of_mem {m L e s : K} (h0 : |m| ≤ e + |L|) (hl : lo m L e ≤ s) (hh : s ≤ hi m L e) :
    |m + s * L| ≤ e := by
  unfold lo at hl; unfold hi at hh
  by_cases hL : L = 0
  · subst hL; simpa using h0
  · rw [if_neg hL] at hl hh
    have hLp : 0 < |L| := abs_pos.mpr hL
    have h1 : m + s * L = L * (s + m / L) := by field_simp; ring
    rw [h1, abs_mul]
    have h2 : |s + m / L| ≤ e / |L| := by
      rw [abs_le]; constructor
      · have : -m / L = -(m / L) := by ring
        linarith
      · have : -m / L = -(m / L) := by ring
        linarith
    calc |L| * |s + m / L| ≤ |L| * (e / |L|) := mul_le_mul_of_nonneg_left h2 hLp.le
      _ = e := by field_simp

theorem lo_le_hi_self {m L e : K} (he : 0 ≤ e) : lo m L e ≤ hi m L e := by
  unfold lo hi
  split_ifs with h
  · norm_num
  · have : 0 ≤ e / |L| := div_nonneg he (abs_nonneg _)
    linarith

theorem lo_le_one {m L e : K} (h0 : |m| ≤ e + |L|) : lo m L e ≤ 1 := by
  unfold lo
  split_ifs with h
  · norm_num
  · have hLp : 0 < |L| := abs_pos.mpr h
    have h1 : -m / L ≤ |m| / |L| := by
      rw [← abs_div]; have : -m / L = -(m / L) := by ring
      rw [this]; exact neg_le_abs _
    have h2 : |m| / |L| ≤ (e + |L|) / |L| := div_le_div_of_nonneg_right h0 hLp.le
    have h3 : (e + |L|) / |L| = e / |L| + 1 := by field_simp
    linarith

theorem neg_one_le_hi {m L e : K} (h0 : |m| ≤ e + |L|) : -1 ≤ hi m L e := by
  unfold hi
  split_ifs with h
  · norm_num
  · have hLp : 0 < |L| := abs_pos.mpr h
    have h1 : -(|m| / |L|) ≤ -m / L := by
      rw [← abs_div]; have : -m / L = -(m / L) := by ring
      rw [this]; exact neg_le_neg (le_abs_self _)
    have h2 : |m| / |L| ≤ (e + |L|) / |L| := div_le_div_of_nonneg_right h0 hLp.le
    have h3 : (e + |L|) / |L| = e / |L| + 1 := by field_simp
    linarith

theorem lo_le_hi_pair {m1 L1 e1 m2 L2 e2 : K} (a1 : |m1| ≤ e1 + |L1|) (a2 : |m2| ≤ e2 + |L2|)
    (h : |m1 * L2 - m2 * L1| ≤ e1 * |L2| + e2 * |L1|) : lo m1 L1 e1 ≤ hi m2 L2 e2 := by
  by_cases hL1 : L1 = 0
  · have : lo m1 L1 e1 = -1 := by unfold lo; rw [if_pos hL1]
    rw [this]; exact neg_one_le_hi a2
  by_cases hL2 : L2 = 0
  · have : hi m2 L2 e2 = 1 := by unfold hi; rw [if_pos hL2]
    rw [this]; exact lo_le_one a1
  unfold lo hi
  rw [if_neg hL1, if_neg hL2]
  have p1 : 0 < |L1| := abs_pos.mpr hL1
  have p2 : 0 < |L2| := abs_pos.mpr hL2
  have key : -m1 / L1 - -m2 / L2 = -(m1 * L2 - m2 * L1) / (L1 * L2) := by field_simp; ring
  have k2 : |-(m1 * L2 - m2 * L1) / (L1 * L2)| ≤ (e1 * |L2| + e2 * |L1|) / (|L1| * |L2|) := by
    rw [abs_div, abs_neg, abs_mul]
    exact div_le_div_of_nonneg_right h (mul_pos p1 p2).le
  have k3 : (e1 * |L2| + e2 * |L1|) / (|L1| * |L2|) = e1 / |L1| + e2 / |L2| := by field_simp
  have k4 := le_trans (le_abs_self _) k2
  rw [← key, k3] at k4
  linarith

/-- **Separating-axis theorem** for a segment against an axis-aligned box, centred form. -/
theorem sat_iff {m1 m2 m3 L1 L2 L3 e1 e2 e3 : K} (he1 : 0 ≤ e1) (he2 : 0 ≤ e2) (he3 : 0 ≤ e3) :
    (|m1| ≤ e1 + |L1| ∧ |m2| ≤ e2 + |L2| ∧ |m3| ≤ e3 + |L3| ∧
      |m2 * L3 - m3 * L2| ≤ e2 * |L3| + e3 * |L2| ∧
      |m1 * L3 - m3 * L1| ≤ e1 * |L3| + e3 * |L1| ∧
      |m1 * L2 - m2 * L1| ≤ e1 * |L2| + e2 * |L1|) ↔
    ∃ s : K, (-1 ≤ s ∧ s ≤ 1) ∧ |m1 + s * L1| ≤ e1 ∧ |m2 + s * L2| ≤ e2 ∧ |m3 + s * L3| ≤ e3 := by
  constructor
  · rintro ⟨a1, a2, a3, c23, c13, c12⟩
    have c32 : |m3 * L2 - m2 * L3| ≤ e3 * |L2| + e2 * |L3| := by
      rw [abs_sub_comm]; linarith
    have c31 : |m3 * L1 - m1 * L3| ≤ e3 * |L1| + e1 * |L3| := by
      rw [abs_sub_comm]; linarith
    have c21 : |m2 * L1 - m1 * L2| ≤ e2 * |L1| + e1 * |L2| := by
      rw [abs_sub_comm]; linarith
    obtain ⟨s, hs0, hs1, hs2, hs3⟩ := helly4
      (l0 := -1) (h0 := 1) (l1 := lo m1 L1 e1) (h1 := hi m1 L1 e1)
      (l2 := lo m2 L2 e2) (h2 := hi m2 L2 e2) (l3 := lo m3 L3 e3) (h3 := hi m3 L3 e3)
      (by
        intro l hl h hh
        simp only [List.mem_cons, List.not_mem_nil, or_false] at hl hh
        rcases hl with rfl | rfl | rfl | rfl <;> rcases hh with rfl | rfl | rfl | rfl
        · norm_num
        · exact neg_one_le_hi a1
        · exact neg_one_le_hi a2
        · exact neg_one_le_hi a3
        · exact lo_le_one a1
        · exact lo_le_hi_self he1
        · exact lo_le_hi_pair a1 a2 c12
        · exact lo_le_hi_pair a1 a3 c13
        · exact lo_le_one a2
        · exact lo_le_hi_pair a2 a1 c21
        · exact lo_le_hi_self he2
        · exact lo_le_hi_pair a2 a3 c23
        · exact lo_le_one a3
        · exact lo_le_hi_pair a3 a1 c31
        · exact lo_le_hi_pair a3 a2 c32
        · exact lo_le_hi_self he3)
    exact ⟨s, hs0, inside_of_mem a1 hs1.1 hs1.2, inside_of_mem a2 hs2.1 hs2.2,
      inside_of_mem a3 hs3.1 hs3.2⟩
  · rintro ⟨s, ⟨hs0, hs1⟩, i1, i2, i3⟩
    have hs : |s| ≤ 1 := abs_le.mpr ⟨hs0, hs1⟩
    have ax : ∀ m L e : K, |m + s * L| ≤ e → |m| ≤ e + |L| := by
      intro m L e h
      have : m = (m + s * L) - s * L := by ring
      calc |m| = |(m + s * L) - s * L| := by rw [← this]
        _ ≤ |m + s * L| + |s * L| := abs_sub _ _
        _ ≤ e + |L| := by
            rw [abs_mul]
            have : |s| * |L| ≤ 1 * |L| := mul_le_mul_of_nonneg_right hs (abs_nonneg _)
            linarith
    have cr : ∀ ma La ea mb Lb eb : K, |ma + s * La| ≤ ea → |mb + s * Lb| ≤ eb →
        |ma * Lb - mb * La| ≤ ea * |Lb| + eb * |La| := by
      intro ma La ea mb Lb eb ha hb
      have : ma * Lb - mb * La = (ma + s * La) * Lb - (mb + s * Lb) * La := by ring
      rw [this]
      calc |(ma + s * La) * Lb - (mb + s * Lb) * La|
          ≤ |(ma + s * La) * Lb| + |(mb + s * Lb) * La| := abs_sub _ _
        _ ≤ ea * |Lb| + eb * |La| := by
            rw [abs_mul, abs_mul]
            have := mul_le_mul_of_nonneg_right ha (abs_nonneg Lb)
            have := mul_le_mul_of_nonneg_right hb (abs_nonneg La)
            linarith
    exact ⟨ax _ _ _ i1, ax _ _ _ i2, ax _ _ _ i3, cr _ _ _ _ _ _ i2 i3, cr _ _ _ _ _ _ i1 i3,
      cr _ _ _ _ _ _ i1 i2⟩

/-- a coordinate is between the two corners iff it is within the half-extent of the centre -/
theorem slab_iff (a b x : K) :
    (min a b ≤ x ∧ x ≤ max a b) ↔ |x - (b + a) / 2| ≤ |b - (b + a) / 2| := by
  rcases le_total a b with h | h
  · rw [min_eq_left h, max_eq_right h, abs_of_nonneg (by linarith : 0 ≤ b - (b + a) / 2), abs_le]
    constructor <;> rintro ⟨h1, h2⟩ <;> constructor <;> linarith
  · rw [min_eq_right h, max_eq_left h, abs_of_nonpos (by linarith : b - (b + a) / 2 ≤ 0), abs_le]
    constructor <;> rintro ⟨h1, h2⟩ <;> constructor <;> linarith

end BR.SegBox
