/-
  Chains of joints: FKinSpace with base-transformed screws and home = base · (FKinSpace with local screws and home).
-/
import BR.Lemmas.SE3

namespace BR.Rot
open BR.MR OrdField Scalar

theorem T4_mul_assoc (A B C : T4 ℝ) : A * B * C = A * (B * C) := by m3ring
theorem T4_one_mul (A : T4 ℝ) : T4.one * A = A := by
  obtain ⟨⟨a, b, c, d, e, f, g, h, i⟩, ⟨x, y, z⟩⟩ := A; m3ring
theorem T4_mul_one (A : T4 ℝ) : A * T4.one = A := by
  obtain ⟨⟨a, b, c, d, e, f, g, h, i⟩, ⟨x, y, z⟩⟩ := A; m3ring

theorem T4_transInv_mul (T : T4 ℝ) (h : IsRot T.R) : transInv T * T = T4.one := by
  obtain ⟨R, p⟩ := T
  obtain ⟨a, b, c, d, e, f, g, h', i⟩ := R
  obtain ⟨x, y, z⟩ := p
  have := h.1
  revert this
  m3simp
  rintro ⟨h1, h2, h3, h4, h5, h6, h7, h8, h9⟩
  refine ⟨⟨h1, h2, h3, h4, h5, h6, h7, h8, h9⟩, ?_, ?_, ?_⟩ <;> ring

theorem adjoint_smul (T : T4 ℝ) (k : ℝ) (S : V6 ℝ) :
    (adjoint T).mulVec (V6.smul k S) = V6.smul k ((adjoint T).mulVec S) := by
  obtain ⟨R, p⟩ := T
  obtain ⟨⟨a, b, c⟩, ⟨d, e, f⟩⟩ := S
  m3ring

/-- a joint whose scaled screw has angular part zero (prismatic, or θ = 0) or of norm at least the 1e-6 cut-off -/
def JointOK (j : V6 ℝ × ℝ) : Prop := (V6.smul j.2 j.1).a = 0 ∨ (1e-6 : ℝ) ≤ norm3 (V6.smul j.2 j.1).a

/-- **base change of a chain**: transforming every screw by Ad(B) and the home by B transforms the whole
    forward-kinematics map by B (induction over the joints) -/
theorem fkinSpace_conj (B M : T4 ℝ) (hB : IsRot B.R) (joints : List (V6 ℝ × ℝ)) (hj : ∀ j ∈ joints, JointOK j) :
    fkinSpace (B * M) (joints.map fun j => ((adjoint B).mulVec j.1, j.2)) = B * fkinSpace M joints := by
  induction joints with
  | nil => rfl
  | cons j js ih =>
    obtain ⟨S, θ⟩ := j
    simp only [List.map_cons, fkinSpace]
    rw [ih (fun j hj' => hj j (List.mem_cons_of_mem _ hj')), ← adjoint_smul,
      exp6_conj B hB (V6.smul θ S) (hj (S, θ) (by simp))]
    rw [T4_mul_assoc, T4_mul_assoc, ← T4_mul_assoc (transInv B), T4_transInv_mul B hB, T4_one_mul]

theorem zip_map_left {α β γ} (f : α → γ) (l : List α) (m : List β) :
    (l.map f).zip m = (l.zip m).map fun p => (f p.1, p.2) := by
  induction l generalizing m with
  | nil => simp
  | cons a l ih => cases m with
    | nil => simp
    | cons b m => simp [ih]

end BR.Rot
