/-
  Helper lemmas over ℝ for the rigid-motion models: unfolding lemmas for the structure
  operations, Rodrigues' formula, the hat/cofactor identity.
-/
import BR.Real
import BR.Model.MR
import Mathlib.Tactic.LinearCombination

namespace BR
open OrdField Scalar

section field
variable {K : Type} [Field K] [LinearOrder K] [IsStrictOrderedRing K]
@[simp] theorem sci_field (m : Nat) (s : Bool) (e : Nat) :
    (@OfScientific.ofScientific K (@OrdField.instOfScientific K (OrdField.ofField K)) m s e)
      = (OfScientific.ofScientific m s e : K) := rfl
end field

/-! unfolding lemmas (`simp only [m3]`-style list is `BR.m3simp`) -/
theorem M3.add_def {α} [OrdField α] (A B : M3 α) : A + B = M3.add A B := rfl
theorem M3.sub_def {α} [OrdField α] (A B : M3 α) : A - B = M3.sub A B := rfl
theorem M3.mul_def {α} [OrdField α] (A B : M3 α) : A * B = M3.mul A B := rfl
theorem M3.neg_def {α} [OrdField α] (A : M3 α) : -A = M3.neg A := rfl
theorem V3.add_def {α} [OrdField α] (A B : V3 α) : A + B = V3.add A B := rfl
theorem V3.sub_def {α} [OrdField α] (A B : V3 α) : A - B = V3.sub A B := rfl
theorem V3.neg_def {α} [OrdField α] (A : V3 α) : -A = V3.neg A := rfl
theorem V6.add_def {α} [OrdField α] (A B : V6 α) : A + B = V6.add A B := rfl
theorem V6.sub_def {α} [OrdField α] (A B : V6 α) : A - B = V6.sub A B := rfl
theorem M6.mul_def {α} [OrdField α] (A B : M6 α) : A * B = M6.mul A B := rfl
theorem T4.mul_def {α} [OrdField α] (A B : T4 α) : A * B = T4.mul A B := rfl

/-- simp set that turns every structure-level operation into coordinates -/
macro "m3simp" : tactic => `(tactic|
  simp only [M3.add_def, M3.sub_def, M3.mul_def, M3.neg_def, V3.add_def, V3.sub_def, V3.neg_def,
    V6.add_def, V6.sub_def, M6.mul_def, T4.mul_def,
    M3.add, M3.sub, M3.mul, M3.neg, M3.smul, M3.sdiv, M3.T, M3.one, M3.zero, M3.mulVec, M3.trace, M3.det,
    V3.add, V3.sub, V3.neg, V3.smul, V3.sdiv, V3.dot, V3.cross, V3.zero,
    V6.add, V6.sub, V6.smul, V6.sdiv, V6.dot, M6.mul, M6.mulVec, M6.T, M6.one, T4.mul, T4.one, T4.act,
    MR.hat, MR.vee, MR.hat6, MR.vee6, MR.adjoint, MR.ad, MR.transInv,
    ofNat_real, ofNat_real_zero, ofNat_real_one, sci_real, sin_real, cos_real, tan_real, sqrt_real, acos_real, pi_real, M3.mk.injEq, V3.mk.injEq, V6.mk.injEq, M6.mk.injEq, T4.mk.injEq])

/-- coordinates, split conjunctions, close by `ring` -/
macro "m3ring" : tactic => `(tactic| (m3simp <;> (try constructorm* _ ∧ _) <;> (first | exact True.intro | ring | skip)))

namespace Rot

/-- Rodrigues' formula in coordinates: I + s·[u] + (1-c)·[u]² -/
noncomputable def rod (u : V3 ℝ) (s c : ℝ) : M3 ℝ :=
  M3.one + M3.smul s (MR.hat u) + M3.smul (1 - c) (MR.hat u * MR.hat u)

theorem rod_orth (u : V3 ℝ) (s c : ℝ) (hu : u.x ^ 2 + u.y ^ 2 + u.z ^ 2 - 1 = 0)
    (hsc : s ^ 2 + c ^ 2 - 1 = 0) : (rod u s c).T * rod u s c = M3.one := by
  obtain ⟨x, y, z⟩ := u
  unfold rod
  m3simp
  simp only at hu
  refine ⟨?_, ?_, ?_, ?_, ?_, ?_, ?_, ?_, ?_⟩
  · linear_combination (c^2*y^2 + c^2*z^2 - 2*c*y^2 - 2*c*z^2 + y^2 + z^2) * hu + (y^2 + z^2) * hsc
  · linear_combination (-c^2*x*y + 2*c*x*y - x*y) * hu + (-x*y) * hsc
  · linear_combination (-c^2*x*z + 2*c*x*z - x*z) * hu + (-x*z) * hsc
  · linear_combination (-c^2*x*y + 2*c*x*y - x*y) * hu + (-x*y) * hsc
  · linear_combination (c^2*x^2 + c^2*z^2 + c^2 - 2*c*x^2 - 2*c*z^2 + s^2 + x^2 + z^2 - 1) * hu + (1 - y^2) * hsc
  · linear_combination (-c^2*y*z + 2*c*y*z - y*z) * hu + (-y*z) * hsc
  · linear_combination (-c^2*x*z + 2*c*x*z - x*z) * hu + (-x*z) * hsc
  · linear_combination (-c^2*y*z + 2*c*y*z - y*z) * hu + (-y*z) * hsc
  · linear_combination (c^2*x^2 + c^2*y^2 + c^2 - 2*c*x^2 - 2*c*y^2 + s^2 + x^2 + y^2 - 1) * hu + (1 - z^2) * hsc

theorem rod_det (u : V3 ℝ) (s c : ℝ) (hu : u.x ^ 2 + u.y ^ 2 + u.z ^ 2 - 1 = 0)
    (hsc : s ^ 2 + c ^ 2 - 1 = 0) : (rod u s c).det = 1 := by
  obtain ⟨x, y, z⟩ := u
  unfold rod
  m3simp
  simp only at hu
  linear_combination (c^2*x^2 + c^2*y^2 + c^2*z^2 + c^2 - 2*c*x^2 - 2*c*y^2 - 2*c*z^2 + s^2 + x^2 + y^2 + z^2 - 1) * hu + (1) * hsc

theorem rod_trace (u : V3 ℝ) (s c : ℝ) (hu : u.x ^ 2 + u.y ^ 2 + u.z ^ 2 - 1 = 0) :
    (rod u s c).trace = 1 + 2 * c := by
  obtain ⟨x, y, z⟩ := u
  unfold rod
  m3simp
  simp only at hu
  linear_combination (2 * c - 2) * hu

theorem rod_skew_part (u : V3 ℝ) (s c : ℝ) :
    rod u s c - (rod u s c).T = M3.smul (2 * s) (MR.hat u) := by
  obtain ⟨x, y, z⟩ := u
  unfold rod
  m3simp
  refine ⟨?_, ?_, ?_, ?_, ?_, ?_, ?_, ?_, ?_⟩ <;> ring

/-- Mᵀ·[Mv]·M = det(M)·[v] for every 3×3 matrix (pure ring identity) -/
theorem hat_cofactor (M : M3 ℝ) (v : V3 ℝ) :
    M.T * MR.hat (M.mulVec v) * M = M3.smul M.det (MR.hat v) := by
  obtain ⟨a, b, c, d, e, f, g, h, i⟩ := M
  obtain ⟨x, y, z⟩ := v
  m3simp
  refine ⟨?_, ?_, ?_, ?_, ?_, ?_, ?_, ?_, ?_⟩ <;> ring

theorem M3.mul_assoc' (A B C : M3 ℝ) : A * B * C = A * (B * C) := by
  m3simp
  refine ⟨?_, ?_, ?_, ?_, ?_, ?_, ?_, ?_, ?_⟩ <;> ring

theorem M3.one_mul' (A : M3 ℝ) : M3.one * A = A := by
  cases A; m3simp; refine ⟨?_, ?_, ?_, ?_, ?_, ?_, ?_, ?_, ?_⟩ <;> ring

theorem M3.mul_one' (A : M3 ℝ) : A * M3.one = A := by
  cases A; m3simp; refine ⟨?_, ?_, ?_, ?_, ?_, ?_, ?_, ?_, ?_⟩ <;> ring

/-- a left inverse of a square matrix is a right inverse (3×3, via the adjugate) -/
theorem M3.mul_T_of_T_mul {R : M3 ℝ} (h : R.T * R = M3.one) (hd : R.det = 1) : R * R.T = M3.one := by
  obtain ⟨a, b, c, d, e, f, g, h', i⟩ := R
  revert h hd
  m3simp
  rintro ⟨h1, h2, h3, h4, h5, h6, h7, h8, h9⟩ hd
  -- Rᵀ = adj(R) because det = 1 and RᵀR = 1; we use the identity R·adj(R) = det·1 entrywise
  have ha : a = e * i - f * h' := by
    linear_combination (e * i - f * h') * h1 + (-(d * i - f * g)) * h2 + (d * h' - e * g) * h3 - a * hd
  have hb : b = -(d * i - f * g) := by
    linear_combination (e * i - f * h') * h4 + (-(d * i - f * g)) * h5 + (d * h' - e * g) * h6 - b * hd
  have hc : c = d * h' - e * g := by
    linear_combination (e * i - f * h') * h7 + (-(d * i - f * g)) * h8 + (d * h' - e * g) * h9 - c * hd
  have hd' : d = -(b * i - c * h') := by
    linear_combination (-(b * i - c * h')) * h1 + (a * i - c * g) * h2 + (-(a * h' - b * g)) * h3 - d * hd
  have he : e = a * i - c * g := by
    linear_combination (-(b * i - c * h')) * h4 + (a * i - c * g) * h5 + (-(a * h' - b * g)) * h6 - e * hd
  have hf : f = -(a * h' - b * g) := by
    linear_combination (-(b * i - c * h')) * h7 + (a * i - c * g) * h8 + (-(a * h' - b * g)) * h9 - f * hd
  have hg : g = b * f - c * e := by
    linear_combination (b * f - c * e) * h1 + (-(a * f - c * d)) * h2 + (a * e - b * d) * h3 - g * hd
  have hh : h' = -(a * f - c * d) := by
    linear_combination (b * f - c * e) * h4 + (-(a * f - c * d)) * h5 + (a * e - b * d) * h6 - h' * hd
  have hi : i = a * e - b * d := by
    linear_combination (b * f - c * e) * h7 + (-(a * f - c * d)) * h8 + (a * e - b * d) * h9 - i * hd
  refine ⟨?_, ?_, ?_, ?_, ?_, ?_, ?_, ?_, ?_⟩
  · linear_combination a * ha + b * hb + c * hc + hd
  · linear_combination d * ha + e * hb + f * hc
  · linear_combination g * ha + h' * hb + i * hc
  · linear_combination a * hd' + b * he + c * hf
  · linear_combination d * hd' + e * he + f * hf + hd
  · linear_combination g * hd' + h' * he + i * hf
  · linear_combination a * hg + b * hh + c * hi
  · linear_combination d * hg + e * hh + f * hi
  · linear_combination g * hg + h' * hh + i * hi + hd

end Rot
end BR
