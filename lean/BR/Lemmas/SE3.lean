/-
  Conjugation of the exponentials by a rigid transform:
     exp3 [R w] = R · exp3 [w] · Rᵀ        exp6 [Ad_T V] = T · exp6 [V] · T⁻¹
  (the second outside the near-zero band of the angular part), and the chain consequences.
-/
import BR.Lemmas.M3Ring

namespace BR.Rot
open BR.MR OrdField Scalar

theorem rod_eq (u : V3 ℝ) (s c : ℝ) : rod u s c = 1 + s • hat u + (1 - c) • (hat u * hat u) := rfl

theorem conj_quad (R Rt K : M3 ℝ) (h1 : R * Rt = 1) (h2 : Rt * R = 1) (a b c : ℝ) :
    a • (1 : M3 ℝ) + b • (R * K * Rt) + c • ((R * K * Rt) * (R * K * Rt)) =
      R * (a • (1 : M3 ℝ) + b • K + c • (K * K)) * Rt := by
  have e : (R * K * Rt) * (R * K * Rt) = R * (K * K) * Rt := by
    calc (R * K * Rt) * (R * K * Rt) = R * K * (Rt * R) * K * Rt := by noncomm_ring
      _ = R * (K * K) * Rt := by rw [h2]; noncomm_ring
  rw [e]
  simp only [mul_add, add_mul, mul_smul_comm, smul_mul_assoc, mul_one, h1]

theorem mulVec_sdiv (R : M3 ℝ) (w : V3 ℝ) (k : ℝ) : R.mulVec (V3.sdiv w k) = V3.sdiv (R.mulVec w) k := by
  cases R; cases w; m3ring

theorem isRot_inv {R : M3 ℝ} (hR : IsRot R) : R * R.T = 1 ∧ R.T * R = 1 :=
  ⟨M3.mul_T_of_T_mul hR.1 hR.2, hR.1⟩

/-- **exp3 [R w] = R · exp3 [w] · Rᵀ** for every rotation vector (both sides of the cut-off) -/
theorem exp3_conj (R : M3 ℝ) (hR : IsRot R) (w : V3 ℝ) :
    matrixExp3 (hat (R.mulVec w)) = R * matrixExp3 (hat w) * R.T := by
  obtain ⟨h1, h2⟩ := isRot_inv hR
  by_cases hz : nearZero (norm3 w)
  · rw [exp3_small w hz, exp3_small _ (by rw [norm3_rot R hR]; exact hz), M3.one_eq, mul_one, h1]
  · rw [exp3_eq_rod w hz, exp3_eq_rod _ (by rw [norm3_rot R hR]; exact hz), norm3_rot R hR, rod_eq, rod_eq,
      ← mulVec_sdiv, hat_conj R hR]
    have := conj_quad R R.T (hat (V3.sdiv w (norm3 w))) h1 h2 1 (Real.sin (norm3 w)) (1 - Real.cos (norm3 w))
    simpa only [one_smul] using this

/-- the "G" matrix of `MatrixExp6` -/
noncomputable def Gmat (K : M3 ℝ) (θ : ℝ) : M3 ℝ :=
  θ • (1 : M3 ℝ) + (1 - Real.cos θ) • K + (θ - Real.sin θ) • (K * K)

theorem exp6_rotating (V : V6 ℝ) (h : ¬ nearZero (norm3 V.a)) :
    matrixExp6 (hat6 V) =
      ⟨matrixExp3 (hat V.a), V3.sdiv ((Gmat (M3.sdiv (hat V.a) (norm3 V.a)) (norm3 V.a)).mulVec V.b) (norm3 V.a)⟩ := by
  unfold matrixExp6
  simp only [hat6, vee_hat, if_neg h, ofNat_real_one, cos_real, sin_real, Gmat]
  rfl

theorem exp6_translating (V : V6 ℝ) (h : nearZero (norm3 V.a)) : matrixExp6 (hat6 V) = ⟨M3.one, V.b⟩ := by
  unfold matrixExp6
  simp only [hat6, vee_hat, if_pos h]

/-- K³ = −K for the hat of a unit vector -/
theorem hat_cube (u : V3 ℝ) (hu : u.x ^ 2 + u.y ^ 2 + u.z ^ 2 - 1 = 0) : hat u * hat u * hat u = -hat u := by
  obtain ⟨x, y, z⟩ := u
  simp only at hu
  show M3.mul (M3.mul _ _) _ = M3.neg _
  simp only [hat, M3.mul, M3.neg, ofNat_real_zero, M3.mk.injEq]
  refine ⟨?_, ?_, ?_, ?_, ?_, ?_, ?_, ?_, ?_⟩
  · ring
  · linear_combination z * hu
  · linear_combination (-y) * hu
  · linear_combination (-z) * hu
  · ring
  · linear_combination x * hu
  · linear_combination y * hu
  · linear_combination (-x) * hu
  · ring

/-- G·K = exp − 1 (with K the hat of the unit axis) -/
theorem Gmat_mul_K (u : V3 ℝ) (θ : ℝ) (hu : u.x ^ 2 + u.y ^ 2 + u.z ^ 2 - 1 = 0) :
    Gmat (hat u) θ * hat u = rod u (Real.sin θ) (Real.cos θ) - 1 := by
  have h3 := hat_cube u hu
  rw [rod_eq]
  unfold Gmat
  simp only [add_mul, smul_mul_assoc, one_mul, h3]
  module

theorem adjoint_mulVec (T : T4 ℝ) (V : V6 ℝ) :
    (adjoint T).mulVec V = ⟨T.R.mulVec V.a, (hat T.p * T.R).mulVec V.a + T.R.mulVec V.b⟩ := by
  obtain ⟨R, p⟩ := T
  obtain ⟨w, v⟩ := V
  simp only [adjoint, M6.mulVec, V6.mk.injEq]
  refine ⟨?_, ?_⟩ <;> first | trivial | rfl | (rw [zero_mulVec, add_zero])

theorem T4_conj_formula (T X : T4 ℝ) :
    T * X * transInv T =
      ⟨T.R * X.R * T.R.T, (T.R * X.R).mulVec ((-1 : ℝ) • (T.R.T.mulVec T.p)) + (T.R.mulVec X.p + T.p)⟩ := by
  obtain ⟨R, p⟩ := T
  obtain ⟨E, q⟩ := X
  simp only [T4.mul_def, T4.mul, transInv, ofNat_real_one]
  rfl

theorem Gmat_conj (R : M3 ℝ) (hR : IsRot R) (K : M3 ℝ) (θ : ℝ) :
    Gmat (R * K * R.T) θ = R * Gmat K θ * R.T := by
  obtain ⟨h1, h2⟩ := isRot_inv hR
  unfold Gmat
  exact conj_quad R R.T K h1 h2 θ (1 - Real.cos θ) (θ - Real.sin θ)

/-- **exp6 [Ad_T V] = T · exp6 [V] · T⁻¹** for every rigid T, whenever the angular part of V is zero
    or at least the 1e-6 cut-off (inside the band the code's translation-only branch breaks the identity
    by up to 1e-6·|p|, which the falsifier measures). -/
theorem exp6_conj (T : T4 ℝ) (hR : IsRot T.R) (V : V6 ℝ)
    (hω : V.a = 0 ∨ (1e-6 : ℝ) ≤ norm3 V.a) :
    matrixExp6 (hat6 ((adjoint T).mulVec V)) = T * matrixExp6 (hat6 V) * transInv T := by
  obtain ⟨h1, h2⟩ := isRot_inv hR
  rw [adjoint_mulVec, T4_conj_formula]
  obtain ⟨R, p⟩ := T
  obtain ⟨ω, v⟩ := V
  simp only at hR h1 h2 hω ⊢
  rcases hω with h0 | hbig
  · -- pure translation: ω = 0
    subst h0
    have hzero : (0 : V3 ℝ) = (⟨0, 0, 0⟩ : V3 ℝ) := by show V3.zero = _; simp only [V3.zero, ofNat_real_zero]
    have hn0 : norm3 (0 : V3 ℝ) = 0 := by rw [hzero]; exact norm3_eq_of_sq _ 0 (le_refl 0) (by norm_num)
    have hz : nearZero (norm3 (0 : V3 ℝ)) := by rw [hn0, nearZero_iff]; norm_num
    have hR0 : R.mulVec (0 : V3 ℝ) = 0 := by
      have := mulVec_smul 0 R (0 : V3 ℝ); simpa using this
    have hz' : nearZero (norm3 (R.mulVec (0 : V3 ℝ))) := by rw [hR0]; exact hz
    rw [exp6_translating ⟨0, v⟩ hz, exp6_translating _ hz']
    simp only [T4.mk.injEq, M3.one_eq, mul_one, h1, true_and]
    have e1 : (hat p * R).mulVec (0 : V3 ℝ) = 0 := by
      have := mulVec_smul 0 (hat p * R) (0 : V3 ℝ); simpa using this
    rw [e1, mulVec_smul, ← mulVec_mul, h1, one_mulVec]
    module
  · -- rotating part: θ = ‖ω‖ ≥ 1e-6
    have hz : ¬ nearZero (norm3 ω) := not_nearZero_of_le _ hbig
    have hz' : ¬ nearZero (norm3 (R.mulVec ω)) := by rw [norm3_rot R hR]; exact hz
    set θ := norm3 ω with hθ
    have hθpos : 0 < θ := lt_of_lt_of_le (by norm_num) hbig
    have hθne : θ ≠ 0 := ne_of_gt hθpos
    rw [exp6_rotating ⟨ω, v⟩ hz, exp6_rotating _ hz']
    simp only [norm3_rot R hR, ← hθ, T4.mk.injEq]
    refine ⟨exp3_conj R hR ω, ?_⟩
    -- unit axis and its hat
    set u := V3.sdiv ω θ with hu
    have hunit : u.x ^ 2 + u.y ^ 2 + u.z ^ 2 - 1 = 0 := by
      have hs := norm3_sq ω
      rw [← hθ] at hs
      obtain ⟨x, y, z⟩ := ω
      simp only [hu, V3.sdiv] at hs ⊢
      field_simp
      linarith
    have hK : M3.sdiv (hat ω) θ = hat u := (hat_sdiv ω θ).symm
    have hK' : M3.sdiv (hat (R.mulVec ω)) θ = R * hat u * R.T := by
      rw [← hat_sdiv, ← mulVec_sdiv, hat_conj R hR]
    have hω : hat ω = θ • hat u := by
      rw [← hK, sdiv_eq_smul, smul_smul]; field_simp; rw [one_smul]
    rw [hK, hK', Gmat_conj R hR, exp3_eq_rod ω hz, ← hθ, ← hu]
    set G := Gmat (hat u) θ with hG
    set E := rod u (Real.sin θ) (Real.cos θ) with hE
    have hGK : G * hat u = E - 1 := Gmat_mul_K u θ hunit
    -- the term coming from [p] R ω
    have hpR : (hat p * R).mulVec ω = -(θ • (R * hat u * R.T).mulVec p) := by
      rw [mulVec_mul, hat_mulVec_anticomm, hat_conj R hR, hω]
      congr 1
      rw [mul_smul_comm, smul_mul_assoc, smul_mulVec]
    rw [hpR, V3.sdiv_eq_smul, V3.sdiv_eq_smul, mulVec_add, mulVec_neg, mulVec_smul]
    -- push everything to nested applications
    have e1 : (R * G * R.T).mulVec ((R * hat u * R.T).mulVec p) = R.mulVec (E.mulVec (R.T.mulVec p)) - p := by
      rw [← mulVec_mul]
      have : R * G * R.T * (R * hat u * R.T) = R * (G * hat u) * R.T := by
        calc R * G * R.T * (R * hat u * R.T) = R * G * (R.T * R) * hat u * R.T := by noncomm_ring
          _ = R * (G * hat u) * R.T := by rw [h2]; noncomm_ring
      rw [this, hGK, mul_sub, sub_mul, mul_one, h1, sub_mulVec, one_mulVec, mulVec_mul, mulVec_mul]
    have e2 : (R * G * R.T).mulVec (R.mulVec v) = R.mulVec (G.mulVec v) := by
      rw [← mulVec_mul]
      have : R * G * R.T * R = R * G := by
        calc R * G * R.T * R = R * G * (R.T * R) := by noncomm_ring
          _ = R * G := by rw [h2, mul_one]
      rw [this, mulVec_mul]
    rw [e1, e2, mulVec_smul, mulVec_smul, mulVec_mul, smul_add, smul_neg, smul_smul, one_div_mul_cancel hθne, one_smul]
    module

end BR.Rot
