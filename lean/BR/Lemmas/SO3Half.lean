/-
  The half-turn branch of MatrixLog3 in closed form: the logarithm is π times the hat of a unit vector.
-/
import BR.Lemmas.SO3

namespace BR.Rot
open BR.MR OrdField Scalar

theorem unit_of_pivot (v : V3 ℝ) (σ p : ℝ) (hσ : 0 < σ) (hσ2 : σ ^ 2 = 2 * (1 + p)) (hv : v.x * v.x + v.y * v.y + v.z * v.z = 2 * (1 + p)) :
    (V3.smul (1 / σ) v).x ^ 2 + (V3.smul (1 / σ) v).y ^ 2 + (V3.smul (1 / σ) v).z ^ 2 - 1 = 0 := by
  obtain ⟨x, y, z⟩ := v
  simp only [V3.smul] at *
  have hne : σ ≠ 0 := ne_of_gt hσ
  field_simp
  nlinarith [hv, hσ2]

/-- half-turn branch: `MatrixLog3 R = [π u]` for a unit vector u (one of the three pivots) -/
theorem log3_halfturn_form (R : M3 ℝ) (hR : IsRot R) (hle : (R.trace - 1) / 2 ≤ -1) :
    ∃ u : V3 ℝ, u.x ^ 2 + u.y ^ 2 + u.z ^ 2 - 1 = 0 ∧ matrixLog3 R = hat (V3.smul Real.pi u) := by
  obtain ⟨a, b, c, d, e, f, g, h, i⟩ := R
  have F := facts_of_isRot hR
  have htr : (M3.trace (⟨a, b, c, d, e, f, g, h, i⟩ : M3 ℝ)) = a + e + i := by m3simp
  rw [htr] at hle
  have hb := trace_bounds F
  have hi1 : 0 ≤ 1 + i := by nlinarith [F.h9, sq_nonneg c, sq_nonneg f, sq_nonneg (i + 1)]
  have he1 : 0 ≤ 1 + e := by nlinarith [F.h5, sq_nonneg b, sq_nonneg h, sq_nonneg (e + 1)]
  unfold matrixLog3
  simp only [htr, ofNat_real_one, ofNat_real, sqrt_real, pi_real]
  rw [if_neg (by linarith [hb.1] : ¬ (1 ≤ (a + e + i - 1) / 2)), if_pos hle]
  by_cases hz : nearZero (1 + i)
  · by_cases hy : nearZero (1 + e)
    · rw [if_neg (not_not.mpr hz), if_neg (not_not.mpr hy)]
      rw [nearZero_iff, abs_of_nonneg hi1] at hz
      rw [nearZero_iff, abs_of_nonneg he1] at hy
      have ht' : a + e + i = -1 := by linarith [hb.1]
      have hp : 0 < 1 + a := by norm_num at hz hy; linarith
      obtain ⟨hσ, hσ2⟩ := sqrt_two_mul_pos hp
      exact ⟨V3.smul (1 / Real.sqrt (2 * (1 + a))) ⟨1 + a, d, g⟩,
        unit_of_pivot ⟨1 + a, d, g⟩ _ a hσ hσ2 (by simp only; nlinarith [F.h1]), rfl⟩
    · rw [if_neg (not_not.mpr hz), if_pos hy]
      have hp : 0 < 1 + e := pos_of_not_nearZero he1 hy
      obtain ⟨hσ, hσ2⟩ := sqrt_two_mul_pos hp
      exact ⟨V3.smul (1 / Real.sqrt (2 * (1 + e))) ⟨b, 1 + e, h⟩,
        unit_of_pivot ⟨b, 1 + e, h⟩ _ e hσ hσ2 (by simp only; nlinarith [F.h5]), rfl⟩
  · rw [if_pos hz]
    have hp : 0 < 1 + i := pos_of_not_nearZero hi1 hz
    obtain ⟨hσ, hσ2⟩ := sqrt_two_mul_pos hp
    exact ⟨V3.smul (1 / Real.sqrt (2 * (1 + i))) ⟨c, f, 1 + i⟩,
      unit_of_pivot ⟨c, f, 1 + i⟩ _ i hσ hσ2 (by simp only; nlinarith [F.h9]), rfl⟩

end BR.Rot
