/-
  `Ring (M3 ℝ)` (same operations as the model's `M3.add/mul/...`) so that matrix-level identities can
  be proved with `noncomm_ring` / rewriting instead of coordinates, plus the scalar action lemmas.
-/
import BR.Lemmas.SO3
import Mathlib.Tactic.NoncommRing

namespace BR
open BR.MR OrdField Scalar

macro "m3fun" : tactic => `(tactic|
  (simp only [M3.add, M3.sub, M3.mul, M3.neg, M3.smul, M3.one, M3.zero, M3.T, ofNat_real_zero, ofNat_real_one, M3.mk.injEq]
   <;> (try constructorm* _ ∧ _) <;> (first | exact True.intro | ring | skip)))

namespace M3R
theorem add_assoc (a b c : M3 ℝ) : M3.add (M3.add a b) c = M3.add a (M3.add b c) := by cases a; cases b; cases c; m3fun
theorem zero_add (a : M3 ℝ) : M3.add M3.zero a = a := by cases a; m3fun
theorem add_zero (a : M3 ℝ) : M3.add a M3.zero = a := by cases a; m3fun
theorem add_comm (a b : M3 ℝ) : M3.add a b = M3.add b a := by cases a; cases b; m3fun
theorem left_distrib (a b c : M3 ℝ) : M3.mul a (M3.add b c) = M3.add (M3.mul a b) (M3.mul a c) := by cases a; cases b; cases c; m3fun
theorem right_distrib (a b c : M3 ℝ) : M3.mul (M3.add a b) c = M3.add (M3.mul a c) (M3.mul b c) := by cases a; cases b; cases c; m3fun
theorem zero_mul (a : M3 ℝ) : M3.mul M3.zero a = M3.zero := by cases a; m3fun
theorem mul_zero (a : M3 ℝ) : M3.mul a M3.zero = M3.zero := by cases a; m3fun
theorem mul_assoc (a b c : M3 ℝ) : M3.mul (M3.mul a b) c = M3.mul a (M3.mul b c) := by cases a; cases b; cases c; m3fun
theorem one_mul (a : M3 ℝ) : M3.mul M3.one a = a := by cases a; m3fun
theorem mul_one (a : M3 ℝ) : M3.mul a M3.one = a := by cases a; m3fun
theorem neg_add_cancel (a : M3 ℝ) : M3.add (M3.neg a) a = M3.zero := by cases a; m3fun
theorem sub_eq_add_neg (a b : M3 ℝ) : M3.sub a b = M3.add a (M3.neg b) := by cases a; cases b; m3fun
end M3R

noncomputable instance : Zero (M3 ℝ) := ⟨M3.zero⟩
noncomputable instance : One (M3 ℝ) := ⟨M3.one⟩

noncomputable instance instRingM3 : Ring (M3 ℝ) where
  add := M3.add
  zero := M3.zero
  neg := M3.neg
  sub := M3.sub
  mul := M3.mul
  one := M3.one
  add_assoc := M3R.add_assoc
  zero_add := M3R.zero_add
  add_zero := M3R.add_zero
  add_comm := M3R.add_comm
  left_distrib := M3R.left_distrib
  right_distrib := M3R.right_distrib
  zero_mul := M3R.zero_mul
  mul_zero := M3R.mul_zero
  mul_assoc := M3R.mul_assoc
  one_mul := M3R.one_mul
  mul_one := M3R.mul_one
  neg_add_cancel := M3R.neg_add_cancel
  sub_eq_add_neg := M3R.sub_eq_add_neg
  nsmul := nsmulRec
  zsmul := zsmulRec
  nsmul_zero := fun _ => rfl
  nsmul_succ := fun _ _ => rfl
  zsmul_zero' := fun _ => rfl
  zsmul_succ' := fun _ _ => rfl
  zsmul_neg' := fun _ _ => rfl

theorem M3.one_eq : (M3.one : M3 ℝ) = 1 := rfl
theorem M3.zero_eq : (M3.zero : M3 ℝ) = 0 := rfl

example (A B C : M3 ℝ) : A * (B + C) * A = A * B * A + A * C * A := by noncomm_ring

end BR

namespace BR
open BR.MR BR.Rot OrdField Scalar

noncomputable instance : SMul ℝ (M3 ℝ) := ⟨M3.smul⟩
theorem M3.smul_eq (k : ℝ) (A : M3 ℝ) : M3.smul k A = k • A := rfl

noncomputable instance : Module ℝ (M3 ℝ) where
  one_smul a := by cases a; show M3.smul 1 _ = _; m3fun
  mul_smul x y a := by cases a; show M3.smul (x * y) _ = M3.smul x (M3.smul y _); m3fun
  smul_zero x := by show M3.smul x M3.zero = M3.zero; m3fun
  smul_add x a b := by cases a; cases b; show M3.smul x (M3.add _ _) = M3.add (M3.smul x _) (M3.smul x _); m3fun
  add_smul x y a := by cases a; show M3.smul (x + y) _ = M3.add (M3.smul x _) (M3.smul y _); m3fun
  zero_smul a := by cases a; show M3.smul 0 _ = M3.zero; m3fun

theorem M3.smul_mul' (k : ℝ) (A B : M3 ℝ) : (k • A) * B = k • (A * B) := by
  cases A; cases B; show M3.mul (M3.smul k _) _ = M3.smul k (M3.mul _ _); m3fun
theorem M3.mul_smul' (k : ℝ) (A B : M3 ℝ) : A * (k • B) = k • (A * B) := by
  cases A; cases B; show M3.mul _ (M3.smul k _) = M3.smul k (M3.mul _ _); m3fun

noncomputable instance : IsScalarTower ℝ (M3 ℝ) (M3 ℝ) := ⟨fun k A B => M3.smul_mul' k A B⟩
noncomputable instance : SMulCommClass ℝ (M3 ℝ) (M3 ℝ) := ⟨fun k A B => (M3.mul_smul' k A B).symm⟩

/-! vectors -/
noncomputable instance : Zero (V3 ℝ) := ⟨V3.zero⟩

noncomputable instance : AddCommGroup (V3 ℝ) where
  add := V3.add
  zero := V3.zero
  neg := V3.neg
  sub := V3.sub
  add_assoc a b c := by cases a; cases b; cases c; show V3.add (V3.add _ _) _ = V3.add _ (V3.add _ _); simp only [V3.add, V3.mk.injEq]; refine ⟨?_, ?_, ?_⟩ <;> ring
  zero_add a := by cases a; show V3.add V3.zero _ = _; simp only [V3.add, V3.zero, ofNat_real_zero, V3.mk.injEq]; refine ⟨?_, ?_, ?_⟩ <;> ring
  add_zero a := by cases a; show V3.add _ V3.zero = _; simp only [V3.add, V3.zero, ofNat_real_zero, V3.mk.injEq]; refine ⟨?_, ?_, ?_⟩ <;> ring
  add_comm a b := by cases a; cases b; show V3.add _ _ = V3.add _ _; simp only [V3.add, V3.mk.injEq]; refine ⟨?_, ?_, ?_⟩ <;> ring
  neg_add_cancel a := by cases a; show V3.add (V3.neg _) _ = V3.zero; simp only [V3.add, V3.neg, V3.zero, ofNat_real_zero, V3.mk.injEq]; refine ⟨?_, ?_, ?_⟩ <;> ring
  sub_eq_add_neg a b := by cases a; cases b; show V3.sub _ _ = V3.add _ (V3.neg _); simp only [V3.add, V3.sub, V3.neg, V3.mk.injEq]; refine ⟨?_, ?_, ?_⟩ <;> ring
  nsmul := nsmulRec
  zsmul := zsmulRec
  nsmul_zero := fun _ => rfl
  nsmul_succ := fun _ _ => rfl
  zsmul_zero' := fun _ => rfl
  zsmul_succ' := fun _ _ => rfl
  zsmul_neg' := fun _ _ => rfl

noncomputable instance : SMul ℝ (V3 ℝ) := ⟨V3.smul⟩
theorem V3.smul_eq (k : ℝ) (v : V3 ℝ) : V3.smul k v = k • v := rfl

macro "v3fun" : tactic => `(tactic|
  (simp only [V3.add, V3.sub, V3.neg, V3.smul, V3.sdiv, V3.zero, ofNat_real_zero, ofNat_real_one, V3.mk.injEq]
   <;> (try constructorm* _ ∧ _) <;> (first | exact True.intro | ring | skip)))

noncomputable instance : Module ℝ (V3 ℝ) where
  one_smul a := by cases a; show V3.smul 1 _ = _; v3fun
  mul_smul x y a := by cases a; show V3.smul (x * y) _ = V3.smul x (V3.smul y _); v3fun
  smul_zero x := by show V3.smul x V3.zero = V3.zero; v3fun
  smul_add x a b := by cases a; cases b; show V3.smul x (V3.add _ _) = V3.add (V3.smul x _) (V3.smul x _); v3fun
  add_smul x y a := by cases a; show V3.smul (x + y) _ = V3.add (V3.smul x _) (V3.smul y _); v3fun
  zero_smul a := by cases a; show V3.smul 0 _ = V3.zero; v3fun

theorem V3.sdiv_eq_smul (v : V3 ℝ) (k : ℝ) : V3.sdiv v k = (1 / k) • v := by
  cases v; show _ = V3.smul (1 / k) _; v3fun
theorem V3.zero_eq : (V3.zero : V3 ℝ) = 0 := rfl

/-! matrix–vector algebra -/
theorem mulVec_mul (A B : M3 ℝ) (v : V3 ℝ) : (A * B).mulVec v = A.mulVec (B.mulVec v) := by
  cases A; cases B; cases v; m3ring
theorem mulVec_add (A : M3 ℝ) (u v : V3 ℝ) : A.mulVec (u + v) = A.mulVec u + A.mulVec v := by
  cases A; cases u; cases v; m3ring
theorem mulVec_sub (A : M3 ℝ) (u v : V3 ℝ) : A.mulVec (u - v) = A.mulVec u - A.mulVec v := by
  cases A; cases u; cases v; m3ring
theorem add_mulVec (A B : M3 ℝ) (v : V3 ℝ) : (A + B).mulVec v = A.mulVec v + B.mulVec v := by
  cases A; cases B; cases v; m3ring
theorem sub_mulVec (A B : M3 ℝ) (v : V3 ℝ) : (A - B).mulVec v = A.mulVec v - B.mulVec v := by
  cases A; cases B; cases v; m3ring
theorem smul_mulVec (k : ℝ) (A : M3 ℝ) (v : V3 ℝ) : (k • A).mulVec v = k • A.mulVec v := by
  cases A; cases v; show (M3.smul k _).mulVec _ = V3.smul k _; m3ring
theorem mulVec_smul (k : ℝ) (A : M3 ℝ) (v : V3 ℝ) : A.mulVec (k • v) = k • A.mulVec v := by
  cases A; cases v; show M3.mulVec _ (V3.smul k _) = V3.smul k _; m3ring
theorem neg_mulVec (A : M3 ℝ) (v : V3 ℝ) : (-A).mulVec v = -(A.mulVec v) := by
  cases A; cases v; m3ring
theorem mulVec_neg (A : M3 ℝ) (v : V3 ℝ) : A.mulVec (-v) = -(A.mulVec v) := by
  cases A; cases v; m3ring
theorem zero_mulVec (v : V3 ℝ) : (M3.zero : M3 ℝ).mulVec v = 0 := by
  cases v; show _ = V3.zero; m3ring
theorem one_mulVec (v : V3 ℝ) : (1 : M3 ℝ).mulVec v = v := by
  cases v; show M3.one.mulVec _ = _; m3ring
theorem hat_mulVec_anticomm (a b : V3 ℝ) : (hat a).mulVec b = -((hat b).mulVec a) := by
  cases a; cases b; m3ring
theorem hat_smul (k : ℝ) (a : V3 ℝ) : hat (k • a) = k • hat a := by
  cases a; show hat (V3.smul k _) = M3.smul k _; m3ring
theorem hat_sdiv (a : V3 ℝ) (k : ℝ) : hat (V3.sdiv a k) = M3.sdiv (hat a) k := by
  cases a; m3ring
theorem sdiv_eq_smul (A : M3 ℝ) (k : ℝ) : M3.sdiv A k = (1 / k) • A := by
  cases A; show _ = M3.smul (1 / k) _; m3ring

/-- `[R w] = R [w] Rᵀ` on SO(3) -/
theorem hat_conj (R : M3 ℝ) (hR : IsRot R) (w : V3 ℝ) : hat (R.mulVec w) = R * hat w * R.T := by
  have h1 : hat (R.mulVec w) * R = R * hat w := by
    have hc := hat_cofactor R w
    have h2 := M3.mul_T_of_T_mul hR.1 hR.2
    rw [hR.2] at hc
    have h3 : M3.smul 1 (hat w) = hat w := by cases w; m3simp; norm_num
    rw [h3] at hc
    calc hat (R.mulVec w) * R = (R * R.T) * (hat (R.mulVec w) * R) := by rw [h2, M3.one_eq, one_mul]
      _ = R * (R.T * hat (R.mulVec w) * R) := by noncomm_ring
      _ = R * hat w := by rw [hc]
  have h2 := M3.mul_T_of_T_mul hR.1 hR.2
  calc hat (R.mulVec w) = hat (R.mulVec w) * (R * R.T) := by rw [h2, M3.one_eq, mul_one]
    _ = (hat (R.mulVec w) * R) * R.T := by noncomm_ring
    _ = R * hat w * R.T := by rw [h1]

/-- rotations preserve the norm the kernels compute -/
theorem norm3_rot (R : M3 ℝ) (hR : IsRot R) (w : V3 ℝ) : norm3 (R.mulVec w) = norm3 w := by
  obtain ⟨a, b, c, d, e, f, g, h, i⟩ := R
  have F := facts_of_isRot hR
  obtain ⟨x, y, z⟩ := w
  unfold norm3
  congr 1
  m3simp
  linear_combination (x * x) * F.h1 + (2 * x * y) * F.h2 + (2 * x * z) * F.h3 + (y * y) * F.h5 + (2 * y * z) * F.h6 + (z * z) * F.h9

end BR
