/-
  Helper lemmas for the transform-object model: closure of SO(3), skewness of the logarithm,
  the quaternion map.
-/
import BR.Lemmas.SO3
import BR.Model.Tm

namespace BR.Rot
open BR.MR BR.TmModel OrdField Scalar

theorem T_mul (A B : M3 ℝ) : (A * B).T = B.T * A.T := by m3ring
theorem T_T (A : M3 ℝ) : A.T.T = A := by cases A; rfl
theorem det_mul (A B : M3 ℝ) : (A * B).det = A.det * B.det := by m3ring
theorem det_T (A : M3 ℝ) : A.T.det = A.det := by m3ring

theorem isRot_one : IsRot M3.one := by
  constructor
  · m3simp; norm_num
  · m3simp; norm_num

theorem isRot_T {R : M3 ℝ} (h : IsRot R) : IsRot R.T :=
  ⟨by rw [T_T]; exact M3.mul_T_of_T_mul h.1 h.2, by rw [det_T]; exact h.2⟩

theorem isRot_mul {A B : M3 ℝ} (hA : IsRot A) (hB : IsRot B) : IsRot (A * B) := by
  constructor
  · rw [T_mul]
    calc B.T * A.T * (A * B) = B.T * ((A.T * A) * B) := by simp only [M3.mul_assoc']
      _ = B.T * B := by rw [hA.1, M3.one_mul']
      _ = M3.one := hB.1
  · rw [det_mul, hA.2, hB.2]; norm_num

/-- `MatrixExp3` of any rotation vector is a proper rotation (both branches of the cut-off) -/
theorem exp3_isRot (w : V3 ℝ) : IsRot (matrixExp3 (hat w)) := by
  by_cases h : nearZero (norm3 w)
  · rw [exp3_small w h]; exact isRot_one
  · rw [exp3_eq_rod w h]
    have h6 : (1e-6 : ℝ) ≤ norm3 w := by
      rw [nearZero_iff, abs_of_nonneg (norm3_nonneg w)] at h; exact not_lt.mp h
    have hpos : 0 < norm3 w := lt_of_lt_of_le (by norm_num) h6
    have hs := norm3_sq w
    have hu : (V3.sdiv w (norm3 w)).x ^ 2 + (V3.sdiv w (norm3 w)).y ^ 2 + (V3.sdiv w (norm3 w)).z ^ 2 - 1 = 0 := by
      simp only [V3.sdiv]
      have hne : norm3 w ≠ 0 := ne_of_gt hpos
      field_simp
      linarith
    have hsc : Real.sin (norm3 w) ^ 2 + Real.cos (norm3 w) ^ 2 - 1 = 0 := by
      rw [Real.sin_sq_add_cos_sq]; ring
    exact ⟨rod_orth _ _ _ hu hsc, rod_det _ _ _ hu hsc⟩

/-- the logarithm is skew-symmetric on every input, so hat ∘ vee is the identity on it -/
theorem hat_vee_log3 (R : M3 ℝ) : hat (vee (matrixLog3 R)) = matrixLog3 R := by
  unfold matrixLog3
  simp only
  split_ifs <;> m3ring

/-- scipy's quaternion-to-matrix map yields a proper rotation for every non-zero quaternion -/
theorem quatToRot_isRot (x y z w : ℝ) (hq : 0 < x * x + y * y + z * z + w * w) :
    IsRot (quatToRot x y z w) := by
  unfold quatToRot
  simp only [sqrt_real]
  set n := Real.sqrt (x * x + y * y + z * z + w * w) with hn
  have hn2 : n ^ 2 = x * x + y * y + z * z + w * w := Real.sq_sqrt hq.le
  have hnpos : 0 < n := Real.sqrt_pos.mpr hq
  have hne : n ≠ 0 := ne_of_gt hnpos
  have hq' : (x / n) ^ 2 + (y / n) ^ 2 + (z / n) ^ 2 + (w / n) ^ 2 - 1 = 0 := by
    field_simp; linarith
  generalize x / n = X at hq' ⊢
  generalize y / n = Y at hq' ⊢
  generalize z / n = Z at hq' ⊢
  generalize w / n = W at hq' ⊢
  constructor
  · m3simp
    refine ⟨?_, ?_, ?_, ?_, ?_, ?_, ?_, ?_, ?_⟩
    · linear_combination (W^2 + X^2 + Y^2 + Z^2 + 1) * hq'
    · ring
    · ring
    · ring
    · linear_combination (W^2 + X^2 + Y^2 + Z^2 + 1) * hq'
    · ring
    · ring
    · ring
    · linear_combination (W^2 + X^2 + Y^2 + Z^2 + 1) * hq'
  · m3simp
    linear_combination (W^4 + 2*W^2*X^2 + 2*W^2*Y^2 + 2*W^2*Z^2 + W^2 + X^4 + 2*X^2*Y^2 + 2*X^2*Z^2 + X^2 + Y^4 + 2*Y^2*Z^2 + Y^2 + Z^4 + Z^2 + 1) * hq'

end BR.Rot
