/-
  Facts about SO(3) in coordinates and the exp ∘ log round trip on all of SO(3)
  (identity / generic / half-turn branches of `matrixLog3`).
-/
import BR.Lemmas.Rot

namespace BR.Rot
open BR.MR OrdField Scalar

/-- proper rotation: orthonormal with determinant +1 -/
def IsRot (R : M3 ℝ) : Prop := R.T * R = M3.one ∧ R.det = 1

/-- the quadratic relations satisfied by the entries of a rotation matrix
    (RᵀR = I, RRᵀ = I, R = cof R, det = 1), in the form used by the certificates in certs/so3.py -/
structure Facts (a b c d e f g h i : ℝ) : Prop where
  h1 : a * a + d * d + g * g - 1 = 0
  h2 : a * b + d * e + g * h = 0
  h3 : a * c + d * f + g * i = 0
  h5 : b * b + e * e + h * h - 1 = 0
  h6 : b * c + e * f + h * i = 0
  h9 : c * c + f * f + i * i - 1 = 0
  k1 : a * a + b * b + c * c - 1 = 0
  k2 : a * d + b * e + c * f = 0
  k3 : a * g + b * h + c * i = 0
  k5 : d * d + e * e + f * f - 1 = 0
  k6 : d * g + e * h + f * i = 0
  k9 : g * g + h * h + i * i - 1 = 0
  ca : a - (e * i - f * h) = 0
  cb : b + (d * i - f * g) = 0
  cc : c - (d * h - e * g) = 0
  cd : d + (b * i - c * h) = 0
  ce : e - (a * i - c * g) = 0
  cf : f + (a * h - b * g) = 0
  cg : g - (b * f - c * e) = 0
  ch : h + (a * f - c * d) = 0
  ci : i - (a * e - b * d) = 0
  hd : a * (e * i - f * h) - b * (d * i - f * g) + c * (d * h - e * g) - 1 = 0

theorem facts_of_isRot {a b c d e f g h i : ℝ} (hR : IsRot ⟨a, b, c, d, e, f, g, h, i⟩) :
    Facts a b c d e f g h i := by
  obtain ⟨ho, hd⟩ := hR
  have ho' := M3.mul_T_of_T_mul ho hd
  revert ho ho' hd
  m3simp
  rintro ⟨h1, h2, h3, -, h5, h6, -, -, h9⟩ hd ⟨k1, k2, k3, -, k5, k6, -, -, k9⟩
  have ha : a = e * i - f * h := by
    linear_combination (e * i - f * h) * h1 + (-(d * i - f * g)) * h2 + (d * h - e * g) * h3 - a * hd
  have hb : b = -(d * i - f * g) := by
    linear_combination (e * i - f * h) * h2 + (-(d * i - f * g)) * h5 + (d * h - e * g) * h6 - b * hd
  have hc : c = d * h - e * g := by
    linear_combination (e * i - f * h) * h3 + (-(d * i - f * g)) * h6 + (d * h - e * g) * h9 - c * hd
  have hd' : d = -(b * i - c * h) := by
    linear_combination (-(b * i - c * h)) * h1 + (a * i - c * g) * h2 + (-(a * h - b * g)) * h3 - d * hd
  have he : e = a * i - c * g := by
    linear_combination (-(b * i - c * h)) * h2 + (a * i - c * g) * h5 + (-(a * h - b * g)) * h6 - e * hd
  have hf : f = -(a * h - b * g) := by
    linear_combination (-(b * i - c * h)) * h3 + (a * i - c * g) * h6 + (-(a * h - b * g)) * h9 - f * hd
  have hg : g = b * f - c * e := by
    linear_combination (b * f - c * e) * h1 + (-(a * f - c * d)) * h2 + (a * e - b * d) * h3 - g * hd
  have hh : h = -(a * f - c * d) := by
    linear_combination (b * f - c * e) * h2 + (-(a * f - c * d)) * h5 + (a * e - b * d) * h6 - h * hd
  have hi : i = a * e - b * d := by
    linear_combination (b * f - c * e) * h3 + (-(a * f - c * d)) * h6 + (a * e - b * d) * h9 - i * hd
  exact
    { h1 := by linarith, h2 := by linarith, h3 := by linarith, h5 := by linarith, h6 := by linarith,
      h9 := by linarith, k1 := by linarith, k2 := by linarith, k3 := by linarith, k5 := by linarith,
      k6 := by linarith, k9 := by linarith, ca := by linarith, cb := by linarith, cc := by linarith,
      cd := by linarith, ce := by linarith, cf := by linarith, cg := by linarith, ch := by linarith,
      ci := by linarith, hd := by linarith }

/-- ‖vee(R − Rᵀ)‖² = (3 − t)(1 + t) on SO(3) -/
theorem vee_skew_sq {a b c d e f g h i : ℝ} (F : Facts a b c d e f g h i) :
    (h - f) ^ 2 + (c - g) ^ 2 + (d - b) ^ 2 = (3 - (a + e + i)) * (1 + (a + e + i)) := by
  linear_combination (1) * F.h1 + (1) * F.h5 + (1) * F.h9 + (-2) * F.ca + (-2) * F.ce + (-2) * F.ci

/-- the trace of a rotation is in [-1, 3] -/
theorem trace_bounds {a b c d e f g h i : ℝ} (F : Facts a b c d e f g h i) :
    -1 ≤ a + e + i ∧ a + e + i ≤ 3 := by
  have ha : a ≤ 1 := by nlinarith [F.h1, sq_nonneg d, sq_nonneg g, sq_nonneg (a - 1)]
  have he : e ≤ 1 := by nlinarith [F.h5, sq_nonneg b, sq_nonneg h, sq_nonneg (e - 1)]
  have hi : i ≤ 1 := by nlinarith [F.h9, sq_nonneg c, sq_nonneg f, sq_nonneg (i - 1)]
  refine ⟨?_, by linarith⟩
  have := vee_skew_sq F
  by_contra hlt
  have h1 : 1 + (a + e + i) < 0 := by linarith
  have h2 : 0 < 3 - (a + e + i) := by linarith
  nlinarith [sq_nonneg (h - f), sq_nonneg (c - g), sq_nonneg (d - b)]

/-- (R − Rᵀ)² = (1 + t)(R + Rᵀ − 2I) on SO(3), entry by entry (certificates: certs/so3.py) -/
theorem skew_sq {a b c d e f g h i : ℝ} (F : Facts a b c d e f g h i) :
    (⟨a, b, c, d, e, f, g, h, i⟩ - (⟨a, b, c, d, e, f, g, h, i⟩ : M3 ℝ).T) *
        (⟨a, b, c, d, e, f, g, h, i⟩ - (⟨a, b, c, d, e, f, g, h, i⟩ : M3 ℝ).T) =
      M3.smul (1 + (a + e + i))
        (⟨a, b, c, d, e, f, g, h, i⟩ + (⟨a, b, c, d, e, f, g, h, i⟩ : M3 ℝ).T - M3.smul 2 M3.one) := by
  m3simp
  refine ⟨?_, ?_, ?_, ?_, ?_, ?_, ?_, ?_, ?_⟩
  · linear_combination (-2) * F.h1 + (-1) * F.h5 + (-1) * F.h9 + (1) * F.k5 + (1) * F.k9 + (2) * F.ce + (2) * F.ci
  · linear_combination (-1) * F.h2 + (-1) * F.k2 + (-1) * F.cb + (-1) * F.cd
  · linear_combination (-1) * F.h3 + (-1) * F.k3 + (-1) * F.cc + (-1) * F.cg
  · linear_combination (-1) * F.h2 + (-1) * F.k2 + (-1) * F.cb + (-1) * F.cd
  · linear_combination (-1) * F.h5 + (-1) * F.k5 + (2) * F.ca + (2) * F.ci
  · linear_combination (-1) * F.h6 + (-1) * F.k6 + (-1) * F.cf + (-1) * F.ch
  · linear_combination (-1) * F.h3 + (-1) * F.k3 + (-1) * F.cc + (-1) * F.cg
  · linear_combination (-1) * F.h6 + (-1) * F.k6 + (-1) * F.cf + (-1) * F.ch
  · linear_combination (-1) * F.h9 + (-1) * F.k9 + (2) * F.ca + (2) * F.ce

/-- Rodrigues' formula rebuilt from the skew part of a rotation gives the rotation back
    (`x` stands for 1/(2 sin θ), `co` for cos θ = (t-1)/2). -/
theorem rod_of_skew_part {a b c d e f g h i : ℝ} (F : Facts a b c d e f g h i) (s co x : ℝ)
    (hco : co = (a + e + i - 1) / 2) (hs2 : s ^ 2 = 1 - co ^ 2) (hx : 2 * s * x = 1) :
    rod ⟨x * (h - f), x * (c - g), x * (d - b)⟩ s co = ⟨a, b, c, d, e, f, g, h, i⟩ := by
  have hsq := skew_sq F
  revert hsq
  unfold rod
  m3simp
  rintro ⟨e11, e12, e13, e21, e22, e23, e31, e32, e33⟩
  have hx2 : 4 * (1 - co ^ 2) * x ^ 2 = 1 := by
    have : (2 * s * x) ^ 2 = 1 := by rw [hx]; ring
    rw [← hs2]; linear_combination this
  subst hco
  refine ⟨?_, ?_, ?_, ?_, ?_, ?_, ?_, ?_, ?_⟩
  · linear_combination (1 - (a + e + i - 1) / 2) * x ^ 2 * e11 + ((a - a) / 2) * hx + ((a + a - 2) / 2) * hx2
  · linear_combination (1 - (a + e + i - 1) / 2) * x ^ 2 * e12 + ((b - d) / 2) * hx + ((b + d - 0) / 2) * hx2
  · linear_combination (1 - (a + e + i - 1) / 2) * x ^ 2 * e13 + ((c - g) / 2) * hx + ((c + g - 0) / 2) * hx2
  · linear_combination (1 - (a + e + i - 1) / 2) * x ^ 2 * e21 + ((d - b) / 2) * hx + ((d + b - 0) / 2) * hx2
  · linear_combination (1 - (a + e + i - 1) / 2) * x ^ 2 * e22 + ((e - e) / 2) * hx + ((e + e - 2) / 2) * hx2
  · linear_combination (1 - (a + e + i - 1) / 2) * x ^ 2 * e23 + ((f - h) / 2) * hx + ((f + h - 0) / 2) * hx2
  · linear_combination (1 - (a + e + i - 1) / 2) * x ^ 2 * e31 + ((g - c) / 2) * hx + ((g + c - 0) / 2) * hx2
  · linear_combination (1 - (a + e + i - 1) / 2) * x ^ 2 * e32 + ((h - f) / 2) * hx + ((h + f - 0) / 2) * hx2
  · linear_combination (1 - (a + e + i - 1) / 2) * x ^ 2 * e33 + ((i - i) / 2) * hx + ((i + i - 2) / 2) * hx2

/-! ### exp3 on a rotation vector -/

theorem vee_hat (w : V3 ℝ) : vee (hat w) = w := by cases w; rfl

theorem norm3_nonneg (w : V3 ℝ) : 0 ≤ norm3 w := Real.sqrt_nonneg _

theorem norm3_sq (w : V3 ℝ) : norm3 w ^ 2 = w.x ^ 2 + w.y ^ 2 + w.z ^ 2 := by
  unfold norm3
  show Real.sqrt _ ^ 2 = _
  rw [Real.sq_sqrt (by nlinarith [sq_nonneg w.x, sq_nonneg w.y, sq_nonneg w.z])]; ring

theorem norm3_eq_of_sq (w : V3 ℝ) (θ : ℝ) (hθ : 0 ≤ θ) (h : w.x ^ 2 + w.y ^ 2 + w.z ^ 2 = θ ^ 2) :
    norm3 w = θ := by
  unfold norm3
  show Real.sqrt _ = _
  rw [show w.x * w.x + w.y * w.y + w.z * w.z = θ ^ 2 by rw [← h]; ring]
  exact Real.sqrt_sq hθ

theorem nearZero_iff (z : ℝ) : nearZero z ↔ |z| < 1e-6 := by
  unfold nearZero; simp only [sabs_real', sci_real]

theorem not_nearZero_of_le (θ : ℝ) (h : (1e-6 : ℝ) ≤ θ) : ¬ nearZero θ := by
  rw [nearZero_iff, abs_of_nonneg (le_trans (by norm_num) h)]; exact not_lt.mpr h

/-- outside the near-zero band the code computes Rodrigues' formula for the unit axis -/
theorem exp3_eq_rod (w : V3 ℝ) (h : ¬ nearZero (norm3 w)) :
    matrixExp3 (hat w) = rod (V3.sdiv w (norm3 w)) (Real.sin (norm3 w)) (Real.cos (norm3 w)) := by
  unfold matrixExp3
  simp only [vee_hat, if_neg h]
  obtain ⟨x, y, z⟩ := w
  unfold rod
  m3ring

theorem exp3_small (w : V3 ℝ) (h : nearZero (norm3 w)) : matrixExp3 (hat w) = M3.one := by
  unfold matrixExp3
  simp only [vee_hat, if_pos h]

/-! ### exp3 ∘ log3 = id, generic branch -/

theorem exp3_log3_generic (R : M3 ℝ) (hR : IsRot R) (hlo : -1 < (R.trace - 1) / 2)
    (hhi : (R.trace - 1) / 2 < 1) (hθ : (1e-6 : ℝ) ≤ Real.arccos ((R.trace - 1) / 2)) :
    matrixExp3 (matrixLog3 R) = R := by
  obtain ⟨a, b, c, d, e, f, g, h, i⟩ := R
  have F := facts_of_isRot hR
  have htr : (M3.trace (⟨a, b, c, d, e, f, g, h, i⟩ : M3 ℝ)) = a + e + i := by m3simp
  rw [htr] at hlo hhi hθ
  set co := (a + e + i - 1) / 2 with hco
  set θ := Real.arccos co with hθdef
  have hθpos : 0 < θ := lt_of_lt_of_le (by norm_num) hθ
  have hs : Real.sin θ = Real.sqrt (1 - co ^ 2) := Real.sin_arccos co
  have hc : Real.cos θ = co := Real.cos_arccos hlo.le hhi.le
  have h1co : 0 < 1 - co ^ 2 := by nlinarith
  have hspos : 0 < Real.sin θ := by rw [hs]; exact Real.sqrt_pos.mpr h1co
  have hs2 : Real.sin θ ^ 2 = 1 - co ^ 2 := by rw [hs, Real.sq_sqrt h1co.le]
  set s := Real.sin θ with hsdef
  -- the logarithm is the hat of κ·vee(R − Rᵀ)
  have hlog : matrixLog3 (⟨a, b, c, d, e, f, g, h, i⟩ : M3 ℝ) =
      hat ⟨θ / 2 / s * (h - f), θ / 2 / s * (c - g), θ / 2 / s * (d - b)⟩ := by
    unfold matrixLog3
    simp only [htr, ofNat_real_one, ofNat_real]
    rw [← hco, if_neg (not_le.mpr hhi), if_neg (not_le.mpr hlo)]
    have hclip : safeClip co (-1) 1 = co := by
      unfold safeClip smin smax
      rw [if_neg (not_lt.mpr hlo.le), if_pos hhi]
    rw [hclip]
    show M3.smul (Real.arccos co / 2 / Real.sin (Real.arccos co)) _ = _
    m3ring
  rw [hlog]
  set w : V3 ℝ := ⟨θ / 2 / s * (h - f), θ / 2 / s * (c - g), θ / 2 / s * (d - b)⟩ with hw
  have hsne : s ≠ 0 := ne_of_gt hspos
  have hnorm : norm3 w = θ := by
    apply norm3_eq_of_sq w θ hθpos.le
    have hv := vee_skew_sq F
    have h4 : (3 - (a + e + i)) * (1 + (a + e + i)) = 4 * s ^ 2 := by rw [hs2, hco]; ring
    rw [h4] at hv
    simp only [hw]
    field_simp
    linear_combination hv
  rw [exp3_eq_rod w (by rw [hnorm]; exact not_nearZero_of_le θ hθ), hnorm, hc]
  have hθne : θ ≠ 0 := ne_of_gt hθpos
  have hu : V3.sdiv w θ = ⟨1 / (2 * s) * (h - f), 1 / (2 * s) * (c - g), 1 / (2 * s) * (d - b)⟩ := by
    simp only [hw, V3.sdiv, V3.mk.injEq]
    refine ⟨?_, ?_, ?_⟩ <;> field_simp
  rw [hu]
  exact rod_of_skew_part F s co (1 / (2 * s)) hco hs2 (by field_simp)

/-- generic branch: the logarithm is `hat w` for a vector of norm θ = arccos((tr−1)/2) ∈ (0, π),
    and R is Rodrigues' formula for the axis w/θ -/
theorem log3_generic_form (R : M3 ℝ) (hR : IsRot R) (hlo : -1 < (R.trace - 1) / 2)
    (hhi : (R.trace - 1) / 2 < 1) :
    ∃ w : V3 ℝ, matrixLog3 R = hat w ∧ norm3 w = Real.arccos ((R.trace - 1) / 2) ∧
      0 < Real.arccos ((R.trace - 1) / 2) ∧ Real.arccos ((R.trace - 1) / 2) < Real.pi ∧
      R = rod (V3.sdiv w (norm3 w)) (Real.sin (norm3 w)) (Real.cos (norm3 w)) := by
  obtain ⟨a, b, c, d, e, f, g, h, i⟩ := R
  have F := facts_of_isRot hR
  have htr : (M3.trace (⟨a, b, c, d, e, f, g, h, i⟩ : M3 ℝ)) = a + e + i := by m3simp
  rw [htr] at hlo hhi ⊢
  set co := (a + e + i - 1) / 2 with hco
  set θ := Real.arccos co with hθdef
  have hθpos : 0 < θ := Real.arccos_pos.mpr hhi
  have hθlt : θ < Real.pi := by
    rcases lt_or_eq_of_le (Real.arccos_le_pi co) with h1 | h1
    · exact h1
    · exact absurd (Real.arccos_eq_pi.mp h1) (not_le.mpr hlo)
  have hs : Real.sin θ = Real.sqrt (1 - co ^ 2) := Real.sin_arccos co
  have hc : Real.cos θ = co := Real.cos_arccos hlo.le hhi.le
  have h1co : 0 < 1 - co ^ 2 := by nlinarith
  have hspos : 0 < Real.sin θ := by rw [hs]; exact Real.sqrt_pos.mpr h1co
  have hs2 : Real.sin θ ^ 2 = 1 - co ^ 2 := by rw [hs, Real.sq_sqrt h1co.le]
  set s := Real.sin θ with hsdef
  have hsne : s ≠ 0 := ne_of_gt hspos
  have hθne : θ ≠ 0 := ne_of_gt hθpos
  refine ⟨⟨θ / 2 / s * (h - f), θ / 2 / s * (c - g), θ / 2 / s * (d - b)⟩, ?_, ?_, hθpos, hθlt, ?_⟩
  · unfold matrixLog3
    simp only [htr, ofNat_real_one, ofNat_real]
    rw [← hco, if_neg (not_le.mpr hhi), if_neg (not_le.mpr hlo)]
    have hclip : safeClip co (-1) 1 = co := by
      unfold safeClip smin smax
      rw [if_neg (not_lt.mpr hlo.le), if_pos hhi]
    rw [hclip]
    show M3.smul (Real.arccos co / 2 / Real.sin (Real.arccos co)) _ = _
    m3ring
  · apply norm3_eq_of_sq _ θ hθpos.le
    have hv := vee_skew_sq F
    have h4 : (3 - (a + e + i)) * (1 + (a + e + i)) = 4 * s ^ 2 := by rw [hs2, hco]; ring
    rw [h4] at hv
    simp only
    field_simp
    linear_combination hv
  · have hnorm : norm3 (⟨θ / 2 / s * (h - f), θ / 2 / s * (c - g), θ / 2 / s * (d - b)⟩ : V3 ℝ) = θ := by
      apply norm3_eq_of_sq _ θ hθpos.le
      have hv := vee_skew_sq F
      have h4 : (3 - (a + e + i)) * (1 + (a + e + i)) = 4 * s ^ 2 := by rw [hs2, hco]; ring
      rw [h4] at hv
      simp only
      field_simp
      linear_combination hv
    rw [hnorm, hc]
    have hu : V3.sdiv (⟨θ / 2 / s * (h - f), θ / 2 / s * (c - g), θ / 2 / s * (d - b)⟩ : V3 ℝ) θ =
        ⟨1 / (2 * s) * (h - f), 1 / (2 * s) * (c - g), 1 / (2 * s) * (d - b)⟩ := by
      simp only [V3.sdiv, V3.mk.injEq]
      refine ⟨?_, ?_, ?_⟩ <;> field_simp
    rw [hu]
    exact (rod_of_skew_part F s co (1 / (2 * s)) hco hs2 (by field_simp)).symm

/-- Rodrigues' formula is additive in the angle about a fixed unit axis -/
theorem rod_add (u : V3 ℝ) (s1 c1 s2 c2 : ℝ) (hu : u.x ^ 2 + u.y ^ 2 + u.z ^ 2 - 1 = 0) :
    rod u s1 c1 * rod u s2 c2 = rod u (s1 * c2 + c1 * s2) (c1 * c2 - s1 * s2) := by
  obtain ⟨x, y, z⟩ := u
  unfold rod
  m3simp
  simp only at hu
  refine ⟨?_, ?_, ?_, ?_, ?_, ?_, ?_, ?_, ?_⟩
  · linear_combination (c1*c2*y^2 + c1*c2*z^2 - c1*y^2 - c1*z^2 - c2*y^2 - c2*z^2 + y^2 + z^2) * hu
  · linear_combination (-c1*c2*x*y - c1*s2*z + c1*x*y - c2*s1*z + c2*x*y + s1*z + s2*z - x*y) * hu
  · linear_combination (-c1*c2*x*z + c1*s2*y + c1*x*z + c2*s1*y + c2*x*z - s1*y - s2*y - x*z) * hu
  · linear_combination (-c1*c2*x*y + c1*s2*z + c1*x*y + c2*s1*z + c2*x*y - s1*z - s2*z - x*y) * hu
  · linear_combination (c1*c2*x^2 + c1*c2*z^2 - c1*x^2 - c1*z^2 - c2*x^2 - c2*z^2 + x^2 + z^2) * hu
  · linear_combination (-c1*c2*y*z - c1*s2*x + c1*y*z - c2*s1*x + c2*y*z + s1*x + s2*x - y*z) * hu
  · linear_combination (-c1*c2*x*z - c1*s2*y + c1*x*z - c2*s1*y + c2*x*z + s1*y + s2*y - x*z) * hu
  · linear_combination (-c1*c2*y*z + c1*s2*x + c1*y*z + c2*s1*x + c2*y*z - s1*x - s2*x - y*z) * hu
  · linear_combination (c1*c2*x^2 + c1*c2*y^2 - c1*x^2 - c1*y^2 - c2*x^2 - c2*y^2 + x^2 + y^2) * hu

/-! ### identity branch -/

theorem eq_one_of_trace_ge {a b c d e f g h i : ℝ} (F : Facts a b c d e f g h i) (ht : 3 ≤ a + e + i) :
    (⟨a, b, c, d, e, f, g, h, i⟩ : M3 ℝ) = M3.one := by
  have ha : a ≤ 1 := by nlinarith [F.h1, sq_nonneg d, sq_nonneg g, sq_nonneg (a - 1)]
  have he : e ≤ 1 := by nlinarith [F.h5, sq_nonneg b, sq_nonneg h, sq_nonneg (e - 1)]
  have hi : i ≤ 1 := by nlinarith [F.h9, sq_nonneg c, sq_nonneg f, sq_nonneg (i - 1)]
  have ha1 : a = 1 := by linarith
  have he1 : e = 1 := by linarith
  have hi1 : i = 1 := by linarith
  subst ha1 he1 hi1
  have hd : d = 0 := by nlinarith [F.h1, sq_nonneg d, sq_nonneg g]
  have hg : g = 0 := by nlinarith [F.h1, sq_nonneg d, sq_nonneg g]
  have hb : b = 0 := by nlinarith [F.h5, sq_nonneg b, sq_nonneg h]
  have hh : h = 0 := by nlinarith [F.h5, sq_nonneg b, sq_nonneg h]
  have hc : c = 0 := by nlinarith [F.h9, sq_nonneg c, sq_nonneg f]
  have hf : f = 0 := by nlinarith [F.h9, sq_nonneg c, sq_nonneg f]
  subst hd hg hb hh hc hf
  m3simp

theorem exp3_zero : matrixExp3 (M3.zero : M3 ℝ) = M3.one := by
  have : (M3.zero : M3 ℝ) = hat ⟨0, 0, 0⟩ := by m3simp; simp
  rw [this]
  apply exp3_small
  rw [nearZero_iff]
  have : norm3 (⟨0, 0, 0⟩ : V3 ℝ) = 0 := norm3_eq_of_sq _ 0 (le_refl 0) (by norm_num)
  rw [this]; norm_num

theorem exp3_log3_identity (R : M3 ℝ) (hR : IsRot R) (h : 1 ≤ (R.trace - 1) / 2) :
    matrixExp3 (matrixLog3 R) = R := by
  obtain ⟨a, b, c, d, e, f, g, h', i⟩ := R
  have F := facts_of_isRot hR
  have htr : (M3.trace (⟨a, b, c, d, e, f, g, h', i⟩ : M3 ℝ)) = a + e + i := by m3simp
  rw [htr] at h
  have hR1 := eq_one_of_trace_ge F (by linarith)
  have hlog : matrixLog3 (⟨a, b, c, d, e, f, g, h', i⟩ : M3 ℝ) = M3.zero := by
    unfold matrixLog3
    simp only [htr, ofNat_real_one, ofNat_real]
    rw [if_pos h]
  rw [hlog, exp3_zero, hR1]

/-! ### half-turn branch -/

/-- exp3 of π times a unit vector v/σ is 2·(v vᵀ)/σ² − I; when v vᵀ = (1+p)(R+I), σ² = 2(1+p) and
    tr R = −1 this is R. One lemma serves the three pivots of `matrixLog3`. -/
theorem halfturn_exp {a b c d e f g h i : ℝ} (v : V3 ℝ) (σ p : ℝ) (hσ : 0 < σ) (hσ2 : σ ^ 2 = 2 * (1 + p))
    (ht : a + e + i = -1)
    (v11 : v.x * v.x = (1 + p) * (a + 1)) (v12 : v.x * v.y = (1 + p) * b) (v13 : v.x * v.z = (1 + p) * c)
    (v21 : v.y * v.x = (1 + p) * d) (v22 : v.y * v.y = (1 + p) * (e + 1)) (v23 : v.y * v.z = (1 + p) * f)
    (v31 : v.z * v.x = (1 + p) * g) (v32 : v.z * v.y = (1 + p) * h) (v33 : v.z * v.z = (1 + p) * (i + 1)) :
    matrixExp3 (hat (V3.smul Real.pi (V3.smul (1 / σ) v))) = ⟨a, b, c, d, e, f, g, h, i⟩ := by
  obtain ⟨x, y, z⟩ := v
  simp only at v11 v12 v13 v21 v22 v23 v31 v32 v33
  have hσne : σ ≠ 0 := ne_of_gt hσ
  have hp : 0 < 1 + p := by nlinarith
  set w : V3 ℝ := V3.smul Real.pi (V3.smul (1 / σ) ⟨x, y, z⟩) with hw
  have hnorm : norm3 w = Real.pi := by
    apply norm3_eq_of_sq w Real.pi Real.pi_pos.le
    simp only [hw, V3.smul]
    field_simp
    rw [hσ2]
    linear_combination (v11 + v22 + v33 + (1 + p) * ht)
  have hnz : ¬ nearZero (norm3 w) := by
    rw [hnorm]; apply not_nearZero_of_le; linarith [Real.two_le_pi]
  rw [exp3_eq_rod w hnz, hnorm, Real.sin_pi, Real.cos_pi]
  have hpne : Real.pi ≠ 0 := Real.pi_ne_zero
  unfold rod
  simp only [hw]
  m3simp
  refine ⟨?_, ?_, ?_, ?_, ?_, ?_, ?_, ?_, ?_⟩ <;> field_simp <;> rw [hσ2]
  · linear_combination (-2) * v33 + (-2) * v22 + (-2) * (1 + p) * ht
  · linear_combination 2 * v12
  · linear_combination 2 * v13
  · linear_combination 2 * v21
  · linear_combination (-2) * v33 + (-2) * v11 + (-2) * (1 + p) * ht
  · linear_combination 2 * v23
  · linear_combination 2 * v31
  · linear_combination 2 * v32
  · linear_combination (-2) * v22 + (-2) * v11 + (-2) * (1 + p) * ht

theorem sqrt_two_mul_pos {p : ℝ} (hp : 0 < 1 + p) :
    0 < Real.sqrt (2 * (1 + p)) ∧ Real.sqrt (2 * (1 + p)) ^ 2 = 2 * (1 + p) :=
  ⟨Real.sqrt_pos.mpr (by linarith), Real.sq_sqrt (by linarith)⟩

theorem pos_of_not_nearZero {x : ℝ} (h0 : 0 ≤ x) (h : ¬ nearZero x) : 0 < x := by
  rw [nearZero_iff, abs_of_nonneg h0] at h
  exact lt_of_lt_of_le (by norm_num) (not_lt.mp h)

theorem exp3_log3_halfturn (R : M3 ℝ) (hR : IsRot R) (hle : (R.trace - 1) / 2 ≤ -1) :
    matrixExp3 (matrixLog3 R) = R := by
  obtain ⟨a, b, c, d, e, f, g, h, i⟩ := R
  have F := facts_of_isRot hR
  have htr : (M3.trace (⟨a, b, c, d, e, f, g, h, i⟩ : M3 ℝ)) = a + e + i := by m3simp
  rw [htr] at hle
  have hb := trace_bounds F
  have ht' : a + e + i = -1 := by linarith [hb.1]
  have ht : a + e + i + 1 = 0 := by linarith
  have hv := vee_skew_sq F
  rw [ht'] at hv
  have s3 : f - h = 0 := by nlinarith [sq_nonneg (h - f), sq_nonneg (c - g), sq_nonneg (d - b)]
  have s2 : c - g = 0 := by nlinarith [sq_nonneg (h - f), sq_nonneg (c - g), sq_nonneg (d - b)]
  have s1 : b - d = 0 := by nlinarith [sq_nonneg (h - f), sq_nonneg (c - g), sq_nonneg (d - b)]
  have hi1 : 0 ≤ 1 + i := by nlinarith [F.h9, sq_nonneg c, sq_nonneg f, sq_nonneg (i + 1)]
  have he1 : 0 ≤ 1 + e := by nlinarith [F.h5, sq_nonneg b, sq_nonneg h, sq_nonneg (e + 1)]
  unfold matrixLog3
  simp only [htr, ofNat_real_one, ofNat_real, sqrt_real, pi_real]
  rw [if_neg (by linarith : ¬ (1 ≤ (a + e + i - 1) / 2)), if_pos hle]
  by_cases hz : nearZero (1 + i)
  · by_cases hy : nearZero (1 + e)
    · -- pivot x
      rw [if_neg (not_not.mpr hz), if_neg (not_not.mpr hy)]
      rw [nearZero_iff, abs_of_nonneg hi1] at hz
      rw [nearZero_iff, abs_of_nonneg he1] at hy
      have hp : 0 < 1 + a := by norm_num at hz hy; linarith
      obtain ⟨hσ, hσ2⟩ := sqrt_two_mul_pos hp
      exact halfturn_exp ⟨1 + a, d, g⟩ _ a hσ hσ2 ht'
          (by ring)
          (by linear_combination -((a + 1) * s1))
          (by linear_combination -((h) * F.h2 + (i + 1) * F.h3 + (-g) * F.h5 + (-g) * F.h9 + (g) * F.k1 + (-a - 1) * F.k3 + (-f) * F.cb + (e - 1) * F.cc + (f + h) * s1 + (-e + i + 2) * s2))
          (by ring)
          (by linear_combination -((i) * F.h1 + (-g) * F.h3 + (i) * F.h5 + (-h) * F.h6 + (-i) * F.k1 + (c) * F.k3 + (e) * F.ca + (-d) * F.cb + (d) * s1 + (1) * ht))
          (by linear_combination -((-h) * F.h1 + (g) * F.h2 + (i) * F.h6 + (-h) * F.h9 + (h) * F.k1 + (-b) * F.k3 + (f) * F.ca + (-d) * F.cc + (-c + g) * s1 + (b) * s2 + (1) * s3))
          (by ring)
          (by linear_combination -((-f) * F.h1 + (d) * F.h3 + (-f) * F.h5 + (e) * F.h6 + (f) * F.k1 + (-c) * F.k2 + (h) * F.ca + (-g) * F.cb + (g) * s1 + (-1) * s3))
          (by linear_combination -((e) * F.h1 + (-d) * F.h2 + (-f) * F.h6 + (e) * F.h9 + (-e) * F.k1 + (b) * F.k2 + (i) * F.ca + (-g) * F.cc + (g) * s2 + (1) * ht))
    · -- pivot y
      rw [if_neg (not_not.mpr hz), if_pos hy]
      have hp : 0 < 1 + e := pos_of_not_nearZero he1 hy
      obtain ⟨hσ, hσ2⟩ := sqrt_two_mul_pos hp
      exact halfturn_exp ⟨b, 1 + e, h⟩ _ e hσ hσ2 ht'
          (by linear_combination -((i) * F.h1 + (-g) * F.h3 + (i) * F.h5 + (-h) * F.h6 + (-i) * F.k1 + (c) * F.k3 + (e) * F.ca + (-d) * F.cb + (-b) * s1 + (1) * ht))
          (by ring)
          (by linear_combination -((1) * F.cc + (-h) * s1 + (e) * s2))
          (by linear_combination -((-e - 1) * s1))
          (by ring)
          (by linear_combination -((e + 1) * s3))
          (by linear_combination -((1) * F.cc + (-h) * s1 + (-1) * s2))
          (by ring)
          (by linear_combination -((-1) * F.h5 + (1) * F.k5 + (-1) * F.ca + (b + d) * s1 + (-f) * s3 + (1) * ht))
  · -- pivot z
    rw [if_pos hz]
    have hp : 0 < 1 + i := pos_of_not_nearZero hi1 hz
    obtain ⟨hσ, hσ2⟩ := sqrt_two_mul_pos hp
    exact halfturn_exp ⟨c, f, 1 + i⟩ _ i hσ hσ2 ht'
          (by linear_combination -((e + 1) * F.h1 + (-d) * F.h2 + (-f) * F.h6 + (e) * F.h9 + (-e - 1) * F.k1 + (b) * F.k2 + (i) * F.ca + (-g) * F.cc + (b + d) * s1 + (g) * s2 + (1) * ht))
          (by linear_combination -((1) * F.cb + (i) * s1 + (-f) * s2))
          (by ring)
          (by linear_combination -((1) * F.cb + (-1) * s1 + (-f) * s2))
          (by linear_combination -((-1) * F.ca + (-f) * s3 + (1) * ht))
          (by ring)
          (by linear_combination -((-i - 1) * s2))
          (by linear_combination -((1) * F.h6 + (-1) * F.k6 + (-g) * s1 + (-b) * s2 + (-e - 1) * s3))
          (by ring)

/-- **exp3 ∘ log3 = id on all of SO(3)** outside the near-zero band: identity, generic and
    half-turn branches (all three pivots).  Inside the band (0 < angle < 1e-6) the code's exp3
    returns the identity and the statement is false by design; see `exp3_log3_band`. -/
theorem exp3_log3 (R : M3 ℝ) (hR : IsRot R)
    (h : 1 ≤ (R.trace - 1) / 2 ∨ (1e-6 : ℝ) ≤ Real.arccos ((R.trace - 1) / 2)) :
    matrixExp3 (matrixLog3 R) = R := by
  by_cases h1 : 1 ≤ (R.trace - 1) / 2
  · exact exp3_log3_identity R hR h1
  · by_cases h2 : (R.trace - 1) / 2 ≤ -1
    · exact exp3_log3_halfturn R hR h2
    · exact exp3_log3_generic R hR (not_le.mp h2) (not_le.mp h1) (h.resolve_left h1)

end BR.Rot
