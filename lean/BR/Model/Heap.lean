/-
  A small heap model for value semantics (C14): an operation is a straight-line program over
  buffers (NumPy arrays).  Operand buffers are addressed by `Ref.arg`, buffers the operation
  itself creates by `Ref.loc`.  What numbers are computed is irrelevant and comes from an oracle.
  Import-free.
-/
namespace BR.Heap

inductive Ref where
  | arg (i : Nat)      -- i-th array reachable from the operands (payload of operand objects)
  | loc (k : Nat)      -- k-th array reference created by the operation
  deriving DecidableEq, Repr

inductive Instr where
  | allocNew                -- a fresh array with computed contents (arithmetic result, np.array(...), np.zeros, ...)
  | allocCopy (src : Ref)   -- np.copy(src) / src.copy()
  | viewOf (src : Ref)      -- a new reference to the same storage (slice, reshape, plain attribute return)
  | write (dst : Ref)       -- in-place write into dst (element assignment, +=, out=...)
  deriving DecidableEq, Repr

structure Prog where
  instrs : List Instr
  /-- array references exposed by the returned object -/
  result : List Ref
  deriving Repr

abbrev Buf := List Nat

structure St where
  heap : List Buf
  locals : List Nat

def resolve (args : Nat → Nat) (s : St) : Ref → Nat
  | .arg i => args i
  | .loc k => s.locals.getD k 0

/-- execute one instruction; `vals` is the oracle's content for arrays created / written here -/
def exec1 (args : Nat → Nat) (s : St) (vals : Buf) : Instr → St
  | .allocNew => { heap := s.heap ++ [vals], locals := s.locals ++ [s.heap.length] }
  | .allocCopy src => { heap := s.heap ++ [s.heap.getD (resolve args s src) []], locals := s.locals ++ [s.heap.length] }
  | .viewOf src => { s with locals := s.locals ++ [resolve args s src] }
  | .write dst => { s with heap := s.heap.set (resolve args s dst) vals }

def exec (args : Nat → Nat) (oracle : Nat → Buf) : St → Nat → List Instr → St
  | s, _, [] => s
  | s, n, i :: is => exec args oracle (exec1 args s (oracle n) i) (n + 1) is

/-! ### the syntactic analysis -/

/-- for every local reference created so far: does it denote storage allocated by the operation? -/
def refFresh (flags : List Bool) : Ref → Bool
  | .arg _ => false
  | .loc k => flags.getD k false

def flagsStep (flags : List Bool) : Instr → List Bool
  | .allocNew => flags ++ [true]
  | .allocCopy _ => flags ++ [true]
  | .viewOf src => flags ++ [refFresh flags src]
  | .write _ => flags

/-- every write goes to storage the operation allocated itself -/
def writesSafe : List Bool → List Instr → Bool
  | _, [] => true
  | flags, i :: is =>
    (match i with
      | .write dst => refFresh flags dst
      | _ => true) && writesSafe (flagsStep flags i) is

def finalFlags : List Bool → List Instr → List Bool
  | flags, [] => flags
  | flags, i :: is => finalFlags (flagsStep flags i) is

/-- the operation never writes into operand storage -/
def noMutation (p : Prog) : Bool := writesSafe [] p.instrs
/-- nothing the result exposes shares storage with an operand -/
def resultFresh (p : Prog) : Bool := p.result.all (refFresh (finalFlags [] p.instrs))

end BR.Heap
