/-
  Model of basic_robotics/general/faser_transform.py (class tm) and of the frame helpers of
  basic_helpers.py / modern_high_performance.py (LocalToGlobal, GlobalToLocal).
  A `tm` holds two representations of one pose: the 4×4 matrix TM and the 6-vector TAA
  (position; rotation vector).  Import-free, generic over the scalar type.
-/
import BR.Model.MR

namespace BR.TmModel
open OrdField Scalar BR.MR

variable {α : Type} [Scalar α]

structure Tm (α : Type) where
  TM : T4 α
  /-- a = position, b = rotation vector -/
  TAA : V6 α

/-- `TAAtoTM` -/
def taaToTM (v : V6 α) : T4 α := ⟨matrixExp3 (hat v.b), v.a⟩
/-- `TMtoTAA` -/
def tmToTAA (T : T4 α) : V6 α := ⟨T.p, vee (matrixLog3 T.R)⟩

/-- every writer of the six-vector ends in `TAAtoTM` -/
def ofTAA (v : V6 α) : Tm α := ⟨taaToTM v, v⟩
/-- every writer of the matrix ends in `TMtoTAA` -/
def ofTM (T : T4 α) : Tm α := ⟨T, tmToTAA T⟩

def v3zero : V3 α := ⟨0, 0, 0⟩

def matmul (a b : Tm α) : Tm α := ofTM (a.TM * b.TM)

/-- roll-pitch-yaw composition used by `from3DOF` / `from6DOF` with `rpy=True`: Rx(r)·Ry(p)·Rz(y) -/
def rpyTm (r : V3 α) : Tm α :=
  matmul (matmul (ofTAA ⟨v3zero, ⟨r.x, 0, 0⟩⟩) (ofTAA ⟨v3zero, ⟨0, r.y, 0⟩⟩)) (ofTAA ⟨v3zero, ⟨0, 0, r.z⟩⟩)

def ctor6 (v : V6 α) (rpy : Bool) : Tm α :=
  if rpy then ofTAA ⟨v.a, (rpyTm v.b).TAA.b⟩ else ofTAA v

def ctor3 (r : V3 α) (rpy : Bool) : Tm α :=
  if rpy then ofTAA (rpyTm r).TAA else ofTAA ⟨v3zero, r⟩

/-- `scipy Rotation.from_quat(q).as_matrix()` for q = (x, y, z, w), normalised first -/
def quatToRot (x y z w : α) : M3 α :=
  let n := sqrt (x * x + y * y + z * z + w * w)
  let x := x / n; let y := y / n; let z := z / n; let w := w / n
  ⟨x * x - y * y - z * z + w * w, 2 * (x * y - z * w), 2 * (x * z + y * w),
   2 * (x * y + z * w), -(x * x) + y * y - z * z + w * w, 2 * (y * z - x * w),
   2 * (x * z - y * w), 2 * (y * z + x * w), -(x * x) - y * y + z * z + w * w⟩

def setQuat (t : Tm α) (x y z w : α) : Tm α := ofTM ⟨quatToRot x y z w, t.TM.p⟩

def ctor7 (p : V3 α) (x y z w : α) : Tm α := setQuat (ofTAA ⟨p, v3zero⟩) x y z w

/-- Python's float `%` with a positive modulus -/
def pymod (x m : α) : α := x - m * floor (x / m)

/-- `tm.angleMod`: components above 2π in magnitude are reduced modulo 2π -/
def angleMod (t : Tm α) : Tm α :=
  let f := fun (x : α) => if 2 * pi < sabs x then pymod x (2 * pi) else x
  let r := t.TAA.b
  if 2 * pi < sabs r.x ∨ 2 * pi < sabs r.y ∨ 2 * pi < sabs r.z then
    ofTAA ⟨t.TAA.a, ⟨f r.x, f r.y, f r.z⟩⟩
  else t

def v6get (v : V6 α) : Nat → α
  | 0 => v.a.x | 1 => v.a.y | 2 => v.a.z | 3 => v.b.x | 4 => v.b.y | _ => v.b.z

def v6set (v : V6 α) (k : Nat) (x : α) : V6 α :=
  match k with
  | 0 => ⟨⟨x, v.a.y, v.a.z⟩, v.b⟩ | 1 => ⟨⟨v.a.x, x, v.a.z⟩, v.b⟩ | 2 => ⟨⟨v.a.x, v.a.y, x⟩, v.b⟩
  | 3 => ⟨v.a, ⟨x, v.b.y, v.b.z⟩⟩ | 4 => ⟨v.a, ⟨v.b.x, x, v.b.z⟩⟩ | _ => ⟨v.a, ⟨v.b.x, v.b.y, x⟩⟩

def v6map (f : α → α) (v : V6 α) : V6 α := ⟨⟨f v.a.x, f v.a.y, f v.a.z⟩, ⟨f v.b.x, f v.b.y, f v.b.z⟩⟩

/-- `mr.LocalToGlobal` on six-vectors -/
def localToGlobalTAA (ref rel : V6 α) : V6 α :=
  let Rr := matrixExp3 (hat ref.b)
  ⟨ref.a + Rr.mulVec rel.a, vee (matrixLog3 (Rr * matrixExp3 (hat rel.b)))⟩

/-- `mr.GlobalToLocal` on six-vectors -/
def globalToLocalTAA (ref rel : V6 α) : V6 α :=
  let Rr := matrixExp3 (hat ref.b)
  ⟨Rr.T.mulVec (rel.a - ref.a), vee (matrixLog3 (Rr.T * matrixExp3 (hat rel.b)))⟩

/-- operations of the property's alphabet; indices address a store of objects -/
inductive Op (α : Type) where
  | ctor6 (v : V6 α) (rpy : Bool)
  | ctor3 (r : V3 α) (rpy : Bool)
  | ctor7 (p : V3 α) (x y z w : α)
  | ctorTM (T : T4 α)
  | ctorPair (p r : V3 α) (rpy : Bool)   -- tm([position, rotation])
  | ctorCopy (i : Nat)
  | ctorCopyArr (i : Nat)               -- tm(np.array([t])): copies the matrix, re-derives the six-vector
  | sTM (i : Nat) (T : T4 α)
  | sTAA (i : Nat) (v : V6 α)
  | set (i : Nat) (k : Nat) (x : α)
  | setPos (i : Nat) (v : V3 α)          -- t[0:3] = v
  | setRot (i : Nat) (v : V3 α)          -- t[3:6] = v
  | setQuat (i : Nat) (x y z w : α)
  | angleMod (i : Nat)
  | copy (i : Nat)
  | inv (i : Nat)
  | matmul (i j : Nat)
  | add (i j : Nat)
  | sub (i j : Nat)
  | mulS (i : Nat) (k : α)
  | divS (i : Nat) (k : α)
  | abs (i : Nat)
  | floordivS (i : Nat) (k : α)
  | floordiv (i j : Nat)
  | l2g (i j : Nat)
  | g2l (i j : Nat)

def ident : Tm α := ofTM T4.one

def getD (s : List (Tm α)) (i : Nat) : Tm α := s.getD i ident

/-- the object produced or rewritten by an operation -/
def result (s : List (Tm α)) : Op α → Tm α
  | .ctor6 v rpy => ctor6 v rpy
  | .ctor3 r rpy => ctor3 r rpy
  | .ctor7 p x y z w => ctor7 p x y z w
  | .ctorTM T => ofTM T
  | .ctorPair p r rpy => ctor6 ⟨p, r⟩ rpy
  | .ctorCopy i => getD s i
  | .ctorCopyArr i => ofTM (getD s i).TM
  | .sTM _ T => ofTM T
  | .sTAA _ v => ofTAA v
  | .set i k x => ofTAA (v6set (getD s i).TAA k x)
  | .setPos i v => ofTAA ⟨v, (getD s i).TAA.b⟩
  | .setRot i v => ofTAA ⟨(getD s i).TAA.a, v⟩
  | .setQuat i x y z w => setQuat (getD s i) x y z w
  | .angleMod i => angleMod (getD s i)
  | .copy i => getD s i
  | .inv i => ofTM (transInv (getD s i).TM)
  | .matmul i j => matmul (getD s i) (getD s j)
  | .add i j => ofTAA ((getD s i).TAA + (getD s j).TAA)
  | .sub i j => ofTAA ((getD s i).TAA - (getD s j).TAA)
  | .mulS i k => ofTAA (V6.smul k (getD s i).TAA)
  | .divS i k => ofTAA (V6.sdiv (getD s i).TAA k)
  | .abs i => ofTAA (v6map sabs (getD s i).TAA)
  | .floordivS i k => ofTAA (v6map (fun x => floor (x / k)) (getD s i).TAA)
  | .floordiv i j => ofTM ((getD s i).TM * transInv (getD s j).TM)
  | .l2g i j => ofTAA (localToGlobalTAA (getD s i).TAA (getD s j).TAA)
  | .g2l i j => ofTAA (globalToLocalTAA (getD s i).TAA (getD s j).TAA)

/-- in-place operations rewrite object i; all others append a fresh object -/
def target : Op α → Option Nat
  | .sTM i _ | .sTAA i _ | .set i _ _ | .setPos i _ | .setRot i _ | .setQuat i _ _ _ _ | .angleMod i => some i
  | _ => none

def step (s : List (Tm α)) (op : Op α) : List (Tm α) :=
  match target op with
  | some i => if i < s.length then s.set i (result s op) else s
  | none => s ++ [result s op]

def run (s : List (Tm α)) (ops : List (Op α)) : List (Tm α) := ops.foldl step s

end BR.TmModel
