/-
  Model of the second pass of loadArmFromURDF (basic_robotics/kinematics/arm_model.py): the walk
  along the chain that accumulates joint poses, folds fixed joints in, rotates joint axes into the
  space frame and builds the screws  (ω, q × ω)  and the home pose.
  The document is abstract: joints in chain order, each with its origin transform (xyz translation,
  fixed-axis roll-pitch-yaw = Rz·Ry·Rx, defaults applied) and, for moving joints, its axis.
-/
import BR.Model.MR

namespace BR.UrdfModel
open OrdField Scalar BR.MR

variable {α : Type} [Scalar α]

structure Joint (α : Type) where
  moving : Bool
  origin : T4 α
  axis : V3 α

/-- the joint origin as the loader composes it: tm(xyz) @ Rz(yaw) @ Ry(pitch) @ Rx(roll) -/
def originOf (xyz rpy : V3 α) : T4 α :=
  ⟨matrixExp3 (hat ⟨0, 0, rpy.z⟩) * matrixExp3 (hat ⟨0, rpy.y, 0⟩) * matrixExp3 (hat ⟨rpy.x, 0, 0⟩), xyz⟩

/-- screws built by the walk starting from accumulated pose P -/
def screwsOf (P : T4 α) : List (Joint α) → List (V6 α)
  | [] => []
  | j :: rest =>
    let Q := P * j.origin
    if j.moving then
      let w := Q.R.mulVec j.axis
      ⟨w, V3.cross Q.p w⟩ :: screwsOf Q rest
    else screwsOf Q rest

/-- the home pose: all origins multiplied up -/
def homeOf (P : T4 α) : List (Joint α) → T4 α
  | [] => P
  | j :: rest => homeOf (P * j.origin) rest

/-- the file's own semantics: successive origin transforms, each moving one followed by a rotation
    about the joint's axis by the joint value -/
def chainFK (P : T4 α) : List (Joint α) → List α → T4 α
  | [], _ => P
  | j :: rest, θs =>
    if j.moving then
      match θs with
      | θ :: θs' => chainFK (P * j.origin * ⟨matrixExp3 (hat (V3.smul θ j.axis)), ⟨0, 0, 0⟩⟩) rest θs'
      | [] => chainFK (P * j.origin) rest []
    else chainFK (P * j.origin) rest θs

def numDof (js : List (Joint α)) : Nat := (js.filter (·.moving)).length

end BR.UrdfModel
