/-
  Model of basic_robotics/general/faser_screw.py (Screw) and faser_wrench.py (Wrench):
  a six-vector with the frame it is expressed in; frame changes and arithmetic.
  `data.a` = first three entries (angular part / moment), `data.b` = last three (linear part / force).
-/
import BR.Model.Tm

namespace BR.ScrewModel
open OrdField Scalar BR.MR BR.TmModel

variable {α : Type} [Scalar α]

structure Scr (α : Type) where
  data : V6 α
  frame : Tm α

/-- `tm.__eq__`: np.allclose(TAA, TAA', rtol=0, atol=1e-8) -/
def tmEq (a b : Tm α) : Prop :=
  sabs (a.TAA.a.x - b.TAA.a.x) ≤ (1e-8 : α) ∧ sabs (a.TAA.a.y - b.TAA.a.y) ≤ (1e-8 : α) ∧
  sabs (a.TAA.a.z - b.TAA.a.z) ≤ (1e-8 : α) ∧ sabs (a.TAA.b.x - b.TAA.b.x) ≤ (1e-8 : α) ∧
  sabs (a.TAA.b.y - b.TAA.b.y) ≤ (1e-8 : α) ∧ sabs (a.TAA.b.z - b.TAA.b.z) ≤ (1e-8 : α)

instance (a b : Tm α) : Decidable (tmEq a b) := by unfold tmEq; infer_instance

/-- `globalToLocal(ref, x)` as a transform object, then its matrix -/
def relTM (ref x : Tm α) : T4 α := (ofTAA (globalToLocalTAA ref.TAA x.TAA)).TM

/-- `Screw.changeFrame(new)` -/
def screwChange (s : Scr α) (new : Tm α) : Scr α :=
  if tmEq s.frame new then s
  else ⟨(adjoint (relTM new s.frame)).mulVec s.data, new⟩

/-- `Wrench.changeFrame(new)` -/
def wrenchChange (s : Scr α) (new : Tm α) : Scr α :=
  if tmEq s.frame new then s
  else ⟨(adjoint (relTM s.frame new)).T.mulVec s.data, new⟩

def change (isWrench : Bool) (s : Scr α) (new : Tm α) : Scr α :=
  if isWrench then wrenchChange s new else screwChange s new

/-- `a + b` for two objects (frames reconciled to the left operand's) -/
def addObj (isWrench : Bool) (a b : Scr α) : Scr α :=
  if tmEq b.frame a.frame then ⟨a.data + b.data, a.frame⟩
  else ⟨a.data + (change isWrench b a.frame).data, a.frame⟩

def subObj (isWrench : Bool) (a b : Scr α) : Scr α :=
  if tmEq b.frame a.frame then ⟨a.data - b.data, a.frame⟩
  else ⟨a.data - (change isWrench b a.frame).data, a.frame⟩

/-- operand given as a 6-array or 6×1 array -/
def addArr (a : Scr α) (v : V6 α) : Scr α := ⟨a.data + v, a.frame⟩
def subArr (a : Scr α) (v : V6 α) : Scr α := ⟨a.data - v, a.frame⟩
def rsubArr (a : Scr α) (v : V6 α) : Scr α := ⟨v - a.data, a.frame⟩

def v6const (s : α) : V6 α := ⟨⟨s, s, s⟩, ⟨s, s, s⟩⟩
/-- scalar operands fall through to NumPy broadcasting on the data column -/
def addScalar (a : Scr α) (s : α) : V6 α := a.data + v6const s
def subScalar (a : Scr α) (s : α) : V6 α := a.data - v6const s
def rsubScalar (a : Scr α) (s : α) : V6 α := v6const s - a.data
def mulScalar (a : Scr α) (k : α) : Scr α := ⟨V6.smul k a.data, a.frame⟩
def divScalar (a : Scr α) (k : α) : Scr α := ⟨V6.sdiv a.data k, a.frame⟩

/-- `Wrench(force, position_applied, frame)`: moment about the frame origin is p × f -/
def wrenchAt (f p : V3 α) (frame : Tm α) : Scr α := ⟨⟨V3.cross p f, f⟩, frame⟩

end BR.ScrewModel
