/-
  Reference Modern Robotics (modern_robotics 1.1.1, vendored under /verif/vendor) where its text
  differs from the Numba port, and the Newton iteration shared by IKinSpace / IKinBody.
-/
import BR.Model.MR

namespace BR.MRRef
open OrdField Scalar BR.MR

variable {α : Type} [Scalar α]

/-- reference `MatrixLog3`: no clipping of the arccos argument -/
def matrixLog3 (R : M3 α) : M3 α :=
  let acosinput := (M3.trace R - 1) / 2
  if 1 ≤ acosinput then M3.zero
  else if acosinput ≤ -1 then
    let omg : V3 α :=
      if ¬ nearZero (1 + R.a33) then
        V3.smul (1 / sqrt (2 * (1 + R.a33))) ⟨R.a13, R.a23, 1 + R.a33⟩
      else if ¬ nearZero (1 + R.a22) then
        V3.smul (1 / sqrt (2 * (1 + R.a22))) ⟨R.a12, 1 + R.a22, R.a32⟩
      else
        V3.smul (1 / sqrt (2 * (1 + R.a11))) ⟨1 + R.a11, R.a21, R.a31⟩
    hat (V3.smul pi omg)
  else
    let θ := acos acosinput
    M3.smul (θ / 2 / sin θ) (R - R.T)

/-- reference `MatrixLog6` -/
def matrixLog6 (eq0 : M3 α → Bool) (T : T4 α) : T4 α :=
  let omgmat := matrixLog3 T.R
  if eq0 omgmat then ⟨M3.zero, T.p⟩
  else
    let θ := acos ((M3.trace T.R - 1) / 2)
    let lterm := M3.one - M3.sdiv omgmat 2 +
      M3.sdiv (M3.smul (1 / θ - 1 / tan (θ / 2) / 2) (omgmat * omgmat)) θ
    ⟨omgmat, lterm.mulVec T.p⟩

/-- the Newton loop of IKinSpace / IKinBody / IKinSpaceConstrained: `err` is the tolerance test on the
    error twist of a joint vector, `upd` one pseudo-inverse update (an arbitrary function here),
    `fuel` the iteration cap.  Returns the joint vector and `not err`. -/
def ikLoop {Θ : Type} (err : Θ → Bool) (upd : Θ → Θ) : Nat → Θ → Θ × Bool
  | 0, θ => (θ, !err θ)
  | fuel + 1, θ => if err θ then ikLoop err upd fuel (upd θ) else (θ, true)

/-- the tolerance test: `Norm(ω-part) > eomg or Norm(v-part) > ev` -/
def ikErr (eomg ev : α) (V : V6 α) : Bool := decide (eomg < norm3 V.a) || decide (ev < norm3 V.b)

end BR.MRRef
