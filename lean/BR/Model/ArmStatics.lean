/-
  Model of the wrench bookkeeping of `Arm.staticForcesWithLinkMasses` (basic_robotics/kinematics/arm_model.py): from the last joint to
  the first, the weight wrench of link i is added to a carried wrench and torque i is (Jacobian column i) · (carried wrench).
  Import-free apart from the MR model; generic over the scalar type.
-/
import BR.Model.MR

namespace BR.ArmStatics
open OrdField Scalar BR.MR

variable {α : Type} [Scalar α]

/-- the loop of `staticForcesWithLinkMasses`, as a recursion from the first joint: returns the torques of joints i.. and the wrench
    carried when the loop reaches joint i (tool wrench + the weights of links i..) -/
def linkMassAux (W : V6 α) : List (V6 α) → List (V6 α) → List α × V6 α
  | J :: Js, w :: ws =>
    let r := linkMassAux W Js ws
    let carry := r.2 + w
    (V6.dot J carry :: r.1, carry)
  | _, _ => ([], W)

def linkMassTorques (W : V6 α) (Js ws : List (V6 α)) : List α := (linkMassAux W Js ws).1

end BR.ArmStatics
