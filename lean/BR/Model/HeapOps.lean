/-
  Transcription of the operations in the scope of C14 into heap programs (BR/Model/Heap.lean):
  which source lines allocate (`.copy()`, arithmetic, np.array/zeros/eye), which hand back a
  reference (`return self.X`, slices, reshape), which write in place.
  Operand arrays:  arg 0 = first operand's matrix / data,  arg 1 = first operand's six-vector,
                   arg 2 = second operand's matrix / data / ndarray,  arg 3 = second operand's six-vector.
  The harness compares, for every entry, the predicted (mutates?, result shares storage?) with what
  it observes on the real objects.
-/
import BR.Model.Heap

namespace BR.HeapOps
open BR.Heap Instr Ref

/-- tm(4×4): transformSqueezedCopy builds a fresh eye and fills it; TMtoTAA builds a fresh six-vector -/
def ctorMatrixFrom (src : List Instr) (k : Nat) : Prog :=
  { instrs := src ++ [allocNew, write (loc k), allocNew], result := [loc k, loc (k + 1)] }

/-- tm(6-vector expression): from6DOF builds a fresh array, TAAtoTM reshapes it (view) and stacks a fresh matrix -/
def ctorTAAFrom (src : List Instr) (k : Nat) : Prog :=
  { instrs := src ++ [allocNew, viewOf (loc k), allocNew], result := [loc (k + 1), loc (k + 2)] }

def scope : List (String × Prog) := [
  -- transforms: accessors
  ("tm.gTM", { instrs := [allocCopy (arg 0)], result := [loc 0] }),
  ("tm.gTAA", { instrs := [allocCopy (arg 1)], result := [loc 0] }),
  ("tm.gPos", { instrs := [allocCopy (arg 1)], result := [loc 0] }),
  ("tm.gRot", { instrs := [allocCopy (arg 0)], result := [loc 0] }),
  ("tm.getQuat", { instrs := [allocNew], result := [loc 0] }),
  ("tm.adjoint", { instrs := [allocNew], result := [loc 0] }),
  -- transforms: copies and constructors
  ("tm.copy", { instrs := [allocNew, write (loc 0), allocNew, allocCopy (arg 0), allocCopy (arg 1)], result := [loc 2, loc 3] }),
  ("tm.ctor_tm", { instrs := [allocCopy (arg 0), allocCopy (arg 1)], result := [loc 0, loc 1] }),
  ("tm.ctor_array_of_tm", { instrs := [allocCopy (arg 0), allocNew], result := [loc 0, loc 1] }),
  ("tm.ctor_matrix", ctorMatrixFrom [] 0),
  ("tm.ctor_array6", ctorTAAFrom [] 0),
  ("tm.default", ctorMatrixFrom [] 0),
  -- transforms: operators
  ("tm.inv", ctorMatrixFrom [allocNew] 1),
  ("tm.matmul", ctorMatrixFrom [allocNew] 1),
  ("tm.add", ctorTAAFrom [allocNew, allocNew] 2),
  ("tm.sub", ctorTAAFrom [allocNew, allocNew] 2),
  ("tm.mulS", ctorTAAFrom [allocNew, allocNew] 2),
  ("tm.divS", ctorTAAFrom [allocNew, allocNew] 2),
  ("tm.abs", ctorTAAFrom [allocNew, allocNew] 2),
  ("tm.floordivS", ctorTAAFrom [allocNew, allocNew] 2),
  ("tm.floordiv", ctorMatrixFrom [allocCopy (arg 2), allocCopy (arg 0), allocNew] 3),
  -- helpers (only "never modify their operands" applies; nothing is claimed about what they return)
  ("fsr.localToGlobal", { instrs := [allocCopy (arg 1), allocCopy (arg 3), allocNew, allocNew, allocNew, viewOf (loc 4), allocNew], result := [] }),
  ("fsr.globalToLocal", { instrs := [allocCopy (arg 1), allocCopy (arg 3), allocNew, allocNew, allocNew, viewOf (loc 4), allocNew], result := [] }),
  ("fsr.distance", { instrs := [], result := [] }),
  ("fsr.arcDistance", { instrs := [allocCopy (arg 1), allocCopy (arg 3), allocNew], result := [] }),
  ("fsr.tmInterpMidpoint", { instrs := [allocNew, viewOf (arg 1), viewOf (arg 3), write (loc 0), allocNew, allocNew], result := [] }),
  ("fsr.tmAvgMidpoint", { instrs := [allocNew, allocNew, allocNew], result := [] }),
  ("fsr.closeLinearGap", { instrs := [allocNew, allocNew, write (loc 1), allocNew, viewOf (loc 2), allocNew], result := [] }),
  ("fsr.closeArcGap", { instrs := [allocNew, allocNew, write (loc 1), allocNew, allocNew], result := [] }),
  ("fsr.IKPath", { instrs := [allocCopy (arg 3), allocCopy (arg 1), allocNew, allocNew], result := [] }),
  ("fsr.adjustRotationToMidpoint", { instrs := [allocCopy (arg 0), allocCopy (arg 1), allocNew, write (loc 1), allocNew], result := [] }),
  ("fsr.lookAt", { instrs := [viewOf (arg 1), allocCopy (loc 0), allocNew, allocNew], result := [] }),
  ("fsr.mirror", { instrs := [allocNew, allocNew], result := [] }),
  ("fsr.poseError", { instrs := [allocNew, allocNew], result := [] }),
  ("fsr.geometricError", { instrs := [allocCopy (arg 1), allocCopy (arg 3), allocNew, allocNew], result := [] }),
  ("fsr.twistToGoal", { instrs := [allocNew, allocNew, allocNew], result := [] }),
  -- screws and wrenches (frame / position metadata objects are outside the property)
  ("screw.getData", { instrs := [allocCopy (arg 0)], result := [loc 0] }),
  ("screw.flatten", { instrs := [allocCopy (arg 0), allocCopy (loc 0)], result := [loc 1] }),
  ("screw.copy", { instrs := [allocCopy (arg 0)], result := [loc 0] }),
  ("screw.default", { instrs := [allocNew], result := [loc 0] }),
  ("screw.add_obj", { instrs := [allocCopy (arg 2), allocNew, allocNew], result := [loc 2] }),
  ("screw.sub_obj", { instrs := [allocCopy (arg 2), allocNew, allocNew], result := [loc 2] }),
  ("screw.add_arr", { instrs := [viewOf (arg 2), allocNew], result := [loc 1] }),
  ("screw.sub_arr", { instrs := [viewOf (arg 2), allocNew], result := [loc 1] }),
  ("screw.rsub_arr", { instrs := [viewOf (arg 2), allocNew], result := [loc 1] }),
  ("screw.add_scalar", { instrs := [allocNew], result := [loc 0] }),
  ("screw.sub_scalar", { instrs := [allocNew], result := [loc 0] }),
  ("screw.mulS", { instrs := [allocNew], result := [loc 0] }),
  ("screw.rmulS", { instrs := [allocNew], result := [loc 0] }),
  ("screw.divS", { instrs := [allocNew], result := [loc 0] }),
  ("screw.abs", { instrs := [allocCopy (arg 0), allocNew], result := [loc 1] }),
  ("screw.cross", { instrs := [allocCopy (arg 2), allocNew, allocNew, allocNew], result := [loc 3] }),
  ("screw.dot", { instrs := [allocCopy (arg 2), allocNew], result := [loc 1] }),
  ("wrench.getMoment", { instrs := [viewOf (arg 0), allocCopy (loc 0)], result := [loc 1] }),
  ("wrench.getForce", { instrs := [viewOf (arg 0), allocCopy (loc 0)], result := [loc 1] }),
  ("wrench.copy", { instrs := [allocCopy (arg 0)], result := [loc 0] }),
  ("wrench.default", { instrs := [allocNew], result := [loc 0] }),
  ("wrench.ctor_force_at_point", { instrs := [viewOf (arg 3), allocNew, allocNew, viewOf (loc 2)], result := [loc 3] }),
  ("wrench.add_obj", { instrs := [allocCopy (arg 2), allocNew, allocNew], result := [loc 2] }),
  ("wrench.sub_obj", { instrs := [allocCopy (arg 2), allocNew, allocNew], result := [loc 2] }),
  ("wrench.mulS", { instrs := [allocNew], result := [loc 0] }),
  ("wrench.divS", { instrs := [allocNew], result := [loc 0] }),
  ("wrench.abs", { instrs := [allocCopy (arg 0), allocNew], result := [loc 1] }),
  -- the ported Modern Robotics functions (AngleMod is documented in-place and excluded): arguments are only read
  ("mr.function", { instrs := [allocNew], result := [loc 0] }),
  -- robot constructors keep or copy the arrays they are given, never write into them
  ("arm.ctor", { instrs := [allocCopy (arg 0), allocCopy (arg 1), allocNew, write (loc 0), write (loc 2)], result := [] }),
  ("sp.ctor", { instrs := [allocCopy (arg 0), allocCopy (arg 1), allocNew, write (loc 2)], result := [] })
]

def predict (name : String) : Option (Bool × Bool) :=
  (scope.find? (·.1 == name)).map fun e => (noMutation e.2, resultFresh e.2)

end BR.HeapOps
