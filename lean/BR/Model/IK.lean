/-
  Model of the arm IK entry points: basic_robotics/general/faser_high_performance.py
  (IKinSpaceConstrained) and the write-back / restart policy of Arm.IK / Arm.constrainedIK.
  The pseudo-inverse and the random restart vectors are oracles.
-/
import BR.Model.MRRef
import BR.Model.Arm

namespace BR.IKModel
open OrdField Scalar BR.MR BR.MRRef BR.ArmModel

variable {α : Type} [Scalar α]

/-- space-frame error twist of a joint vector: Ad(T_sb) · vee(log(T_sb⁻¹ T_goal)) -/
def errTwist (eq0 : M3 α → Bool) (home : T4 α) (screws : List (V6 α)) (goal : T4 α) (θ : List α) : V6 α :=
  let Tsb := fkinSpace home (screws.zip θ)
  (adjoint Tsb).mulVec (vee6 (MR.matrixLog6 eq0 (transInv Tsb * goal)))

/-- tolerance test of the solvers as the arm calls them: angular part against the orientation
    tolerance, linear part against the position tolerance -/
def ikTest (eq0 : M3 α → Bool) (home : T4 α) (screws : List (V6 α)) (goal : T4 α) (rotTol posTol : α) (θ : List α) : Bool :=
  ikErr rotTol posTol (errTwist eq0 home screws goal θ)

/-- one iteration of IKinSpaceConstrained: Newton update (pseudo-inverse oracle `dθ`) then clamp to the limits -/
def constrainedUpd (mins maxs : List α) (dθ : List α → List α) (θ : List α) : List α :=
  clamp mins maxs ((θ.zip (dθ θ)).map fun p => p.1 + p.2)

/-- IKinSpaceConstrained -/
def ikinSpaceConstrained (eq0 : M3 α → Bool) (home : T4 α) (screws : List (V6 α)) (goal : T4 α)
    (rotTol posTol : α) (mins maxs : List α) (dθ : List α → List α) (maxIter : Nat) (θ0 : List α) : List α × Bool :=
  ikLoop (ikTest eq0 home screws goal rotTol posTol) (constrainedUpd mins maxs dθ) maxIter θ0

end BR.IKModel
