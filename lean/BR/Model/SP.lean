/-
  Model of the Stewart platform of basic_robotics/kinematics/sp_model.py together with the two kernels it
  calls in basic_robotics/general/faser_high_performance.py (SPIKinSpace, SPFKinSpaceR).

  * geometry: `spIK` (leg lengths and joint positions), the inverse-Jacobian rows, the leg wrench sum;
  * `raphson`: the Newton–Raphson FK loop of SPFKinSpaceR, parametric in the linear solver
    (`gaussSolve` is the instance the driver runs; numpy calls LAPACK there);
  * the state machine: `St`, the IK helper that rewrites all derived state, `validate` with its corrective
    actions and re-validation, FK (both solvers, reversed), move, spinCustom, inverseJacobian, randomPos.
    Outputs of the numeric solvers (SPFKinSpaceR, scipy fsolve) are *oracle* inputs of the state machine:
    what the platform does with them is modelled, how they are found is `raphson` / not modelled (fsolve).
  The upside-down repair (`_fixUpsideDown`, a second fsolve on mirrored joints) is not modelled: a history
  that reaches it sets `repaired` and the model makes no claim afterwards.
-/
import BR.Model.Tm

namespace BR.SP
open OrdField Scalar BR.MR BR.TmModel

variable {α : Type} [Scalar α]

/-- one leg: bottom joint in the bottom-plate frame, top joint in the top-plate frame -/
structure Leg (α : Type) where
  b : V3 α
  t : V3 α

/-! ### geometry kernels -/

/-- `TrVec`: apply a homogeneous transform to a point -/
def trVec (T : T4 α) (v : V3 α) : V3 α := T.act v

/-- `SPIKinSpace`: per leg (length, bottom joint in space, top joint in space) -/
def spIK (Tb Tt : T4 α) (legs : List (Leg α)) : List (α × V3 α × V3 α) :=
  legs.map fun l =>
    let bs := trVec Tb l.b
    let ts := trVec Tt l.t
    (norm3 (ts - bs), bs, ts)

def lengths (Tb Tt : T4 α) (legs : List (Leg α)) : List α := (spIK Tb Tt legs).map (·.1)

/-- one row of `SP.inverseJacobian` from the joint positions in space: [q × n, n], q the bottom joint, n the unit leg -/
def invJacRow (bs ts : V3 α) : V6 α :=
  let n := normalize (ts - bs)
  ⟨V3.cross bs n, n⟩

def invJac (bs ts : List (V3 α)) : List (V6 α) := List.zipWith invJacRow bs ts

/-- `Wrench(force, position)`: [p × f, f] -/
def wrenchAt (p f : V3 α) : V6 α := ⟨V3.cross p f, f⟩

def v6zero : V6 α := ⟨⟨0, 0, 0⟩, ⟨0, 0, 0⟩⟩

/-- `SP.sumActuatorWrenches`: force `τ_i` along (bottom − top) applied at the top joint, summed -/
def sumActuatorWrenches : List (V3 α) → List (V3 α) → List α → V6 α
  | b :: bs, t :: ts, f :: fs => wrenchAt t (V3.smul f (normalize (b - t))) + sumActuatorWrenches bs ts fs
  | _, _, _ => v6zero

/-- `invJacᵀ τ`: the wrench the legs exert on the top plate -/
def applyRowsT : List (V6 α) → List α → V6 α
  | r :: rs, f :: fs => V6.smul f r + applyRowsT rs fs
  | _, _ => v6zero

/-! ### SPFKinSpaceR -/

def sq3 (v : V3 α) : α := v.x * v.x + v.y * v.y + v.z * v.z

/-- residual of one leg at the guess (p, R): `-(‖p − b + R t‖² − L²)` -/
def fkRes (p : V3 α) (R : M3 α) (l : Leg α) (L : α) : α :=
  -1 * (sq3 ((p - l.b) + R.mulVec l.t) - L * L)

/-- one row of `dfda` -/
def dfdaRow (g : V6 α) (R : M3 α) (l : Leg α) : List α :=
  let xbar := g.a - l.b
  let uvw := R.mulVec l.t
  let s := xbar + uvw
  let c3 := cos g.b.x; let s3 := sin g.b.x
  let c4 := cos g.b.y; let s4 := sin g.b.y
  let c5 := cos g.b.z; let s5 := sin g.b.z
  let d5 := 2 * (-xbar.x * uvw.y + xbar.y * uvw.x)
  let d4 := 2 * ((-xbar.x * c5 + xbar.y * s5) * uvw.z - (l.t.x * c4 + l.t.y * s4 * s3) * xbar.z)
  let d3 := 2 * l.t.y * (xbar.x * R.a13 + xbar.y * R.a23 + xbar.z * R.a33)
  let _ := c3
  [2 * s.x, 2 * s.y, 2 * s.z, d3, d4, d5]

def sumAbs : List α → α
  | [] => 0
  | x :: xs => sabs x + sumAbs xs

def sumList : List α → α
  | [] => 0
  | x :: xs => x + sumList xs

def v6ofList : List α → V6 α
  | [a, b, c, d, e, f] => ⟨⟨a, b, c⟩, ⟨d, e, f⟩⟩
  | _ => v6zero

inductive Exit where
  | residual   -- Σ|f| < tol_f
  | smallStep  -- Σ|δ| < tol_a
  | budget     -- iteration budget used up
  deriving Repr, DecidableEq

/-- the height clamp applied at the start of every iteration -/
def clampZ (lmin : α) (g : V6 α) : V6 α :=
  if g.a.z < lmin / 2 then ⟨⟨g.a.x, g.a.y, lmin / 2⟩, g.b⟩ else g

/-- the six residuals at the guess g = (position; rotation vector) -/
def residuals (legs : List (Leg α)) (L : List α) (g : V6 α) : List α :=
  List.zipWith (fkRes g.a (matrixExp3 (hat g.b))) legs L

/-- the loop of `SPFKinSpaceR`; `fuel` is `max_iterations`, `it` the iterations already done -/
def raphson (solve : List (List α) → List α → List α) (legs : List (Leg α)) (L : List α)
    (tolF tolA lmin : α) : Nat → Nat → V6 α → V6 α × Nat × Exit
  | 0, it, g => (g, it, Exit.budget)
  | fuel + 1, it, g0 =>
    if sumAbs (residuals legs L (clampZ lmin g0)) < tolF then (clampZ lmin g0, it + 1, Exit.residual)
    else if sumAbs (solve (legs.map (dfdaRow (clampZ lmin g0) (matrixExp3 (hat (clampZ lmin g0).b))))
                          (residuals legs L (clampZ lmin g0))) < tolA then
      (clampZ lmin g0, it + 1, Exit.smallStep)
    else
      raphson solve legs L tolF tolA lmin fuel (it + 1)
        (clampZ lmin g0 + v6ofList (solve (legs.map (dfdaRow (clampZ lmin g0) (matrixExp3 (hat (clampZ lmin g0).b))))
                                          (residuals legs L (clampZ lmin g0))))

/-! Gaussian elimination with partial pivoting on an augmented matrix given as rows (what `np.linalg.solve` does
    up to the order of floating-point operations) -/

def absMaxRow (col : Nat) : List (List α) → Option (List α × List (List α))
  | [] => none
  | r :: rs =>
    match absMaxRow col rs with
    | none => some (r, [])
    | some (m, rest) =>
      if sabs (r.getD col 0) < sabs (m.getD col 0) then some (m, r :: rest) else some (r, m :: rest)

def elimRow (col : Nat) (piv row : List α) : List α :=
  let k := row.getD col 0 / piv.getD col 0
  List.zipWith (fun a p => a - k * p) row piv

/-- forward elimination; returns the rows in pivot order -/
def forwardElim : Nat → Nat → List (List α) → List (List α)
  | 0, _, rows => rows
  | n + 1, col, rows =>
    match absMaxRow col rows with
    | none => []
    | some (piv, rest) => piv :: forwardElim n (col + 1) (rest.map (elimRow col piv))

/-- back substitution on upper-triangular augmented rows (row i has its pivot in column i, rhs in column n) -/
def backSubst (n : Nat) : Nat → List (List α) → List α
  | _, [] => []
  | i, r :: rs =>
    let xs := backSubst n (i + 1) rs
    let s := (List.zipWith (fun a x => a * x) (r.drop (i + 1)) xs).foldl (· + ·) 0
    ((r.getD n 0 - s) / r.getD i 0) :: xs

def gaussSolve (A : List (List α)) (b : List α) : List α :=
  let n := b.length
  let aug := List.zipWith (fun r x => r ++ [x]) A b
  backSubst n 0 (forwardElim n 0 aug)

/-! ### the platform as a state machine -/

structure Par (α : Type) where
  lmin : α
  lmax : α
  safety : α
  nominalH : α
  rotLimit : α
  deflMax : α

structure St (α : Type) where
  legs : List (Leg α)
  homeB : List (V3 α)     -- home position of each top joint in the bottom frame
  homeT : List (V3 α)     -- home position of each bottom joint in the top frame
  Tb : T4 α
  Tt : T4 α
  bs : List (V3 α)
  ts : List (V3 α)
  lens : List α
  rel : T4 α
  set0 : Bool
  set1 : Bool
  set2 : Bool
  set3 : Bool
  fkMode : Nat
  repaired : Bool

/-- what a numeric solver returned -/
inductive Sol (α : Type) where
  | raph (a : V6 α) (hitMax : Bool)   -- SPFKinSpaceR: final guess, and whether the iteration budget ran out
  | fsolve (x : V6 α)                -- scipy.optimize.fsolve: the root it reports
  | raised                           -- SPFKinSpaceR raised (singular Newton matrix)
  | fix (T : T4 α)                   -- the top plate pose `_fixUpsideDown` arrives at (mirror + fsolve, not modelled)

def nominal (p : Par α) : T4 α := ⟨M3.one, ⟨0, 0, p.nominalH⟩⟩

/-- `_IKHelper`: rewrites lengths, joint positions and the relative transform from the two poses -/
def ikHelper (s : St α) (Tt Tb : T4 α) : St α :=
  let r := spIK Tb Tt s.legs
  { s with lens := r.map (·.1), bs := r.map (·.2.1), ts := r.map (·.2.2), rel := transInv Tb * Tt }

/-- `_setPlatePos` -/
def setPlate (s : St α) (Tb Tt : T4 α) : St α := { s with Tb := Tb, Tt := Tt }

/-- `IK(top, bottom, protect=True)` -/
def ikP (s : St α) (Tt Tb : T4 α) : St α := setPlate (ikHelper s Tt Tb) Tb Tt

/-! constraints -/

def legC (p : Par α) (s : St α) : Bool :=
  !(s.lens.any (fun l => decide (l < p.lmin)) || s.lens.any (fun l => decide (p.lmax < l)))

def contC (s : St α) : Bool := !decide ((transInv s.Tb * s.Tt).p.z < 0)

def rotC (p : Par α) (s : St α) : Bool :=
  let lim := p.rotLimit - (0.0001 : α)
  !(decide (s.rel.R.a11 ≤ lim) || decide (s.rel.R.a22 ≤ lim) || decide (s.rel.R.a33 ≤ lim))

def distC (p : Par α) (s : St α) : Bool :=
  decide (2 * p.nominalH < norm3 (s.Tb.p - s.Tt.p))

/-- `fsr.angleBetween(p1, p2, p3)` (the trailing angleMod is the identity on [0, π]) -/
def angleBetween (p1 p2 p3 : V3 α) : α :=
  let v1 := p1 - p2
  let v2 := p3 - p2
  acos (safeClip (V3.dot v1 v2 / (norm3 v1 * norm3 v2)) (-1) 1)

def zip3With {β γ δ ε : Type} (f : β → γ → δ → ε) : List β → List γ → List δ → List ε
  | a :: as, b :: bs, c :: cs => f a b c :: zip3With f as bs cs
  | _, _, _ => []

/-- `getJointAnglesFromNorm` -/
def jointAngles (s : St α) : List α :=
  let ib := transInv s.Tb
  let it := transInv s.Tt
  zip3With (fun b t h => angleBetween (ib.act t) (ib.act b) h) s.bs s.ts s.homeB ++
  zip3With (fun b t h => angleBetween (it.act b) (it.act t) h) s.bs s.ts s.homeT

def intC (p : Par α) (s : St α) : Bool := (jointAngles s).all fun a => decide (sabs a ≤ p.deflMax)

/-- `validate(donothing=True, limit)`: pure -/
def validateDN (p : Par α) (s : St α) (limit : Nat) : Bool :=
  let v := !distC p s
  let v := if 0 < limit ∧ s.set0 then v && legC p s else v
  let v := if 1 < limit ∧ s.set1 then v && contC s else v
  let v := if 2 < limit ∧ s.set2 then v && intC p s else v
  let v := if 3 < limit ∧ s.set3 then v && rotC p s else v
  v

/-- `_FKRaphson(solve_fallback=False)`: what the platform does with the outcome of SPFKinSpaceR (one retry from the
    neutral pose); an exception inside the kernel, like a second failure, resets the platform to the neutral pose -/
def fkRaphsonNF (p : Par α) (s : St α) (bottom : T4 α) : List (Sol α) → Option (T4 α × T4 α × St α × List (Sol α))
  | Sol.raph a false :: o =>
    let coords := bottom * taaToTM a
    some (bottom, coords, setPlate (ikHelper s coords bottom) bottom coords, o)
  | Sol.raph _ true :: Sol.raph a false :: o =>
    let coords := bottom * taaToTM a
    some (bottom, coords, setPlate (ikHelper s coords bottom) bottom coords, o)
  | Sol.raph _ true :: Sol.raph _ true :: o =>
    let s := ikP s (bottom * nominal p) bottom
    some (s.Tb, s.Tt, s, o)
  | Sol.raised :: o =>
    let s := ikP s (bottom * nominal p) bottom
    some (s.Tb, s.Tt, s, o)
  | Sol.raph _ true :: Sol.raised :: o =>
    let s := ikP s (bottom * nominal p) bottom
    some (s.Tb, s.Tt, s, o)
  | _ => none

/-- `_FKSolve`: the fsolve root is normalised through its matrix; if the platform placed there does not have the requested
    lengths (or is invalid) the platform is put back where FK started and `_FKRaphson` runs without further fallback -/
def fkSolve (p : Par α) (s : St α) (L : List α) (bottom : T4 α) (protect : Bool) :
    List (Sol α) → Option (T4 α × T4 α × St α × List (Sol α))
  | Sol.fsolve x :: o =>
    let sol := taaToTM x
    let s1 := ikP s sol bottom
    let bad := (List.zipWith (fun l n => decide ((0.00001 : α) < sabs (sabs l - sabs n))) L s1.lens).any id
    if bad || !validateDN p s1 4 then fkRaphsonNF p (ikP s1 s.Tt bottom) bottom o
    else
      let s2 := if protect then s1 else ikP s1 s1.Tt s1.Tb
      some (bottom, sol, s2, o)
  | _ => none

/-- `_FKRaphson` as FK calls it: an exception inside the kernel falls back to `_FKSolve` -/
def fkRaphson (p : Par α) (s : St α) (L : List α) (bottom : T4 α) (protect : Bool) :
    List (Sol α) → Option (T4 α × T4 α × St α × List (Sol α))
  | Sol.raised :: o => fkSolve p s L bottom protect o
  | Sol.raph a true :: Sol.raised :: o => fkSolve p s L bottom protect o
  | o => fkRaphsonNF p s bottom o

/-- the solver call of FK with the stored solver choice -/
def fkSolverAt (p : Par α) (s : St α) (L : List α) (B : T4 α) (protect : Bool) (o : List (Sol α)) :
    Option (T4 α × T4 α × St α × List (Sol α)) :=
  if s.fkMode = 0 then fkSolve p s L B protect o else fkRaphson p s L B protect o

/-- … over the bottom plate pose the platform currently holds -/
def fkSolver (p : Par α) (s : St α) (L : List α) (protect : Bool) (o : List (Sol α)) :
    Option (T4 α × T4 α × St α × List (Sol α)) := fkSolverAt p s L s.Tb protect o

/-- after the solver: an upside-down result is repaired (`_fixUpsideDown`: the repaired top pose is an oracle input) and
    the derived state is rewritten from the repaired plates; the relative transform is that of the poses returned -/
def fkFinish (bottom top : T4 α) (s : St α) (o : List (Sol α)) : Option (T4 α × St α × List (Sol α)) :=
  if contC s then some (top, { s with rel := transInv bottom * top }, o)
  else
    match o with
    | Sol.fsolve _ :: Sol.fix T' :: o' =>
      let s1 := setPlate (ikHelper s T' s.Tb) s.Tb T'
      some (T', { s1 with repaired := true }, o')
    | _ => none

/-- the solver part of FK and what follows it up to (not including) validation -/
def fkCoreAt (p : Par α) (s : St α) (L : List α) (B : T4 α) (o : List (Sol α)) (protect : Bool) : Option (T4 α × St α × List (Sol α)) :=
  match fkSolverAt p s L B protect o with
  | none => none
  | some (bottom, top, s', o') => fkFinish bottom top s' o'

def fkCore (p : Par α) (s : St α) (L : List α) (o : List (Sol α)) (protect : Bool) : Option (T4 α × St α × List (Sol α)) :=
  fkCoreAt p s L s.Tb o protect

/-- index of the first smallest / first largest element (what Python's `min` / `max` return a view of) -/
def argBest (better : α → α → Bool) : List α → Nat → Nat → α → Nat
  | [], _, best, _ => best
  | x :: xs, i, best, bv => if better x bv then argBest better xs (i + 1) i x else argBest better xs (i + 1) best bv

def argMin (l : List α) : Nat := argBest (fun x b => decide (x < b)) l.tail 1 0 (l.headD 0)
def argMax (l : List α) : Nat := argBest (fun x b => decide (b < x)) l.tail 1 0 (l.headD 0)

/-- `_rescaleLegLengths` as it executes: `min(self.lengths)` / `max(self.lengths)` are *views* of rows of the
    length array, so the bounds used for leg i are the current (possibly already rescaled) values of the
    legs that were shortest / longest on entry -/
def rescaleLive (p : Par α) (imin imax : Nat) : Nat → Nat → List α → List α
  | 0, _, l => l
  | n + 1, i, l =>
    let cmin := l.getD imin 0
    let cmax := l.getD imax 0
    let li := l.getD i 0
    let v := (li - cmin) / (cmax - cmin) * (smin p.lmax cmax - smax p.lmin cmin) + smax p.lmin cmin
    rescaleLive p imin imax n (i + 1) (l.set i v)

/-- new leg lengths chosen by `_lengthCorrectiveAction` -/
def correctedLens (p : Par α) (lens : List α) : List α :=
  let imin := argMin lens
  let imax := argMax lens
  let cmin := lens.getD imin 0
  let cmax := lens.getD imax 0
  let rescale := rescaleLive p imin imax lens.length 0 lens
  if cmin < p.lmin ∧ p.lmax < cmax then rescale
  else if cmin < p.lmin ∧ cmax + (p.lmin - cmin) + p.safety < p.lmax then
    lens.map (· + ((p.lmin - cmin) + p.safety))
  else if p.lmax < cmax ∧ p.lmin < cmin - (cmax - p.lmax) - p.safety then
    lens.map (· - ((cmax - p.lmax) + p.safety))
  else rescale

/-- the leg-length stage of `validate()`: on failure the lengths are corrected, FK is run on them with protection,
    and the verdict is re-derived by `validate(True, 1)` -/
def vLegs (p : Par α) (s : St α) (o : List (Sol α)) (v : Bool) : Option (Bool × St α × List (Sol α)) :=
  if s.set0 then
    if legC p s then some (v, s, o)
    else
      match fkCore p s (correctedLens p s.lens) o true with
      | some (_, s', o') => some (validateDN p s' 1, s', o')
      | none => none
  else some (v, s, o)

/-- one of the three later stages: on failure the platform is reset to the neutral pose (protected IK) and the
    verdict is re-derived by `validate(True, lim)` -/
def vStage (p : Par α) (en : St α → Bool) (c : St α → Bool) (lim : Nat) (vs : Bool × St α) : Bool × St α :=
  if en vs.2 then
    if c vs.2 then vs
    else
      let s' := ikP vs.2 (vs.2.Tb * nominal p) vs.2.Tb
      (validateDN p s' lim, s')
  else vs

/-- `validate()` with corrective actions; returns the verdict, the (possibly corrected) state, the unused oracle -/
def validate (p : Par α) (s : St α) (o : List (Sol α)) : Option (Bool × St α × List (Sol α)) :=
  match vLegs p s o (!distC p s) with
  | none => none
  | some (v, s, o) =>
    let r := vStage p (·.set3) (rotC p) 4 (vStage p (·.set2) (intC p) 3 (vStage p (·.set1) contC 2 (v, s)))
    some (r.1, r.2, o)

/-- `IK(top, bottom, protect=False)` -/
def ik (p : Par α) (s : St α) (Tt Tb : T4 α) (o : List (Sol α)) : Option (Bool × St α × List (Sol α)) :=
  validate p (ikP s Tt Tb) o

/-- the tail of a reversed FK: the solved relative pose is re-expressed with the old top plate held fixed -/
def fkReverse (p : Par α) (savedTop top : T4 α) (v : Bool) (s : St α) (o : List (Sol α)) :
    Option (T4 α × Bool × St α × List (Sol α)) :=
  match ik p s savedTop (savedTop * transInv s.rel) o with
  | none => none
  | some (_, s', o') => some (top, v, s', o')

/-- `FK(L, plate_pos, reverse, protect)` with the stored solver choice: solved over the bottom pose `B` given by the caller — the
    platform's own bottom pose when the call is reversed (the argument is then ignored, as in the code) -/
def fkAt (p : Par α) (s : St α) (L : List α) (B : T4 α) (reverse protect : Bool) (o : List (Sol α)) :
    Option (T4 α × Bool × St α × List (Sol α)) :=
  match fkCoreAt p s L (if reverse then s.Tb else B) o protect with
  | none => none
  | some (top, s1, o1) =>
    if protect then
      if reverse then fkReverse p s.Tt top true s1 o1 else some (top, true, s1, o1)
    else
      match validate p s1 o1 with
      | none => none
      | some (v, s2, o2) =>
        if reverse then fkReverse p s.Tt top v s2 o2 else some (top, v, s2, o2)

/-- `FK(L, reverse, protect)`: no bottom pose given -/
def fk (p : Par α) (s : St α) (L : List α) (reverse protect : Bool) (o : List (Sol α)) :
    Option (T4 α × Bool × St α × List (Sol α)) := fkAt p s L s.Tb reverse protect o

/-- `move(new_pos)` -/
def move (p : Par α) (s : St α) (T : T4 α) (o : List (Sol α)) : Option (St α × List (Sol α)) :=
  let rel := transInv s.Tb * s.Tt
  match ik p { s with rel := rel, Tb := T } (T * rel) T o with
  | none => none
  | some (_, s', o') => some (s', o')

def rotZ (r : α) : T4 α := taaToTM ⟨⟨0, 0, 0⟩, ⟨0, 0, r⟩⟩

/-- the re-spun plate-local coordinates: x, y from the joint positions in space (platform at the rotated base),
    z kept; and the home tables derived from them -/
def respin (p : Par α) (s1 s2 : St α) : St α :=
  let legs := zip3With (fun (l : Leg α) (b t : V3 α) => (⟨⟨b.x, b.y, l.b.z⟩, ⟨t.x, t.y, l.t.z⟩⟩ : Leg α)) s1.legs s1.bs s1.ts
  { s2 with legs := legs, bs := s1.bs, ts := s1.ts,
            homeB := legs.map (fun l => (nominal p).act l.t),
            homeT := legs.map (fun l => (transInv (nominal p)).act l.b) }

/-- `spinCustom(rot)` -/
def spinCustom (p : Par α) (s : St α) (rot : α) (o : List (Sol α)) : Option (St α × List (Sol α)) :=
  match move p s T4.one o with
  | none => none
  | some (s0, o0) =>
    match move p s0 (rotZ rot) o0 with
    | none => none
    | some (s1, o1) =>
      match move p s1 T4.one o1 with
      | none => none
      | some (s2, o2) => move p (respin p s1 s2) s.Tb o2

/-- `inverseJacobian(protect)` on the current poses: the rows and the state left behind -/
def inverseJacobian (p : Par α) (s : St α) (protect : Bool) (o : List (Sol α)) :
    Option (List (V6 α) × St α × List (Sol α)) :=
  if protect then
    let s1 := ikP s s.Tt s.Tb
    some (invJac s1.bs s1.ts, ikP s1 s.Tt s.Tb, o)
  else
    match ik p s s.Tt s.Tb o with
    | none => none
    | some (_, s1, o1) => some (invJac s1.bs s1.ts, ikP s1 s.Tt s.Tb, o1)

/-- rotation angle of the relative transform, as `randomPos` measures it (norm of the TAA rotation part) -/
def relAngle (s : St α) : α := norm3 (vee (matrixLog3 s.rel.R))

/-- `randomPos(max_attempts, min_deviation)`; `Ls` are the random length vectors it draws -/
def randomPos (p : Par α) (minDev : α) : List (List α) → St α → List (Sol α) → Option (St α × List (Sol α))
  | [], s, o => some (s, o)
  | L :: Ls, s, o =>
    match fk p s L false false o with
    | none => none
    | some (_, _, s1, o1) =>
      match validate p s1 o1 with
      | none => none
      | some (v, s2, o2) =>
        if v ∧ minDev < relAngle s2 then some (s2, o2) else randomPos p minDev Ls s2 o2

/-! ### histories -/

/-- one public call together with the solver outputs recorded while it ran -/
inductive Op (α : Type) where
  | ik (Tt : T4 α) (o : List (Sol α))
  | fk (L : List α) (reverse protect : Bool) (o : List (Sol α))
  | fkAt (L : List α) (B : T4 α) (reverse protect : Bool) (o : List (Sol α))     -- FK with an explicit bottom plate pose
  | move (T : T4 α) (o : List (Sol α))
  | spin (rot : α) (o : List (Sol α))
  | validate (o : List (Sol α))
  | validateDN
  | invJac (protect : Bool) (o : List (Sol α))     -- also staticForces (protect) and carryMassCalc (no protect)
  | randomPos (minDev : α) (Ls : List (List α)) (o : List (Sol α))
  | switches (a b c d : Bool)
  | mode (m : Nat)

/-- (verdict if the call returns one, new state, number of recorded solver outputs left unused) -/
def step (p : Par α) (s : St α) : Op α → Option (Option Bool × St α × Nat)
  | Op.ik Tt o => (ik p s Tt s.Tb o).map fun (v, s', o') => (some v, s', o'.length)
  | Op.fk L rev prot o => (fk p s L rev prot o).map fun (_, v, s', o') => (some v, s', o'.length)
  | Op.fkAt L B rev prot o => (fkAt p s L B rev prot o).map fun (_, v, s', o') => (some v, s', o'.length)
  | Op.move T o => (move p s T o).map fun (s', o') => (none, s', o'.length)
  | Op.spin r o => (spinCustom p s r o).map fun (s', o') => (none, s', o'.length)
  | Op.validate o => (validate p s o).map fun (v, s', o') => (some v, s', o'.length)
  | Op.validateDN => some (some (validateDN p s 4), s, 0)
  | Op.invJac prot o => (inverseJacobian p s prot o).map fun (_, s', o') => (none, s', o'.length)
  | Op.randomPos d Ls o => (randomPos p d Ls s o).map fun (s', o') => (none, s', o'.length)
  | Op.switches a b c d => some (none, { s with set0 := a, set1 := b, set2 := c, set3 := d }, 0)
  | Op.mode m => some (none, { s with fkMode := m }, 0)

/-- a history; `none` when some call's recorded solver outputs do not fit the control flow -/
def run (p : Par α) : St α → List (Op α) → Option (St α)
  | s, [] => some s
  | s, op :: ops =>
    match step p s op with
    | some (_, s', _) => run p s' ops
    | none => none

end BR.SP
