/-
  Model of RRTStar.generalGenerateTree / findPath(General) of
  basic_robotics/path_planning/pathplanner.py.  The sample generator, the distance function,
  the collision detector and the spatial index are an *oracle trace*: what they answered in
  each iteration is the input of the model, and is arbitrary in the theorems.
  The spatial index stores pickled snapshots, so "the tree" is the list of stored values
  addressed by insertion order; node 0 is the root.
-/
import BR.Scalar

namespace BR.RRT
open OrdField

variable {α : Type} [OrdField α]

structure Node (α : Type) where
  parent : Option Nat
  cost : α
  /-- the oracle's distance answer for (this node, its parent) at the time the link was made -/
  edge : α

/-- one neighbour examined in the choose-parent step -/
structure Cand (α : Type) where
  id : Nat
  dist : α
  collides : Bool

/-- oracle answers of one iteration (after the rejection loop has accepted a sample) -/
structure Iter (α : Type) where
  /-- the then-nearest tree node of the accepted sample, its distance, the detector's answer -/
  nearest : Nat
  dist0 : α
  coll0 : Bool
  /-- the k nearest neighbours as the index returned them, with the callbacks' answers -/
  cands : List (Cand α)

/-- the rejection loop's test: resample while this holds -/
def rejected (dmin dmax : α) (it : Iter α) : Prop := dmax < it.dist0 ∨ it.dist0 < dmin ∨ it.coll0 = true

instance (dmin dmax : α) (it : Iter α) : Decidable (rejected dmin dmax it) := by unfold rejected; infer_instance

def costOf (tree : List (Node α)) (i : Nat) : α := ((tree[i]?).map Node.cost).getD 0

/-- choose-parent fold: current best (parent, cost, edge) updated by a strictly cheaper free candidate -/
def choose (tree : List (Node α)) (best : Nat × α × α) (c : Cand α) : Nat × α × α :=
  if c.dist + costOf tree c.id < best.2.1 ∧ c.collides = false then (c.id, c.dist + costOf tree c.id, c.dist)
  else best

/-- insert the accepted sample of one iteration -/
def insert (tree : List (Node α)) (it : Iter α) : List (Node α) :=
  let start : Nat × α × α := (it.nearest, it.dist0 + costOf tree it.nearest, it.dist0)
  let best := it.cands.foldl (choose tree) start
  tree ++ [{ parent := some best.1, cost := best.2.1, edge := best.2.2 }]

def root : Node α := { parent := none, cost := 0, edge := 0 }

def generate (its : List (Iter α)) : List (Node α) := its.foldl insert [root]

/-- walk parent links from node i (fuel bounds the walk); returns the ids from the root down to i -/
def pathTo (tree : List (Node α)) : Nat → Nat → List Nat
  | 0, i => [i]
  | fuel + 1, i =>
    match (tree[i]?).bind Node.parent with
    | some p => pathTo tree fuel p ++ [i]
    | none => [i]

end BR.RRT
