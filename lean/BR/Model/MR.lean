/-
  Model of basic_robotics/modern_robotics_numba/modern_high_performance.py (chapters 3–5),
  same branch structure and constants as the code.  Generic over the scalar type
  (Float: run by the driver; ℝ: theorems).  Import-free.
-/
import BR.LinAlg

namespace BR.MR
open OrdField Scalar

variable {α : Type} [Scalar α]

/-- `NearZero`: |z| < 1e-6 -/
def nearZero (z : α) : Prop := sabs z < (1e-6 : α)
instance (z : α) : Decidable (nearZero z) := by unfold nearZero; infer_instance

def norm3 (v : V3 α) : α := sqrt (v.x * v.x + v.y * v.y + v.z * v.z)
def normalize (v : V3 α) : V3 α := V3.sdiv v (norm3 v)

/-- `VecToso3` -/
def hat (w : V3 α) : M3 α := ⟨0, -w.z, w.y, w.z, 0, -w.x, -w.y, w.x, 0⟩
/-- `so3ToVec` -/
def vee (m : M3 α) : V3 α := ⟨m.a32, m.a13, m.a21⟩

def axisAng3 (w : V3 α) : V3 α × α := (normalize w, norm3 w)

/-- `MatrixExp3` (takes the 3×3 matrix, as the code does) -/
def matrixExp3 (so3 : M3 α) : M3 α :=
  let w := vee so3
  if nearZero (norm3 w) then M3.one
  else
    let θ := norm3 w
    let K := M3.sdiv so3 θ
    M3.one + M3.smul (sin θ) K + M3.smul (1 - cos θ) (K * K)

def safeClip (x mn mx : α) : α := smin mx (smax x mn)

/-- `MatrixLog3` with its three branches (and three pivots in the half-turn branch) -/
def matrixLog3 (R : M3 α) : M3 α :=
  let acosinput := (M3.trace R - 1) / 2
  if 1 ≤ acosinput then M3.zero
  else if acosinput ≤ -1 then
    let omg : V3 α :=
      if ¬ nearZero (1 + R.a33) then
        V3.smul (1 / sqrt (2 * (1 + R.a33))) ⟨R.a13, R.a23, 1 + R.a33⟩
      else if ¬ nearZero (1 + R.a22) then
        V3.smul (1 / sqrt (2 * (1 + R.a22))) ⟨R.a12, 1 + R.a22, R.a32⟩
      else
        V3.smul (1 / sqrt (2 * (1 + R.a11))) ⟨1 + R.a11, R.a21, R.a31⟩
    hat (V3.smul pi omg)
  else
    let θ := acos (safeClip acosinput (-1) 1)
    M3.smul (θ / 2 / sin θ) (R - R.T)

/-- which branch `matrixLog3` takes (reported to the harness for coverage) -/
def log3Branch (R : M3 α) : Nat :=
  let acosinput := (M3.trace R - 1) / 2
  if 1 ≤ acosinput then 0
  else if acosinput ≤ -1 then
    if ¬ nearZero (1 + R.a33) then 2 else if ¬ nearZero (1 + R.a22) then 3 else 4
  else 1

/-- `TransInv` -/
def transInv (T : T4 α) : T4 α := ⟨T.R.T, V3.smul (-1) (T.R.T.mulVec T.p)⟩

/-- `VecTose3`: twist (ω, v) -> (hat ω, v) with zero bottom row -/
def hat6 (V : V6 α) : T4 α := ⟨hat V.a, V.b⟩
/-- `se3ToVec` -/
def vee6 (m : T4 α) : V6 α := ⟨vee m.R, m.p⟩

/-- `Adjoint` -/
def adjoint (T : T4 α) : M6 α := ⟨T.R, M3.zero, hat T.p * T.R, T.R⟩

/-- `ad` -/
def ad (V : V6 α) : M6 α := ⟨hat V.a, M3.zero, hat V.b, hat V.a⟩

/-- `ScrewToAxis` -/
def screwToAxis (q s : V3 α) (h : α) : V6 α := ⟨s, V3.cross q s + V3.smul h s⟩

/-- `AxisAng6` -/
def axisAng6 (V : V6 α) : V6 α × α :=
  let θ0 := norm3 V.a
  let θ := if nearZero θ0 then norm3 V.b else θ0
  (V6.sdiv V θ, θ)

/-- `MatrixExp6` -/
def matrixExp6 (se3 : T4 α) : T4 α :=
  let w := vee se3.R
  if nearZero (norm3 w) then ⟨M3.one, se3.p⟩
  else
    let θ := norm3 w
    let K := M3.sdiv se3.R θ
    let G := M3.smul θ M3.one + M3.smul (1 - cos θ) K + M3.smul (θ - sin θ) (K * K)
    ⟨matrixExp3 se3.R, V3.sdiv (G.mulVec se3.p) θ⟩

def m3IsZero (m : M3 α) : Prop :=
  m.a11 = 0 ∧ m.a12 = 0 ∧ m.a13 = 0 ∧ m.a21 = 0 ∧ m.a22 = 0 ∧ m.a23 = 0 ∧ m.a31 = 0 ∧ m.a32 = 0 ∧ m.a33 = 0

/-- `MatrixLog6`; `isZero` stands for `np.array_equal(omgmat, zeros)` and is a parameter only
    because equality of scalars is not part of `OrdField`; the instances supply it. -/
def matrixLog6 (eq0 : M3 α → Bool) (T : T4 α) : T4 α :=
  let omgmat := matrixLog3 T.R
  if eq0 omgmat then ⟨M3.zero, T.p⟩
  else
    let θ := acos (safeClip ((M3.trace T.R - 1) / 2) (-1) 1)
    let lterm := M3.one - M3.sdiv omgmat 2 +
      M3.sdiv (M3.smul (1 / θ - 1 / tan (θ / 2) / 2) (omgmat * omgmat)) θ
    ⟨omgmat, lterm.mulVec T.p⟩

/-- `FKinSpace`: product of exponentials, last joint applied first to M (as the loop does) -/
def fkinSpace (M : T4 α) : List (V6 α × α) → T4 α
  | [] => M
  | (S, θ) :: rest => matrixExp6 (hat6 (V6.smul θ S)) * fkinSpace M rest

/-- `FKinBody` -/
def fkinBody (M : T4 α) (joints : List (V6 α × α)) : T4 α :=
  joints.foldl (fun T j => T * matrixExp6 (hat6 (V6.smul j.2 j.1))) M

/-- `JacobianSpace`: column i = Ad(e^{S1θ1}…e^{S(i-1)θ(i-1)}) S_i -/
def jacobianSpaceAux (T : T4 α) : List (V6 α × α) → List (V6 α)
  | [] => []
  | (S, θ) :: rest =>
    (adjoint T).mulVec S :: jacobianSpaceAux (T * matrixExp6 (hat6 (V6.smul θ S))) rest

def jacobianSpace (joints : List (V6 α × α)) : List (V6 α) :=
  match joints with
  | [] => []
  | (S, θ) :: rest => S :: jacobianSpaceAux (T4.one * matrixExp6 (hat6 (V6.smul θ S))) rest

/-- `JacobianBody`: column i = Ad(e^{-B_nθ_n}…e^{-B_{i+1}θ_{i+1}}) B_i, built from the last joint -/
def jacobianBodyAux : List (V6 α × α) → T4 α × List (V6 α)
  | [] => (T4.one, [])
  | [(B, _)] => (T4.one, [B])
  | (B, _) :: (B', θ') :: rest =>
    let (T, cols) := jacobianBodyAux ((B', θ') :: rest)
    let T' := T * matrixExp6 (hat6 (V6.smul (-θ') B'))
    (T', (adjoint T').mulVec B :: cols)

def jacobianBody (joints : List (V6 α × α)) : List (V6 α) := (jacobianBodyAux joints).2

/-- `CubicTimeScaling(Tf, t)`: 3 (t/Tf)^2 - 2 (t/Tf)^3 (port and reference are the same text) -/
def cubicTimeScaling (Tf t : α) : α :=
  let u := 1 * t / Tf
  3 * (u * u) - 2 * (u * u * u)

/-- `QuinticTimeScaling(Tf, t)`: 10 (t/Tf)^3 - 15 (t/Tf)^4 + 6 (t/Tf)^5 -/
def quinticTimeScaling (Tf t : α) : α :=
  let u := 1 * t / Tf
  10 * (u * u * u) - 15 * (u * u * u * u) + 6 * (u * u * u * u * u)

end BR.MR

namespace BR.MR
/-- exact-zero test on a Float 3×3 (`np.array_equal(m, zeros)`) -/
def m3IsZeroF (m : M3 Float) : Bool :=
  m.a11 == 0 && m.a12 == 0 && m.a13 == 0 && m.a21 == 0 && m.a22 == 0 && m.a23 == 0 &&
  m.a31 == 0 && m.a32 == 0 && m.a33 == 0
end BR.MR
